import ProductMD.Proofs.TreeInfoWriter
/-!
Validity as the treeinfo writer and reader enforce it: which `validate()` calls succeeded when `serialize` did
(`WriteValid`), and which ones the reader makes on the tree it has built (`ReadValid`).
-/
namespace PM
namespace TI
open Ini

mutual
/-- `Variant.validate()` holds for a variant (parent UID `pu`) and for every variant below it -/
def ValidV (pu : Option Str) : Variant → Prop
  | .mk _ id uid name type _ kids =>
    validateClass "treeinfo.Variant" (variantObj pu id uid name type kids) = .ok () ∧ ValidVs (some uid) kids
def ValidVs (pu : Option Str) : List Variant → Prop
  | [] => True
  | v :: vs => ValidV pu v ∧ ValidVs pu vs
end

theorem ValidVs_iff (pu : Option Str) : ∀ vs : List Variant, ValidVs pu vs ↔ ∀ v ∈ vs, ValidV pu v
  | [] => by simp [ValidVs]
  | v :: vs => by simp [ValidVs, ValidVs_iff pu vs]

mutual
theorem serVariant_valid : ∀ (v : Variant) (pu : Option Str) (d d' : Ini), serVariant pu d v = .ok d' → ValidV pu v
  | .mk key id uid name type paths kids, pu, d, d', h => by
    simp only [serVariant] at h
    split at h
    · cases h
    · rename_i hv
      split at h
      · cases h
      · split at h
        · cases h
        · split at h
          · cases h
          · split at h
            · cases h
            · split at h
              · cases h
              · rename_i d4 hk
                exact ⟨hv, serVariants_valid kids (some uid) _ d4 hk⟩
theorem serVariants_valid : ∀ (vs : List Variant) (pu : Option Str) (d d' : Ini), serVariants pu d vs = .ok d' → ValidVs pu vs
  | [], _, _, _, _ => trivial
  | v :: vs, pu, d, d', h => by
    simp only [serVariants] at h
    split at h
    · cases h
    · rename_i d1 hv
      exact ⟨serVariant_valid v pu d d1 hv, serVariants_valid vs pu d1 d' h⟩
end

/-- the `validate()` calls that succeeded when the tree was written -/
structure WriteValid (t : TreeInfo) : Prop where
  header : validateClass "treeinfo.Header" (headerObj t.headerVersion) = .ok ()
  release : validateClass "treeinfo.Release" (releaseObj t.release t.isLayered) = .ok ()
  base : t.isLayered = true → ∃ p, t.baseProduct = some p ∧ validateClass "treeinfo.BaseProduct" (productObj p) = .ok ()
  tree : validateClass "treeinfo.Tree" (treeObj t.tree) = .ok ()
  tops : validateClass "treeinfo.Variants" (variantsObj t.variants) = .ok ()
  forest : ValidVs none t.variants
  checksums : validateClass "treeinfo.Checksums" (checksumsObj t.checksums) = .ok ()
  images : t.images.isEmpty = false → validateClass "treeinfo.Images" (imagesObj t.images t.tree.platforms) = .ok ()
  stage2 : stage2On t.mainimage t.instimage = true → validateClass "treeinfo.Stage2" (stage2Obj t.mainimage t.instimage) = .ok ()
  media : mediaOn t.discnum t.totaldiscs = true → validateClass "treeinfo.Media" (mediaObj t.discnum t.totaldiscs) = .ok ()

theorem unit_eq {x : Except Err Unit} {u : Unit} (h : x = .ok u) : x = .ok () := h

theorem serialize_valid {t : TreeInfo} {mv : Option Str} {d : Ini} (h : serialize t mv = .ok d) : WriteValid t := by
  unfold serialize at h
  obtain ⟨_, _, h⟩ := bind_ok h
  unfold serializeInto at h
  obtain ⟨_, _, h⟩ := bind_ok h
  obtain ⟨d1, h1, h⟩ := bind_ok h
  obtain ⟨d2, h2, h⟩ := bind_ok h
  obtain ⟨d3, h3, h⟩ := bind_ok h
  obtain ⟨d4, h4, h⟩ := bind_ok h
  obtain ⟨d5, h5, h⟩ := bind_ok h
  obtain ⟨d6, h6, h⟩ := bind_ok h
  obtain ⟨d7, h7, h⟩ := bind_ok h
  obtain ⟨d8, h8, h⟩ := bind_ok h
  obtain ⟨d9, h9, h⟩ := bind_ok h
  refine ⟨?_, (serRelease_spec h2).2, ?_, (serTree_spec h4).2, ?_, ?_, (serChecksums_spec h6).2, (serImages_spec h7).2, ?_, ?_⟩
  · unfold serHeader at h1
    obtain ⟨u, hv, _⟩ := bind_ok h1
    exact unit_eq hv
  · intro hl
    unfold serBaseIf at h3
    simp only [hl, if_true] at h3
    obtain ⟨p, hp, _, hv⟩ := serBase_spec h3
    exact ⟨p, hp, hv⟩
  · unfold serTops at h5
    obtain ⟨u, hv, _⟩ := bind_ok h5
    exact unit_eq hv
  · unfold serTops at h5
    obtain ⟨_, _, h5⟩ := bind_ok h5
    obtain ⟨d4', _, h5⟩ := bind_ok h5
    exact serVariants_valid _ _ _ _ h5
  · intro hon
    unfold serStage2 at h8
    have : (!optTruthy t.mainimage && !optTruthy t.instimage) = false := by
      unfold stage2On at hon
      cases hm : optTruthy t.mainimage <;> cases hi : optTruthy t.instimage <;> simp_all
    simp only [this] at h8
    obtain ⟨u, hv, _⟩ := bind_ok h8
    exact unit_eq hv
  · intro hon
    unfold serMedia at h9
    have : (!intTruthy t.discnum && !intTruthy t.totaldiscs) = false := by
      unfold mediaOn at hon
      cases hm : intTruthy t.discnum <;> cases hi : intTruthy t.totaldiscs <;> simp_all
    simp only [this] at h9
    obtain ⟨u, hv, _⟩ := bind_ok h9
    exact unit_eq hv

/-- the `validate()` calls the reader makes on the tree it has built (header, release and base product are read
back verbatim and need no separate hypothesis) -/
structure ReadValid (t : TreeInfo) : Prop where
  tree : validateClass "treeinfo.Tree" (treeObj t.tree) = .ok ()
  tops : validateClass "treeinfo.Variants" (variantsObj t.variants) = .ok ()
  forest : ValidVs none t.variants
  checksums : validateClass "treeinfo.Checksums" (checksumsObj t.checksums) = .ok ()
  images : validateClass "treeinfo.Images" (imagesObj t.images t.tree.platforms) = .ok ()
  stage2 : validateClass "treeinfo.Stage2" (stage2Obj t.mainimage t.instimage) = .ok ()
  media : validateClass "treeinfo.Media" (mediaObj t.discnum t.totaldiscs) = .ok ()

end TI
end PM
