import ProductMD.Proofs.ImagesSerialize
import ProductMD.Proofs.RulesJEq
import ProductMD.Proofs.Assoc
/-!
C08 for images manifests: the document `Images.serialize` builds is a function of the *multiset of filings*
`(variant, arch, image content)`; with pairwise distinct paths inside every cell the per-cell sort by path makes the order
of every JSON array canonical, and `sort_keys` does the rest (`JEq`).

Route: `serializeCells` is a fold of `outAppend` over the filings (`Proofs/ImagesSerialize.lean`); the table it builds is
observed through `cellOf o v a` (the array written for cell `(v, a)`), which is the sorted insertion of the cell's filings;
two tables with distinct keys, no empty containers and `JEqL`-related cells are the same content.
-/
namespace PM.Img
open PM PM.PyOps PM.Spec
set_option Elab.async false

/-! ### the same image content -/

/-- attribute by attribute the same content (dict-valued attributes - `checksums` - up to entry order) -/
structure Image.Same (i j : Image) : Prop where
  path : JEq i.path j.path
  mtime : JEq i.mtime j.mtime
  size : JEq i.size j.size
  volume_id : JEq i.volume_id j.volume_id
  type : JEq i.type j.type
  format : JEq i.format j.format
  arch : JEq i.arch j.arch
  disc_number : JEq i.disc_number j.disc_number
  disc_count : JEq i.disc_count j.disc_count
  checksums : JEq i.checksums j.checksums
  implant_md5 : JEq i.implant_md5 j.implant_md5
  bootable : JEq i.bootable j.bootable
  subvariant : JEq i.subvariant j.subvariant
  unified : JEq i.unified j.unified
  additional_variants : JEq i.additional_variants j.additional_variants

theorem Image.Same.refl (i : Image) : Image.Same i i :=
  ⟨.refl _, .refl _, .refl _, .refl _, .refl _, .refl _, .refl _, .refl _, .refl _, .refl _, .refl _, .refl _, .refl _, .refl _, .refl _⟩

theorem Image.Same.objEq {i j : Image} (h : Image.Same i j) : ObjEq i.toObj j.toObj :=
  .cons ⟨rfl, h.path⟩ (.cons ⟨rfl, h.mtime⟩ (.cons ⟨rfl, h.size⟩ (.cons ⟨rfl, h.volume_id⟩ (.cons ⟨rfl, h.type⟩
  (.cons ⟨rfl, h.format⟩ (.cons ⟨rfl, h.arch⟩ (.cons ⟨rfl, h.disc_number⟩ (.cons ⟨rfl, h.disc_count⟩
  (.cons ⟨rfl, h.checksums⟩ (.cons ⟨rfl, h.implant_md5⟩ (.cons ⟨rfl, h.bootable⟩ (.cons ⟨rfl, h.subvariant⟩
  (.cons ⟨rfl, h.unified⟩ (.cons ⟨rfl, h.additional_variants⟩ .nil))))))))))))))

/-- no validator of `Image` is hand-bound: all of them are in the translated idiom (re-checked on the generated file) -/
theorem image_rules_noCustom : Gen.rules_images_Image.flat.all Rule.noCustom = true := by decide

/-- validators cannot tell the two apart -/
theorem Image.Same.validate_eq {i j : Image} (h : Image.Same i j) : i.validate = j.validate := by
  rw [validate_unfold, validate_unfold]
  exact runRules_jeq customs h.objEq _ image_rules_noCustom

theorem jeqD_of_all2 : ∀ {l l' : List (Str × PyVal)}, All2 (fun a b => a.1 = b.1 ∧ JEq a.2 b.2) l l' → JEqD l l'
  | _, _, .nil => .nil
  | _, _, @All2.cons _ _ _ a b _ _ r t => by
    obtain ⟨ka, va⟩ := a; obtain ⟨kb, vb⟩ := b
    obtain ⟨hk, hv⟩ := r
    simp only at hk hv
    subst hk
    exact .cons ka hv (jeqD_of_all2 t)

theorem Image.Same.dict_jeq {i j : Image} (h : Image.Same i j) : JEq i.dict j.dict := by
  unfold Image.dict
  rw [← h.unified.truthy_eq]
  split
  · refine .dict (jeqD_of_all2 ?_) (by simp only [List.map_cons, List.map_nil, List.map_append]; decide)
    exact .cons ⟨rfl, h.path⟩ (.cons ⟨rfl, h.mtime⟩ (.cons ⟨rfl, h.size⟩ (.cons ⟨rfl, h.volume_id⟩ (.cons ⟨rfl, h.type⟩
      (.cons ⟨rfl, h.format⟩ (.cons ⟨rfl, h.arch⟩ (.cons ⟨rfl, h.disc_number⟩ (.cons ⟨rfl, h.disc_count⟩
      (.cons ⟨rfl, h.checksums⟩ (.cons ⟨rfl, h.implant_md5⟩ (.cons ⟨rfl, h.bootable⟩ (.cons ⟨rfl, h.subvariant⟩
      (.cons ⟨rfl, h.unified⟩ (.cons ⟨rfl, h.additional_variants⟩ .nil))))))))))))))
  · refine .dict (jeqD_of_all2 ?_) (by simp only [List.map_cons, List.map_nil, List.map_append]; decide)
    exact .cons ⟨rfl, h.path⟩ (.cons ⟨rfl, h.mtime⟩ (.cons ⟨rfl, h.size⟩ (.cons ⟨rfl, h.volume_id⟩ (.cons ⟨rfl, h.type⟩
      (.cons ⟨rfl, h.format⟩ (.cons ⟨rfl, h.arch⟩ (.cons ⟨rfl, h.disc_number⟩ (.cons ⟨rfl, h.disc_count⟩
      (.cons ⟨rfl, h.checksums⟩ (.cons ⟨rfl, h.implant_md5⟩ (.cons ⟨rfl, h.bootable⟩ (.cons ⟨rfl, h.subvariant⟩ .nil))))))))))))

theorem dict_get_path (i : Image) : i.dict.get? (L "path") = some i.path := by
  unfold Image.dict
  split <;> rfl

theorem c8PathKey_dict (i : Image) : pathKey i.dict = match i.path with | .str s => s | _ => [] := by
  unfold pathKey
  rw [dict_get_path]
  cases i.path <;> rfl

theorem Image.Same.pathKey_eq {i j : Image} (h : Image.Same i j) : pathKey i.dict = pathKey j.dict := by
  rw [c8PathKey_dict, c8PathKey_dict]
  have := h.path
  revert this; generalize i.path = a; generalize j.path = b; intro hg
  cases hg <;> rfl

/-! ### `jsonSafe` does not depend on entry order -/

mutual
theorem jsonSafe_jeq : ∀ {a b : PyVal}, JEq a b → jsonSafe a = jsonSafe b
  | _, _, .refl _ => rfl
  | _, _, .list h => by simp only [jsonSafe]; exact jsonSafeList_jeq h
  | _, _, .dict h _ => by simp only [jsonSafe]; exact jsonSafeKvs_jeq h
theorem jsonSafeList_jeq : ∀ {a b : List PyVal}, JEqL a b → jsonSafeList a = jsonSafeList b
  | _, _, .nil => rfl
  | _, _, .cons h t => by simp only [jsonSafeList, jsonSafe_jeq h, jsonSafeList_jeq t]
theorem jsonSafeKvs_jeq : ∀ {a b : List (Str × PyVal)}, JEqD a b → jsonSafeKvs a = jsonSafeKvs b
  | _, _, .nil => rfl
  | _, _, .cons _ h t => by simp only [jsonSafeKvs, jsonSafe_jeq h, jsonSafeKvs_jeq t]
  | _, _, .swap a b l => by
    obtain ⟨ka, va⟩ := a; obtain ⟨kb, vb⟩ := b
    simp only [jsonSafeKvs]
    cases jsonSafe va <;> cases jsonSafe vb <;> rfl
  | _, _, .trans h1 h2 => (jsonSafeKvs_jeq h1).trans (jsonSafeKvs_jeq h2)
end

/-! ### the sort by path -/

def PSorted (l : List PyVal) : Prop := l.Pairwise (fun a b => pathKey a ≤ pathKey b)

theorem c8InsertByPath_sorted (d : PyVal) (l : List PyVal) (h : PSorted l) : PSorted (insertByPath d l) := by
  induction l with
  | nil => simp [insertByPath, PSorted]
  | cons x xs ih =>
    unfold PSorted at h
    have hx := List.pairwise_cons.mp h
    unfold insertByPath
    cases hlt : Str.lt (pathKey d) (pathKey x) with
    | true =>
      simp only [if_true]
      refine List.pairwise_cons.mpr ⟨?_, h⟩
      intro y hy
      rcases List.mem_cons.mp hy with rfl | hy
      · exact lt_le hlt
      · exact List.le_trans (lt_le hlt) (hx.1 y hy)
    | false =>
      simp only [Bool.false_eq_true, if_false]
      refine List.pairwise_cons.mpr ⟨?_, ih hx.2⟩
      intro y hy
      rcases List.mem_cons.mp ((insertByPath_perm d xs).mem_iff.mp hy) with rfl | hy
      · exact not_lt_le hlt
      · exact hx.1 y hy

theorem c8Foldl_insert_sorted (l acc : List PyVal) (h : PSorted acc) :
    PSorted (l.foldl (fun acc d => insertByPath d acc) acc) := by
  induction l generalizing acc with
  | nil => exact h
  | cons x xs ih => exact ih _ (c8InsertByPath_sorted x acc h)

theorem c8SortByPath_sorted (l : List PyVal) : PSorted (sortByPath l) :=
  c8Foldl_insert_sorted l [] List.Pairwise.nil

/-- what a cell holds after the filings `ds` were appended one by one (each append re-sorts) -/
def c8CellFold (ds : List PyVal) (l : List PyVal) : List PyVal := ds.foldl (fun l d => sortByPath (l ++ [d])) l

theorem c8CellFold_perm (ds l : List PyVal) : (c8CellFold ds l).Perm (l ++ ds) := by
  induction ds generalizing l with
  | nil => simp [c8CellFold]
  | cons d ds ih =>
    simp only [c8CellFold, List.foldl_cons]
    refine (ih _).trans ?_
    have := (sortByPath_perm (l ++ [d])).append_right ds
    simpa using this

theorem c8CellFold_sorted (ds l : List PyVal) (h : PSorted l) : PSorted (c8CellFold ds l) := by
  induction ds generalizing l with
  | nil => exact h
  | cons d ds ih =>
    simp only [c8CellFold, List.foldl_cons]
    exact ih _ (c8SortByPath_sorted _)

/-! ### observing the output table through its cells -/

def archCell (as : List (Str × List PyVal)) (a : Str) : List PyVal := (as.lookup a).getD []
def cellOf (o : OutCells) (v a : Str) : List PyVal := archCell ((o.lookup v).getD []) a

open Ini in
theorem archCell_append (as : List (Str × List PyVal)) (a a' : Str) (d : PyVal) :
    archCell (outArchAppend as a d) a' = if a' = a then sortByPath (archCell as a ++ [d]) else archCell as a' := by
  induction as with
  | nil =>
    simp only [outArchAppend, archCell, lookup_cons_eq]
    by_cases h : a = a'
    · subst h; simp [List.lookup]
    · have : ¬ a' = a := fun e => h e.symm
      simp [h, this, List.lookup]
  | cons al rest ih =>
    obtain ⟨a0, l⟩ := al
    unfold outArchAppend
    split
    · rename_i h
      have h' : a0 = a := by simpa using h
      subst h'
      simp only [archCell, lookup_cons_eq]
      by_cases h2 : a0 = a'
      · subst h2; simp
      · have : ¬ a' = a0 := fun e => h2 e.symm
        simp [h2, this]
    · rename_i h
      have h' : ¬ a0 = a := by simpa using h
      simp only [archCell, lookup_cons_eq] at ih ⊢
      by_cases h2 : a0 = a'
      · subst h2
        have : ¬ a0 = a := h'
        simp [this]
      · simp only [h2, if_false]
        rw [ih]
        by_cases h3 : a' = a
        · subst h3; simp [h']
        · simp [h3]

open Ini in
theorem cellOf_append (o : OutCells) (v a v' a' : Str) (d : PyVal) :
    cellOf (outAppend o v a d) v' a' = if v' = v ∧ a' = a then sortByPath (cellOf o v a ++ [d]) else cellOf o v' a' := by
  induction o with
  | nil =>
    simp only [outAppend, cellOf, lookup_cons_eq]
    by_cases h : v = v'
    · subst h
      simp only [if_true, Option.getD_some, true_and]
      have := archCell_append [] a a' d
      simp only [outArchAppend] at this
      rw [this]
      simp [archCell, List.lookup]
    · have : ¬ v' = v := fun e => h e.symm
      simp [h, this, List.lookup, archCell]
  | cons va rest ih =>
    obtain ⟨v0, as⟩ := va
    unfold outAppend
    split
    · rename_i h
      have h' : v0 = v := by simpa using h
      subst h'
      simp only [cellOf, lookup_cons_eq]
      by_cases h2 : v0 = v'
      · subst h2
        simp only [if_true, Option.getD_some, true_and]
        exact archCell_append as a a' d
      · have : ¬ v' = v0 := fun e => h2 e.symm
        simp [h2, this]
    · rename_i h
      have h' : ¬ v0 = v := by simpa using h
      simp only [cellOf, lookup_cons_eq] at ih ⊢
      by_cases h2 : v0 = v'
      · subst h2
        simp [h']
      · simp only [h2, if_false]
        rw [ih]
        by_cases h3 : v' = v
        · subst h3; simp [h']
        · simp [h3]

/-- the filings of cell `(v, a)`, in the order they are met -/
def cellFilings (ts : List (Str × Str × Image)) (v a : Str) : List (Str × Str × Image) :=
  ts.filter fun t => t.1 == v && t.2.1 == a

theorem cellOf_outFold (ts : List (Str × Str × Image)) (out : OutCells) (v a : Str) :
    cellOf (outFold ts out) v a = c8CellFold ((cellFilings ts v a).map (·.2.2.dict)) (cellOf out v a) := by
  induction ts generalizing out with
  | nil => rfl
  | cons t rest ih =>
    obtain ⟨tv, ta, ti⟩ := t
    simp only [outFold, List.foldl_cons] at ih ⊢
    rw [ih]
    rw [cellOf_append]
    simp only [cellFilings, List.filter_cons]
    by_cases h : v = tv ∧ a = ta
    · obtain ⟨rfl, rfl⟩ := h
      simp [c8CellFold]
    · have : (tv == v && ta == a) = false := by
        rw [Bool.and_eq_false_iff]
        by_cases h1 : v = tv
        · right; simp only [beq_eq_false_iff_ne, ne_eq]; exact fun e => h ⟨h1, e.symm⟩
        · left; simp only [beq_eq_false_iff_ne, ne_eq]; exact fun e => h1 e.symm
      simp [h, this]

/-! ### no empty containers -/

/-- distinct keys at both levels, no variant without an arch, no arch without an image: what the writer builds -/
structure OutInv (o : OutCells) : Prop where
  nodup : OutNodup o
  arches : ∀ va ∈ o, va.2 ≠ []
  cells : ∀ va ∈ o, ∀ al ∈ va.2, al.2 ≠ []

theorem sortByPath_ne_nil (l : List PyVal) (d : PyVal) : sortByPath (l ++ [d]) ≠ [] := by
  intro h
  have := (sortByPath_perm (l ++ [d])).length_eq
  rw [h] at this
  simp at this

theorem outArchAppend_ne_nil (as : List (Str × List PyVal)) (a : Str) (d : PyVal) : outArchAppend as a d ≠ [] := by
  cases as with
  | nil => simp [outArchAppend]
  | cons al rest =>
    unfold outArchAppend
    split <;> simp

theorem outArchAppend_cells (as : List (Str × List PyVal)) (a : Str) (d : PyVal) (h : ∀ al ∈ as, al.2 ≠ []) :
    ∀ al ∈ outArchAppend as a d, al.2 ≠ [] := by
  induction as with
  | nil =>
    intro al hal
    simp only [outArchAppend, List.mem_singleton] at hal
    subst hal
    exact sortByPath_ne_nil [] d
  | cons al0 rest ih =>
    obtain ⟨a0, l⟩ := al0
    intro al hal
    unfold outArchAppend at hal
    split at hal
    · rcases List.mem_cons.mp hal with e | e
      · subst e; exact sortByPath_ne_nil l d
      · exact h al (List.mem_cons_of_mem _ e)
    · rcases List.mem_cons.mp hal with e | e
      · subst e; exact h (a0, l) List.mem_cons_self
      · exact ih (fun x hx => h x (List.mem_cons_of_mem _ hx)) al e

theorem outAppend_inv (o : OutCells) (v a : Str) (d : PyVal) (h : OutInv o) : OutInv (outAppend o v a d) := by
  refine ⟨outAppend_nodup v a d o h.nodup, ?_, ?_⟩
  · have ha := h.arches
    clear h
    induction o with
    | nil =>
      intro va hva
      simp only [outAppend, List.mem_singleton] at hva
      subst hva; simp
    | cons va0 rest ih =>
      obtain ⟨v0, as⟩ := va0
      intro va hva
      unfold outAppend at hva
      split at hva
      · rcases List.mem_cons.mp hva with e | e
        · subst e; exact outArchAppend_ne_nil as a d
        · exact ha va (List.mem_cons_of_mem _ e)
      · rcases List.mem_cons.mp hva with e | e
        · subst e; exact ha (v0, as) List.mem_cons_self
        · exact ih (fun x hx => ha x (List.mem_cons_of_mem _ hx)) va e
  · have hc := h.cells
    clear h
    induction o with
    | nil =>
      intro va hva al hal
      simp only [outAppend, List.mem_singleton] at hva
      subst hva
      simp only [List.mem_singleton] at hal
      subst hal
      exact sortByPath_ne_nil [] d
    | cons va0 rest ih =>
      obtain ⟨v0, as⟩ := va0
      intro va hva
      unfold outAppend at hva
      split at hva
      · rcases List.mem_cons.mp hva with e | e
        · subst e; exact outArchAppend_cells as a d (hc (v0, as) List.mem_cons_self)
        · exact hc va (List.mem_cons_of_mem _ e)
      · rcases List.mem_cons.mp hva with e | e
        · subst e; exact hc (v0, as) List.mem_cons_self
        · exact ih (fun x hx => hc x (List.mem_cons_of_mem _ hx)) va e

theorem outFold_inv (ts : List (Str × Str × Image)) (out : OutCells) (h : OutInv out) : OutInv (outFold ts out) := by
  induction ts generalizing out with
  | nil => exact h
  | cons t rest ih => exact ih _ (outAppend_inv _ _ _ _ h)

theorem OutInv.nil : OutInv [] :=
  { nodup := ⟨List.nodup_nil, fun _ h => absurd h List.not_mem_nil⟩
    arches := fun _ h => absurd h List.not_mem_nil
    cells := fun _ h => absurd h List.not_mem_nil }

/-! keys in terms of cells -/

theorem OutInv.arch_iff {o : OutCells} (h : OutInv o) {v : Str} {as : List (Str × List PyVal)} (hm : (v, as) ∈ o) (a : Str) :
    a ∈ as.map (·.1) ↔ cellOf o v a ≠ [] := by
  have hl : o.lookup v = some as := Assoc.lookup_of_mem_nodup h.nodup.1 hm
  simp only [cellOf, hl, Option.getD_some, archCell]
  constructor
  · intro ha
    obtain ⟨l, hl2⟩ := Assoc.exists_of_mem_keys ha
    rw [hl2]
    exact h.cells _ hm _ (Assoc.mem_of_lookup hl2)
  · intro hne
    cases hl2 : as.lookup a with
    | none => simp [hl2] at hne
    | some l => exact Assoc.lookup_isSome_iff.mp (by simp [hl2])

theorem OutInv.variant_iff {o : OutCells} (h : OutInv o) (v : Str) :
    v ∈ o.map (·.1) ↔ ∃ a, cellOf o v a ≠ [] := by
  constructor
  · intro hv
    obtain ⟨as, hl⟩ := Assoc.exists_of_mem_keys hv
    have hm := Assoc.mem_of_lookup hl
    have hne := h.arches _ hm
    cases as with
    | nil => exact absurd rfl hne
    | cons al rest =>
      exact ⟨al.1, (h.arch_iff hm al.1).mp (by simp)⟩
  · rintro ⟨a, hne⟩
    cases hl : o.lookup v with
    | none => simp [cellOf, hl, archCell, List.lookup] at hne
    | some as => exact Assoc.lookup_isSome_iff.mp (by simp [hl])

theorem _root_.PM.JEqL.nil_iff {l l' : List PyVal} (h : JEqL l l') : l = [] ↔ l' = [] := by
  cases h <;> simp

/-- two tables without empty containers whose cells are the same content are the same content -/
theorem toPy_jeq {o o' : OutCells} (h : OutInv o) (h' : OutInv o') (hc : ∀ v a, JEqL (cellOf o v a) (cellOf o' v a)) :
    JEq o.toPy o'.toPy := by
  have hne : ∀ v a, cellOf o v a ≠ [] ↔ cellOf o' v a ≠ [] := fun v a => not_congr (hc v a).nil_iff
  unfold OutCells.toPy
  have keys : ∀ (x : OutCells), (x.map fun va => (va.1, PyVal.dict (va.2.map fun al => (al.1, PyVal.list al.2)))).map (·.1) = x.map (·.1) := by
    intro x; simp [List.map_map, Function.comp_def]
  have ikeys : ∀ (x : List (Str × List PyVal)), (x.map fun al => (al.1, PyVal.list al.2)).map (·.1) = x.map (·.1) := by
    intro x; simp [List.map_map, Function.comp_def]
  refine .dict (JEqD.of_lookup (by rw [keys]; exact h.nodup.1) (by rw [keys]; exact h'.nodup.1) ?_ ?_) (by rw [keys]; exact h.nodup.1)
  · intro v
    rw [keys, keys, h.variant_iff, h'.variant_iff]
    exact exists_congr (hne v)
  · intro v x x' hx hx'
    obtain ⟨⟨v1, as⟩, hm, he⟩ := List.mem_map.mp hx
    obtain ⟨⟨v2, as'⟩, hm', he'⟩ := List.mem_map.mp hx'
    simp only [Prod.mk.injEq] at he he'
    obtain ⟨hv1, hx1⟩ := he
    obtain ⟨hv2, hx2⟩ := he'
    rw [hv1] at hm; rw [hv2] at hm'
    rw [← hx1, ← hx2]
    have hn : (as.map (·.1)).Nodup := h.nodup.2 _ hm
    have hn' : (as'.map (·.1)).Nodup := h'.nodup.2 _ hm'
    refine .dict (JEqD.of_lookup (by rw [ikeys]; exact hn) (by rw [ikeys]; exact hn') ?_ ?_) (by rw [ikeys]; exact hn)
    · intro a
      rw [ikeys, ikeys, h.arch_iff hm, h'.arch_iff hm']
      exact hne v a
    · intro a y y' hy hy'
      obtain ⟨⟨a1, l⟩, hml, hel⟩ := List.mem_map.mp hy
      obtain ⟨⟨a2, l'⟩, hml', hel'⟩ := List.mem_map.mp hy'
      simp only [Prod.mk.injEq] at hel hel'
      obtain ⟨ha1, hy1⟩ := hel
      obtain ⟨ha2, hy2⟩ := hel'
      rw [ha1] at hml; rw [ha2] at hml'
      rw [← hy1, ← hy2]
      have e1 : cellOf o v a = l := by
        simp [cellOf, Assoc.lookup_of_mem_nodup h.nodup.1 hm, archCell, Assoc.lookup_of_mem_nodup hn hml]
      have e2 : cellOf o' v a = l' := by
        simp [cellOf, Assoc.lookup_of_mem_nodup h'.nodup.1 hm', archCell, Assoc.lookup_of_mem_nodup hn' hml']
      have := hc v a
      rw [e1, e2] at this
      exact .list this

/-! ### filings -/

/-- the same filing: same variant, same arch, same image content -/
def FSame (t t' : Str × Str × Image) : Prop := t.1 = t'.1 ∧ t.2.1 = t'.2.1 ∧ Image.Same t.2.2 t'.2.2

theorem FSame.refl (t : Str × Str × Image) : FSame t t := ⟨rfl, rfl, Image.Same.refl _⟩

/-- paths are pairwise distinct inside every cell -/
def DistinctPaths (ts : List (Str × Str × Image)) : Prop :=
  ∀ v a, ((cellFilings ts v a).map fun t => pathKey t.2.2.dict).Nodup

theorem all2_jeqL : ∀ {l l' : List PyVal}, All2 (fun a b => JEq a b ∧ pathKey a = pathKey b) l l' → JEqL l l'
  | _, _, .nil => .nil
  | _, _, .cons r t => .cons r.1 (all2_jeqL t)

theorem cellFold_jeqL {ds ds' : List PyVal} (hdicts : PermR (fun x y => JEq x y ∧ pathKey x = pathKey y) ds ds')
    (hd : (ds.map pathKey).Nodup) : JEqL (c8CellFold ds []) (c8CellFold ds' []) := by
  have p1 : (c8CellFold ds []).Perm ds := by simpa using c8CellFold_perm ds []
  have p2 : (c8CellFold ds' []).Perm ds' := by simpa using c8CellFold_perm ds' []
  have hR : PermR (fun x y => JEq x y ∧ pathKey x = pathKey y) (c8CellFold ds []) (c8CellFold ds' []) := by
    obtain ⟨m, hm, ha⟩ := hdicts
    obtain ⟨m', hm', ha'⟩ := PermR.all2_perm_swap ha p2.symm
    exact ⟨m', (p1.trans hm).trans hm', ha'⟩
  have hn : ((c8CellFold ds []).map pathKey).Nodup := (p1.map pathKey).nodup_iff.mpr hd
  exact all2_jeqL (PermR.sorted_all2 pathKey (fun _ _ h => h.2) (c8CellFold_sorted ds [] List.Pairwise.nil)
    (c8CellFold_sorted ds' [] List.Pairwise.nil) hn hR)

/-- **the document is a function of the multiset of filings** (distinct paths per cell) -/
theorem outFold_jeq {ts ts' : List (Str × Str × Image)} (hp : PermR FSame ts ts') (hd : DistinctPaths ts) :
    JEq (outFold ts []).toPy (outFold ts' []).toPy := by
  refine toPy_jeq (outFold_inv ts [] OutInv.nil) (outFold_inv ts' [] OutInv.nil) ?_
  intro v a
  rw [cellOf_outFold, cellOf_outFold]
  have hnil : cellOf [] v a = [] := rfl
  rw [hnil]
  have hf : PermR FSame (cellFilings ts v a) (cellFilings ts' v a) := by
    refine hp.filter _ ?_
    intro t t' ⟨h1, h2, _⟩
    rw [h1, h2]
  have hdicts : PermR (fun x y => JEq x y ∧ pathKey x = pathKey y)
      ((cellFilings ts v a).map (·.2.2.dict)) ((cellFilings ts' v a).map (·.2.2.dict)) :=
    hf.map (·.2.2.dict) (fun t t' ⟨_, _, hs⟩ => ⟨hs.dict_jeq, hs.pathKey_eq⟩)
  refine cellFold_jeqL hdicts ?_
  have := hd v a
  simpa [List.map_map, Function.comp_def] using this

/-! ### success of the writer = every filed image validates -/

theorem serializeCell_ok_valid (v a : Str) (c : Cell) (out o : OutCells) (h : serializeCell v a c out = .ok o) :
    ∀ e ∈ c, e.2.validate = .ok () := by
  induction c generalizing out with
  | nil => intro e he; cases he
  | cons e rest ih =>
    obtain ⟨id, img⟩ := e
    simp only [serializeCell, Image.serialize, bind, Except.bind] at h
    cases hv : img.validate with
    | error err => rw [hv] at h; cases h
    | ok u =>
      cases u
      rw [hv] at h
      intro e he
      rcases List.mem_cons.mp he with rfl | he
      · exact hv
      · exact ih _ h e he

theorem serializeArches_ok_valid (v : Str) (as : List (Str × Cell)) (out o : OutCells) (h : serializeArches v as out = .ok o) :
    ∀ ac ∈ as, ∀ e ∈ ac.2, e.2.validate = .ok () := by
  induction as generalizing out with
  | nil => intro ac hac; cases hac
  | cons ac rest ih =>
    obtain ⟨a, c⟩ := ac
    simp only [serializeArches, bind, Except.bind] at h
    cases hc : serializeCell v a c out with
    | error err => rw [hc] at h; cases h
    | ok o1 =>
      rw [hc] at h
      intro ac hac
      rcases List.mem_cons.mp hac with rfl | hac
      · exact serializeCell_ok_valid v a c out o1 hc
      · exact ih _ h ac hac

theorem serializeCells_ok_valid (cs : Cells) (out o : OutCells) (h : serializeCells cs out = .ok o) :
    ∀ va ∈ cs, ∀ ac ∈ va.2, ∀ e ∈ ac.2, e.2.validate = .ok () := by
  induction cs generalizing out with
  | nil => intro va hva; cases hva
  | cons va rest ih =>
    obtain ⟨v, as⟩ := va
    simp only [serializeCells, bind, Except.bind] at h
    cases hc : serializeArches v as out with
    | error err => rw [hc] at h; cases h
    | ok o1 =>
      rw [hc] at h
      intro va hva
      rcases List.mem_cons.mp hva with rfl | hva
      · exact serializeArches_ok_valid v as out o1 hc
      · exact ih _ h va hva

theorem valid_of_triples {cs : Cells} (h : ∀ t ∈ triples cs, t.2.2.validate = .ok ()) :
    ∀ va ∈ cs, ∀ ac ∈ va.2, ∀ e ∈ ac.2, e.2.validate = .ok () := by
  intro va hva ac hac e he
  refine h (va.1, ac.1, e.2) ?_
  simp only [triples, entries, List.mem_map, List.mem_flatMap]
  exact ⟨(va.1, ac.1, e.1, e.2), ⟨va, hva, ac, hac, e, he, rfl⟩, rfl⟩

theorem triples_valid {cs : Cells} (h : ∀ va ∈ cs, ∀ ac ∈ va.2, ∀ e ∈ ac.2, e.2.validate = .ok ()) :
    ∀ t ∈ triples cs, t.2.2.validate = .ok () := by
  intro t ht
  simp only [triples, entries, List.mem_map, List.mem_flatMap] at ht
  obtain ⟨x, ⟨va, hva, ac, hac, e, he, rfl⟩, rfl⟩ := ht
  exact h va hva ac hac e he

end PM.Img
