import ProductMD.Proofs.C05TIDownDoc
/-!
C05, treeinfo down-conversion: the accessors see a file only through its lookups (congruence of every current-format section
reader), the legacy-aware readers without their 0.0 fix-ups are the current ones, and the legacy-aware forest reader of a
version above 0.3 is the current forest reader.
-/
namespace PM.TI
open Ini
set_option Elab.async false

/-! ### the accessors see a file only through its lookups -/
section congr
variable {d d' : Ini}

theorem get_congr {s : Str} (h : d'.lookup s = d.lookup s) (h0 : d'.lookup DEFAULT = d.lookup DEFAULT) (k : Str) :
    Ini.get d' s k = Ini.get d s k := by unfold Ini.get Ini.defaults; rw [h, h0]
theorem hasOption_congr {s : Str} (h : d'.lookup s = d.lookup s) (h0 : d'.lookup DEFAULT = d.lookup DEFAULT) (k : Str) :
    Ini.hasOption d' s k = Ini.hasOption d s k := by unfold Ini.hasOption Ini.defaults; rw [h, h0]
theorem hasSection_congr {s : Str} (h : d'.lookup s = d.lookup s) : Ini.hasSection d' s = Ini.hasSection d s := by
  unfold Ini.hasSection; rw [h]
theorem items_congr {s : Str} (h : d'.lookup s = d.lookup s) (h0 : d'.lookup DEFAULT = d.lookup DEFAULT) :
    Ini.items d' s = Ini.items d s := by unfold Ini.items Ini.defaults; rw [h, h0]

theorem deBase_congr (h : d'.lookup sBase = d.lookup sBase) (h0 : d'.lookup DEFAULT = d.lookup DEFAULT) : deBase d' = deBase d := by
  unfold deBase; simp only [get_congr h h0]

theorem deTree_congr (fo : FloatOracle) (h : d'.lookup sTree = d.lookup sTree) (hg : d'.lookup sGeneral = d.lookup sGeneral)
    (h0 : d'.lookup DEFAULT = d.lookup DEFAULT) : deTree fo .v1_0 d' = deTree fo .v1_0 d := by
  unfold deTree
  simp only [hasSection_congr h]
  split <;> simp only [get_congr h h0, get_congr hg h0]

theorem deChecksums_congr (h : d'.lookup sChecksums = d.lookup sChecksums) (h0 : d'.lookup DEFAULT = d.lookup DEFAULT) :
    deChecksums d' = deChecksums d := by
  unfold deChecksums; simp only [hasSection_congr h, items_congr h h0]

theorem deStage2_congr (h : d'.lookup sStage2 = d.lookup sStage2) (h0 : d'.lookup DEFAULT = d.lookup DEFAULT) :
    deStage2 d' = deStage2 d := by
  unfold deStage2; simp only [hasOption_congr h h0, get_congr h h0]

theorem deMedia_congr (h : d'.lookup sMedia = d.lookup sMedia) (h0 : d'.lookup DEFAULT = d.lookup DEFAULT) :
    deMedia .v1_0 d' = deMedia .v1_0 d := by
  unfold deMedia; simp only [hasSection_congr h, get_congr h h0]

theorem deImageSections_congr (arch : Str) (h0 : d'.lookup DEFAULT = d.lookup DEFAULT) :
    ∀ (ss : List Str) (acc : List (Str × List (Str × Str))), (∀ s ∈ ss, isImg s = true → d'.lookup s = d.lookup s) →
      deImageSections d' arch ss acc = deImageSections d arch ss acc
  | [], _, _ => rfl
  | s :: ss, acc, h => by
    have ih := fun acc => deImageSections_congr arch h0 ss acc (fun x hx => h x (List.mem_cons_of_mem _ hx))
    simp only [deImageSections]
    split
    · rename_i hs
      rw [items_congr (h s (List.mem_cons_self ..) hs) h0]
      cases items d s with
      | error e => rfl
      | ok its => exact ih _
    · exact ih _

theorem deImages_congr (tree : Tree) (h0 : d'.lookup DEFAULT = d.lookup DEFAULT)
    (h : ∀ s, isImg s = true → d'.lookup s = d.lookup s) (hn : (sections d').filter isImg = (sections d).filter isImg) :
    deImages d' tree = deImages d tree := by
  unfold deImages
  rw [deImageSections_filter d', deImageSections_filter d, hn, deImageSections_congr tree.arch h0 _ _ (fun s _ hs => h s hs)]
end congr

/-! ### the legacy-aware readers without their fix-ups are the current ones -/

theorem fixPath_false (p : Str) : Legacy.fixPath false p = p := by simp [Legacy.fixPath]

theorem deChecksumItemsL_false : ∀ (its : List (Str × Str)) (acc : List (Str × Str × Str)),
    Legacy.deChecksumItemsL false its acc = deChecksumItems its acc
  | [], _ => rfl
  | kv :: rest, acc => by
    simp only [Legacy.deChecksumItemsL, deChecksumItems, fixPath_false]
    cases checksumOf kv.2 with
    | error e => rfl
    | ok tv => exact deChecksumItemsL_false rest _

theorem deChecksumsL_false (d : Ini) : Legacy.deChecksumsL false d = deChecksums d := by
  unfold Legacy.deChecksumsL deChecksums
  simp only [deChecksumItemsL_false]

theorem deImageSectionsL_false (d : Ini) (arch : Str) : ∀ (ss : List Str) (acc : List (Str × List (Str × Str))),
    Legacy.deImageSectionsL false d arch ss acc = deImageSections d arch ss acc
  | [], _ => rfl
  | s :: ss, acc => by
    simp only [Legacy.deImageSectionsL, deImageSections, fixPath_false]
    split
    · cases items d s with
      | error e => rfl
      | ok its => exact deImageSectionsL_false d arch ss _
    · exact deImageSectionsL_false d arch ss _

theorem deImagesL_false (d : Ini) (tree : Tree) : Legacy.deImagesL false d tree = deImages d tree := by
  unfold Legacy.deImagesL deImages
  simp only [deImageSectionsL_false]

theorem deStage2L_false (d : Ini) : Legacy.deStage2L false d = deStage2 d := by
  unfold Legacy.deStage2L deStage2
  have : (some ∘ Legacy.fixPath false : Str → Option Str) = some := by funext p; simp [fixPath_false]
  simp only [this]

theorem deMediaL_false (d : Ini) : Legacy.deMediaL false d = deMedia .v1_0 d := by simp [Legacy.deMediaL]
theorem deTreeL_false (fo : FloatOracle) (d : Ini) : Legacy.deTreeL fo false d = deTree fo .v1_0 d := by simp [Legacy.deTreeL]

end PM.TI

namespace PM.TI
open Ini
set_option Elab.async false

theorem loopFile_eq_loopAdd (rd : Str → Except Err Variant) : ∀ (us : List Str) (acc : List Variant),
    Legacy.loopFile rd us acc = loopAdd rd us acc
  | [], _ => rfl
  | u :: us, acc => by
    simp only [Legacy.loopFile, loopAdd]
    cases rd u with
    | error e => rfl
    | ok v =>
      simp only
      cases addKid acc v with
      | error e => rfl
      | ok acc' => exact loopFile_eq_loopAdd rd us acc'

/-- the container's `add` after `Variant.deserialize` -/
def fileAs : Option Str → Variant → Except Err Variant
  | none => Legacy.fileTop
  | some p => Legacy.fileChild p

theorem readVariant_v10 (S : Legacy.Sels) (c : Legacy.VCtx) (d : Ini) (h1 : S.variant = .v10) (h2 : S.paths = .v10)
    (h3 : S.addonFallback = true) :
    ∀ (f : Nat) (pu : Option Str) (uid0 : Str),
      (Legacy.readVariant S c d f pu.isSome uid0).bind (fileAs pu) = deVariant .v1_0 d f pu uid0
  | 0, _, _ => rfl
  | f + 1, pu, uid0 => by
    have ih : ∀ uid : Str, (fun u => (Legacy.readVariant S c d f true u).bind (Legacy.fileChild uid)) = deVariant .v1_0 d f (some uid) := by
      intro uid
      funext u
      exact readVariant_v10 S c d h1 h2 h3 f (some uid) u
    have ht : (if pu.isSome = true then (if (S.addonFallback && !hasSection d (secName tAddon uid0)) = true then tVariant else tAddon) else [])
        = type0Of d pu uid0 := by
      cases pu <;> simp [type0Of, h3]
      cases hasSection d (secName tAddon uid0) <;> rfl
    rw [Legacy.readVariant, deVariant]
    simp only [h1, ht, ih, loopFile_eq_loopAdd, h2, Legacy.dePathsL]
    by_cases he : uid0.isEmpty = true
    · simp [he, Except.bind]
    simp only [he, if_false]
    cases d.get (secName (type0Of d pu uid0) uid0) kId with
    | error e => rfl
    | ok id =>
    simp only
    cases d.get (secName (type0Of d pu uid0) uid0) kUid with
    | error e => rfl
    | ok uid =>
    simp only
    cases d.get (secName (type0Of d pu uid0) uid) kName with
    | error e => rfl
    | ok name =>
    simp only
    cases d.get (secName (type0Of d pu uid0) uid) kType with
    | error e => rfl
    | ok type =>
    simp only
    generalize (if d.hasOption (secName type uid) kAddons = true then
                  match d.get (secName type uid) kAddons with
                  | Except.error e => Except.error e
                  | Except.ok s => loopAdd (deVariant Gate.v1_0 d f (some uid)) (splitNonEmpty s) []
                else Except.ok []) = K
    cases K with
    | error e => rfl
    | ok kids =>
    simp only [bind, Except.bind, pure, Except.pure]
    cases dePaths d (secName type uid) Gen.TREEINFO_PATH_FIELDS with
    | error e => rfl
    | ok paths =>
    simp only
    cases validateClass "treeinfo.VariantPaths" [] with
    | error e => rfl
    | ok u =>
    simp only
    cases pu with
    | none => simp only [fileAs, Legacy.fileTop]; cases hv : validateClass "treeinfo.Variant" (variantObj none id uid name type kids) <;> simp [hv]
    | some p => simp only [fileAs, Legacy.fileChild]; cases hv : validateClass "treeinfo.Variant" (variantObj (some p) id uid name type kids) <;> simp [hv]
end PM.TI

namespace PM.TI
open Ini
set_option Elab.async false

theorem dePaths_congr {d d' : Ini} {sec : Str} (h : d'.lookup sec = d.lookup sec) (h0 : d'.lookup DEFAULT = d.lookup DEFAULT) :
    ∀ fs : List Str, dePaths d' sec fs = dePaths d sec fs
  | [] => rfl
  | f :: fs => by simp only [dePaths, hasOption_congr h h0, get_congr h h0, dePaths_congr h h0 fs]

theorem deVariant_congr {d d' : Ini} (h : ∀ s, headAV s → d'.lookup s = d.lookup s) (h0 : d'.lookup DEFAULT = d.lookup DEFAULT) :
    ∀ (f : Nat) (pu : Option Str) (uid0 : Str), deVariant .v1_0 d' f pu uid0 = deVariant .v1_0 d f pu uid0
  | 0, _, _ => rfl
  | f + 1, pu, uid0 => by
    have G : ∀ a b k, Ini.get d' (secName a b) k = Ini.get d (secName a b) k := fun a b k => get_congr (h _ (secName_headAV a b)) h0 k
    have HO : ∀ a b k, Ini.hasOption d' (secName a b) k = Ini.hasOption d (secName a b) k :=
      fun a b k => hasOption_congr (h _ (secName_headAV a b)) h0 k
    have HS : ∀ a b, Ini.hasSection d' (secName a b) = Ini.hasSection d (secName a b) := fun a b => hasSection_congr (h _ (secName_headAV a b))
    have P : ∀ a b fs, dePaths d' (secName a b) fs = dePaths d (secName a b) fs := fun a b fs => dePaths_congr (h _ (secName_headAV a b)) h0 fs
    have ih : ∀ pu, deVariant .v1_0 d' f pu = deVariant .v1_0 d f pu := fun pu => funext (deVariant_congr h h0 f pu)
    have T : type0Of d' pu uid0 = type0Of d pu uid0 := by unfold type0Of; simp only [HS]
    rw [deVariant, deVariant]
    simp only [G, HO, P, ih, T]

theorem deTops_congr {d d' : Ini} (h : ∀ s, headAV s → d'.lookup s = d.lookup s) (ht : d'.lookup sTree = d.lookup sTree)
    (h0 : d'.lookup DEFAULT = d.lookup DEFAULT) (hl : d'.length = d.length) : deTops .v1_0 d' = deTops .v1_0 d := by
  unfold deTops
  have : deVariant .v1_0 d' (d'.length + 1) none = deVariant .v1_0 d (d.length + 1) none := by
    rw [hl]; exact funext (deVariant_congr h h0 _ none)
  simp only [hasOption_congr ht h0, get_congr ht h0, this]

/-- for a version above 0.3 the legacy-aware forest reader is the current one -/
theorem deTopsL_current (S : Legacy.Sels) (c : Legacy.VCtx) (d : Ini) (h1 : S.variant = .v10) (h2 : S.paths = .v10)
    (h3 : S.addonFallback = true) (h4 : S.variants00 = false) : Legacy.deTopsL S c d = deTops .v1_0 d := by
  unfold Legacy.deTopsL deTops
  have : (fun u => (Legacy.readVariant S c d (d.length + 1) false u).bind Legacy.fileTop) = deVariant .v1_0 d (d.length + 1) none :=
    funext (readVariant_v10 S c d h1 h2 h3 (d.length + 1) none)
  simp only [h4, this, loopFile_eq_loopAdd]
  rfl
end PM.TI
