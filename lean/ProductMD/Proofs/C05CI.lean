import ProductMD.Model.ComposeInfoLegacy
import ProductMD.Properties.C01
/-!
C05, composeinfo: what a load through `Legacy.deserialize` (any version) has built, and agreement with the C01 reader.

* every variant container is keyed by id with no key twice (`WellKeyed`: what C01's theorems need) — for the explicit
  child lists of >= 1.0 documents and for the UID-prefix scan of older ones alike, because every child goes through `add`;
* `Legacy.deserialize` answers what `CI.deserialize` answers wherever the latter answers.
-/
namespace PM.CI.Legacy
open PM PM.CI
set_option Elab.async false

theorem collect_mem {α} : ∀ {l : List (Except Err α)} {r : List α}, collect l = .ok r → ∀ b ∈ r, (.ok b) ∈ l
  | [], r, h, b, hb => by simp only [collect] at h; injection h with h; subst h; cases hb
  | .error e :: rest, r, h, b, hb => by simp [collect] at h
  | .ok a :: rest, r, h, b, hb => by
    simp only [collect] at h
    cases hc : collect rest with
    | error e => rw [hc] at h; cases h
    | ok l =>
      rw [hc] at h
      injection h with h
      subst h
      rcases List.mem_cons.mp hb with rfl | hb
      · exact List.mem_cons_self
      · exact List.mem_cons_of_mem _ (collect_mem hc b hb)

theorem findKey_none_of {k : Str} : ∀ {acc : List Variant}, (findKey k acc).isSome = false → k ∉ acc.map Variant.key
  | [], _ => by simp
  | v :: vs, h => by
    simp only [findKey] at h
    by_cases hk : v.key = k
    · simp [hk] at h
    · simp only [hk, if_false] at h
      simp only [List.map_cons, List.mem_cons, not_or]
      exact ⟨fun e => hk e.symm, findKey_none_of h⟩

/-- `add()` in a loop: nothing is dropped or reordered, and no key is filed twice -/
theorem addAll_spec : ∀ (vs acc r : List Variant), addAll acc vs = .ok r → (∀ v ∈ vs, v.key = v.id) →
    (acc.map Variant.key).Nodup → r = acc ++ vs ∧ (r.map Variant.key).Nodup
  | [], acc, r, h, _, hn => by simp only [addAll] at h; injection h with h; subst h; simpa using hn
  | v :: vs, acc, r, h, hk, hn => by
    simp only [addAll] at h
    split at h
    · cases h
    · rename_i hf
      have hnot : v.id ∉ acc.map Variant.key := findKey_none_of (by simpa using hf)
      have hn' : ((acc ++ [v]).map Variant.key).Nodup := by
        rw [List.map_append, List.nodup_append]
        refine ⟨hn, by simp, ?_⟩
        intro a ha b hb
        simp only [List.map_cons, List.map_nil, List.mem_singleton] at hb
        subst hb
        intro e
        subst e
        rw [hk v List.mem_cons_self] at ha
        exact hnot ha
      obtain ⟨e, hr⟩ := addAll_spec vs (acc ++ [v]) r h (fun w hw => hk w (List.mem_cons_of_mem _ hw)) hn'
      exact ⟨by rw [e]; simp, hr⟩

theorem wellKeyedL_of : ∀ {vs : List Variant}, (∀ v ∈ vs, v.key = v.id ∧ wellKeyed v = true) → wellKeyedL vs = true
  | [], _ => rfl
  | v :: vs, h => by
    simp only [wellKeyedL, Bool.and_eq_true, decide_eq_true_eq]
    exact ⟨⟨(h v List.mem_cons_self).1, (h v List.mem_cons_self).2⟩, wellKeyedL_of (fun w hw => h w (List.mem_cons_of_mem _ hw))⟩

theorem map_id_eq_map_key : ∀ {vs : List Variant}, (∀ v ∈ vs, v.key = v.id) → vs.map Variant.id = vs.map Variant.key
  | [], _ => rfl
  | v :: vs, h => by
    simp only [List.map_cons]
    rw [h v List.mem_cons_self, map_id_eq_map_key (fun w hw => h w (List.mem_cons_of_mem _ hw))]

/-- a list of freshly built variants after the `add` loop: keyed by id, no id twice, well keyed below -/
theorem added_wellKeyed {built kids : List Variant} (hb : ∀ v ∈ built, v.key = v.id ∧ wellKeyed v = true)
    (h : addAll [] built = .ok kids) : (kids.map Variant.id).Nodup ∧ wellKeyedL kids = true := by
  obtain ⟨e, hn⟩ := addAll_spec built [] kids h (fun v hv => (hb v hv).1) (by simp)
  simp only [List.nil_append] at e
  subst e
  exact ⟨by rw [map_id_eq_map_key (fun v hv => (hb v hv).1)]; exact hn, wellKeyedL_of hb⟩

theorem buildL_wellKeyed (g : Gates) (full : PyVal) : ∀ (fuel : Nat) (ctx : Ctx) (vuid : Str) (v : Variant),
    buildL g full fuel ctx vuid = .ok v → v.key = v.id ∧ wellKeyed v = true := by
  intro fuel
  induction fuel with
  | zero => intro ctx vuid v h; simp [buildL] at h
  | succ n ih =>
    intro ctx vuid v h
    unfold buildL at h
    repeat' (first | split at h | dsimp only at h)
    all_goals first | (cases h; done) | skip
    have hcollect := ‹collect _ = Except.ok _›
    have hadd := ‹addAll [] _ = Except.ok _›
    injection h with h
    subst h
    refine ⟨rfl, ?_⟩
    have hb : ∀ b ∈ _, b.key = b.id ∧ wellKeyed b = true := fun b hb => by
      have hm := collect_mem hcollect b hb
      obtain ⟨k, _, hk⟩ := List.mem_map.mp hm
      exact ih _ _ b hk
    obtain ⟨h1, h2⟩ := added_wellKeyed hb hadd
    simp only [wellKeyed, Bool.and_eq_true, decide_eq_true_eq]
    exact ⟨h1, h2⟩


theorem variantsDeL_wellKeyed (g : Gates) (payload : PyVal) (vs : List Variant) (h : variantsDeL g payload = .ok vs) :
    wellKeyedTop vs = true := by
  unfold variantsDeL at h
  repeat' (first | split at h | dsimp only at h)
  all_goals first | (cases h; done) | skip
  all_goals
    have hcollect := ‹collect _ = Except.ok _›
    have hb : ∀ b ∈ _, b.key = b.id ∧ wellKeyed b = true := fun b hb => by
      have hm := collect_mem hcollect b hb
      obtain ⟨k, _, hk⟩ := List.mem_map.mp hm
      exact buildL_wellKeyed g _ _ _ _ b hk
    obtain ⟨h1, h2⟩ := added_wellKeyed hb h
    simp only [wellKeyedTop, Bool.and_eq_true, decide_eq_true_eq]
    exact ⟨h1, h2⟩

/-- **every loaded compose description is well keyed** (any format version) -/
theorem deserialize_wellKeyed (doc : PyVal) (ci : ComposeInfo) (h : deserialize doc = .ok ci) : WellKeyed ci := by
  unfold deserialize at h
  repeat' (first | split at h | dsimp only at h)
  all_goals first | (cases h; done) | skip
  have hv := ‹variantsDeL _ _ = Except.ok _›
  injection h with h
  subst h
  exact variantsDeL_wellKeyed _ _ _ hv

theorem gatesOf_eq (v : Nat × Nat) :
    gatesOf v = .ok ⟨PM.verLt v (0, 3), PM.verLe v (0, 3), PM.verLt v (1, 0), PM.verLt v (1, 0)⟩ := rfl

theorem ge_1_0 {v : Nat × Nat} (h : CI.verLt v (1, 0) = false) :
    PM.verLt v (0, 3) = false ∧ PM.verLe v (0, 3) = false ∧ PM.verLt v (1, 0) = false
    ∧ CI.verLt v (0, 3) = false ∧ CI.verLt (0, 3) v = true := by
  obtain ⟨a, b⟩ := v
  simp only [CI.verLt, PM.verLt, PM.verLe, Bool.or_eq_false_iff, Bool.and_eq_false_iff, decide_eq_false_iff_not,
    beq_eq_false_iff_ne, Bool.or_eq_true, Bool.and_eq_true, decide_eq_true_eq, beq_iff_eq] at h ⊢
  omega

theorem gatesOf_current {v : Nat × Nat} (h : CI.verLt v (1, 0) = false) : gatesOf v = .ok Gates.current := by
  rw [gatesOf_eq]
  obtain ⟨h1, h2, h3, _, _⟩ := ge_1_0 h
  rw [h1, h2, h3]
  rfl

theorem composeDe_any (ver : Nat × Nat) (p : PyVal) (c : Compose) (h : composeDe ver p = .ok c) :
    composeDe Gen.VERSION p = .ok c := by
  unfold composeDe at h ⊢
  split at h
  · cases h
  · rw [if_neg (by decide)]; exact h

theorem releaseDe_any (ver : Nat × Nat) (p : PyVal) (r : Release) (h : releaseDe ver p = .ok r) :
    releaseDe Gen.VERSION p = .ok r := by
  unfold releaseDe at h ⊢
  split at h
  · cases h
  · rw [if_neg (by decide)]; exact h

theorem collect_map_imp {α β} (f g : α → Except Err β) (hfg : ∀ x r, f x = .ok r → g x = .ok r) :
    ∀ (l : List α) (r : List β), collect (l.map f) = .ok r → collect (l.map g) = .ok r
  | [], r, h => h
  | x :: xs, r, h => by
    simp only [List.map_cons] at h ⊢
    cases hx : f x with
    | error e => rw [hx] at h; simp [collect] at h
    | ok a =>
      rw [hx] at h
      rw [hfg x a hx]
      simp only [collect] at h ⊢
      cases hc : collect (xs.map f) with
      | error e => rw [hc] at h; cases h
      | ok l =>
        rw [hc] at h
        rw [collect_map_imp f g hfg xs l hc]
        exact h

theorem variantReleaseDeL_of (ver : Nat × Nat) (t d : PyVal) (r : Option Release)
    (h : variantReleaseDe ver t d = .ok r) : variantReleaseDeL Gates.current t d = .ok r := by
  unfold variantReleaseDe at h
  unfold variantReleaseDeL releaseDeL
  split at h
  · rename_i hp
    rw [if_pos hp]
    simp only [Gates.current, Bool.false_eq_true, if_false]
    cases hr : releaseDe ver d with
    | error e => rw [hr] at h; cases h
    | ok rr => rw [hr] at h; rw [releaseDe_any ver d rr hr]; exact h
  · rename_i hp
    rw [if_neg hp]; exact h

theorem kidKeysL_of (ver : Nat × Nat) (hv : CI.verLt ver (1, 0) = false) (full data : PyVal) (uid vuid : Str) (ids : List Str)
    (h : kidIdsOf ver data = .ok ids) : kidKeysL Gates.current full data uid vuid = .ok (ids.map fun i => uid ++ '-' :: i) := by
  unfold kidIdsOf at h
  unfold kidKeysL kidIdsOf
  cases hg : data.get? k%"variants" with
  | none =>
    rw [hg] at h
    simp only [hv, Bool.false_eq_true, if_false] at h
    injection h with h
    subst h
    simp [Gates.current]
  | some kv =>
    rw [hg] at h
    simp only at h ⊢
    cases ha : asStrList kv with
    | error e => rw [ha] at h; cases h
    | ok l => rw [ha] at h; simp only at h ⊢; injection h with h; subst h; rfl

theorem buildL_of_build (ver : Nat × Nat) (hv : CI.verLt ver (1, 0) = false) (full : PyVal) :
    ∀ (fuel : Nat) (ctx : Ctx) (vuid : Str) (v : Variant),
      Variant.build ver full fuel ctx vuid = .ok v → buildL Gates.current full fuel ctx vuid = .ok v := by
  intro fuel
  induction fuel with
  | zero => intro ctx vuid v h; simp [Variant.build] at h
  | succ n ih =>
    intro ctx vuid v h
    unfold Variant.build at h
    repeat' (first | split at h | dsimp only at h)
    all_goals first | (cases h; done) | skip
    have hrel := variantReleaseDeL_of ver _ _ _ ‹variantReleaseDe ver _ _ = Except.ok _›
    have hkk := fun uid => kidKeysL_of ver hv full _ uid vuid _ ‹kidIdsOf ver _ = Except.ok _›
    have hcol := collect_map_imp _ (fun i => buildL Gates.current full n _ (_ ++ '-' :: i)) (fun i r hi => ih _ _ r hi) _ _ ‹collect _ = Except.ok _›
    unfold buildL
    simp only [*, List.map_map, Function.comp_def]

theorem cur_compose : Gates.current.compose = false := rfl
theorem cur_release : Gates.current.release = false := rfl
theorem cur_variants : Gates.current.variants = false := rfl
theorem cur_variant : Gates.current.variant = false := rfl

theorem variantsDeL_of (ver : Nat × Nat) (payload : PyVal) (vs : List Variant) (h : variantsDe ver payload = .ok vs) :
    CI.verLt ver (1, 0) = false ∧ variantsDeL Gates.current payload = .ok vs := by
  unfold variantsDe at h
  repeat' (first | split at h | dsimp only at h)
  all_goals first | (cases h; done) | skip
  have hv : CI.verLt ver (1, 0) = false := by simpa using ‹¬CI.verLt ver (1, 0) = true›
  refine ⟨hv, ?_⟩
  have hcol := collect_map_imp _ (fun u => buildL Gates.current _ _ none u)
    (fun u r hu => buildL_of_build ver hv _ _ _ _ r hu) _ _ ‹collect _ = Except.ok _›
  unfold variantsDeL
  simp only [*, cur_compose, cur_release, cur_variants, cur_variant, Bool.false_eq_true, if_false]

/-- **the legacy-aware reader extends the C01 reader**: whatever `CI.deserialize` answers, `Legacy.deserialize` answers too
(and the document was of format >= 1.0) -/
theorem deserialize_of_deserialize (doc : PyVal) (ci : ComposeInfo) (h : CI.deserialize doc = .ok ci) :
    deserialize doc = .ok ci := by
  unfold CI.deserialize at h
  repeat' (first | split at h | dsimp only at h)
  all_goals first | (cases h; done) | skip
  obtain ⟨hv, hvs⟩ := variantsDeL_of _ _ _ ‹variantsDe _ _ = Except.ok _›
  have hg := gatesOf_current hv
  have hc := composeDe_any _ _ _ ‹composeDe _ _ = Except.ok _›
  have hr := releaseDe_any _ _ _ ‹releaseDe _ _ = Except.ok _›
  unfold deserialize composeDeL releaseDeL
  simp only [*, cur_compose, cur_release, cur_variants, cur_variant, Bool.false_eq_true, if_false]

theorem asStr_iff {v : PyVal} {s : Str} : asStr v = .ok s ↔ v = .str s := by
  constructor
  · intro h; cases v <;> simp [asStr] at h; subst h; rfl
  · intro h; subst h; rfl

theorem asInt_iff {v : PyVal} {n : Int} : asInt v = .ok n ↔ v = .int n := by
  constructor
  · intro h; cases v <;> simp [asInt] at h; subst h; rfl
  · intro h; subst h; rfl

theorem composeDe03_valid (p : PyVal) (c : Compose) (h : composeDe03 p = .ok c) :
    validateClass "composeinfo.Compose" (composeObj c) = .ok () := by
  unfold composeDe03 at h
  repeat' (first | split at h | dsimp only at h)
  all_goals first | (cases h; done) | skip
  all_goals
    injection h with h
    subst h
    simp only [asStr_iff, asInt_iff] at *
    subst_vars
    have hv := ‹validateClass "composeinfo.Compose" _ = Except.ok PUnit.unit›
    have hl := ‹orNone _ = _›
    rw [hl] at hv
    exact hv

theorem composeDe_valid (ver : Nat × Nat) (p : PyVal) (c : Compose) (h : composeDe ver p = .ok c) :
    validateClass "composeinfo.Compose" (composeObj c) = .ok () := by
  unfold composeDe at h
  repeat' (first | split at h | dsimp only at h)
  all_goals first | (cases h; done) | skip
  all_goals
    injection h with h
    subst h
    simp only [asStr_iff, asInt_iff] at *
    subst_vars
    have hv := ‹validateClass "composeinfo.Compose" _ = Except.ok PUnit.unit›
    have hl := ‹orNone _ = _›
    rw [hl] at hv
    exact hv

theorem releaseDe03_valid (p : PyVal) (r : Release) (h : releaseDe03 p = .ok r) :
    validateClass "composeinfo.Release" (releaseObj r) = .ok () ∧ r.internal = false := by
  unfold releaseDe03 at h
  repeat' (first | split at h | dsimp only at h)
  all_goals first | (cases h; done) | skip
  all_goals
    injection h with h
    subst h
    simp only [asStr_iff, asInt_iff] at *
    subst_vars
    exact ⟨‹validateClass "composeinfo.Release" _ = Except.ok PUnit.unit›, trivial⟩

theorem releaseDe_valid (ver : Nat × Nat) (p : PyVal) (r : Release) (h : releaseDe ver p = .ok r) :
    validateClass "composeinfo.Release" (releaseObj r) = .ok () := by
  unfold releaseDe at h
  repeat' (first | split at h | dsimp only at h)
  all_goals first | (cases h; done) | skip
  all_goals
    injection h with h
    subst h
    simp only [asStr_iff, asInt_iff] at *
    subst_vars
    exact ‹validateClass "composeinfo.Release" _ = Except.ok PUnit.unit›

/-- **the sections of every loaded compose description validate**; a release read from a `product` section is not internal -/
theorem deserialize_sections_valid (doc : PyVal) (ci : ComposeInfo) (h : deserialize doc = .ok ci) :
    validateClass "composeinfo.Compose" (composeObj ci.compose) = .ok ()
    ∧ validateClass "composeinfo.Release" (releaseObj ci.release) = .ok () := by
  unfold deserialize at h
  repeat' (first | split at h | dsimp only at h)
  all_goals first | (cases h; done) | skip
  have hc := ‹composeDeL _ _ = Except.ok _›
  have hr := ‹releaseDeL _ _ = Except.ok _›
  injection h with h
  subst h
  refine ⟨?_, ?_⟩
  · unfold composeDeL at hc
    split at hc
    · exact composeDe03_valid _ _ hc
    · exact composeDe_valid _ _ _ hc
  · unfold releaseDeL at hr
    split at hr
    · exact (releaseDe03_valid _ _ hr).1
    · exact releaseDe_valid _ _ _ hr

mutual
/-- every variant passes the (generated) `Variant` validators against the parent it hangs under: id syntax, UID aligned with the
parent's UID (with the id at top level), name, type, non-empty arches contained in the parent's, container keys -/
def ValidV (ctx : Ctx) : Variant → Prop
  | .mk key id uid name type arches paths rel kids =>
    validateClass "composeinfo.Variant" (variantObj ctx (.mk key id uid name type arches paths rel kids)) = .ok ()
    ∧ (∀ r, rel = some r → validateClass "composeinfo.Release" (releaseObj r) = .ok ())
    ∧ ValidVs (some (uid, Str.sortDedup arches)) kids
def ValidVs (ctx : Ctx) : List Variant → Prop
  | [] => True
  | v :: vs => ValidV ctx v ∧ ValidVs ctx vs
end

theorem ValidVs_of (ctx : Ctx) : ∀ vs : List Variant, (∀ v ∈ vs, ValidV ctx v) → ValidVs ctx vs
  | [], _ => trivial
  | v :: vs, h => ⟨h v List.mem_cons_self, ValidVs_of ctx vs (fun w hw => h w (List.mem_cons_of_mem _ hw))⟩

theorem variantReleaseDeL_valid (g : Gates) (t d : PyVal) (rel : Option Release) (h : variantReleaseDeL g t d = .ok rel) :
    ∀ r, rel = some r → validateClass "composeinfo.Release" (releaseObj r) = .ok () := by
  unfold variantReleaseDeL at h
  split at h
  · cases hr : releaseDeL g d with
    | error e => rw [hr] at h; cases h
    | ok r0 =>
      rw [hr] at h
      injection h with h
      subst h
      intro r hr'
      injection hr' with hr'
      subst hr'
      unfold releaseDeL at hr
      split at hr
      · exact (releaseDe03_valid _ _ hr).1
      · exact releaseDe_valid _ _ _ hr
  · injection h with h
    subst h
    intro r hr
    cases hr

theorem buildL_valid (g : Gates) (full : PyVal) : ∀ (fuel : Nat) (ctx : Ctx) (vuid : Str) (v : Variant),
    buildL g full fuel ctx vuid = .ok v → ValidV ctx v := by
  intro fuel
  induction fuel with
  | zero => intro ctx vuid v h; simp [buildL] at h
  | succ n ih =>
    intro ctx vuid v h
    unfold buildL at h
    repeat' (first | split at h | dsimp only at h)
    all_goals first | (cases h; done) | skip
    have hcollect := ‹collect _ = Except.ok _›
    have hadd := ‹addAll [] _ = Except.ok _›
    have hval := ‹validateClass "composeinfo.Variant" _ = Except.ok PUnit.unit›
    have hrel := variantReleaseDeL_valid g _ _ _ ‹variantReleaseDeL g _ _ = Except.ok _›
    injection h with h
    subst h
    refine ⟨hval, hrel, ?_⟩
    rw [sortDedup_idem]
    obtain ⟨e, _⟩ := addAll_spec _ [] _ hadd (fun b hb => by
      have hm := collect_mem hcollect b hb
      obtain ⟨k, _, hk⟩ := List.mem_map.mp hm
      exact (buildL_wellKeyed g full _ _ _ b hk).1) (by simp)
    simp only [List.nil_append] at e
    subst e
    apply ValidVs_of
    intro b hb
    have hm := collect_mem hcollect b hb
    obtain ⟨k, _, hk⟩ := List.mem_map.mp hm
    exact ih _ _ b hk

theorem variantsDeL_valid (g : Gates) (payload : PyVal) (vs : List Variant) (h : variantsDeL g payload = .ok vs) :
    ValidVs none vs := by
  unfold variantsDeL at h
  repeat' (first | split at h | dsimp only at h)
  all_goals first | (cases h; done) | skip
  all_goals
    have hcollect := ‹collect _ = Except.ok _›
    obtain ⟨e, _⟩ := addAll_spec _ [] _ h (fun b hb => by
      have hm := collect_mem hcollect b hb
      obtain ⟨k, _, hk⟩ := List.mem_map.mp hm
      exact (buildL_wellKeyed g _ _ _ _ b hk).1) (by simp)
    simp only [List.nil_append] at e
    subst e
    apply ValidVs_of
    intro b hb
    have hm := collect_mem hcollect b hb
    obtain ⟨k, _, hk⟩ := List.mem_map.mp hm
    exact buildL_valid g _ _ _ _ b hk

theorem baseDe_valid (p : PyVal) (b : BaseProduct) (h : baseDe p = .ok b) :
    validateClass "composeinfo.BaseProduct" (baseObj (some b)) = .ok () := by
  unfold baseDe at h
  repeat' (first | split at h | dsimp only at h)
  all_goals first | (cases h; done) | skip
  all_goals
    injection h with h
    subst h
    simp only [asStr_iff] at *
    subst_vars
    exact ‹validateClass "composeinfo.BaseProduct" _ = Except.ok PUnit.unit›

/-- **every variant of every loaded compose description is valid against its parent**, and the base product of a layered
release was read and validates -/
theorem deserialize_forest_valid (doc : PyVal) (ci : ComposeInfo) (h : deserialize doc = .ok ci) :
    ValidVs none ci.variants
    ∧ (ci.release.isLayered = true → ∃ b, ci.base = some b ∧ validateClass "composeinfo.BaseProduct" (baseObj (some b)) = .ok ())
    ∧ (ci.release.isLayered = false → ci.base = none) := by
  unfold deserialize at h
  repeat' (first | split at h | dsimp only at h)
  all_goals first | (cases h; done) | skip
  have hv := ‹variantsDeL _ _ = Except.ok _›
  have hb := ‹baseDeIf _ _ = Except.ok _›
  injection h with h
  subst h
  refine ⟨variantsDeL_valid _ _ _ hv, ?_, ?_⟩
  · intro hl
    simp only at hl
    unfold baseDeIf at hb
    rw [if_pos hl] at hb
    split at hb
    · cases hb
    · rename_i b hbd
      injection hb with hb
      exact ⟨b, hb.symm, baseDe_valid _ _ hbd⟩
  · intro hl
    simp only at hl
    unfold baseDeIf at hb
    rw [if_neg (by simp [hl])] at hb
    injection hb with hb
    exact hb.symm


/-- **top level by prefix = top level by explicit references**, exactly when "referenced as a child" and "the part before the
last dash is a key" say the same of every key -/
theorem tops_legacy_eq (keys cs : List Str)
    (h : ∀ u ∈ keys, cs.contains u = true ↔ ∃ hd, legacyHead u = some hd ∧ keys.contains hd = true) :
    keys.filter (isLegacyTop keys) = keys.filter (fun u => !cs.contains u) := by
  apply List.filter_congr
  intro u hu
  show isLegacyTop keys u = !cs.contains u
  unfold isLegacyTop
  cases hl : legacyHead u with
  | none =>
    have : cs.contains u = false := by
      cases hc : cs.contains u with
      | false => rfl
      | true => obtain ⟨hd, h1, _⟩ := (h u hu).mp hc; rw [hl] at h1; cases h1
    simp only [this, Bool.not_false]
  | some hd =>
    cases hk : keys.contains hd with
    | true =>
      have : cs.contains u = true := (h u hu).mpr ⟨hd, hl, hk⟩
      simp only [this, hk, Bool.not_true]
    | false =>
      have : cs.contains u = false := by
        cases hc : cs.contains u with
        | false => rfl
        | true =>
          obtain ⟨hd', h1, h2⟩ := (h u hu).mp hc
          rw [hl] at h1; injection h1 with h1; subst h1; rw [hk] at h2; cases h2
      simp only [this, hk, Bool.not_false]

theorem lt_append_left (p : Str) {a b : Str} (h : a < b) : p ++ a < p ++ b := by
  induction p with
  | nil => exact h
  | cons c cs ih => exact List.Lex.cons ih

theorem sorted_map_prefix (p : Str) : ∀ {l : List Str}, SSorted l → SSorted (l.map (p ++ ·)) := by
  intro l h
  unfold SSorted at *
  exact List.pairwise_map.mpr (h.imp (fun hab => lt_append_left p hab))

/-- **children by prefix = children by explicit list**: in a table whose keys are in sorted order, the keys that start with
`vuid-` are exactly `vuid-i` for the listed ids `i` (in the reader's order, `sorted(ids)`), provided nothing else starts with
`vuid-` and every listed child is there -/
theorem kids_legacy_eq (full : PyVal) (vuid : Str) (ids : List Str) (hs : SSorted full.keys)
    (hex : ∀ k ∈ full.keys, Str.startsWith k (vuid ++ ['-']) = true ↔ ∃ i ∈ ids, k = vuid ++ '-' :: i)
    (hin : ∀ i ∈ ids, vuid ++ '-' :: i ∈ full.keys) :
    prefixKids full vuid = (Str.sortDedup ids).map fun i => vuid ++ '-' :: i := by
  have h1 : SSorted (prefixKids full vuid) := by
    unfold prefixKids SSorted
    exact List.Pairwise.filter _ hs
  have h2 : SSorted ((Str.sortDedup ids).map fun i => vuid ++ '-' :: i) := by
    have := sorted_map_prefix (vuid ++ ['-']) (sortDedup_sorted ids)
    simpa [List.append_assoc] using this
  apply sorted_ext h1 h2
  intro x
  simp only [prefixKids, List.mem_filter, List.mem_map, mem_sortDedup]
  constructor
  · rintro ⟨hk, hp⟩
    obtain ⟨i, hi, rfl⟩ := (hex x hk).mp hp
    exact ⟨i, hi, rfl⟩
  · rintro ⟨i, hi, rfl⟩
    exact ⟨hin i hi, (hex _ (hin i hi)).mpr ⟨i, hi, rfl⟩⟩

/-- the child keys the legacy reader finds for an entry WITHOUT a `variants` list are the child keys the current reader finds
for the same entry WITH the list — sorted table, nothing else under the prefix, every listed child present -/
theorem kidKeys_faithful (g : Gates) (hg : g.variant = true) (full data data' : PyVal) (vuid : Str) (ids : List Str)
    (hd : data.get? k%"variants" = some (strList ids)) (hd' : data'.get? k%"variants" = none)
    (hs : SSorted full.keys)
    (hex : ∀ k ∈ full.keys, Str.startsWith k (vuid ++ ['-']) = true ↔ ∃ i ∈ ids, k = vuid ++ '-' :: i)
    (hin : ∀ i ∈ ids, vuid ++ '-' :: i ∈ full.keys) :
    kidKeysL g full data' vuid vuid = kidKeysL Gates.current full data vuid vuid := by
  unfold kidKeysL kidIdsOf
  simp only [hd, hd', hg, if_true, asStrList_strList]
  rw [kids_legacy_eq full vuid ids hs hex hin]


end PM.CI.Legacy
