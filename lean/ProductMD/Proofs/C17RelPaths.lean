import ProductMD.Proofs.C17Legacy
/-!
C17: the writer's own `validate()` calls already refuse absolute checksum paths, image paths and an absolute
`mainimage`; only `instimage` is not validated.  So of the four `RelPaths` conditions of the 0.0-reader theorem only the
one on `instimage` is a hypothesis about the input.
-/
namespace PM
namespace TI
open Ini Legacy
set_option Elab.async false

theorem checksums_rel_of_valid (cs : List (Str × Str × Str))
    (h : validateClass "treeinfo.Checksums" (checksumsObj cs) = .ok ()) : ∀ c ∈ cs, RelPath c.1 := by
  have hc : Gen.allClasses.find? (·.1 == "treeinfo.Checksums") = some ("treeinfo.Checksums", Gen.rules_treeinfo_Checksums) := by rfl
  unfold validateClass at h
  rw [hc] at h
  have hmem : Rule.custom "treeinfo.Checksums._validate_checksum_paths".toList ∈ (Gen.rules_treeinfo_Checksums).flat := by
    simp [Gen.rules_treeinfo_Checksums, MethodRules.flat]
  have := (runRules_ok_iff customs _ _).mp h _ hmem
  have c1 : ∀ o, customs "treeinfo.Checksums._validate_checksum_paths".toList o = tiChecksumPaths o := fun o => rfl
  simp only [Rule.check, c1] at this
  have g1 : (checksumsObj cs).get "checksums".toList = .dict (cs.map fun c => (c.1, .list [.str c.2.1, .str c.2.2])) := by rfl
  unfold tiChecksumPaths at this
  rw [g1] at this
  simp only at this
  split at this
  · cases this
  · rename_i hany
    intro c hcm
    unfold RelPath
    cases hs : Str.startsWith c.1 ['/']
    · rfl
    · exfalso; apply hany
      simp only [List.any_map, List.any_eq_true]
      exact ⟨c, hcm, hs⟩

theorem foldl_bind_ok {α : Type} (f : α → Except Err Unit) : ∀ (l : List α) (acc : Except Err Unit),
    l.foldl (fun acc x => acc.bind fun _ => f x) acc = .ok () → acc = .ok () ∧ ∀ x ∈ l, f x = .ok ()
  | [], acc, h => ⟨h, by simp⟩
  | x :: xs, acc, h => by
    simp only [List.foldl_cons] at h
    obtain ⟨h1, h2⟩ := foldl_bind_ok f xs _ h
    cases acc with
    | error e => simp [Except.bind] at h1
    | ok u =>
      cases u
      simp only [Except.bind] at h1
      refine ⟨rfl, ?_⟩
      intro y hy
      rcases List.mem_cons.mp hy with rfl | hy
      · exact h1
      · exact h2 y hy

theorem images_rel_of_valid (images : List (Str × List (Str × Str))) (plats : List Str)
    (h : validateClass "treeinfo.Images" (imagesObj images plats) = .ok ()) : ∀ p ∈ images, ∀ kv ∈ p.2, RelPath kv.2 := by
  have hc : Gen.allClasses.find? (·.1 == "treeinfo.Images") = some ("treeinfo.Images", Gen.rules_treeinfo_Images) := by rfl
  unfold validateClass at h
  rw [hc] at h
  have hmem : Rule.custom "treeinfo.Images._validate_image_paths".toList ∈ (Gen.rules_treeinfo_Images).flat := by
    simp [Gen.rules_treeinfo_Images, MethodRules.flat]
  have := (runRules_ok_iff customs _ _).mp h _ hmem
  have c1 : ∀ o, customs "treeinfo.Images._validate_image_paths".toList o = tiImagePaths o := fun o => rfl
  simp only [Rule.check, c1] at this
  have g1 : (imagesObj images plats).get "images".toList
      = .dict (images.map fun p => (p.1, .dict (p.2.map fun kv => (kv.1, .str kv.2)))) := by rfl
  unfold tiImagePaths at this
  rw [g1] at this
  simp only at this
  have h1 := (foldl_bind_ok (fun (x : Str × PyVal) => match x.2 with
      | .dict kv => kv.foldl (fun acc2 (y : Str × PyVal) => acc2.bind fun _ =>
          match y.2 with
          | .str s => if Str.startsWith s ['/'] then .error .valueError else .ok ()
          | _ => .error .typeError) (.ok ())
      | _ => .error .attributeError) _ (.ok ()) this).2
  intro p hp kv hkv
  have h2 := h1 (p.1, .dict (p.2.map fun kv => (kv.1, .str kv.2))) (List.mem_map.mpr ⟨p, hp, rfl⟩)
  simp only at h2
  have h3 := (foldl_bind_ok (fun (y : Str × PyVal) => match y.2 with
          | .str s => if Str.startsWith s ['/'] then .error .valueError else .ok ()
          | _ => .error .typeError) _ (.ok ()) h2).2 (kv.1, .str kv.2) (List.mem_map.mpr ⟨kv, hkv, rfl⟩)
  simp only at h3
  unfold RelPath
  cases hs : Str.startsWith kv.2 ['/']
  · rfl
  · rw [hs] at h3; simp at h3

theorem mainimage_rel_of_valid (m i : Option Str) (hon : optTruthy m = true)
    (h : validateClass "treeinfo.Stage2" (stage2Obj m i) = .ok ()) : ∀ p, m = some p → RelPath p := by
  intro p hp
  subst hp
  have hc : Gen.allClasses.find? (·.1 == "treeinfo.Stage2") = some ("treeinfo.Stage2", Gen.rules_treeinfo_Stage2) := by rfl
  unfold validateClass at h
  rw [hc] at h
  have hmem : Rule.guarded (.truthy "mainimage".toList) (.failIf (.startsWith "mainimage".toList ['/']))
      ∈ (Gen.rules_treeinfo_Stage2).flat := by
    simp [Gen.rules_treeinfo_Stage2, MethodRules.flat]
  have := (runRules_ok_iff customs _ _).mp h _ hmem
  have g1 : (stage2Obj (some p) i).get "mainimage".toList = .str p := by rfl
  have ht : (PyVal.str p).truthy = true := by
    simpa [optTruthy, PyVal.truthy] using hon
  simp only [Rule.check, Cond.wellTyped, Cond.eval, g1, ht, Bool.not_true, Bool.false_eq_true, if_false, if_true,
    PyVal.isinstance] at this
  unfold RelPath
  cases hs : Str.startsWith p ['/']
  · rfl
  · rw [hs] at this; simp at this

/-- what `serialize` has validated: checksum, image and `mainimage` paths are relative -/
theorem relPaths_of_written {t : TreeInfo} (wv : WriteValid t) (hi : ∀ p, t.instimage = some p → RelPath p) : RelPaths t := by
  refine ⟨checksums_rel_of_valid _ wv.checksums, ?_, ?_, hi⟩
  · cases he : t.images.isEmpty
    · exact images_rel_of_valid _ _ (wv.images he)
    · intro p hp; simp at he; rw [he] at hp; cases hp
  · intro p hp
    cases hm : optTruthy t.mainimage
    · -- a falsy main image is the empty string
      rw [hp] at hm
      unfold RelPath
      have : p = [] := by simpa [optTruthy] using hm
      subst this; rfl
    · have hon : stage2On t.mainimage t.instimage = true := by unfold stage2On; simp [hm]
      exact mainimage_rel_of_valid _ _ hm (wv.stage2 hon) p hp

end TI
end PM
