import ProductMD.Model.TreeInfoLegacy
import ProductMD.Model.IniText
/-!
C05, treeinfo: which readers the generated gates select for which versions, and what every load (any header version, or
no header at all) has built: current header version, every section object validated.
-/
namespace PM.TI.Legacy
open PM PM.TI PM.Ini
set_option Elab.async false

theorem selsOf_0_0 : selsOf (0, 0) = .ok
    { headerTyped := false, release := .v00, tree00 := true, variants00 := true, paths := .v00, addonFallback := false,
      variant := .v00, fixImages := true, fixStage2 := true, fixChecksums := true, media00 := true } := rfl

theorem selsOf_le_0_3 (v : Nat × Nat) (h0 : (v == (0, 0)) = false) (h3 : PM.verLe v (0, 3) = true) : selsOf v = .ok
    { headerTyped := false, release := .v03, tree00 := false, variants00 := false, paths := .v03, addonFallback := false,
      variant := .v03, fixImages := false, fixStage2 := false, fixChecksums := false, media00 := false } := by
  have h11 : PM.verLe (1, 1) v = false := by
    obtain ⟨a, b⟩ := v
    simp only [PM.verLe, Bool.or_eq_true, Bool.and_eq_true, decide_eq_true_eq, beq_iff_eq, Bool.or_eq_false_iff,
      Bool.and_eq_false_iff, decide_eq_false_iff_not, beq_eq_false_iff_ne] at h3 ⊢
    omega
  have hgt : PM.verLt (0, 3) v = false := by
    obtain ⟨a, b⟩ := v
    simp only [PM.verLe, PM.verLt, Bool.or_eq_true, Bool.and_eq_true, decide_eq_true_eq, beq_iff_eq, Bool.or_eq_false_iff,
      Bool.and_eq_false_iff, decide_eq_false_iff_not, beq_eq_false_iff_ne] at h3 ⊢
    omega
  simp [selsOf, sel2, gateB, Gate.eval?, Gen.gate_treeinfo_Header_deserialize_0, Gen.gate_treeinfo_Release_deserialize_0,
    Gen.gate_treeinfo_Release_deserialize_1, Gen.gate_treeinfo_Tree_deserialize_0, Gen.gate_treeinfo_Variants_deserialize_0,
    Gen.gate_treeinfo_VariantPaths_deserialize_0, Gen.gate_treeinfo_VariantPaths_deserialize_1, Gen.gate_treeinfo_Variant_deserialize_0,
    Gen.gate_treeinfo_Variant_deserialize_1, Gen.gate_treeinfo_Variant_deserialize_2, Gen.gate_treeinfo_Images__fix_path_0,
    Gen.gate_treeinfo_Stage2__fix_path_0, Gen.gate_treeinfo_Checksums__fix_path_0, Gen.gate_treeinfo_Media_deserialize_0,
    h0, h3, h11, hgt, bind, Except.bind, pure, Except.pure]


theorem selsOf_gt_0_3 (v : Nat × Nat) (h3 : PM.verLt (0, 3) v = true) : selsOf v = .ok
    { Sels.current with headerTyped := PM.verLe (1, 1) v } := by
  have h0 : (v == (0, 0)) = false := by
    obtain ⟨a, b⟩ := v
    simp only [PM.verLt, Bool.or_eq_true, Bool.and_eq_true, decide_eq_true_eq, beq_iff_eq] at h3
    simp only [beq_eq_false_iff_ne, ne_eq, Prod.mk.injEq, not_and]
    omega
  have hle : PM.verLe v (0, 3) = false := by
    obtain ⟨a, b⟩ := v
    simp only [PM.verLe, PM.verLt, Bool.or_eq_true, Bool.and_eq_true, decide_eq_true_eq, beq_iff_eq, Bool.or_eq_false_iff,
      Bool.and_eq_false_iff, decide_eq_false_iff_not, beq_eq_false_iff_ne] at h3 ⊢
    omega
  simp [selsOf, sel2, gateB, Gate.eval?, Gen.gate_treeinfo_Header_deserialize_0, Gen.gate_treeinfo_Release_deserialize_0,
    Gen.gate_treeinfo_Release_deserialize_1, Gen.gate_treeinfo_Tree_deserialize_0, Gen.gate_treeinfo_Variants_deserialize_0,
    Gen.gate_treeinfo_VariantPaths_deserialize_0, Gen.gate_treeinfo_VariantPaths_deserialize_1, Gen.gate_treeinfo_Variant_deserialize_0,
    Gen.gate_treeinfo_Variant_deserialize_1, Gen.gate_treeinfo_Variant_deserialize_2, Gen.gate_treeinfo_Images__fix_path_0,
    Gen.gate_treeinfo_Stage2__fix_path_0, Gen.gate_treeinfo_Checksums__fix_path_0, Gen.gate_treeinfo_Media_deserialize_0,
    h0, h3, hle, bind, Except.bind, pure, Except.pure, Sels.current]

theorem bind_ok' {α β : Type} {x : Except Err α} {f : α → Except Err β} {b : β}
    (h : (x >>= f) = .ok b) : ∃ a, x = .ok a ∧ f a = .ok b := by
  cases x with
  | error e => simp [bind, Except.bind] at h
  | ok a => exact ⟨a, rfl, h⟩

theorem deReleaseL_valid (s : Sel) (d : Ini) (p : Product) (l : Bool) (h : deReleaseL s d = .ok (p, l)) :
    validateClass "treeinfo.Release" (releaseObj p l) = .ok () := by
  unfold deReleaseL deRelease at h
  simp only [bind, Except.bind, pure, Except.pure] at h
  repeat' (first | split at h | dsimp only at h)
  all_goals first | (cases h; done) | skip
  all_goals
    injection h with h
    injection h with h1 h2
    subst h1 h2
    exact ‹validateClass "treeinfo.Release" _ = Except.ok _›

theorem deTreeL_valid (fo : FloatOracle) (old : Bool) (d : Ini) (t : Tree) (h : deTreeL fo old d = .ok t) :
    validateClass "treeinfo.Tree" (treeObj t) = .ok () := by
  unfold deTreeL deTree at h
  simp only [bind, Except.bind, pure, Except.pure] at h
  repeat' (first | split at h | dsimp only at h)
  all_goals first | (cases h; done) | skip
  all_goals
    injection h with h
    subst h
    exact ‹validateClass "treeinfo.Tree" _ = Except.ok _›

theorem deTopsL_valid (S : Sels) (c : VCtx) (d : Ini) (tops : List Variant) (h : deTopsL S c d = .ok tops) :
    validateClass "treeinfo.Variants" (variantsObj tops) = .ok () := by
  unfold deTopsL at h
  simp only [bind, Except.bind, pure, Except.pure] at h
  repeat' (first | split at h | dsimp only at h)
  all_goals first | (cases h; done) | skip
  all_goals
    injection h with h
    subst h
    exact ‹validateClass "treeinfo.Variants" _ = Except.ok _›

theorem deChecksumsL_valid (fix : Bool) (d : Ini) (cs : List (Str × Str × Str)) (h : deChecksumsL fix d = .ok cs) :
    validateClass "treeinfo.Checksums" (checksumsObj cs) = .ok () := by
  unfold deChecksumsL at h
  simp only [bind, Except.bind, pure, Except.pure] at h
  repeat' (first | split at h | dsimp only at h)
  all_goals first | (cases h; done) | skip
  all_goals
    injection h with h
    subst h
    exact ‹validateClass "treeinfo.Checksums" _ = Except.ok _›

theorem deImagesL_valid (fix : Bool) (d : Ini) (tree : Tree) (im : List (Str × List (Str × Str)))
    (h : deImagesL fix d tree = .ok im) : validateClass "treeinfo.Images" (imagesObj im tree.platforms) = .ok () := by
  unfold deImagesL at h
  simp only [bind, Except.bind, pure, Except.pure] at h
  repeat' (first | split at h | dsimp only at h)
  all_goals first | (cases h; done) | skip
  all_goals
    injection h with h
    subst h
    exact ‹validateClass "treeinfo.Images" _ = Except.ok _›

theorem deStage2L_valid (fix : Bool) (d : Ini) (m i : Option Str) (h : deStage2L fix d = .ok (m, i)) :
    validateClass "treeinfo.Stage2" (stage2Obj m i) = .ok () := by
  unfold deStage2L at h
  simp only [bind, Except.bind, pure, Except.pure, Except.map] at h
  repeat' (first | split at h | dsimp only at h)
  all_goals first | (cases h; done) | skip
  all_goals
    injection h with h
    injection h with h1 h2
    subst h1 h2
    exact ‹validateClass "treeinfo.Stage2" _ = Except.ok _›

theorem deMediaL_valid (old : Bool) (d : Ini) (a b : Option Int) (h : deMediaL old d = .ok (a, b)) :
    validateClass "treeinfo.Media" (mediaObj a b) = .ok () := by
  unfold deMediaL deMedia at h
  simp only [bind, Except.bind, pure, Except.pure] at h
  repeat' (first | split at h | dsimp only at h)
  all_goals first | (cases h; done) | skip
  all_goals
    injection h with h
    injection h with h1 h2
    subst h1 h2
    exact ‹validateClass "treeinfo.Media" _ = Except.ok _›

/-- **what every load of a .treeinfo (any header version, or none) has built**: the header carries the current
version and every section object passed its validators -/
theorem deserialize_sections_valid (fo : FloatOracle) (d : Ini) (t : TreeInfo) (h : deserialize fo d = .ok t) :
    t.headerVersion = currentVersion
    ∧ validateClass "treeinfo.Release" (releaseObj t.release t.isLayered) = .ok ()
    ∧ validateClass "treeinfo.Tree" (treeObj t.tree) = .ok ()
    ∧ validateClass "treeinfo.Variants" (variantsObj t.variants) = .ok ()
    ∧ validateClass "treeinfo.Checksums" (checksumsObj t.checksums) = .ok ()
    ∧ validateClass "treeinfo.Images" (imagesObj t.images t.tree.platforms) = .ok ()
    ∧ validateClass "treeinfo.Stage2" (stage2Obj t.mainimage t.instimage) = .ok ()
    ∧ validateClass "treeinfo.Media" (mediaObj t.discnum t.totaldiscs) = .ok () := by
  unfold deserialize at h
  obtain ⟨version, _, h⟩ := bind_ok' h
  obtain ⟨vt, _, h⟩ := bind_ok' h
  obtain ⟨S, _, h⟩ := bind_ok' h
  obtain ⟨rl, hrel, h⟩ := bind_ok' h
  obtain ⟨release, layered⟩ := rl
  dsimp only at h
  split at h <;>
  · obtain ⟨bp, _, h⟩ := bind_ok' h
    obtain ⟨tree, htree, h⟩ := bind_ok' h
    obtain ⟨tops, htops, h⟩ := bind_ok' h
    obtain ⟨cs, hcs, h⟩ := bind_ok' h
    obtain ⟨images, him, h⟩ := bind_ok' h
    obtain ⟨mi, hst, h⟩ := bind_ok' h
    obtain ⟨m, i⟩ := mi
    obtain ⟨ab, hme, h⟩ := bind_ok' h
    obtain ⟨a, b⟩ := ab
    obtain ⟨u, _, h⟩ := bind_ok' h
    have h' : (Except.ok _ : Except Err TreeInfo) = .ok t := h
    injection h' with h'
    subst h'
    exact ⟨rfl, deReleaseL_valid _ _ _ _ hrel, deTreeL_valid _ _ _ _ htree, deTopsL_valid _ _ _ _ htops,
      deChecksumsL_valid _ _ _ hcs, deImagesL_valid _ _ _ _ him, deStage2L_valid _ _ _ _ hst, deMediaL_valid _ _ _ _ hme⟩

end PM.TI.Legacy
