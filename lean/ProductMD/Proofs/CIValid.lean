import ProductMD.Proofs.CIBasic
/-!
What C01 needs to know about the validators.  Every lemma here is about the rule lists *generated from the source*
(`Gen.rules_*`): if a validator the round trip relies on is removed or weakened in `/repo`, the corresponding lemma
stops compiling.
-/
namespace PM.CI
open PM

theorem pyEq_str (a b : Str) : PyVal.pyEq (.str a) (.str b) = true ↔ a = b := by
  simp [PyVal.pyEq, PyVal.canon, PyVal.beq]

/-! ### class lookup -/
theorem cls_variant : Gen.allClasses.find? (·.1 == "composeinfo.Variant")
    = some ("composeinfo.Variant", Gen.rules_composeinfo_Variant) := by rfl
theorem cls_release : Gen.allClasses.find? (·.1 == "composeinfo.Release")
    = some ("composeinfo.Release", Gen.rules_composeinfo_Release) := by rfl
theorem cls_compose : Gen.allClasses.find? (·.1 == "composeinfo.Compose")
    = some ("composeinfo.Compose", Gen.rules_composeinfo_Compose) := by rfl

theorem validate_variant_iff (o : Obj) :
    validateClass "composeinfo.Variant" o = .ok () ↔ ∀ r ∈ Gen.rules_composeinfo_Variant.flat, r.check customs o = .ok () := by
  unfold validateClass; rw [cls_variant]; exact runRules_ok_iff customs o _

theorem validate_release_iff (o : Obj) :
    validateClass "composeinfo.Release" o = .ok () ↔ ∀ r ∈ Gen.rules_composeinfo_Release.flat, r.check customs o = .ok () := by
  unfold validateClass; rw [cls_release]; exact runRules_ok_iff customs o _

theorem validate_compose_iff (o : Obj) :
    validateClass "composeinfo.Compose" o = .ok () ↔ ∀ r ∈ Gen.rules_composeinfo_Compose.flat, r.check customs o = .ok () := by
  unfold validateClass; rw [cls_compose]; exact runRules_ok_iff customs o _

/-! ### Variant: `_validate_uid` is among the generated rules and gives UID alignment -/
theorem uid_rule_mem : Rule.custom k%"composeinfo.Variant._validate_uid" ∈ Gen.rules_composeinfo_Variant.flat := by
  simp [Gen.rules_composeinfo_Variant, MethodRules.flat]

theorem customs_uid : customs k%"composeinfo.Variant._validate_uid" = ciVariantUid := by
  funext o; rfl

/-- a validated child's UID is `<parent uid>-<id>` -/
theorem vok_aligned (pu : Str) (pa : List Str) (v : Variant)
    (h : validateClass "composeinfo.Variant" (variantObj (some (pu, pa)) v) = .ok ()) : v.uid = pu ++ '-' :: v.id := by
  have h1 := (validate_variant_iff _).mp h _ uid_rule_mem
  cases v with
  | mk key id uid name type arches paths rel kids =>
  simp only [Rule.check, customs_uid] at h1
  simp [ciVariantUid, variantObj, Obj.get, ctxVal, PyVal.get?, pyFormat, PyVal.isinstance] at h1
  exact (pyEq_str _ _).mp h1

/-- a validated top-level variant's UID is its id with dashes inserted -/
theorem vok_top (v : Variant)
    (h : validateClass "composeinfo.Variant" (variantObj none v) = .ok ()) : Str.removeChar '-' v.uid = v.id := by
  have h1 := (validate_variant_iff _).mp h _ uid_rule_mem
  cases v with
  | mk key id uid name type arches paths rel kids =>
  simp only [Rule.check, customs_uid] at h1
  simp [ciVariantUid, variantObj, Obj.get, ctxVal, PyVal.isinstance] at h1
  exact (pyEq_str _ _).mp h1

/-! ### Release: the type is one of the table, hence already lower case -/
theorem release_type_rule_mem : Rule.value k%"type" Gen.RELEASE_TYPES ∈ Gen.rules_composeinfo_Release.flat := by
  simp [Gen.rules_composeinfo_Release, MethodRules.flat, Gen.RELEASE_TYPES]

theorem release_types_lower : ∀ t ∈ Gen.RELEASE_TYPES, Str.lowerAscii t = t := by decide

theorem release_ok_lower (r : Release) (h : validateClass "composeinfo.Release" (releaseObj r) = .ok ()) :
    Str.lowerAscii r.type = r.type := by
  have h1 := (validate_release_iff _).mp h _ release_type_rule_mem
  simp [Rule.check, releaseObj, Obj.get] at h1
  exact release_types_lower _ (by simpa using h1)

/-- a release nobody filled in is refused (so a written layered-product variant has one) -/
theorem blank_release_invalid : isOk (validateClass "composeinfo.Release" blankVariantReleaseObj) = false := by decide +kernel

/-- a base product nobody filled in is refused (so a written layered compose has one) -/
theorem blank_base_invalid : isOk (validateClass "composeinfo.BaseProduct" (baseObj none)) = false := by decide +kernel

/-! ### Compose: an empty label is refused; without a label `final` is not looked at -/
theorem label_rule_mem : Rule.custom k%"composeinfo.Compose._validate_label:verify_label(self.label)" ∈ Gen.rules_composeinfo_Compose.flat := by
  simp [Gen.rules_composeinfo_Compose, MethodRules.flat]

theorem customs_label : customs k%"composeinfo.Compose._validate_label:verify_label(self.label)" = fun o => verifyLabel (o.get k%"label") := by
  funext o; rfl

theorem verifyLabel_empty : isOk (verifyLabel (.str [])) = false := by decide +kernel

theorem compose_empty_label_invalid (c : Compose) (hl : c.label = some []) :
    validateClass "composeinfo.Compose" (composeObj c) ≠ .ok () := by
  intro h
  have h1 := (validate_compose_iff _).mp h _ label_rule_mem
  simp only [Rule.check, customs_label, composeObj, Obj.get, hl] at h1
  simp at h1
  have := verifyLabel_empty
  rw [h1] at this
  simp [isOk] at this

theorem runRules_congr (c) (o1 o2 : Obj) :
    ∀ (rs : List Rule), (∀ r ∈ rs, r.check c o1 = r.check c o2) → runRules c o1 rs = runRules c o2 rs := by
  intro rs
  induction rs with
  | nil => intro _; rfl
  | cons r rs ih =>
    intro h
    simp only [runRules, h r (by simp)]
    rw [ih (fun r' hr' => h r' (by simp [hr']))]

theorem compose_final_irrelevant (id type date respin : PyVal) (b b' : Bool) :
    validateClass "composeinfo.Compose" [(k%"id", id), (k%"type", type), (k%"date", date), (k%"respin", respin), (k%"label", .none), (k%"final", .bool b)]
    = validateClass "composeinfo.Compose" [(k%"id", id), (k%"type", type), (k%"date", date), (k%"respin", respin), (k%"label", .none), (k%"final", .bool b')] := by
  unfold validateClass
  rw [cls_compose]
  unfold validateWith
  apply runRules_congr
  simp [Gen.rules_composeinfo_Compose, MethodRules.flat, Rule.check, Obj.get, Cond.eval, Cond.wellTyped, PyVal.truthy, customs_label]

end PM.CI
