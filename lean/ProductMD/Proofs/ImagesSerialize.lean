import ProductMD.Proofs.ImagesFields
/-!
The writer: `serializeCells` is a fold of `outAppend` over the manifest's filings; the resulting table has unique
keys at both levels and holds exactly the written dictionaries (as a multiset: each cell is sorted by path).
-/
namespace PM.Img
open PM PM.PyOps PM.Spec
set_option Elab.async false

/-! ### the sort is a permutation -/

theorem insertByPath_perm (d : PyVal) (l : List PyVal) : (insertByPath d l).Perm (d :: l) := by
  induction l with
  | nil => exact List.Perm.refl _
  | cons x xs ih =>
    unfold insertByPath
    split
    · exact List.Perm.refl _
    · exact (List.Perm.cons x ih).trans (List.Perm.swap d x xs)

theorem foldl_insert_perm (l acc : List PyVal) :
    (l.foldl (fun acc d => insertByPath d acc) acc).Perm (l ++ acc) := by
  induction l generalizing acc with
  | nil => exact List.Perm.refl _
  | cons x xs ih =>
    simp only [List.foldl_cons, List.cons_append]
    refine (ih _).trans ?_
    exact (List.Perm.append_left xs (insertByPath_perm x acc)).trans List.perm_middle

theorem sortByPath_perm (l : List PyVal) : (sortByPath l).Perm l := by
  have := foldl_insert_perm l []
  simpa [sortByPath] using this

/-! ### triples of an output table -/

def archTriples (v : Str) (as : List (Str × List PyVal)) : List (Str × Str × PyVal) :=
  as.flatMap fun al => al.2.map fun d => (v, al.1, d)

def outTriples (o : OutCells) : List (Str × Str × PyVal) := o.flatMap fun va => archTriples va.1 va.2

theorem archTriples_cons (v : Str) (al : Str × List PyVal) (as : List (Str × List PyVal)) :
    archTriples v (al :: as) = al.2.map (fun d => (v, al.1, d)) ++ archTriples v as := by
  simp [archTriples]

theorem outTriples_cons (va : Str × List (Str × List PyVal)) (o : OutCells) :
    outTriples (va :: o) = archTriples va.1 va.2 ++ outTriples o := by
  simp [outTriples]

theorem outArchAppend_perm (v a : Str) (d : PyVal) (as : List (Str × List PyVal)) :
    (archTriples v (outArchAppend as a d)).Perm ((v, a, d) :: archTriples v as) := by
  induction as with
  | nil => simp [outArchAppend, archTriples, sortByPath, insertByPath]
  | cons al rest ih =>
    obtain ⟨a', l⟩ := al
    unfold outArchAppend
    split
    · rename_i h
      have h' : a' = a := by simpa using h
      subst h'
      rw [archTriples_cons, archTriples_cons]
      simp only
      have h1 := (sortByPath_perm (l ++ [d])).map (fun d => (v, a', d))
      refine (List.Perm.append_right _ h1).trans ?_
      simp only [List.map_append, List.map_cons, List.map_nil, List.append_assoc, List.singleton_append]
      exact List.perm_middle
    · rw [archTriples_cons, archTriples_cons]
      simp only
      refine (List.Perm.append_left _ ih).trans ?_
      exact List.perm_middle

theorem outAppend_perm (v a : Str) (d : PyVal) (o : OutCells) :
    (outTriples (outAppend o v a d)).Perm ((v, a, d) :: outTriples o) := by
  induction o with
  | nil => simp [outAppend, outTriples, archTriples, sortByPath, insertByPath]
  | cons va rest ih =>
    obtain ⟨v', as⟩ := va
    unfold outAppend
    split
    · rename_i h
      have h' : v' = v := by simpa using h
      subst h'
      rw [outTriples_cons, outTriples_cons]
      simp only
      exact (List.Perm.append_right _ (outArchAppend_perm v' a d as)).trans (by simp)
    · rw [outTriples_cons, outTriples_cons]
      simp only
      refine (List.Perm.append_left _ ih).trans ?_
      exact List.perm_middle

/-! ### keys stay unique (`setdefault`) -/

theorem outArchAppend_keys (a : Str) (d : PyVal) (as : List (Str × List PyVal)) :
    (outArchAppend as a d).map (·.1) = if a ∈ as.map (·.1) then as.map (·.1) else as.map (·.1) ++ [a] := by
  induction as with
  | nil => simp [outArchAppend]
  | cons al rest ih =>
    obtain ⟨a', l⟩ := al
    unfold outArchAppend
    split
    · rename_i h
      have h' : a' = a := by simpa using h
      subst h'
      simp
    · rename_i h
      have h' : ¬ a' = a := by simpa using h
      simp only [List.map_cons, ih, List.mem_cons]
      by_cases hm : a ∈ rest.map (·.1)
      · simp [hm]
      · have : ¬ a = a' := fun e => h' e.symm
        simp [hm, this]

theorem nodup_snoc {α : Type} {l : List α} {a : α} (h : l.Nodup) (ha : a ∉ l) : (l ++ [a]).Nodup := by
  rw [List.nodup_append]
  refine ⟨h, by simp, ?_⟩
  intro x hx y hy
  simp only [List.mem_singleton] at hy
  subst hy
  intro e; subst e; exact ha hx

theorem outArchAppend_nodup (a : Str) (d : PyVal) (as : List (Str × List PyVal)) (h : (as.map (·.1)).Nodup) :
    ((outArchAppend as a d).map (·.1)).Nodup := by
  rw [outArchAppend_keys]
  split
  · exact h
  · rename_i hm; exact nodup_snoc h hm

def OutNodup (o : OutCells) : Prop := (o.map (·.1)).Nodup ∧ ∀ va ∈ o, (va.2.map (·.1)).Nodup

theorem outAppend_keys (v a : Str) (d : PyVal) (o : OutCells) :
    (outAppend o v a d).map (·.1) = if v ∈ o.map (·.1) then o.map (·.1) else o.map (·.1) ++ [v] := by
  induction o with
  | nil => simp [outAppend]
  | cons va rest ih =>
    obtain ⟨v', as⟩ := va
    unfold outAppend
    split
    · rename_i h
      have h' : v' = v := by simpa using h
      subst h'
      simp
    · rename_i h
      have h' : ¬ v' = v := by simpa using h
      simp only [List.map_cons, ih, List.mem_cons]
      by_cases hm : v ∈ rest.map (·.1)
      · simp [hm]
      · have : ¬ v = v' := fun e => h' e.symm
        simp [hm, this]

theorem outAppend_inner (v a : Str) (d : PyVal) (o : OutCells) (h : ∀ va ∈ o, (va.2.map (·.1)).Nodup) :
    ∀ va ∈ outAppend o v a d, (va.2.map (·.1)).Nodup := by
  induction o with
  | nil =>
    intro va hva
    simp only [outAppend, List.mem_singleton] at hva
    subst hva
    simp
  | cons va' rest ih =>
    obtain ⟨v', as⟩ := va'
    intro va hva
    unfold outAppend at hva
    split at hva
    · rcases List.mem_cons.mp hva with e | e
      · subst e
        exact outArchAppend_nodup a d as (h (v', as) List.mem_cons_self)
      · exact h va (List.mem_cons_of_mem _ e)
    · rcases List.mem_cons.mp hva with e | e
      · subst e
        exact h (v', as) List.mem_cons_self
      · exact ih (fun x hx => h x (List.mem_cons_of_mem _ hx)) va e

theorem outAppend_nodup (v a : Str) (d : PyVal) (o : OutCells) (h : OutNodup o) : OutNodup (outAppend o v a d) := by
  refine ⟨?_, outAppend_inner v a d o h.2⟩
  rw [outAppend_keys]
  split
  · exact h.1
  · rename_i hm; exact nodup_snoc h.1 hm

/-! ### `serializeCells` as a fold over the filings -/

def outFold (ts : List (Str × Str × Image)) (out : OutCells) : OutCells :=
  ts.foldl (fun o t => outAppend o t.1 t.2.1 t.2.2.dict) out

theorem outFold_nodup (ts : List (Str × Str × Image)) (out : OutCells) (h : OutNodup out) : OutNodup (outFold ts out) := by
  induction ts generalizing out with
  | nil => exact h
  | cons t rest ih => exact ih _ (outAppend_nodup _ _ _ _ h)

theorem outFold_perm (ts : List (Str × Str × Image)) (out : OutCells) :
    (outTriples (outFold ts out)).Perm (ts.map (fun t => (t.1, t.2.1, t.2.2.dict)) ++ outTriples out) := by
  induction ts generalizing out with
  | nil => exact List.Perm.refl _
  | cons t rest ih =>
    simp only [outFold, List.foldl_cons, List.map_cons, List.cons_append]
    refine (ih _).trans ?_
    exact (List.Perm.append_left _ (outAppend_perm _ _ _ _)).trans List.perm_middle

theorem serializeCell_eq (v a : Str) (c : Cell) (out : OutCells) (hv : ∀ e ∈ c, e.2.validate = .ok ()) :
    serializeCell v a c out = .ok (outFold (c.map fun e => (v, a, e.2)) out) := by
  induction c generalizing out with
  | nil => rfl
  | cons e rest ih =>
    obtain ⟨id, img⟩ := e
    have h1 : img.validate = .ok () := hv (id, img) List.mem_cons_self
    simp only [serializeCell, Image.serialize, h1, bind, Except.bind]
    rw [ih _ (fun e he => hv e (List.mem_cons_of_mem _ he))]
    rfl

theorem outFold_append (t1 t2 : List (Str × Str × Image)) (out : OutCells) :
    outFold (t1 ++ t2) out = outFold t2 (outFold t1 out) := by
  simp [outFold, List.foldl_append]

def archEntries (v : Str) (as : List (Str × Cell)) : List (Str × Str × Image) :=
  as.flatMap fun ac => ac.2.map fun e => (v, ac.1, e.2)

theorem serializeArches_eq (v : Str) (as : List (Str × Cell)) (out : OutCells)
    (hv : ∀ ac ∈ as, ∀ e ∈ ac.2, e.2.validate = .ok ()) :
    serializeArches v as out = .ok (outFold (archEntries v as) out) := by
  induction as generalizing out with
  | nil => rfl
  | cons ac rest ih =>
    obtain ⟨a, c⟩ := ac
    simp only [serializeArches, bind, Except.bind]
    rw [serializeCell_eq v a c out (hv (a, c) List.mem_cons_self)]
    simp only
    rw [ih _ (fun x hx => hv x (List.mem_cons_of_mem _ hx))]
    simp [archEntries, outFold_append]

theorem triples_eq (cs : Cells) : triples cs = cs.flatMap fun va => archEntries va.1 va.2 := by
  simp [triples, entries, archEntries, List.map_flatMap, List.map_map, Function.comp_def]

theorem serializeCells_eq (cs : Cells) (out : OutCells)
    (hv : ∀ va ∈ cs, ∀ ac ∈ va.2, ∀ e ∈ ac.2, e.2.validate = .ok ()) :
    serializeCells cs out = .ok (outFold (triples cs) out) := by
  rw [triples_eq]
  induction cs generalizing out with
  | nil => rfl
  | cons va rest ih =>
    obtain ⟨v, as⟩ := va
    simp only [serializeCells, bind, Except.bind]
    rw [serializeArches_eq v as out (hv (v, as) List.mem_cons_self)]
    simp only
    rw [ih _ (fun x hx => hv x (List.mem_cons_of_mem _ hx))]
    simp [outFold_append]

theorem all_eq (cs : Cells) : cs.all = (triples cs).map (·.2.2) := by
  simp [Cells.all, triples, entries, List.map_flatMap, List.map_map, Function.comp_def]

theorem mem_all_of_entry {cs : Cells} {va : Str × List (Str × Cell)} {ac : Str × Cell} {e : Nat × Image}
    (h1 : va ∈ cs) (h2 : ac ∈ va.2) (h3 : e ∈ ac.2) : e.2 ∈ cs.all := by
  simp only [Cells.all, List.mem_flatMap, List.mem_map]
  exact ⟨va, h1, ac, h2, e, h3, rfl⟩

end PM.Img
