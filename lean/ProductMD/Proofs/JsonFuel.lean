import ProductMD.Proofs.JsonNum
/-!
The fuel of the JSON reader model is irrelevant: once it exceeds the length of the text, more fuel never changes the
answer (`value_fuel`, `scanStr_fuel`, `parseWith_fuel`).  So the out-of-fuel answer of `Model/JsonParse.lean` is never
what `parseWith`/`parseString` return: the fuel they supply is already in the range where the answer is constant.
Core Lean only.
-/
namespace PM.JsonParse
open PM Str

/-! ### every reader consumes something -/

theorem skipWs_length_le : ∀ s : Str, (skipWs s).length ≤ s.length := by
  intro s
  induction s with
  | nil => simp [skipWs]
  | cons c cs ih =>
    simp only [skipWs]
    split
    · simp only [List.length_cons]; omega
    · simp

theorem hex4?_length (s r : Str) (n : Nat) (h : hex4? s = some (n, r)) : r.length + 4 = s.length := by
  match s with
  | a :: b :: c :: d :: r' =>
    simp only [hex4?] at h
    split at h
    · simp only [Option.some.injEq, Prod.mk.injEq] at h
      rw [← h.2]; simp
    · cases h
  | [] => simp [hex4?] at h
  | [_] => simp [hex4?] at h
  | [_, _] => simp [hex4?] at h
  | [_, _, _] => simp [hex4?] at h

theorem unescape_length (s r : Str) (ch : Char) (h : unescape s = .ok (ch, r)) : r.length < s.length := by
  cases s with
  | nil => simp [unescape] at h
  | cons e cs =>
    simp only [unescape] at h
    split at h
    · -- \u
      cases hx : hex4? cs with
      | none => rw [hx] at h; cases h
      | some p =>
        obtain ⟨hi, r1⟩ := p
        rw [hx] at h
        have h1 := hex4?_length cs r1 hi hx
        simp only at h
        split at h
        · match r1, h with
          | [], h => cases h
          | [_], h => cases h
          | b :: u :: r2, h =>
            simp only at h
            split at h
            · cases hy : hex4? r2 with
              | none => rw [hy] at h; cases h
              | some q =>
                obtain ⟨lo, r3⟩ := q
                rw [hy] at h
                have h2 := hex4?_length r2 r3 lo hy
                simp only at h
                split at h
                · simp only [Except.ok.injEq, Prod.mk.injEq] at h
                  rw [← h.2]; simp only [List.length_cons] at h1 ⊢; omega
                · cases h
            · cases h
        · split at h
          · cases h
          · simp only [Except.ok.injEq, Prod.mk.injEq] at h
            rw [← h.2]; simp only [List.length_cons]; omega
    · repeat' split at h
      all_goals first
        | (cases h; done)
        | (simp only [Except.ok.injEq, Prod.mk.injEq] at h; rw [← h.2]; simp)

theorem scanStr_length : ∀ (f : Nat) (acc s t r : Str), scanStr f acc s = .ok (t, r) → r.length < s.length := by
  intro f
  induction f with
  | zero => intro acc s t r h; simp [scanStr] at h
  | succ f ih =>
    intro acc s t r h
    cases s with
    | nil => simp [scanStr] at h
    | cons c cs =>
      simp only [scanStr] at h
      split at h
      · simp only [Except.ok.injEq, Prod.mk.injEq] at h; rw [← h.2]; simp
      · split at h
        · cases hu : unescape cs with
          | error e => rw [hu] at h; cases h
          | ok p =>
            obtain ⟨ch, rest⟩ := p
            rw [hu] at h
            have h1 := unescape_length cs rest ch hu
            have h2 := ih _ _ _ _ h
            simp only [List.length_cons]; omega
        · split at h
          · cases h
          · have h2 := ih _ _ _ _ h
            simp only [List.length_cons]; omega

theorem parseString_length (s t r : Str) (h : parseString s = .ok (t, r)) : r.length < s.length :=
  scanStr_length _ _ _ _ _ h

theorem scanInt_ne_nil (s ip r : Str) (h : scanInt s = some (ip, r)) : ip ≠ [] := by
  cases s with
  | nil => simp [scanInt] at h
  | cons c cs =>
    simp only [scanInt] at h
    split at h
    · simp only [Option.some.injEq, Prod.mk.injEq] at h; rw [← h.1]; simp
    · split at h
      · simp only [Option.some.injEq, Prod.mk.injEq] at h; rw [← h.1]; simp
      · cases h

theorem scanNumber_ip_ne_nil (s : Str) (n : Num) (h : scanNumber s = some n) : n.ip ≠ [] := by
  simp only [scanNumber] at h
  cases hi : scanInt (if (s.head? == some '-') = true then s.tail else s) with
  | none => rw [hi] at h; cases h
  | some p =>
    obtain ⟨ip, s2⟩ := p
    rw [hi] at h
    simp only [Option.some.injEq] at h
    rw [← h]
    exact scanInt_ne_nil _ ip s2 hi

theorem number_length (lim : Nat) (s r : Str) (v : PyVal) (h : number lim s = .ok (v, r)) : r.length < s.length := by
  simp only [number] at h
  cases hs : scanNumber s with
  | none => rw [hs] at h; cases h
  | some n =>
    rw [hs] at h
    have ht := scanNumber_tok s n hs
    have hne := scanNumber_ip_ne_nil s n hs
    have hl : 0 < n.tok.length := by
      have : 0 < n.ip.length := List.length_pos_iff.mpr hne
      simp only [Num.tok, List.length_append]; omega
    have hr : r = n.rest := by
      simp only at h
      split at h
      · simp only [Except.ok.injEq, Prod.mk.injEq] at h; exact h.2.symm
      · split at h
        · cases h
        · simp only [Except.ok.injEq, Prod.mk.injEq] at h; exact h.2.symm
    rw [hr, ← ht, List.length_append]; omega

theorem dropPrefix?_length : ∀ (p s r : Str), dropPrefix? p s = some r → r.length + p.length = s.length := by
  intro p
  induction p with
  | nil => intro s r h; simp only [dropPrefix?, Option.some.injEq] at h; rw [h]; simp
  | cons c cs ih =>
    intro s r h
    cases s with
    | nil => simp [dropPrefix?] at h
    | cons d ds =>
      simp only [dropPrefix?] at h
      split at h
      · have := ih ds r h; simp only [List.length_cons]; omega
      · cases h

theorem literals_ne_nil : ∀ p ∈ literals, 0 < p.1.length := by
  intro p hp
  simp only [literals, List.mem_cons, List.not_mem_nil, or_false] at hp
  rcases hp with rfl | rfl | rfl | rfl | rfl | rfl <;> decide

theorem literal?_length (s r : Str) (v : PyVal) (h : literal? s = some (v, r)) : r.length < s.length := by
  obtain ⟨p, hp, hq⟩ := List.exists_of_findSome?_eq_some h
  have hl := literals_ne_nil p hp
  simp only [Option.map_eq_some_iff] at hq
  obtain ⟨r', hd, he⟩ := hq
  have := dropPrefix?_length _ _ _ hd
  simp only [Prod.mk.injEq] at he
  rw [← he.2]
  omega

theorem tail_length_of_headIs {t : Str} {c : Char} (h : headIs t c = true) : t.tail.length < t.length := by
  cases t with
  | nil => simp [headIs] at h
  | cons a as => simp

theorem tail_length_le (t : Str) : t.tail.length ≤ t.length := by cases t <;> simp

/-- every reader returns a strictly shorter rest -/
theorem readers_length (lim : Nat) : ∀ f : Nat,
    (∀ s v r, value lim f s = .ok (v, r) → r.length < s.length)
    ∧ (∀ acc s v r, itemsTail lim f acc s = .ok (v, r) → r.length < s.length)
    ∧ (∀ s k v r, member lim f s = .ok (k, v, r) → r.length < s.length)
    ∧ (∀ acc s v r, membersTail lim f acc s = .ok (v, r) → r.length < s.length) := by
  intro f
  induction f with
  | zero =>
    refine ⟨?_, ?_, ?_, ?_⟩
    · intro s v r h; simp [value] at h
    · intro acc s v r h; simp [itemsTail] at h
    · intro s k v r h; simp [member] at h
    · intro acc s v r h; simp [membersTail] at h
  | succ f ih =>
    obtain ⟨ihv, ihi, ihm, ihd⟩ := ih
    refine ⟨?_, ?_, ?_, ?_⟩
    · intro s v r h
      cases s with
      | nil => simp [value] at h
      | cons c cs =>
        have hsk := skipWs_length_le cs
        simp only [value] at h
        split at h
        · cases hp : parseString cs with
          | error e => rw [hp] at h; cases h
          | ok p =>
            obtain ⟨t, r1⟩ := p
            rw [hp] at h
            simp only [Except.ok.injEq, Prod.mk.injEq] at h
            have := parseString_length cs t r1 hp
            rw [← h.2]; simp only [List.length_cons]; omega
        · split at h
          · split at h
            · simp only [Except.ok.injEq, Prod.mk.injEq] at h
              have := tail_length_le (skipWs cs)
              rw [← h.2]; simp only [List.length_cons]; omega
            · cases hv : value lim f (skipWs cs) with
              | error e => rw [hv] at h; cases h
              | ok p =>
                obtain ⟨v1, r1⟩ := p
                rw [hv] at h
                have h1 := ihv _ _ _ hv
                have h2 := ihi _ _ _ _ h
                simp only [List.length_cons]; omega
          · split at h
            · split at h
              · simp only [Except.ok.injEq, Prod.mk.injEq] at h
                have := tail_length_le (skipWs cs)
                rw [← h.2]; simp only [List.length_cons]; omega
              · cases hv : member lim f (skipWs cs) with
                | error e => rw [hv] at h; cases h
                | ok p =>
                  obtain ⟨k1, v1, r1⟩ := p
                  rw [hv] at h
                  have h1 := ihm _ _ _ _ hv
                  have h2 := ihd _ _ _ _ h
                  simp only [List.length_cons]; omega
            · cases hl : literal? (c :: cs) with
              | some p =>
                rw [hl] at h
                simp only [Except.ok.injEq] at h
                subst h
                exact literal?_length _ _ _ hl
              | none =>
                rw [hl] at h
                exact number_length lim _ _ _ h
    · intro acc s v r h
      have hsk := skipWs_length_le s
      simp only [itemsTail] at h
      split at h
      · rename_i hh
        simp only [Except.ok.injEq, Prod.mk.injEq] at h
        have := tail_length_of_headIs hh
        rw [← h.2]; omega
      · split at h
        · have ht := tail_length_le (skipWs s)
          have hsk2 := skipWs_length_le (skipWs s).tail
          cases hv : value lim f (skipWs (skipWs s).tail) with
          | error e => rw [hv] at h; cases h
          | ok p =>
            obtain ⟨v1, r1⟩ := p
            rw [hv] at h
            have h1 := ihv _ _ _ hv
            have h2 := ihi _ _ _ _ h
            omega
        · cases h
    · intro s k v r h
      simp only [member] at h
      split at h
      · cases hp : parseString s.tail with
        | error e => rw [hp] at h; cases h
        | ok p =>
          obtain ⟨k1, r1⟩ := p
          rw [hp] at h
          simp only at h
          have h0 := parseString_length _ _ _ hp
          have ht := tail_length_le s
          split at h
          · have hsk := skipWs_length_le r1
            have ht2 := tail_length_le (skipWs r1)
            have hsk2 := skipWs_length_le (skipWs r1).tail
            cases hv : value lim f (skipWs (skipWs r1).tail) with
            | error e => rw [hv] at h; cases h
            | ok q =>
              obtain ⟨v1, r2⟩ := q
              rw [hv] at h
              simp only [Except.ok.injEq, Prod.mk.injEq] at h
              have h1 := ihv _ _ _ hv
              rw [← h.2.2]; omega
          · cases h
      · cases h
    · intro acc s v r h
      have hsk := skipWs_length_le s
      simp only [membersTail] at h
      split at h
      · rename_i hh
        simp only [Except.ok.injEq, Prod.mk.injEq] at h
        have := tail_length_of_headIs hh
        rw [← h.2]; omega
      · split at h
        · have ht := tail_length_le (skipWs s)
          have hsk2 := skipWs_length_le (skipWs s).tail
          cases hv : member lim f (skipWs (skipWs s).tail) with
          | error e => rw [hv] at h; cases h
          | ok p =>
            obtain ⟨k1, v1, r1⟩ := p
            rw [hv] at h
            have h1 := ihm _ _ _ _ hv
            have h2 := ihd _ _ _ _ h
            omega
        · cases h

/-! ### more fuel than characters never changes the answer -/

theorem scanStr_fuel : ∀ (f f' : Nat) (acc s : Str), s.length < f → s.length < f' → scanStr f acc s = scanStr f' acc s := by
  intro f
  induction f with
  | zero => intro f' acc s h; omega
  | succ f ih =>
    intro f' acc s h h'
    cases f' with
    | zero => omega
    | succ f' =>
      cases s with
      | nil => simp [scanStr]
      | cons c cs =>
        simp only [List.length_cons] at h h'
        simp only [scanStr]
        by_cases h1 : c = '"'
        · simp [h1]
        · simp only [h1, if_false]
          by_cases h2 : c = '\\'
          · simp only [h2, if_true]
            cases hu : unescape cs with
            | error e => rfl
            | ok p =>
              obtain ⟨ch, rest⟩ := p
              have := unescape_length cs rest ch hu
              exact ih f' _ _ (by omega) (by omega)
          · simp only [h2, if_false]
            by_cases h3 : c.toNat < 32
            · simp [h3]
            · simp only [h3, if_false]
              exact ih f' _ _ (by omega) (by omega)

theorem readers_fuel (lim : Nat) : ∀ f : Nat,
    (∀ s f', s.length < f → s.length < f' → value lim f s = value lim f' s)
    ∧ (∀ acc s f', s.length < f → s.length < f' → itemsTail lim f acc s = itemsTail lim f' acc s)
    ∧ (∀ s f', s.length < f → s.length < f' → member lim f s = member lim f' s)
    ∧ (∀ acc s f', s.length < f → s.length < f' → membersTail lim f acc s = membersTail lim f' acc s) := by
  intro f
  induction f with
  | zero => exact ⟨by intro s f' h; omega, by intro a s f' h; omega, by intro s f' h; omega, by intro a s f' h; omega⟩
  | succ f ih =>
    obtain ⟨ihv, ihi, ihm, ihd⟩ := ih
    refine ⟨?_, ?_, ?_, ?_⟩
    · intro s f' h h'
      cases f' with
      | zero => omega
      | succ f' =>
        cases s with
        | nil => simp [value]
        | cons c cs =>
          simp only [List.length_cons] at h h'
          have hsk := skipWs_length_le cs
          simp only [value]
          by_cases h1 : c = '"'
          · simp [h1]
          · simp only [h1, if_false]
            by_cases h2 : c = '['
            · simp only [h2, if_true]
              by_cases h3 : headIs (skipWs cs) ']' = true
              · simp [h3]
              · simp only [h3]
                rw [ihv (skipWs cs) f' (by omega) (by omega)]
                cases hv : value lim f' (skipWs cs) with
                | error e => rfl
                | ok p =>
                  obtain ⟨v1, r1⟩ := p
                  have := (readers_length lim f').1 _ _ _ hv
                  exact ihi _ _ f' (by omega) (by omega)
            · simp only [h2, if_false]
              by_cases h3 : c = '{'
              · simp only [h3, if_true]
                by_cases h4 : headIs (skipWs cs) '}' = true
                · simp [h4]
                · simp only [h4]
                  rw [ihm (skipWs cs) f' (by omega) (by omega)]
                  cases hv : member lim f' (skipWs cs) with
                  | error e => rfl
                  | ok p =>
                    obtain ⟨k1, v1, r1⟩ := p
                    have := (readers_length lim f').2.2.1 _ _ _ _ hv
                    exact ihd _ _ f' (by omega) (by omega)
              · simp [h3]
    · intro acc s f' h h'
      cases f' with
      | zero => omega
      | succ f' =>
        have hsk := skipWs_length_le s
        have ht := tail_length_le (skipWs s)
        have hsk2 := skipWs_length_le (skipWs s).tail
        simp only [itemsTail]
        by_cases h1 : headIs (skipWs s) ']' = true
        · simp [h1]
        · simp only [h1]
          by_cases h2 : headIs (skipWs s) ',' = true
          · simp only [h2, if_true]
            have ht' := tail_length_of_headIs h2
            rw [ihv _ f' (by omega) (by omega)]
            cases hv : value lim f' (skipWs (skipWs s).tail) with
            | error e => rfl
            | ok p =>
              obtain ⟨v1, r1⟩ := p
              have := (readers_length lim f').1 _ _ _ hv
              exact ihi _ _ f' (by omega) (by omega)
          · simp [h2]
    · intro s f' h h'
      cases f' with
      | zero => omega
      | succ f' =>
        simp only [member]
        by_cases h1 : headIs s '"' = true
        · simp only [h1, if_true]
          cases hp : parseString s.tail with
          | error e => rfl
          | ok p =>
            obtain ⟨k1, r1⟩ := p
            simp only
            have h0 := parseString_length _ _ _ hp
            have ht := tail_length_of_headIs h1
            have hsk := skipWs_length_le r1
            have ht2 := tail_length_le (skipWs r1)
            have hsk2 := skipWs_length_le (skipWs r1).tail
            by_cases h2 : headIs (skipWs r1) ':' = true
            · simp only [h2, if_true]
              rw [ihv _ f' (by omega) (by omega)]
            · simp [h2]
        · simp [h1]
    · intro acc s f' h h'
      cases f' with
      | zero => omega
      | succ f' =>
        have hsk := skipWs_length_le s
        have ht := tail_length_le (skipWs s)
        have hsk2 := skipWs_length_le (skipWs s).tail
        simp only [membersTail]
        by_cases h1 : headIs (skipWs s) '}' = true
        · simp [h1]
        · simp only [h1]
          by_cases h2 : headIs (skipWs s) ',' = true
          · simp only [h2, if_true]
            have ht' := tail_length_of_headIs h2
            rw [ihm _ f' (by omega) (by omega)]
            cases hv : member lim f' (skipWs (skipWs s).tail) with
            | error e => rfl
            | ok p =>
              obtain ⟨k1, v1, r1⟩ := p
              have := (readers_length lim f').2.2.1 _ _ _ _ hv
              exact ihd _ _ f' (by omega) (by omega)
          · simp [h2]

/-- `scan_once` does not depend on the fuel once it exceeds the length of the text -/
theorem value_fuel (lim : Nat) (s : Str) (f f' : Nat) (h : s.length < f) (h' : s.length < f') :
    value lim f s = value lim f' s := (readers_fuel lim f).1 s f' h h'

/-- **the fuel `parseWith` supplies is in the range where the answer is constant**: any larger fuel gives the same
answer, so the model's out-of-fuel value never decides the answer of `parseWith` -/
theorem parseWith_fuel (lim : Nat) (text : Str) (f : Nat) (h : text.length < f) :
    (match value lim f (skipWs text) with
     | .error e => .error e
     | .ok (v, r) => if (skipWs r).isEmpty then .ok v else .error .valueError) = parseWith lim text := by
  have := skipWs_length_le text
  unfold parseWith
  rw [value_fuel lim (skipWs text) f (text.length + 1) (by omega) (by omega)]
  generalize value lim (text.length + 1) (skipWs text) = x
  cases x with
  | error e => rfl
  | ok p => rfl

/-- likewise for string literals -/
theorem parseString_fuel (s : Str) (f : Nat) (h : s.length < f) : scanStr f [] s = parseString s :=
  scanStr_fuel f (s.length + 1) [] s h (by omega)

end PM.JsonParse
