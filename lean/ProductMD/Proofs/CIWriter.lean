import ProductMD.Proofs.CISections
/-! C01, the writer: what a successful `Variant.serialize` establishes (validity of every node, every flat entry filed,
nothing else filed, keys strictly sorted). -/
namespace PM.CI
open PM

mutual
/-- the entries a variant files, children first -/
def flat : Variant → Flat
  | .mk key id uid name type arches paths rel kids =>
    flats kids ++ [(uid, entryOf (.mk key id uid name type arches paths rel kids))]
def flats : List Variant → Flat
  | [] => []
  | v :: vs => flat v ++ flats vs
end

mutual
def height : Variant → Nat
  | .mk _ _ _ _ _ _ _ _ kids => heights kids + 1
def heights : List Variant → Nat
  | [] => 0
  | v :: vs => max (height v) (heights vs)
end

mutual
/-- every `validate()` the writer runs on the subtree succeeded -/
def Good (ctx : Ctx) : Variant → Prop
  | .mk key id uid name type arches paths rel kids =>
    (type = layeredProduct → validateClass "composeinfo.Release" (variantReleaseObj rel) = .ok ()) ∧
    validateClass "composeinfo.VariantPaths" [] = .ok () ∧
    validateClass "composeinfo.Variant" (variantObj ctx (.mk key id uid name type arches paths rel kids)) = .ok () ∧
    GoodL (some (uid, Str.sortDedup arches)) kids
def GoodL (ctx : Ctx) : List Variant → Prop
  | [] => True
  | v :: vs => Good ctx v ∧ GoodL ctx vs
end

/-- keys strictly increasing: the canonical representation of the dict being filled -/
def FSorted (d : Flat) : Prop := d.Pairwise (fun a b => a.1 < b.1)

theorem FSorted.keys_nodup {d : Flat} (h : FSorted d) : (d.map (·.1)).Nodup := by
  unfold FSorted at h
  unfold List.Nodup
  rw [List.pairwise_map]
  refine List.Pairwise.imp ?_ h
  intro a b hab heq
  rw [heq] at hab
  exact List.lt_irrefl _ hab

theorem mem_insertFlat {k : Str} {e : Entry} {x : Str × Entry} {d : Flat} : x ∈ insertFlat k e d ↔ x = (k, e) ∨ x ∈ d := by
  induction d with
  | nil => simp [insertFlat]
  | cons a as ih =>
    obtain ⟨ak, ae⟩ := a
    simp only [insertFlat]
    split
    · simp
    · simp only [List.mem_cons, ih]
      constructor
      · rintro (h | h | h) <;> simp [h]
      · rintro (h | h | h) <;> simp [h]

theorem insertFlat_sorted {k : Str} {e : Entry} {d : Flat} (hs : FSorted d) (hk : ∀ x ∈ d, x.1 ≠ k) : FSorted (insertFlat k e d) := by
  induction d with
  | nil => simp [insertFlat, FSorted]
  | cons a as ih =>
    obtain ⟨ak, ae⟩ := a
    unfold FSorted at hs
    have ⟨ha, hs'⟩ := List.pairwise_cons.mp hs
    simp only [insertFlat]
    split
    · rename_i hlt
      have hlt' : k < ak := by simpa [Str.lt] using hlt
      exact List.pairwise_cons.mpr ⟨fun b hb => by
        rcases List.mem_cons.mp hb with rfl | hb
        · exact hlt'
        · exact List.lt_trans hlt' (ha b hb), hs⟩
    · rename_i hnlt
      have hnlt' : ¬ k < ak := by simpa [Str.lt] using hnlt
      have hne : k ≠ ak := fun h => hk (ak, ae) (by simp) h.symm
      have hak : ak < k := lt_of_not_lt_ne hnlt' hne
      exact List.pairwise_cons.mpr ⟨fun b hb => by
        rcases mem_insertFlat.mp hb with rfl | hb
        · exact hak
        · exact ha b hb, ih hs' (fun x hx => hk x (by simp [hx]))⟩

theorem putEntry_spec {k : Str} {e : Entry} {d d' : Flat} (h : putEntry k e d = .ok d') (hs : FSorted d) :
    FSorted d' ∧ (∀ x ∈ d, x ∈ d') ∧ (k, e) ∈ d' ∧ (∀ x ∈ d', x ∈ d ∨ x = (k, e)) := by
  unfold putEntry at h
  split at h
  · rename_i hl
    cases h
    refine ⟨insertFlat_sorted hs (lookup_none_iff.mp hl), fun x hx => mem_insertFlat.mpr (.inr hx), mem_insertFlat.mpr (.inl rfl), ?_⟩
    intro x hx
    rcases mem_insertFlat.mp hx with h | h
    · exact .inr h
    · exact .inl h
  · rename_i e' hl
    split at h
    · rename_i he
      cases h
      subst he
      exact ⟨hs, fun x hx => hx, mem_of_lookup hl, fun x hx => .inl hx⟩
    · cases h

mutual
theorem ser_spec : ∀ (v : Variant) (ctx : Ctx) (d d' : Flat), Variant.ser ctx v d = .ok d' → FSorted d →
    Good ctx v ∧ FSorted d' ∧ (∀ x ∈ d, x ∈ d') ∧ (∀ x ∈ flat v, x ∈ d') ∧ (∀ x ∈ d', x ∈ d ∨ x ∈ flat v)
  | .mk key id uid name type arches paths rel kids, ctx, d, d', h, hs => by
    unfold Variant.ser at h
    split at h
    · cases h
    · rename_i hrel
      split at h
      · cases h
      · rename_i hpaths
        split at h
        · cases h
        · rename_i d1 hkids
          split at h
          · cases h
          · rename_i d2 hput
            split at h
            · cases h
            · rename_i hval
              cases h
              have ⟨g1, s1, sub1, all1, only1⟩ := sers_spec kids _ d d1 hkids hs
              have ⟨s2, sub2, mem2, only2⟩ := putEntry_spec hput s1
              refine ⟨⟨?_, hpaths, hval, g1⟩, s2, fun x hx => sub2 x (sub1 x hx), ?_, ?_⟩
              · intro ht
                simpa [ht] using hrel
              · intro x hx
                simp only [flat, List.mem_append, List.mem_singleton] at hx
                rcases hx with hx | hx
                · exact sub2 x (all1 x hx)
                · exact hx ▸ mem2
              · intro x hx
                simp only [flat, List.mem_append, List.mem_singleton]
                rcases only2 x hx with h1 | h1
                · rcases only1 x h1 with h2 | h2
                  · exact .inl h2
                  · exact .inr (.inl h2)
                · exact .inr (.inr h1)
theorem sers_spec : ∀ (vs : List Variant) (ctx : Ctx) (d d' : Flat), sers ctx vs d = .ok d' → FSorted d →
    GoodL ctx vs ∧ FSorted d' ∧ (∀ x ∈ d, x ∈ d') ∧ (∀ x ∈ flats vs, x ∈ d') ∧ (∀ x ∈ d', x ∈ d ∨ x ∈ flats vs)
  | [], ctx, d, d', h, hs => by
    simp only [sers] at h
    cases h
    exact ⟨trivial, hs, fun x hx => hx, fun x hx => by simp [flats] at hx, fun x hx => .inl hx⟩
  | v :: vs, ctx, d, d', h, hs => by
    unfold sers at h
    split at h
    · cases h
    · rename_i d1 hv
      have ⟨g1, s1, sub1, all1, only1⟩ := ser_spec v ctx d d1 hv hs
      have ⟨g2, s2, sub2, all2, only2⟩ := sers_spec vs ctx d1 d' h s1
      refine ⟨⟨g1, g2⟩, s2, fun x hx => sub2 x (sub1 x hx), ?_, ?_⟩
      · intro x hx
        simp only [flats, List.mem_append] at hx
        rcases hx with hx | hx
        · exact sub2 x (all1 x hx)
        · exact all2 x hx
      · intro x hx
        simp only [flats, List.mem_append]
        rcases only2 x hx with h1 | h1
        · rcases only1 x h1 with h2 | h2
          · exact .inl h2
          · exact .inr (.inl h2)
        · exact .inr (.inr h1)
end

end PM.CI
