import ProductMD.Proofs.ForestValidate
/-! Invariants of the variant forest and their preservation by `add` (C11). -/
namespace PM.Forest

/-! ### insertion-ordered dicts -/

theorem dget_mem {k : Str} {l : List (Str × Nat)} {v : Nat} (h : dget k l = some v) : (k, v) ∈ l := by
  induction l with
  | nil => simp [dget] at h
  | cons kv r ih =>
    unfold dget at h
    by_cases hk : kv.1 = k
    · simp [hk] at h; subst h; subst hk; simp
    · simp [hk] at h; exact List.mem_cons_of_mem _ (ih h)

theorem dget_none {k : Str} {l : List (Str × Nat)} (h : dget k l = none) : k ∉ l.map (·.1) := by
  induction l with
  | nil => simp
  | cons kv r ih =>
    unfold dget at h
    by_cases hk : kv.1 = k
    · simp [hk] at h
    · simp [hk] at h
      simp only [List.map_cons, List.mem_cons, not_or]
      exact ⟨fun e => hk e.symm, ih h⟩

theorem dget_of_mem {k : Str} {l : List (Str × Nat)} {v : Nat} (hn : (l.map (·.1)).Nodup) (h : (k, v) ∈ l) :
    dget k l = some v := by
  induction l with
  | nil => simp at h
  | cons kv r ih =>
    simp only [List.map_cons, List.nodup_cons] at hn
    unfold dget
    rcases List.mem_cons.mp h with h | h
    · subst h; simp
    · have hne : kv.1 ≠ k := by
        intro e; apply hn.1; rw [e]; exact List.mem_map.mpr ⟨(k, v), h, rfl⟩
      simp [hne, ih hn.2 h]

theorem dget_none_of_not_mem {k : Str} {l : List (Str × Nat)} (h : k ∉ l.map (·.1)) : dget k l = none := by
  cases hd : dget k l with
  | none => rfl
  | some v => exact absurd (List.mem_map.mpr ⟨(k, v), dget_mem hd, rfl⟩) h

/-! ### the state after an insertion -/

theorem setKids_kidsOf (s : State) (c d : Cont) (l : List (Str × Nat)) :
    (s.setKids c l).kidsOf d = if d = c then l else s.kidsOf d := by
  cases c <;> cases d <;> simp [State.setKids, State.kidsOf]

@[simp] theorem setKids_parent (s : State) (c : Cont) (l : List (Str × Nat)) : (s.setKids c l).parent = s.parent := by
  cases c <;> rfl

/-- the state after the first mutation of `add` at the current source: `variant.parent = self if hasattr(self, "uid") else None` -/
def pre (s : State) (c : Cont) (v : Nat) : State := s.setParent v c

@[simp] theorem pre_kids (s : State) (c : Cont) (v : Nat) : (pre s c v).kids = s.kids := rfl
@[simp] theorem pre_top (s : State) (c : Cont) (v : Nat) : (pre s c v).top = s.top := rfl

/-- the handler `variant.parent = old_parent` undoes the first mutation -/
theorem setParent_restore (s : State) (v : Nat) (x : Option Nat) : (s.setParent v x).setParent v (s.parent v) = s := by
  cases s with
  | mk parent kids top =>
    simp only [State.setParent, State.mk.injEq, and_true]
    funext j
    by_cases h : j = v <;> simp [h]

/-- the statement order of `VariantBase.add` the theorems below are about; `script_here` is re-checked against the file
regenerated from the source on every run -/
def specScript : AddScript :=
  { pre := [.saveParent, .parentOrNone],
    body := [.validate, .pickKey, .cycleCheck, .setdefault, .dupRefuse],
    restore := true,
    post := [] }

theorem script_here : Gen.forest_add_script = specScript := by decide
@[simp] theorem pre_kidsOf (s : State) (c : Cont) (v : Nat) (d : Cont) : (pre s c v).kidsOf d = s.kidsOf d := by
  cases d <;> simp [State.kidsOf]

theorem pre_parent_self (s : State) (c : Cont) (v : Nat) : (pre s c v).parent v = c := by
  simp [pre, State.setParent]

theorem pre_parent_other (s : State) (c : Cont) (v w : Nat) (h : w ≠ v) : (pre s c v).parent w = s.parent w := by
  simp [pre, State.setParent, h]

theorem kids_eq_kidsOf (s : State) (p : Nat) : s.kids p = s.kidsOf (some p) := rfl
theorem top_eq_kidsOf (s : State) : s.top = s.kidsOf none := rfl

/-- the three ways an `add` can end.  A refused call returns the state it started from: the parent pointer written first
is restored by the handler (proved from the script, `setParent_restore`). -/
theorem add_cases (U : Nat → Attrs) (fuel : Nat) (s : State) (c : Cont) (v : Nat) (key : Option Str) :
    (∃ e, add U fuel s c v key = (s, .error e)) ∨
    (add U fuel s c v key = (pre s c v, .ok ()) ∧ validate U (pre s c v) v = .ok ()
        ∧ dget (addKey U c v key) (s.kidsOf c) = some v) ∨
    (add U fuel s c v key = ((pre s c v).setKids c (s.kidsOf c ++ [(addKey U c v key, v)]), .ok ())
        ∧ validate U (pre s c v) v = .ok () ∧ dget (addKey U c v key) (s.kidsOf c) = none
        ∧ ∃ ps, allParents (pre s c v) fuel c = some ps ∧ ps.contains (some v) = false) := by
  have hrest : (s.setParent v c).setParent v (s.parent v) = s := setParent_restore s v c
  have hk : (s.setParent v c).kidsOf c = s.kidsOf c := pre_kidsOf s c v c
  have hun : add U fuel s c v key = runScript U fuel specScript s c v key := by unfold add; rw [script_here]
  rw [hun]
  cases hval : validate U (s.setParent v c) v with
  | error e =>
    refine Or.inl ⟨e, ?_⟩
    simp only [runScript, specScript, execSteps, execStep, hval, if_true, hrest]
  | ok u =>
    cases u
    cases hp : allParents (s.setParent v c) fuel c with
    | none =>
      refine Or.inl ⟨.runtimeError, ?_⟩
      simp only [runScript, specScript, execSteps, execStep, hval, hp, if_true, hrest]
    | some ps =>
      by_cases hc : ps.contains (some v) = true
      · refine Or.inl ⟨.valueError, ?_⟩
        simp only [runScript, specScript, execSteps, execStep, hval, hp, hc, if_true, hrest]
      · have hc' : ps.contains (some v) = false := by simpa using hc
        cases hd : dget (addKey U c v key) (s.kidsOf c) with
        | none =>
          refine Or.inr (Or.inr ⟨?_, hval, rfl, ps, hp, hc'⟩)
          simp only [runScript, specScript, execSteps, execStep, hval, hp, hc', Option.getD_some, hk, hd, if_true,
            Bool.false_eq_true, if_false, pre]
        | some w =>
          by_cases hw : w = v
          · subst hw
            refine Or.inr (Or.inl ⟨?_, hval, rfl⟩)
            simp only [runScript, specScript, execSteps, execStep, hval, hp, hc', Option.getD_some, hk, hd, if_true,
              Bool.false_eq_true, if_false, pre]
          · refine Or.inl ⟨.valueError, ?_⟩
            simp only [runScript, specScript, execSteps, execStep, hval, hp, hc', Option.getD_some, hk, hd, hw, if_true,
              Bool.false_eq_true, if_false, hrest]

/-! ### the invariant that holds after ANY history -/

/-- field checks of `validate()` that do not depend on the state -/
structure FieldsOk (a : Attrs) : Prop where
  id_nodash : '-' ∉ a.id
  id_ne : a.id ≠ []
  type_ok : a.type ∈ Gen.VARIANT_TYPES
  arches_ne : a.arches ≠ []
  name_ne : a.name ≠ []

theorem Validated.fields {U s v} (h : Validated U s v) : FieldsOk (U v) :=
  ⟨h.id_nodash, h.id_ne, h.type_ok, h.arches_ne, h.name_ne⟩

/-- an entry `k ↦ v` of the children dict of variant `p` -/
structure EdgeOk (U : Nat → Attrs) (p : Nat) (k : Str) (v : Nat) : Prop where
  key : k = (U v).id
  uid : (U v).uid = (U p).uid ++ '-' :: (U v).id
  arches : ∀ a ∈ (U v).arches, a ∈ (U p).arches

/-- `InvW`: what every children dict satisfies after any history of `add` calls whatsoever -/
structure InvW (U : Nat → Attrs) (s : State) : Prop where
  edge : ∀ p k v, (k, v) ∈ s.kids p → EdgeOk U p k v
  fields : ∀ c k v, (k, v) ∈ s.kidsOf c → FieldsOk (U v)
  keys : ∀ c, ((s.kidsOf c).map (·.1)).Nodup

theorem InvW.empty (U : Nat → Attrs) : InvW U State.empty := by
  refine ⟨?_, ?_, ?_⟩
  · intro p k v h; simp [State.empty] at h
  · intro c k v h; cases c <;> simp [State.empty, State.kidsOf] at h
  · intro c; cases c <;> simp [State.empty, State.kidsOf]

theorem InvW.of_same_kids {U s s'} (h : InvW U s) (hk : s'.kids = s.kids) (ht : s'.top = s.top) : InvW U s' := by
  have hko : ∀ c, s'.kidsOf c = s.kidsOf c := by
    intro c; cases c <;> simp [State.kidsOf, hk, ht]
  refine ⟨?_, ?_, ?_⟩
  · intro p k v hm; rw [hk] at hm; exact h.edge p k v hm
  · intro c k v hm; rw [hko] at hm; exact h.fields c k v hm
  · intro c; rw [hko]; exact h.keys c

/-- the new entry of an accepted insertion is a good edge -/
theorem new_edge_ok (U : Nat → Attrs) (s : State) (p v : Nat) (key : Option Str)
    (hv : validate U (pre s (some p) v) v = .ok ()) : EdgeOk U p (addKey U (some p) v key) v := by
  have V := validated_of_ok U _ v hv
  have hp := pre_parent_self s (some p) v
  exact ⟨by simp [addKey], V.uid_child p hp, V.arches_sub p hp⟩

theorem InvW.insert {U : Nat → Attrs} {s : State} (h : InvW U s) (c : Cont) (v : Nat) (key : Option Str)
    (hv : validate U (pre s c v) v = .ok ()) (hd : dget (addKey U c v key) (s.kidsOf c) = none) :
    InvW U ((pre s c v).setKids c (s.kidsOf c ++ [(addKey U c v key, v)])) := by
  have V := validated_of_ok U _ v hv
  refine ⟨?_, ?_, ?_⟩
  · intro p k w hm
    rw [kids_eq_kidsOf, setKids_kidsOf] at hm
    by_cases hc : some p = c
    · simp only [hc, if_true] at hm
      rcases List.mem_append.mp hm with hm | hm
      · subst hc; exact h.edge p k w hm
      · simp at hm; obtain ⟨rfl, rfl⟩ := hm
        subst hc; exact new_edge_ok U s p w key hv
    · simp only [hc, if_false, pre_kidsOf] at hm
      exact h.edge p k w hm
  · intro d k w hm
    rw [setKids_kidsOf] at hm
    by_cases hc : d = c
    · simp only [hc, if_true] at hm
      rcases List.mem_append.mp hm with hm | hm
      · exact h.fields c k w hm
      · simp at hm; obtain ⟨rfl, rfl⟩ := hm; exact V.fields
    · simp only [hc, if_false, pre_kidsOf] at hm
      exact h.fields d k w hm
  · intro d
    rw [setKids_kidsOf]
    by_cases hc : d = c
    · simp only [hc, if_true, List.map_append, List.map_cons, List.map_nil]
      refine List.nodup_append.mpr ⟨h.keys c, by simp, ?_⟩
      intro a ha b hb
      simp at hb; subst hb
      intro e; subst e
      exact dget_none hd ha
    · simp only [hc, if_false, pre_kidsOf]; exact h.keys d

/-- `InvW` is preserved by every `add`, accepted or refused, whatever its arguments -/
theorem InvW.add {U : Nat → Attrs} {s : State} (h : InvW U s) (fuel : Nat) (c : Cont) (v : Nat) (key : Option Str) :
    InvW U (add U fuel s c v key).1 := by
  rcases add_cases U fuel s c v key with ⟨e, h'⟩ | ⟨h', -⟩ | ⟨h', hv, hd, -⟩
  · rw [h']; exact h.of_same_kids (by simp) (by simp)
  · rw [h']; exact h.of_same_kids (by simp) (by simp)
  · rw [h']; exact h.insert c v key hv hd

/-! ### the full invariant -/

/-- `v` sits in some children dict -/
def Placed (s : State) (v : Nat) : Prop := ∃ c k, (k, v) ∈ s.kidsOf c

/-- hypothesis on one call `c.add(v, key)`: the object is not already filed under ANOTHER container object or key (F33: `add`
does not check that; two objects with one UID both accept the same child), and an explicit top-level key is the id or the
UID (F29).  Nothing is assumed about parent pointers, about the outcome, or about earlier refused calls. -/
structure AddOk (U : Nat → Attrs) (s : State) (c : Cont) (v : Nat) (key : Option Str) : Prop where
  elsewhere : ∀ d k', (k', v) ∈ s.kidsOf d → d = c ∧ k' = addKey U c v key
  keyOk : c = none → ∀ k, key = some k → k = [] ∨ k = (U v).id ∨ k = (U v).uid

structure Inv (U : Nat → Attrs) (s : State) : Prop where
  weak : InvW U s
  /-- parent pointers mirror the children dicts (`none` for the top-level container) -/
  parent : ∀ c k v, (k, v) ∈ s.kidsOf c → s.parent v = c
  /-- an object occurs at most once in a dict (hence, with `parent`, once in the forest) -/
  once : ∀ c, ((s.kidsOf c).map (·.2)).Nodup
  topAligned : ∀ k v, (k, v) ∈ s.top → Str.removeChar '-' (U v).uid = (U v).id
  topKey : ∀ k v, (k, v) ∈ s.top → k = (U v).id ∨ k = (U v).uid

theorem Inv.empty (U : Nat → Attrs) : Inv U State.empty := by
  refine ⟨InvW.empty U, ?_, ?_, ?_, ?_⟩
  · intro c k v h; cases c <;> simp [State.empty, State.kidsOf] at h
  · intro c; cases c <;> simp [State.empty, State.kidsOf]
  · intro k v h; simp [State.empty] at h
  · intro k v h; simp [State.empty] at h

/-- writing the parent pointer of an object that is filed nowhere but (possibly) in `c` itself -/
theorem Inv.of_pre {U : Nat → Attrs} {s : State} (h : Inv U s) (c : Cont) (v : Nat)
    (hel : ∀ d k', (k', v) ∈ s.kidsOf d → d = c) : Inv U (pre s c v) := by
  refine ⟨h.weak.of_same_kids (by simp) (by simp), ?_, ?_, ?_, ?_⟩
  · intro d k w hm
    rw [pre_kidsOf] at hm
    by_cases hw : w = v
    · subst hw; rw [pre_parent_self]; exact (hel d k hm).symm
    · rw [pre_parent_other s c v w hw]; exact h.parent d k w hm
  · intro d; rw [pre_kidsOf]; exact h.once d
  · intro k w hm; rw [pre_top] at hm; exact h.topAligned k w hm
  · intro k w hm; rw [pre_top] at hm; exact h.topKey k w hm

theorem Inv.insert {U : Nat → Attrs} {s : State} (h : Inv U s) (c : Cont) (v : Nat) (key : Option Str)
    (hun : ¬ Placed s v) (hkey : c = none → ∀ k, key = some k → k = [] ∨ k = (U v).id ∨ k = (U v).uid)
    (hv : validate U (pre s c v) v = .ok ()) (hd : dget (addKey U c v key) (s.kidsOf c) = none) :
    Inv U ((pre s c v).setKids c (s.kidsOf c ++ [(addKey U c v key, v)])) := by
  have V := validated_of_ok U _ v hv
  have hpre := h.of_pre c v (fun d k' hm => absurd ⟨d, k', hm⟩ hun)
  have hpv : (pre s c v).parent v = c := pre_parent_self s c v
  refine ⟨h.weak.insert c v key hv hd, ?_, ?_, ?_, ?_⟩
  · intro d k w hm
    rw [setKids_kidsOf] at hm
    rw [setKids_parent]
    by_cases hc : d = c
    · simp only [hc, if_true] at hm
      rcases List.mem_append.mp hm with hm | hm
      · subst hc; exact hpre.parent d k w (by rw [pre_kidsOf]; exact hm)
      · simp at hm; obtain ⟨rfl, rfl⟩ := hm; rw [hc]; exact hpv
    · simp only [hc, if_false] at hm
      exact hpre.parent d k w hm
  · intro d
    rw [setKids_kidsOf]
    by_cases hc : d = c
    · simp only [hc, if_true, List.map_append, List.map_cons, List.map_nil]
      refine List.nodup_append.mpr ⟨h.once c, by simp, ?_⟩
      intro a ha b hb
      simp at hb; subst hb
      intro e; subst e
      obtain ⟨kv, hkv, rfl⟩ := List.mem_map.mp ha
      exact hun ⟨c, kv.1, hkv⟩
    · simp only [hc, if_false, pre_kidsOf]; exact h.once d
  · intro k w hm
    rw [top_eq_kidsOf, setKids_kidsOf] at hm
    by_cases hc : none = c
    · simp only [hc, if_true] at hm
      subst hc
      rcases List.mem_append.mp hm with hm | hm
      · exact h.topAligned k w hm
      · simp at hm; obtain ⟨rfl, rfl⟩ := hm
        exact V.uid_top hpv
    · simp only [hc, if_false, pre_kidsOf] at hm
      exact h.topAligned k w hm
  · intro k w hm
    rw [top_eq_kidsOf, setKids_kidsOf] at hm
    by_cases hc : none = c
    · simp only [hc, if_true] at hm
      subst hc
      rcases List.mem_append.mp hm with hm | hm
      · exact h.topKey k w hm
      · simp at hm; obtain ⟨rfl, rfl⟩ := hm
        cases key with
        | none => exact Or.inl rfl
        | some k =>
          simp only [addKey]
          by_cases he : k.isEmpty = true
          · simp [he]
          · simp only [he]
            rcases hkey rfl k rfl with h0 | h0 | h0
            · subst h0; simp at he
            · exact Or.inl h0
            · exact Or.inr h0
    · simp only [hc, if_false, pre_kidsOf] at hm
      exact h.topKey k w hm

/-- core step: `elsewhere` is only needed when the validators accept the object under its new parent -/
theorem Inv.add_core {U : Nat → Attrs} {s : State} (h : Inv U s) (fuel : Nat) (c : Cont) (v : Nat) (key : Option Str)
    (hel : validate U (pre s c v) v = .ok () → ∀ d k', (k', v) ∈ s.kidsOf d → d = c ∧ k' = addKey U c v key)
    (hkey : c = none → ∀ k, key = some k → k = [] ∨ k = (U v).id ∨ k = (U v).uid) :
    Inv U (add U fuel s c v key).1 := by
  rcases add_cases U fuel s c v key with ⟨e, h'⟩ | ⟨h', hv, -⟩ | ⟨h', hv, hd, -⟩
  · rw [h']; exact h
  · rw [h']; exact h.of_pre c v (fun d k' hm => (hel hv d k' hm).1)
  · rw [h']
    refine h.insert c v key ?_ hkey hv hd
    rintro ⟨d, k', hm⟩
    obtain ⟨rfl, rfl⟩ := hel hv d k' hm
    have := dget_of_mem (h.weak.keys d) hm
    rw [hd] at this; cases this

/-- `Inv` is preserved by every `add` – accepted or refused – whose argument is not already filed elsewhere -/
theorem Inv.add {U : Nat → Attrs} {s : State} (h : Inv U s) (fuel : Nat) (c : Cont) (v : Nat) (key : Option Str)
    (hf : AddOk U s c v key) : Inv U (add U fuel s c v key).1 :=
  h.add_core fuel c v key (fun _ => hf.elsewhere) hf.keyOk

/-! ### universes without duplicate UIDs: no hypothesis on the history at all (default keys) -/

/-- all objects ever constructed have pairwise different UIDs, none of them made of dashes only -/
structure UidsApart (U : Nat → Attrs) : Prop where
  inj : ∀ i j, (U i).uid = (U j).uid → i = j
  solid : ∀ i, Str.removeChar '-' (U i).uid ≠ []

theorem removeChar_append (c : Char) (a b : Str) : Str.removeChar c (a ++ b) = Str.removeChar c a ++ Str.removeChar c b := by
  simp [Str.removeChar]

theorem removeChar_self_cons (c : Char) (a : Str) : Str.removeChar c (c :: a) = Str.removeChar c a := by
  simp [Str.removeChar]

theorem removeChar_id {c : Char} {u : Str} (h : c ∉ u) : Str.removeChar c u = u := by
  unfold Str.removeChar
  apply List.filter_eq_self.mpr
  intro x hx
  simp only [ne_eq, decide_not, Bool.not_eq_true', decide_eq_false_iff_not]
  intro e; subst e; exact h hx

/-- a UID `p.uid-id` is never aligned as a top-level UID with the same id, unless `p.uid` consists of dashes -/
theorem not_top_and_child {pu i u : Str} (hi : '-' ∉ i) (h1 : u = pu ++ '-' :: i) (h2 : Str.removeChar '-' u = i) :
    Str.removeChar '-' pu = [] := by
  rw [h1, removeChar_append, removeChar_self_cons, removeChar_id hi] at h2
  have := congrArg List.length h2
  simpa using this

/-- with `UidsApart`, an object the validators accept under `c` cannot already be filed under another container -/
theorem elsewhere_of_valid {U : Nat → Attrs} {s : State} (h : Inv U s) (hU : UidsApart U)
    (htop : ∀ kv ∈ s.top, kv.1 = (U kv.2).id) (c : Cont) (v : Nat)
    (hv : validate U (pre s c v) v = .ok ()) :
    ∀ d k', (k', v) ∈ s.kidsOf d → d = c ∧ k' = addKey U c v none := by
  have V := validated_of_ok U _ v hv
  have hpv : (pre s c v).parent v = c := pre_parent_self s c v
  intro d k' hm
  cases d with
  | some q =>
    have e := h.weak.edge q k' v hm
    cases c with
    | some p =>
      have h2 := V.uid_child p hpv
      rw [e.uid] at h2
      have := hU.inj q p (List.append_cancel_right h2)
      subst this
      exact ⟨rfl, by rw [e.key]; simp [addKey]⟩
    | none =>
      exact absurd (not_top_and_child V.id_nodash e.uid (V.uid_top hpv)) (hU.solid q)
  | none =>
    cases c with
    | some p =>
      exact absurd (not_top_and_child V.id_nodash (V.uid_child p hpv) (h.topAligned k' v hm)) (hU.solid p)
    | none => exact ⟨rfl, by have := htop (k', v) hm; simp only at this; rw [this]; simp [addKey]⟩

/-- one `add` with the default key keeps "top-level keys are ids" -/
theorem topIds_add (U : Nat → Attrs) (fuel : Nat) (s : State) (c : Cont) (v : Nat)
    (h : ∀ kv ∈ s.top, kv.1 = (U kv.2).id) : ∀ kv ∈ (add U fuel s c v none).1.top, kv.1 = (U kv.2).id := by
  rcases add_cases U fuel s c v none with ⟨e, he⟩ | ⟨he, _⟩ | ⟨he, _⟩
  · rw [he]; exact h
  · rw [he]; simpa using h
  · rw [he]
    intro kv hkv
    rw [top_eq_kidsOf, setKids_kidsOf] at hkv
    by_cases hc : none = c
    · simp only [hc, if_true] at hkv
      subst hc
      rcases List.mem_append.mp hkv with hkv | hkv
      · exact h kv hkv
      · simp at hkv; subst hkv; simp [addKey]
    · simp only [hc, if_false, pre_kidsOf] at hkv
      exact h kv hkv

end PM.Forest
