import ProductMD.Proofs.ForestValidate
/-! Invariants of the variant forest and their preservation by `add` (C11). -/
namespace PM.Forest

/-! ### insertion-ordered dicts -/

theorem dget_mem {k : Str} {l : List (Str × Nat)} {v : Nat} (h : dget k l = some v) : (k, v) ∈ l := by
  induction l with
  | nil => simp [dget] at h
  | cons kv r ih =>
    unfold dget at h
    by_cases hk : kv.1 = k
    · simp [hk] at h; subst h; subst hk; simp
    · simp [hk] at h; exact List.mem_cons_of_mem _ (ih h)

theorem dget_none {k : Str} {l : List (Str × Nat)} (h : dget k l = none) : k ∉ l.map (·.1) := by
  induction l with
  | nil => simp
  | cons kv r ih =>
    unfold dget at h
    by_cases hk : kv.1 = k
    · simp [hk] at h
    · simp [hk] at h
      simp only [List.map_cons, List.mem_cons, not_or]
      exact ⟨fun e => hk e.symm, ih h⟩

theorem dget_of_mem {k : Str} {l : List (Str × Nat)} {v : Nat} (hn : (l.map (·.1)).Nodup) (h : (k, v) ∈ l) :
    dget k l = some v := by
  induction l with
  | nil => simp at h
  | cons kv r ih =>
    simp only [List.map_cons, List.nodup_cons] at hn
    unfold dget
    rcases List.mem_cons.mp h with h | h
    · subst h; simp
    · have hne : kv.1 ≠ k := by
        intro e; apply hn.1; rw [e]; exact List.mem_map.mpr ⟨(k, v), h, rfl⟩
      simp [hne, ih hn.2 h]

theorem dget_none_of_not_mem {k : Str} {l : List (Str × Nat)} (h : k ∉ l.map (·.1)) : dget k l = none := by
  cases hd : dget k l with
  | none => rfl
  | some v => exact absurd (List.mem_map.mpr ⟨(k, v), dget_mem hd, rfl⟩) h

/-! ### the state after an insertion -/

theorem setKids_kidsOf (s : State) (c d : Cont) (l : List (Str × Nat)) :
    (s.setKids c l).kidsOf d = if d = c then l else s.kidsOf d := by
  cases c <;> cases d <;> simp [State.setKids, State.kidsOf]

@[simp] theorem setKids_parent (s : State) (c : Cont) (l : List (Str × Nat)) : (s.setKids c l).parent = s.parent := by
  cases c <;> rfl

@[simp] theorem pre_kids (s : State) (c : Cont) (v : Nat) : (pre s c v).kids = s.kids := by
  cases c <;> rfl
@[simp] theorem pre_top (s : State) (c : Cont) (v : Nat) : (pre s c v).top = s.top := by
  cases c <;> rfl
@[simp] theorem pre_kidsOf (s : State) (c : Cont) (v : Nat) (d : Cont) : (pre s c v).kidsOf d = s.kidsOf d := by
  cases d <;> simp [State.kidsOf]

theorem pre_parent_self (s : State) (p v : Nat) : (pre s (some p) v).parent v = some p := by
  simp [pre, State.setParent]

theorem pre_parent_other (s : State) (c : Cont) (v w : Nat) (h : w ≠ v) : (pre s c v).parent w = s.parent w := by
  cases c <;> simp [pre, State.setParent, h]

theorem kids_eq_kidsOf (s : State) (p : Nat) : s.kids p = s.kidsOf (some p) := rfl
theorem top_eq_kidsOf (s : State) : s.top = s.kidsOf none := rfl

/-- the three ways an `add` can end -/
theorem add_cases (U : Nat → Attrs) (fuel : Nat) (s : State) (c : Cont) (v : Nat) (key : Option Str) :
    (∃ e, add U fuel s c v key = (pre s c v, .error e)) ∨
    (add U fuel s c v key = (pre s c v, .ok ()) ∧ validate U (pre s c v) v = .ok ()
        ∧ dget (addKey U c v key) (s.kidsOf c) = some v) ∨
    (add U fuel s c v key = ((pre s c v).setKids c (s.kidsOf c ++ [(addKey U c v key, v)]), .ok ())
        ∧ validate U (pre s c v) v = .ok () ∧ dget (addKey U c v key) (s.kidsOf c) = none
        ∧ ∃ ps, allParents (pre s c v) fuel c = some ps ∧ ps.contains (some v) = false) := by
  unfold add
  simp only [pre_kidsOf]
  cases hval : validate U (pre s c v) v with
  | error e => exact Or.inl ⟨e, rfl⟩
  | ok u =>
    cases hp : allParents (pre s c v) fuel c with
    | none => exact Or.inl ⟨_, rfl⟩
    | some ps =>
      by_cases hc : ps.contains (some v) = true
      · simp only [hc, if_true]; exact Or.inl ⟨_, rfl⟩
      · have hc' : some v ∉ ps := by simpa using hc
        cases hd : dget (addKey U c v key) (s.kidsOf c) with
        | none =>
          refine Or.inr (Or.inr ?_)
          simp [hc']
        | some w =>
          by_cases hw : w = v
          · subst hw; exact Or.inr (Or.inl (by simp [hc']))
          · exact Or.inl ⟨.valueError, by simp [hc', hw]⟩

/-! ### the invariant that holds after ANY history -/

/-- field checks of `validate()` that do not depend on the state -/
structure FieldsOk (a : Attrs) : Prop where
  id_nodash : '-' ∉ a.id
  id_ne : a.id ≠ []
  type_ok : a.type ∈ Gen.VARIANT_TYPES
  arches_ne : a.arches ≠ []
  name_ne : a.name ≠ []

theorem Validated.fields {U s v} (h : Validated U s v) : FieldsOk (U v) :=
  ⟨h.id_nodash, h.id_ne, h.type_ok, h.arches_ne, h.name_ne⟩

/-- an entry `k ↦ v` of the children dict of variant `p` -/
structure EdgeOk (U : Nat → Attrs) (p : Nat) (k : Str) (v : Nat) : Prop where
  key : k = (U v).id
  uid : (U v).uid = (U p).uid ++ '-' :: (U v).id
  arches : ∀ a ∈ (U v).arches, a ∈ (U p).arches

/-- `InvW`: what every children dict satisfies after any history of `add` calls whatsoever -/
structure InvW (U : Nat → Attrs) (s : State) : Prop where
  edge : ∀ p k v, (k, v) ∈ s.kids p → EdgeOk U p k v
  fields : ∀ c k v, (k, v) ∈ s.kidsOf c → FieldsOk (U v)
  keys : ∀ c, ((s.kidsOf c).map (·.1)).Nodup

theorem InvW.empty (U : Nat → Attrs) : InvW U State.empty := by
  refine ⟨?_, ?_, ?_⟩
  · intro p k v h; simp [State.empty] at h
  · intro c k v h; cases c <;> simp [State.empty, State.kidsOf] at h
  · intro c; cases c <;> simp [State.empty, State.kidsOf]

theorem InvW.of_same_kids {U s s'} (h : InvW U s) (hk : s'.kids = s.kids) (ht : s'.top = s.top) : InvW U s' := by
  have hko : ∀ c, s'.kidsOf c = s.kidsOf c := by
    intro c; cases c <;> simp [State.kidsOf, hk, ht]
  refine ⟨?_, ?_, ?_⟩
  · intro p k v hm; rw [hk] at hm; exact h.edge p k v hm
  · intro c k v hm; rw [hko] at hm; exact h.fields c k v hm
  · intro c; rw [hko]; exact h.keys c

/-- the new entry of an accepted insertion is a good edge -/
theorem new_edge_ok (U : Nat → Attrs) (s : State) (p v : Nat) (key : Option Str)
    (hv : validate U (pre s (some p) v) v = .ok ()) : EdgeOk U p (addKey U (some p) v key) v := by
  have V := validated_of_ok U _ v hv
  have hp := pre_parent_self s p v
  exact ⟨by simp [addKey], V.uid_child p hp, V.arches_sub p hp⟩

theorem InvW.insert {U : Nat → Attrs} {s : State} (h : InvW U s) (c : Cont) (v : Nat) (key : Option Str)
    (hv : validate U (pre s c v) v = .ok ()) (hd : dget (addKey U c v key) (s.kidsOf c) = none) :
    InvW U ((pre s c v).setKids c (s.kidsOf c ++ [(addKey U c v key, v)])) := by
  have V := validated_of_ok U _ v hv
  refine ⟨?_, ?_, ?_⟩
  · intro p k w hm
    rw [kids_eq_kidsOf, setKids_kidsOf] at hm
    by_cases hc : some p = c
    · simp only [hc, if_true] at hm
      rcases List.mem_append.mp hm with hm | hm
      · subst hc; exact h.edge p k w hm
      · simp at hm; obtain ⟨rfl, rfl⟩ := hm
        subst hc; exact new_edge_ok U s p w key hv
    · simp only [hc, if_false, pre_kidsOf] at hm
      exact h.edge p k w hm
  · intro d k w hm
    rw [setKids_kidsOf] at hm
    by_cases hc : d = c
    · simp only [hc, if_true] at hm
      rcases List.mem_append.mp hm with hm | hm
      · exact h.fields c k w hm
      · simp at hm; obtain ⟨rfl, rfl⟩ := hm; exact V.fields
    · simp only [hc, if_false, pre_kidsOf] at hm
      exact h.fields d k w hm
  · intro d
    rw [setKids_kidsOf]
    by_cases hc : d = c
    · simp only [hc, if_true, List.map_append, List.map_cons, List.map_nil]
      refine List.nodup_append.mpr ⟨h.keys c, by simp, ?_⟩
      intro a ha b hb
      simp at hb; subst hb
      intro e; subst e
      exact dget_none hd ha
    · simp only [hc, if_false, pre_kidsOf]; exact h.keys d

/-- `InvW` is preserved by every `add`, accepted or refused, whatever its arguments -/
theorem InvW.add {U : Nat → Attrs} {s : State} (h : InvW U s) (fuel : Nat) (c : Cont) (v : Nat) (key : Option Str) :
    InvW U (add U fuel s c v key).1 := by
  rcases add_cases U fuel s c v key with ⟨e, h'⟩ | ⟨h', -⟩ | ⟨h', hv, hd, -⟩
  · rw [h']; exact h.of_same_kids (by simp) (by simp)
  · rw [h']; exact h.of_same_kids (by simp) (by simp)
  · rw [h']; exact h.insert c v key hv hd

/-! ### the full invariant, for histories that hand every object to `add` while it is not yet in the forest -/

/-- `v` sits in some children dict -/
def Placed (s : State) (v : Nat) : Prop := ∃ c k, (k, v) ∈ s.kidsOf c

/-- hypothesis on one call `c.add(v, key)`: the object is not in the forest yet; a top-level add gets an object
whose parent pointer is still `None` (F19: `Variants.add` does not reset it) and a key that is its id or UID (F22) -/
structure Fresh (U : Nat → Attrs) (s : State) (c : Cont) (v : Nat) (key : Option Str) : Prop where
  unplaced : ¬ Placed s v
  topParent : c = none → s.parent v = none
  keyOk : c = none → ∀ k, key = some k → k = [] ∨ k = (U v).id ∨ k = (U v).uid

structure Inv (U : Nat → Attrs) (s : State) : Prop where
  weak : InvW U s
  /-- parent pointers mirror the children dicts (`none` for the top-level container) -/
  parent : ∀ c k v, (k, v) ∈ s.kidsOf c → s.parent v = c
  /-- an object occurs at most once in a dict (hence, with `parent`, once in the forest) -/
  once : ∀ c, ((s.kidsOf c).map (·.2)).Nodup
  topAligned : ∀ k v, (k, v) ∈ s.top → Str.removeChar '-' (U v).uid = (U v).id
  topKey : ∀ k v, (k, v) ∈ s.top → k = (U v).id ∨ k = (U v).uid

theorem Inv.empty (U : Nat → Attrs) : Inv U State.empty := by
  refine ⟨InvW.empty U, ?_, ?_, ?_, ?_⟩
  · intro c k v h; cases c <;> simp [State.empty, State.kidsOf] at h
  · intro c; cases c <;> simp [State.empty, State.kidsOf]
  · intro k v h; simp [State.empty] at h
  · intro k v h; simp [State.empty] at h

theorem Inv.of_pre {U : Nat → Attrs} {s : State} (h : Inv U s) (c : Cont) (v : Nat) (hu : ¬ Placed s v) :
    Inv U (pre s c v) := by
  refine ⟨h.weak.of_same_kids (by simp) (by simp), ?_, ?_, ?_, ?_⟩
  · intro d k w hm
    rw [pre_kidsOf] at hm
    have hw : w ≠ v := by intro e; subst e; exact hu ⟨d, k, hm⟩
    rw [pre_parent_other s c v w hw]; exact h.parent d k w hm
  · intro d; rw [pre_kidsOf]; exact h.once d
  · intro k w hm; rw [pre_top] at hm; exact h.topAligned k w hm
  · intro k w hm; rw [pre_top] at hm; exact h.topKey k w hm

theorem Inv.insert {U : Nat → Attrs} {s : State} (h : Inv U s) (c : Cont) (v : Nat) (key : Option Str)
    (hf : Fresh U s c v key)
    (hv : validate U (pre s c v) v = .ok ()) (hd : dget (addKey U c v key) (s.kidsOf c) = none) :
    Inv U ((pre s c v).setKids c (s.kidsOf c ++ [(addKey U c v key, v)])) := by
  have V := validated_of_ok U _ v hv
  have hpre := h.of_pre c v hf.unplaced
  have hpv : (pre s c v).parent v = c := by
    cases c with
    | none => simpa [pre] using hf.topParent rfl
    | some p => exact pre_parent_self s p v
  refine ⟨h.weak.insert c v key hv hd, ?_, ?_, ?_, ?_⟩
  · intro d k w hm
    rw [setKids_kidsOf] at hm
    rw [setKids_parent]
    by_cases hc : d = c
    · simp only [hc, if_true] at hm
      rcases List.mem_append.mp hm with hm | hm
      · subst hc; exact hpre.parent d k w (by rw [pre_kidsOf]; exact hm)
      · simp at hm; obtain ⟨rfl, rfl⟩ := hm; rw [hc]; exact hpv
    · simp only [hc, if_false] at hm
      exact hpre.parent d k w hm
  · intro d
    rw [setKids_kidsOf]
    by_cases hc : d = c
    · simp only [hc, if_true, List.map_append, List.map_cons, List.map_nil]
      refine List.nodup_append.mpr ⟨h.once c, by simp, ?_⟩
      intro a ha b hb
      simp at hb; subst hb
      intro e; subst e
      obtain ⟨kv, hkv, rfl⟩ := List.mem_map.mp ha
      exact hf.unplaced ⟨c, kv.1, hkv⟩
    · simp only [hc, if_false, pre_kidsOf]; exact h.once d
  · intro k w hm
    rw [top_eq_kidsOf, setKids_kidsOf] at hm
    by_cases hc : none = c
    · simp only [hc, if_true] at hm
      subst hc
      rcases List.mem_append.mp hm with hm | hm
      · exact h.topAligned k w hm
      · simp at hm; obtain ⟨rfl, rfl⟩ := hm
        exact V.uid_top hpv
    · simp only [hc, if_false, pre_kidsOf] at hm
      exact h.topAligned k w hm
  · intro k w hm
    rw [top_eq_kidsOf, setKids_kidsOf] at hm
    by_cases hc : none = c
    · simp only [hc, if_true] at hm
      subst hc
      rcases List.mem_append.mp hm with hm | hm
      · exact h.topKey k w hm
      · simp at hm; obtain ⟨rfl, rfl⟩ := hm
        cases key with
        | none => exact Or.inl rfl
        | some k =>
          simp only [addKey]
          by_cases he : k.isEmpty = true
          · simp [he]
          · simp only [he]
            rcases hf.keyOk rfl k rfl with h0 | h0 | h0
            · subst h0; simp at he
            · exact Or.inl h0
            · exact Or.inr h0
    · simp only [hc, if_false, pre_kidsOf] at hm
      exact h.topKey k w hm

/-- `Inv` is preserved by every `add` of a fresh object – accepted or refused -/
theorem Inv.add {U : Nat → Attrs} {s : State} (h : Inv U s) (fuel : Nat) (c : Cont) (v : Nat) (key : Option Str)
    (hf : Fresh U s c v key) : Inv U (add U fuel s c v key).1 := by
  rcases add_cases U fuel s c v key with ⟨e, h'⟩ | ⟨h', -⟩ | ⟨h', hv, hd, -⟩
  · rw [h']; exact h.of_pre c v hf.unplaced
  · rw [h']; exact h.of_pre c v hf.unplaced
  · rw [h']; exact h.insert c v key hf hv hd

end PM.Forest
