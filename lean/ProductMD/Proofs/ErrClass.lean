import ProductMD.Proofs.Validation
/-!
Exception classes of `validate()` (C06, error-class half).  A translated rule fails with TypeError or ValueError by
construction; a hand-bound body (`customs2`) does too, except where the model answers `Err.other` ("cannot know": `%s` of a
list/dict/foreign parent uid, `in` on a foreign arch container) or where the SKELETON has the wrong shape (a treeinfo platform
table or checksum table that is not a dict: the real code raises AttributeError there).  `Part.InDomain` names exactly those
situations, per hand-bound rule that the part's class actually runs.
-/
namespace PM.Val
open PM

def TV (e : Err) : Prop := e = .typeError ∨ e = .valueError

/-! ### first failure -/
theorem runRules_first_failure (cu : Str → Obj → Except Err Unit) (o : Obj) :
    ∀ (rs : List Rule) (e : Err), runRules cu o rs = .error e →
      ∃ pre r post, rs = pre ++ r :: post ∧ (∀ q ∈ pre, q.check cu o = .ok ()) ∧ r.check cu o = .error e := by
  intro rs
  induction rs with
  | nil => intro e h; simp [runRules] at h
  | cons r rest ih =>
    intro e h
    cases hr : r.check cu o with
    | ok u =>
      cases u
      simp only [runRules, hr] at h
      obtain ⟨pre, q, post, hs, hpre, hq⟩ := ih e h
      refine ⟨r :: pre, q, post, by simp [hs], ?_, hq⟩
      intro x hx
      rcases List.mem_cons.mp hx with rfl | hx
      · exact hr
      · exact hpre x hx
    | error e' =>
      simp only [runRules, hr] at h
      cases h
      exact ⟨[], r, rest, rfl, by simp, hr⟩

/-- every occurrence of `b` in the list has an `a` somewhere before it -/
def precededBy (a b : Rule) : List Rule → Bool
  | [] => true
  | r :: rs => if r = a then true else if r = b then false else precededBy a b rs

theorem precededBy_mem {a b : Rule} (hab : a ≠ b) : ∀ {rs pre post : List Rule}, precededBy a b rs = true → rs = pre ++ b :: post → a ∈ pre := by
  intro rs
  induction rs with
  | nil => intro pre post _ hs; cases pre <;> simp at hs
  | cons r rest ih =>
    intro pre post h hs
    cases pre with
    | nil =>
      simp only [List.nil_append, List.cons.injEq] at hs
      obtain ⟨rfl, _⟩ := hs
      simp only [precededBy] at h
      split at h
      · rename_i hra; exact absurd hra.symm hab
      · simp at h
    | cons x pre' =>
      simp only [List.cons_append, List.cons.injEq] at hs
      obtain ⟨rfl, hs'⟩ := hs
      simp only [precededBy] at h
      split at h
      · rename_i hra; exact hra ▸ List.mem_cons_self
      · split at h
        · cases h
        · exact List.mem_cons_of_mem _ (ih h hs')

/-! ### the hand-bound bodies -/

theorem verifyLabel_tv (v : PyVal) (e : Err) (h : verifyLabel v = .error e) : TV e := by
  unfold verifyLabel at h
  split at h
  · cases h
  · split at h
    · cases h
    · cases h; exact Or.inr rfl
  · cases h; exact Or.inl rfl

theorem pyContains_err (c x : PyVal) (e : Err) (h : pyContains c x = .error e) : e = .typeError ∨ isForeign c = true := by
  unfold pyContains at h
  split at h
  · cases h
  · split at h <;> first | (cases h; done) | (cases h; exact Or.inl rfl)
  · split at h <;> first | (cases h; done) | (cases h; exact Or.inl rfl)
  · cases h; exact Or.inl rfl
  · cases h; exact Or.inl rfl
  · cases h; exact Or.inl rfl
  · cases h; exact Or.inl rfl
  · exact Or.inr rfl

theorem allIn_tv (c : PyVal) (hc : isForeign c = false) : ∀ (l : List PyVal) (e : Err), allIn c l = .error e → TV e := by
  intro l
  induction l with
  | nil => intro e h; cases h
  | cons a rest ih =>
    intro e h
    simp only [allIn] at h
    split at h
    · exact ih e h
    · cases h; exact Or.inr rfl
    · rename_i e' he
      cases h
      rcases pyContains_err c a e he with h1 | h1
      · exact Or.inl h1
      · rw [hc] at h1; cases h1

def parentArchesKnown (o : Obj) : Bool := isNoneV (o.get c!"parent") || !isForeign (parentAttr o c!"arches")
def parentUidKnown (o : Obj) : Bool := isNoneV (o.get c!"parent") || (pyFormat (parentAttr o c!"uid")).isSome
def checksumsShape (o : Obj) : Bool := match o.get c!"checksums" with | .list _ | .str _ | .other _ => false | _ => true
def tablesAreDicts : List (Str × PyVal) → Bool
  | [] => true
  | (_, .dict _) :: rest => tablesAreDicts rest
  | _ :: _ => false
def imagesShape (o : Obj) : Bool := match o.get c!"images" with | .dict plats => tablesAreDicts plats | _ => true

theorem parentArch_tv (o : Obj) (hd : parentArchesKnown o = true) (e : Err) (h : ciVariantParentArch2 o = .error e) : TV e := by
  unfold ciVariantParentArch2 at h
  unfold parentArchesKnown at hd
  split at h
  · cases h
  · rename_i hn
    split at h
    · cases h; exact Or.inl rfl
    · refine allIn_tv _ ?_ _ e h
      simp only [Bool.not_eq_true] at hn
      simpa [hn] using hd

theorem alignedWith_tv (o : Obj) (u : Str) (hp : (pyFormat (parentAttr o c!"uid")).isSome = true)
    (hid : (o.get c!"id").isinstance .str = true) (e : Err) (h : alignedWith o u = .error e) : TV e := by
  unfold alignedWith at h
  obtain ⟨pu, hf⟩ := Option.isSome_iff_exists.mp hp
  cases hi : o.get c!"id" <;> simp [hi, PyVal.isinstance] at hid
  rename_i s
  have hfi : pyFormat (o.get c!"id") = some s := by rw [hi]; rfl
  rw [hf, hfi] at h
  simp only at h
  split at h
  · cases h
  · cases h; exact Or.inr rfl

theorem ciUid_tv (o : Obj) (hd : parentUidKnown o = true) (hid : (o.get c!"id").isinstance .str = true) (e : Err)
    (h : ciVariantUid2 o = .error e) : TV e := by
  unfold ciVariantUid2 at h
  unfold parentUidKnown at hd
  split at h
  · split at h
    · split at h
      · cases h
      · cases h; exact Or.inr rfl
    · rename_i hn
      simp only [Bool.not_eq_true] at hn
      exact alignedWith_tv o _ (by simpa [hn] using hd) hid e h
  · cases h; exact Or.inl rfl

theorem tiUid_tv (o : Obj) (hd : parentUidKnown o = true) (hid : (o.get c!"id").isinstance .str = true) (e : Err)
    (h : tiVariantUid2 o = .error e) : TV e := by
  unfold tiVariantUid2 at h
  unfold parentUidKnown at hd
  split at h
  · cases h
  · rename_i hn
    simp only [Bool.not_eq_true] at hn
    split at h
    · exact alignedWith_tv o _ (by simpa [hn] using hd) hid e h
    · cases h; exact Or.inr rfl

theorem variantKeys_tv (o : Obj) (e : Err) (h : validateVariantKeys o = .error e) : TV e := by
  unfold validateVariantKeys at h
  split at h
  · simp only at h
    split at h
    · cases h; exact Or.inr rfl
    · cases h
  · cases h

theorem discTimestamp_tv (o : Obj) (e : Err) (h : discTimestamp o = .error e) : TV e := by
  unfold discTimestamp at h
  simp only at h
  split at h
  · cases h; exact Or.inr rfl
  · split at h
    · cases h
    · cases h; exact Or.inl rfl

theorem checksumPaths_tv (o : Obj) (hd : checksumsShape o = true) (e : Err) (h : tiChecksumPaths o = .error e) : TV e := by
  unfold tiChecksumPaths at h
  unfold checksumsShape at hd
  split at h
  · split at h
    · cases h; exact Or.inr rfl
    · cases h
  · cases h; exact Or.inl rfl
  · cases h; exact Or.inl rfl
  · cases h; exact Or.inl rfl
  · cases h; exact Or.inl rfl
  · rename_i h1 h2 h3 h4 h5
    cases hv : o.get c!"checksums" <;> simp_all

theorem pathsOk_tv : ∀ (l : List (Str × PyVal)) (e : Err), pathsOk l = .error e → TV e := by
  intro l
  induction l with
  | nil => intro e h; cases h
  | cons a rest ih =>
    intro e h
    obtain ⟨k, v⟩ := a
    cases v <;> simp only [pathsOk] at h
    all_goals first
      | (cases h; exact Or.inl rfl)
      | (split at h
         · cases h; exact Or.inr rfl
         · exact ih e h)

theorem platsOk_tv : ∀ (l : List (Str × PyVal)), tablesAreDicts l = true → ∀ (e : Err), platsOk l = .error e → TV e := by
  intro l
  induction l with
  | nil => intro _ e h; cases h
  | cons a rest ih =>
    intro hd e h
    obtain ⟨k, v⟩ := a
    cases v <;> simp only [tablesAreDicts] at hd
    all_goals first
      | (cases hd; done)
      | (simp only [platsOk] at h
         split at h
         · exact ih hd e h
         · rename_i e' he
           cases h
           exact pathsOk_tv _ _ he)

theorem imagePaths_tv (o : Obj) (hd : imagesShape o = true) (e : Err) (h : tiImagePaths2 o = .error e) : TV e := by
  unfold tiImagePaths2 at h
  unfold imagesShape at hd
  split at h
  · rename_i plats hp
    simp only [hp] at hd
    exact platsOk_tv plats hd e h
  · cases h

theorem imagePlatforms_tv (o : Obj) (e : Err) (h : tiImagePlatforms o = .error e) : TV e := by
  unfold tiImagePlatforms at h
  split at h
  · split at h
    · cases h
    · cases h; exact Or.inr rfl
  · cases h

/-! ### the domain of a part, per hand-bound rule its class runs -/

def nameDomain (n : Str) (o : Obj) : Bool :=
  if n == Spec.cCiParentArch then parentArchesKnown o
  else if n == Spec.cCiUid || n == Spec.cTiUid then parentUidKnown o
  else if n == Spec.cTiChecksumPaths then checksumsShape o
  else if n == Spec.cTiImagePaths then imagesShape o
  else true

/-- the part lies where the model knows the exception class of every hand-bound rule its class runs: the pseudo-attribute
`parent.uid` is a scalar (can be formatted), `parent.arches` is not a foreign object, a treeinfo checksum table is a dict (or a
scalar), every treeinfo platform table is a dict -/
def Part.InDomain (p : Part) : Bool := ((genRules p.cls).flatMap Rule.customNamesIn).all (nameDomain · p.obj)

def idRule : Rule := .type c!"id" [.str]

theorem customs2_tv (n : Str) (o : Obj) (hn : n ∈ Spec.customNames) (hd : nameDomain n o = true)
    (hid : (n = Spec.cCiUid ∨ n = Spec.cTiUid) → (o.get c!"id").isinstance .str = true) (e : Err) (h : customs2 n o = .error e) : TV e := by
  simp only [Spec.customNames, List.mem_cons, List.not_mem_nil, or_false] at hn
  rcases hn with rfl | rfl | rfl | rfl | rfl | rfl | rfl | rfl | rfl
  · exact verifyLabel_tv _ e h
  · exact parentArch_tv o hd e h
  · exact ciUid_tv o hd (hid (Or.inl rfl)) e h
  · exact variantKeys_tv o e h
  · exact discTimestamp_tv o e h
  · exact checksumPaths_tv o hd e h
  · exact imagePaths_tv o hd e h
  · exact imagePlatforms_tv o e h
  · exact tiUid_tv o hd (hid (Or.inr rfl)) e h

/-- `validate()` of a part in the domain fails with TypeError or ValueError only.  Hypotheses on the generated rule lists
(discharged by `decide` in `Properties/C06.lean`): hand-bound rules occur bare and are the nine named ones; the uid rules are
preceded by `_assert_type("id", str)` (method order `_validate_id` < `_validate_uid`). -/
theorem validate2_tv
    (hbare : ∀ cls, ∀ r ∈ genRules cls, ∀ n ∈ Rule.customNamesIn r, r = .custom n ∧ n ∈ Spec.customNames)
    (hprec : ∀ cls, precededBy idRule (.custom Spec.cCiUid) (genRules cls) = true ∧ precededBy idRule (.custom Spec.cTiUid) (genRules cls) = true)
    (p : Part) (hd : p.InDomain = true) (e : Err) (h : (Step.validate p).run = .error e) : TV e := by
  obtain ⟨pre, r, post, hs, hpre, hr⟩ := runRules_first_failure customs2 p.obj (genRules p.cls) e h
  have hmem : r ∈ genRules p.cls := by rw [hs]; simp
  rcases Rule.check_errclass customs2 p.obj r e hr with h1 | h1 | ⟨n, hn, hc⟩
  · exact Or.inl h1
  · exact Or.inr h1
  · obtain ⟨hrn, hnames⟩ := hbare p.cls r hmem n hn
    have hdom : nameDomain n p.obj = true := by
      unfold Part.InDomain at hd
      exact List.all_eq_true.mp hd n (List.mem_flatMap.mpr ⟨r, hmem, hn⟩)
    refine customs2_tv n p.obj hnames hdom ?_ e hc
    intro hu
    have hidmem : idRule ∈ pre := by
      rcases hu with rfl | rfl
      · exact precededBy_mem (by decide) (hprec p.cls).1 (hrn ▸ hs)
      · exact precededBy_mem (by decide) (hprec p.cls).2 (hrn ▸ hs)
    have := hpre idRule hidmem
    simpa [idRule] using Rule.check_type_any this

end PM.Val
