import ProductMD.Proofs.JsonStr
import ProductMD.Proofs.JsonNum
import ProductMD.Proofs.PyCanon
/-!
**The JSON reader inverts the JSON printer.**  `parseWith lim (JsonText.render lvl v) = .ok v` for every
JSON-representable `v : PyVal` (`Mf.jsonRep`: no foreign object, keys pairwise distinct in every dict) whose numbers
are readable (`numsOk lim`: float tokens in the scanner's own float language, integers within `int()`'s digit limit —
no condition when `lim = 0`), at any nesting depth, any size, any indentation level, all strings of Unicode scalar
values; and `parseWith lim (JsonText.dumps v) = .ok (PyVal.canon v)`.
Removes "json.load inverts json.dump" from the trusted base as far as the models go (`JsonText.render` is validated
against CPython by the dump checks, `JsonParse.parse` by `harness/json_diff.py`).
-/
namespace PM.JsonParse
open PM JsonText Str Mf

/-! ### the equations of the printer (by `rfl`; never unfold `render` with `simp`) -/

theorem render_none (lvl : Nat) : render lvl .none = "null".toList := rfl
theorem render_true (lvl : Nat) : render lvl (.bool true) = "true".toList := rfl
theorem render_false (lvl : Nat) : render lvl (.bool false) = "false".toList := rfl
theorem render_str (lvl : Nat) (s : Str) : render lvl (.str s) = quote s := rfl
theorem render_int (lvl : Nat) (n : Int) : render lvl (.int n) = Str.intStr n := rfl
theorem render_float (lvl : Nat) (r : Str) : render lvl (.float r) = r := rfl
theorem render_list_nil (lvl : Nat) : render lvl (.list []) = "[]".toList := rfl
theorem render_dict_nil (lvl : Nat) : render lvl (.dict []) = "{}".toList := rfl
theorem render_list_cons (lvl : Nat) (x : PyVal) (xs : List PyVal) : render lvl (.list (x :: xs)) =
   '[' :: '\n' :: indentStr (lvl + 1) ++ render (lvl + 1) x ++ renderItems (lvl + 1) xs
        ++ '\n' :: indentStr lvl ++ [']'] := rfl
theorem render_dict_cons (lvl : Nat) (k : Str) (v : PyVal) (rest : List (Str × PyVal)) : render lvl (.dict ((k, v) :: rest)) =
      '{' :: '\n' :: indentStr (lvl + 1) ++ quote k ++ ':' :: ' ' :: render (lvl + 1) v
        ++ renderKvs (lvl + 1) rest ++ '\n' :: indentStr lvl ++ ['}'] := rfl
theorem renderItems_nil (lvl : Nat) : renderItems lvl [] = [] := rfl
theorem renderKvs_nil (lvl : Nat) : renderKvs lvl [] = [] := rfl
theorem renderItems_cons (lvl : Nat) (x : PyVal) (xs : List PyVal) : renderItems lvl (x :: xs) = ',' :: '\n' :: indentStr lvl ++ render lvl x ++ renderItems lvl xs := rfl
theorem renderKvs_cons (lvl : Nat) (k : Str) (v : PyVal) (rest : List (Str × PyVal)) : renderKvs lvl ((k, v) :: rest) = ',' :: '\n' :: indentStr lvl ++ quote k ++ ':' :: ' ' :: render lvl v ++ renderKvs lvl rest := rfl

/-! ### literals -/

theorem digit_ne {c : Char} (h : isAsciiDigit c = true) (x : Char) (hx : isAsciiDigit x = false) : x ≠ c := by
  intro e; subst e; rw [h] at hx; cases hx

theorem literal?_digit (c : Char) (t : Str) (h : isAsciiDigit c = true) : literal? (c :: t) = none := by
  simp [literal?, literals, dropPrefix?, digit_ne h 'n' (by decide), digit_ne h 't' (by decide), digit_ne h 'f' (by decide),
    digit_ne h 'N' (by decide), digit_ne h 'I' (by decide), digit_ne h '-' (by decide)]

theorem literal?_minus_digit (d : Char) (t : Str) (h : isAsciiDigit d = true) : literal? ('-' :: d :: t) = none := by
  simp [literal?, literals, dropPrefix?, digit_ne h 'I' (by decide)]

theorem scanInt_head (s ip r : Str) (h : scanInt s = some (ip, r)) : ∃ c t, s = c :: t ∧ isAsciiDigit c = true := by
  cases s with
  | nil => simp [scanInt] at h
  | cons c cs =>
    refine ⟨c, cs, rfl, ?_⟩
    simp only [scanInt] at h
    split at h
    · rename_i h0; subst h0; decide
    · split at h
      · assumption
      · cases h

theorem scanNumber_head (s : Str) (n : Num) (h : scanNumber s = some n) :
    (∃ c t, s = c :: t ∧ isAsciiDigit c = true) ∨ (∃ d t, s = '-' :: d :: t ∧ isAsciiDigit d = true) := by
  cases s with
  | nil => simp [scanNumber, scanInt] at h
  | cons c cs =>
    simp only [scanNumber, List.head?_cons, List.tail_cons] at h
    by_cases hneg : (some c == some '-') = true
    · have hc : c = '-' := by simpa using hneg
      simp only [hneg, if_true] at h
      cases hi : scanInt cs with
      | none => rw [hi] at h; cases h
      | some p =>
        obtain ⟨d, t, e, hd⟩ := scanInt_head cs p.1 p.2 hi
        exact .inr ⟨d, t, by rw [hc, e], hd⟩
    · simp only [hneg, Bool.false_eq_true, if_false] at h
      cases hi : scanInt (c :: cs) with
      | none => rw [hi] at h; cases h
      | some p =>
        obtain ⟨d, t, e, hd⟩ := scanInt_head _ p.1 p.2 hi
        exact .inl ⟨d, t, e, hd⟩

/-- at a number, `scan_once` is the number scanner -/
theorem value_number (lim f : Nat) (s rest : Str) (n : Num) (h : scanNumber s = some n) :
    value lim (f + 1) (s ++ rest) = number lim (s ++ rest) := by
  rcases scanNumber_head s n h with ⟨c, t, e, hc⟩ | ⟨d, t, e, hd⟩
  · subst e
    simp only [List.cons_append, value, (digit_ne hc '"' (by decide)).symm, (digit_ne hc '[' (by decide)).symm,
      (digit_ne hc '{' (by decide)).symm, if_false, literal?_digit c _ hc]
  · subst e
    simp [value, literal?_minus_digit d _ hd]

/-! ### whitespace and what a value starts with -/

/-- the text starts with a character that is neither whitespace nor a closing bracket (every rendered value does) -/
def startsVal : Str → Bool
  | [] => false
  | c :: _ => !isWs c && c != ']'

theorem startsVal_append {s : Str} (r : Str) (h : startsVal s = true) : startsVal (s ++ r) = true := by
  cases s with
  | nil => cases h
  | cons c t => exact h

theorem skipWs_startsVal {s : Str} (h : startsVal s = true) : skipWs s = s := by
  cases s with
  | nil => rfl
  | cons c t =>
    simp only [startsVal, Bool.and_eq_true, Bool.not_eq_true'] at h
    simp [skipWs, h.1]

theorem skipWs_spaces (k : Nat) (s : Str) : skipWs (List.replicate k ' ' ++ s) = skipWs s := by
  induction k with
  | zero => rfl
  | succ k ih => simp only [List.replicate_succ, List.cons_append, skipWs]; simpa [isWs] using ih

theorem skipWs_nl_indent (n : Nat) {s : Str} (h : startsVal s = true) : skipWs ('\n' :: (indentStr n ++ s)) = s := by
  simp only [skipWs, indentStr]
  rw [if_pos (by decide), skipWs_spaces, skipWs_startsVal h]

theorem skipWs_nl_indent_char (n : Nat) (c : Char) (t : Str) (h : isWs c = false) :
    skipWs ('\n' :: (indentStr n ++ c :: t)) = c :: t := by
  simp only [skipWs, indentStr]
  rw [if_pos (by decide), skipWs_spaces]
  simp [skipWs, h]

theorem skipWs_comma (t : Str) : skipWs (',' :: t) = ',' :: t := by simp [skipWs, isWs]

theorem headIs_rbracket {s : Str} (h : startsVal s = true) : headIs s ']' = false := by
  cases s with
  | nil => rfl
  | cons c t =>
    simp only [startsVal, Bool.and_eq_true, Bool.not_eq_true', bne_iff_ne] at h
    simp [headIs, h.2]

theorem numStop_comma (t : Str) : numStop (',' :: t) = true := by simp [numStop]; decide
theorem numStop_nl (t : Str) : numStop ('\n' :: t) = true := by simp [numStop]; decide

theorem numStop_renderItems (lvl : Nat) (xs : List PyVal) (t : Str) : numStop (renderItems lvl xs ++ '\n' :: t) = true := by
  cases xs with
  | nil => exact numStop_nl t
  | cons x xs => exact numStop_comma _

theorem numStop_renderKvs (lvl : Nat) (kvs : List (Str × PyVal)) (t : Str) : numStop (renderKvs lvl kvs ++ '\n' :: t) = true := by
  cases kvs with
  | nil => exact numStop_nl t
  | cons p rest => obtain ⟨k, v⟩ := p; exact numStop_comma _

/-! ### scalars -/

theorem value_null (lim f : Nat) (rest : Str) : value lim (f + 1) ("null".toList ++ rest) = .ok (.none, rest) := by
  simp [value, literal?, literals, dropPrefix?]

theorem value_true (lim f : Nat) (rest : Str) : value lim (f + 1) ("true".toList ++ rest) = .ok (.bool true, rest) := by
  simp [value, literal?, literals, dropPrefix?]

theorem value_false (lim f : Nat) (rest : Str) : value lim (f + 1) ("false".toList ++ rest) = .ok (.bool false, rest) := by
  simp [value, literal?, literals, dropPrefix?]

theorem value_nan (lim f : Nat) (rest : Str) :
    value lim (f + 1) ("NaN".toList ++ rest) = .ok (.float "NaN".toList, rest) := by
  simp [value, literal?, literals, dropPrefix?]

theorem value_inf (lim f : Nat) (rest : Str) :
    value lim (f + 1) ("Infinity".toList ++ rest) = .ok (.float "Infinity".toList, rest) := by
  simp [value, literal?, literals, dropPrefix?]

theorem value_neginf (lim f : Nat) (rest : Str) :
    value lim (f + 1) ("-Infinity".toList ++ rest) = .ok (.float "-Infinity".toList, rest) := by
  simp [value, literal?, literals, dropPrefix?]

theorem value_str (lim f : Nat) (s rest : Str) : value lim (f + 1) (quote s ++ rest) = .ok (.str s, rest) := by
  rw [quote_eq s]
  simp only [List.cons_append, value, if_true, parseString_quote]

theorem scanNumber_intStr (n : Int) : ∃ m, scanNumber (intStr n) = some m := by
  cases n with
  | ofNat m => exact ⟨_, scanNumber_natStr m⟩
  | negSucc k => exact ⟨_, scanNumber_neg_natStr (k + 1)⟩

theorem value_int (lim f : Nat) (n : Int) (rest : Str) (hfit : intFits lim n = true) (hstop : numStop rest = true) :
    value lim (f + 1) (intStr n ++ rest) = .ok (.int n, rest) := by
  obtain ⟨m, hm⟩ := scanNumber_intStr n
  rw [value_number lim f _ rest m hm, number_intStr lim n rest hfit hstop]

theorem value_float (lim f : Nat) (r rest : Str) (hr : floatTok r = true) (hstop : numStop rest = true) :
    value lim (f + 1) (r ++ rest) = .ok (.float r, rest) := by
  simp only [floatTok, Bool.or_eq_true, beq_iff_eq] at hr
  rcases hr with ((h | h) | h) | h
  · subst h; exact value_nan lim f rest
  · subst h; exact value_inf lim f rest
  · subst h; exact value_neginf lim f rest
  · cases hs : scanNumber r with
    | none => rw [hs] at h; cases h
    | some n =>
      rw [hs] at h
      simp only [Bool.and_eq_true, List.isEmpty_iff] at h
      rw [value_number lim f r rest n hs, number_floatTok lim r rest n hs h.1 h.2 hstop]

/-- **scalars**: None, booleans, integers, float tokens and strings come back from their rendering, whatever
follows (for numbers: anything that cannot continue a number) -/
theorem value_scalar (lim f lvl : Nat) (v : PyVal) (rest : Str)
    (hv : match v with | .list _ => False | .dict _ => False | .other _ => False | _ => True)
    (hnum : numsOk lim v = true) (hstop : numStop rest = true) :
    value lim (f + 1) (render lvl v ++ rest) = .ok (v, rest) := by
  cases v with
  | none => exact value_null lim f rest
  | bool b => cases b; exact value_false lim f rest; exact value_true lim f rest
  | int n => exact value_int lim f n rest (by simpa [numsOk] using hnum) hstop
  | float r => exact value_float lim f r rest (by simpa [numsOk] using hnum) hstop
  | str s => exact value_str lim f s rest
  | list xs => cases hv
  | dict kvs => cases hv
  | other t => cases hv

/-! ### every rendered value starts with a non-blank character other than `]` -/

theorem startsVal_digit {c : Char} (t : Str) (h : isAsciiDigit c = true) : startsVal (c :: t) = true := by
  have h1 := digit_ne h ' ' (by decide)
  have h2 := digit_ne h '\t' (by decide)
  have h3 := digit_ne h '\n' (by decide)
  have h4 := digit_ne h '\r' (by decide)
  have h5 := digit_ne h ']' (by decide)
  simp [startsVal, isWs, h1.symm, h2.symm, h3.symm, h4.symm, h5.symm]

theorem startsVal_scanNumber (s : Str) (n : Num) (h : scanNumber s = some n) : startsVal s = true := by
  rcases scanNumber_head s n h with ⟨c, t, e, hc⟩ | ⟨d, t, e, _⟩
  · subst e; exact startsVal_digit t hc
  · subst e; rfl

theorem startsVal_render (lim lvl : Nat) (v : PyVal) (hnum : numsOk lim v = true) : startsVal (render lvl v) = true := by
  cases v with
  | none => rfl
  | bool b => cases b <;> rfl
  | int n =>
    obtain ⟨m, hm⟩ := scanNumber_intStr n
    exact startsVal_scanNumber _ m hm
  | float r =>
    simp only [numsOk, floatTok, Bool.or_eq_true, beq_iff_eq] at hnum
    rw [render_float]
    rcases hnum with ((h | h) | h) | h
    · subst h; rfl
    · subst h; rfl
    · subst h; rfl
    · cases hs : scanNumber r with
      | none => rw [hs] at h; cases h
      | some n => exact startsVal_scanNumber r n hs
  | str s => rfl
  | other t => rfl
  | list xs => cases xs <;> rfl
  | dict kvs =>
    cases kvs with
    | nil => rfl
    | cons p rest => obtain ⟨k, v⟩ := p; rfl

/-! ### dict keys -/

theorem hasKey_false_iff (l : Kvs) (k : Str) : hasKey l k = false ↔ k ∉ l.map (·.1) := by
  induction l with
  | nil => simp [hasKey]
  | cons p rest ih =>
    obtain ⟨k', v⟩ := p
    simp only [hasKey, Bool.or_eq_false_iff, ih, List.map_cons, List.mem_cons, not_or, beq_eq_false_iff_ne, ne_eq]
    constructor
    · intro h; exact ⟨fun e => h.1 e.symm, h.2⟩
    · intro h; exact ⟨fun e => h.1 e.symm, h.2⟩

theorem nodup_of_jsonRepKvs (l : Kvs) (h : jsonRepKvs l = true) : (l.map (·.1)).Nodup := by
  induction l with
  | nil => simp
  | cons p rest ih =>
    obtain ⟨k, v⟩ := p
    simp only [jsonRepKvs, Bool.and_eq_true, Bool.not_eq_true'] at h
    simp only [List.map_cons, List.nodup_cons]
    exact ⟨(hasKey_false_iff rest k).mp h.1.1, ih h.2⟩

theorem setKey_fresh (acc : Kvs) (k : Str) (v : PyVal) (h : k ∉ acc.map (·.1)) : PyVal.setKey acc k v = acc ++ [(k, v)] := by
  have : acc.any (fun p => p.1 == k) = false := by
    rw [List.any_eq_false]
    intro p hp e
    exact h (List.mem_map.mpr ⟨p, hp, by simpa using e⟩)
  simp [PyVal.setKey, this]

/-- one `"key": value` member, given that the value is read back -/
theorem member_render (lim : Nat) (k : Str) (v : PyVal) (lvl f : Nat) (rest : Str)
    (hv : value lim f (render lvl v ++ rest) = .ok (v, rest)) (hs : startsVal (render lvl v) = true) :
    member lim (f + 1) (quote k ++ ':' :: ' ' :: (render lvl v ++ rest)) = .ok (k, v, rest) := by
  have h1 : skipWs (render lvl v ++ rest) = render lvl v ++ rest := skipWs_startsVal (startsVal_append rest hs)
  rw [quote_eq k]
  simp only [List.cons_append, member, headIs, List.head?_cons, beq_self_eq_true, if_true, List.tail_cons, parseString_quote]
  have h2 : skipWs (':' :: ' ' :: (render lvl v ++ rest)) = ':' :: ' ' :: (render lvl v ++ rest) := by
    simp [skipWs, isWs]
  have h3 : skipWs (' ' :: (render lvl v ++ rest)) = render lvl v ++ rest := by
    simp only [skipWs]; rw [if_pos (by decide), h1]
  simp only [h2, List.head?_cons, beq_self_eq_true, if_true, List.tail_cons, h3, hv]

/-! ### the steps of the container readers -/

theorem value_list_nil (lim f : Nat) (cs r : Str) (h : skipWs cs = ']' :: r) :
    value lim (f + 1) ('[' :: cs) = .ok (.list [], r) := by
  simp [value, h, headIs]

theorem value_list_step (lim f : Nat) (cs : Str) (v : PyVal) (r : Str) (h1 : headIs (skipWs cs) ']' = false)
    (h2 : value lim f (skipWs cs) = .ok (v, r)) :
    value lim (f + 1) ('[' :: cs) = itemsTail lim f [v] r := by
  simp [value, h1, h2]

theorem value_dict_nil (lim f : Nat) (cs r : Str) (h : skipWs cs = '}' :: r) :
    value lim (f + 1) ('{' :: cs) = .ok (.dict [], r) := by
  simp [value, h, headIs]

theorem value_dict_step (lim f : Nat) (cs : Str) (k : Str) (v : PyVal) (r : Str) (h1 : headIs (skipWs cs) '}' = false)
    (h2 : member lim f (skipWs cs) = .ok (k, v, r)) :
    value lim (f + 1) ('{' :: cs) = membersTail lim f [(k, v)] r := by
  simp [value, h1, h2]

theorem itemsTail_close (lim f : Nat) (acc : List PyVal) (s r : Str) (h : skipWs s = ']' :: r) :
    itemsTail lim (f + 1) acc s = .ok (.list acc.reverse, r) := by
  simp [itemsTail, h, headIs]

theorem itemsTail_step (lim f : Nat) (acc : List PyVal) (s r r' : Str) (v : PyVal) (h : skipWs s = ',' :: r)
    (h2 : value lim f (skipWs r) = .ok (v, r')) :
    itemsTail lim (f + 1) acc s = itemsTail lim f (v :: acc) r' := by
  simp [itemsTail, h, headIs, h2]

theorem membersTail_close (lim f : Nat) (acc : Kvs) (s r : Str) (h : skipWs s = '}' :: r) :
    membersTail lim (f + 1) acc s = .ok (.dict acc, r) := by
  simp [membersTail, h, headIs]

theorem membersTail_step (lim f : Nat) (acc : Kvs) (s r r' : Str) (k : Str) (v : PyVal) (h : skipWs s = ',' :: r)
    (h2 : member lim f (skipWs r) = .ok (k, v, r')) :
    membersTail lim (f + 1) acc s = membersTail lim f (PyVal.setKey acc k v) r' := by
  simp [membersTail, h, headIs, h2]

/-! ### values, by mutual structural induction mirroring `render` / `renderItems` / `renderKvs` -/

theorem startsVal_quote (k r : Str) : startsVal (quote k ++ r) = true := by rw [quote_eq k]; rfl

theorem headIs_quote_rbrace (k r : Str) : headIs (quote k ++ r) '}' = false := by rw [quote_eq k]; rfl

mutual
theorem value_render (lim : Nat) (v : PyVal) (hrep : jsonRep v = true) (hnum : numsOk lim v = true)
    (lvl f : Nat) (rest : Str) (hf : (render lvl v).length < f) (hstop : numStop rest = true) :
    value lim f (render lvl v ++ rest) = .ok (v, rest) := by
  cases f with
  | zero => omega
  | succ f =>
    cases v with
    | none => exact value_null lim f rest
    | bool b => cases b; exact value_false lim f rest; exact value_true lim f rest
    | int n => exact value_int lim f n rest (by simpa [numsOk] using hnum) hstop
    | float r => exact value_float lim f r rest (by simpa [numsOk] using hnum) hstop
    | str s => exact value_str lim f s rest
    | other t => simp [jsonRep] at hrep
    | list xs =>
      cases xs with
      | nil => exact value_list_nil lim f _ rest rfl
      | cons x xs =>
        simp only [jsonRep, jsonRepList, Bool.and_eq_true] at hrep
        simp only [numsOk, numsOkList, Bool.and_eq_true] at hnum
        rw [render_list_cons] at hf ⊢
        simp only [List.length_append, List.length_cons, List.length_nil] at hf
        simp only [List.append_assoc, List.cons_append, List.nil_append]
        have hs := startsVal_render lim (lvl + 1) x hnum.1
        have hsw := skipWs_nl_indent (lvl + 1)
          (startsVal_append (renderItems (lvl + 1) xs ++ '\n' :: (indentStr lvl ++ ']' :: rest)) hs)
        have hx := value_render lim x hrep.1 hnum.1 (lvl + 1) f
          (renderItems (lvl + 1) xs ++ '\n' :: (indentStr lvl ++ ']' :: rest)) (by omega) (numStop_renderItems _ _ _)
        have hxs := itemsTail_render lim xs hrep.2 hnum.2 (lvl + 1) lvl f [x] rest (by omega)
        rw [value_list_step lim f _ x _ (by rw [hsw]; exact headIs_rbracket (startsVal_append _ hs)) (by rw [hsw]; exact hx)]
        exact hxs
    | dict kvs =>
      cases kvs with
      | nil => exact value_dict_nil lim f _ rest rfl
      | cons p kvs =>
        obtain ⟨k, v⟩ := p
        have hnd := nodup_of_jsonRepKvs _ (by simpa [jsonRep] using hrep)
        simp only [jsonRep, jsonRepKvs, Bool.and_eq_true] at hrep
        simp only [numsOk, numsOkKvs, Bool.and_eq_true] at hnum
        rw [render_dict_cons] at hf ⊢
        simp only [List.length_append, List.length_cons, List.length_nil] at hf
        simp only [List.append_assoc, List.cons_append, List.nil_append]
        have hs := startsVal_render lim (lvl + 1) v hnum.1
        cases f with
        | zero => omega
        | succ f' =>
          have hv := value_render lim v hrep.1.2 hnum.1 (lvl + 1) f'
            (renderKvs (lvl + 1) kvs ++ '\n' :: (indentStr lvl ++ '}' :: rest)) (by omega) (numStop_renderKvs _ _ _)
          have hm := member_render lim k v (lvl + 1) f' _ hv hs
          have hsw := skipWs_nl_indent (lvl + 1) (startsVal_quote k
            (':' :: ' ' :: (render (lvl + 1) v ++ (renderKvs (lvl + 1) kvs ++ '\n' :: (indentStr lvl ++ '}' :: rest)))))
          have hkvs := membersTail_render lim kvs hrep.2 hnum.2 (lvl + 1) lvl (f' + 1) [(k, v)] rest (by omega) hnd
          rw [value_dict_step lim (f' + 1) _ k v _ (by rw [hsw]; exact headIs_quote_rbrace k _) (by rw [hsw]; exact hm)]
          exact hkvs
theorem itemsTail_render (lim : Nat) (xs : List PyVal) (hrep : jsonRepList xs = true) (hnum : numsOkList lim xs = true)
    (lvl n f : Nat) (acc : List PyVal) (rest : Str) (hf : (renderItems lvl xs).length < f) :
    itemsTail lim f acc (renderItems lvl xs ++ '\n' :: (indentStr n ++ ']' :: rest)) = .ok (.list (acc.reverse ++ xs), rest) := by
  cases f with
  | zero => omega
  | succ f =>
    cases xs with
    | nil =>
      rw [renderItems_nil, List.nil_append, itemsTail_close lim f acc _ rest (skipWs_nl_indent_char n ']' rest rfl)]
      simp
    | cons x xs =>
      simp only [jsonRepList, Bool.and_eq_true] at hrep
      simp only [numsOkList, Bool.and_eq_true] at hnum
      rw [renderItems_cons] at hf ⊢
      simp only [List.length_append, List.length_cons] at hf
      simp only [List.append_assoc, List.cons_append]
      have hs := startsVal_render lim lvl x hnum.1
      have hsw := skipWs_nl_indent lvl
        (startsVal_append (renderItems lvl xs ++ '\n' :: (indentStr n ++ ']' :: rest)) hs)
      have hx := value_render lim x hrep.1 hnum.1 lvl f
        (renderItems lvl xs ++ '\n' :: (indentStr n ++ ']' :: rest)) (by omega) (numStop_renderItems _ _ _)
      have hxs := itemsTail_render lim xs hrep.2 hnum.2 lvl n f (x :: acc) rest (by omega)
      rw [itemsTail_step lim f acc _ _ _ x (skipWs_comma _) (by rw [hsw]; exact hx), hxs]
      simp
theorem membersTail_render (lim : Nat) (kvs : List (Str × PyVal)) (hrep : jsonRepKvs kvs = true)
    (hnum : numsOkKvs lim kvs = true) (lvl n f : Nat) (acc : Kvs) (rest : Str) (hf : (renderKvs lvl kvs).length < f)
    (hnd : ((acc ++ kvs).map (·.1)).Nodup) :
    membersTail lim f acc (renderKvs lvl kvs ++ '\n' :: (indentStr n ++ '}' :: rest)) = .ok (.dict (acc ++ kvs), rest) := by
  cases f with
  | zero => omega
  | succ f =>
    cases kvs with
    | nil =>
      rw [renderKvs_nil, List.nil_append, membersTail_close lim f acc _ rest (skipWs_nl_indent_char n '}' rest rfl)]
      simp
    | cons p kvs =>
      obtain ⟨k, v⟩ := p
      simp only [jsonRepKvs, Bool.and_eq_true] at hrep
      simp only [numsOkKvs, Bool.and_eq_true] at hnum
      rw [renderKvs_cons] at hf ⊢
      simp only [List.length_append, List.length_cons] at hf
      simp only [List.append_assoc, List.cons_append]
      have hs := startsVal_render lim lvl v hnum.1
      cases f with
      | zero => omega
      | succ f' =>
        have hv := value_render lim v hrep.1.2 hnum.1 lvl f'
          (renderKvs lvl kvs ++ '\n' :: (indentStr n ++ '}' :: rest)) (by omega) (numStop_renderKvs _ _ _)
        have hm := member_render lim k v lvl f' _ hv hs
        have hsw := skipWs_nl_indent lvl (startsVal_quote k
          (':' :: ' ' :: (render lvl v ++ (renderKvs lvl kvs ++ '\n' :: (indentStr n ++ '}' :: rest)))))
        have hfresh : k ∉ acc.map (·.1) := by
          simp only [List.map_append, List.map_cons] at hnd
          have := (List.nodup_append.mp hnd).2.2
          intro hk
          exact this k hk k (List.mem_cons_self) rfl
        have hnd' : (((acc ++ [(k, v)]) ++ kvs).map (·.1)).Nodup := by simpa using hnd
        have hkvs := membersTail_render lim kvs hrep.2 hnum.2 lvl n (f' + 1) (acc ++ [(k, v)]) rest (by omega) hnd'
        rw [membersTail_step lim (f' + 1) acc _ _ _ k v (skipWs_comma _) (by rw [hsw]; exact hm), setKey_fresh acc k v hfresh, hkvs]
        simp
end

/-! ### the document level -/

/-- **THE THEOREM.**  The reader gives back every JSON-representable value from its rendering at any indentation
level: any nesting depth, any size, every string of Unicode scalar values, integers of any size (within the
configured `int()` digit limit; no condition for `lim = 0`), float tokens of the scanner's float language. -/
theorem parseWith_render (lim lvl : Nat) (v : PyVal) (hrep : jsonRep v = true) (hnum : numsOk lim v = true) :
    parseWith lim (render lvl v) = .ok v := by
  have hs := startsVal_render lim lvl v hnum
  have h := value_render lim v hrep hnum lvl ((render lvl v).length + 1) [] (by omega) rfl
  rw [List.append_nil] at h
  simp [parseWith, skipWs_startsVal hs, h, skipWs]

/-- the same for CPython's default configuration (`int()` refuses more than 4300 digits) -/
theorem parse_render (lvl : Nat) (v : PyVal) (hrep : jsonRep v = true) (hnum : numsOk defaultLimit v = true) :
    parse (render lvl v) = .ok v := parseWith_render defaultLimit lvl v hrep hnum

/-! `numsOk` is invariant under key sorting -/

theorem numsOkKvs_insertKv (lim : Nat) (kv : Str × PyVal) (l : Kvs) :
    numsOkKvs lim (PyVal.insertKv kv l) = (numsOk lim kv.2 && numsOkKvs lim l) := by
  induction l with
  | nil => obtain ⟨k, v⟩ := kv; simp [PyVal.insertKv, numsOkKvs]
  | cons x xs ih =>
    obtain ⟨k, v⟩ := kv
    obtain ⟨k', v'⟩ := x
    simp only [PyVal.insertKv]
    split
    · simp [numsOkKvs]
    · simp only [numsOkKvs, ih]
      cases numsOk lim v <;> cases numsOk lim v' <;> simp

theorem numsOkKvs_sortKvs (lim : Nat) (l : Kvs) : numsOkKvs lim (PyVal.sortKvs l) = numsOkKvs lim l := by
  induction l with
  | nil => rfl
  | cons x xs ih =>
    obtain ⟨k, v⟩ := x
    show numsOkKvs lim (PyVal.insertKv (k, v) (PyVal.sortKvs xs)) = _
    rw [numsOkKvs_insertKv, ih]
    simp [numsOkKvs]

mutual
theorem numsOk_canon (lim : Nat) (v : PyVal) : numsOk lim (PyVal.canon v) = numsOk lim v := by
  cases v with
  | list xs => simp only [PyVal.canon, numsOk]; exact numsOkList_canonList lim xs
  | dict kvs => simp only [PyVal.canon, numsOk]; rw [numsOkKvs_sortKvs]; exact numsOkKvs_canonKvs lim kvs
  | none => rfl
  | bool b => rfl
  | int n => rfl
  | float r => rfl
  | str s => rfl
  | other t => rfl
theorem numsOkList_canonList (lim : Nat) (xs : List PyVal) : numsOkList lim (PyVal.canonList xs) = numsOkList lim xs := by
  cases xs with
  | nil => rfl
  | cons x xs => simp only [PyVal.canonList, numsOkList, numsOk_canon lim x, numsOkList_canonList lim xs]
theorem numsOkKvs_canonKvs (lim : Nat) (kvs : List (Str × PyVal)) : numsOkKvs lim (PyVal.canonKvs kvs) = numsOkKvs lim kvs := by
  cases kvs with
  | nil => rfl
  | cons p rest =>
    obtain ⟨k, v⟩ := p
    simp only [PyVal.canonKvs, numsOkKvs, numsOk_canon lim v, numsOkKvs_canonKvs lim rest]
end

/-- **`json.loads(dumps(v))`** is `v` with every dict in sorted key order -/
theorem parseWith_dumps (lim : Nat) (v : PyVal) (hrep : jsonRep v = true) (hnum : numsOk lim v = true) :
    parseWith lim (dumps v) = .ok (PyVal.canon v) :=
  parseWith_render lim 0 (PyVal.canon v) (jsonRep_canon v hrep) (by rw [numsOk_canon]; exact hnum)

theorem parse_dumps (v : PyVal) (hrep : jsonRep v = true) (hnum : numsOk defaultLimit v = true) :
    parse (dumps v) = .ok (PyVal.canon v) := parseWith_dumps defaultLimit v hrep hnum

/-- re-reading is Python-equal to the original (`==`, dict order irrelevant) -/
theorem parseWith_dumps_pyEq (lim : Nat) (v : PyVal) (hrep : jsonRep v = true) (hnum : numsOk lim v = true) :
    ∃ w, parseWith lim (dumps v) = .ok w ∧ PyVal.pyEq w v = true :=
  ⟨_, parseWith_dumps lim v hrep hnum, pyEq_canon v hrep⟩

/-! ### the printer is injective (the text determines the document) -/

theorem render_injective (lim lvl : Nat) (v w : PyVal) (hv : jsonRep v = true) (hw : jsonRep w = true)
    (nv : numsOk lim v = true) (nw : numsOk lim w = true) (h : render lvl v = render lvl w) : v = w := by
  have h1 := parseWith_render lim lvl v hv nv
  rw [h, parseWith_render lim lvl w hw nw] at h1
  exact (Except.ok.inj h1).symm

/-- the converse of `dumps_congr` (C08: same canonical document ⇒ same bytes): same bytes ⇒ same canonical document -/
theorem dumps_injective (lim : Nat) (a b : PyVal) (ha : jsonRep a = true) (hb : jsonRep b = true)
    (na : numsOk lim a = true) (nb : numsOk lim b = true) (h : dumps a = dumps b) : PyVal.canon a = PyVal.canon b := by
  have h1 := parseWith_dumps lim a ha na
  rw [h, parseWith_dumps lim b hb nb] at h1
  exact (Except.ok.inj h1).symm

/-! ### what a reader sees in the parsed document: lookups commute with key sorting

(for the readers' side of the byte theorems: `json.load` hands the library `canon doc`, not the writer's `doc`; a reader
that only looks keys up — `d[k]`, `d.get(k)` — sees the key-sorted sub-documents of what it would see in `doc`) -/

theorem find?_eq_lookup (kvs : Kvs) (k : Str) : (kvs.find? (·.1 == k)).map (·.2) = lookup kvs k := by
  induction kvs with
  | nil => rfl
  | cons p rest ih =>
    obtain ⟨k', v⟩ := p
    simp only [List.find?_cons, lookup]
    cases h : (k' == k)
    · simpa using ih
    · simp

/-- `PyVal.get?` on the document the parser returns -/
theorem get?_canon (v : PyVal) (k : Str) (h : jsonRep v = true) :
    (PyVal.canon v).get? k = (v.get? k).map PyVal.canon := by
  cases v with
  | dict kvs =>
    simp only [jsonRep] at h
    simp only [PyVal.canon, PyVal.get?, find?_eq_lookup, lookup_sortKvs_canonKvs kvs k h]
  | none => rfl
  | bool b => rfl
  | int n => rfl
  | float r => rfl
  | str s => rfl
  | other t => rfl
  | list xs => simp [PyVal.canon, PyVal.get?]

/-- `d[k]` through the modelled parser: reading key `k` in `json.loads(dumps(v))` gives the key-sorted `v[k]` -/
theorem parseWith_dumps_get? (lim : Nat) (v : PyVal) (k : Str) (hrep : jsonRep v = true) (hnum : numsOk lim v = true) :
    ∃ w, parseWith lim (dumps v) = .ok w ∧ w.get? k = (v.get? k).map PyVal.canon :=
  ⟨_, parseWith_dumps lim v hrep hnum, get?_canon v k hrep⟩

/-! ### when the side condition on numbers holds -/

/-- with the digit limit disabled (`sys.set_int_max_str_digits(0)`) every integer is read back -/
theorem intFits_zero (n : Int) : intFits 0 n = true := by simp [intFits, intLimited]

/-- under any limit, integers of at most 640 digits are read back (the limit is not even consulted) -/
theorem intFits_of_length (lim : Nat) (n : Int) (h : (natStr n.natAbs).length ≤ 640) : intFits lim n = true := by
  have h3 : ¬ 640 < (natStr n.natAbs).length := by omega
  simp [intFits, intLimited, h3]

/-- under CPython's default, integers of at most 4300 digits -/
theorem intFits_default (n : Int) (h : (natStr n.natAbs).length ≤ 4300) : intFits defaultLimit n = true := by
  have h3 : ¬ 4300 < (natStr n.natAbs).length := by omega
  simp [intFits, intLimited, defaultLimit, h3]

/-! ### non-vacuity: a nested document with every kind of leaf; the kernel runs the reader on its text as well -/

def exampleDoc : PyVal :=
  .dict [(L "payload", .dict [(L "q\"uo\\te\n\x01\x7f.", .list [.int (-5), .int 123456789012345678901234567890, .bool true, .none,
            .float (L "1e+16"), .float (L "-0.0"), .float (L "2.5e-07"), .float (L "NaN"), .list [], .dict []]),
          (L "é😀", .str (L "astral 😀, BMP \u20ac, slash /"))]),
         (L "header", .dict [(L "version", .str (L "1.2"))])]

example : jsonRep exampleDoc = true ∧ numsOk defaultLimit exampleDoc = true := by decide +kernel

example : parse (dumps exampleDoc) = .ok (PyVal.canon exampleDoc) :=
  parse_dumps exampleDoc (by decide +kernel) (by decide +kernel)

/-- the same fact by evaluation in the kernel (independent of the proof above) -/
example : (match parse (dumps exampleDoc) with | .ok w => PyVal.beq w (PyVal.canon exampleDoc) | .error _ => false) = true := by
  decide +kernel

/-- float tokens: what `float.__repr__` produces is accepted, other spellings of numbers are not -/
example : floatTok (L "1.5") = true ∧ floatTok (L "-0.0") = true ∧ floatTok (L "1e+16") = true ∧ floatTok (L "2.5e-07") = true
    ∧ floatTok (L "1.7976931348623157e+308") = true ∧ floatTok (L "Infinity") = true
    ∧ floatTok (L "1") = false ∧ floatTok (L "1.") = false ∧ floatTok (L ".5") = false ∧ floatTok (L "1e") = false
    ∧ floatTok (L "01.5") = false ∧ floatTok (L "1.5 ") = false ∧ floatTok (L "inf") = false ∧ floatTok (L "nan") = false := by
  decide +kernel

/-- the side conditions are needed: a repeated key, a number-like float token that is not one float, and a foreign
object do not come back -/
example : (match parse (render 0 (.dict [(L "a", .int 1), (L "a", .int 2)])) with
           | .ok w => PyVal.beq w (.dict [(L "a", .int 2)]) | .error _ => false) = true
    ∧ (match parse (render 0 (.list [.float (L "1.5.5")])) with | .ok _ => false | .error e => e == .valueError) = true
    ∧ (match parse (render 0 (.float (L "15"))) with | .ok w => PyVal.beq w (.int 15) | .error _ => false) = true
    ∧ (match parse (render 0 (.other true)) with | .ok _ => false | .error e => e == .valueError) = true := by
  decide +kernel

end PM.JsonParse
