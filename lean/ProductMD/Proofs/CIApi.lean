import ProductMD.Proofs.CITop
import ProductMD.Proofs.ForestInv
/-!
C01 ⟷ C11: the tree a history of `add` calls builds is well keyed.

`Model/Forest.lean` (C11) is the arena model of `VariantBase.add`: objects with identity, parent pointers, the children
dicts in insertion order; `run U fuel ops` is the state after ANY history of `add` calls (accepted or refused) from
the empty forest, and `InvW` (Proofs/ForestInv.lean) holds in every such state: each child dict is keyed by the ids of
its values, without a key twice.  Here the arena is unfolded into the tree the composeinfo writer walks
(`Model/ComposeInfo.lean`), and `wellKeyedTop` of that tree is derived.  What `add` never looks at (paths, per-variant
release) is a parameter `X`.
-/
namespace PM.CI
open PM PM.Forest

/-- per-object data `add` does not touch -/
structure Extra where
  paths : PathTable
  release : Option Release

/-- the subtree below the dict entry `key ↦ object`, unfolded to depth `f` (children in dict order) -/
def unfold (U : Nat → Attrs) (X : Nat → Extra) (s : State) : Nat → Str × Nat → Variant
  | 0, kv => .mk kv.1 (U kv.2).id (U kv.2).uid (U kv.2).name (U kv.2).type (U kv.2).arches (X kv.2).paths (X kv.2).release []
  | f + 1, kv => .mk kv.1 (U kv.2).id (U kv.2).uid (U kv.2).name (U kv.2).type (U kv.2).arches (X kv.2).paths (X kv.2).release
      ((s.kids kv.2).map (unfold U X s f))

/-- `ComposeInfo.variants` as the writer sees it -/
def forestOf (U : Nat → Attrs) (X : Nat → Extra) (s : State) (f : Nat) : List Variant := s.top.map (unfold U X s f)

theorem unfold_id (U X s) : ∀ (f : Nat) (kv : Str × Nat), (unfold U X s f kv).id = (U kv.2).id
  | 0, _ => rfl
  | _ + 1, _ => rfl

theorem unfold_key (U X s) : ∀ (f : Nat) (kv : Str × Nat), (unfold U X s f kv).key = kv.1
  | 0, _ => rfl
  | _ + 1, _ => rfl

theorem wellKeyedL_of_forall : ∀ {vs : List Variant}, (∀ v ∈ vs, v.key = v.id ∧ wellKeyed v = true) → wellKeyedL vs = true
  | [], _ => rfl
  | v :: vs, h => by
    simp only [wellKeyedL, Bool.and_eq_true, decide_eq_true_eq]
    exact ⟨h v (by simp), wellKeyedL_of_forall (fun w hw => h w (by simp [hw]))⟩

/-- below any object, at any unfolding depth: keys are ids, no key twice -/
theorem unfold_wellKeyed {U : Nat → Attrs} {s : State} (h : InvW U s) (X : Nat → Extra) :
    ∀ (f : Nat) (kv : Str × Nat), wellKeyed (unfold U X s f kv) = true
  | 0, kv => by simp [unfold, wellKeyed, wellKeyedL]
  | f + 1, kv => by
    simp only [unfold, wellKeyed, Bool.and_eq_true, decide_eq_true_eq, List.map_map]
    constructor
    · have : (s.kids kv.2).map (Variant.id ∘ unfold U X s f) = (s.kids kv.2).map (·.1) := by
        apply List.map_congr_left
        intro e he
        simp only [Function.comp, unfold_id]
        exact ((h.edge kv.2 e.1 e.2 he).key).symm
      rw [this]
      exact h.keys (some kv.2)
    · apply wellKeyedL_of_forall
      intro w hw
      obtain ⟨e, he, rfl⟩ := List.mem_map.mp hw
      refine ⟨?_, unfold_wellKeyed h X f e⟩
      rw [unfold_key, unfold_id]
      exact (h.edge kv.2 e.1 e.2 he).key

theorem forestOf_wellKeyed {U : Nat → Attrs} {s : State} (h : InvW U s) (X : Nat → Extra) (f : Nat)
    (htop : ∀ kv ∈ s.top, kv.1 = (U kv.2).id) : wellKeyedTop (forestOf U X s f) = true := by
  simp only [wellKeyedTop, forestOf, Bool.and_eq_true, decide_eq_true_eq, List.map_map]
  constructor
  · have : s.top.map (Variant.id ∘ unfold U X s f) = s.top.map (·.1) := by
      apply List.map_congr_left
      intro e he
      simp only [Function.comp, unfold_id]
      exact (htop e he).symm
    rw [this]
    exact h.keys none
  · apply wellKeyedL_of_forall
    intro w hw
    obtain ⟨e, he, rfl⟩ := List.mem_map.mp hw
    refine ⟨?_, unfold_wellKeyed h X f e⟩
    rw [unfold_key, unfold_id]
    exact htop e he

/-! ### histories -/
theorem invW_run (U : Nat → Attrs) (fuel : Nat) (ops : List Op) : InvW U (run U fuel ops) := by
  unfold run
  suffices h : ∀ s, InvW U s → InvW U (ops.foldl (step U fuel) s) from h _ (InvW.empty U)
  induction ops with
  | nil => intro s h; exact h
  | cons o os ih => intro s h; exact ih _ (h.add fuel o.c o.v o.key)

/-- one `add` with the default key keeps "top-level keys are ids" -/
theorem add_top_keys (U : Nat → Attrs) (fuel : Nat) (s : State) (c : Cont) (v : Nat) (key : Option Str)
    (hk : c = none → key = none) (h : ∀ kv ∈ s.top, kv.1 = (U kv.2).id) :
    ∀ kv ∈ (add U fuel s c v key).1.top, kv.1 = (U kv.2).id := by
  rcases add_cases U fuel s c v key with ⟨e, he⟩ | ⟨he, _⟩ | ⟨he, _⟩
  · rw [he]; simpa using h
  · rw [he]; simpa using h
  · rw [he]
    cases c with
    | some p => simpa [State.setKids] using h
    | none =>
      have := hk rfl
      subst this
      intro kv hkv
      simp only [State.setKids, State.kidsOf, List.mem_append, List.mem_singleton] at hkv
      rcases hkv with hkv | hkv
      · exact h kv hkv
      · subst hkv; simp [addKey]

theorem run_top_keys (U : Nat → Attrs) (fuel : Nat) (ops : List Op) (hk : ∀ o ∈ ops, o.c = none → o.key = none) :
    ∀ kv ∈ (run U fuel ops).top, kv.1 = (U kv.2).id := by
  unfold run
  suffices h : ∀ s, (∀ kv ∈ s.top, kv.1 = (U kv.2).id) → ∀ kv ∈ (ops.foldl (step U fuel) s).top, kv.1 = (U kv.2).id from
    h _ (by simp [State.empty])
  induction ops with
  | nil => intro s h; exact h
  | cons o os ih =>
    intro s h
    exact ih (fun o' ho' => hk o' (by simp [ho'])) _ (add_top_keys U fuel s o.c o.v o.key (hk o (by simp)) h)

end PM.CI
