import ProductMD.Proofs.ImagesLoadExact
import ProductMD.Spec.Arches
/-!
C10, images side: which architecture keys `Images.add` (the statement list read from the source) can create,
and what a refused call leaves behind.
-/
namespace PM.Img.C10
open PM PM.PyOps PM.Spec
set_option Elab.async false

/-- every architecture key of the manifest (one entry per (variant, arch) table, empty tables included) -/
def archKeys (cs : Cells) : List Str := cs.flatMap fun va => va.2.map (·.1)

/-- every variant key of the manifest -/
def variantKeys (cs : Cells) : List Str := cs.map (·.1)

/-- what the two checks of `Images.add` let through -/
def Admissible (a : Str) : Prop := Gen.RPM_ARCHES.contains a = true ∧ refusedArches.contains a = false

def KeysOK (cs : Cells) : Prop := ∀ x ∈ archKeys cs, Admissible x

theorem archKeys_cons (va : Str × List (Str × Cell)) (cs : Cells) :
    archKeys (va :: cs) = va.2.map (·.1) ++ archKeys cs := by
  simp [archKeys]

theorem mem_keys_archAdd {as : List (Str × Cell)} {a : Str} {id : Nat} {img : Image} {x : Str} :
    x ∈ (archAdd as a id img).map (·.1) → x = a ∨ x ∈ as.map (·.1) := by
  induction as with
  | nil => intro h; simp [archAdd] at h; exact Or.inl h
  | cons ac rest ih =>
    obtain ⟨a', c⟩ := ac
    unfold archAdd
    split
    · intro h; exact Or.inr (by simpa using h)
    · intro h
      simp only [List.map_cons, List.mem_cons] at h ⊢
      rcases h with h | h
      · exact Or.inr (Or.inl h)
      · rcases ih h with e | e
        · exact Or.inl e
        · exact Or.inr (Or.inr e)

/-- an insertion creates at most the arch key it was asked for -/
theorem mem_archKeys_cellsAdd {cs : Cells} {v a : Str} {id : Nat} {img : Image} {x : Str} :
    x ∈ archKeys (cellsAdd cs v a id img) → x = a ∨ x ∈ archKeys cs := by
  induction cs with
  | nil => intro h; simp [cellsAdd, archKeys] at h; exact Or.inl h
  | cons va rest ih =>
    obtain ⟨v', as⟩ := va
    unfold cellsAdd
    split
    · intro h
      rw [archKeys_cons] at h ⊢
      rcases List.mem_append.mp h with h | h
      · rcases mem_keys_archAdd h with e | e
        · exact Or.inl e
        · exact Or.inr (List.mem_append_left _ e)
      · exact Or.inr (List.mem_append_right _ h)
    · intro h
      rw [archKeys_cons] at h ⊢
      rcases List.mem_append.mp h with h | h
      · exact Or.inr (List.mem_append_left _ h)
      · rcases ih h with e | e
        · exact Or.inl e
        · exact Or.inr (List.mem_append_right _ e)

/-! ### the statement list: every insertion comes after both architecture checks -/

/-- `tbl` / `src`: the table check / the source-arch refusal has already run.  A statement the translator does not
know might insert anything: not guarded. -/
def archGuard : List AddStep → Bool → Bool → Bool
  | [], _, _ => true
  | .archTable :: rest, _, src => archGuard rest true src
  | .srcRefusal :: rest, tbl, _ => archGuard rest tbl true
  | .uniqScan :: rest, tbl, src => archGuard rest tbl src
  | .insert :: rest, tbl, src => tbl && src && archGuard rest tbl src
  | .unknown :: _, _, _ => false

theorem keys_of_archGuard (v a : Str) (id : Nat) (img : Image) (script : List AddStep) (s : ImgState) (tbl src : Bool)
    (hg : archGuard script tbl src = true)
    (ht : tbl = true → Gen.RPM_ARCHES.contains a = true) (hs : src = true → refusedArches.contains a = false)
    (hk : KeysOK s.cells) : KeysOK (runSteps v a id img script s).1.cells := by
  induction script generalizing s tbl src with
  | nil => exact hk
  | cons st rest ih =>
    unfold runSteps
    cases st with
    | archTable =>
      simp only [runStep]
      by_cases hc : Gen.RPM_ARCHES.contains a = true
      · simp only [hc, ↓reduceIte]
        exact ih s true src (by simpa [archGuard] using hg) (fun _ => hc) hs hk
      · simp only [hc]
        exact hk
    | srcRefusal =>
      simp only [runStep]
      by_cases hc : refusedArches.contains a = true
      · simp only [hc, ↓reduceIte]
        exact hk
      · simp only [hc]
        exact ih s tbl true (by simpa [archGuard] using hg) ht (fun _ => by simpa using hc) hk
    | unknown => simp [archGuard] at hg
    | uniqScan =>
      cases hr : runStep v a id img .uniqScan s with
      | mk s' r =>
        have hs' : s' = s := by
          have := runStep_pure v a id img .uniqScan s rfl
          rw [hr] at this; exact this
        subst hs'
        cases r with
        | error e => exact hk
        | ok u =>
          cases u
          exact ih s' tbl src (by simpa [archGuard] using hg) ht hs hk
    | insert =>
      simp only [archGuard, Bool.and_eq_true] at hg
      simp only [runStep]
      refine ih _ tbl src hg.2 ht hs ?_
      intro x hx
      rcases mem_archKeys_cellsAdd hx with rfl | h
      · exact ⟨ht hg.1.1, hs hg.1.2⟩
      · exact hk x h

/-! ### the statement list: a non-admissible architecture is refused before anything else happens -/

/-- which of the two checks stand at the head of the list, before any other statement -/
def headChecks : List AddStep → Bool × Bool
  | .archTable :: rest => (true, (headChecks rest).2)
  | .srcRefusal :: rest => ((headChecks rest).1, true)
  | _ => (false, false)

theorem refused_of_headChecks (v a : Str) (id : Nat) (img : Image) (script : List AddStep) (s : ImgState)
    (h : (Gen.RPM_ARCHES.contains a = false ∧ (headChecks script).1 = true)
       ∨ (refusedArches.contains a = true ∧ (headChecks script).2 = true)) :
    runSteps v a id img script s = (s, .error .valueError) := by
  induction script with
  | nil => simp [headChecks] at h
  | cons st rest ih =>
    unfold runSteps
    cases st with
    | archTable =>
      simp only [runStep]
      by_cases hc : Gen.RPM_ARCHES.contains a = true
      · simp only [hc, ↓reduceIte]
        apply ih
        rcases h with h | h
        · rw [hc] at h; cases h.1
        · right; exact ⟨h.1, by simpa [headChecks] using h.2⟩
      · simp only [hc]
        rfl
    | srcRefusal =>
      simp only [runStep]
      by_cases hc : refusedArches.contains a = true
      · simp only [hc, ↓reduceIte]
      · simp only [hc]
        apply ih
        rcases h with h | h
        · left; exact ⟨h.1, by simpa [headChecks] using h.2⟩
        · exact absurd h.1 hc
    | unknown => simp [headChecks] at h
    | uniqScan => simp [headChecks] at h
    | insert => simp [headChecks] at h

/-! ### what `serialize` writes: no arch key that is not in the manifest -/

def outArchKeys (o : OutCells) : List Str := o.flatMap fun va => va.2.map (·.1)

theorem outArchKeys_cons (va : Str × List (Str × List PyVal)) (o : OutCells) :
    outArchKeys (va :: o) = va.2.map (·.1) ++ outArchKeys o := by
  simp [outArchKeys]

theorem mem_keys_outArchAppend {as : List (Str × List PyVal)} {a : Str} {d : PyVal} {x : Str} :
    x ∈ (outArchAppend as a d).map (·.1) → x = a ∨ x ∈ as.map (·.1) := by
  induction as with
  | nil => intro h; simp [outArchAppend] at h; exact Or.inl h
  | cons al rest ih =>
    obtain ⟨a', l⟩ := al
    unfold outArchAppend
    split
    · intro h; exact Or.inr (by simpa using h)
    · intro h
      simp only [List.map_cons, List.mem_cons] at h ⊢
      rcases h with h | h
      · exact Or.inr (Or.inl h)
      · rcases ih h with e | e
        · exact Or.inl e
        · exact Or.inr (Or.inr e)

theorem mem_outArchKeys_outAppend {o : OutCells} {v a : Str} {d : PyVal} {x : Str} :
    x ∈ outArchKeys (outAppend o v a d) → x = a ∨ x ∈ outArchKeys o := by
  induction o with
  | nil => intro h; simp [outAppend, outArchKeys] at h; exact Or.inl h
  | cons va rest ih =>
    obtain ⟨v', as⟩ := va
    unfold outAppend
    split
    · intro h
      rw [outArchKeys_cons] at h ⊢
      rcases List.mem_append.mp h with h | h
      · rcases mem_keys_outArchAppend h with e | e
        · exact Or.inl e
        · exact Or.inr (List.mem_append_left _ e)
      · exact Or.inr (List.mem_append_right _ h)
    · intro h
      rw [outArchKeys_cons] at h ⊢
      rcases List.mem_append.mp h with h | h
      · exact Or.inr (List.mem_append_left _ h)
      · rcases ih h with e | e
        · exact Or.inl e
        · exact Or.inr (List.mem_append_right _ e)

theorem serializeCell_keys (v a : Str) : ∀ (c : Cell) (out out' : OutCells), serializeCell v a c out = .ok out' →
    ∀ x ∈ outArchKeys out', x = a ∨ x ∈ outArchKeys out := by
  intro c
  induction c with
  | nil => intro out out' h x hx; simp only [serializeCell, Except.ok.injEq] at h; subst h; exact Or.inr hx
  | cons e rest ih =>
    intro out out' h x hx
    obtain ⟨id, img⟩ := e
    unfold serializeCell at h
    obtain ⟨d, _, h2⟩ := bind_ok h
    rcases ih _ out' h2 x hx with e | e
    · exact Or.inl e
    · exact mem_outArchKeys_outAppend e

theorem serializeArches_keys (v : Str) : ∀ (as : List (Str × Cell)) (out out' : OutCells), serializeArches v as out = .ok out' →
    ∀ x ∈ outArchKeys out', x ∈ as.map (·.1) ∨ x ∈ outArchKeys out := by
  intro as
  induction as with
  | nil => intro out out' h x hx; simp only [serializeArches, Except.ok.injEq] at h; subst h; exact Or.inr hx
  | cons ac rest ih =>
    intro out out' h x hx
    obtain ⟨a, c⟩ := ac
    unfold serializeArches at h
    obtain ⟨out1, h1, h2⟩ := bind_ok h
    rcases ih out1 out' h2 x hx with e | e
    · exact Or.inl (List.mem_cons_of_mem _ e)
    · rcases serializeCell_keys v a c out out1 h1 x e with e' | e'
      · exact Or.inl (by simp [e'])
      · exact Or.inr e'

theorem serializeCells_keys : ∀ (cs : Cells) (out out' : OutCells), serializeCells cs out = .ok out' →
    ∀ x ∈ outArchKeys out', x ∈ archKeys cs ∨ x ∈ outArchKeys out := by
  intro cs
  induction cs with
  | nil => intro out out' h x hx; simp only [serializeCells, Except.ok.injEq] at h; subst h; exact Or.inr hx
  | cons va rest ih =>
    intro out out' h x hx
    obtain ⟨v, as⟩ := va
    unfold serializeCells at h
    obtain ⟨out1, h1, h2⟩ := bind_ok h
    rw [archKeys_cons]
    rcases ih out1 out' h2 x hx with e | e
    · exact Or.inl (List.mem_append_right _ e)
    · rcases serializeArches_keys v as out out1 h1 x e with e' | e'
      · exact Or.inl (List.mem_append_left _ e')
      · exact Or.inr e'

/-- the document `Images.serialize` builds: its image table has no arch key that the manifest does not have -/
theorem serialize_keys (s : ImgState) (doc : PyVal) (h : (serialize s).2 = .ok doc) :
    ∃ (hdr comp : PyVal) (out : OutCells),
      doc = .dict [(L "header", hdr), (L "payload", .dict [(L "images", out.toPy), (L "compose", comp)])]
      ∧ ∀ x ∈ outArchKeys out, x ∈ archKeys s.cells := by
  simp only [serialize] at h
  obtain ⟨_, _, h⟩ := bind_ok h
  obtain ⟨comp, _, h⟩ := bind_ok h
  obtain ⟨out, hout, h⟩ := bind_ok h
  injection h with h
  refine ⟨_, comp, out, h.symm, fun x hx => ?_⟩
  rcases serializeCells_keys s.cells [] out hout x hx with e | e
  · exact e
  · simp [outArchKeys] at e

end PM.Img.C10
