import ProductMD.Proofs.CITop
/-! C01: writing the normal form gives the same document (towards `C01_fixpoint`). -/
namespace PM.CI
open PM

/-! ### the writer succeeds when every validator accepts and no two filed entries disagree -/
/-- no key with two different values -/
def Func (l : Flat) : Prop := ∀ x ∈ l, ∀ y ∈ l, x.1 = y.1 → x = y

theorem Func.mono {l l' : Flat} (h : Func l) (hsub : ∀ x ∈ l', x ∈ l) : Func l' :=
  fun x hx y hy hxy => h x (hsub x hx) y (hsub y hy) hxy

theorem FSorted.func {d : Flat} (h : FSorted d) : Func d := by
  intro x hx y hy hxy
  exact inj_of_nodup_map (·.1) h.keys_nodup hx hy hxy

theorem putEntry_complete {k : Str} {e : Entry} {d : Flat} (h : ∀ e', (k, e') ∈ d → e' = e) : ∃ d', putEntry k e d = .ok d' := by
  unfold putEntry
  cases hl : lookup k d with
  | none => exact ⟨_, rfl⟩
  | some e' =>
    have := h e' (mem_of_lookup hl)
    subst this
    exact ⟨d, by simp⟩

mutual
theorem ser_complete : ∀ (v : Variant) (ctx : Ctx) (d : Flat), Good ctx v → FSorted d → Func (flat v ++ d) →
    ∃ d', Variant.ser ctx v d = .ok d'
  | .mk key id uid name type arches paths rel kids, ctx, d, hg, hs, hf => by
    have hg' := hg
    simp only [Good] at hg'
    obtain ⟨hrel, hpaths, hval, hgk⟩ := hg'
    obtain ⟨d1, hd1⟩ := sers_complete kids _ d hgk hs (hf.mono (fun x hx => by
      simp only [flat, List.mem_append, List.mem_singleton] at hx ⊢
      rcases hx with h | h
      · exact .inl (.inl h)
      · exact .inr h))
    obtain ⟨_, s1, _, _, only1⟩ := sers_spec kids _ d d1 hd1 hs
    obtain ⟨d2, hd2⟩ := putEntry_complete (k := uid) (e := entryOf (.mk key id uid name type arches paths rel kids)) (d := d1) (by
      intro e' he'
      have hin : (uid, e') ∈ flat (.mk key id uid name type arches paths rel kids) ++ d := by
        simp only [flat, List.mem_append, List.mem_singleton]
        rcases only1 _ he' with h | h
        · exact .inr h
        · exact .inl (.inl h)
      have hself : (uid, entryOf (.mk key id uid name type arches paths rel kids)) ∈ flat (.mk key id uid name type arches paths rel kids) ++ d := by
        simp [flat]
      have := hf _ hin _ hself rfl
      exact (Prod.mk.inj this).2)
    refine ⟨d2, ?_⟩
    unfold Variant.ser
    have hrel' : (if type = layeredProduct then validateClass "composeinfo.Release" (variantReleaseObj rel) else .ok ()) = .ok () := by
      split
      · rename_i ht; exact hrel ht
      · rfl
    simp only [hrel', hpaths, hd1, hd2, hval]
theorem sers_complete : ∀ (vs : List Variant) (ctx : Ctx) (d : Flat), GoodL ctx vs → FSorted d → Func (flats vs ++ d) →
    ∃ d', sers ctx vs d = .ok d'
  | [], _, d, _, _, _ => ⟨d, rfl⟩
  | v :: vs, ctx, d, hg, hs, hf => by
    simp only [GoodL] at hg
    obtain ⟨d1, hd1⟩ := ser_complete v ctx d hg.1 hs (hf.mono (fun x hx => by
      simp only [flats, List.mem_append] at hx ⊢
      rcases hx with h | h
      · exact .inl (.inl h)
      · exact .inr h))
    obtain ⟨_, s1, _, _, only1⟩ := ser_spec v ctx d d1 hd1 hs
    obtain ⟨d2, hd2⟩ := sers_complete vs ctx d1 hg.2 s1 (hf.mono (fun x hx => by
      simp only [flats, List.mem_append] at hx ⊢
      rcases hx with h | h
      · exact .inl (.inr h)
      · rcases only1 x h with h' | h'
        · exact .inr h'
        · exact .inl (.inl h')))
    exact ⟨d2, by simp only [sers, hd1, hd2]⟩
end

theorem nodup_of_map_nodup {α β} (f : α → β) : ∀ {l : List α}, (l.map f).Nodup → l.Nodup
  | [], _ => List.nodup_nil
  | a :: as, h => by
    simp only [List.map_cons, List.nodup_cons] at h ⊢
    exact ⟨fun hm => h.1 (List.mem_map.mpr ⟨a, hm, rfl⟩), nodup_of_map_nodup f h.2⟩

/-- two strictly sorted dicts with the same items are the same list -/
theorem flat_ext {d₁ d₂ : Flat} (h₁ : FSorted d₁) (h₂ : FSorted d₂) (h : ∀ x, x ∈ d₁ ↔ x ∈ d₂) : d₁ = d₂ := by
  have n₁ : d₁.Nodup := nodup_of_map_nodup _ h₁.keys_nodup
  have n₂ : d₂.Nodup := nodup_of_map_nodup _ h₂.keys_nodup
  have hp : d₁.Perm d₂ := (List.perm_ext_iff_of_nodup n₁ n₂).mpr h
  unfold FSorted at h₁ h₂
  exact List.Perm.eq_of_pairwise (le := fun (a b : Str × Entry) => a.1 < b.1)
    (fun a b _ _ hab hba => absurd hba (List.lt_asymm hab)) h₁ h₂ hp

/-! ### the normal form files the same entries -/
theorem lookup_map_self {β} (g : Str → β) (c : Str) : ∀ (l : List Str), c ∈ l → lookup c (l.map fun x => (x, g x)) = some (g c)
  | [], h => by cases h
  | a :: as, h => by
    simp only [List.map_cons, lookup]
    split
    · rename_i heq; rw [heq]
    · rename_i hne
      rcases List.mem_cons.mp h with h | h
      · exact absurd h.symm hne
      · exact lookup_map_self g c as h

theorem storedPaths_idem (A : List Str) (p : PathTable) : storedPaths A (storedPaths A p) = storedPaths A p := by
  let cell : PathTable → Str → Str → Option (Str × Str) := fun p cat a =>
    match pathAt p cat a with
    | some v => if v = [] then none else some (a, v)
    | none => none
  have hsp : ∀ q, storedPaths A q = Gen.COMPOSEINFO_PATH_FIELDS.map fun cat => (cat, A.filterMap (cell q cat)) := fun _ => rfl
  have hcell1 : ∀ q cat a x, cell q cat a = some x → x.1 = a := by
    intro q cat a x hx
    simp only [cell] at hx
    split at hx
    · split at hx
      · cases hx
      · cases hx; rfl
    · cases hx
  have hcell2 : ∀ q cat a x, cell q cat a = some x → x.2 ≠ [] := by
    intro q cat a x hx
    simp only [cell] at hx
    split at hx
    · split at hx
      · cases hx
      · rename_i hv; cases hx; exact hv
    · cases hx
  rw [hsp (storedPaths A p), hsp p]
  apply List.map_congr_left
  intro cat hcat
  congr 1
  apply filterMap_congr'
  intro a ha
  have hpa : pathAt (storedPaths A p) cat a = (cell p cat a).map (·.2) := by
    unfold pathAt
    rw [hsp p, lookup_map_self (fun c => A.filterMap (cell p c)) cat _ hcat]
    exact lookup_filterMap_cell (cell p cat) (hcell1 p cat) a A ha
  show (match pathAt (storedPaths A p) cat a with
    | some v => if v = [] then none else some (a, v)
    | none => none) = cell p cat a
  rw [hpa]
  cases hc : cell p cat a with
  | none => rfl
  | some x =>
    obtain ⟨x1, x2⟩ := x
    have h1 := hcell1 p cat a _ hc
    have h2 := hcell2 p cat a _ hc
    simp only at h1 h2
    subst h1
    simp [h2]

theorem release_norm_eq (r : Release) (h : validateClass "composeinfo.Release" (releaseObj r) = .ok ()) : r.norm = r := by
  have := release_ok_lower r h
  cases r
  simp only [Release.norm] at this ⊢
  simp [this]

theorem pick_map_id (nk : List Variant) :
    ∀ (ids : List Str), (∀ i ∈ ids, ∃ w, findId i nk = some w) → (pick ids nk).map Variant.id = ids := by
  intro ids
  induction ids with
  | nil => intro _; rfl
  | cons i is ih =>
    intro h
    obtain ⟨w, hw⟩ := h i (by simp)
    have hw' := findId_some hw
    simp only [pick, List.filterMap_cons, hw, List.map_cons] at ih ⊢
    rw [ih (fun j hj => h j (by simp [hj])), hw'.2]

theorem found_norms (vs : List Variant) : ∀ i ∈ Str.sortDedup (vs.map Variant.id), ∃ w, findId i (norms vs) = some w := by
  intro i hi
  obtain ⟨w, hw⟩ := findId_of_mem (mem_sortDedup.mp hi)
  exact ⟨w.norm, by rw [findId_norms, hw]; rfl⟩

/-- the entry of the normal form is the entry of the variant -/
theorem entry_norm (ctx : Ctx) (v : Variant) (hg : Good ctx v) : entryOf v.norm = entryOf v := by
  cases v with
  | mk key id uid name type arches paths rel kids =>
  simp only [Good] at hg
  simp only [Variant.norm, entryOf, sortDedup_idem, storedPaths_idem]
  have hk : Str.sortDedup ((pick (Str.sortDedup (kids.map Variant.id)) (norms kids)).map Variant.id)
      = Str.sortDedup (kids.map Variant.id) := by
    rw [pick_map_id _ _ (found_norms kids), sortDedup_idem]
  rw [hk]
  have hr : (if type = layeredProduct then (if type = layeredProduct then rel.map (fun r => (forceLayered r).norm) else none).map forceLayered else none)
      = (if type = layeredProduct then rel.map forceLayered else none) := by
    by_cases ht : type = layeredProduct
    · simp only [ht, if_true]
      cases rel with
      | none => rfl
      | some r =>
        have := release_norm_eq (forceLayered r) (hg.1 ht)
        simp only [Option.map_some, this]
        rfl
    · simp [ht]
  rw [hr]

theorem mem_pick_norms {vs : List Variant} (hn : (vs.map Variant.id).Nodup) {w : Variant} :
    w ∈ pick (Str.sortDedup (vs.map Variant.id)) (norms vs) ↔ ∃ k ∈ vs, w = k.norm := by
  constructor
  · intro hw
    have := pick_mem hw
    rw [norms_eq_map] at this
    obtain ⟨k, hk, rfl⟩ := List.mem_map.mp this
    exact ⟨k, hk, rfl⟩
  · rintro ⟨k, hk, rfl⟩
    simp only [pick, List.mem_filterMap]
    refine ⟨k.id, mem_sortDedup.mpr (List.mem_map.mpr ⟨k, hk, rfl⟩), ?_⟩
    obtain ⟨w, hw⟩ := findId_of_mem (List.mem_map.mpr ⟨k, hk, rfl⟩)
    have hw' := findId_some hw
    rw [findId_norms, hw, inj_of_nodup_map Variant.id hn hw'.1 hk hw'.2]
    rfl

theorem GoodL_of_forall {ctx : Ctx} : ∀ {vs : List Variant}, (∀ v ∈ vs, Good ctx v) → GoodL ctx vs
  | [], _ => trivial
  | v :: vs, h => ⟨h v (by simp), GoodL_of_forall (fun w hw => h w (by simp [hw]))⟩

mutual
theorem good_norm : ∀ (v : Variant) (ctx : Ctx), Good ctx v → wellKeyed v = true → Good ctx v.norm
  | .mk key id uid name type arches paths rel kids, ctx, hg, hk => by
    have hobj := variantObj_norm ctx (.mk key id uid name type arches paths rel kids) hk
    have hg' := hg
    simp only [Good] at hg'
    obtain ⟨hrel, hpaths, hval, hgk⟩ := hg'
    have hk' := hk
    simp only [wellKeyed, Bool.and_eq_true, decide_eq_true_eq] at hk'
    have ih := goods_norm kids _ hgk hk'.2
    simp only [Variant.norm] at hobj ⊢
    simp only [Good, hobj, hval, hpaths, sortDedup_idem, true_and]
    refine ⟨?_, ?_⟩
    · intro ht
      simp only [ht, if_true]
      cases rel with
      | none => exact hrel ht
      | some r =>
        have := release_norm_eq (forceLayered r) (hrel ht)
        simp only [Option.map_some, this]
        exact hrel ht
    · apply GoodL_of_forall
      intro w hw
      obtain ⟨k, hkm, rfl⟩ := (mem_pick_norms hk'.1).mp hw
      exact ih k hkm
theorem goods_norm : ∀ (vs : List Variant) (ctx : Ctx), GoodL ctx vs → wellKeyedL vs = true → ∀ k ∈ vs, Good ctx k.norm
  | [], _, _, _ => by intro k hk; cases hk
  | v :: vs, ctx, hg, hk => by
    simp only [GoodL] at hg
    simp only [wellKeyedL, Bool.and_eq_true, decide_eq_true_eq] at hk
    intro k hkm
    rcases List.mem_cons.mp hkm with h | h
    · rw [h]; exact good_norm v ctx hg.1 hk.1.2
    · exact goods_norm vs ctx hg.2 hk.2 k h
end

mutual
theorem flat_norm : ∀ (v : Variant) (ctx : Ctx), Good ctx v → wellKeyed v = true → ∀ x, x ∈ flat v.norm ↔ x ∈ flat v
  | .mk key id uid name type arches paths rel kids, ctx, hg, hk, x => by
    have hen := entry_norm ctx (.mk key id uid name type arches paths rel kids) hg
    have hg' := hg
    simp only [Good] at hg'
    have hk' := hk
    simp only [wellKeyed, Bool.and_eq_true, decide_eq_true_eq] at hk'
    have ih := flats_norm kids _ hg'.2.2.2 hk'.2
    simp only [Variant.norm] at hen ⊢
    simp only [flat, hen, List.mem_append, List.mem_singleton, mem_flats]
    constructor
    · rintro (⟨w, hw, hx⟩ | h)
      · obtain ⟨k, hkm, rfl⟩ := (mem_pick_norms hk'.1).mp hw
        exact .inl ⟨k, hkm, (ih k hkm x).mp hx⟩
      · exact .inr h
    · rintro (⟨k, hkm, hx⟩ | h)
      · exact .inl ⟨k.norm, (mem_pick_norms hk'.1).mpr ⟨k, hkm, rfl⟩, (ih k hkm x).mpr hx⟩
      · exact .inr h
theorem flats_norm : ∀ (vs : List Variant) (ctx : Ctx), GoodL ctx vs → wellKeyedL vs = true →
    ∀ k ∈ vs, ∀ x, x ∈ flat k.norm ↔ x ∈ flat k
  | [], _, _, _ => by intro k hk; cases hk
  | v :: vs, ctx, hg, hk => by
    simp only [GoodL] at hg
    simp only [wellKeyedL, Bool.and_eq_true, decide_eq_true_eq] at hk
    intro k hkm
    rcases List.mem_cons.mp hkm with h | h
    · rw [h]; exact flat_norm v ctx hg.1 hk.1.2
    · exact flats_norm vs ctx hg.2 hk.2 k h
end

/-! ### the top-level container of the normal form -/
theorem mem_normTop {top : List Variant} (hn : (top.map Variant.uid).Nodup) {w : Variant} :
    w ∈ normTop top ↔ ∃ t ∈ top, w = t.norm := by
  simp only [normTop, List.mem_filterMap]
  constructor
  · rintro ⟨u, _, hu⟩
    rw [findUid_norms] at hu
    cases h : findUid u top with
    | none => simp [h] at hu
    | some t => simp [h] at hu; exact ⟨t, (findUid_some h).1, hu.symm⟩
  · rintro ⟨t, ht, rfl⟩
    refine ⟨t.uid, mem_sortDedup.mpr (List.mem_map.mpr ⟨t, ht, rfl⟩), ?_⟩
    obtain ⟨w, hw⟩ := findUid_of_mem (List.mem_map.mpr ⟨t, ht, rfl⟩)
    have hw' := findUid_some hw
    rw [findUid_norms, hw, inj_of_nodup_map Variant.uid hn hw'.1 ht hw'.2]
    rfl

theorem normTop_keys (top : List Variant) (hids : (top.map Variant.id).Nodup) (hn : (top.map Variant.uid).Nodup) :
    ((normTop top).map Variant.key).Nodup ∧ ∀ x, x ∈ (normTop top).map Variant.key ↔ x ∈ top.map Variant.id := by
  constructor
  · unfold normTop
    apply nodup_filterMap_key _ (sortDedup_nodup _)
    intro u1 _ u2 _ w1 w2 h1 h2 hkey
    rw [findUid_norms] at h1 h2
    cases ht1 : findUid u1 top with
    | none => simp [ht1] at h1
    | some t1 =>
      cases ht2 : findUid u2 top with
      | none => simp [ht2] at h2
      | some t2 =>
        simp [ht1] at h1
        simp [ht2] at h2
        subst h1 h2
        simp only [norm_key] at hkey
        have e1 := findUid_some ht1
        have e2 := findUid_some ht2
        have := inj_of_nodup_map Variant.id hids e1.1 e2.1 hkey
        rw [← e1.2, ← e2.2, this]
  · intro x
    simp only [List.mem_map]
    constructor
    · rintro ⟨w, hw, rfl⟩
      obtain ⟨t, ht, rfl⟩ := (mem_normTop hn).mp hw
      exact ⟨t, ht, by simp⟩
    · rintro ⟨t, ht, rfl⟩
      exact ⟨t.norm, (mem_normTop hn).mpr ⟨t, ht, rfl⟩, by simp⟩

theorem kidsView_normTop (top : List Variant) (hids : (top.map Variant.id).Nodup) (hkey : ∀ t ∈ top, t.key = t.id)
    (hn : (top.map Variant.uid).Nodup) : kidsView true (normTop top) = kidsView true top := by
  have hk := normTop_keys top hids hn
  have hkeys : top.map Variant.key = top.map Variant.id := List.map_congr_left hkey
  unfold kidsView byKeys
  rw [sortDedup_congr (l₂ := top.map Variant.key) (fun x => by rw [hk.2 x, hkeys])]
  congr 1
  rw [List.map_filterMap, List.map_filterMap]
  apply filterMap_congr'
  intro k hkm
  have hkm' : k ∈ top.map Variant.key := mem_sortDedup.mp hkm
  obtain ⟨t, ht⟩ := findKey_of_mem hkm'
  have ht' := findKey_some ht
  have hkn : k ∈ (normTop top).map Variant.key := by rw [hk.2 k, ← hkeys]; exact hkm'
  obtain ⟨w, hw⟩ := findKey_of_mem hkn
  have hw' := findKey_some hw
  obtain ⟨t2, ht2, rfl⟩ := (mem_normTop hn).mp hw'.1
  have : t2 = t := by
    apply inj_of_nodup_map Variant.id hids ht2 ht'.1
    rw [← hkey t ht'.1, ht'.2]
    simpa using hw'.2
  subst this
  rw [ht, hw]
  simp [hkey t2 ht2]

/-- `Variants.serialize` on the normal form produces the same dict -/
theorem variantsSer_norm (top : List Variant) (d : Flat) (h : variantsSer top = .ok d)
    (hk : wellKeyedTop top = true) (hu : (uidsL top).Nodup) : variantsSer (normTop top) = .ok d := by
  unfold variantsSer at h
  split at h
  · cases h
  · rename_i hcont
    simp only [wellKeyedTop, Bool.and_eq_true, decide_eq_true_eq] at hk
    obtain ⟨hids, hkl⟩ := hk
    have hkeyid : ∀ t ∈ top, t.key = t.id := fun t ht => (wellKeyedL_mem hkl t ht).1
    have hkeys : (top.map Variant.key).Nodup := by rw [List.map_congr_left hkeyid]; exact hids
    have hnu : (top.map Variant.uid).Nodup := (roots_sublist top).nodup hu
    obtain ⟨hgood, hs, _, hall, honly⟩ := sers_spec (byKeys top) none [] d h (by simp [FSorted])
    have hgoodt : ∀ t ∈ top, Good none t := fun t ht => GoodL_mem hgood t ((mem_byKeys hkeys).mpr ht)
    have hd : ∀ x, x ∈ d ↔ ∃ t ∈ top, x ∈ flat t := by
      intro x
      constructor
      · intro hx
        rcases honly x hx with h | h
        · cases h
        · obtain ⟨t, ht, hxt⟩ := mem_flats.mp h
          exact ⟨t, (mem_byKeys hkeys).mp ht, hxt⟩
      · rintro ⟨t, ht, hxt⟩
        exact hall x (mem_flats.mpr ⟨t, (mem_byKeys hkeys).mpr ht, hxt⟩)
    have hnk := normTop_keys top hids hnu
    -- the entries of the normal form are the entries of the forest
    have hd' : ∀ x, x ∈ flats (byKeys (normTop top)) ↔ x ∈ d := by
      intro x
      rw [mem_flats, hd]
      constructor
      · rintro ⟨w, hw, hx⟩
        obtain ⟨t, ht, rfl⟩ := (mem_normTop hnu).mp ((mem_byKeys hnk.1).mp hw)
        exact ⟨t, ht, (flat_norm t none (hgoodt t ht) (wellKeyedL_mem hkl t ht).2 x).mp hx⟩
      · rintro ⟨t, ht, hx⟩
        exact ⟨t.norm, (mem_byKeys hnk.1).mpr ((mem_normTop hnu).mpr ⟨t, ht, rfl⟩),
          (flat_norm t none (hgoodt t ht) (wellKeyedL_mem hkl t ht).2 x).mpr hx⟩
    have hgood' : GoodL none (byKeys (normTop top)) := by
      apply GoodL_of_forall
      intro w hw
      obtain ⟨t, ht, rfl⟩ := (mem_normTop hnu).mp ((mem_byKeys hnk.1).mp hw)
      exact good_norm t none (hgoodt t ht) (wellKeyedL_mem hkl t ht).2
    obtain ⟨d', hd'ok⟩ := sers_complete (byKeys (normTop top)) none [] hgood' (by simp [FSorted])
      (hs.func.mono (fun x hx => by simpa using (hd' x).mp (by simpa using hx)))
    obtain ⟨_, hs', _, hall', honly'⟩ := sers_spec (byKeys (normTop top)) none [] d' hd'ok (by simp [FSorted])
    have : d' = d := by
      apply flat_ext hs' hs
      intro x
      constructor
      · intro hx
        rcases honly' x hx with h | h
        · cases h
        · exact (hd' x).mp h
      · intro hx
        exact hall' x ((hd' x).mpr hx)
    subst this
    unfold variantsSer
    have hc : containerObj (normTop top) = containerObj top := by
      unfold containerObj
      rw [kidsView_normTop top hids hkeyid hnu]
    rw [hc, hcont]
    exact hd'ok

end PM.CI
