import ProductMD.Proofs.TreeInfoStr
import ProductMD.Model.DiscInfo
/-!
discinfo: the four lines through `"\\n".join` / `readlines()`, and the comma list of disc numbers through
`str(int)` / `split(",")` / `int(str)`.
-/
namespace PM
namespace DI
open Str TI

/-! ### decimal strings -/

theorem intStr_chars (x : Int) : intStr x ≠ [] ∧ (∀ c ∈ intStr x, Dec.IsDig c ∨ c = '-') ∧
    (∀ i c, intStr x = i ++ [c] → Dec.IsDig c) := by
  cases x with
  | ofNat n =>
    obtain ⟨hne, hdig, _, _⟩ := Dec.natStr_spec n
    exact ⟨hne, fun c hc => Or.inl (hdig c hc), fun i c e => hdig c (by show c ∈ natStr n; rw [show natStr n = i ++ [c] from e]; simp)⟩
  | negSucc n =>
    obtain ⟨hne, hdig, _, _⟩ := Dec.natStr_spec (n + 1)
    refine ⟨by simp [intStr], ?_, ?_⟩
    · intro c hc
      simp only [intStr, List.mem_cons] at hc
      rcases hc with hc | hc
      · exact Or.inr hc
      · exact Or.inl (hdig c hc)
    · intro i c e
      simp only [intStr] at e
      cases i with
      | nil => simp at e; exact absurd e.2 hne
      | cons a r =>
        simp only [List.cons_append, List.cons.injEq] at e
        exact hdig c (by rw [e.2]; simp)

theorem not_space_of_intStr_char {c : Char} (h : Dec.IsDig c ∨ c = '-') : isPySpace c = false := by
  rcases h with h | h
  · exact digit_not_space h
  · subst h; decide

theorem not_comma_of_intStr_char {c : Char} (h : Dec.IsDig c ∨ c = '-') : c ≠ ',' := by
  rcases h with h | h
  · exact h.ne (by decide)
  · subst h; decide

/-! ### joins -/

theorem joinWith_ne_nil (sep : Char) : ∀ l : List Str, l ≠ [] → (∀ x ∈ l, x ≠ []) → joinWith sep l ≠ []
  | [], h, _ => absurd rfl h
  | [x], _, h => by simpa [joinWith] using h x (by simp)
  | x :: y :: r, _, h => by
    have : joinWith sep (x :: y :: r) = x ++ sep :: joinWith sep (y :: r) := rfl
    rw [this]; simp

theorem joinWith_head (sep : Char) (P : Char → Prop) : ∀ l : List Str, (∀ x ∈ l, ∀ c t, x = c :: t → P c) →
    (∀ x ∈ l, x ≠ []) → ∀ c t, joinWith sep l = c :: t → P c
  | [], _, _, c, t, e => by simp [joinWith] at e
  | [x], h, _, c, t, e => h x (by simp) c t (by simpa [joinWith] using e)
  | x :: y :: r, h, hne, c, t, e => by
    have : joinWith sep (x :: y :: r) = x ++ sep :: joinWith sep (y :: r) := rfl
    rw [this] at e
    cases hx : x with
    | nil => exact absurd hx (hne x (by simp))
    | cons a b =>
      rw [hx] at e
      simp only [List.cons_append, List.cons.injEq] at e
      exact h x (by simp) c b (by rw [hx, e.1])

theorem last_of_append {α} {a b i : List α} {c c' : α} {j : List α} (hb : b = j ++ [c']) (e : a ++ b = i ++ [c]) : c = c' := by
  rw [hb, ← List.append_assoc] at e
  have := congrArg List.getLast? e
  simpa using this.symm

theorem joinWith_last (sep : Char) (P : Char → Prop) : ∀ l : List Str, (∀ x ∈ l, ∀ i c, x = i ++ [c] → P c) →
    (∀ x ∈ l, x ≠ []) → ∀ i c, joinWith sep l = i ++ [c] → P c
  | [], _, _, i, c, e => by simp [joinWith] at e
  | [x], h, _, i, c, e => h x (by simp) i c (by simpa [joinWith] using e)
  | x :: y :: r, h, hne, i, c, e => by
    have : joinWith sep (x :: y :: r) = x ++ sep :: joinWith sep (y :: r) := rfl
    rw [this] at e
    have hne' := joinWith_ne_nil sep (y :: r) (by simp) (fun z hz => hne z (List.mem_cons_of_mem _ hz))
    obtain ⟨j, c', hj⟩ : ∃ j c', joinWith sep (y :: r) = j ++ [c'] := by
      rcases List.eq_nil_or_concat (joinWith sep (y :: r)) with h0 | ⟨j, c', h0⟩
      · exact absurd h0 hne'
      · exact ⟨j, c', by simpa using h0⟩
    have hc : c = c' := last_of_append (a := x) (b := sep :: joinWith sep (y :: r)) (j := sep :: j) (by rw [hj]; simp) e
    rw [hc]
    exact joinWith_last sep P (y :: r) (fun z hz => h z (List.mem_cons_of_mem _ hz))
      (fun z hz => hne z (List.mem_cons_of_mem _ hz)) j c' hj

theorem mapMInt_intStr : ∀ ns : List Int, mapMInt (ns.map intStr) = .ok ns
  | [] => rfl
  | n :: ns => by simp [mapMInt, pyInt_intStr, mapMInt_intStr ns]

/-- the comma list of disc numbers reads back, for every non-empty list of integers -/
theorem discs_roundtrip (ns : List Int) (hne : ns ≠ []) :
    let dn := Str.strip (joinWith ',' (ns.map intStr))
    dn.isEmpty = false ∧ (dn == "ALL".toList) = false ∧ mapMInt (splitOn ',' dn) = .ok ns ∧
      dn = joinWith ',' (ns.map intStr) := by
  have hl : ns.map intStr ≠ [] := by simpa using hne
  have hne' : ∀ x ∈ ns.map intStr, x ≠ [] := by
    intro x hx; obtain ⟨n, _, rfl⟩ := List.mem_map.mp hx; exact (intStr_chars n).1
  have hjne := joinWith_ne_nil ',' _ hl hne'
  have hhead := joinWith_head ',' (fun c => Dec.IsDig c ∨ c = '-') (ns.map intStr) (by
    intro x hx c t e
    obtain ⟨n, _, rfl⟩ := List.mem_map.mp hx
    exact (intStr_chars n).2.1 c (by rw [e]; simp)) hne'
  have hlast := joinWith_last ',' (fun c => Dec.IsDig c) (ns.map intStr) (by
    intro x hx i c e
    obtain ⟨n, _, rfl⟩ := List.mem_map.mp hx
    exact (intStr_chars n).2.2 i c e) hne'
  have hstrip : Str.strip (joinWith ',' (ns.map intStr)) = joinWith ',' (ns.map intStr) :=
    strip_of_ends (fun c t e => not_space_of_intStr_char (hhead c t e)) (fun i c e => digit_not_space (hlast i c e))
  simp only [hstrip]
  refine ⟨?_, ?_, ?_, trivial⟩
  · cases hj : joinWith ',' (ns.map intStr) with
    | nil => exact absurd hj hjne
    | cons _ _ => rfl
  · cases hj : joinWith ',' (ns.map intStr) with
    | nil => exact absurd hj hjne
    | cons c t =>
      have := hhead c t hj
      simp only [beq_eq_false_iff_ne, ne_eq]
      intro e
      have hc : c = 'A' := by
        have := congrArg List.head? e
        simpa using this
      subst hc
      rcases this with h | h
      · exact absurd rfl (h.ne (by decide))
      · revert h; decide
  · rw [splitOn_joinWith ',' _ hl (by
      intro x hx hc
      obtain ⟨n, _, rfl⟩ := List.mem_map.mp hx
      exact not_comma_of_intStr_char ((intStr_chars n).2.1 ',' hc) rfl)]
    exact mapMInt_intStr ns

/-! ### the four lines through the text -/

theorem fileLines_join (lines : List Str) (hne : lines ≠ []) (hnl : ∀ l ∈ lines, '\n' ∉ l)
    (hlast : ∀ l, lines.getLast? = some l → l ≠ []) : IniParse.fileLines (joinWith '\n' lines) = lines := by
  unfold IniParse.fileLines
  rw [splitOn_joinWith '\n' lines hne hnl]
  have hno : ¬ lines.getLast? = some [] := fun e => hlast [] e rfl
  have : (lines.getLast? == some ([] : Str)) = false := by
    simp only [beq_eq_false_iff_ne, ne_eq]; exact hno
  simp [this]

theorem mem_joinWith (sep : Char) : ∀ (l : List Str) (c : Char), c ∈ joinWith sep l → c = sep ∨ ∃ x ∈ l, c ∈ x
  | [], c, h => by simp [joinWith] at h
  | [x], c, h => Or.inr ⟨x, by simp, by simpa [joinWith] using h⟩
  | x :: y :: r, c, h => by
    have : joinWith sep (x :: y :: r) = x ++ sep :: joinWith sep (y :: r) := rfl
    rw [this] at h
    simp only [List.mem_append, List.mem_cons] at h
    rcases h with h | h | h
    · exact Or.inr ⟨x, by simp, h⟩
    · exact Or.inl h
    · rcases mem_joinWith sep (y :: r) c h with h' | ⟨z, hz, hc⟩
      · exact Or.inl h'
      · exact Or.inr ⟨z, List.mem_cons_of_mem _ hz, hc⟩

theorem discs_line_no_nl (ns : List Int) : '\n' ∉ joinWith ',' (ns.map intStr) := by
  intro h
  rcases mem_joinWith ',' _ _ h with h' | ⟨x, hx, hc⟩
  · cases h'
  · obtain ⟨n, _, rfl⟩ := List.mem_map.mp hx
    rcases (intStr_chars n).2.1 _ hc with h1 | h1
    · exact h1.ne (by decide) rfl
    · cases h1

end DI
end PM
