import ProductMD.Model.Regex
/-! Unfolding lemmas for the matcher and the basic structural facts: results are suffixes,
groups do not change the search. Core Lean only. -/
namespace PM

@[simp] theorem m_eps (f s) : m f .eps s = [s] := rfl
@[simp] theorem m_bol (f s) : m f .bol s = [s] := rfl
theorem m_eol (f s) : m f .eol s = if isEol s then [s] else [] := rfl
@[simp] theorem m_bad (f s) : m f .bad s = [] := rfl
@[simp] theorem m_cls_nil (f k) : m f (.cls k) [] = [] := rfl
theorem m_cls_cons (f k c cs) : m f (.cls k) (c :: cs) = if k.mem c then [cs] else [] := rfl
theorem m_cat (f a b s) : m f (.cat a b) s = (m f a s).flatMap (m f b) := rfl
theorem m_alt (f a b s) : m f (.alt a b) s = m f a s ++ m f b s := rfl
@[simp] theorem m_grp (f n a s) : m f (.grp n a) s = m f a s := rfl
theorem m_star (f a s) : m f (.star a) s = starAux (m f a) f s := rfl
@[simp] theorem starAux_zero (body s) : starAux body 0 s = [s] := rfl
theorem starAux_succ (body f s) : starAux body (f+1) s =
    ((body s).filter (fun s' => s'.length < s.length)).flatMap (starAux body f) ++ [s] := rfl

@[simp] theorem cost_eps (f s) : cost f .eps s = 1 := rfl
@[simp] theorem cost_bol (f s) : cost f .bol s = 1 := rfl
@[simp] theorem cost_eol (f s) : cost f .eol s = 1 := rfl
@[simp] theorem cost_bad (f s) : cost f .bad s = 1 := rfl
@[simp] theorem cost_cls (f k s) : cost f (.cls k) s = 1 := rfl
theorem cost_cat (f a b s) : cost f (.cat a b) s = 1 + cost f a s + ((m f a s).map (cost f b)).sum := rfl
theorem cost_alt (f a b s) : cost f (.alt a b) s = 1 + cost f a s + cost f b s := rfl
@[simp] theorem cost_grp (f n a s) : cost f (.grp n a) s = cost f a s := rfl
theorem cost_star (f a s) : cost f (.star a) s = starCost (m f a) (cost f a) f s := rfl
@[simp] theorem starCost_zero (body bc s) : starCost body bc 0 s = 1 := rfl
theorem starCost_succ (body bc f s) : starCost body bc (f+1) s = 1 + bc s +
    (((body s).filter (fun s' => s'.length < s.length)).map (starCost body bc f)).sum := rfl

/-- results of an iteration are no longer than the input, whatever the body -/
theorem starAux_length_le (body : Str → List Str) : ∀ (f : Nat) (s s' : Str),
    s' ∈ starAux body f s → s'.length ≤ s.length := by
  intro f
  induction f with
  | zero => intro s s' h; simp at h; simp [h]
  | succ f ihf =>
    intro s s' h
    rw [starAux_succ] at h
    rcases List.mem_append.mp h with h | h
    · rcases List.mem_flatMap.mp h with ⟨t, ht, hs'⟩
      have ht' := (List.mem_filter.mp ht).2
      have := ihf t s' hs'
      simp at ht'
      omega
    · simp at h; simp [h]

/-- every result of the matcher is no longer than the input -/
theorem m_length_le : ∀ (r : Re) (f : Nat) (s s' : Str), s' ∈ m f r s → s'.length ≤ s.length := by
  intro r
  induction r with
  | eps => intro f s s' h; simp at h; simp [h]
  | bol => intro f s s' h; simp at h; simp [h]
  | eol => intro f s s' h; rw [m_eol] at h; split at h <;> simp at h; simp [h]
  | bad => intro f s s' h; simp at h
  | cls k =>
    intro f s s' h
    cases s with
    | nil => simp [m_cls_nil] at h
    | cons c cs =>
      rw [m_cls_cons] at h
      split at h <;> simp at h
      simp [h]
  | cat a b iha ihb =>
    intro f s s' h
    rw [m_cat] at h
    rcases List.mem_flatMap.mp h with ⟨t, ht, hs'⟩
    exact Nat.le_trans (ihb f t s' hs') (iha f s t ht)
  | alt a b iha ihb =>
    intro f s s' h
    rw [m_alt] at h
    rcases List.mem_append.mp h with h | h
    · exact iha f s s' h
    · exact ihb f s s' h
  | grp n a iha => intro f s s' h; simp at h; exact iha f s s' h
  | star a _ => intro f s s' h; rw [m_star] at h; exact starAux_length_le _ f s s' h

/-- remove capture-group marks -/
def Re.strip : Re → Re
  | .cat a b => .cat a.strip b.strip
  | .alt a b => .alt a.strip b.strip
  | .star a => .star a.strip
  | .grp _ a => a.strip
  | r => r

theorem m_strip : ∀ (r : Re) (f : Nat) (s : Str), m f r.strip s = m f r s := by
  intro r
  induction r with
  | eps | bol | eol | bad | cls => intro f s; rfl
  | cat a b iha ihb =>
    intro f s
    simp only [Re.strip, m_cat, iha]
    congr 1; funext t; exact ihb f t
  | alt a b iha ihb => intro f s; simp only [Re.strip, m_alt, iha, ihb]
  | grp n a iha => intro f s; simp only [Re.strip, m_grp, iha]
  | star a iha =>
    intro f s
    simp only [Re.strip, m_star]
    have : m f a.strip = m f a := by funext t; exact iha f t
    rw [this]

theorem cost_strip : ∀ (r : Re) (f : Nat) (s : Str), cost f r.strip s = cost f r s := by
  intro r
  induction r with
  | eps | bol | eol | bad | cls => intro f s; rfl
  | cat a b iha ihb =>
    intro f s
    simp only [Re.strip, cost_cat, iha, m_strip]
    congr 3; funext t; exact ihb f t
  | alt a b iha ihb => intro f s; simp only [Re.strip, cost_alt, iha, ihb]
  | grp n a iha => intro f s; simp only [Re.strip, cost_grp, iha]
  | star a iha =>
    intro f s
    simp only [Re.strip, cost_star]
    have h1 : m f a.strip = m f a := by funext t; exact m_strip a f t
    have h2 : cost f a.strip = cost f a := by funext t; exact iha f t
    rw [h1, h2]

end PM
