import ProductMD.Proofs.C05TIDownNew
/-!
C05, treeinfo down-conversion to ≤ 0.3: the options of a variant section after the conversion (`conv_lookup`: renaming of
option names, source-tree swap) and the `option_lookup` chain of the ≤ 0.3 path reader on a file where the other candidate
section names are not sections (`pathVals03_chain`, `paths_swapped`).
-/
namespace PM.TI
open Ini
set_option Elab.async false

/-! ### options of a variant section after the ≤ 0.3 conversion -/

/-- the conversion of one option, as a renaming of its name (`none`: dropped) -/
def rho (src : Bool) (ck : Str) (k : Str) : Option Str :=
  if k == kParent then none
  else if k == kAddons then some ck
  else if src && k == kSourcePackages' then some kPackages'
  else if src && k == kSourceRepository' then some kRepository
  else some k

theorem downVarOpt_eq (src : Bool) (ck : Str) (kv : Str × Str) : downVarOpt src ck kv = (rho src ck kv.1).map fun k => (k, kv.2) := by
  unfold downVarOpt rho
  repeat' split
  all_goals rfl

theorem lookup_rename (r : Str → Option Str) (k k' : Str) (hk : r k = some k') : ∀ o : IniSec,
    (∀ j ∈ o.map (·.1), r j = some k' → j = k) →
    (o.filterMap fun kv => (r kv.1).map fun x => (x, kv.2)).lookup k' = o.lookup k
  | [], _ => rfl
  | (j, v) :: o, h => by
    have ih := lookup_rename r k k' hk o (fun x hx => h x (List.mem_cons_of_mem _ hx))
    simp only [List.filterMap_cons]
    cases hr : r j with
    | none =>
      have : j ≠ k := by intro e; rw [e, hk] at hr; cases hr
      simp only [Option.map_none]
      rw [ih, lookup_cons_eq, if_neg this]
    | some x =>
      simp only [Option.map_some]
      rw [lookup_cons_eq, lookup_cons_eq]
      by_cases e : x = k'
      · have : j = k := h j (by simp) (by rw [hr, e])
        rw [if_pos e, if_pos this]
      · have : j ≠ k := by intro e'; rw [e', hk] at hr; injection hr with hr; exact e hr.symm
        rw [if_neg e, if_neg this, ih]

theorem lookup_rename_none (r : Str → Option Str) (k' : Str) : ∀ o : IniSec,
    (∀ j ∈ o.map (·.1), r j ≠ some k') →
    (o.filterMap fun kv => (r kv.1).map fun x => (x, kv.2)).lookup k' = none
  | [], _ => rfl
  | (j, v) :: o, h => by
    have ih := lookup_rename_none r k' o (fun x hx => h x (List.mem_cons_of_mem _ hx))
    simp only [List.filterMap_cons]
    cases hr : r j with
    | none => simp only [Option.map_none]; exact ih
    | some x =>
      simp only [Option.map_some]
      have : x ≠ k' := by intro e; exact h j (by simp) (by rw [hr, e])
      rw [lookup_cons_eq, if_neg this, ih]

theorem filterMap_downVarOpt (src : Bool) (ck : Str) (o : IniSec) :
    o.filterMap (downVarOpt src ck) = o.filterMap fun kv => (rho src ck kv.1).map fun x => (x, kv.2) := by
  congr 1; funext kv; exact downVarOpt_eq src ck kv

/-- the option names of a variant's section -/
def varKeys : List Str := [kId, kUid, kName, kType, kParent, kAddons]

theorem varOpts_keys (pu : Option Str) (w : Variant) : ∀ k ∈ (varOpts pu w).map (·.1), k ∈ varKeys ∨ k ∈ Gen.TREEINFO_PATH_FIELDS := by
  intro k hk
  by_cases hf : k ∈ Gen.TREEINFO_PATH_FIELDS
  · exact Or.inr hf
  left
  have hs := lookup_isSome_of_mem_keys hk
  obtain ⟨key, id, uid, name, type, paths, kids⟩ := w
  unfold varOpts at hs
  have hb : ((baseOpts pu id uid name type paths).lookup k).isSome → k ∈ varKeys := by
    rw [baseOpts_lookup, tailOpts_lookup_other pu paths k hf, four_lookup]
    intro h
    simp only [varKeys, List.mem_cons, List.not_mem_nil, or_false]
    cases pu with
    | none =>
      simp only at h
      repeat' split at h
      all_goals first | (simp_all; done) | (subst_vars; simp)
    | some p =>
      simp only at h
      repeat' split at h
      all_goals first | (simp_all; done) | (subst_vars; simp)
  dsimp only at hs
  cases he : kids.isEmpty with
  | true => rw [he] at hs; exact hb (by simpa using hs)
  | false =>
    rw [he] at hs
    simp only [Bool.false_eq_true, if_false, lookup_setKV] at hs
    by_cases e : kAddons = k
    · subst e; simp [varKeys]
    · rw [if_neg e] at hs; exact hb hs
end PM.TI

namespace PM.TI
open Ini
set_option Elab.async false

def kVariantsK : Str := kVariants

/-- what a ≤ 0.3 reader finds under path option `f` of a variant's own section -/
def srcKey (f : Str) : Option Str :=
  if f = kPackages' then some kSourcePackages'
  else if f = kRepository then some kSourceRepository'
  else if f = kSourcePackages' ∨ f = kSourceRepository' then none
  else some f

def srcView (src : Bool) (paths : List (Str × Str)) (f : Str) : Option Str :=
  if src then (srcKey f).bind fun k => paths.lookup k else paths.lookup f

/-- on a source tree the ≤ 0.3 format has no place for binary package paths -/
def SrcRepresentable (src : Bool) (paths : List (Str × Str)) : Prop :=
  src = true → paths.lookup kPackages' = none ∧ paths.lookup kRepository = none

theorem mem_keys_of_isSome {o : IniSec} {k : Str} (h : (o.lookup k).isSome) : k ∈ o.map (·.1) := by
  cases hl : o.lookup k with
  | none => rw [hl] at h; cases h
  | some v => exact mem_keys_of_lookup_some hl

def allKeys : List Str := varKeys ++ Gen.TREEINFO_PATH_FIELDS

/-- among the option names a section can have, leaving out `ex`, only `k` is renamed to `k'` -/
def uniq (src : Bool) (ck : Str) (ex : List Str) (k k' : Str) : Bool :=
  allKeys.all fun j => ex.contains j || rho src ck j != some k' || j == k

theorem uniq_spec {src : Bool} {ck : Str} {ex : List Str} {k k' : Str} (h : uniq src ck ex k k' = true) {o : IniSec}
    (hk : ∀ j ∈ o.map (·.1), j ∈ allKeys) (hex : ∀ j ∈ ex, j ∉ o.map (·.1)) :
    ∀ j ∈ o.map (·.1), rho src ck j = some k' → j = k := by
  intro j hj hr
  have := List.all_eq_true.mp h j (hk j hj)
  simp only [Bool.or_eq_true, bne_iff_ne, ne_eq, beq_iff_eq] at this
  rcases this with (h1 | h2) | h3
  · exact absurd hj (hex j (by simpa using h1))
  · exact absurd hr h2
  · exact h3

def noneTo (src : Bool) (ck : Str) (ex : List Str) (k' : Str) : Bool :=
  allKeys.all fun j => ex.contains j || rho src ck j != some k'

theorem noneTo_spec {src : Bool} {ck : Str} {ex : List Str} {k' : Str} (h : noneTo src ck ex k' = true) {o : IniSec}
    (hk : ∀ j ∈ o.map (·.1), j ∈ allKeys) (hex : ∀ j ∈ ex, j ∉ o.map (·.1)) :
    ∀ j ∈ o.map (·.1), rho src ck j ≠ some k' := by
  intro j hj
  have := List.all_eq_true.mp h j (hk j hj)
  simp only [Bool.or_eq_true, bne_iff_ne, ne_eq] at this
  rcases this with h1 | h2
  · exact absurd hj (hex j (by simpa using h1))
  · exact h2

def srcTbl (ck : Str) (ex : List Str) (f : Str) : Bool :=
  match srcKey f with
  | some k => Gen.TREEINFO_PATH_FIELDS.contains k && uniq true ck ex k f && (rho true ck k == some f)
  | none => noneTo true ck ex f

def exOf (src : Bool) : List Str := if src then [kPackages', kRepository] else []

theorem conv_lookup (src : Bool) (ck : Str) (hck : ck = kAddons ∨ ck = kVariants) (pu : Option Str)
    (key id uid name type : Str) (paths : List (Str × Str)) (kids : List Variant) (hsrc : SrcRepresentable src paths) :
    let o' := (varOpts pu (.mk key id uid name type paths kids)).filterMap (downVarOpt src ck)
    o'.lookup kId = some id ∧ o'.lookup kUid = some uid ∧ o'.lookup kName = some name ∧ o'.lookup kType = some type ∧
    o'.lookup ck = (if kids.isEmpty then none else some (Str.joinWith ',' (Str.sortDedup (kids.map Variant.uid)))) ∧
    (ck = kVariants → o'.lookup kAddons = none) ∧ (ck = kAddons → o'.lookup kVariants = none) ∧
    (∀ f ∈ Gen.TREEINFO_PATH_FIELDS, o'.lookup f = srcView src paths f) := by
  intro o'
  obtain ⟨l1, l2, l3, l4, l5, l6, l7⟩ := varOpts_lookup pu key id uid name type paths kids
  have hkeys := varOpts_keys pu (.mk key id uid name type paths kids)
  have e : o' = (varOpts pu (.mk key id uid name type paths kids)).filterMap fun kv => (rho src ck kv.1).map fun x => (x, kv.2) :=
    filterMap_downVarOpt src ck _
  have allk : ∀ j ∈ (varOpts pu (.mk key id uid name type paths kids)).map (·.1), j ∈ allKeys :=
    fun j hj => List.mem_append.mpr (hkeys j hj)
  -- the names left out: on a source tree `packages` / `repository` are not option names
  have hex : ∀ j ∈ exOf src, j ∉ (varOpts pu (.mk key id uid name type paths kids)).map (·.1) := by
    intro j hj hm
    cases hs : src with
    | false => simp [exOf, hs] at hj
    | true =>
      have := lookup_isSome_of_mem_keys hm
      simp only [exOf, hs, if_true, List.mem_cons, List.not_mem_nil, or_false] at hj
      rcases hj with rfl | rfl
      · rw [l5 _ (by decide), (hsrc hs).1] at this; cases this
      · rw [l5 _ (by decide), (hsrc hs).2] at this; cases this
  have U : ∀ k k', uniq src ck (exOf src) k k' = true → rho src ck k = some k' →
      (List.filterMap (fun kv => (rho src ck kv.1).map fun x => (x, kv.2)) (varOpts pu (.mk key id uid name type paths kids))).lookup k'
        = (varOpts pu (.mk key id uid name type paths kids)).lookup k :=
    fun k k' hu hr => lookup_rename _ k k' hr _ (uniq_spec hu allk hex)
  have N : ∀ k', noneTo src ck (exOf src) k' = true →
      (List.filterMap (fun kv => (rho src ck kv.1).map fun x => (x, kv.2)) (varOpts pu (.mk key id uid name type paths kids))).lookup k' = none :=
    fun k' hn => lookup_rename_none _ k' _ (noneTo_spec hn allk hex)
  rw [e]
  clear e hex allk hkeys hsrc
  have F := C04_tables_documented.1
  rcases hck with rfl | rfl <;> cases src <;>
  · refine ⟨?_, ?_, ?_, ?_, ?_, ?_, ?_, ?_⟩
    · rw [U kId kId (by decide) (by decide), l1]
    · rw [U kUid kUid (by decide) (by decide), l2]
    · rw [U kName kName (by decide) (by decide), l3]
    · rw [U kType kType (by decide) (by decide), l4]
    · rw [U kAddons _ (by decide) (by decide), l7]
    · intro h; first | exact N _ (by decide) | exact absurd h (by decide)
    · intro h; first | exact N _ (by decide) | exact absurd h (by decide)
    · intro f hf
      first
      | (have T : ∀ f ∈ Gen.TREEINFO_PATH_FIELDS, uniq false kAddons (exOf false) f f = true ∧ rho false kAddons f = some f := by decide
         rw [U f f (T f hf).1 (T f hf).2, l5 f hf]; rfl)
      | (have T : ∀ f ∈ Gen.TREEINFO_PATH_FIELDS, uniq false kVariants (exOf false) f f = true ∧ rho false kVariants f = some f := by decide
         rw [U f f (T f hf).1 (T f hf).2, l5 f hf]; rfl)
      | (have T : ∀ f ∈ Gen.TREEINFO_PATH_FIELDS, srcTbl kAddons (exOf true) f = true := by decide
         have Tf := T f hf
         unfold srcTbl at Tf
         simp only [srcView, if_true]
         cases hk : srcKey f with
         | none => rw [hk] at Tf; rw [N f Tf]; rfl
         | some k =>
           rw [hk] at Tf
           simp only [Bool.and_eq_true, List.contains_iff_mem, beq_iff_eq] at Tf
           rw [U k f Tf.1.2 Tf.2, l5 k Tf.1.1]; rfl)
      | (have T : ∀ f ∈ Gen.TREEINFO_PATH_FIELDS, srcTbl kVariants (exOf true) f = true := by decide
         have Tf := T f hf
         unfold srcTbl at Tf
         simp only [srcView, if_true]
         cases hk : srcKey f with
         | none => rw [hk] at Tf; rw [N f Tf]; rfl
         | some k =>
           rw [hk] at Tf
           simp only [Bool.and_eq_true, List.contains_iff_mem, beq_iff_eq] at Tf
           rw [U k f Tf.1.2 Tf.2, l5 k Tf.1.1]; rfl)
end PM.TI

namespace PM.TI
open Ini
set_option Elab.async false

/-! ### the path reader of ≤ 0.3 -/

theorem hasOption_nosec' {d : Ini} (h0 : d.lookup DEFAULT = none) {s : Str} (hs : d.lookup s = none) (k : Str) : hasOption d s k = false := by
  unfold hasOption defaults
  simp [h0, hs]

theorem hasOption_sec' {d : Ini} (h0 : d.lookup DEFAULT = none) {s : Str} {o : IniSec} (hs : d.lookup s = some o)
    (h1 : s.isEmpty = false) (h2 : (s == DEFAULT) = false) (k : Str) : hasOption d s k = (o.lookup k).isSome := by
  unfold hasOption defaults
  simp [h0, hs, h1, h2]

theorem get_sec' {d : Ini} {s : Str} {o : IniSec} (hs : d.lookup s = some o) {k v : Str} (hk : o.lookup k = some v) :
    Ini.get d s k = .ok v := by
  unfold Ini.get; simp [hs, hk]

theorem hasSection_sec' {d : Ini} {s : Str} (h2 : (s == DEFAULT) = false) : hasSection d s = (d.lookup s).isSome := by
  unfold hasSection; simp [bne, h2]

theorem optionLookup_chain {d : Ini} (h0 : d.lookup DEFAULT = none) {own : Str} {o : IniSec} (hown : d.lookup own = some o)
    (h1 : own.isEmpty = false) (h2 : (own == DEFAULT) = false) (f : Str) :
    ∀ cands : List Str, (∀ c ∈ cands, c ≠ own → d.lookup c = none) →
      optionLookup d (cands.map fun c => (c, f)) none = .ok (if own ∈ cands then o.lookup f else none)
  | [], _ => rfl
  | c :: cs, h => by
    have ih := optionLookup_chain h0 hown h1 h2 f cs (fun x hx => h x (List.mem_cons_of_mem _ hx))
    simp only [List.map_cons, optionLookup]
    by_cases e : c = own
    · subst e
      rw [hasOption_sec' h0 hown h1 h2]
      cases hl : o.lookup f with
      | none => simp [ih, hl]
      | some v => simp [get_sec' hown hl, Except.map]
    · rw [hasOption_nosec' h0 (h c (List.mem_cons_self ..) e)]
      have : (own ∈ c :: cs) ↔ own ∈ cs := by
        constructor
        · intro hm
          rcases List.mem_cons.mp hm with h' | h'
          · exact absurd h'.symm e
          · exact h'
        · exact List.mem_cons_of_mem _
      simp [ih, this]

theorem pathVals03_chain {d : Ini} (h0 : d.lookup DEFAULT = none) (id uid : Str) {own : Str} {o : IniSec} (hown : d.lookup own = some o)
    (h1 : own.isEmpty = false) (h2 : (own == DEFAULT) = false)
    (hmem : own ∈ [pVariant ++ uid, pVariant ++ id, pAddon ++ uid, pAddon ++ id])
    (hoth : ∀ c ∈ [pVariant ++ uid, pVariant ++ id, pAddon ++ uid, pAddon ++ id], c ≠ own → d.lookup c = none) :
    ∀ fs : List Str, Legacy.pathVals03 d id uid fs = .ok (fs.map fun f => (f, o.lookup f))
  | [] => rfl
  | f :: fs => by
    have := optionLookup_chain h0 hown h1 h2 f _ hoth
    simp only [List.map_cons, List.map_nil, hmem, if_true] at this
    simp only [Legacy.pathVals03, this, pathVals03_chain h0 id uid hown h1 h2 hmem hoth fs, List.map_cons]

theorem swap_core (a b c d e : Option Str) :
    Legacy.valsToPaths (Legacy.srcSwap [("packages".toList, a), ("repository".toList, b), ("source_packages".toList, none),
      ("source_repository".toList, none), ("debug_packages".toList, c), ("debug_repository".toList, d), ("identity".toList, e)])
    = Legacy.valsToPaths [("packages".toList, none), ("repository".toList, none), ("source_packages".toList, a),
      ("source_repository".toList, b), ("debug_packages".toList, c), ("debug_repository".toList, d), ("identity".toList, e)] := by
  cases a <;> cases b <;> cases c <;> cases d <;> cases e <;> rfl

theorem paths_swapped (src : Bool) (paths : List (Str × Str)) (hsrc : SrcRepresentable src paths) :
    Legacy.valsToPaths (if src then Legacy.srcSwap (Gen.TREEINFO_PATH_FIELDS.map fun f => (f, srcView src paths f))
      else Gen.TREEINFO_PATH_FIELDS.map fun f => (f, srcView src paths f)) = pathOpts paths := by
  cases src with
  | false =>
    simp only [Bool.false_eq_true, if_false, Legacy.valsToPaths, pathOpts, List.filterMap_map, srcView]
    rfl
  | true =>
    obtain ⟨h1, h2⟩ := hsrc rfl
    have e1 : (Gen.TREEINFO_PATH_FIELDS.map fun f => (f, srcView true paths f)) =
        [("packages".toList, paths.lookup "source_packages".toList), ("repository".toList, paths.lookup "source_repository".toList),
         ("source_packages".toList, none), ("source_repository".toList, none),
         ("debug_packages".toList, paths.lookup "debug_packages".toList),
         ("debug_repository".toList, paths.lookup "debug_repository".toList), ("identity".toList, paths.lookup "identity".toList)] := rfl
    have e2 : pathOpts paths = Legacy.valsToPaths
        [("packages".toList, paths.lookup kPackages'), ("repository".toList, paths.lookup kRepository),
         ("source_packages".toList, paths.lookup "source_packages".toList), ("source_repository".toList, paths.lookup "source_repository".toList),
         ("debug_packages".toList, paths.lookup "debug_packages".toList),
         ("debug_repository".toList, paths.lookup "debug_repository".toList), ("identity".toList, paths.lookup "identity".toList)] := rfl
    rw [if_pos rfl, e1, e2, h1, h2, swap_core]
end PM.TI
