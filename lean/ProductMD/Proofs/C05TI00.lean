import ProductMD.Proofs.C05TIDownOld
/-!
C05, pre-productmd treeinfo (0.0): what each reader recovers from ANY file — `[general]` arch / timestamp / image platforms,
the family table, media numbers, images / stage2 / checksums with relative paths (= the current readers), the top-level variant
named by `variant`, a variant and its paths known from `[general]` only.
-/
namespace PM.TI
open Ini
set_option Elab.async false

/-! ### what the pre-productmd (0.0) readers recover, section by section, from ANY file -/

/-- `_fix_path` leaves a relative path alone -/
theorem fixPath_relative (on : Bool) (p : Str) (h : Str.startsWith p ['/'] = false) : Legacy.fixPath on p = p := by
  simp [Legacy.fixPath, h]

/-- the platform set of a pre-productmd file without a section named after its arch: the arch, then the platform of every
`images-*` section (`images-<platform>`, a trailing `-<arch>` dropped), first occurrence kept -/
def platforms00 (arch : Str) (secs : List Str) : List Str :=
  ([arch] ++ Legacy.imagePlatforms arch secs).foldl (fun acc p => if acc.contains p then acc else acc ++ [p]) []

/-- **tree**: arch and timestamp from `[general]`; the platforms are the arch, the `platforms` of a section named after the
arch when there is one, and the platform of every `images-*` section (first occurrence kept) -/
theorem deTreeL_00 (fo : FloatOracle) (d : Ini) (arch ts : Str) (n : Int)
    (ha : Ini.get d sGeneral kArch = .ok arch) (hnos : (sections d).contains arch = false)
    (ho : hasOption d sGeneral kTimestamp = true) (ht : Ini.get d sGeneral kTimestamp = .ok ts) (hn : fo.intOfFloatStr ts = .ok n)
    (hv : validateClass "treeinfo.Tree" (treeObj ⟨arch, .int n,
      (platforms00 arch (sections d))⟩) = .ok ()) :
    Legacy.deTreeL fo true d = .ok ⟨arch, .int n,
      (platforms00 arch (sections d))⟩ := by
  unfold Legacy.deTreeL
  unfold platforms00 at hv ⊢
  simp only [Bool.not_true, Bool.false_eq_true, if_false, ha, hnos, ho, if_true, ht, bind, Except.bind, pure, Except.pure, hn,
    List.append_nil]
  rw [hv]

/-- without a `timestamp` the build timestamp is -1 -/
theorem deTreeL_00_no_timestamp (fo : FloatOracle) (d : Ini) (arch : Str)
    (ha : Ini.get d sGeneral kArch = .ok arch) (hnos : (sections d).contains arch = false)
    (ho : hasOption d sGeneral kTimestamp = false)
    (hv : validateClass "treeinfo.Tree" (treeObj ⟨arch, .int (-1),
      (platforms00 arch (sections d))⟩) = .ok ()) :
    Legacy.deTreeL fo true d = .ok ⟨arch, .int (-1),
      (platforms00 arch (sections d))⟩ := by
  unfold Legacy.deTreeL
  unfold platforms00 at hv ⊢
  simp only [Bool.not_true, Bool.false_eq_true, if_false, ha, hnos, ho, bind, Except.bind, pure, Except.pure, List.append_nil]
  rw [hv]

/-- **release**: a family outside the table keeps its name and gets the empty short name; never layered -/
theorem deReleaseL_00_plain (d : Ini) (family version v' : Str)
    (hf : Ini.get d sGeneral Legacy.kFamilyS = .ok family) (hver : Ini.get d sGeneral kVersion = .ok version)
    (hv' : Legacy.version00 version = .ok v')
    (hplain : Legacy.releaseShort00 family = (family, []))
    (hv : validateClass "treeinfo.Release" (releaseObj ⟨family, [], v'⟩ false) = .ok ()) :
    Legacy.deReleaseL .v00 d = .ok (⟨family, [], v'⟩, false) := by
  unfold Legacy.deReleaseL
  simp only [hf, hver, hv', hplain, bind, Except.bind, pure, Except.pure, hv]

/-- … a family of the table: the table's name and short name (`releaseShort00`, the literal table of `Release.deserialize_0_0`) -/
theorem deReleaseL_00 (d : Ini) (family version v' : Str)
    (hf : Ini.get d sGeneral Legacy.kFamilyS = .ok family) (hver : Ini.get d sGeneral kVersion = .ok version)
    (hv' : Legacy.version00 version = .ok v')
    (hv : validateClass "treeinfo.Release" (releaseObj ⟨(Legacy.releaseShort00 family).1, (Legacy.releaseShort00 family).2, v'⟩ false) = .ok ()) :
    Legacy.deReleaseL .v00 d = .ok (⟨(Legacy.releaseShort00 family).1, (Legacy.releaseShort00 family).2, v'⟩, false) := by
  unfold Legacy.deReleaseL
  simp only [hf, hver, hv', bind, Except.bind, pure, Except.pure, hv]

/-- **media**: `discnum` / `totaldiscs` of `[general]`; a missing disc number is 1, a missing total is the disc number -/
theorem deMediaL_00 (d : Ini) (a b : Option Int)
    (hr : (match hasOption d sGeneral kDiscnum, hasOption d sGeneral kTotaldiscs with
      | false, false => a = none ∧ b = none
      | true, false => ∃ x, (Ini.get d sGeneral kDiscnum).bind Str.pyInt = .ok x ∧ a = some x ∧ b = some x
      | false, true => ∃ y, (Ini.get d sGeneral kTotaldiscs).bind Str.pyInt = .ok y ∧ a = some 1 ∧ b = some y
      | true, true => ∃ x y, (Ini.get d sGeneral kDiscnum).bind Str.pyInt = .ok x ∧ (Ini.get d sGeneral kTotaldiscs).bind Str.pyInt = .ok y
          ∧ a = some x ∧ b = some y))
    (hv : validateClass "treeinfo.Media" (mediaObj a b) = .ok ()) :
    Legacy.deMediaL true d = .ok (a, b) := by
  unfold Legacy.deMediaL
  cases h1 : hasOption d sGeneral kDiscnum <;> cases h2 : hasOption d sGeneral kTotaldiscs <;> rw [h1, h2] at hr <;> simp only at hr
  · obtain ⟨rfl, rfl⟩ := hr
    simp [bind, Except.bind, pure, Except.pure, hv]
  · obtain ⟨y, hy, rfl, rfl⟩ := hr
    simp only [Bool.false_or, Bool.true_or, if_true, Bool.false_eq_true, if_false, bind, pure, Except.pure, Bool.not_true] at hy ⊢
    rw [hy]; simp [Except.bind, hv]
  · obtain ⟨x, hx, rfl, rfl⟩ := hr
    simp only [Bool.or_false, Bool.true_or, if_true, Bool.false_eq_true, if_false, bind, pure, Except.pure, Bool.not_true] at hx ⊢
    rw [hx]; simp [Except.bind, hv]
  · obtain ⟨x, y, hx, hy, rfl, rfl⟩ := hr
    simp only [Bool.or_true, Bool.true_or, if_true, bind, pure, Except.pure, Bool.not_true, Bool.false_eq_true, if_false] at hx hy ⊢
    rw [hx]; simp only [Except.bind] at hy ⊢; rw [hy]; simp [hv]
end PM.TI

namespace PM.TI
open Ini
set_option Elab.async false

def relative (p : Str) : Bool := !Str.startsWith p ['/']

theorem fixPath_rel (on : Bool) (p : Str) (h : relative p = true) : Legacy.fixPath on p = p :=
  fixPath_relative on p (by simpa [relative] using h)

theorem foldl_fix (on : Bool) : ∀ (its : List (Str × Str)) (m : List (Str × Str)), (∀ kv ∈ its, relative kv.2 = true) →
    its.foldl (fun m kv => setKV kv.1 (Legacy.fixPath on kv.2) m) m = its.foldl (fun m kv => setKV kv.1 kv.2 m) m
  | [], _, _ => rfl
  | kv :: its, m, h => by
    simp only [List.foldl_cons, fixPath_rel on kv.2 (h kv (List.mem_cons_self ..))]
    exact foldl_fix on its _ (fun x hx => h x (List.mem_cons_of_mem _ hx))

/-- **images**: with relative image paths the 0.0 reader is the current one (an absolute path is cut after its first `/os/`,
else loses its leading slashes: `fixPath`) -/
theorem deImagesL_00_relative (d : Ini) (tree : Tree)
    (hrel : ∀ s ∈ sections d, isImg s = true → ∀ its, items d s = .ok its → ∀ kv ∈ its, relative kv.2 = true) :
    Legacy.deImagesL true d tree = deImages d tree := by
  unfold Legacy.deImagesL deImages
  have : ∀ (ss : List Str) (acc : List (Str × List (Str × Str))), (∀ s ∈ ss, s ∈ sections d) →
      Legacy.deImageSectionsL true d tree.arch ss acc = deImageSections d tree.arch ss acc := by
    intro ss
    induction ss with
    | nil => intro acc _; rfl
    | cons s ss ih =>
      intro acc hm
      have ih' := fun acc => ih acc (fun x hx => hm x (List.mem_cons_of_mem _ hx))
      simp only [Legacy.deImageSectionsL, deImageSections]
      split
      · rename_i hs
        cases hi : items d s with
        | error e => rfl
        | ok its =>
          simp only
          rw [foldl_fix true its [] (hrel s (hm s (List.mem_cons_self ..)) hs its hi)]
          exact ih' _
      · exact ih' _
  rw [this _ _ (fun s hs => hs)]

/-- **stage2**: relative image paths are read as they stand -/
theorem deStage2L_00_relative (d : Ini)
    (hm : ∀ p, Ini.get d sStage2 kMainimage = .ok p → relative p = true)
    (hi : ∀ p, Ini.get d sStage2 kInstimage = .ok p → relative p = true) :
    Legacy.deStage2L true d = deStage2 d := by
  unfold Legacy.deStage2L deStage2
  have e1 : (Ini.get d sStage2 kMainimage).map (some ∘ Legacy.fixPath true) = (Ini.get d sStage2 kMainimage).map some := by
    cases h : Ini.get d sStage2 kMainimage with
    | error e => rfl
    | ok p => simp [Except.map, fixPath_rel true p (hm p h)]
  have e2 : (Ini.get d sStage2 kInstimage).map (some ∘ Legacy.fixPath true) = (Ini.get d sStage2 kInstimage).map some := by
    cases h : Ini.get d sStage2 kInstimage with
    | error e => rfl
    | ok p => simp [Except.map, fixPath_rel true p (hi p h)]
  simp only [e1, e2]

theorem deChecksumItemsL_rel : ∀ (its : List (Str × Str)) (acc : List (Str × Str × Str)), (∀ kv ∈ its, relative kv.1 = true) →
    Legacy.deChecksumItemsL true its acc = deChecksumItems its acc
  | [], _, _ => rfl
  | kv :: rest, acc, h => by
    simp only [Legacy.deChecksumItemsL, deChecksumItems, fixPath_rel true kv.1 (h kv (List.mem_cons_self ..))]
    cases checksumOf kv.2 with
    | error e => rfl
    | ok tv => exact deChecksumItemsL_rel rest _ (fun x hx => h x (List.mem_cons_of_mem _ hx))

/-- **checksums**: relative paths are read as they stand -/
theorem deChecksumsL_00_relative (d : Ini) (hrel : ∀ its, items d sChecksums = .ok its → ∀ kv ∈ its, relative kv.1 = true) :
    Legacy.deChecksumsL true d = deChecksums d := by
  unfold Legacy.deChecksumsL deChecksums
  cases hi : items d sChecksums with
  | error e => rfl
  | ok its => simp only [Except.bind, deChecksumItemsL_rel its [] (hrel its hi)]

/-- **top-level variants**: `variant` of `[general]`, when it is there and not empty, names the one top-level variant -/
theorem topIds00_variant (c : Legacy.VCtx) (d : Ini) (v : Str) (ho : hasOption d sGeneral tVariant = true)
    (hg : Ini.get d sGeneral tVariant = .ok v) (hne : v ≠ []) : Legacy.topIds00 c d = .ok [v] := by
  unfold Legacy.topIds00
  have : v.isEmpty = false := by cases v <;> simp_all
  simp [ho, hg, bind, Except.bind, pure, Except.pure, this]
end PM.TI

namespace PM.TI
open Ini
set_option Elab.async false

theorem scan00_none (d : Ini) (h0 : d.lookup DEFAULT = none) (id type0 : Str) : ∀ (secs : List Str) (last : Str),
    (∀ s ∈ secs, d.lookup s = none) →
    Legacy.scanSections00 d id type0 secs last = .ok (secs.getLastD last, type0)
  | [], _, _ => rfl
  | s :: rest, last, h => by
    have hs := h s (List.mem_cons_self ..)
    have h1 : hasOption d s kType = false := hasOption_nosec' h0 hs kType
    have h2 : hasSection d s = false := by unfold hasSection; simp [hs]
    simp only [Legacy.scanSections00, h1, h2, Bool.false_eq_true, if_false]
    rw [scan00_none d h0 id type0 rest s (fun x hx => h x (List.mem_cons_of_mem _ hx))]
    cases rest <;> rfl

/-- **a variant known from `[general]` only** (none of `addon-UID`, `addon-ID`, `variant-UID`, `variant-ID` is a section, no
`addons` in `[general]`, not RHEL 5): id = the last dash-separated part of the UID, name = id, type `variant` (`addon` when read
as a child), no children; the paths are those of `[general]` (`dePathsL .v00`) -/
theorem readVariant_00_general (S : Legacy.Sels) (hS1 : S.variant = .v00) (hS2 : S.addonFallback = false) (c : Legacy.VCtx) (d : Ini) (f : Nat) (addon : Bool) (uid : Str)
    (hne : uid ≠ []) (h0 : d.lookup DEFAULT = none)
    (hnosec : ∀ s ∈ [pAddon ++ uid, pAddon ++ (Str.splitOn '-' uid).getLastD [], pVariant ++ uid,
      pVariant ++ (Str.splitOn '-' uid).getLastD []], d.lookup s = none)
    (hnoadd : hasOption d sGeneral kAddons = false) (hnot5 : Legacy.isRhelMajor c ["5".toList] = false) :
    Legacy.readVariant S c d (f + 1) addon uid =
      (Legacy.dePathsL S.paths c d ((Str.splitOn '-' uid).getLastD []) uid (if addon then tAddon else tVariant)).map fun paths =>
        .mk [] ((Str.splitOn '-' uid).getLastD []) uid ((Str.splitOn '-' uid).getLastD []) (if addon then tAddon else tVariant) paths [] := by
  have hempty : uid.isEmpty = false := by cases uid <;> simp_all
  rw [Legacy.readVariant]
  generalize (Str.splitOn '-' uid).getLastD [] = id at hnosec ⊢
  have hlast : [pAddon ++ uid, pAddon ++ id, pVariant ++ uid, pVariant ++ id].getLastD [] = pVariant ++ id := rfl
  have hsec : d.lookup (pVariant ++ id) = none := hnosec _ (by simp)
  have hname : hasOption d (pVariant ++ id) kName = false := hasOption_nosec' h0 hsec kName
  have hl : optionLookup d [(pVariant ++ id, kAddons), (pVariant ++ id, kVariants), (sGeneral, kAddons)] (some []) = .ok (some []) := by
    simp only [optionLookup, hasOption_nosec' h0 hsec, hnoadd, Bool.false_eq_true, if_false]
  have hsp : splitNonEmpty [] = [] := by decide
  have hr5 : Legacy.rhel5Addons c uid [] = [] := by
    unfold Legacy.rhel5Addons
    simp only [hnot5, Bool.not_false, if_true]
  cases addon with
  | true =>
    have hscan := scan00_none d h0 id tAddon _ [] hnosec
    rw [hlast] at hscan
    have e : (tAddon == tVariant) = false := by decide
    have e2 : tAddon.isEmpty = false := by decide
    simp only [hempty, Bool.false_eq_true, if_false, hS1, hS2, Bool.false_and, if_true, hscan, e2, hname, e]
    cases Legacy.dePathsL S.paths c d id uid tAddon <;> rfl
  | false =>
    have hscan := scan00_none d h0 id [] _ [] hnosec
    rw [hlast] at hscan
    have e : (tVariant == tVariant) = true := by decide
    simp only [hempty, Bool.false_eq_true, if_false, hS1, hscan, List.isEmpty_nil, if_true, hname, e, hl, Option.getD_some, hsp,
      hr5, List.map_nil, Legacy.loopFile]
    cases Legacy.dePathsL S.paths c d id uid tVariant <;> rfl
end PM.TI

namespace PM.TI
open Ini
set_option Elab.async false

/-- **the paths of a variant known from `[general]` only**, for clean values (no trailing slash, not empty, not `.`, the
repository not ending in `/repodata`), outside RHEL and source trees: `packagedir` is the `packages` path, `repository` the
repository; nothing else is recovered.  (RHEL 3 – 6, Fedora with `.`, `/repodata`, the defaults for missing options: the
literal rules of `VariantPaths.deserialize_0_0`, `pathVals00`.) -/
theorem dePathsL_00_general (c : Legacy.VCtx) (d : Ini) (id uid type r p : Str) (h0 : d.lookup DEFAULT = none)
    (hnosec : ∀ s ∈ [pAddon ++ uid, pAddon ++ id, pVariant ++ uid, pVariant ++ id], d.lookup s = none)
    (hr : hasOption d sGeneral kRepository = true) (gr : Ini.get d sGeneral kRepository = .ok r)
    (hnp : hasOption d sGeneral Legacy.kPackages = false)
    (hp : hasOption d sGeneral kPackagedir = true) (gp : Ini.get d sGeneral kPackagedir = .ok p)
    (hid : hasOption d sGeneral Legacy.kIdentity = false)
    (r1 : Legacy.rstripSlash r = r) (r2 : r ≠ []) (r3 : r ≠ ".".toList) (r4 : Str.endsWith r "/repodata".toList = false)
    (p1 : Legacy.rstripSlash p = p) (p2 : p ≠ []) (p3 : p ≠ ".".toList)
    (hrhel : (c.relShort == Legacy.sRHEL) = false) (hsrc : (c.arch == Legacy.sSrc) = false) :
    Legacy.dePathsL .v00 c d id uid type = .ok [("packages".toList, p), ("repository".toList, r)] := by
  have n1 : ∀ k, hasOption d (pAddon ++ uid) k = false := fun k => hasOption_nosec' h0 (hnosec _ (by simp)) k
  have n2 : ∀ k, hasOption d (pAddon ++ id) k = false := fun k => hasOption_nosec' h0 (hnosec _ (by simp)) k
  have n3 : ∀ k, hasOption d (pVariant ++ uid) k = false := fun k => hasOption_nosec' h0 (hnosec _ (by simp)) k
  have n4 : ∀ k, hasOption d (pVariant ++ id) k = false := fun k => hasOption_nosec' h0 (hnosec _ (by simp)) k
  have hrm : ∀ l, Legacy.isRhelMajor c l = false := fun l => by simp [Legacy.isRhelMajor, hrhel]
  have re : r.isEmpty = false := by cases r <;> simp_all
  have pe : p.isEmpty = false := by cases p <;> simp_all
  have r3' : (r == ".".toList) = false := by simpa using r3
  have p3' : (p == ".".toList) = false := by simpa using p3
  have hvp : validateClass "treeinfo.VariantPaths" [] = .ok () := by decide +kernel
  unfold Legacy.dePathsL Legacy.pathVals00
  simp only [optionLookup, n1, n2, n3, n4, hr, gr, hnp, hp, gp, hid, Bool.false_eq_true, if_false, if_true, Except.map, bind,
    Except.bind, pure, Except.pure, Option.getD_some, Legacy.orStr, r1, re, p1, pe, r4, r3', hrm, hsrc, p3', hvp]
  have : (if (c.relShort == Legacy.sFedora) = true then p else p) = p := by split <;> rfl
  rw [this]
  rfl
end PM.TI
