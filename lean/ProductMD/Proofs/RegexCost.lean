import ProductMD.Proofs.RegexBasic
/-!
The cost theorem behind C19: for every `safe` expression, the number of results (`wB`) and the number of
matcher nodes visited with no memoisation (`cB`) are bounded by explicit polynomials of the input length,
uniformly in the fuel.  Core Lean only.
-/
namespace PM

/-! ### character classes -/

def Cls.disjoint (d k : Cls) : Bool :=
  !d.neg && !k.neg &&
    d.ranges.all (fun r => k.ranges.all (fun q => decide (r.2 < q.1) || decide (q.2 < r.1)))

theorem Cls.disjoint_spec {d k : Cls} (h : d.disjoint k = true) (c : Char)
    (hd : d.mem c = true) (hk : k.mem c = true) : False := by
  simp only [Cls.disjoint, Bool.and_eq_true, Bool.not_eq_true', List.all_eq_true, Bool.or_eq_true,
    decide_eq_true_eq] at h
  obtain ⟨⟨hdn, hkn⟩, hall⟩ := h
  simp [Cls.mem, hdn, hkn] at hd hk
  obtain ⟨r1, r2, hr, hr1, hr2⟩ := hd
  obtain ⟨q1, q2, hq, hq1, hq2⟩ := hk
  rcases hall (r1, r2) hr (q1, q2) hq with h | h <;> simp at h <;> omega

/-! ### the syntactic criterion -/

/-- star bodies covered: a single class, or a *delimited loop* `d k k*` with `d ∩ k = ∅` -/
def starBodyOk : Re → Bool
  | .cls _ => true
  | .cat (.cls d) (.cat (.cls k) (.star (.cls k'))) => k == k' && d.disjoint k
  | _ => false

def Re.safe : Re → Bool
  | .eps | .bol | .eol | .cls _ => true
  | .bad => false
  | .cat a b => a.safe && b.safe
  | .alt a b => a.safe && b.safe
  | .grp _ a => a.safe
  | .star a => starBodyOk a.strip && a.safe

/-- bound on the number of results on inputs of length `n` -/
def Re.wB : Re → Nat → Nat
  | .cat a b, n => a.wB n * b.wB n
  | .alt a b, n => a.wB n + b.wB n
  | .star _, n => n + 1
  | .grp _ a, n => a.wB n
  | _, _ => 1

/-- bound on the number of matcher nodes visited on inputs of length `n` -/
def Re.cB : Re → Nat → Nat
  | .cat a b, n => 1 + a.cB n + a.wB n * b.cB n
  | .alt a b, n => 1 + a.cB n + b.cB n
  | .star a, n => (n + 1) * (1 + a.cB n)
  | .grp _ a, n => a.cB n
  | _, _ => 1

theorem Re.wB_mono (r : Re) : ∀ {n n' : Nat}, n ≤ n' → r.wB n ≤ r.wB n' := by
  induction r with
  | cat a b iha ihb => intro n n' h; exact Nat.mul_le_mul (iha h) (ihb h)
  | alt a b iha ihb => intro n n' h; exact Nat.add_le_add (iha h) (ihb h)
  | star a _ => intro n n' h; simp only [Re.wB]; omega
  | grp _ a iha => intro n n' h; exact iha h
  | eps | bol | eol | bad | cls => intro n n' _; exact Nat.le_refl _

theorem Re.cB_mono (r : Re) : ∀ {n n' : Nat}, n ≤ n' → r.cB n ≤ r.cB n' := by
  induction r with
  | cat a b iha ihb =>
    intro n n' h
    simp only [Re.cB]
    exact Nat.add_le_add (Nat.add_le_add (Nat.le_refl _) (iha h)) (Nat.mul_le_mul (a.wB_mono h) (ihb h))
  | alt a b iha ihb =>
    intro n n' h
    simp only [Re.cB]
    exact Nat.add_le_add (Nat.add_le_add (Nat.le_refl _) (iha h)) (ihb h)
  | star a iha =>
    intro n n' h
    simp only [Re.cB]
    exact Nat.mul_le_mul (by omega) (Nat.add_le_add (Nat.le_refl _) (iha h))
  | grp _ a iha => intro n n' h; exact iha h
  | eps | bol | eol | bad | cls => intro n n' _; exact Nat.le_refl _

/-! ### list arithmetic -/

theorem sum_map_le_mul {α} (l : List α) (g : α → Nat) (B : Nat) (h : ∀ t ∈ l, g t ≤ B) :
    (l.map g).sum ≤ l.length * B := by
  induction l with
  | nil => simp
  | cons x xs ih =>
    have h1 := h x (by simp)
    have h2 := ih (fun t ht => h t (by simp [ht]))
    simp only [List.map_cons, List.sum_cons, List.length_cons, Nat.add_mul, Nat.one_mul]
    omega

theorem length_flatMap_le {α β} (l : List α) (g : α → List β) (B : Nat) (h : ∀ t ∈ l, (g t).length ≤ B) :
    (l.flatMap g).length ≤ l.length * B := by
  rw [List.length_flatMap]
  exact sum_map_le_mul l (fun a => (g a).length) B h

theorem filter_len_eq_self (l : List Str) (s : Str) (h : ∀ t ∈ l, t.length < s.length) :
    l.filter (fun s' => s'.length < s.length) = l := by
  apply List.filter_eq_self.mpr
  intro t ht; simpa using h t ht

/-! ### width of a star over a class -/

theorem starAux_cls_nil (k : Cls) (F f : Nat) : starAux (m F (.cls k)) f [] = [[]] := by
  cases f <;> simp [starAux_succ]

theorem starAux_cls_cons (k : Cls) (F f : Nat) (c : Char) (cs : Str) :
    starAux (m F (.cls k)) (f+1) (c :: cs) =
      if k.mem c then starAux (m F (.cls k)) f cs ++ [c :: cs] else [c :: cs] := by
  rw [starAux_succ, m_cls_cons]
  by_cases h : k.mem c <;> simp [h]

theorem width_star_cls (k : Cls) (F : Nat) : ∀ (f : Nat) (s : Str),
    (starAux (m F (.cls k)) f s).length ≤ s.length + 1 := by
  intro f
  induction f with
  | zero => intro s; simp
  | succ f ih =>
    intro s
    cases s with
    | nil => simp [starAux_cls_nil]
    | cons c cs =>
      rw [starAux_cls_cons]
      by_cases h : k.mem c
      · simp [h]; have := ih cs; omega
      · simp [h]

/-! ### width of a star over a delimited loop -/

section delim
variable (d k : Cls) (hdis : d.disjoint k = true)

/-- `d k k*` -/
def delimBody : Re := .cat (.cls d) (.cat (.cls k) (.star (.cls k)))

theorem delimBody_nil (f) : m f (delimBody d k) [] = [] := by
  simp [delimBody, m_cat]

theorem delimBody_not (f c cs) (h : d.mem c = false) : m f (delimBody d k) (c :: cs) = [] := by
  simp [delimBody, m_cat, m_cls_cons, h]

theorem delimBody_hit (f c cs) (h : d.mem c = true) :
    m f (delimBody d k) (c :: cs) = m f (.cat (.cls k) (.star (.cls k))) cs := by
  simp [delimBody, m_cat, m_cls_cons, h]

/-- a star over the delimited loop does not iterate on input that does not start with a delimiter -/
theorem star_delim_stuck (F f : Nat) (s : Str) (h : ∀ c cs, s = c :: cs → d.mem c = false) :
    starAux (m F (delimBody d k)) f s = [s] := by
  cases f with
  | zero => simp
  | succ f =>
    rw [starAux_succ]
    cases s with
    | nil => simp [delimBody_nil]
    | cons c cs => simp [delimBody_not d k F c cs (h c cs rfl)]

omit hdis in
theorem sum_star_cls_le (F : Nat) (g : Str → Nat) (hg : ∀ t, g t ≤ t.length + 1)
    (hg1 : ∀ c cs, k.mem c = true → g (c :: cs) = 1) :
    ∀ (f' : Nat) (u : Str), ((starAux (m F (.cls k)) f' u).map g).sum ≤ u.length + 1 := by
  intro f'
  induction f' with
  | zero => intro u; simp; exact hg u
  | succ f' ih =>
    intro u
    cases u with
    | nil => simp [starAux_cls_nil]; exact hg []
    | cons y ys =>
      rw [starAux_cls_cons]
      by_cases h : k.mem y
      · simp only [h, if_true, List.map_append, List.sum_append, List.map_cons, List.map_nil,
          List.sum_cons, List.sum_nil, List.length_cons]
        have := ih ys
        have := hg1 y ys h
        omega
      · have := hg (y :: ys)
        simpa [h] using this

include hdis in
theorem width_star_delim (F : Nat) : ∀ (f : Nat) (s : Str),
    (starAux (m F (delimBody d k)) f s).length ≤ s.length + 1 := by
  intro f
  induction f with
  | zero => intro s; simp
  | succ f ih =>
    intro s
    cases s with
    | nil => simp [star_delim_stuck d k F (f+1) [] (by intro c cs h; cases h)]
    | cons c cs =>
      by_cases hc : d.mem c
      · rw [starAux_succ, delimBody_hit d k F c cs hc, m_cat]
        cases cs with
        | nil => simp
        | cons x xs =>
          rw [m_cls_cons]
          by_cases hx : k.mem x
          · simp only [hx, if_true, List.flatMap_cons, List.flatMap_nil, List.append_nil, m_star]
            have hall : ∀ t ∈ starAux (m F (.cls k)) F xs, t.length < (c :: x :: xs).length := by
              intro t ht
              have := starAux_length_le _ _ _ _ ht
              simp only [List.length_cons]; omega
            rw [filter_len_eq_self _ _ hall, List.length_append, List.length_flatMap]
            have hstuck : ∀ c' cs', k.mem c' = true → (starAux (m F (delimBody d k)) f (c' :: cs')).length = 1 := by
              intro c' cs' hk
              have hnd : d.mem c' = false := by
                cases hdm : d.mem c' with
                | false => rfl
                | true => exact absurd hk (fun hk => Cls.disjoint_spec hdis c' hdm hk)
              rw [star_delim_stuck d k F f (c' :: cs') (by intro a as h; cases h; exact hnd)]
              rfl
            have := sum_star_cls_le k F (fun t => (starAux (m F (delimBody d k)) f t).length) ih hstuck F xs
            simp only [List.length_cons, List.length_nil] at *
            omega
          · simp [hx]
      · have hc' : d.mem c = false := by simpa using hc
        rw [star_delim_stuck d k F (f+1) (c :: cs) (by intro a as h; cases h; exact hc')]
        simp
end delim

/-- a star whose (group-free) body has one of the covered shapes yields at most |s|+1 results -/
theorem width_star_ok (a : Re) (hok : starBodyOk a.strip = true) (F f : Nat) (s : Str) :
    (starAux (m F a) f s).length ≤ s.length + 1 := by
  have hs : m F a = m F a.strip := by funext t; exact (m_strip a F t).symm
  rw [hs]
  generalize a.strip = b at hok
  unfold starBodyOk at hok
  split at hok
  · exact width_star_cls _ F f s
  · rename_i d k k'
    simp only [Bool.and_eq_true, beq_iff_eq] at hok
    obtain ⟨rfl, hd⟩ := hok
    exact width_star_delim d k hd F f s
  · cases hok

/-! ### the main bounds -/

theorem star_cost_le (body : Str → List Str) (bc : Str → Nat) (C : Nat → Nat) (hC : ∀ u, bc u ≤ C u.length)
    (hmono : ∀ {n n'}, n ≤ n' → C n ≤ C n') :
    ∀ (f : Nat) (s : Str), starCost body bc f s ≤ (starAux body f s).length * (1 + C s.length) := by
  intro f
  induction f with
  | zero => intro s; simp
  | succ f ih =>
    intro s
    rw [starCost_succ, starAux_succ, List.length_append, List.length_flatMap]
    generalize hl : (body s).filter (fun s' => s'.length < s.length) = l
    have hlt : ∀ t ∈ l, t.length < s.length := by
      intro t ht; rw [← hl] at ht; simpa using (List.mem_filter.mp ht).2
    have h1 := hC s
    have h2 : (l.map (starCost body bc f)).sum ≤ (l.map (fun t => (starAux body f t).length)).sum * (1 + C s.length) := by
      clear hl
      induction l with
      | nil => simp
      | cons x xs ihx =>
        have hx := ih x
        have hxl : C x.length ≤ C s.length := hmono (Nat.le_of_lt (hlt x (by simp)))
        have := ihx (fun t ht => hlt t (by simp [ht]))
        simp only [List.map_cons, List.sum_cons, Nat.add_mul]
        have : (starAux body f x).length * (1 + C x.length) ≤ (starAux body f x).length * (1 + C s.length) :=
          Nat.mul_le_mul (Nat.le_refl _) (by omega)
        omega
    simp only [List.length_cons, List.length_nil, Nat.add_mul, Nat.one_mul, Nat.zero_add]
    omega

/-- **Cost theorem.**  For a safe expression, uniformly in the fuel: at most `wB` results and `cB` matcher
nodes on any input. -/
theorem safe_bounds : ∀ (r : Re), r.safe = true → ∀ (f : Nat) (s : Str),
    (m f r s).length ≤ r.wB s.length ∧ cost f r s ≤ r.cB s.length := by
  intro r
  induction r with
  | eps => intro _ f s; simp [Re.wB, Re.cB]
  | bol => intro _ f s; simp [Re.wB, Re.cB]
  | eol => intro _ f s; rw [m_eol]; split <;> simp [Re.wB, Re.cB]
  | bad => intro h; simp [Re.safe] at h
  | cls k =>
    intro _ f s
    cases s with
    | nil => simp [Re.wB, Re.cB]
    | cons c cs => rw [m_cls_cons]; split <;> simp [Re.wB, Re.cB]
  | cat a b iha ihb =>
    intro h f s
    simp only [Re.safe, Bool.and_eq_true] at h
    have ha := iha h.1
    have hb := ihb h.2
    have hlen : ∀ t ∈ m f a s, t.length ≤ s.length := fun t ht => m_length_le a f s t ht
    constructor
    · rw [m_cat]
      calc ((m f a s).flatMap (m f b)).length
          ≤ (m f a s).length * b.wB s.length :=
            length_flatMap_le _ _ _ (fun t ht => Nat.le_trans (hb f t).1 (b.wB_mono (hlen t ht)))
        _ ≤ a.wB s.length * b.wB s.length := Nat.mul_le_mul (ha f s).1 (Nat.le_refl _)
    · rw [cost_cat]
      have h1 : ((m f a s).map (cost f b)).sum ≤ (m f a s).length * b.cB s.length :=
        sum_map_le_mul _ _ _ (fun t ht => Nat.le_trans (hb f t).2 (b.cB_mono (hlen t ht)))
      have h2 : (m f a s).length * b.cB s.length ≤ a.wB s.length * b.cB s.length :=
        Nat.mul_le_mul (ha f s).1 (Nat.le_refl _)
      have := (ha f s).2
      simp only [Re.cB]
      omega
  | alt a b iha ihb =>
    intro h f s
    simp only [Re.safe, Bool.and_eq_true] at h
    have ha := iha h.1 f s
    have hb := ihb h.2 f s
    rw [m_alt, cost_alt, List.length_append]
    simp only [Re.wB, Re.cB]
    omega
  | grp n a iha =>
    intro h f s
    simp only [Re.safe] at h
    simpa [Re.wB, Re.cB] using iha h f s
  | star a iha =>
    intro h f s
    simp only [Re.safe, Bool.and_eq_true] at h
    rw [m_star, cost_star]
    have hw := width_star_ok a h.1 f f s
    refine ⟨by simpa [Re.wB] using hw, ?_⟩
    have hc := star_cost_le (m f a) (cost f a) (fun n => a.cB n) (fun u => (iha h.2 f u).2) (fun h => a.cB_mono h) f s
    simp only [Re.cB]
    exact Nat.le_trans hc (Nat.mul_le_mul hw (Nat.le_refl _))

end PM
