import ProductMD.Proofs.TreeInfoForestReader
/-!
The assembled current-format reader against a view of the written document.
-/
namespace PM
namespace TI
open Ini

variable {C : IniSec → Prop}

theorem treeinfo_valid : validateClass "treeinfo.TreeInfo" [] = .ok () := by decide +kernel

theorem media_norm_eq (a b : Option Int) :
    mediaNorm a b = (if !intTruthy a && !intTruthy b then none else a, if !intTruthy a && !intTruthy b then none else b) := by
  unfold mediaNorm mediaOn
  cases intTruthy a <;> cases intTruthy b <;> rfl

/-- **The reader inverts the writer**, for any document `d` that is a view of the sections `serialize` produced. -/
theorem readback_of_view (fo : FloatOracle) (t : TreeInfo) (mv : Option Str) (d0 d : Ini) (n n0 : Int) (key : Str) (chosen : Variant)
    (w : Written t mv d0 n0 key chosen) (wv : WriteValid t)
    (V : View C (docList t (generalOpts t n0 key chosen)) d)
    (hts : t.tree.ts = .int n) (hfl : fo.intOfFloatStr (Str.intStr n) = .ok n)
    (hplat : PlatformsOK t.tree) (hforest : ForestOK t.variants) (hcs : ChecksumsOK t.checksums)
    (himg : ImagesOK t.tree.arch t.images)
    (hCcs : t.checksums.isEmpty = false → C (checksumOpts t.checksums)) (hCimg : ∀ p ∈ t.images, C (setsKV [] p.2))
    (hv : ReadValid (norm t)) :
    deserialize fo d = .ok (norm t) := by
  have hn := w.nodup
  have e1 := deHeader_ok V
  have e2 := deRelease_ok V wv.release
  have e4 := deTree_ok fo V n hts hfl hplat (by
    have := hv.tree
    simp only [norm, hts] at this
    exact this)
  have e5 := deTops_ok V hn hforest (tops_nonempty w.hkey w.hchosen) hv.forest hv.tops
  have e6 := deChecksums_ok V hcs hCcs hv.checksums
  have e7 := deImages_ok V hn ⟨t.tree.arch, .int n, Str.sortDedup (t.tree.platforms ++ [t.tree.arch])⟩ himg hCimg (by
    have := hv.images
    simp only [norm] at this
    exact this)
  have e8 := deStage2_ok V (by
    have := hv.stage2
    simp only [norm] at this
    exact this)
  have e9 := deMedia_ok V w.media (by
    have := hv.media
    simp only [norm] at this
    rw [media_norm_eq]
    exact this)
  unfold deserialize
  simp only [e1, versionTuple_current, gate_current, e2, e4, e5, e6, e7, e8, e9, treeinfo_valid, bind, Except.bind, pure,
    Except.pure]
  cases hl : t.isLayered
  · simp [norm, hl, hts, normOpt, media_norm_eq]; rfl
  · obtain ⟨p, hp, hvp⟩ := wv.base hl
    have e3 := deBase_ok V hl hp hvp
    simp [norm, hl, hts, normOpt, media_norm_eq, e3, Except.map, hp]; rfl

/-! ### validity of a tree that is already in normal form -/

theorem images_valid_empty (ps : List Str) : validateClass "treeinfo.Images" (imagesObj [] ps) = .ok () := by
  have h : Gen.allClasses.find? (·.1 == "treeinfo.Images") = some ("treeinfo.Images", Gen.rules_treeinfo_Images) := by rfl
  unfold validateClass
  rw [h]
  simp only [validateWith, Gen.rules_treeinfo_Images, MethodRules.flat, List.flatMap_cons, List.flatMap_nil, List.append_nil,
    List.cons_append, List.nil_append, runRules, Rule.check]
  have c1 : ∀ o, customs "treeinfo.Images._validate_image_paths".toList o = tiImagePaths o := fun o => rfl
  have c2 : ∀ o, customs "treeinfo.Images._validate_platforms".toList o = tiImagePlatforms o := fun o => rfl
  have e1 : tiImagePaths (imagesObj [] ps) = .ok () := rfl
  have e2 : tiImagePlatforms (imagesObj [] ps) = .ok () := rfl
  have := c1 (imagesObj [] ps)
  have := c2 (imagesObj [] ps)
  simp_all

theorem stage2_valid_none : validateClass "treeinfo.Stage2" (stage2Obj none none) = .ok () := by decide +kernel
theorem media_valid_none : validateClass "treeinfo.Media" (mediaObj none none) = .ok () := by decide +kernel

/-- for a tree in normal form the reader's `validate()` calls are those that succeeded when it was written -/
theorem readValid_of_normal {t : TreeInfo} (wv : WriteValid t) (hnorm : norm t = t) : ReadValid t := by
  refine ⟨wv.tree, wv.tops, wv.forest, wv.checksums, ?_, ?_, ?_⟩
  · cases he : t.images.isEmpty
    · exact wv.images he
    · have : t.images = [] := by simpa using he
      rw [this]; exact images_valid_empty _
  · cases hon : stage2On t.mainimage t.instimage
    · have hm := congrArg TreeInfo.mainimage hnorm
      have hi := congrArg TreeInfo.instimage hnorm
      simp only [norm] at hm hi
      unfold stage2On at hon
      have h1 : optTruthy t.mainimage = false := by cases h : optTruthy t.mainimage <;> simp_all
      have h2 : optTruthy t.instimage = false := by cases h : optTruthy t.instimage <;> simp_all
      simp only [h1, h2, Bool.false_eq_true, if_false] at hm hi
      rw [← hm, ← hi]; exact stage2_valid_none
    · exact wv.stage2 hon
  · cases hon : mediaOn t.discnum t.totaldiscs
    · have ha := congrArg TreeInfo.discnum hnorm
      have hb := congrArg TreeInfo.totaldiscs hnorm
      simp only [norm] at ha hb
      unfold mediaOn at hon
      have h1 : intTruthy t.discnum = false := by cases h : intTruthy t.discnum <;> simp_all
      have h2 : intTruthy t.totaldiscs = false := by cases h : intTruthy t.totaldiscs <;> simp_all
      simp only [h1, h2, Bool.not_false, Bool.and_self, if_true] at ha hb
      rw [← ha, ← hb]; exact media_valid_none
    · exact wv.media hon

end TI
end PM
