import ProductMD.Proofs.TreeInfoReader
/-!
The reader of the variant forest against a view of the written document: any number of top-level variants,
any nesting depth, children of every type (the `addon-` / `variant-` section fallback of F7).
-/
namespace PM
namespace TI
open Ini

/-! ### structure of the forest -/

mutual
def height : Variant → Nat
  | .mk _ _ _ _ _ _ kids => heights kids + 1
def heights : List Variant → Nat
  | [] => 0
  | v :: vs => max (height v) (heights vs)
end

theorem subV_eq (pu : Option Str) (w : Variant) : subV pu w = (pu, w) :: subVs (some w.uid) w.kids := by
  cases w; rfl

theorem self_mem_subVs (pu : Option Str) : ∀ (vs : List Variant) (v : Variant), v ∈ vs → (pu, v) ∈ subVs pu vs
  | [], _, h => by cases h
  | w :: ws, v, h => by
    simp only [subVs, List.mem_append]
    cases h with
    | head => left; rw [subV_eq]; exact List.mem_cons_self ..
    | tail _ h => right; exact self_mem_subVs pu ws v h

mutual
theorem kid_mem_subV : ∀ (w : Variant) (p0 : Option Str) (x : Option Str × Variant), x ∈ subV p0 w →
    ∀ v ∈ x.2.kids, (some x.2.uid, v) ∈ subV p0 w
  | .mk key id uid name type paths kids, p0, x, hx, v, hv => by
    simp only [subV, List.mem_cons] at hx ⊢
    right
    rcases hx with hx | hx
    · subst hx; exact self_mem_subVs (some uid) kids v hv
    · exact kid_mem_subVs kids (some uid) x hx v hv
theorem kid_mem_subVs : ∀ (vs : List Variant) (p0 : Option Str) (x : Option Str × Variant), x ∈ subVs p0 vs →
    ∀ v ∈ x.2.kids, (some x.2.uid, v) ∈ subVs p0 vs
  | [], _, x, hx, _, _ => by simp [subVs] at hx
  | w :: ws, p0, x, hx, v, hv => by
    simp only [subVs, List.mem_append] at hx ⊢
    rcases hx with hx | hx
    · left; exact kid_mem_subV w p0 x hx v hv
    · right; exact kid_mem_subVs ws p0 x hx v hv
end

/-- the entries of a list of siblings, in order, inside the enumeration of their subtrees -/
theorem siblings_sublist (pu : Option Str) : ∀ vs : List Variant, (vs.map fun v => (pu, v)).Sublist (subVs pu vs)
  | [] => List.Sublist.slnil
  | v :: vs => by
    simp only [List.map_cons, subVs]
    rw [subV_eq, List.cons_append]
    exact List.Sublist.cons₂ _ ((siblings_sublist pu vs).trans (List.sublist_append_right _ _))

mutual
theorem kids_sublist_subV : ∀ (w : Variant) (p0 : Option Str) (x : Option Str × Variant), x ∈ subV p0 w →
    (subVs (some x.2.uid) x.2.kids).Sublist (subV p0 w)
  | .mk key id uid name type paths kids, p0, x, hx => by
    simp only [subV, List.mem_cons] at hx
    rcases hx with hx | hx
    · subst hx; simp only [subV]; exact List.sublist_cons_self _ _
    · simp only [subV]
      exact (kids_sublist_subVs kids (some uid) x hx).trans (List.sublist_cons_self _ _)
theorem kids_sublist_subVs : ∀ (vs : List Variant) (p0 : Option Str) (x : Option Str × Variant), x ∈ subVs p0 vs →
    (subVs (some x.2.uid) x.2.kids).Sublist (subVs p0 vs)
  | [], _, x, hx => by simp [subVs] at hx
  | w :: ws, p0, x, hx => by
    simp only [subVs, List.mem_append] at hx ⊢
    rcases hx with hx | hx
    · exact (kids_sublist_subV w p0 x hx).trans (List.sublist_append_left _ _)
    · exact (kids_sublist_subVs ws p0 x hx).trans (List.sublist_append_right _ _)
end

mutual
theorem top_of_none_subV : ∀ (w : Variant) (x : Option Str × Variant), x ∈ subV none w → x.1 = none → x.2 = w
  | .mk key id uid name type paths kids, x, hx, hn => by
    simp only [subV, List.mem_cons] at hx
    rcases hx with hx | hx
    · subst hx; rfl
    · exact absurd hn (some_parent_subVs kids uid x hx)
theorem some_parent_subVs : ∀ (vs : List Variant) (p : Str) (x : Option Str × Variant), x ∈ subVs (some p) vs → x.1 ≠ none
  | [], _, x, hx => by simp [subVs] at hx
  | w :: ws, p, x, hx => by
    simp only [subVs, List.mem_append] at hx
    rcases hx with hx | hx
    · cases w with
      | mk key id uid name type paths kids =>
        simp only [subV, List.mem_cons] at hx
        rcases hx with hx | hx
        · subst hx; simp
        · exact some_parent_subVs kids uid x hx
    · exact some_parent_subVs ws p x hx
end

theorem top_mem_of_none : ∀ (vs : List Variant) (x : Option Str × Variant), x ∈ subVs none vs → x.1 = none → x.2 ∈ vs
  | [], x, hx, _ => by simp [subVs] at hx
  | w :: ws, x, hx, hn => by
    simp only [subVs, List.mem_append] at hx
    rcases hx with hx | hx
    · rw [top_of_none_subV w x hx hn]; exact List.mem_cons_self ..
    · exact List.mem_cons_of_mem _ (top_mem_of_none ws x hx hn)

mutual
theorem height_le_flatV : ∀ (w : Variant) (pu : Option Str), height w ≤ (flatV pu w).length
  | .mk key id uid name type paths kids, pu => by
    simp only [height, flatV, List.length_append, List.length_cons, List.length_nil]
    have := heights_le_flatVs kids (some uid)
    omega
theorem heights_le_flatVs : ∀ (vs : List Variant) (pu : Option Str), heights vs ≤ (flatVs pu vs).length
  | [], _ => by simp [heights]
  | v :: vs, pu => by
    simp only [heights, flatVs, List.length_append]
    have h1 := height_le_flatV v pu
    have h2 := heights_le_flatVs vs pu
    omega
end

theorem heights_le_docList (t : TreeInfo) (g : IniSec) : heights t.variants ≤ (docList t g).length := by
  have := heights_le_flatVs t.variants none
  simp only [docList, List.length_append]
  omega

theorem normVs_eq_map : ∀ vs : List Variant, normVs vs = vs.map (normV false)
  | [] => rfl
  | v :: vs => by simp [normVs, normVs_eq_map vs]

theorem normTops_eq_map : ∀ vs : List Variant, normTops vs = vs.map (normV true)
  | [] => rfl
  | v :: vs => by simp [normTops, normTops_eq_map vs]

theorem normV_uid (b : Bool) (w : Variant) : (normV b w).uid = w.uid := by cases w; rfl
theorem normV_key (b : Bool) (w : Variant) : (normV b w).key = if b then w.uid else w.id := by cases w; rfl

/-! ### hypotheses on the forest (each a decidable property of the tree) -/

/-- every UID is non-empty and free of `,`: it can travel in the comma-separated `variants` / `addons` options -/
def UidsOK (tops : List Variant) : Prop := ∀ x ∈ subVs none tops, x.2.uid ≠ [] ∧ ',' ∉ x.2.uid
/-- UIDs are pairwise distinct across the whole forest -/
def UidsNodup (tops : List Variant) : Prop := ((subVs none tops).map (·.2.uid)).Nodup
/-- the children of one variant have pairwise distinct ids (they are filed under their id on load) -/
def KidIdsNodup (tops : List Variant) : Prop := ∀ x ∈ subVs none tops, (x.2.kids.map Variant.id).Nodup
/-- no top-level variant has type `addon` (F24: the reader looks top-level variants up under `variant-UID`) -/
def TopNotAddon (tops : List Variant) : Prop := ∀ v ∈ tops, v.type ≠ tAddon

structure ForestOK (tops : List Variant) : Prop where
  uidsOK : UidsOK tops
  uidsNodup : UidsNodup tops
  kidIds : KidIdsNodup tops
  topNotAddon : TopNotAddon tops

theorem kids_uids_nodup {tops : List Variant} (h : UidsNodup tops) (x : Option Str × Variant) (hx : x ∈ subVs none tops) :
    (x.2.kids.map Variant.uid).Nodup := by
  have s1 := (siblings_sublist (some x.2.uid) x.2.kids).trans (kids_sublist_subVs tops none x hx)
  have s2 := s1.map (fun y : Option Str × Variant => y.2.uid)
  have : (x.2.kids.map fun v => (some x.2.uid, v)).map (fun y : Option Str × Variant => y.2.uid) = x.2.kids.map Variant.uid := by
    simp [List.map_map, Function.comp_def]
  rw [this] at s2
  exact s2.nodup h

theorem tops_uids_nodup {tops : List Variant} (h : UidsNodup tops) : (tops.map Variant.uid).Nodup := by
  have s2 := (siblings_sublist none tops).map (fun y : Option Str × Variant => y.2.uid)
  have : (tops.map fun v => ((none : Option Str), v)).map (fun y : Option Str × Variant => y.2.uid) = tops.map Variant.uid := by
    simp [List.map_map, Function.comp_def]
  rw [this] at s2
  exact s2.nodup h

/-! ### the loops -/

theorem loopAdd_ok (rd : Str → Except Err Variant) (nrm : Variant → Variant) :
    ∀ (ws acc : List Variant), (∀ w ∈ ws, rd w.uid = .ok (nrm w)) → ((acc ++ ws.map nrm).map Variant.key).Nodup →
      loopAdd rd (ws.map Variant.uid) acc = .ok (acc ++ ws.map nrm)
  | [], acc, _, _ => by simp [loopAdd]
  | w :: ws, acc, h, hn => by
    have hw := h w (List.mem_cons_self ..)
    have hfresh : acc.any (fun a => a.key == (nrm w).key) = false := by
      rw [List.any_eq_false]
      intro a ha hk
      simp only [beq_iff_eq] at hk
      rw [List.map_append, List.nodup_append] at hn
      exact hn.2.2 _ (List.mem_map.mpr ⟨a, ha, rfl⟩) _ (by simp) hk
    simp only [List.map_cons, loopAdd, hw, addKid, hfresh]
    have := loopAdd_ok rd nrm ws (acc ++ [nrm w]) (fun x hx => h x (List.mem_cons_of_mem _ hx)) (by simpa using hn)
    simpa using this

variable {C : IniSec → Prop} {t : TreeInfo} {g : IniSec} {d : Ini}

theorem dePaths_ok (V : View C (docList t g) d) {sec : Str} {o : IniSec} (paths : List (Str × Str))
    (hL : (docList t g).lookup sec = some o) (h1 : sec.isEmpty = false) (h2 : (sec == DEFAULT) = false)
    (ho : ∀ f ∈ Gen.TREEINFO_PATH_FIELDS, o.lookup f = paths.lookup f) :
    ∀ fs : List Str, (∀ f ∈ fs, f ∈ Gen.TREEINFO_PATH_FIELDS) →
      dePaths d sec fs = .ok (fs.filterMap fun f => (paths.lookup f).map fun v => (f, v))
  | [], _ => rfl
  | f :: fs, hsub => by
    have hf := hsub f (List.mem_cons_self ..)
    have hnc : nc f = true := (fields_not_fixed f hf).2.2.2.2.2.2
    have ih := dePaths_ok V paths hL h1 h2 ho fs (fun x hx => hsub x (List.mem_cons_of_mem _ hx))
    simp only [dePaths, V.hasOption_of hL hnc h1 h2, ho f hf, List.filterMap_cons]
    cases hp : paths.lookup f with
    | none => simp [ih]
    | some v =>
      have := V.get_of hL ((ho f hf).trans hp) hnc
      simp [this, ih]

theorem secName_nonempty (type uid : Str) : (secName type uid).isEmpty = false ∧ ((secName type uid) == DEFAULT) = false := by
  have h := secName_headAV type uid
  constructor
  · cases hs : secName type uid with
    | nil => rw [hs] at h; rcases h with h | h <;> cases h
    | cons _ _ => rfl
  · simp only [beq_eq_false_iff_ne, ne_eq]
    intro e; rw [e] at h; revert h; decide

/-! ### one variant -/

theorem secName_addon (uid : Str) : secName tAddon uid = pAddon ++ uid := by
  have : (tAddon == tAddon) = true := by decide
  simp [secName, this]

theorem secName_not_addon {type : Str} (uid : Str) (h : type ≠ tAddon) : secName type uid = pVariant ++ uid := by
  have : (type == tAddon) = false := by simp [h]
  simp [secName, this]

theorem uid_inj {tops : List Variant} (h : UidsNodup tops) {x y : Option Str × Variant} (hx : x ∈ subVs none tops)
    (hy : y ∈ subVs none tops) (e : x.2.uid = y.2.uid) : x = y :=
  inj_of_nodup_map' (fun z : Option Str × Variant => z.2.uid) h hx hy e

/-- the section the reader looks a variant up under is the section the writer put it in -/
theorem reader_section (V : View C (docList t g) d) (hn : ((docList t g).map (·.1)).Nodup) (F : ForestOK t.variants)
    (x : Option Str × Variant) (hx : x ∈ subVs none t.variants) :
    secName (type0Of d x.1 x.2.uid) x.2.uid = secName x.2.type x.2.uid := by
  unfold type0Of
  cases hp : x.1 with
  | none =>
    have hmem := top_mem_of_none t.variants x hx hp
    have hne := F.topNotAddon _ hmem
    rw [secName_not_addon _ hne]
    have : ([] : Str) ≠ tAddon := by decide
    exact secName_not_addon _ this
  | some p =>
    simp only
    have hsec := V.hasSection_of (s := secName tAddon x.2.uid) (secName_nonempty _ _).2
    by_cases ht : x.2.type = tAddon
    · have hl := L_variant hn x hx
      rw [ht] at hl
      rw [hsec, hl, ht]; rfl
    · have hnone : (docList t g).lookup (secName tAddon x.2.uid) = none := by
        cases hl : (docList t g).lookup (secName tAddon x.2.uid) with
        | none => rfl
        | some o =>
          exfalso
          obtain ⟨y, hy, hs, _⟩ := L_variant_inv (secName_headAV _ _) hl
          rw [secName_addon] at hs
          by_cases hyt : y.2.type = tAddon
          · rw [hyt, secName_addon] at hs
            have hu : x.2.uid = y.2.uid := List.append_cancel_left hs
            have := uid_inj F.uidsNodup hx hy hu
            rw [this] at ht; exact ht hyt
          · rw [secName_not_addon _ hyt, pAddon_eq, pVariant_eq] at hs
            cases hs
      rw [hsec, hnone]
      have : tVariant ≠ tAddon := by decide
      simp only [Option.isSome_none, Bool.false_eq_true, if_false]
      rw [secName_not_addon _ this, secName_not_addon _ ht]

theorem readV_step (V : View C (docList t g) d) (hn : ((docList t g).map (·.1)).Nodup) (F : ForestOK t.variants)
    (f : Nat) (x : Option Str × Variant) (hx : x ∈ subVs none t.variants)
    (ih : ∀ v ∈ x.2.kids, deVariant .v1_0 d f (some x.2.uid) v.uid = .ok (normV false v))
    (hv : ValidV x.1 (normV x.1.isNone x.2)) :
    deVariant .v1_0 d (f + 1) x.1 x.2.uid = .ok (normV x.1.isNone x.2) := by
  have hsecname := reader_section V hn F x hx
  have hL := L_variant hn x hx
  have hkn := kids_uids_nodup F.uidsNodup x hx
  have hkid := F.kidIds x hx
  have huok := F.uidsOK x hx
  obtain ⟨pu, w⟩ := x
  obtain ⟨key, id, uid, name, type, paths, kids⟩ := w
  simp only [Variant.uid, Variant.type, Variant.kids] at hsecname hL hkn hkid huok ih hv ⊢
  obtain ⟨l1, l2, l3, l4, l5, l6, l7⟩ := varOpts_lookup pu key id uid name type paths kids
  obtain ⟨hne1, hne2⟩ := secName_nonempty type uid
  have g1 := V.get_of hL l1 (by decide)
  have g2 := V.get_of hL l2 (by decide)
  have g3 := V.get_of hL l3 (by decide)
  have g4 := V.get_of hL l4 (by decide)
  have hempty : uid.isEmpty = false := by
    cases uid with
    | nil => exact absurd rfl huok.1
    | cons _ _ => rfl
  -- children
  have hopt : hasOption d (secName type uid) kAddons = !kids.isEmpty := by
    rw [V.hasOption_of hL (by decide) hne1 hne2, l7]
    cases kids.isEmpty <;> rfl
  have hkids : kids.isEmpty = false →
      Ini.get d (secName type uid) kAddons = .ok (Str.joinWith ',' (Str.sortDedup (kids.map Variant.uid))) ∧
      splitNonEmpty (Str.joinWith ',' (Str.sortDedup (kids.map Variant.uid))) = (sortBy Variant.uid kids).map Variant.uid ∧
      loopAdd (deVariant .v1_0 d f (some uid)) ((sortBy Variant.uid kids).map Variant.uid) [] =
        .ok (sortBy Variant.uid (normVs kids)) := by
    intro hke
    have g7 := V.get_of hL (by rw [l7, hke]; rfl) (by decide)
    have huids : ∀ u ∈ Str.sortDedup (kids.map Variant.uid), u ≠ [] ∧ ',' ∉ u := by
      intro u hu
      obtain ⟨v, hvm, rfl⟩ := List.mem_map.mp ((mem_sortDedup u _).mp hu)
      exact F.uidsOK (some uid, v) (kid_mem_subVs t.variants none _ hx v hvm)
    refine ⟨g7, ?_, ?_⟩
    · rw [splitNonEmpty_join _ (fun u hu => (huids u hu).1) (fun u hu => (huids u hu).2), sortDedup_nodup _ hkn,
        sortS_map_key]
    · have hloop := loopAdd_ok (deVariant .v1_0 d f (some uid)) (normV false) (sortBy Variant.uid kids) []
        (fun v hvm => ih v ((mem_sortBy _ _ _).mp hvm))
        (by
          simp only [List.nil_append, List.map_map]
          have : (Variant.key ∘ normV false) = Variant.id := by
            funext v; simp [Function.comp, normV_key]
          rw [this]
          exact nodup_map_sortBy _ _ _ hkid)
      rw [hloop, List.nil_append, normVs_eq_map]
      exact congrArg _ (sortBy_map_same Variant.uid Variant.uid (normV false) (fun v => normV_uid false v) kids).symm
  have hpaths := dePaths_ok V paths hL hne1 hne2 l5 Gen.TREEINFO_PATH_FIELDS (fun _ h => h)
  have hvp : validateClass "treeinfo.VariantPaths" [] = .ok () := by decide +kernel
  have hvalid : validateClass "treeinfo.Variant" (variantObj pu id uid name type (sortBy Variant.uid (normVs kids))) = .ok () := by
    simp only [normV, ValidV] at hv
    exact hv.1
  have huid_ne : uid ≠ [] := huok.1
  rw [deVariant.eq_def]
  simp only [hempty, Bool.false_eq_true, if_false, hsecname, g1, g2, g3, g4, hopt, hpaths, hvp]
  cases hke : kids.isEmpty
  · obtain ⟨k1, k2, k3⟩ := hkids hke
    simp only [Bool.not_false, if_true, k1, k2, k3, hvalid]
    cases pu <;> simp [normV, pathOpts, huid_ne]
  · have : kids = [] := by simpa using hke
    subst this
    simp only [normVs, sortBy, List.foldr_nil] at hvalid
    cases pu <;> simp [normV, pathOpts, huid_ne, hvalid, normVs, sortBy]

/-! ### the whole forest -/

theorem height_mem : ∀ (vs : List Variant) (v : Variant), v ∈ vs → height v ≤ heights vs
  | [], _, h => by cases h
  | w :: ws, v, h => by
    simp only [heights]
    cases h with
    | head => omega
    | tail _ h => have := height_mem ws v h; omega

theorem height_kids (w : Variant) : heights w.kids + 1 = height w := by cases w; rfl

theorem validV_kids (pu : Option Str) (b : Bool) (w : Variant) (h : ValidV pu (normV b w)) :
    ∀ v ∈ w.kids, ValidV (some w.uid) (normV false v) := by
  obtain ⟨key, id, uid, name, type, paths, kids⟩ := w
  simp only [normV, ValidV] at h
  intro v hv
  have := (ValidVs_iff (some uid) _).mp h.2 (normV false v)
  apply this
  rw [mem_sortBy, normVs_eq_map]
  exact List.mem_map.mpr ⟨v, hv, rfl⟩

theorem readV (V : View C (docList t g) d) (hn : ((docList t g).map (·.1)).Nodup) (F : ForestOK t.variants) :
    ∀ (f : Nat) (x : Option Str × Variant), x ∈ subVs none t.variants → height x.2 ≤ f →
      ValidV x.1 (normV x.1.isNone x.2) → deVariant .v1_0 d f x.1 x.2.uid = .ok (normV x.1.isNone x.2)
  | 0, x, _, hh, _ => by
    have := height_kids x.2
    omega
  | f + 1, x, hx, hh, hv => by
    apply readV_step V hn F f x hx _ hv
    intro v hvm
    have hk := kid_mem_subVs t.variants none x hx v hvm
    have h1 := height_mem _ _ hvm
    have h2 := height_kids x.2
    exact readV V hn F f (some x.2.uid, v) hk (by simp only; omega) (validV_kids x.1 _ x.2 hv v hvm)

theorem tops_nonempty {t : TreeInfo} {mv : Option Str} {key : Str} {chosen : Variant}
    (h1 : chosenKey t.variants mv = .ok key) (h2 : getItem (key.length + 1) t.variants key = .ok chosen) : t.variants ≠ [] := by
  intro he
  rw [he] at h2
  simp [getItem] at h2
  split at h2 <;> try cases h2
  split at h2 <;> cases h2

theorem deTops_ok (V : View C (docList t g) d) (hn : ((docList t g).map (·.1)).Nodup) (F : ForestOK t.variants)
    (hne : t.variants ≠ [])
    (hvf : ValidVs none (sortBy Variant.uid (normTops t.variants)))
    (hv : validateClass "treeinfo.Variants" (variantsObj (sortBy Variant.uid (normTops t.variants))) = .ok ()) :
    deTops .v1_0 d = .ok (sortBy Variant.uid (normTops t.variants)) := by
  have hL := L_tree t g
  obtain ⟨_, _, _, l4⟩ := treeOptsFull_lookup t
  have ho : hasOption d sTree kVariants = true := by
    rw [V.hasOption_of hL (by decide) (by decide) (by decide), l4]; rfl
  have hg := V.get_of hL l4 (by decide)
  have huok : ∀ u ∈ sortS (t.variants.map Variant.uid), ',' ∉ u := by
    intro u hu
    obtain ⟨v, hvm, rfl⟩ := List.mem_map.mp ((mem_sortS _ u).mp hu)
    exact (F.uidsOK (none, v) (self_mem_subVs none _ v hvm)).2
  have hsplit : Str.splitOn ',' (Str.joinWith ',' (sortS (t.variants.map Variant.uid))) = (sortBy Variant.uid t.variants).map Variant.uid := by
    rw [splitOn_joinWith ',' _ _ huok, sortS_map_key]
    intro e
    have : (sortS (t.variants.map Variant.uid)).length = 0 := by rw [e]; rfl
    rw [(sortS_perm _).length_eq, List.length_map] at this
    exact hne (List.eq_nil_of_length_eq_zero this)
  have hvalid : ∀ v ∈ t.variants, ValidV none (normV true v) := by
    intro v hvm
    apply (ValidVs_iff none _).mp hvf
    rw [mem_sortBy, normTops_eq_map]
    exact List.mem_map.mpr ⟨v, hvm, rfl⟩
  have hfuel := heights_le_docList t g
  rw [← V.length] at hfuel
  have hloop := loopAdd_ok (deVariant .v1_0 d (d.length + 1) none) (normV true) (sortBy Variant.uid t.variants) []
    (fun v hvm => by
      have hm := (mem_sortBy _ _ _).mp hvm
      have := readV V hn F (d.length + 1) (none, v) (self_mem_subVs none _ v hm)
        (by have := height_mem _ _ hm; simp only; omega) (hvalid v hm)
      simpa using this)
    (by
      simp only [List.nil_append, List.map_map]
      have : (Variant.key ∘ normV true) = Variant.uid := by
        funext v; simp [Function.comp, normV_key]
      rw [this]
      exact nodup_map_sortBy _ _ _ (tops_uids_nodup F.uidsNodup))
  have hres : (sortBy Variant.uid t.variants).map (normV true) = sortBy Variant.uid (normTops t.variants) := by
    rw [normTops_eq_map]
    exact (sortBy_map_same Variant.uid Variant.uid (normV true) (fun v => normV_uid true v) _).symm
  unfold deTops
  simp only [ho, if_true, hg, Except.map, hsplit, bind, Except.bind, pure, Except.pure, hloop, List.nil_append, hres, hv]

end TI
end PM
