import ProductMD.Model.Ini
/-!
Get/set algebra of INI documents: what `add_section` / `set` do to later lookups, and to the list of section
names.  A document is only ever observed through `lookup` (and `sections`), so these lemmas are all the
writer/reader proofs need.
-/
namespace PM
namespace Ini

theorem lookup_cons_eq {α} (a k : Str) (b : α) (es : List (Str × α)) :
    ((k, b) :: es).lookup a = if k = a then some b else es.lookup a := by
  by_cases h : k = a
  · subst h; simp [List.lookup]
  · have : (a == k) = false := by
      simp only [beq_eq_false_iff_ne, ne_eq]; exact fun h' => h h'.symm
    simp [List.lookup, this, h]

theorem lookup_setKV {α} (k k' : Str) (v : α) (l : List (Str × α)) :
    (setKV k v l).lookup k' = if k = k' then some v else l.lookup k' := by
  induction l with
  | nil => simp [setKV, lookup_cons_eq]
  | cons x xs ih =>
    obtain ⟨xk, xv⟩ := x
    by_cases hx : xk = k
    · subst hx
      by_cases h1 : xk = k' <;> simp [setKV, lookup_cons_eq, h1]
    · have hb : (xk == k) = false := by simp [hx]
      by_cases h1 : xk = k'
      · subst h1
        have : ¬ k = xk := fun h => hx h.symm
        simp [setKV, hb, lookup_cons_eq, this]
      · simp [setKV, hb, lookup_cons_eq, h1, ih]

theorem keys_setKV_of_mem {α} (k : Str) (v : α) (l : List (Str × α)) (h : (l.lookup k).isSome) :
    (setKV k v l).map (·.1) = l.map (·.1) := by
  induction l with
  | nil => simp [List.lookup] at h
  | cons x xs ih =>
    obtain ⟨xk, xv⟩ := x
    by_cases hx : xk = k
    · subst hx; simp [setKV]
    · have hb : (xk == k) = false := by simp [hx]
      rw [lookup_cons_eq] at h
      simp only [hx, if_false] at h
      simp [setKV, hb, ih h]

theorem length_setKV_of_mem {α} (k : Str) (v : α) (l : List (Str × α)) (h : (l.lookup k).isSome) :
    (setKV k v l).length = l.length := by
  have := congrArg List.length (keys_setKV_of_mem k v l h)
  simpa using this

theorem lookup_append_single {α} (d : List (Str × α)) (s s' : Str) (x : α) (h : d.lookup s = none) :
    (d ++ [(s, x)]).lookup s' = if s = s' then some x else d.lookup s' := by
  induction d with
  | nil => simp [lookup_cons_eq]
  | cons y ys ih =>
    obtain ⟨yk, yv⟩ := y
    rw [lookup_cons_eq] at h
    by_cases hy : yk = s
    · simp [hy] at h
    · simp only [hy, if_false] at h
      simp only [List.cons_append, lookup_cons_eq, ih h]
      by_cases h1 : yk = s'
      · subst h1
        have : ¬ s = yk := fun h => hy h.symm
        simp [this]
      · simp [h1]

/-- `add_section`: fails on an existing name, otherwise adds an empty section and nothing else -/
theorem addSection_ok {d d' : Ini} {s : Str} (h : addSection d s = .ok d') :
    d.lookup s = none ∧ d' = d ++ [(s, [])] ∧ ∀ s', d'.lookup s' = if s = s' then some [] else d.lookup s' := by
  unfold addSection at h
  split at h
  · cases h
  · split at h
    · cases h
    · rename_i h2
      have hn : d.lookup s = none := by
        cases hl : d.lookup s with
        | none => rfl
        | some x => simp [hl] at h2
      injection h with h
      subst h
      exact ⟨hn, rfl, fun s' => lookup_append_single d s s' [] hn⟩

theorem set_ok {d d' : Ini} {s k v : Str} (h : Ini.set d s k v = .ok d') :
    ∃ o, d.lookup s = some o ∧ d'.map (·.1) = d.map (·.1) ∧
      ∀ s', d'.lookup s' = if s = s' then some (setKV k v o) else d.lookup s' := by
  unfold Ini.set at h
  cases hl : d.lookup s with
  | none => simp [hl] at h
  | some o =>
    simp only [hl] at h
    injection h with h
    subst h
    exact ⟨o, rfl, keys_setKV_of_mem s _ d (by simp [hl]), fun s' => lookup_setKV s s' _ d⟩

/-- the options a run of `set` calls leaves in a section -/
def setsKV (o : IniSec) (kvs : List (Str × Str)) : IniSec := kvs.foldl (fun o kv => setKV kv.1 kv.2 o) o

theorem lookup_setsKV (kvs : List (Str × Str)) (o : IniSec) (k : Str) :
    (setsKV o kvs).lookup k = match (kvs.reverse).lookup k with | some v => some v | none => o.lookup k := by
  induction kvs generalizing o with
  | nil => simp [setsKV]
  | cons kv rest ih =>
    obtain ⟨a, b⟩ := kv
    have : setsKV o ((a, b) :: rest) = setsKV (setKV a b o) rest := rfl
    rw [this, ih]
    simp only [List.reverse_cons]
    cases hr : rest.reverse.lookup k with
    | some v =>
      have : (rest.reverse ++ [(a, b)]).lookup k = some v := by
        rw [List.lookup_append]; simp [hr]
      simp [this]
    | none =>
      have : (rest.reverse ++ [(a, b)]).lookup k = if a = k then some b else none := by
        rw [List.lookup_append]
        by_cases h : a = k
        · subst h; simp [hr]
        · have h' : ¬ k = a := fun e => h e.symm
          simp [hr, h, h']
      rw [this, lookup_setKV]
      by_cases h : a = k <;> simp [h]

end Ini
end PM
