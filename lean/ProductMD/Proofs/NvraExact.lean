import ProductMD.Proofs.DtrExact
import ProductMD.Spec.NvraDirect
/-!
`RPM_NVRA_RE` on EVERY string: the first success of the backtracking search equals the directly written parser of
`Spec/NvraDirect.lean`, tail by tail.  `x` is the first line (no line feed), `r` what follows it (`Tail r`: empty or
starting with the line feed); the tails are run on `x ++ r`.
-/
namespace PM.NvraExact
open PM PM.First PM.Spec PM.Dec PM.NvraProof

/-- what follows the first line: nothing, or something that starts with a character `.` does not match -/
def Tail (r : Str) : Prop := ∀ y t, r = y :: t → Cls.any.mem y = false

/-! ### `lastSplit` -/
theorem lastSplit_none (d : Char) (ok : Str → Bool) : ∀ x, lastSplit d ok x = none →
    ∀ a z, x = a ++ d :: z → ok z = false := by
  intro x
  induction x with
  | nil => intro _ a z h; cases a <;> simp at h
  | cons c cs ih =>
    intro h a z hx
    simp only [lastSplit] at h
    cases hl : lastSplit d ok cs with
    | some p => rw [hl] at h; simp at h
    | none =>
      rw [hl] at h
      simp only at h
      cases a with
      | nil =>
        simp at hx
        obtain ⟨rfl, rfl⟩ := hx
        cases ho : ok cs with
        | false => rfl
        | true => simp [ho] at h
      | cons c' a' =>
        simp at hx
        exact ih hl a' z hx.2

theorem lastSplit_some (d : Char) (ok : Str → Bool) : ∀ x a b, lastSplit d ok x = some (a, b) →
    x = a ++ d :: b ∧ ok b = true ∧ ∀ w z, b = w ++ d :: z → ok z = false := by
  intro x
  induction x with
  | nil => intro a b h; simp [lastSplit] at h
  | cons c cs ih =>
    intro a b h
    simp only [lastSplit] at h
    cases hl : lastSplit d ok cs with
    | some p =>
      obtain ⟨a', b'⟩ := p
      rw [hl] at h
      simp only [Option.some.injEq, Prod.mk.injEq] at h
      obtain ⟨rfl, rfl⟩ := h
      obtain ⟨h1, h2, h3⟩ := ih a' b' hl
      exact ⟨by rw [h1]; rfl, h2, h3⟩
    | none =>
      rw [hl] at h
      simp only at h
      split at h
      · rename_i hc
        simp only [Option.some.injEq, Prod.mk.injEq] at h
        obtain ⟨rfl, rfl⟩ := h
        exact ⟨by rw [hc.1]; rfl, hc.2, fun w z hw => lastSplit_none d ok _ hl w z hw⟩
      · cases h

/-! ### splitting `x ++ r` inside `x` -/
theorem split_in_x {x r w t' : Str} (hr : Tail r) (hw : ∀ y ∈ w, Cls.any.mem y = true) (h : x ++ r = w ++ t') :
    ∃ a', x = w ++ a' ∧ t' = a' ++ r := by
  rcases List.append_eq_append_iff.mp h with ⟨a', h1, h2⟩ | ⟨b', h1, h2⟩
  · cases a' with
    | nil => exact ⟨[], by simpa using h1.symm, by simpa using h2.symm⟩
    | cons y ys =>
      have := hr y (ys ++ t') (by rw [h2]; rfl)
      rw [hw y (by rw [h1]; exact List.mem_append_right _ List.mem_cons_self)] at this
      cases this
  · exact ⟨b', h1, h2⟩

theorem not_mem_left {c : Char} {a b : Str} (h : c ∉ a ++ b) : c ∉ a := fun hm => h (List.mem_append_left _ hm)
theorem not_mem_right {c : Char} {a b : Str} (h : c ∉ a ++ b) : c ∉ b := fun hm => h (List.mem_append_right _ hm)
theorem not_mem_tail {c y : Char} {b : Str} (h : c ∉ y :: b) : c ∉ b := fun hm => h (List.mem_cons_of_mem _ hm)

/-! ### one `(.*)d` step of the pattern, generically -/
/-- `X` fails wherever `ok` says so ⇒ with no admissible split the whole step fails -/
theorem step_none (f n : Nat) (d : Char) (X : Re) (ok : Str → Bool) (x r : Str) (hx : '\n' ∉ x) (hr : Tail r)
    (hd : Cls.any.mem d = true)
    (hX : ∀ z, '\n' ∉ z → ok z = false → m f X (z ++ r) = [])
    (h : lastSplit d ok x = none) :
    m f (.cat (.grp n anyStar) (.cat (Re.lit d) X)) (x ++ r) = [] := by
  rw [m_cat, m_grp, anyStar, m_star]
  apply List.flatMap_eq_nil_iff.mpr
  intro t' ht'
  obtain ⟨w, hw, hk⟩ := starAux_results f Cls.any f _ t' ht'
  obtain ⟨a', h1, h2⟩ := split_in_x hr hk hw
  subst h2
  cases a' with
  | nil =>
    simp only [List.nil_append]
    cases hr' : r with
    | nil => exact m_cls_cat_nil _ _ _
    | cons y t =>
      apply m_cls_cat_not
      apply lit_ne
      intro e
      have := hr y t hr'
      rw [e, hd] at this; cases this
  | cons y z =>
    by_cases hy : y = d
    · subst hy
      rw [List.cons_append, Re.lit, m_cls_cat_mem _ _ _ _ _ (lit_self y)]
      have hz : '\n' ∉ z := by rw [h1] at hx; exact not_mem_tail (not_mem_right hx)
      exact hX z hz (lastSplit_none y ok x h w z h1)
    · exact m_cls_cat_not _ _ _ _ _ (lit_ne hy)

/-- … and with the last admissible split `x = a ++ d :: b` the first success is `X`'s on `b`, group `n` = `a` -/
theorem step_some (f n : Nat) (d : Char) (X : Re) (ok : Str → Bool) (x r a b : Str) (c : Caps) (res : Str × Caps)
    (hx : '\n' ∉ x) (hr : Tail r) (hd : Cls.any.mem d = true) (hf : (x ++ r).length ≤ f)
    (hX : ∀ z, '\n' ∉ z → ok z = false → m f X (z ++ r) = [])
    (h : lastSplit d ok x = some (a, b))
    (hres : (mc f X (b ++ r) ((n, a) :: c)).head? = some res) :
    (mc f (.cat (.grp n anyStar) (.cat (Re.lit d) X)) (x ++ r) c).head? = some res := by
  obtain ⟨h1, _, h3⟩ := lastSplit_some d ok x a b h
  have hxa : '\n' ∉ a := by rw [h1] at hx; exact not_mem_left hx
  have hxb : '\n' ∉ b := by rw [h1] at hx; exact not_mem_tail (not_mem_right hx)
  have hs : x ++ r = a ++ (d :: (b ++ r)) := by rw [h1]; simp
  rw [hs, anyStar]
  apply first_grpstar_cat f Cls.any n _ a _ c res (any_all hxa) (by rw [← hs]; exact hf)
  · intro w t' hw ht hk
    cases w with
    | nil => exact absurd rfl hw
    | cons y w' =>
      simp only [List.cons_append, List.cons.injEq] at ht
      obtain ⟨a', g1, g2⟩ := split_in_x hr (fun y hy => hk y (List.mem_cons_of_mem _ hy)) ht.2
      subst g2
      cases a' with
      | nil =>
        simp only [List.nil_append]
        cases hr' : r with
        | nil => exact m_cls_cat_nil _ _ _
        | cons y' t =>
          apply m_cls_cat_not
          apply lit_ne
          intro e
          have := hr y' t hr'
          rw [e, hd] at this; cases this
      | cons y' z =>
        by_cases hy : y' = d
        · subst hy
          rw [List.cons_append, Re.lit, m_cls_cat_mem _ _ _ _ _ (lit_self y')]
          have hz : '\n' ∉ z := by rw [g1] at hxb; exact not_mem_tail (not_mem_right hxb)
          exact hX z hz (h3 w' z g1)
        · exact m_cls_cat_not _ _ _ _ _ (lit_ne hy)
  · rw [mc_lit_cat]; exact hres

/-! ### arch and end of string -/
theorem isEol_cons_append {y : Char} {a r : Str} (hy : y ≠ '\n') : isEol (y :: a ++ r) = false := by
  simp [isEol, hy]

theorem t7_some (f : Nat) (x r : Str) (c : Caps) (hx : '\n' ∉ x) (hr : Tail r) (he : isEol r = true)
    (hf : (x ++ r).length ≤ f) : (mc f nvT7 (x ++ r) c).head? = some (r, (7, x) :: c) := by
  apply first_grpstar_cat f Cls.any 7 .eol x r c _ (any_all hx) hf
  · intro w t' hw ht hk
    cases w with
    | nil => exact absurd rfl hw
    | cons y w' =>
      have := hr y (w' ++ t') (by rw [ht]; rfl)
      rw [hk y List.mem_cons_self] at this; cases this
  · rw [mc_eol, he]; rfl

theorem t7_none (f : Nat) (x r : Str) (hx : '\n' ∉ x) (hr : Tail r) (he : isEol r = false) :
    m f nvT7 (x ++ r) = [] := by
  rw [nvT7, m_cat, m_grp, anyStar, m_star]
  apply List.flatMap_eq_nil_iff.mpr
  intro t' ht'
  obtain ⟨w, hw, hk⟩ := starAux_results f Cls.any f _ t' ht'
  obtain ⟨a', h1, h2⟩ := split_in_x hr hk hw
  subst h2
  rw [m_eol]
  cases a' with
  | nil => simp [he]
  | cons y z =>
    have hy : y ≠ '\n' := fun e => hx (by rw [h1, e]; exact List.mem_append_right _ List.mem_cons_self)
    rw [isEol_cons_append hy]; rfl

theorem any_dot : Cls.any.mem '.' = true := by decide
theorem any_dash : Cls.any.mem '-' = true := by decide
theorem any_slash : Cls.any.mem '/' = true := by decide

/-! ### release.arch -/
theorem t6_none (f : Nat) (e : Bool) (x r : Str) (hx : '\n' ∉ x) (hr : Tail r) (he : isEol r = e)
    (h : p6 e x = none) : m f nvT6 (x ++ r) = [] := by
  apply step_none f 6 '.' nvT7 (fun _ => e) x r hx hr any_dot _ h
  intro z hz hok
  exact t7_none f z r hz hr (by rw [he]; exact hok)

theorem t6_some (f : Nat) (e : Bool) (x r rl a : Str) (c : Caps) (hx : '\n' ∉ x) (hr : Tail r) (he : isEol r = e)
    (hf : (x ++ r).length ≤ f) (h : p6 e x = some (rl, a)) :
    (mc f nvT6 (x ++ r) c).head? = some (r, (7, a) :: (6, rl) :: c) := by
  obtain ⟨h1, h2, _⟩ := lastSplit_some '.' (fun _ => e) x rl a h
  have h2 : e = true := h2
  have ha : '\n' ∉ a := by rw [h1] at hx; exact not_mem_tail (not_mem_right hx)
  apply step_some f 6 '.' nvT7 (fun _ => e) x r rl a c _ hx hr any_dot hf _ h
  · exact t7_some f a r _ ha hr (by rw [he, h2]) (by rw [h1] at hf; simp at hf ⊢; omega)
  · intro z hz hok
    exact t7_none f z r hz hr (by rw [he]; exact hok)

/-! ### version-release.arch -/
theorem p5_none {e : Bool} {x : Str} (h : p5 e x = none) : lastSplit '-' (fun z => (p6 e z).isSome) x = none := by
  unfold p5 at h
  cases hl : lastSplit '-' (fun z => (p6 e z).isSome) x with
  | none => rfl
  | some p =>
    obtain ⟨v, z⟩ := p
    rw [hl] at h
    obtain ⟨_, h2, _⟩ := lastSplit_some _ _ x v z hl
    simp only at h h2
    cases hp : p6 e z with
    | none => rw [hp] at h2; cases h2
    | some ra => rw [hp] at h; simp at h

theorem p5_some {e : Bool} {x v rl a : Str} (h : p5 e x = some (v, rl, a)) :
    ∃ z, lastSplit '-' (fun z => (p6 e z).isSome) x = some (v, z) ∧ p6 e z = some (rl, a) := by
  unfold p5 at h
  cases hl : lastSplit '-' (fun z => (p6 e z).isSome) x with
  | none => rw [hl] at h; cases h
  | some p =>
    obtain ⟨v', z⟩ := p
    rw [hl] at h
    simp only at h
    cases hp : p6 e z with
    | none => rw [hp] at h; cases h
    | some ra =>
      rw [hp] at h
      simp only [Option.map, Option.some.injEq, Prod.mk.injEq] at h
      obtain ⟨rfl, h2, h3⟩ := h
      exact ⟨z, rfl, by rw [← h2, ← h3]; exact hp⟩

theorem t6_fail_of (f : Nat) (e : Bool) (r : Str) (hr : Tail r) (he : isEol r = e) :
    ∀ z, '\n' ∉ z → (p6 e z).isSome = false → m f nvT6 (z ++ r) = [] := by
  intro z hz hok
  apply t6_none f e z r hz hr he
  cases hp : p6 e z with
  | none => rfl
  | some _ => rw [hp] at hok; cases hok

theorem t5_none (f : Nat) (e : Bool) (x r : Str) (hx : '\n' ∉ x) (hr : Tail r) (he : isEol r = e)
    (h : p5 e x = none) : m f nvT5 (x ++ r) = [] :=
  step_none f 5 '-' nvT6 _ x r hx hr any_dash (t6_fail_of f e r hr he) (p5_none h)

theorem t5_some (f : Nat) (e : Bool) (x r v rl a : Str) (c : Caps) (hx : '\n' ∉ x) (hr : Tail r) (he : isEol r = e)
    (hf : (x ++ r).length ≤ f) (h : p5 e x = some (v, rl, a)) :
    (mc f nvT5 (x ++ r) c).head? = some (r, (7, a) :: (6, rl) :: (5, v) :: c) := by
  obtain ⟨z, hl, hp⟩ := p5_some h
  obtain ⟨h1, _, _⟩ := lastSplit_some _ _ x v z hl
  have hz : '\n' ∉ z := by rw [h1] at hx; exact not_mem_tail (not_mem_right hx)
  apply step_some f 5 '-' nvT6 _ x r v z c _ hx hr any_dash hf (t6_fail_of f e r hr he) hl
  exact t6_some f e z r rl a _ hz hr he (by rw [h1] at hf; simp at hf ⊢; omega) hp

/-! ### optional epoch -/
theorem span_run (p : Char → Bool) : ∀ (w : Str) (d : Char) (y : Str), (∀ c ∈ w, p c = true) → p d = false →
    (w ++ d :: y).takeWhile p = w ∧ (w ++ d :: y).dropWhile p = d :: y := by
  intro w
  induction w with
  | nil => intro d y _ hd; simp [hd]
  | cons c cs ih =>
    intro d y hw hd
    have hc := hw c List.mem_cons_self
    obtain ⟨h1, h2⟩ := ih d y (fun c' hc' => hw c' (List.mem_cons_of_mem _ hc')) hd
    simp [hc, h1, h2]

theorem epochSplit_of (w y : Str) (hw : w ≠ []) (hd : ∀ c ∈ w, digitCls.mem c = true) :
    epochSplit (w ++ ':' :: y) = some (w, y) := by
  obtain ⟨h1, h2⟩ := span_run digitCls.mem w ':' y hd colon_not_digit
  simp [epochSplit, h1, h2, hw]

theorem epochSplit_spec {x D y : Str} (h : epochSplit x = some (D, y)) :
    x = D ++ ':' :: y ∧ D ≠ [] ∧ ∀ c ∈ D, digitCls.mem c = true := by
  obtain ⟨hsplit, hall, _⟩ := PM.IdProof.span_spec digitCls.mem x
  unfold epochSplit at h
  cases hdw : x.dropWhile digitCls.mem with
  | nil => rw [hdw] at h; cases h
  | cons c y' =>
    rw [hdw] at h
    simp only at h
    split at h
    · rename_i hc
      simp only [Option.some.injEq, Prod.mk.injEq] at h
      obtain ⟨rfl, rfl⟩ := h
      refine ⟨?_, hc.2, hall⟩
      rw [hdw, hc.1] at hsplit
      exact hsplit
    · cases h

/-- every way the epoch group can match leaves the same rest, the one `epochSplit` finds -/
theorem epoch_unique (f : Nat) (x r t : Str) (hr : Tail r) (h : t ∈ m f nvG3 (x ++ r)) :
    ∃ D y, epochSplit x = some (D, y) ∧ t = y ++ r := by
  simp only [nvG3, m_grp] at h
  obtain ⟨w, hw, hs, hk⟩ := epoch_sound f _ t h
  have hany : ∀ c ∈ w ++ [':'], Cls.any.mem c = true := by
    intro c hc
    rcases List.mem_append.mp hc with hc | hc
    · apply any_mem
      intro e
      have := hk c hc
      rw [e, PM.IdProof.nl_not_digit] at this; cases this
    · simp at hc; subst hc; decide
  obtain ⟨y, h1, h2⟩ := split_in_x (t' := t) hr hany (by rw [hs]; simp)
  refine ⟨w, y, ?_, h2⟩
  rw [h1, List.append_assoc]
  exact epochSplit_of w y hw hk

theorem t5_fail_of (f : Nat) (e : Bool) (r : Str) (hr : Tail r) (he : isEol r = e) :
    ∀ z, '\n' ∉ z → p5 e z = none → m f nvT5 (z ++ r) = [] :=
  fun z hz h => t5_none f e z r hz hr he h

/-- `alt a eps` followed by `b` when `b` fails after every success of `a`: as if `a` were absent -/
theorem first_opt_fallthrough (f a b s c) (h : ∀ t ∈ m f a s, m f b t = []) :
    (mc f (.cat (.alt a .eps) b) s c).head? = (mc f b s c).head? := by
  rw [mc_opt_cat]
  have : (mc f a s c).flatMap (fun p => mc f b p.1 p.2) = [] := by
    apply List.flatMap_eq_nil_iff.mpr
    intro p hp
    exact mc_eq_nil_of_m _ (h p.1 (m_ne_nil_of_mc hp))
  rw [this]; rfl

theorem m_opt_cat (f a b s) : m f (.cat (.alt a .eps) b) s = (m f a s).flatMap (m f b) ++ m f b s := by
  rw [m_cat, m_alt, List.flatMap_append]; simp

theorem t4_none (f : Nat) (e : Bool) (x r : Str) (hx : '\n' ∉ x) (hr : Tail r) (he : isEol r = e)
    (h : p4 e x = none) : m f nvT4 (x ++ r) = [] := by
  have h5 : p5 e x = none := by
    unfold p4 at h
    cases hp : p5 e x with
    | none => rfl
    | some v =>
      rw [hp] at h
      cases hes : epochSplit x with
      | none => rw [hes] at h; simp at h
      | some Dy =>
        rw [hes] at h
        simp only at h
        cases hpy : p5 e Dy.2 with
        | none => rw [hpy] at h; simp at h
        | some _ => rw [hpy] at h; simp at h
  rw [nvT4, m_opt_cat, t5_none f e x r hx hr he h5, List.append_nil]
  apply List.flatMap_eq_nil_iff.mpr
  intro t ht
  obtain ⟨D, y, hes, rfl⟩ := epoch_unique f x r t hr ht
  obtain ⟨hxe, _, _⟩ := epochSplit_spec hes
  have hy : '\n' ∉ y := by rw [hxe] at hx; exact not_mem_tail (not_mem_right hx)
  apply t5_none f e y r hy hr he
  unfold p4 at h
  rw [hes] at h
  simp only at h
  cases hpy : p5 e y with
  | none => rfl
  | some _ => rw [hpy] at h; cases h

/-- the captures the epoch group leaves -/
def epc : Option Str → Caps
  | none => []
  | some D => [(3, D ++ [':']), (4, D)]

theorem t4_some (f : Nat) (e : Bool) (x r : Str) (ep : Option Str) (v rl a : Str) (c : Caps) (hx : '\n' ∉ x)
    (hr : Tail r) (he : isEol r = e) (hf : (x ++ r).length ≤ f) (h : p4 e x = some (ep, v, rl, a)) :
    (mc f nvT4 (x ++ r) c).head? = some (r, (7, a) :: (6, rl) :: (5, v) :: (epc ep ++ c)) := by
  unfold p4 at h
  cases hes : epochSplit x with
  | none =>
    rw [hes] at h
    simp only at h
    cases hp : p5 e x with
    | none => rw [hp] at h; cases h
    | some q =>
      rw [hp] at h
      simp only [Option.map, Option.some.injEq, Prod.mk.injEq] at h
      obtain ⟨rfl, rfl⟩ := h
      have hfail : m f nvG3 (x ++ r) = [] := by
        apply List.eq_nil_iff_forall_not_mem.mpr
        intro t ht
        obtain ⟨D, y, hes', _⟩ := epoch_unique f x r t hr ht
        rw [hes] at hes'; cases hes'
      rw [nvT4, first_opt_absent _ _ _ _ _ hfail]
      exact t5_some f e x r _ _ _ c hx hr he hf hp
  | some Dy =>
    obtain ⟨D, y⟩ := Dy
    rw [hes] at h
    simp only at h
    obtain ⟨hxe, hD, hDd⟩ := epochSplit_spec hes
    have hy : '\n' ∉ y := by rw [hxe] at hx; exact not_mem_tail (not_mem_right hx)
    cases hpy : p5 e y with
    | some q =>
      rw [hpy] at h
      simp only [Option.some.injEq, Prod.mk.injEq] at h
      obtain ⟨rfl, rfl⟩ := h
      have hs : x ++ r = D ++ ':' :: (y ++ r) := by rw [hxe]; simp
      rw [nvT4, hs]
      apply first_opt_present f nvG3 nvT5 _ c (y ++ r, (3, D ++ [':']) :: (4, D) :: c) _
        (epoch_present f D (y ++ r) c hD hDd (by rw [← hs]; exact hf))
      exact t5_some f e y r _ _ _ _ hy hr he (by rw [hs] at hf; simp at hf ⊢; omega) hpy
    | none =>
      rw [hpy] at h
      cases hp : p5 e x with
      | none => rw [hp] at h; cases h
      | some q =>
        rw [hp] at h
        simp only [Option.map, Option.some.injEq, Prod.mk.injEq] at h
        obtain ⟨rfl, rfl⟩ := h
        rw [nvT4, first_opt_fallthrough]
        · exact t5_some f e x r _ _ _ c hx hr he hf hp
        · intro t ht
          obtain ⟨D', y', hes', rfl⟩ := epoch_unique f x r t hr ht
          rw [hes] at hes'
          simp only [Option.some.injEq, Prod.mk.injEq] at hes'
          obtain ⟨_, rfl⟩ := hes'
          exact t5_none f e y r hy hr he hpy

/-! ### name -/
theorem t4_fail_of (f : Nat) (e : Bool) (r : Str) (hr : Tail r) (he : isEol r = e) :
    ∀ z, '\n' ∉ z → (p4 e z).isSome = false → m f nvT4 (z ++ r) = [] := by
  intro z hz hok
  apply t4_none f e z r hz hr he
  cases hp : p4 e z with
  | none => rfl
  | some _ => rw [hp] at hok; cases hok

theorem p2_none {e : Bool} {x : Str} (h : p2 e x = none) : lastSplit '-' (fun z => (p4 e z).isSome) x = none := by
  unfold p2 at h
  cases hl : lastSplit '-' (fun z => (p4 e z).isSome) x with
  | none => rfl
  | some p =>
    obtain ⟨v, z⟩ := p
    rw [hl] at h
    obtain ⟨_, h2, _⟩ := lastSplit_some _ _ x v z hl
    simp only at h h2
    cases hp : p4 e z with
    | none => rw [hp] at h2; cases h2
    | some ra => rw [hp] at h; simp at h

theorem p2_some {e : Bool} {x n : Str} {q : Option Str × Str × Str × Str} (h : p2 e x = some (n, q)) :
    ∃ z, lastSplit '-' (fun z => (p4 e z).isSome) x = some (n, z) ∧ p4 e z = some q := by
  unfold p2 at h
  cases hl : lastSplit '-' (fun z => (p4 e z).isSome) x with
  | none => rw [hl] at h; cases h
  | some p =>
    obtain ⟨v', z⟩ := p
    rw [hl] at h
    simp only at h
    cases hp : p4 e z with
    | none => rw [hp] at h; cases h
    | some ra =>
      rw [hp] at h
      simp only [Option.map, Option.some.injEq, Prod.mk.injEq] at h
      obtain ⟨rfl, rfl⟩ := h
      exact ⟨z, rfl, hp⟩

theorem t2_none (f : Nat) (e : Bool) (x r : Str) (hx : '\n' ∉ x) (hr : Tail r) (he : isEol r = e)
    (h : p2 e x = none) : m f nvT2 (x ++ r) = [] :=
  step_none f 2 '-' nvT4 _ x r hx hr any_dash (t4_fail_of f e r hr he) (p2_none h)

/-- all captures after the directory group, for the parts `(name, epoch, version, release, arch)` -/
def capsOf (q : Str × Option Str × Str × Str × Str) : Caps :=
  (7, q.2.2.2.2) :: (6, q.2.2.2.1) :: (5, q.2.2.1) :: (epc q.2.1 ++ [(2, q.1)])

theorem t2_some (f : Nat) (e : Bool) (x r : Str) (q : Str × Option Str × Str × Str × Str) (c : Caps) (hx : '\n' ∉ x)
    (hr : Tail r) (he : isEol r = e) (hf : (x ++ r).length ≤ f) (h : p2 e x = some q) :
    (mc f nvT2 (x ++ r) c).head? = some (r, capsOf q ++ c) := by
  obtain ⟨n, ep, v, rl, a⟩ := q
  obtain ⟨z, hl, hp⟩ := p2_some h
  obtain ⟨h1, _, _⟩ := lastSplit_some _ _ x n z hl
  have hz : '\n' ∉ z := by rw [h1] at hx; exact not_mem_tail (not_mem_right hx)
  apply step_some f 2 '-' nvT4 _ x r n z c _ hx hr any_dash hf (t4_fail_of f e r hr he) hl
  have := t4_some f e z r ep v rl a ((2, n) :: c) hz hr he (by rw [h1] at hf; simp at hf ⊢; omega) hp
  simpa [capsOf] using this

/-! ### directory -/
theorem t2_fail_of (f : Nat) (e : Bool) (r : Str) (hr : Tail r) (he : isEol r = e) :
    ∀ z, '\n' ∉ z → (p2 e z).isSome = false → m f nvT2 (z ++ r) = [] := by
  intro z hz hok
  apply t2_none f e z r hz hr he
  cases hp : p2 e z with
  | none => rfl
  | some _ => rw [hp] at hok; cases hok

/-- what the directory group can leave: `z ++ r` for a split `x = w ++ '/' :: z` -/
theorem dir_sound (f : Nat) (x r t : Str) (hr : Tail r) (h : t ∈ m f nvG1 (x ++ r)) :
    ∃ w z, x = w ++ '/' :: z ∧ t = z ++ r := by
  simp only [nvG1, m_grp, nvDir, m_cat, anyStar, m_star] at h
  obtain ⟨t', ht', ht⟩ := List.mem_flatMap.mp h
  obtain ⟨w, hw, hk⟩ := starAux_results f Cls.any f _ t' ht'
  obtain ⟨a', h1, h2⟩ := split_in_x hr hk hw
  subst h2
  cases a' with
  | nil =>
    exfalso
    simp only [List.nil_append] at ht
    cases hr' : r with
    | nil => rw [hr'] at ht; simp [Re.lit] at ht
    | cons y t0 =>
      rw [hr', Re.lit, m_cls_cons] at ht
      have hy : y ≠ '/' := by
        intro e
        have := hr y t0 hr'
        rw [e, any_slash] at this; cases this
      rw [lit_ne hy] at ht; simp at ht
  | cons y z =>
    rw [List.cons_append, Re.lit, m_cls_cons] at ht
    by_cases hy : y = '/'
    · subst hy
      rw [lit_self] at ht
      simp at ht
      exact ⟨w, z, h1, ht⟩
    · rw [lit_ne hy] at ht; simp at ht

theorem t1_none (f : Nat) (e : Bool) (x r : Str) (hx : '\n' ∉ x) (hr : Tail r) (he : isEol r = e)
    (h : p1 e x = none) : m f nvT1 (x ++ r) = [] := by
  unfold p1 at h
  rw [nvT1, m_opt_cat]
  cases hl : lastSplit '/' (fun z => (p2 e z).isSome) x with
  | some p =>
    exfalso
    obtain ⟨d, z⟩ := p
    rw [hl] at h
    simp only at h
    obtain ⟨_, h2, _⟩ := lastSplit_some _ _ x d z hl
    have h2 : (p2 e z).isSome = true := h2
    rw [h] at h2; cases h2
  | none =>
    rw [hl] at h
    simp only at h
    rw [t2_none f e x r hx hr he h, List.append_nil]
    apply List.flatMap_eq_nil_iff.mpr
    intro t ht
    obtain ⟨w, z, h1, rfl⟩ := dir_sound f x r t hr ht
    have hz : '\n' ∉ z := by rw [h1] at hx; exact not_mem_tail (not_mem_right hx)
    exact t2_fail_of f e r hr he z hz (lastSplit_none _ _ x hl w z h1)

/-- successes of `(.*)/` on `a ++ '/' :: t`: first the splits at later slashes, then `t` itself -/
theorem dir_decomp (f : Nat) (a t : Str) (c : Caps) (ha : '\n' ∉ a) (hf : (a ++ '/' :: t).length ≤ f) :
    ∃ L L2, mc f nvDir (a ++ '/' :: t) c = L ++ (t, c) :: L2 ∧
      ∀ p ∈ L, p.2 = c ∧ ∃ w, (∀ y ∈ w, Cls.any.mem y = true) ∧ t = w ++ '/' :: p.1 := by
  obtain ⟨L, L2, h1, h2⟩ := star_decomp f Cls.any a ('/' :: t) f c (any_all ha) hf
  refine ⟨L.flatMap (fun q => mc f (Re.lit '/') q.1 q.2), L2.flatMap (fun q => mc f (Re.lit '/') q.1 q.2), ?_, ?_⟩
  · rw [nvDir, mc_cat, anyStar, mc_star, h1, List.flatMap_append, List.flatMap_cons, mc_lit_self]
    rfl
  · intro p hp
    obtain ⟨q, hq, hpq⟩ := List.mem_flatMap.mp hp
    obtain ⟨hc, w, hw, hwt, hk⟩ := h2 q hq
    cases hq1 : q.1 with
    | nil => rw [hq1] at hpq; simp [Re.lit] at hpq
    | cons y z =>
      rw [hq1, Re.lit, mc_cls_cons] at hpq
      by_cases hy : y = '/'
      · subst hy
        rw [lit_self] at hpq
        simp at hpq
        subst hpq
        cases w with
        | nil => exact absurd rfl hw
        | cons y' w' =>
          rw [hq1] at hwt
          simp only [List.cons_append, List.cons.injEq] at hwt
          exact ⟨hc, w', fun y hy => hk y (List.mem_cons_of_mem _ hy), hwt.2⟩
      · rw [lit_ne hy] at hpq; simp at hpq

/-- capture of the unnamed directory group -/
def dcap : Option Str → Caps
  | none => []
  | some d => [(1, d ++ ['/'])]

theorem t1_some (f : Nat) (e : Bool) (x r : Str) (q : Str × Option Str × Str × Str × Str) (hx : '\n' ∉ x)
    (hr : Tail r) (he : isEol r = e) (hf : (x ++ r).length ≤ f) (h : p1 e x = some q) :
    ∃ d, (mc f nvT1 (x ++ r) []).head? = some (r, capsOf q ++ dcap d) := by
  unfold p1 at h
  cases hl : lastSplit '/' (fun z => (p2 e z).isSome) x with
  | none =>
    rw [hl] at h
    simp only at h
    refine ⟨none, ?_⟩
    rw [nvT1, first_opt_fallthrough]
    · simpa [dcap] using t2_some f e x r q [] hx hr he hf h
    · intro t ht
      obtain ⟨w, z, h1, rfl⟩ := dir_sound f x r t hr ht
      have hz : '\n' ∉ z := by rw [h1] at hx; exact not_mem_tail (not_mem_right hx)
      exact t2_fail_of f e r hr he z hz (lastSplit_none _ _ x hl w z h1)
  | some p =>
    obtain ⟨a, b⟩ := p
    rw [hl] at h
    simp only at h
    obtain ⟨h1, _, h3⟩ := lastSplit_some _ _ x a b hl
    have ha : '\n' ∉ a := by rw [h1] at hx; exact not_mem_left hx
    have hb : '\n' ∉ b := by rw [h1] at hx; exact not_mem_tail (not_mem_right hx)
    have hs : x ++ r = a ++ '/' :: (b ++ r) := by rw [h1]; simp
    refine ⟨some a, ?_⟩
    obtain ⟨L, L2, g1, g2⟩ := dir_decomp f a (b ++ r) [] ha (by rw [← hs]; exact hf)
    have hb2 := t2_some f e b r q [(1, a ++ ['/'])] hb hr he (by rw [hs] at hf; simp at hf ⊢; omega) h
    rw [nvT1, mc_opt_cat, nvG1, mc_grp, hs, g1, List.flatMap_map]
    have hhead : ((L ++ (b ++ r, []) :: L2).flatMap (fun p : Str × Caps =>
        mc f nvT2 p.1 ((1, (a ++ '/' :: (b ++ r)).take ((a ++ '/' :: (b ++ r)).length - p.1.length)) :: p.2))).head?
        = some (r, capsOf q ++ dcap (some a)) := by
      apply head_flatMap_skip _ L (b ++ r, []) L2
      · intro p hp
        obtain ⟨_, w, hw, hwt⟩ := g2 p hp
        apply mc_eq_nil_of_m
        obtain ⟨a', k1, k2⟩ := split_in_x hr (w := w ++ ['/']) (t' := p.1)
          (by intro y hy
              rcases List.mem_append.mp hy with hy | hy
              · exact hw y hy
              · simp at hy; subst hy; exact any_slash)
          (by rw [hwt]; simp)
        rw [k2]
        have hz : '\n' ∉ a' := by rw [k1] at hb; exact not_mem_right hb
        exact t2_fail_of f e r hr he a' hz (h3 w a' (by rw [k1]; simp))
      · have htake : (a ++ '/' :: (b ++ r)).take ((a ++ '/' :: (b ++ r)).length - (b ++ r).length) = a ++ ['/'] := by
          have := take_len_sub (a ++ ['/']) (b ++ r)
          simpa using this
        simp only [htake, dcap]
        exact hb2
    cases hl' : (L ++ (b ++ r, []) :: L2).flatMap (fun p : Str × Caps =>
        mc f nvT2 p.1 ((1, (a ++ '/' :: (b ++ r)).take ((a ++ '/' :: (b ++ r)).length - p.1.length)) :: p.2)) with
    | nil => rw [hl'] at hhead; simp at hhead
    | cons y ys => rw [hl'] at hhead; simpa using hhead

/-! ### the whole pattern on any string -/
theorem line_split (s : Str) : s = s.takeWhile Cls.any.mem ++ s.dropWhile Cls.any.mem
    ∧ '\n' ∉ s.takeWhile Cls.any.mem ∧ Tail (s.dropWhile Cls.any.mem) := by
  obtain ⟨h1, h2, h3⟩ := PM.IdProof.span_spec Cls.any.mem s
  refine ⟨h1, ?_, h3⟩
  intro hm
  have := h2 _ hm
  rw [PM.IdProof.any_nl] at this; cases this

theorem nvra_exact_none (s : Str)
    (h : p1 (isEol (s.dropWhile Cls.any.mem)) (s.takeWhile Cls.any.mem) = none) : pyMatch Spec.nvra s = none := by
  obtain ⟨hs, hx, hr⟩ := line_split s
  unfold pyMatch
  have : mc s.length Spec.nvra s [] = [] := by
    apply mc_eq_nil_of_m
    rw [Spec.nvra, m_cat]
    simp only [m_bol, List.flatMap_cons, List.flatMap_nil, List.append_nil]
    have key : m s.length nvT1 s = m s.length nvT1 (s.takeWhile Cls.any.mem ++ s.dropWhile Cls.any.mem) := by
      rw [← hs]
    rw [key]
    exact t1_none _ _ _ _ hx hr rfl h
  rw [this]; rfl

theorem nvra_exact_some (s : Str) (q : Str × Option Str × Str × Str × Str)
    (h : p1 (isEol (s.dropWhile Cls.any.mem)) (s.takeWhile Cls.any.mem) = some q) :
    ∃ d, pyMatch Spec.nvra s = some (capsOf q ++ dcap d) := by
  obtain ⟨hs, hx, hr⟩ := line_split s
  obtain ⟨d, hd⟩ := t1_some s.length _ _ _ q hx hr rfl (by rw [← hs]; exact Nat.le_refl _) h
  refine ⟨d, ?_⟩
  unfold pyMatch
  have key : (mc s.length nvT1 s []).head?
      = (mc s.length nvT1 (s.takeWhile Cls.any.mem ++ s.dropWhile Cls.any.mem) []).head? := by rw [← hs]
  rw [Spec.nvra, mc_bol_cat, key, hd]; rfl

/-! ### the epoch capture is never empty -/
theorem p4_epoch_ne {e : Bool} {z D : Str} {q : Str × Str × Str} (h : p4 e z = some (some D, q)) : D ≠ [] := by
  unfold p4 at h
  cases hes : epochSplit z with
  | none =>
    rw [hes] at h
    simp only at h
    cases hp : p5 e z with
    | none => rw [hp] at h; cases h
    | some _ => rw [hp] at h; simp at h
  | some Dy =>
    obtain ⟨D', y⟩ := Dy
    rw [hes] at h
    simp only at h
    cases hpy : p5 e y with
    | some _ =>
      rw [hpy] at h
      simp only [Option.some.injEq, Prod.mk.injEq] at h
      obtain ⟨rfl, _⟩ := h
      exact (epochSplit_spec hes).2.1
    | none =>
      rw [hpy] at h
      cases hp : p5 e z with
      | none => rw [hp] at h; cases h
      | some _ => rw [hp] at h; simp at h

theorem p2_epoch_ne {e : Bool} {x n D : Str} {q : Str × Str × Str} (h : p2 e x = some (n, some D, q)) : D ≠ [] := by
  obtain ⟨z, _, hp⟩ := p2_some h
  exact p4_epoch_ne hp

theorem p1_epoch_ne {e : Bool} {x n D : Str} {q : Str × Str × Str} (h : p1 e x = some (n, some D, q)) : D ≠ [] := by
  unfold p1 at h
  cases hl : lastSplit '/' (fun z => (p2 e z).isSome) x with
  | none => rw [hl] at h; exact p2_epoch_ne h
  | some p => rw [hl] at h; exact p2_epoch_ne h

/-! ### more than one line: nothing parses -/
theorem lastSplit_false (d : Char) : ∀ x, lastSplit d (fun _ => false) x = none := by
  intro x
  induction x with
  | nil => rfl
  | cons c cs ih => simp [lastSplit, ih]

theorem p6_false (x : Str) : p6 false x = none := lastSplit_false '.' x

theorem p5_false (x : Str) : p5 false x = none := by
  unfold p5
  have : (fun z => (p6 false z).isSome) = fun _ => false := by funext z; rw [p6_false]; rfl
  rw [this, lastSplit_false]

theorem p4_false (x : Str) : p4 false x = none := by
  unfold p4
  cases epochSplit x with
  | none => simp [p5_false]
  | some Dy => simp [p5_false]

theorem p2_false (x : Str) : p2 false x = none := by
  unfold p2
  have : (fun z => (p4 false z).isSome) = fun _ => false := by funext z; rw [p4_false]; rfl
  rw [this, lastSplit_false]

theorem p1_false (x : Str) : p1 false x = none := by
  unfold p1
  have : (fun z => (p2 false z).isSome) = fun _ => false := by funext z; rw [p2_false]; rfl
  rw [this, lastSplit_false]
  exact p2_false x

end PM.NvraExact
