import ProductMD.Proofs.JEq
/-!
"A rearrangement, element by element equivalent": `PermR R l l'` says `l'` is some permutation of `l` in which every element
was replaced by an `R`-related one.  This is the shape of every "unordered container" hypothesis of C08 (the model keeps
Python sets/dicts as lists in insertion or iteration order; quantifying over `PermR` quantifies over every such order).

Main lemma: two lists *sorted by a key*, with pairwise distinct keys, that are `PermR`-related by a key-preserving relation
are related element by element **in the same order** (`PermR.sorted_all2`) - a sort makes the order canonical.
Core Lean only.
-/
namespace PM

/-- element by element, same order -/
inductive All2 {α β} (R : α → β → Prop) : List α → List β → Prop
  | nil : All2 R [] []
  | cons {a b l l'} : R a b → All2 R l l' → All2 R (a :: l) (b :: l')

namespace All2
variable {α β γ δ : Type} {R : α → β → Prop}

theorem refl {R : α → α → Prop} (h : ∀ a, R a a) : ∀ l, All2 R l l
  | [] => .nil
  | a :: l => .cons (h a) (refl h l)

theorem length_eq : ∀ {l : List α} {l' : List β}, All2 R l l' → l.length = l'.length
  | _, _, .nil => rfl
  | _, _, .cons _ t => by simp [length_eq t]

theorem imp {S : α → β → Prop} (h : ∀ a b, R a b → S a b) : ∀ {l l'}, All2 R l l' → All2 S l l'
  | _, _, .nil => .nil
  | _, _, .cons r t => .cons (h _ _ r) (imp h t)

theorem map {S : γ → δ → Prop} (f : α → γ) (g : β → δ) (h : ∀ a b, R a b → S (f a) (g b)) :
    ∀ {l l'}, All2 R l l' → All2 S (l.map f) (l'.map g)
  | _, _, .nil => .nil
  | _, _, .cons r t => .cons (h _ _ r) (map f g h t)

/-- equal images under functions that agree on related elements -/
theorem map_eq (f : α → γ) (g : β → γ) (h : ∀ a b, R a b → f a = g b) : ∀ {l l'}, All2 R l l' → l.map f = l'.map g
  | _, _, .nil => rfl
  | _, _, .cons r t => by simp [h _ _ r, map_eq f g h t]

theorem filter (p : α → Bool) (q : β → Bool) (h : ∀ a b, R a b → p a = q b) :
    ∀ {l l'}, All2 R l l' → All2 R (l.filter p) (l'.filter q)
  | _, _, .nil => .nil
  | _, _, @All2.cons _ _ _ a b _ _ r t => by
    simp only [List.filter_cons, h a b r]
    split
    · exact .cons r (filter p q h t)
    · exact filter p q h t

theorem flip {R : α → β → Prop} : ∀ {l l'}, All2 R l l' → All2 (fun b a => R a b) l' l
  | _, _, .nil => .nil
  | _, _, .cons r t => .cons r (flip t)

theorem mem_left : ∀ {l : List α} {l' : List β}, All2 R l l' → ∀ a ∈ l, ∃ b ∈ l', R a b
  | _, _, .cons r t, a, ha => by
    rcases List.mem_cons.mp ha with rfl | ha
    · exact ⟨_, List.mem_cons_self, r⟩
    · obtain ⟨b, hb, hr⟩ := mem_left t a ha
      exact ⟨b, List.mem_cons_of_mem _ hb, hr⟩

theorem mem_right : ∀ {l : List α} {l' : List β}, All2 R l l' → ∀ b ∈ l', ∃ a ∈ l, R a b
  | _, _, .cons r t, b, hb => by
    rcases List.mem_cons.mp hb with rfl | hb
    · exact ⟨_, List.mem_cons_self, r⟩
    · obtain ⟨a, ha, hr⟩ := mem_right t b hb
      exact ⟨a, List.mem_cons_of_mem _ ha, hr⟩

theorem append : ∀ {l₁ : List α} {l₁' : List β} {l₂ l₂'}, All2 R l₁ l₁' → All2 R l₂ l₂' → All2 R (l₁ ++ l₂) (l₁' ++ l₂')
  | _, _, _, _, .nil, h => h
  | _, _, _, _, .cons r t, h => .cons r (append t h)

theorem trans {R : α → α → Prop} (ht : ∀ a b c, R a b → R b c → R a c) :
    ∀ {l₁ l₂ l₃ : List α}, All2 R l₁ l₂ → All2 R l₂ l₃ → All2 R l₁ l₃
  | _, _, _, .nil, .nil => .nil
  | _, _, _, .cons r t, .cons r' t' => .cons (ht _ _ _ r r') (trans ht t t')

end All2

/-- `l'` is a permutation of `l` up to `R` -/
def PermR {α} (R : α → α → Prop) (l l' : List α) : Prop := ∃ m, l.Perm m ∧ All2 R m l'

namespace PermR
variable {α β : Type} {R : α → α → Prop}

theorem of_perm (hr : ∀ a, R a a) {l l' : List α} (h : l.Perm l') : PermR R l l' := ⟨l', h, All2.refl hr l'⟩
theorem refl (hr : ∀ a, R a a) (l : List α) : PermR R l l := of_perm hr (List.Perm.refl l)
theorem of_all2 {l l' : List α} (h : All2 R l l') : PermR R l l' := ⟨l, List.Perm.refl l, h⟩

theorem length_eq {l l' : List α} (h : PermR R l l') : l.length = l'.length := by
  obtain ⟨m, hp, ha⟩ := h
  rw [hp.length_eq, ha.length_eq]

theorem map {S : β → β → Prop} (f : α → β) (h : ∀ a b, R a b → S (f a) (f b)) {l l' : List α} (hp : PermR R l l') :
    PermR S (l.map f) (l'.map f) := by
  obtain ⟨m, hp, ha⟩ := hp
  exact ⟨m.map f, hp.map f, ha.map f f h⟩

theorem filter (p : α → Bool) (h : ∀ a b, R a b → p a = p b) {l l' : List α} (hp : PermR R l l') :
    PermR R (l.filter p) (l'.filter p) := by
  obtain ⟨m, hp, ha⟩ := hp
  exact ⟨m.filter p, hp.filter p, ha.filter p p h⟩

theorem imp {S : α → α → Prop} (h : ∀ a b, R a b → S a b) {l l' : List α} (hp : PermR R l l') : PermR S l l' := by
  obtain ⟨m, hp, ha⟩ := hp
  exact ⟨m, hp, ha.imp h⟩

theorem mem_left {l l' : List α} (h : PermR R l l') : ∀ a ∈ l, ∃ b ∈ l', R a b := by
  obtain ⟨m, hp, ha⟩ := h
  intro a hm
  exact ha.mem_left a (hp.mem_iff.mp hm)

theorem mem_right {l l' : List α} (h : PermR R l l') : ∀ b ∈ l', ∃ a ∈ l, R a b := by
  obtain ⟨m, hp, ha⟩ := h
  intro b hm
  obtain ⟨a, ha', hr⟩ := ha.mem_right b hm
  exact ⟨a, hp.mem_iff.mpr ha', hr⟩

/-- images under a function that does not distinguish related elements are permutations of each other -/
theorem map_perm (f : α → β) (h : ∀ a b, R a b → f a = f b) {l l' : List α} (hp : PermR R l l') : (l.map f).Perm (l'.map f) := by
  obtain ⟨m, hp, ha⟩ := hp
  rw [← ha.map_eq f f h]
  exact hp.map f

/-- a permutation applied on the right can be moved to the left of the elementwise part -/
theorem all2_perm_swap : ∀ {l m m' : List α}, All2 R l m → m.Perm m' → ∃ l', l.Perm l' ∧ All2 R l' m' := by
  intro l m m' ha hp
  induction hp generalizing l with
  | nil => cases ha; exact ⟨[], List.Perm.refl _, .nil⟩
  | cons x _ ih =>
    cases ha with
    | cons r t =>
      obtain ⟨l', hp', ha'⟩ := ih t
      exact ⟨_ :: l', List.Perm.cons _ hp', .cons r ha'⟩
  | swap x y l₀ =>
    cases ha with
    | cons r t =>
      cases t with
      | cons r' t' => exact ⟨_ :: _ :: _, List.Perm.swap _ _ _, .cons r' (.cons r t')⟩
  | trans _ _ ih1 ih2 =>
    obtain ⟨l1, hp1, ha1⟩ := ih1 ha
    obtain ⟨l2, hp2, ha2⟩ := ih2 ha1
    exact ⟨l2, hp1.trans hp2, ha2⟩

theorem trans (ht : ∀ a b c, R a b → R b c → R a c) {l₁ l₂ l₃ : List α} (h1 : PermR R l₁ l₂) (h2 : PermR R l₂ l₃) :
    PermR R l₁ l₃ := by
  obtain ⟨m1, hp1, ha1⟩ := h1
  obtain ⟨m2, hp2, ha2⟩ := h2
  obtain ⟨m1', hp', ha'⟩ := all2_perm_swap ha1 hp2
  exact ⟨m1', hp1.trans hp', ha'.trans ht ha2⟩

theorem symm (hs : ∀ a b, R a b → R b a) {l l' : List α} (h : PermR R l l') : PermR R l' l := by
  obtain ⟨m, hp, ha⟩ := h
  have ha' : All2 R l' m := (ha.flip).imp (fun a b h => hs b a h)
  obtain ⟨m', hp', ha''⟩ := all2_perm_swap ha' hp.symm
  exact ⟨m', hp', ha''⟩

theorem append {l₁ l₁' l₂ l₂' : List α} (h1 : PermR R l₁ l₁') (h2 : PermR R l₂ l₂') : PermR R (l₁ ++ l₂) (l₁' ++ l₂') := by
  obtain ⟨m1, hp1, ha1⟩ := h1
  obtain ⟨m2, hp2, ha2⟩ := h2
  exact ⟨m1 ++ m2, hp1.append hp2, ha1.append ha2⟩

theorem cons {a b : α} {l l' : List α} (h : R a b) (hl : PermR R l l') : PermR R (a :: l) (b :: l') := by
  obtain ⟨m, hp, ha⟩ := hl
  exact ⟨a :: m, hp.cons a, .cons h ha⟩

/-- a property of the elements of the left list can be carried inside the relation -/
theorem strengthen {P : α → Prop} {l l' : List α} (h : PermR R l l') (hp : ∀ a ∈ l, P a) : PermR (fun a b => R a b ∧ P a) l l' := by
  obtain ⟨m, hm, ha⟩ := h
  refine ⟨m, hm, ?_⟩
  have hpm : ∀ a ∈ m, P a := fun a ha' => hp a (hm.mem_iff.mpr ha')
  clear hm
  induction ha with
  | nil => exact .nil
  | cons r _ ih => exact .cons ⟨r, hpm _ List.mem_cons_self⟩ (ih (fun a ha' => hpm a (List.mem_cons_of_mem _ ha')))

theorem any_eq (f : α → Bool) (h : ∀ a b, R a b → f a = f b) {l l' : List α} (hp : PermR R l l') : l.any f = l'.any f := by
  obtain ⟨m, hp, ha⟩ := hp
  rw [hp.any_eq]
  clear hp
  induction ha with
  | nil => rfl
  | cons r _ ih => simp only [List.any_cons, h _ _ r, ih]

theorem all_eq (f : α → Bool) (h : ∀ a b, R a b → f a = f b) {l l' : List α} (hp : PermR R l l') : l.all f = l'.all f := by
  obtain ⟨m, hp, ha⟩ := hp
  rw [hp.all_eq]
  clear hp
  induction ha with
  | nil => rfl
  | cons r _ ih => simp only [List.all_cons, h _ _ r, ih]

/-- **a sort makes the order canonical**: sorted by `key`, distinct keys, related by a key-preserving relation up to
permutation ⇒ related element by element in the same order -/
theorem sorted_all2 (key : α → Str) (hk : ∀ a b, R a b → key a = key b) {l l' : List α}
    (hs : l.Pairwise (fun a b => key a ≤ key b)) (hs' : l'.Pairwise (fun a b => key a ≤ key b))
    (hn : (l.map key).Nodup) (h : PermR R l l') : All2 R l l' := by
  obtain ⟨m, hp, ha⟩ := h
  have hkeys : m.map key = l'.map key := ha.map_eq key key hk
  have hsm : m.Pairwise (fun a b => key a ≤ key b) := by
    have : (m.map key).Pairwise (· ≤ ·) := by rw [hkeys]; exact List.pairwise_map.mpr hs'
    exact List.pairwise_map.mp this
  have : l = m := by
    apply List.Perm.eq_of_pairwise (le := fun a b => key a ≤ key b) _ hs hsm hp
    intro a b ha' hb' hab hba
    exact inj_of_nodup_map key hn ha' (hp.mem_iff.mpr hb') (List.le_antisymm hab hba)
  subst this
  exact ha

end PermR

/-! ### dicts from association lists with distinct keys -/

/-- two entry lists with distinct keys, the same key set, and `JEq` values under equal keys are the same content -/
theorem JEqD.of_lookup : ∀ {l l' : List (Str × PyVal)}, (l.map (·.1)).Nodup → (l'.map (·.1)).Nodup →
    (∀ k, k ∈ l.map (·.1) ↔ k ∈ l'.map (·.1)) → (∀ k v v', (k, v) ∈ l → (k, v') ∈ l' → JEq v v') → JEqD l l'
  | [], l', _, _, hk, _ => by
    cases l' with
    | nil => exact .nil
    | cons x xs => exact absurd ((hk x.1).mpr (by simp)) (by simp)
  | (k, v) :: rest, l', hn, hn', hk, hv => by
    have hkm : k ∈ l'.map (·.1) := (hk k).mp (by simp)
    obtain ⟨⟨k', v'⟩, hm, hkk⟩ := List.mem_map.mp hkm
    simp only at hkk
    subst hkk
    obtain ⟨s, t, rfl⟩ := List.mem_iff_append.mp hm
    have hperm : (s ++ (k', v') :: t).Perm ((k', v') :: (s ++ t)) := List.perm_middle
    have hn'' : (((k', v') :: (s ++ t)).map (·.1)).Nodup := (hperm.map (·.1)).nodup_iff.mp hn'
    simp only [List.map_cons, List.nodup_cons] at hn hn''
    refine .trans (.cons k' (hv k' v v' (by simp) hm) (JEqD.of_lookup (l := rest) (l' := s ++ t) hn.2 hn''.2 ?_ ?_))
      (JEqD.of_perm hperm.symm)
    · intro x
      have h1 := hk x
      simp only [List.map_cons, List.mem_cons, List.map_append, List.mem_append] at h1
      simp only [List.map_append, List.mem_append]
      constructor
      · intro hx
        have hne : x ≠ k' := fun e => hn.1 (e ▸ hx)
        rcases h1.mp (.inr hx) with h | h | h
        · exact .inl h
        · exact absurd h hne
        · exact .inr h
      · intro hx
        have hx' : x ∈ (s ++ t).map (·.1) := by simpa [List.map_append] using hx
        have hne : x ≠ k' := fun e => hn''.1 (e ▸ hx')
        rcases h1.mpr (hx.elim .inl (fun h => .inr (.inr h))) with h | h
        · exact absurd h hne
        · exact h
    · intro x a b ha hb
      refine hv x a b (List.mem_cons_of_mem _ ha) ?_
      rcases List.mem_append.mp hb with h | h
      · exact List.mem_append.mpr (.inl h)
      · exact List.mem_append.mpr (.inr (List.mem_cons_of_mem _ h))

end PM
