import ProductMD.Proofs.TreeInfoStr
/-!
`sorted(set(l))` depends only on the set of elements.
-/
namespace PM
namespace TI
open Str

def SLt (a b : Str) : Prop := a < b

theorem insertSorted_sorted (x : Str) : ∀ l : List Str, l.Pairwise SLt → (insertSorted x l).Pairwise SLt := by
  intro l
  induction l with
  | nil => intro _; simp [insertSorted]
  | cons y ys ih =>
    intro h
    have hy := List.pairwise_cons.mp h
    simp only [insertSorted]
    split
    · exact h
    · rename_i hne
      by_cases hlt : x < y
      · have h1 : Str.lt x y = true := by simp [Str.lt, hlt]
        simp only [h1, if_true]
        refine List.pairwise_cons.mpr ⟨?_, h⟩
        intro z hz
        cases hz with
        | head => exact hlt
        | tail _ hz' => exact List.lt_trans hlt (hy.1 z hz')
      · have h1 : Str.lt x y = false := by simp [Str.lt, hlt]
        simp only [h1, Bool.false_eq_true, if_false]
        have hyx : y < x := Std.lt_of_le_of_ne (List.not_lt.mp hlt) (fun e => hne e.symm)
        refine List.pairwise_cons.mpr ⟨?_, ih hy.2⟩
        intro z hz
        rcases (mem_insertSorted x z ys).mp hz with hz | hz
        · subst hz; exact hyx
        · exact hy.1 z hz

theorem sortDedup_sorted : ∀ l : List Str, (sortDedup l).Pairwise SLt
  | [] => List.Pairwise.nil
  | x :: xs => by
    have : sortDedup (x :: xs) = insertSorted x (sortDedup xs) := rfl
    rw [this]; exact insertSorted_sorted x _ (sortDedup_sorted xs)

theorem nodup_of_sorted {l : List Str} (h : l.Pairwise SLt) : l.Nodup :=
  h.imp (fun hab e => by subst e; exact List.lt_irrefl _ hab)

/-- `sorted(set(l))` is determined by the elements of `l` -/
theorem sortDedup_ext {l l' : List Str} (h : ∀ x, x ∈ l ↔ x ∈ l') : sortDedup l = sortDedup l' := by
  have s1 := sortDedup_sorted l
  have s2 := sortDedup_sorted l'
  have perm : (sortDedup l).Perm (sortDedup l') :=
    (List.perm_ext_iff_of_nodup (nodup_of_sorted s1) (nodup_of_sorted s2)).mpr (fun x => by
      rw [mem_sortDedup, mem_sortDedup]; exact h x)
  apply List.Perm.eq_of_pairwise (le := fun a b : Str => a ≤ b) _ (s1.imp (fun h => List.le_of_lt h))
    (s2.imp (fun h => List.le_of_lt h)) perm
  intro a b _ _ hab hba
  exact List.le_antisymm hab hba

theorem sortDedup_perm {l l' : List Str} (h : l.Perm l') : sortDedup l = sortDedup l' :=
  sortDedup_ext (fun _ => h.mem_iff)

theorem sortDedup_idem_append (l : List Str) (a : Str) (ha : a ∈ l) : sortDedup (sortDedup l ++ [a]) = sortDedup l := by
  apply sortDedup_ext
  intro x
  simp only [List.mem_append, mem_sortDedup, List.mem_singleton]
  constructor
  · rintro (h | h)
    · exact h
    · subst h; exact ha
  · exact Or.inl

end TI
end PM
