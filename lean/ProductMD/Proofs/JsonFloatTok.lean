import ProductMD.Proofs.JsonNum
/-!
The language of `floatTok` (the side condition of the JSON round trip on float tokens), from the grammar side:
every text `-?(0|[1-9][0-9]*)(\.[0-9]+)?([eE][-+]?[0-9]+)?` with a fraction or an exponent is a float token.
(`float.__repr__` of a finite float is always of this form; `harness/json_diff.py` checks both that and the
converse inclusion against the driver on generated tokens.)  Core Lean only.
-/
namespace PM.JsonParse
open PM Str

def Digits (ds : Str) : Prop := ∀ x ∈ ds, isAsciiDigit x = true

instance (ds : Str) : Decidable (Digits ds) := by unfold Digits; infer_instance

/-- `0` or a non-empty digit string that does not start with `0` -/
def IntPart (ip : Str) : Prop := ip = ['0'] ∨ ∃ c t, ip = c :: t ∧ c ≠ '0' ∧ isAsciiDigit c = true ∧ Digits t
/-- nothing, or `.` and at least one digit -/
def FracPart (fp : Str) : Prop := fp = [] ∨ ∃ d ds, fp = '.' :: d :: ds ∧ isAsciiDigit d = true ∧ Digits ds
/-- nothing, or `e`/`E`, an optional sign, at least one digit -/
def ExpPart (ep : Str) : Prop :=
  ep = [] ∨ ∃ e sg d ds, ep = e :: (sg ++ d :: ds) ∧ (e = 'e' ∨ e = 'E') ∧ (sg = [] ∨ sg = ['+'] ∨ sg = ['-'])
    ∧ isAsciiDigit d = true ∧ Digits ds

/-- the first character of a text is not a digit (or there is none) -/
def NoDigitHead : Str → Prop
  | [] => True
  | c :: _ => isAsciiDigit c = false

theorem spanDigits_digits (ds rest : Str) (h : Digits ds) (hr : NoDigitHead rest) : spanDigits (ds ++ rest) = (ds, rest) := by
  induction ds with
  | nil =>
    cases rest with
    | nil => rfl
    | cons c t => simp [spanDigits, show isAsciiDigit c = false from hr]
  | cons c cs ih =>
    have := ih (fun x hx => h x (List.mem_cons_of_mem _ hx))
    simp [spanDigits, h c (List.mem_cons_self), this]

theorem noDigitHead_frac_exp (fp ep : Str) (hf : FracPart fp) (he : ExpPart ep) : NoDigitHead (fp ++ ep) := by
  rcases hf with rfl | ⟨d, ds, rfl, _, _⟩
  · rcases he with rfl | ⟨e, sg, d, ds, rfl, he, _, _, _⟩
    · trivial
    · rcases he with rfl | rfl
      · exact (by decide : isAsciiDigit 'e' = false)
      · exact (by decide : isAsciiDigit 'E' = false)
  · exact (by decide : isAsciiDigit '.' = false)

theorem noDigitHead_exp (ep : Str) (he : ExpPart ep) : NoDigitHead ep := by
  have := noDigitHead_frac_exp [] ep (.inl rfl) he
  simpa using this

theorem scanInt_shape (ip rest : Str) (hi : IntPart ip) (hr : NoDigitHead rest) : scanInt (ip ++ rest) = some (ip, rest) := by
  rcases hi with rfl | ⟨c, t, rfl, hc0, hcd, ht⟩
  · rfl
  · simp [scanInt, hc0, hcd, spanDigits_digits t rest ht hr]

theorem scanFrac_shape (fp ep : Str) (hf : FracPart fp) (he : ExpPart ep) : scanFrac (fp ++ ep) = (fp, ep) := by
  rcases hf with rfl | ⟨d, ds, rfl, hd, hds⟩
  · rcases he with rfl | ⟨e, sg, d, ds, rfl, he, hsg, _, _⟩
    · rfl
    · have hne : e ≠ '.' := by rcases he with rfl | rfl <;> decide
      rcases hsg with rfl | rfl | rfl <;> simp [scanFrac, hne]
  · simp [scanFrac, hd, spanDigits_digits ds ep hds (noDigitHead_exp ep he)]

theorem digit_not_sign {d : Char} (h : isAsciiDigit d = true) : isSign d = false := by
  have h1 : d ≠ '+' := by intro e; subst e; exact absurd h (by decide)
  have h2 : d ≠ '-' := by intro e; subst e; exact absurd h (by decide)
  simp [isSign, h1, h2]

theorem scanExp_shape (ep : Str) (he : ExpPart ep) : scanExp ep = (ep, []) := by
  rcases he with rfl | ⟨e, sg, d, ds, rfl, he, hsg, hd, hds⟩
  · rfl
  · have hsp : spanDigits (d :: ds) = (d :: ds, []) := by
      have := spanDigits_digits (d :: ds) [] (by intro x hx; rcases List.mem_cons.mp hx with rfl | hx; exact hd; exact hds x hx) trivial
      simpa using this
    have hee : (e = 'e' ∨ e = 'E') := he
    rcases hsg with rfl | rfl | rfl
    · simp [scanExp, hee, digit_not_sign hd, hsp]
    · simp [scanExp, hee, isSign, hsp]
    · simp [scanExp, hee, isSign, hsp]

/-- **every JSON number with a fraction or an exponent is a float token** -/
theorem floatTok_of_shape (neg : Bool) (ip fp ep : Str) (hi : IntPart ip) (hf : FracPart fp) (he : ExpPart ep)
    (hne : fp ≠ [] ∨ ep ≠ []) : floatTok ((if neg then ['-'] else []) ++ ip ++ fp ++ ep) = true := by
  have hint := scanInt_shape ip (fp ++ ep) hi (noDigitHead_frac_exp fp ep hf he)
  have hfr := scanFrac_shape fp ep hf he
  have hex := scanExp_shape ep he
  have hfl : (!(fp.isEmpty && ep.isEmpty)) = true := by
    rcases hne with h | h
    · cases fp with | nil => exact absurd rfl h | cons _ _ => rfl
    · cases ep with | nil => exact absurd rfl h | cons _ _ => simp
  -- the first character of the integer part is a digit, so not `-`
  have hhead : ∃ c t, ip = c :: t ∧ c ≠ '-' := by
    rcases hi with rfl | ⟨c, t, rfl, _, hcd, _⟩
    · exact ⟨'0', [], rfl, by decide⟩
    · exact ⟨c, t, rfl, by intro e; subst e; exact absurd hcd (by decide)⟩
  obtain ⟨c, t, rfl, hc⟩ := hhead
  have hscan : scanNumber ((if neg then ['-'] else []) ++ (c :: t) ++ fp ++ ep)
      = some { neg := neg, ip := c :: t, fp := fp, ep := ep, rest := [] } := by
    cases neg
    · simp only [Bool.false_eq_true, if_false, List.nil_append, List.append_assoc] at hint ⊢
      simp only [List.cons_append] at hint ⊢
      simp [scanNumber, hc, hint, hfr, hex]
    · simp only [if_true, List.append_assoc] at hint ⊢
      simp only [List.cons_append, List.nil_append] at hint ⊢
      simp [scanNumber, hint, hfr, hex]
  unfold floatTok
  rw [hscan]
  simp only [Num.isFloat, List.isEmpty_nil, Bool.true_and, hfl, Bool.or_true]

/-! ### conversely: what the scanner accepts has that shape -/

theorem spanDigits_fst_digits : ∀ s : Str, Digits (spanDigits s).1 := by
  intro s
  induction s with
  | nil => intro x hx; cases hx
  | cons c cs ih =>
    simp only [spanDigits]
    split
    · rename_i hc
      intro x hx
      rcases List.mem_cons.mp hx with rfl | hx
      · exact hc
      · exact ih x hx
    · intro x hx; cases hx

theorem intPart_of_scanInt (s ip r : Str) (h : scanInt s = some (ip, r)) : IntPart ip := by
  cases s with
  | nil => simp [scanInt] at h
  | cons c cs =>
    simp only [scanInt] at h
    split at h
    · simp only [Option.some.injEq, Prod.mk.injEq] at h; exact .inl h.1.symm
    · rename_i h0
      split at h
      · rename_i h1
        simp only [Option.some.injEq, Prod.mk.injEq] at h
        exact .inr ⟨c, _, h.1.symm, h0, h1, spanDigits_fst_digits cs⟩
      · cases h

theorem fracPart_of_scanFrac (s : Str) : FracPart (scanFrac s).1 := by
  match s with
  | [] => exact .inl rfl
  | [c] => exact .inl rfl
  | p :: c :: cs =>
    simp only [scanFrac]
    split
    · rename_i h
      exact .inr ⟨c, _, by rw [h.1], h.2, spanDigits_fst_digits cs⟩
    · exact .inl rfl

theorem expPart_of_scanExp (s : Str) : ExpPart (scanExp s).1 := by
  match s with
  | [] => exact .inl rfl
  | [e] =>
    simp only [scanExp]
    split <;> exact .inl rfl
  | e :: c :: r =>
    simp only [scanExp]
    split
    · rename_i he
      split
      · rename_i hs
        split
        · exact .inl rfl
        · rename_i hne
          cases hsp : (spanDigits r).1 with
          | nil => simp [hsp] at hne
          | cons d ds =>
            have hd := spanDigits_fst_digits r
            rw [hsp] at hd
            have hc : c = '+' ∨ c = '-' := by simpa [isSign] using hs
            refine .inr ⟨e, [c], d, ds, rfl, he, ?_, hd d (List.mem_cons_self), fun x hx => hd x (List.mem_cons_of_mem _ hx)⟩
            rcases hc with rfl | rfl
            · exact .inr (.inl rfl)
            · exact .inr (.inr rfl)
      · split
        · exact .inl rfl
        · rename_i hne
          cases hsp : (spanDigits (c :: r)).1 with
          | nil => simp [hsp] at hne
          | cons d ds =>
            have hd := spanDigits_fst_digits (c :: r)
            rw [hsp] at hd
            exact .inr ⟨e, [], d, ds, rfl, he, .inl rfl, hd d (List.mem_cons_self), fun x hx => hd x (List.mem_cons_of_mem _ hx)⟩
    · exact .inl rfl

/-- **the language of `floatTok`, exactly**: one of the three words, or a JSON number with a fraction or an exponent -/
theorem floatTok_iff (r : Str) :
    floatTok r = true ↔
      (r = "NaN".toList ∨ r = "Infinity".toList ∨ r = "-Infinity".toList)
      ∨ ∃ (neg : Bool) (ip fp ep : Str), IntPart ip ∧ FracPart fp ∧ ExpPart ep ∧ (fp ≠ [] ∨ ep ≠ [])
          ∧ r = (if neg then ['-'] else []) ++ ip ++ fp ++ ep := by
  constructor
  · intro h
    simp only [floatTok, Bool.or_eq_true, beq_iff_eq] at h
    rcases h with ((h | h) | h) | h
    · exact .inl (.inl h)
    · exact .inl (.inr (.inl h))
    · exact .inl (.inr (.inr h))
    · right
      cases hs : scanNumber r with
      | none => rw [hs] at h; cases h
      | some n =>
        rw [hs] at h
        simp only [Bool.and_eq_true, List.isEmpty_iff] at h
        have htok := scanNumber_tok r n hs
        rw [h.1, List.append_nil] at htok
        -- the pieces
        cases r with
        | nil => simp [scanNumber, scanInt] at hs
        | cons c cs =>
          simp only [scanNumber, List.head?_cons, List.tail_cons] at hs
          have hfl : ∀ (fp ep : Str), (!(fp.isEmpty && ep.isEmpty)) = true → fp ≠ [] ∨ ep ≠ [] := by
            intro fp ep hf
            cases fp with
            | nil => cases ep with
              | nil => simp at hf
              | cons _ _ => exact .inr (by simp)
            | cons _ _ => exact .inl (by simp)
          by_cases hneg : (some c == some '-') = true
          · simp only [hneg, if_true] at hs
            cases hi : scanInt cs with
            | none => rw [hi] at hs; cases hs
            | some p =>
              obtain ⟨ip, s2⟩ := p
              rw [hi] at hs
              simp only [Option.some.injEq] at hs
              subst hs
              exact ⟨true, ip, _, _, intPart_of_scanInt _ ip s2 hi, fracPart_of_scanFrac s2, expPart_of_scanExp _,
                hfl _ _ h.2, by rw [← htok]; rfl⟩
          · simp only [hneg, Bool.false_eq_true, if_false] at hs
            cases hi : scanInt (c :: cs) with
            | none => rw [hi] at hs; cases hs
            | some p =>
              obtain ⟨ip, s2⟩ := p
              rw [hi] at hs
              simp only [Option.some.injEq] at hs
              subst hs
              exact ⟨false, ip, _, _, intPart_of_scanInt _ ip s2 hi, fracPart_of_scanFrac s2, expPart_of_scanExp _,
                hfl _ _ h.2, by rw [← htok]; rfl⟩
  · intro h
    rcases h with (h | h | h) | ⟨neg, ip, fp, ep, hi, hf, he, hne, rfl⟩
    · subst h; decide
    · subst h; decide
    · subst h; decide
    · exact floatTok_of_shape neg ip fp ep hi hf he hne

example : floatTok "-12.50e+07".toList = true :=
  floatTok_of_shape true "12".toList ".50".toList "e+07".toList
    (.inr ⟨'1', ['2'], rfl, by decide, by decide, by decide⟩) (.inr ⟨'5', ['0'], rfl, by decide, by decide⟩)
    (.inr ⟨'e', ['+'], '0', ['7'], rfl, .inl rfl, .inr (.inl rfl), by decide, by decide⟩) (.inl (by decide))

end PM.JsonParse
