import ProductMD.Proofs.TreeInfoOpts
import ProductMD.Proofs.TreeInfoStr
/-!
The current-format treeinfo reader against a view of the written document, section by section.
-/
namespace PM
namespace TI
open Ini

deriving instance DecidableEq for Except

variable {C : IniSec → Prop} {t : TreeInfo} {g : IniSec} {d : Ini}

/-! ### header and gates -/

theorem versionTuple_current : versionTuple currentVersion = .ok Gen.VERSION := by decide +kernel
theorem gate_current : gateOf Gen.VERSION = .v1_0 := by decide
theorem header_valid_current : validateClass "treeinfo.Header" (headerObj currentVersion) = .ok () := by decide +kernel
theorem type_gate_current : tupleLe (1, 1) Gen.VERSION = true := by decide

theorem headerOpts_lookup : headerOpts.lookup kVersion = some currentVersion ∧
    headerOpts.lookup kType = some Gen.HEADER_TYPE_TreeInfo := by
  have hn : ([(kVersion, currentVersion), (kType, Gen.HEADER_TYPE_TreeInfo)].map (·.1)).Nodup := by
    show [kVersion, kType].Nodup
    decide
  unfold headerOpts
  rw [setsKV_nil_nodup _ hn]
  have : ¬ kVersion = kType := by decide
  constructor
  · rw [lookup_cons_eq]; simp
  · rw [lookup_cons_eq, lookup_cons_eq]; simp [this]

theorem deHeader_ok (V : View C (docList t g) d) : deHeader d = .ok currentVersion := by
  have hL := L_header t g
  have h1 : hasOption d sHeader kVersion = true := by
    rw [V.hasOption_of hL (by decide) (by decide) (by decide), headerOpts_lookup.1]; rfl
  have h2 : Ini.get d sHeader kVersion = .ok currentVersion := V.get_of hL headerOpts_lookup.1 (by decide)
  have h3 : Ini.get d sHeader kType = .ok Gen.HEADER_TYPE_TreeInfo := V.get_of hL headerOpts_lookup.2 (by decide)
  unfold deHeader
  simp [h1, h2, h3, versionTuple_current, type_gate_current, header_valid_current, bind, Except.bind, pure, Except.pure]

/-! ### release and base product -/

theorem releaseOpts_lookup (p : Product) (l : Bool) :
    (releaseOpts p l).lookup kName = some p.name ∧ (releaseOpts p l).lookup kVersion = some p.version ∧
    (releaseOpts p l).lookup kShort = some p.short ∧
    (releaseOpts p l).lookup kIsLayered = if l then some ['t', 'r', 'u', 'e'] else none := by
  have n1 : ¬ kVersion = kName := by decide
  have n2 : ¬ kShort = kName := by decide
  have n3 : ¬ kIsLayered = kName := by decide
  have n4 : ¬ kShort = kVersion := by decide
  have n5 : ¬ kIsLayered = kVersion := by decide
  have n6 : ¬ kIsLayered = kShort := by decide
  have n7 : ¬ kName = kIsLayered := by decide
  have n8 : ¬ kVersion = kIsLayered := by decide
  have n9 : ¬ kShort = kIsLayered := by decide
  cases l <;> simp [releaseOpts, lookup_setsKV, lookup_cons_eq, n1, n2, n3, n4, n5, n6, n7, n8, n9]

theorem product_eta (p : Product) : ({ name := p.name, short := p.short, version := p.version } : Product) = p := by
  cases p; rfl

theorem deRelease_ok (V : View C (docList t g) d)
    (hv : validateClass "treeinfo.Release" (releaseObj t.release t.isLayered) = .ok ()) :
    deRelease .v1_0 d = .ok (t.release, t.isLayered) := by
  have hL := L_release t g
  obtain ⟨l1, l2, l3, l4⟩ := releaseOpts_lookup t.release t.isLayered
  have g1 := V.get_of hL l1 (by decide)
  have g2 := V.get_of hL l2 (by decide)
  have g3 := V.get_of hL l3 (by decide)
  have o1 : hasOption d sRelease kShort = true := by
    rw [V.hasOption_of hL (by decide) (by decide) (by decide), l3]; rfl
  have o2 : hasOption d sRelease kIsLayered = t.isLayered := by
    rw [V.hasOption_of hL (by decide) (by decide) (by decide), l4]; cases t.isLayered <;> rfl
  have hb : Ini.toBoolean ['t', 'r', 'u', 'e'] = .ok true := by rfl
  unfold deRelease
  simp only [g1, g2, g3, o1, o2, bind, Except.bind, pure, Except.pure, if_true]
  cases hl : t.isLayered
  · simp only [hl] at hv
    simp [hv]
  · have g4 : Ini.get d sRelease kIsLayered = .ok ['t', 'r', 'u', 'e'] := V.get_of hL (by rw [l4, hl]; rfl) (by decide)
    simp only [hl] at hv
    simp [Ini.getBoolean, g4, hb, Except.bind, hv]

theorem baseOpts'_lookup (p : Product) :
    (baseOpts' p).lookup kName = some p.name ∧ (baseOpts' p).lookup kVersion = some p.version ∧
    (baseOpts' p).lookup kShort = some p.short := by
  have n1 : ¬ kVersion = kName := by decide
  have n2 : ¬ kShort = kName := by decide
  have n4 : ¬ kShort = kVersion := by decide
  simp [baseOpts', lookup_setsKV, lookup_cons_eq, n1, n2, n4]

theorem deBase_ok (V : View C (docList t g) d) {p : Product} (hl : t.isLayered = true) (hp : t.baseProduct = some p)
    (hv : validateClass "treeinfo.BaseProduct" (productObj p) = .ok ()) : deBase d = .ok p := by
  have hL : (docList t g).lookup sBase = some (baseOpts' p) := by rw [L_base, hl, hp]; rfl
  obtain ⟨l1, l2, l3⟩ := baseOpts'_lookup p
  have g1 := V.get_of hL l1 (by decide)
  have g2 := V.get_of hL l2 (by decide)
  have g3 := V.get_of hL l3 (by decide)
  unfold deBase
  simp [g1, g2, g3, bind, Except.bind, pure, Except.pure, hv]

/-! ### `[tree]` -/

theorem treeOptsFull_lookup (t : TreeInfo) :
    (treeOptsFull t).lookup kArch = some t.tree.arch ∧ (treeOptsFull t).lookup kPlatforms = some (platformsStr t.tree) ∧
    (treeOptsFull t).lookup kBuildTs = some t.tree.ts.str ∧
    (treeOptsFull t).lookup kVariants = some (Str.joinWith ',' (sortS (t.variants.map Variant.uid))) := by
  have n1 : ¬ kVariants = kArch := by decide
  have n2 : ¬ kVariants = kPlatforms := by decide
  have n3 : ¬ kVariants = kBuildTs := by decide
  have n4 : ¬ kPlatforms = kArch := by decide
  have n5 : ¬ kBuildTs = kArch := by decide
  have n6 : ¬ kBuildTs = kPlatforms := by decide
  simp [treeOptsFull, treeOpts, lookup_setKV, lookup_setsKV, lookup_cons_eq, n1, n2, n3, n4, n5, n6]

/-- every platform name (the tree architecture included) can travel in the comma-separated `platforms` option -/
def PlatformsOK (tr : Tree) : Prop := ∀ p ∈ tr.platforms ++ [tr.arch], p ≠ [] ∧ ',' ∉ p

theorem platforms_read (tr : Tree) (h : PlatformsOK tr) :
    splitNonEmpty (platformsStr tr) = Str.sortDedup (tr.platforms ++ [tr.arch]) := by
  unfold platformsStr
  apply splitNonEmpty_join
  · intro x hx; exact (h x ((mem_sortDedup x _).mp hx)).1
  · intro x hx; exact (h x ((mem_sortDedup x _).mp hx)).2

theorem deTree_ok (fo : FloatOracle) (V : View C (docList t g) d) (n : Int) (hts : t.tree.ts = .int n)
    (hfl : fo.intOfFloatStr (Str.intStr n) = .ok n) (hp : PlatformsOK t.tree)
    (hv : validateClass "treeinfo.Tree" (treeObj ⟨t.tree.arch, .int n, Str.sortDedup (t.tree.platforms ++ [t.tree.arch])⟩) = .ok ()) :
    deTree fo .v1_0 d = .ok ⟨t.tree.arch, .int n, Str.sortDedup (t.tree.platforms ++ [t.tree.arch])⟩ := by
  have hL := L_tree t g
  obtain ⟨l1, l2, l3, _⟩ := treeOptsFull_lookup t
  have hs : hasSection d sTree = true := by rw [V.hasSection_of (by decide), hL]; rfl
  have g1 := V.get_of hL l1 (by decide)
  have g2 := V.get_of hL l2 (by decide)
  have g3 := V.get_of hL l3 (by decide)
  rw [hts] at g3
  unfold deTree
  simp [hs, g1, g2, g3, Ts.str, hfl, platforms_read _ hp, bind, Except.bind, pure, Except.pure, hv]

/-! ### stage2 and media -/

theorem stage2Opts_lookup (m i : Option Str) :
    (stage2Opts m i).lookup kMainimage = (if optTruthy m then m else none) ∧
    (stage2Opts m i).lookup kInstimage = (if optTruthy i then i else none) := by
  have n1 : ¬ kInstimage = kMainimage := by decide
  have n2 : ¬ kMainimage = kInstimage := by decide
  cases m with
  | none => cases i with
    | none => simp [stage2Opts, optTruthy, setsKV]
    | some b => cases hb : optTruthy (some b) <;> simp [stage2Opts, optTruthy, lookup_setsKV, lookup_cons_eq, n1, n2, hb] <;> simp_all [optTruthy]
  | some a => cases i with
    | none => cases ha : optTruthy (some a) <;> simp [stage2Opts, optTruthy, lookup_setsKV, lookup_cons_eq, n1, n2, ha] <;> simp_all [optTruthy]
    | some b =>
      cases ha : optTruthy (some a) <;> cases hb : optTruthy (some b) <;>
        simp [stage2Opts, lookup_setsKV, lookup_cons_eq, n1, n2, ha, hb] <;> simp_all [optTruthy]

def normOpt (m : Option Str) : Option Str := if optTruthy m then m else none

theorem readOpt (V : View C (docList t g) d) {s k : Str} {o : IniSec} (hL : (docList t g).lookup s = some o) (hnc : nc k = true)
    (h1 : s.isEmpty = false) (h2 : (s == DEFAULT) = false) :
    (if hasOption d s k then (Ini.get d s k).map some else pure none : Except Err (Option Str)) = .ok (o.lookup k) := by
  rw [V.hasOption_of hL hnc h1 h2]
  cases hk : o.lookup k with
  | none => rfl
  | some v => simp [V.get_of hL hk hnc, Except.map]

theorem deStage2_ok (V : View C (docList t g) d)
    (hv : validateClass "treeinfo.Stage2" (stage2Obj (normOpt t.mainimage) (normOpt t.instimage)) = .ok ()) :
    deStage2 d = .ok (normOpt t.mainimage, normOpt t.instimage) := by
  unfold deStage2
  cases hon : stage2On t.mainimage t.instimage
  · have hL : (docList t g).lookup sStage2 = none := by rw [L_stage2, hon]; rfl
    have o1 : ∀ k, hasOption d sStage2 k = false := fun k => V.hasOption_nosec hL (by decide) (by decide)
    have hm : normOpt t.mainimage = none := by
      unfold stage2On at hon; unfold normOpt; cases h : optTruthy t.mainimage <;> simp_all
    have hi : normOpt t.instimage = none := by
      unfold stage2On at hon; unfold normOpt; cases h : optTruthy t.instimage <;> simp_all
    rw [hm, hi] at hv ⊢
    simp [o1, bind, Except.bind, pure, Except.pure, hv]
  · have hL : (docList t g).lookup sStage2 = some (stage2Opts t.mainimage t.instimage) := by rw [L_stage2, hon]; rfl
    obtain ⟨l1, l2⟩ := stage2Opts_lookup t.mainimage t.instimage
    have o1 := V.hasOption_of hL (k := kMainimage) (by decide) (by decide) (by decide)
    have o2 := V.hasOption_of hL (k := kInstimage) (by decide) (by decide) (by decide)
    rw [l1] at o1; rw [l2] at o2
    unfold normOpt at hv ⊢
    have truthy_some : ∀ m : Option Str, optTruthy m = true → ∃ a, m = some a := by
      intro m h; cases m with
      | none => simp [optTruthy] at h
      | some a => exact ⟨a, rfl⟩
    cases hm : optTruthy t.mainimage <;> cases hi : optTruthy t.instimage <;>
      simp only [hm, hi, Bool.false_eq_true, if_false, if_true] at o1 o2 l1 l2 hv ⊢
    · simp [o1, o2, bind, Except.bind, pure, Except.pure, hv]
    · obtain ⟨b, hb⟩ := truthy_some _ hi
      have g2 := V.get_of hL (l2.trans hb) (by decide)
      rw [hb] at o2 hv ⊢
      simp [o1, o2, g2, Except.map, bind, Except.bind, pure, Except.pure, hv]
    · obtain ⟨a, ha⟩ := truthy_some _ hm
      have g1 := V.get_of hL (l1.trans ha) (by decide)
      rw [ha] at o1 hv ⊢
      simp [o1, o2, g1, Except.map, bind, Except.bind, pure, Except.pure, hv]
    · obtain ⟨a, ha⟩ := truthy_some _ hm
      obtain ⟨b, hb⟩ := truthy_some _ hi
      have g1 := V.get_of hL (l1.trans ha) (by decide)
      have g2 := V.get_of hL (l2.trans hb) (by decide)
      rw [ha] at o1 hv ⊢
      rw [hb] at o2 hv ⊢
      simp [o1, o2, g1, g2, Except.map, bind, Except.bind, pure, Except.pure, hv]

def mediaNorm (a b : Option Int) : Option Int × Option Int := if mediaOn a b then (a, b) else (none, none)

theorem mediaOpts_lookup (a b : Option Int) :
    (mediaOpts a b).lookup kDiscnum = some (Str.intStr (a.getD 0)) ∧ (mediaOpts a b).lookup kTotaldiscs = some (Str.intStr (b.getD 0)) := by
  have n1 : ¬ kTotaldiscs = kDiscnum := by decide
  simp [mediaOpts, lookup_setsKV, lookup_cons_eq, n1]

theorem deMedia_ok (V : View C (docList t g) d)
    (hsome : mediaOn t.discnum t.totaldiscs = true → t.discnum.isSome ∧ t.totaldiscs.isSome)
    (hv : validateClass "treeinfo.Media" (mediaObj (mediaNorm t.discnum t.totaldiscs).1 (mediaNorm t.discnum t.totaldiscs).2) = .ok ()) :
    deMedia .v1_0 d = .ok (mediaNorm t.discnum t.totaldiscs) := by
  unfold deMedia
  cases hon : mediaOn t.discnum t.totaldiscs
  · have hL : (docList t g).lookup sMedia = none := by rw [L_media, hon]; rfl
    have hs : hasSection d sMedia = false := by rw [V.hasSection_of (by decide), hL]; rfl
    simp only [mediaNorm, hon, Bool.false_eq_true, if_false] at hv ⊢
    simp [hs, bind, Except.bind, pure, Except.pure, hv]
  · have hL : (docList t g).lookup sMedia = some (mediaOpts t.discnum t.totaldiscs) := by rw [L_media, hon]; rfl
    have hs : hasSection d sMedia = true := by rw [V.hasSection_of (by decide), hL]; rfl
    obtain ⟨l1, l2⟩ := mediaOpts_lookup t.discnum t.totaldiscs
    have g1 := V.get_of hL l1 (by decide)
    have g2 := V.get_of hL l2 (by decide)
    obtain ⟨ha, hb⟩ := hsome hon
    cases hda : t.discnum with
    | none => simp [hda] at ha
    | some x =>
      cases hdb : t.totaldiscs with
      | none => simp [hdb] at hb
      | some y =>
        rw [hda, hdb] at hon
        simp only [mediaNorm, hon, hda, hdb, if_true] at hv ⊢
        simp only [hda, hdb, Option.getD_some] at g1 g2
        simp [hs, g1, g2, pyInt_intStr, bind, Except.bind, pure, Except.pure, hv]

/-! ### checksums -/

/-- checksum paths are dictionary keys; type and value can travel as `type:value` -/
def ChecksumsOK (cs : List (Str × Str × Str)) : Prop := (cs.map (·.1)).Nodup ∧ ∀ c ∈ cs, ':' ∉ c.2.1 ∧ ':' ∉ c.2.2

def csOpt (c : Str × Str × Str) : Str × Str := (c.1, c.2.1 ++ ':' :: c.2.2)

theorem checksumOf_typed (ty v : Str) (h1 : ':' ∉ ty) (h2 : ':' ∉ v) : checksumOf (ty ++ ':' :: v) = .ok (ty, v) := by
  unfold checksumOf
  have hc : (ty ++ ':' :: v).contains ':' = true := by simp
  simp [hc, splitOn_app_sep ':' ty v h1, splitOn_not_mem ':' v h2]

theorem deChecksumItems_ok : ∀ (l acc : List (Str × Str × Str)), (∀ c ∈ l, ':' ∉ c.2.1 ∧ ':' ∉ c.2.2) →
    ((acc ++ l).map (·.1)).Nodup → deChecksumItems (l.map csOpt) acc = .ok (acc ++ l)
  | [], acc, _, _ => by simp [deChecksumItems]
  | c :: l, acc, h, hn => by
    have hc := h c (List.mem_cons_self ..)
    have hfresh : c.1 ∉ acc.map (·.1) := by
      intro hm
      rw [List.map_append, List.nodup_append] at hn
      exact hn.2.2 _ hm _ (by simp) rfl
    simp only [List.map_cons, deChecksumItems, csOpt, checksumOf_typed _ _ hc.1 hc.2]
    rw [setKV_append_fresh _ _ _ hfresh]
    have := deChecksumItems_ok l (acc ++ [(c.1, c.2.1, c.2.2)]) (fun x hx => h x (List.mem_cons_of_mem _ hx))
      (by simpa using hn)
    simpa [csOpt] using this

theorem checksumOpts_eq (cs : List (Str × Str × Str)) (hn : (cs.map (·.1)).Nodup) : checksumOpts cs = cs.map csOpt := by
  unfold checksumOpts
  apply setsKV_nil_nodup
  simpa [List.map_map, Function.comp_def, csOpt] using hn

theorem deChecksums_ok (V : View C (docList t g) d) (hok : ChecksumsOK t.checksums)
    (hC : t.checksums.isEmpty = false → C (checksumOpts t.checksums))
    (hv : validateClass "treeinfo.Checksums" (checksumsObj (sortKV t.checksums)) = .ok ()) :
    deChecksums d = .ok (sortKV t.checksums) := by
  unfold deChecksums
  cases he : t.checksums.isEmpty
  · have hL : (docList t g).lookup sChecksums = some (checksumOpts t.checksums) := by rw [L_checksums, he]; rfl
    have hs : hasSection d sChecksums = true := by rw [V.hasSection_of (by decide), hL]; rfl
    have hit := V.items_of hL (hC he) (by decide)
    rw [checksumOpts_eq _ hok.1] at hit
    have hsort : sortKV (t.checksums.map csOpt) = (sortKV t.checksums).map csOpt :=
      sortKV_map_same csOpt (fun _ => rfl) _
    rw [hsort] at hit
    have hfold := deChecksumItems_ok (sortKV t.checksums) [] (fun c hc => hok.2 c ((mem_sortKV _ _).mp hc))
      (by simpa using nodup_keys_sortKV t.checksums hok.1)
    simp only [List.nil_append] at hfold
    simp [hs, hit, hfold, bind, Except.bind, pure, Except.pure, hv]
  · have hnil : t.checksums = [] := by simpa using he
    have hL : (docList t g).lookup sChecksums = none := by rw [L_checksums, he]; rfl
    have hs : hasSection d sChecksums = false := by rw [V.hasSection_of (by decide), hL]; rfl
    rw [hnil] at hv ⊢
    rw [sortKV_nil] at hv ⊢
    simp [hs, bind, Except.bind, pure, Except.pure, hv]

/-! ### images -/

def isImg (s : Str) : Bool := Str.startsWith s pImages

theorem isImg_prefix (x : Str) : isImg (pImages ++ x) = true := by
  unfold isImg Str.startsWith
  rw [pImages_eq]; simp [List.isPrefixOf]

theorem isImg_head {s : Str} (h : isImg s = true) : s.head? = some 'i' := by
  unfold isImg Str.startsWith at h
  rw [pImages_eq] at h
  cases s with
  | nil => simp [List.isPrefixOf] at h
  | cons c cs => simp [List.isPrefixOf] at h; simp [h.1.symm]

theorem deImageSections_filter (d : Ini) (arch : Str) : ∀ (ss : List Str) (acc : List (Str × List (Str × Str))),
    deImageSections d arch ss acc = deImageSections d arch (ss.filter isImg) acc
  | [], _ => rfl
  | s :: ss, acc => by
    cases h : isImg s
    · have : Str.startsWith s pImages = false := h
      simp only [deImageSections, this, List.filter_cons, h]
      exact deImageSections_filter d arch ss acc
    · have h' : Str.startsWith s pImages = true := h
      simp only [deImageSections, h', List.filter_cons, h, if_true]
      cases items d s with
      | error e => rfl
      | ok its => exact deImageSections_filter d arch ss _

/-- the names of the `images-*` sections among all section names -/
theorem names_filter_img (t : TreeInfo) (g : IniSec) :
    (((docList t g).map (·.1)).filter (· != DEFAULT)).filter isImg = (imgFlat t.images).map (·.1) := by
  have none_of : ∀ l : List Str, (∀ s ∈ l, isImg s = false) → (l.filter (· != DEFAULT)).filter isImg = [] := by
    intro l h
    rw [List.filter_filter]
    apply List.filter_eq_nil_iff.mpr
    intro s hs; simp [h s hs]
  have optF : ∀ (c : Bool) (s : Str) (o : IniSec), isImg s = false →
      ∀ x ∈ (optSec c s o).map (·.1), isImg x = false := by
    intro c s o hs x hx
    unfold optSec at hx
    split at hx
    · simp at hx; subst hx; exact hs
    · simp at hx
  have flatF : ∀ x ∈ (flatVs none t.variants).map (·.1), isImg x = false := by
    intro x hx
    cases h : isImg x with
    | false => rfl
    | true =>
      have h1 := isImg_head h
      rcases keys_flatVs _ _ _ hx with h2 | h2 <;> rw [h2] at h1 <;> cases h1
  have baseF : ∀ x ∈ (baseL t).map (·.1), isImg x = false := by
    intro x hx
    unfold baseL at hx
    split at hx
    · cases hb : t.baseProduct with
      | none => simp [hb] at hx
      | some p => simp [hb] at hx; subst hx; decide
    · simp at hx
  have imgT : (((imgFlat t.images).map (·.1)).filter (· != DEFAULT)).filter isImg = (imgFlat t.images).map (·.1) := by
    rw [List.filter_filter]
    apply List.filter_eq_self.mpr
    intro s hs
    have h1 := keys_imgFlat _ s hs
    have h2 : isImg s = true := by
      rw [imgFlat_keys] at hs
      simp only [List.mem_reverse, List.mem_map] at hs
      obtain ⟨p, _, rfl⟩ := hs
      exact isImg_prefix _
    have h3 : (s != DEFAULT) = true := by
      simp only [bne_iff_ne, ne_eq]
      intro e; rw [e] at h1; revert h1; decide
    simp [h2, h3]
  simp only [docList, List.map_append, List.filter_append]
  rw [none_of _ (optF _ sMedia _ (by decide)), none_of _ (optF _ sStage2 _ (by decide)),
    none_of _ (optF _ sChecksums _ (by decide)), none_of _ flatF, none_of _ baseF, imgT]
  have e1 : (List.filter (fun x => x != DEFAULT) (List.map (fun x => x.fst) [(sGeneral, g)])).filter isImg = [] :=
    none_of _ (by intro s hs; simp at hs; subst hs; decide)
  have e2 : (List.filter (fun x => x != DEFAULT) (List.map (fun x => x.fst) [(sTree, treeOptsFull t)])).filter isImg = [] :=
    none_of _ (by intro s hs; simp at hs; subst hs; decide)
  have e3 : (List.filter (fun x => x != DEFAULT)
      (List.map (fun x => x.fst) [(sRelease, releaseOpts t.release t.isLayered)])).filter isImg = [] :=
    none_of _ (by intro s hs; simp at hs; subst hs; decide)
  have e4 : (List.filter (fun x => x != DEFAULT) (List.map (fun x => x.fst) [(sHeader, headerOpts)])).filter isImg = [] :=
    none_of _ (by intro s hs; simp at hs; subst hs; decide)
  rw [e1, e2, e3, e4]
  simp

/-- image names are dictionary keys; no platform with images is named `<x>-<tree arch>` (F25) -/
def ImagesOK (arch : Str) (images : List (Str × List (Str × Str))) : Prop :=
  (∀ p ∈ images, (p.2.map (·.1)).Nodup) ∧ (∀ p ∈ images, platformOf arch (pImages ++ p.1) = p.1)

def imgNorm (p : Str × List (Str × Str)) : Str × List (Str × Str) := (p.1, sortKV p.2)

theorem deImageSections_ok (V : View C (docList t g) d) (hn : ((docList t g).map (·.1)).Nodup) (arch : Str)
    (hok : ImagesOK arch t.images) (hC : ∀ p ∈ t.images, C (setsKV [] p.2)) :
    ∀ (ps acc : List (Str × List (Str × Str))), (∀ p ∈ ps, p ∈ t.images) → ((acc ++ ps).map (·.1)).Nodup →
      deImageSections d arch (ps.map fun p => pImages ++ p.1) acc = .ok (acc ++ ps.map imgNorm)
  | [], acc, _, _ => by simp [deImageSections]
  | p :: ps, acc, hsub, hnd => by
    have hp := hsub p (List.mem_cons_self ..)
    have hL := L_images (g := g) hn p hp
    have hne : ((pImages ++ p.1) == DEFAULT) = false := by
      rw [pImages_eq]; simp only [beq_eq_false_iff_ne, ne_eq]; intro e
      have := congrArg List.head? e
      simp at this; revert this; decide
    have hit := V.items_of hL (hC p hp) hne
    rw [setsKV_nil_nodup _ (hok.1 p hp)] at hit
    have hfold : (sortKV p.2).foldl (fun m kv => setKV kv.1 kv.2 m) [] = sortKV p.2 :=
      setsKV_nil_nodup _ (nodup_keys_sortKV _ (hok.1 p hp))
    have hfresh : p.1 ∉ acc.map (·.1) := by
      intro hm
      rw [List.map_append, List.nodup_append] at hnd
      exact hnd.2.2 _ hm _ (by simp) rfl
    have hstart : Str.startsWith (pImages ++ p.1) pImages = true := isImg_prefix p.1
    simp only [List.map_cons, deImageSections, hstart, if_true, hit, hfold, hok.2 p hp]
    rw [setKV_append_fresh _ _ _ hfresh]
    have := deImageSections_ok V hn arch hok hC ps (acc ++ [(p.1, sortKV p.2)])
      (fun q hq => hsub q (List.mem_cons_of_mem _ hq)) (by simpa using hnd)
    simpa [imgNorm] using this

theorem nodup_of_map {α β} (f : α → β) : ∀ l : List α, (l.map f).Nodup → l.Nodup
  | [], _ => List.nodup_nil
  | x :: xs, h => by
    simp only [List.map_cons, List.nodup_cons] at h
    exact List.nodup_cons.mpr ⟨fun hm => h.1 (List.mem_map.mpr ⟨x, hm, rfl⟩), nodup_of_map f xs h.2⟩

theorem platforms_nodup {t : TreeInfo} {g : IniSec} (hn : ((docList t g).map (·.1)).Nodup) : (t.images.map (·.1)).Nodup := by
  have h1 : ((imgFlat t.images).map (·.1)).Nodup := by
    simp only [docList, List.map_append, List.nodup_append] at hn
    exact hn.2.1.2.1.2.1.1
  rw [imgFlat_keys] at h1
  have h2 : (t.images.map fun p => pImages ++ p.1).Nodup := (List.reverse_perm _).nodup_iff.mp h1
  have h3 : ((t.images.map (·.1)).map (pImages ++ ·)).Nodup := by simpa [List.map_map, Function.comp_def] using h2
  exact nodup_of_map _ _ h3

theorem deImages_ok (V : View C (docList t g) d) (hn : ((docList t g).map (·.1)).Nodup) (tree' : Tree)
    (hok : ImagesOK tree'.arch t.images) (hC : ∀ p ∈ t.images, C (setsKV [] p.2))
    (hv : validateClass "treeinfo.Images" (imagesObj (sortKV (t.images.map imgNorm)) tree'.platforms) = .ok ()) :
    deImages d tree' = .ok (sortKV (t.images.map imgNorm)) := by
  have hpn := platforms_nodup hn
  -- the section names the loop acts on
  have hnames : (Ini.sections d).filter isImg = (sortKV t.images).map fun p => pImages ++ p.1 := by
    rw [V.sections]
    unfold sortS
    rw [sortBy_filter, names_filter_img, imgFlat_keys]
    have e1 : sortBy id (t.images.map fun p => pImages ++ p.1).reverse = sortBy id (t.images.map fun p => pImages ++ p.1) :=
      sortS_perm_eq (List.reverse_perm _)
    rw [e1]
    have e2 : (t.images.map fun p => pImages ++ p.1) = (t.images.map (·.1)).map (pImages ++ ·) := by
      simp [List.map_map, Function.comp_def]
    rw [e2]
    have e3 := sortS_map_prefix pImages (t.images.map (·.1))
    unfold sortS at e3
    rw [e3]
    have e4 := sortS_map_key (fun p : Str × List (Str × Str) => p.1) t.images
    unfold sortS at e4
    rw [e4]
    simp [sortKV, List.map_map, Function.comp_def]
  have hloop := deImageSections_ok V hn tree'.arch hok hC (sortKV t.images) []
    (fun p hp => (mem_sortKV _ _).mp hp) (by simpa using nodup_keys_sortKV _ hpn)
  have hres : (sortKV t.images).map imgNorm = sortKV (t.images.map imgNorm) := (sortKV_map_same imgNorm (fun _ => rfl) _).symm
  unfold deImages
  rw [deImageSections_filter, hnames, hloop]
  simp only [List.nil_append, hres]
  simp [bind, Except.bind, pure, Except.pure, hv]

end TI
end PM
