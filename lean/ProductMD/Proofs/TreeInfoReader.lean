import ProductMD.Proofs.TreeInfoOpts
import ProductMD.Proofs.TreeInfoStr
/-!
The current-format treeinfo reader against a view of the written document, section by section.
-/
namespace PM
namespace TI
open Ini

deriving instance DecidableEq for Except

variable {C : IniSec → Prop} {t : TreeInfo} {g : IniSec} {d : Ini}

/-! ### header and gates -/

theorem versionTuple_current : versionTuple currentVersion = .ok Gen.VERSION := by decide +kernel
theorem gate_current : gateOf Gen.VERSION = .v1_0 := by decide
theorem header_valid_current : validateClass "treeinfo.Header" (headerObj currentVersion) = .ok () := by decide +kernel
theorem type_gate_current : tupleLe (1, 1) Gen.VERSION = true := by decide

theorem headerOpts_lookup : headerOpts.lookup kVersion = some currentVersion ∧
    headerOpts.lookup kType = some Gen.HEADER_TYPE_TreeInfo := by
  have hn : ([(kVersion, currentVersion), (kType, Gen.HEADER_TYPE_TreeInfo)].map (·.1)).Nodup := by
    show [kVersion, kType].Nodup
    decide
  unfold headerOpts
  rw [setsKV_nil_nodup _ hn]
  have : ¬ kVersion = kType := by decide
  constructor
  · rw [lookup_cons_eq]; simp
  · rw [lookup_cons_eq, lookup_cons_eq]; simp [this]

theorem deHeader_ok (V : View C (docList t g) d) : deHeader d = .ok currentVersion := by
  have hL := L_header t g
  have h1 : hasOption d sHeader kVersion = true := by
    rw [V.hasOption_of hL (by decide) (by decide) (by decide), headerOpts_lookup.1]; rfl
  have h2 : Ini.get d sHeader kVersion = .ok currentVersion := V.get_of hL headerOpts_lookup.1 (by decide)
  have h3 : Ini.get d sHeader kType = .ok Gen.HEADER_TYPE_TreeInfo := V.get_of hL headerOpts_lookup.2 (by decide)
  unfold deHeader
  simp [h1, h2, h3, versionTuple_current, type_gate_current, header_valid_current, bind, Except.bind, pure, Except.pure]

/-! ### release and base product -/

theorem releaseOpts_lookup (p : Product) (l : Bool) :
    (releaseOpts p l).lookup kName = some p.name ∧ (releaseOpts p l).lookup kVersion = some p.version ∧
    (releaseOpts p l).lookup kShort = some p.short ∧
    (releaseOpts p l).lookup kIsLayered = if l then some ['t', 'r', 'u', 'e'] else none := by
  have n1 : ¬ kVersion = kName := by decide
  have n2 : ¬ kShort = kName := by decide
  have n3 : ¬ kIsLayered = kName := by decide
  have n4 : ¬ kShort = kVersion := by decide
  have n5 : ¬ kIsLayered = kVersion := by decide
  have n6 : ¬ kIsLayered = kShort := by decide
  have n7 : ¬ kName = kIsLayered := by decide
  have n8 : ¬ kVersion = kIsLayered := by decide
  have n9 : ¬ kShort = kIsLayered := by decide
  cases l <;> simp [releaseOpts, lookup_setsKV, lookup_cons_eq, n1, n2, n3, n4, n5, n6, n7, n8, n9]

theorem product_eta (p : Product) : ({ name := p.name, short := p.short, version := p.version } : Product) = p := by
  cases p; rfl

theorem deRelease_ok (V : View C (docList t g) d)
    (hv : validateClass "treeinfo.Release" (releaseObj t.release t.isLayered) = .ok ()) :
    deRelease .v1_0 d = .ok (t.release, t.isLayered) := by
  have hL := L_release t g
  obtain ⟨l1, l2, l3, l4⟩ := releaseOpts_lookup t.release t.isLayered
  have g1 := V.get_of hL l1 (by decide)
  have g2 := V.get_of hL l2 (by decide)
  have g3 := V.get_of hL l3 (by decide)
  have o1 : hasOption d sRelease kShort = true := by
    rw [V.hasOption_of hL (by decide) (by decide) (by decide), l3]; rfl
  have o2 : hasOption d sRelease kIsLayered = t.isLayered := by
    rw [V.hasOption_of hL (by decide) (by decide) (by decide), l4]; cases t.isLayered <;> rfl
  have hb : Ini.toBoolean ['t', 'r', 'u', 'e'] = .ok true := by rfl
  unfold deRelease
  simp only [g1, g2, g3, o1, o2, bind, Except.bind, pure, Except.pure, if_true]
  cases hl : t.isLayered
  · simp only [hl] at hv
    simp [hv]
  · have g4 : Ini.get d sRelease kIsLayered = .ok ['t', 'r', 'u', 'e'] := V.get_of hL (by rw [l4, hl]; rfl) (by decide)
    simp only [hl] at hv
    simp [Ini.getBoolean, g4, hb, Except.bind, hv]

theorem baseOpts'_lookup (p : Product) :
    (baseOpts' p).lookup kName = some p.name ∧ (baseOpts' p).lookup kVersion = some p.version ∧
    (baseOpts' p).lookup kShort = some p.short := by
  have n1 : ¬ kVersion = kName := by decide
  have n2 : ¬ kShort = kName := by decide
  have n4 : ¬ kShort = kVersion := by decide
  simp [baseOpts', lookup_setsKV, lookup_cons_eq, n1, n2, n4]

theorem deBase_ok (V : View C (docList t g) d) {p : Product} (hl : t.isLayered = true) (hp : t.baseProduct = some p)
    (hv : validateClass "treeinfo.BaseProduct" (productObj p) = .ok ()) : deBase d = .ok p := by
  have hL : (docList t g).lookup sBase = some (baseOpts' p) := by rw [L_base, hl, hp]; rfl
  obtain ⟨l1, l2, l3⟩ := baseOpts'_lookup p
  have g1 := V.get_of hL l1 (by decide)
  have g2 := V.get_of hL l2 (by decide)
  have g3 := V.get_of hL l3 (by decide)
  unfold deBase
  simp [g1, g2, g3, bind, Except.bind, pure, Except.pure, hv]

/-! ### `[tree]` -/

theorem treeOptsFull_lookup (t : TreeInfo) :
    (treeOptsFull t).lookup kArch = some t.tree.arch ∧ (treeOptsFull t).lookup kPlatforms = some (platformsStr t.tree) ∧
    (treeOptsFull t).lookup kBuildTs = some t.tree.ts.str ∧
    (treeOptsFull t).lookup kVariants = some (Str.joinWith ',' (sortS (t.variants.map Variant.uid))) := by
  have n1 : ¬ kVariants = kArch := by decide
  have n2 : ¬ kVariants = kPlatforms := by decide
  have n3 : ¬ kVariants = kBuildTs := by decide
  have n4 : ¬ kPlatforms = kArch := by decide
  have n5 : ¬ kBuildTs = kArch := by decide
  have n6 : ¬ kBuildTs = kPlatforms := by decide
  simp [treeOptsFull, treeOpts, lookup_setKV, lookup_setsKV, lookup_cons_eq, n1, n2, n3, n4, n5, n6]

/-- every platform name (the tree architecture included) can travel in the comma-separated `platforms` option -/
def PlatformsOK (tr : Tree) : Prop := ∀ p ∈ tr.platforms ++ [tr.arch], p ≠ [] ∧ ',' ∉ p

theorem platforms_read (tr : Tree) (h : PlatformsOK tr) :
    splitNonEmpty (platformsStr tr) = Str.sortDedup (tr.platforms ++ [tr.arch]) := by
  unfold platformsStr
  apply splitNonEmpty_join
  · intro x hx; exact (h x ((mem_sortDedup x _).mp hx)).1
  · intro x hx; exact (h x ((mem_sortDedup x _).mp hx)).2

theorem deTree_ok (fo : FloatOracle) (V : View C (docList t g) d) (n : Int) (hts : t.tree.ts = .int n)
    (hfl : fo.intOfFloatStr (Str.intStr n) = .ok n) (hp : PlatformsOK t.tree)
    (hv : validateClass "treeinfo.Tree" (treeObj ⟨t.tree.arch, .int n, Str.sortDedup (t.tree.platforms ++ [t.tree.arch])⟩) = .ok ()) :
    deTree fo .v1_0 d = .ok ⟨t.tree.arch, .int n, Str.sortDedup (t.tree.platforms ++ [t.tree.arch])⟩ := by
  have hL := L_tree t g
  obtain ⟨l1, l2, l3, _⟩ := treeOptsFull_lookup t
  have hs : hasSection d sTree = true := by rw [V.hasSection_of (by decide), hL]; rfl
  have g1 := V.get_of hL l1 (by decide)
  have g2 := V.get_of hL l2 (by decide)
  have g3 := V.get_of hL l3 (by decide)
  rw [hts] at g3
  unfold deTree
  simp [hs, g1, g2, g3, Ts.str, hfl, platforms_read _ hp, bind, Except.bind, pure, Except.pure, hv]

/-! ### stage2 and media -/

theorem stage2Opts_lookup (m i : Option Str) :
    (stage2Opts m i).lookup kMainimage = (if optTruthy m then m else none) ∧
    (stage2Opts m i).lookup kInstimage = (if optTruthy i then i else none) := by
  have n1 : ¬ kInstimage = kMainimage := by decide
  have n2 : ¬ kMainimage = kInstimage := by decide
  cases m with
  | none => cases i with
    | none => simp [stage2Opts, optTruthy, setsKV]
    | some b => cases hb : optTruthy (some b) <;> simp [stage2Opts, optTruthy, lookup_setsKV, lookup_cons_eq, n1, n2, hb] <;> simp_all [optTruthy]
  | some a => cases i with
    | none => cases ha : optTruthy (some a) <;> simp [stage2Opts, optTruthy, lookup_setsKV, lookup_cons_eq, n1, n2, ha] <;> simp_all [optTruthy]
    | some b =>
      cases ha : optTruthy (some a) <;> cases hb : optTruthy (some b) <;>
        simp [stage2Opts, lookup_setsKV, lookup_cons_eq, n1, n2, ha, hb] <;> simp_all [optTruthy]

def normOpt (m : Option Str) : Option Str := if optTruthy m then m else none

theorem readOpt (V : View C (docList t g) d) {s k : Str} {o : IniSec} (hL : (docList t g).lookup s = some o) (hnc : nc k = true)
    (h1 : s.isEmpty = false) (h2 : (s == DEFAULT) = false) :
    (if hasOption d s k then (Ini.get d s k).map some else pure none : Except Err (Option Str)) = .ok (o.lookup k) := by
  rw [V.hasOption_of hL hnc h1 h2]
  cases hk : o.lookup k with
  | none => rfl
  | some v => simp [V.get_of hL hk hnc, Except.map]

theorem deStage2_ok (V : View C (docList t g) d)
    (hv : validateClass "treeinfo.Stage2" (stage2Obj (normOpt t.mainimage) (normOpt t.instimage)) = .ok ()) :
    deStage2 d = .ok (normOpt t.mainimage, normOpt t.instimage) := by
  unfold deStage2
  cases hon : stage2On t.mainimage t.instimage
  · have hL : (docList t g).lookup sStage2 = none := by rw [L_stage2, hon]; rfl
    have o1 : ∀ k, hasOption d sStage2 k = false := fun k => V.hasOption_nosec hL (by decide) (by decide)
    have hm : normOpt t.mainimage = none := by
      unfold stage2On at hon; unfold normOpt; cases h : optTruthy t.mainimage <;> simp_all
    have hi : normOpt t.instimage = none := by
      unfold stage2On at hon; unfold normOpt; cases h : optTruthy t.instimage <;> simp_all
    rw [hm, hi] at hv ⊢
    simp [o1, bind, Except.bind, pure, Except.pure, hv]
  · have hL : (docList t g).lookup sStage2 = some (stage2Opts t.mainimage t.instimage) := by rw [L_stage2, hon]; rfl
    obtain ⟨l1, l2⟩ := stage2Opts_lookup t.mainimage t.instimage
    have o1 := V.hasOption_of hL (k := kMainimage) (by decide) (by decide) (by decide)
    have o2 := V.hasOption_of hL (k := kInstimage) (by decide) (by decide) (by decide)
    rw [l1] at o1; rw [l2] at o2
    unfold normOpt at hv ⊢
    have truthy_some : ∀ m : Option Str, optTruthy m = true → ∃ a, m = some a := by
      intro m h; cases m with
      | none => simp [optTruthy] at h
      | some a => exact ⟨a, rfl⟩
    cases hm : optTruthy t.mainimage <;> cases hi : optTruthy t.instimage <;>
      simp only [hm, hi, Bool.false_eq_true, if_false, if_true] at o1 o2 l1 l2 hv ⊢
    · simp [o1, o2, bind, Except.bind, pure, Except.pure, hv]
    · obtain ⟨b, hb⟩ := truthy_some _ hi
      have g2 := V.get_of hL (l2.trans hb) (by decide)
      rw [hb] at o2 hv ⊢
      simp [o1, o2, g2, Except.map, bind, Except.bind, pure, Except.pure, hv]
    · obtain ⟨a, ha⟩ := truthy_some _ hm
      have g1 := V.get_of hL (l1.trans ha) (by decide)
      rw [ha] at o1 hv ⊢
      simp [o1, o2, g1, Except.map, bind, Except.bind, pure, Except.pure, hv]
    · obtain ⟨a, ha⟩ := truthy_some _ hm
      obtain ⟨b, hb⟩ := truthy_some _ hi
      have g1 := V.get_of hL (l1.trans ha) (by decide)
      have g2 := V.get_of hL (l2.trans hb) (by decide)
      rw [ha] at o1 hv ⊢
      rw [hb] at o2 hv ⊢
      simp [o1, o2, g1, g2, Except.map, bind, Except.bind, pure, Except.pure, hv]

def mediaNorm (a b : Option Int) : Option Int × Option Int := if mediaOn a b then (a, b) else (none, none)

theorem mediaOpts_lookup (a b : Option Int) :
    (mediaOpts a b).lookup kDiscnum = some (Str.intStr (a.getD 0)) ∧ (mediaOpts a b).lookup kTotaldiscs = some (Str.intStr (b.getD 0)) := by
  have n1 : ¬ kTotaldiscs = kDiscnum := by decide
  simp [mediaOpts, lookup_setsKV, lookup_cons_eq, n1]

theorem deMedia_ok (V : View C (docList t g) d)
    (hsome : mediaOn t.discnum t.totaldiscs = true → t.discnum.isSome ∧ t.totaldiscs.isSome)
    (hv : validateClass "treeinfo.Media" (mediaObj (mediaNorm t.discnum t.totaldiscs).1 (mediaNorm t.discnum t.totaldiscs).2) = .ok ()) :
    deMedia .v1_0 d = .ok (mediaNorm t.discnum t.totaldiscs) := by
  unfold deMedia
  cases hon : mediaOn t.discnum t.totaldiscs
  · have hL : (docList t g).lookup sMedia = none := by rw [L_media, hon]; rfl
    have hs : hasSection d sMedia = false := by rw [V.hasSection_of (by decide), hL]; rfl
    simp only [mediaNorm, hon, Bool.false_eq_true, if_false] at hv ⊢
    simp [hs, bind, Except.bind, pure, Except.pure, hv]
  · have hL : (docList t g).lookup sMedia = some (mediaOpts t.discnum t.totaldiscs) := by rw [L_media, hon]; rfl
    have hs : hasSection d sMedia = true := by rw [V.hasSection_of (by decide), hL]; rfl
    obtain ⟨l1, l2⟩ := mediaOpts_lookup t.discnum t.totaldiscs
    have g1 := V.get_of hL l1 (by decide)
    have g2 := V.get_of hL l2 (by decide)
    obtain ⟨ha, hb⟩ := hsome hon
    cases hda : t.discnum with
    | none => simp [hda] at ha
    | some x =>
      cases hdb : t.totaldiscs with
      | none => simp [hdb] at hb
      | some y =>
        rw [hda, hdb] at hon
        simp only [mediaNorm, hon, hda, hdb, if_true] at hv ⊢
        simp only [hda, hdb, Option.getD_some] at g1 g2
        simp [hs, g1, g2, pyInt_intStr, bind, Except.bind, pure, Except.pure, hv]

/-! ### checksums -/

/-- checksum paths are dictionary keys; type and value can travel as `type:value` -/
def ChecksumsOK (cs : List (Str × Str × Str)) : Prop := (cs.map (·.1)).Nodup ∧ ∀ c ∈ cs, ':' ∉ c.2.1 ∧ ':' ∉ c.2.2

def csOpt (c : Str × Str × Str) : Str × Str := (c.1, c.2.1 ++ ':' :: c.2.2)

theorem checksumOf_typed (ty v : Str) (h1 : ':' ∉ ty) (h2 : ':' ∉ v) : checksumOf (ty ++ ':' :: v) = .ok (ty, v) := by
  unfold checksumOf
  have hc : (ty ++ ':' :: v).contains ':' = true := by simp
  simp [hc, splitOn_app_sep ':' ty v h1, splitOn_not_mem ':' v h2]

theorem deChecksumItems_ok : ∀ (l acc : List (Str × Str × Str)), (∀ c ∈ l, ':' ∉ c.2.1 ∧ ':' ∉ c.2.2) →
    ((acc ++ l).map (·.1)).Nodup → deChecksumItems (l.map csOpt) acc = .ok (acc ++ l)
  | [], acc, _, _ => by simp [deChecksumItems]
  | c :: l, acc, h, hn => by
    have hc := h c (List.mem_cons_self ..)
    have hfresh : c.1 ∉ acc.map (·.1) := by
      intro hm
      rw [List.map_append, List.nodup_append] at hn
      exact hn.2.2 _ hm _ (by simp) rfl
    simp only [List.map_cons, deChecksumItems, csOpt, checksumOf_typed _ _ hc.1 hc.2]
    rw [setKV_append_fresh _ _ _ hfresh]
    have := deChecksumItems_ok l (acc ++ [(c.1, c.2.1, c.2.2)]) (fun x hx => h x (List.mem_cons_of_mem _ hx))
      (by simpa using hn)
    simpa [csOpt] using this

theorem checksumOpts_eq (cs : List (Str × Str × Str)) (hn : (cs.map (·.1)).Nodup) : checksumOpts cs = cs.map csOpt := by
  unfold checksumOpts
  apply setsKV_nil_nodup
  simpa [List.map_map, Function.comp_def, csOpt] using hn

theorem deChecksums_ok (V : View C (docList t g) d) (hok : ChecksumsOK t.checksums)
    (hC : t.checksums.isEmpty = false → C (checksumOpts t.checksums))
    (hv : validateClass "treeinfo.Checksums" (checksumsObj (sortKV t.checksums)) = .ok ()) :
    deChecksums d = .ok (sortKV t.checksums) := by
  unfold deChecksums
  cases he : t.checksums.isEmpty
  · have hL : (docList t g).lookup sChecksums = some (checksumOpts t.checksums) := by rw [L_checksums, he]; rfl
    have hs : hasSection d sChecksums = true := by rw [V.hasSection_of (by decide), hL]; rfl
    have hit := V.items_of hL (hC he) (by decide)
    rw [checksumOpts_eq _ hok.1] at hit
    have hsort : sortKV (t.checksums.map csOpt) = (sortKV t.checksums).map csOpt :=
      sortKV_map_same csOpt (fun _ => rfl) _
    rw [hsort] at hit
    have hfold := deChecksumItems_ok (sortKV t.checksums) [] (fun c hc => hok.2 c ((mem_sortKV _ _).mp hc))
      (by simpa using nodup_keys_sortKV t.checksums hok.1)
    simp only [List.nil_append] at hfold
    simp [hs, hit, hfold, bind, Except.bind, pure, Except.pure, hv]
  · have hnil : t.checksums = [] := by simpa using he
    have hL : (docList t g).lookup sChecksums = none := by rw [L_checksums, he]; rfl
    have hs : hasSection d sChecksums = false := by rw [V.hasSection_of (by decide), hL]; rfl
    rw [hnil] at hv ⊢
    rw [sortKV_nil] at hv ⊢
    simp [hs, bind, Except.bind, pure, Except.pure, hv]

end TI
end PM
