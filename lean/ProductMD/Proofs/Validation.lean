import ProductMD.Model.Validation
import ProductMD.Proofs.RulesEq
import ProductMD.Spec.Rules
/-! Generic lemmas about the step walk of `Model/Validation.lean` and about rule lists. -/
namespace PM.Val
open PM

/-! ### runSteps -/

theorem runSteps_ok_iff (steps : List Step) : runSteps steps = .ok () ↔ ∀ s ∈ steps, s.run = .ok () := by
  induction steps with
  | nil => simp [runSteps]
  | cons s rest ih =>
    cases h : s.run with
    | ok u => cases u; simp [runSteps, h, ih]
    | error e => simp [runSteps, h]

theorem runSteps_error_of_mem (steps : List Step) (s : Step) (hs : s ∈ steps) (h : s.run ≠ .ok ()) :
    ∃ e, runSteps steps = .error e := by
  cases hr : runSteps steps with
  | error e => exact ⟨e, rfl⟩
  | ok u => cases u; exact absurd ((runSteps_ok_iff steps).mp hr s hs) h

/-- the error of a failed walk is the error of one of its steps -/
theorem runSteps_error_src (steps : List Step) (e : Err) (h : runSteps steps = .error e) :
    ∃ s ∈ steps, s.run = .error e := by
  induction steps with
  | nil => simp [runSteps] at h
  | cons s rest ih =>
    cases hs : s.run with
    | ok u =>
      cases u
      simp only [runSteps, hs] at h
      obtain ⟨t, ht, hte⟩ := ih h
      exact ⟨t, List.mem_cons_of_mem _ ht, hte⟩
    | error e' =>
      simp only [runSteps, hs] at h
      cases h
      exact ⟨s, List.mem_cons_self, hs⟩

theorem mem_vstep {flag : Bool} (h : flag = true) (cls : String) (o : Obj) : Step.validate ⟨cls, o⟩ ∈ vstep flag cls o := by
  simp [vstep, h]

/-! ### catalogue violations -/

/-- some documented rule of the part's class does not hold on it -/
def Part.Violates (p : Part) : Prop := ∃ r ∈ Spec.catalogue p.cls, r.check customs2 p.obj ≠ .ok ()

/-- every documented rule of the part's class holds on it -/
def Part.Conforms (p : Part) : Prop := ∀ r ∈ Spec.catalogue p.cls, r.check customs2 p.obj = .ok ()

theorem catalogue_mem_of_table (h : ∀ e ∈ Spec.catalogueTable, rulesSubset e.2 (genRules e.1) = true)
    (cls : String) : ∀ r ∈ Spec.catalogue cls, r ∈ genRules cls := by
  intro r hr
  unfold Spec.catalogue at hr
  cases hf : Spec.catalogueTable.find? (·.1 == cls) with
  | none => simp [hf] at hr
  | some e =>
    simp only [hf, Option.map_some, Option.getD_some] at hr
    have hmem : e ∈ Spec.catalogueTable := List.mem_of_find?_eq_some hf
    have hk : (e.1 == cls) = true := by simpa using List.find?_some hf
    have hk' : e.1 = cls := by simpa using hk
    have := rulesSubset_sound (h e hmem) r hr
    rwa [hk'] at this

theorem genRules_mem_of_table (h : ∀ e ∈ Gen.allClasses, rulesSubset e.2.flat (Spec.catalogue e.1) = true)
    (cls : String) : ∀ r ∈ genRules cls, r ∈ Spec.catalogue cls := by
  intro r hr
  unfold genRules at hr
  cases hf : Gen.allClasses.find? (·.1 == cls) with
  | none => simp [hf] at hr
  | some e =>
    simp only [hf, Option.map_some, Option.getD_some] at hr
    have hmem : e ∈ Gen.allClasses := List.mem_of_find?_eq_some hf
    have hk : (e.1 == cls) = true := by simpa using List.find?_some hf
    have hk' : e.1 = cls := by simpa using hk
    have := rulesSubset_sound (h e hmem) r hr
    rwa [hk'] at this

/-- a part that violates a documented rule is refused by `validate()`, provided the catalogue is enforced -/
theorem validate2_rejects (henf : ∀ cls, ∀ r ∈ Spec.catalogue cls, r ∈ genRules cls) (p : Part) (hv : p.Violates) :
    (Step.validate p).run ≠ .ok () := by
  obtain ⟨r, hr, hbad⟩ := hv
  intro hok
  exact hbad ((runRules_ok_iff customs2 p.obj (genRules p.cls)).mp hok r (henf p.cls r hr))

/-- a conforming part passes `validate()`, provided nothing undocumented is enforced -/
theorem validate2_accepts (hcomp : ∀ cls, ∀ r ∈ genRules cls, r ∈ Spec.catalogue cls) (p : Part) (hc : p.Conforms) :
    (Step.validate p).run = .ok () :=
  (runRules_ok_iff customs2 p.obj (genRules p.cls)).mpr fun r hr => hc r (hcomp p.cls r hr)

/-! ### error classes of rule lists -/

def Rule.customNamesIn : Rule → List Str
  | .custom n => [n]
  | .guarded _ r => Rule.customNamesIn r
  | _ => []

/-- a rule fails with TypeError or ValueError, unless it is (a guard around) a hand-bound rule whose body fails otherwise -/
theorem Rule.check_errclass (cu : Str → Obj → Except Err Unit) (o : Obj) (r : Rule) (e : Err) (h : r.check cu o = .error e) :
    e = .typeError ∨ e = .valueError ∨ ∃ n ∈ Rule.customNamesIn r, cu n o = .error e := by
  induction r with
  | type f ts => simp only [Rule.check] at h; split at h <;> simp_all
  | value f t => simp only [Rule.check] at h; split at h <;> (try split at h) <;> simp_all
  | notBlank f => simp only [Rule.check] at h; split at h <;> simp_all
  | re f ps => simp only [Rule.check] at h; split at h <;> (try split at h) <;> simp_all
  | failIf c => simp only [Rule.check] at h; split at h <;> (try split at h) <;> simp_all
  | guarded c r ih =>
    simp only [Rule.check] at h
    split at h
    · simp_all
    · split at h
      · rcases ih h with h1 | h1 | ⟨n, hn, hc⟩
        · exact Or.inl h1
        · exact Or.inr (Or.inl h1)
        · exact Or.inr (Or.inr ⟨n, by simpa [Rule.customNamesIn] using hn, hc⟩)
      · simp at h
  | custom n => exact Or.inr (Or.inr ⟨n, by simp [Rule.customNamesIn], by simpa [Rule.check] using h⟩)

theorem runRules_errclass (cu : Str → Obj → Except Err Unit) (o : Obj) (rs : List Rule) (e : Err) (h : runRules cu o rs = .error e) :
    e = .typeError ∨ e = .valueError ∨ ∃ r ∈ rs, ∃ n ∈ Rule.customNamesIn r, cu n o = .error e := by
  induction rs with
  | nil => simp [runRules] at h
  | cons r rest ih =>
    cases hr : r.check cu o with
    | ok u =>
      cases u
      simp only [runRules, hr] at h
      rcases ih h with h1 | h1 | ⟨q, hq, n, hn, hc⟩
      · exact Or.inl h1
      · exact Or.inr (Or.inl h1)
      · exact Or.inr (Or.inr ⟨q, List.mem_cons_of_mem _ hq, n, hn, hc⟩)
    | error e' =>
      simp only [runRules, hr] at h
      cases h
      rcases Rule.check_errclass cu o r e hr with h1 | h1 | ⟨n, hn, hc⟩
      · exact Or.inl h1
      · exact Or.inr (Or.inl h1)
      · exact Or.inr (Or.inr ⟨r, List.mem_cons_self, n, hn, hc⟩)

end PM.Val
