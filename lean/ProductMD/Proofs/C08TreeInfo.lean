import ProductMD.Proofs.TreeInfoSecondDump
import ProductMD.Proofs.RulesAgree
import ProductMD.Proofs.PermR
import ProductMD.Proofs.CIBasic
/-!
C08 for treeinfo, the whole writer: two trees that are the same content - variant containers at every level, the platform set,
the image tables and the checksum table in any order, path tables answering every lookup alike - are written as documents with
the same sections and the same options (`CE`, up to creation order), and a dump that succeeds for one succeeds for the other.
Built on the lookup-form writer specification (`serialize_spec`), its converse (`serialize_conv`) and `render_eq_of_CE`
of builder `treeinfo`.
-/
namespace PM
namespace TI
open Ini

mutual
/-- the same variant content: same key/id/uid/name/type, path tables answering every lookup alike, children a rearrangement
of each other, each the same content -/
inductive TVEq : Variant → Variant → Prop
  | mk (key id uid name type : Str) {p p' : List (Str × Str)} {k k' : List Variant} :
      (∀ f, p.lookup f = p'.lookup f) → TLEq k k' → TVEq (.mk key id uid name type p k) (.mk key id uid name type p' k')
inductive TLEq : List Variant → List Variant → Prop
  | nil : TLEq [] []
  | cons {v v' : Variant} {l l' : List Variant} : TVEq v v' → TLEq l l' → TLEq (v :: l) (v' :: l')
  | swap (a b : Variant) (l : List Variant) : TLEq (a :: b :: l) (b :: a :: l)
  | trans {l₁ l₂ l₃ : List Variant} : TLEq l₁ l₂ → TLEq l₂ l₃ → TLEq l₁ l₃
end

mutual
theorem TVEq.refl : ∀ v : Variant, TVEq v v
  | .mk key id uid name type _ k => .mk key id uid name type (fun _ => rfl) (TLEq.refl k)
theorem TLEq.refl : ∀ l : List Variant, TLEq l l
  | [] => .nil
  | v :: l => .cons (TVEq.refl v) (TLEq.refl l)
end

theorem TLEq.of_perm {l l' : List Variant} (h : l.Perm l') : TLEq l l' := by
  induction h with
  | nil => exact .nil
  | cons x _ ih => exact .cons (TVEq.refl x) ih
  | swap x y l => exact .swap y x l
  | trans _ _ ih1 ih2 => exact .trans ih1 ih2

def vsumm (v : Variant) : Str × Str × Str × Str := (v.key, v.id, v.uid, v.type)

theorem TVEq.summ {v v' : Variant} (h : TVEq v v') : vsumm v = vsumm v' := by cases h; rfl

theorem TLEq.summ : ∀ {l l' : List Variant}, TLEq l l' → (l.map vsumm).Perm (l'.map vsumm)
  | _, _, .nil => List.Perm.refl _
  | _, _, .cons h t => by simp only [List.map_cons, h.summ]; exact List.Perm.cons _ (TLEq.summ t)
  | _, _, .swap _ _ _ => List.Perm.swap _ _ _
  | _, _, .trans h1 h2 => (TLEq.summ h1).trans (TLEq.summ h2)

theorem TLEq.keys {l l' : List Variant} (h : TLEq l l') : (l.map Variant.key).Perm (l'.map Variant.key) := by
  have := h.summ.map (·.1)
  simpa [List.map_map, Function.comp_def, vsumm] using this

theorem TLEq.uids {l l' : List Variant} (h : TLEq l l') : (l.map Variant.uid).Perm (l'.map Variant.uid) := by
  have := h.summ.map (·.2.2.1)
  simpa [List.map_map, Function.comp_def, vsumm] using this

theorem TLEq.isEmpty {l l' : List Variant} (h : TLEq l l') : l.isEmpty = l'.isEmpty := by
  have := h.summ.length_eq
  cases l <;> cases l' <;> simp_all

theorem TLEq.mem_right : ∀ {l l' : List Variant}, TLEq l l' → ∀ v' ∈ l', ∃ v ∈ l, TVEq v v'
  | _, _, .nil, _, h => by cases h
  | _, _, .cons hv t, v', h => by
    rcases List.mem_cons.mp h with rfl | h
    · exact ⟨_, List.mem_cons_self, hv⟩
    · obtain ⟨v, hm, he⟩ := TLEq.mem_right t v' h
      exact ⟨v, List.mem_cons_of_mem _ hm, he⟩
  | _, _, .swap a b l, v', h => by
    refine ⟨v', ?_, TVEq.refl v'⟩
    simp only [List.mem_cons] at h ⊢
    rcases h with h | h | h
    · exact .inr (.inl h)
    · exact .inl h
    · exact .inr (.inr h)
  | _, _, .trans h1 h2, v', h => by
    obtain ⟨v, hm, he⟩ := TLEq.mem_right h2 v' h
    obtain ⟨u, hm', he'⟩ := TLEq.mem_right h1 v hm
    refine ⟨u, hm', ?_⟩
    cases he' with
    | mk key id uid name type hp hk =>
      cases he with
      | mk _ _ _ _ _ hp' hk' => exact .mk key id uid name type (fun f => (hp f).trans (hp' f)) (.trans hk hk')

/-! ### sections of the forest -/

theorem pathOpts_congr {p p' : List (Str × Str)} (h : ∀ f, p.lookup f = p'.lookup f) : pathOpts p = pathOpts p' := by
  unfold pathOpts
  simp only [h]

theorem varOpts_congr (pu : Option Str) {v v' : Variant} (h : TVEq v v') : varOpts pu v = varOpts pu v' := by
  cases h with
  | mk key id uid name type hp hk =>
    simp only [varOpts, baseOpts, pathOpts_congr hp, hk.isEmpty, CI.sortDedup_congr (fun x => hk.uids.mem_iff (a := x))]

mutual
theorem TVEq.flat (pu : Option Str) : ∀ {v v' : Variant}, TVEq v v' → (flatV pu v).Perm (flatV pu v')
  | _, _, .mk key id uid name type hp hk => by
    have ho := varOpts_congr pu (.mk key id uid name type hp hk)
    simp only [flatV, ho]
    exact (TLEq.flats (some uid) hk).append_right _
theorem TLEq.flats (pu : Option Str) : ∀ {l l' : List Variant}, TLEq l l' → (flatVs pu l).Perm (flatVs pu l')
  | _, _, .nil => List.Perm.refl _
  | _, _, .cons hv t => by
    simp only [flatVs]
    exact (TLEq.flats pu t).append (TVEq.flat pu hv)
  | _, _, .swap a b l => by
    simp only [flatVs, List.append_assoc]
    exact List.Perm.append_left _ List.perm_append_comm
  | _, _, .trans h1 h2 => (TLEq.flats pu h1).trans (TLEq.flats pu h2)
end

theorem TLEq.names {l l' : List Variant} (h : TLEq l l') : (namesVs l).Perm (namesVs l') :=
  ((namesVs_perm l none).trans ((h.flats none).map (·.1))).trans (namesVs_perm l' none).symm

/-! ### validators cannot tell the two trees apart -/

def nVariantUid : Str := k%"treeinfo.Variant._validate_uid"
def nVariantKeys : Str := k%"composeinfo.VariantBase._validate_variants"
def nChecksumPaths : Str := k%"treeinfo.Checksums._validate_checksum_paths"
def nImagePaths : Str := k%"treeinfo.Images._validate_image_paths"
def nImagePlatforms : Str := k%"treeinfo.Images._validate_platforms"

theorem customs_variantUid : customs nVariantUid = tiVariantUid := by funext o; rfl
theorem customs_variantKeys : customs nVariantKeys = validateVariantKeys := by funext o; rfl
theorem customs_checksumPaths : customs nChecksumPaths = tiChecksumPaths := by funext o; rfl
theorem customs_imagePaths : customs nImagePaths = tiImagePaths := by funext o; rfl
theorem customs_imagePlatforms : customs nImagePlatforms = tiImagePlatforms := by funext o; rfl

/-- the container validator looks at the children dict through `any`: the order of its entries is irrelevant -/
theorem validateVariantKeys_perm {o o' : Obj} {kvs kvs' : List (Str × PyVal)} (h : o.get kVariants = .dict kvs)
    (h' : o'.get kVariants = .dict kvs') (hp : kvs.Perm kvs') : validateVariantKeys o = validateVariantKeys o' := by
  unfold validateVariantKeys
  have e : "variants".toList = kVariants := rfl
  rw [e, h, h']
  simp only [hp.any_eq]

theorem kidSummary_summ (b : Bool) (v : Variant) :
    kidSummary b v = ((vsumm v).1, .dict [(kId, .str (vsumm v).2.1), (kUid, .str (vsumm v).2.2.1), (kType, .str (vsumm v).2.2.2),
      ("parent_none".toList, .bool b)]) := rfl

theorem TLEq.summaries (b : Bool) {l l' : List Variant} (h : TLEq l l') : (l.map (kidSummary b)).Perm (l'.map (kidSummary b)) := by
  have := h.summ.map (fun s : Str × Str × Str × Str => ((s.1, PyVal.dict [(kId, .str s.2.1), (kUid, .str s.2.2.1), (kType, .str s.2.2.2),
      ("parent_none".toList, .bool b)]) : Str × PyVal))
  rw [List.map_map, List.map_map] at this
  exact this

theorem variantObj_get_variants (pu : Option Str) (id uid name type : Str) (kids : List Variant) :
    (variantObj pu id uid name type kids).get kVariants = .dict (kids.map (kidSummary false)) := rfl

theorem variantObj_get_ne (pu : Option Str) (id uid name type : Str) (kids kids' : List Variant) (f : Str) (hf : f ≠ kVariants) :
    (variantObj pu id uid name type kids).get f = (variantObj pu id uid name type kids').get f := by
  have hb : (kVariants == f) = false := by simp [Ne.symm hf]
  simp only [Obj.get, variantObj, List.find?_cons, hb, List.find?_nil]

theorem variant_reads : ∀ f ∈ classReads "treeinfo.Variant", f ≠ kVariants := by decide
theorem variant_customs : ∀ n ∈ classCustoms "treeinfo.Variant", n = nVariantUid ∨ n = nVariantKeys := by decide

theorem tiVariantUid_congr {o o' : Obj} (h : ∀ f, f ≠ kVariants → o.get f = o'.get f) : tiVariantUid o = tiVariantUid o' := by
  unfold tiVariantUid
  rw [h "parent".toList (by decide), h "id".toList (by decide), h "uid".toList (by decide)]

theorem variant_validate_congr (pu : Option Str) (id uid name type : Str) {kids kids' : List Variant} (h : TLEq kids kids') :
    validateClass "treeinfo.Variant" (variantObj pu id uid name type kids)
      = validateClass "treeinfo.Variant" (variantObj pu id uid name type kids') := by
  apply validateClass_agree
  · intro f hf
    exact variantObj_get_ne pu id uid name type kids kids' f (variant_reads f hf)
  · intro n hn
    rcases variant_customs n hn with rfl | rfl
    · rw [customs_variantUid]
      exact tiVariantUid_congr (fun f hf => variantObj_get_ne pu id uid name type kids kids' f hf)
    · rw [customs_variantKeys]
      exact validateVariantKeys_perm (variantObj_get_variants ..) (variantObj_get_variants ..) (h.summaries false)

mutual
theorem TVEq.valid : ∀ {v v' : Variant}, TVEq v v' → ∀ pu, ValidV pu v → ValidV pu v'
  | _, _, .mk key id uid name type hp hk, pu, hv => by
    simp only [ValidV] at hv ⊢
    exact ⟨(variant_validate_congr pu id uid name type hk) ▸ hv.1, TLEq.valids hk (some uid) hv.2⟩
theorem TLEq.valids : ∀ {l l' : List Variant}, TLEq l l' → ∀ pu, ValidVs pu l → ValidVs pu l'
  | _, _, .nil, _, h => h
  | _, _, .cons hv t, pu, h => by
    simp only [ValidVs] at h ⊢
    exact ⟨TVEq.valid hv pu h.1, TLEq.valids t pu h.2⟩
  | _, _, .swap _ _ _, _, h => by
    simp only [ValidVs] at h ⊢
    exact ⟨h.2.1, h.1, h.2.2⟩
  | _, _, .trans h1 h2, pu, h => TLEq.valids h2 pu (TLEq.valids h1 pu h)
end

/-- the top-level container -/
theorem tops_validate_congr {l l' : List Variant} (h : TLEq l l') :
    validateClass "treeinfo.Variants" (variantsObj l) = validateClass "treeinfo.Variants" (variantsObj l') := by
  apply validateClass_agree
  · have : classReads "treeinfo.Variants" = [] := by decide
    rw [this]; intro f hf; cases hf
  · have : ∀ n ∈ classCustoms "treeinfo.Variants", n = nVariantKeys := by decide
    intro n hn
    rw [this n hn, customs_variantKeys]
    exact validateVariantKeys_perm (kvs := l.map (kidSummary true)) (kvs' := l'.map (kidSummary true)) rfl rfl (h.summaries true)

/-- `[tree]`: the platform set is not validated -/
theorem tree_validate_congr (t t' : Tree) (ha : t.arch = t'.arch) (hts : t.ts = t'.ts) :
    validateClass "treeinfo.Tree" (treeObj t) = validateClass "treeinfo.Tree" (treeObj t') := by
  apply validateClass_agree
  · have hr : ∀ f ∈ classReads "treeinfo.Tree", f ≠ kPlatforms := by decide
    intro f hf
    have hb : (kPlatforms == f) = false := by simp [Ne.symm (hr f hf)]
    simp only [Obj.get, treeObj, List.find?_cons, hb, List.find?_nil, ha, hts]
  · have : classCustoms "treeinfo.Tree" = [] := by decide
    rw [this]; intro n hn; cases hn

/-- `[checksums]`: the validator looks at the keys through `any` -/
theorem checksums_validate_congr {cs cs' : List (Str × Str × Str)} (h : cs.Perm cs') :
    validateClass "treeinfo.Checksums" (checksumsObj cs) = validateClass "treeinfo.Checksums" (checksumsObj cs') := by
  apply validateClass_agree
  · have : classReads "treeinfo.Checksums" = [] := by decide
    rw [this]; intro f hf; cases hf
  · have : ∀ n ∈ classCustoms "treeinfo.Checksums", n = nChecksumPaths := by decide
    intro n hn
    rw [this n hn, customs_checksumPaths]
    unfold tiChecksumPaths
    have e : ∀ c : List (Str × Str × Str), (checksumsObj c).get "checksums".toList
        = .dict (c.map fun c => (c.1, PyVal.list [.str c.2.1, .str c.2.2])) := fun _ => rfl
    rw [e, e]
    simp only [(h.map _).any_eq]

/-! ### image tables -/

/-- the same image table entry: same platform, the images a rearrangement -/
def ImgR (p q : Str × List (Str × Str)) : Prop := p.1 = q.1 ∧ p.2.Perm q.2

def verdict : Bool → Except Err Unit
  | true => .error .valueError
  | false => .ok ()

def pathStep (acc2 : Except Err Unit) (x : Str × PyVal) : Except Err Unit :=
  acc2.bind fun _ => match x.2 with
    | .str s => if Str.startsWith s ['/'] then .error .valueError else .ok ()
    | _ => .error .typeError

theorem pathFold (l : List (Str × Str)) : ∀ acc : Except Err Unit,
    (l.map fun kv => (kv.1, PyVal.str kv.2)).foldl pathStep acc =
      match acc with
      | .error e => .error e
      | .ok () => verdict (l.any (fun kv => Str.startsWith kv.2 ['/'])) := by
  induction l with
  | nil => intro acc; cases acc <;> rfl
  | cons kv rest ih =>
    intro acc
    simp only [List.map_cons, List.foldl_cons, ih]
    cases acc with
    | error e => rfl
    | ok u =>
      cases u
      simp only [pathStep, Except.bind, List.any_cons]
      cases Str.startsWith kv.2 ['/'] <;> simp [verdict]

def platStep (acc : Except Err Unit) (x : Str × PyVal) : Except Err Unit :=
  acc.bind fun _ => match x.2 with
    | .dict kv => kv.foldl pathStep (.ok ())
    | _ => .error .attributeError

theorem platFold (images : List (Str × List (Str × Str))) : ∀ acc : Except Err Unit,
    (images.map fun p => (p.1, PyVal.dict (p.2.map fun kv => (kv.1, PyVal.str kv.2)))).foldl platStep acc =
      match acc with
      | .error e => .error e
      | .ok () => verdict (images.any (fun p => p.2.any fun kv => Str.startsWith kv.2 ['/'])) := by
  induction images with
  | nil => intro acc; cases acc <;> rfl
  | cons p rest ih =>
    intro acc
    simp only [List.map_cons, List.foldl_cons, ih]
    cases acc with
    | error e => rfl
    | ok u =>
      cases u
      simp only [platStep, Except.bind, pathFold, List.any_cons]
      cases (p.2.any fun kv => Str.startsWith kv.2 ['/']) <;> simp [verdict]

theorem imagePaths_eq (images : List (Str × List (Str × Str))) (plats : List Str) :
    tiImagePaths (imagesObj images plats) = verdict (images.any (fun p => p.2.any fun kv => Str.startsWith kv.2 ['/'])) := by
  have e : (imagesObj images plats).get "images".toList
      = .dict (images.map fun p => (p.1, PyVal.dict (p.2.map fun kv => (kv.1, PyVal.str kv.2)))) := rfl
  unfold tiImagePaths
  rw [e]
  exact platFold images (.ok ())

theorem imagePlatforms_eq (images : List (Str × List (Str × Str))) (plats : List Str) :
    tiImagePlatforms (imagesObj images plats) =
      verdict (!images.all (fun p => plats.any fun q => p.1 == q)) := by
  have e1 : (imagesObj images plats).get "images".toList
      = .dict (images.map fun p => (p.1, PyVal.dict (p.2.map fun kv => (kv.1, PyVal.str kv.2)))) := rfl
  have e2 : (imagesObj images plats).get "tree.platforms".toList = .list (plats.map .str) := rfl
  unfold tiImagePlatforms
  rw [e1, e2]
  simp only [List.all_map, List.any_map, Function.comp_def]
  have : ∀ p q : Str, PyVal.pyEq (.str p) (.str q) = (p == q) := fun p q => by
    simp [PyVal.pyEq, PyVal.canon, PyVal.beq]
  simp only [this]
  cases (images.all fun p => plats.any fun q => p.1 == q) <;> simp [verdict]

theorem images_validate_congr {images images' : List (Str × List (Str × Str))} {plats plats' : List Str}
    (h : PermR ImgR images images') (hp : ∀ x, x ∈ plats ↔ x ∈ plats') :
    validateClass "treeinfo.Images" (imagesObj images plats) = validateClass "treeinfo.Images" (imagesObj images' plats') := by
  apply validateClass_agree
  · have : classReads "treeinfo.Images" = [] := by decide
    rw [this]; intro f hf; cases hf
  · have : ∀ n ∈ classCustoms "treeinfo.Images", n = nImagePaths ∨ n = nImagePlatforms := by decide
    intro n hn
    rcases this n hn with rfl | rfl
    · rw [customs_imagePaths, imagePaths_eq, imagePaths_eq]
      rw [h.any_eq (fun p => p.2.any fun kv => Str.startsWith kv.2 ['/']) (fun a b r => r.2.any_eq)]
    · rw [customs_imagePlatforms, imagePlatforms_eq, imagePlatforms_eq]
      have hany : ∀ x : Str, (plats.any fun q => x == q) = (plats'.any fun q => x == q) := by
        intro x
        rw [Bool.eq_iff_iff]
        simp only [List.any_eq_true, beq_iff_eq]
        exact ⟨fun ⟨q, hq, e⟩ => ⟨q, (hp q).mp hq, e⟩, fun ⟨q, hq, e⟩ => ⟨q, (hp q).mpr hq, e⟩⟩
      simp only [hany]
      rw [h.all_eq (fun p => plats'.any fun q => p.1 == q) (fun a b r => by rw [r.1])]

/-! ### the same tree -/

/-- the same tree content: scalar facts equal; the platform SET equal; the variant forest equal up to the order of every
container; checksum table and image tables rearranged -/
structure Same (t t' : TreeInfo) : Prop where
  headerVersion : t.headerVersion = t'.headerVersion
  release : t.release = t'.release
  isLayered : t.isLayered = t'.isLayered
  baseProduct : t.baseProduct = t'.baseProduct
  arch : t.tree.arch = t'.tree.arch
  ts : t.tree.ts = t'.tree.ts
  platforms : ∀ x, x ∈ t.tree.platforms ↔ x ∈ t'.tree.platforms
  variants : TLEq t.variants t'.variants
  checksums : t.checksums.Perm t'.checksums
  images : PermR ImgR t.images t'.images
  mainimage : t.mainimage = t'.mainimage
  instimage : t.instimage = t'.instimage
  discnum : t.discnum = t'.discnum
  totaldiscs : t.totaldiscs = t'.totaldiscs

theorem Same.refl (t : TreeInfo) : Same t t :=
  ⟨rfl, rfl, rfl, rfl, rfl, rfl, fun _ => Iff.rfl, TLEq.refl _, List.Perm.refl _,
   PermR.refl (fun p => ⟨rfl, List.Perm.refl _⟩) _, rfl, rfl, rfl, rfl⟩

/-- model domain: these containers are Python dicts, their keys are pairwise distinct -/
structure DictKeys (t : TreeInfo) : Prop where
  tops : (t.variants.map Variant.key).Nodup
  checksums : (t.checksums.map (·.1)).Nodup
  images : ∀ p ∈ t.images, (p.2.map (·.1)).Nodup

theorem TVEq.paths {v v' : Variant} (h : TVEq v v') : ∀ f, v.paths.lookup f = v'.paths.lookup f := by
  cases h with
  | mk _ _ _ _ _ hp _ => exact hp

theorem TVEq.key_eq {v v' : Variant} (h : TVEq v v') : v.key = v'.key := by cases h; rfl

theorem TLEq.mem_left : ∀ {l l' : List Variant}, TLEq l l' → ∀ v ∈ l, ∃ v' ∈ l', TVEq v v'
  | _, _, .nil, _, h => by cases h
  | _, _, .cons hv t, v, h => by
    rcases List.mem_cons.mp h with rfl | h
    · exact ⟨_, List.mem_cons_self, hv⟩
    · obtain ⟨v', hm, he⟩ := TLEq.mem_left t v h
      exact ⟨v', List.mem_cons_of_mem _ hm, he⟩
  | _, _, .swap a b l, v, h => by
    refine ⟨v, ?_, TVEq.refl v⟩
    simp only [List.mem_cons] at h ⊢
    rcases h with h | h | h
    · exact .inr (.inl h)
    · exact .inl h
    · exact .inr (.inr h)
  | _, _, .trans h1 h2, v, h => by
    obtain ⟨u, hm, he⟩ := TLEq.mem_left h1 v h
    obtain ⟨w, hm', he'⟩ := TLEq.mem_left h2 u hm
    refine ⟨w, hm', ?_⟩
    cases he with
    | mk key id uid name type hp hk =>
      cases he' with
      | mk _ _ _ _ _ hp' hk' => exact .mk key id uid name type (fun f => (hp f).trans (hp' f)) (.trans hk hk')

theorem platformsStr_congr {t t' : Tree} (ha : t.arch = t'.arch) (hp : ∀ x, x ∈ t.platforms ↔ x ∈ t'.platforms) :
    platformsStr t = platformsStr t' := by
  unfold platformsStr
  rw [ha, CI.sortDedup_congr (l₁ := t.platforms ++ [t'.arch]) (l₂ := t'.platforms ++ [t'.arch])]
  intro x
  simp only [List.mem_append, hp x]

theorem chosenKey_congr {l l' : List Variant} (h : TLEq l l') (mv : Option Str) : chosenKey l mv = chosenKey l' mv := by
  unfold chosenKey
  cases mv with
  | some m => rfl
  | none => simp only [sortS_perm_eq h.keys]

theorem generalOpts_congr {t t' : TreeInfo} (hs : Same t t') (n : Int) (key : Str) {v v' : Variant} (hv : TVEq v v') :
    generalOpts t n key v = generalOpts t' n key v' := by
  have hg : ∀ f sf, generalPath t.tree.arch v.paths f sf = generalPath t'.tree.arch v'.paths f sf := by
    intro f sf
    unfold generalPath
    rw [hs.arch, hv.paths f, hv.paths sf]
  unfold generalOpts generalBase
  rw [hg, hg, sortS_perm_eq hs.variants.keys, hs.release, hs.arch, platformsStr_congr hs.arch hs.platforms]

theorem imgFlat_CE {images images' : List (Str × List (Str × Str))} (h : PermR ImgR images images')
    (hn : ∀ p ∈ images, (p.2.map (·.1)).Nodup) : CE (imgFlat images') (imgFlat images) := by
  unfold CE
  rw [imgFlat_eq, imgFlat_eq, List.map_reverse, List.map_reverse]
  refine (List.reverse_perm _).trans (List.Perm.trans ?_ (List.reverse_perm _).symm)
  rw [List.map_map, List.map_map]
  refine (PermR.map_perm _ ?_ (h.strengthen hn)).symm
  intro a b ⟨⟨h1, h2⟩, hna⟩
  have hnb : (b.2.map (·.1)).Nodup := (h2.map (·.1)).nodup_iff.mp hna
  simp only [Function.comp, canonSec]
  rw [setsKV_nil_nodup _ hna, setsKV_nil_nodup _ hnb, h1]
  congr 1
  exact sortBy_perm_eq (·.1) h2 hna

theorem checksums_CE {cs cs' : List (Str × Str × Str)} (h : cs.Perm cs') (hn : (cs.map (·.1)).Nodup) :
    CE (optSec (!cs'.isEmpty) sChecksums (checksumOpts cs')) (optSec (!cs.isEmpty) sChecksums (checksumOpts cs)) := by
  have hn' : (cs'.map (·.1)).Nodup := (h.map (·.1)).nodup_iff.mp hn
  have he : cs'.isEmpty = cs.isEmpty := by
    have := h.length_eq
    cases cs <;> cases cs' <;> simp_all
  rw [he]
  cases hc : cs.isEmpty
  · unfold CE optSec
    simp only [Bool.not_false, if_true, List.map_cons, List.map_nil, canonSec]
    apply List.Perm.of_eq
    congr 2
    rw [checksumOpts_eq _ hn, checksumOpts_eq _ hn']
    unfold sortKV
    apply sortBy_perm_eq
    · exact (h.map csOpt).symm
    · have : (cs'.map csOpt).map (fun x => x.1) = cs'.map (fun x => x.1) := by
        simp [List.map_map, Function.comp_def, csOpt]
      rw [this]; exact hn'
  · simp [optSec, CE]

theorem docList_CE {t t' : TreeInfo} (hs : Same t t') (hk : DictKeys t) (g : IniSec) : CE (docList t' g) (docList t g) := by
  unfold docList
  refine CE.append CE.rfl' (CE.append ?_ (CE.append ?_ (CE.append ?_ (CE.append ?_ (CE.append ?_ (CE.append ?_ (CE.append ?_ ?_)))))))
  · exact CE.of_eq (by rw [hs.discnum, hs.totaldiscs])
  · exact CE.of_eq (by rw [hs.mainimage, hs.instimage])
  · exact imgFlat_CE hs.images hk.images
  · exact checksums_CE hs.checksums hk.checksums
  · exact CE.of_perm (hs.variants.flats none).symm
  · refine CE.of_eq ?_
    unfold treeOptsFull treeOpts
    rw [sortS_perm_eq hs.variants.uids, platformsStr_congr hs.arch hs.platforms, hs.arch, hs.ts]
  · refine CE.of_eq ?_
    unfold baseL
    rw [hs.isLayered, hs.baseProduct]
  · exact CE.of_eq (by rw [hs.release, hs.isLayered])

/-- the variant `[general]` describes is found in the rearranged tree too, and is the same content -/
def c8GetTransfer (t t' : TreeInfo) (mv : Option Str) : Prop :=
  ∀ key v, chosenKey t.variants mv = .ok key → getItem (key.length + 1) t.variants key = .ok v →
    ∃ v', getItem (key.length + 1) t'.variants key = .ok v' ∧ TVEq v v'

/-- `main_variant` is `None` or a top-level container key: found by key, keys are distinct -/
theorem c8_getTransfer_top {t t' : TreeInfo} {mv : Option Str} (hs : Same t t') (hk : (t.variants.map Variant.key).Nodup)
    (hmv : MainVariantTop t mv) : c8GetTransfer t t' mv := by
  intro key chosen hkey hchosen
  obtain ⟨v, hvm, hvk⟩ := chosen_top hmv hkey
  have hch : chosen = v := by
    have := getItem_top hk hvm hvk
    rw [hchosen] at this
    injection this
  subst hch
  obtain ⟨v', hvm', hvv⟩ := hs.variants.mem_left chosen hvm
  have hkn' : (t'.variants.map Variant.key).Nodup := hs.variants.keys.nodup_iff.mp hk
  exact ⟨v', getItem_top hkn' hvm' (by rw [← hvv.key_eq]; exact hvk), hvv⟩

/-- **a dump that succeeds for a tree succeeds for every rearrangement of it** -/
theorem canWrite_same {t t' : TreeInfo} {mv : Option Str} {d : Ini} (hs : Same t t') (hk : DictKeys t)
    (hget : c8GetTransfer t t' mv) (h : serialize t mv = .ok d) :
    CanWrite t' mv ∧ ∃ n key v v', Written t mv d n key v ∧ TVEq v v' ∧ t'.tree.ts.toInt = .ok n ∧
      chosenKey t'.variants mv = .ok key ∧ getItem (key.length + 1) t'.variants key = .ok v' := by
  obtain ⟨n, key, chosen, w⟩ := serialize_spec h
  have wv := serialize_valid h
  obtain ⟨v', hget', hvv⟩ := hget key chosen w.hkey w.hchosen
  have hkey' : chosenKey t'.variants mv = .ok key := by rw [← chosenKey_congr hs.variants mv]; exact w.hkey
  have hts' : t'.tree.ts.toInt = .ok n := by rw [← hs.ts]; exact w.hn
  refine ⟨⟨?_, ?_, ?_, ?_, ?_, ?_, ?_, ?_, ?_, ?_, ?_, ?_, ⟨n, hts'⟩, ⟨key, v', hkey', hget'⟩⟩, n, key, chosen, v', w, hvv, hts', hkey', hget'⟩
  · rw [← hs.headerVersion]; exact wv.header
  · rw [← hs.release, ← hs.isLayered]; exact wv.release
  · intro hl
    rw [← hs.isLayered] at hl
    obtain ⟨p, hp, hvp⟩ := wv.base hl
    exact ⟨p, by rw [← hs.baseProduct]; exact hp, hvp⟩
  · rw [← tree_validate_congr t.tree t'.tree hs.arch hs.ts]; exact wv.tree
  · rw [← tops_validate_congr hs.variants]; exact wv.tops
  · exact hs.variants.valids none wv.forest
  · rw [← checksums_validate_congr hs.checksums]; exact wv.checksums
  · intro he
    have he0 : t.images.isEmpty = false := by
      have := hs.images.length_eq
      cases hi : t.images with
      | nil =>
        rw [hi] at this
        cases hi' : t'.images with
        | nil => rw [hi'] at he; cases he
        | cons _ _ => rw [hi'] at this; cases this
      | cons _ _ => rfl
    rw [← images_validate_congr hs.images hs.platforms]
    exact wv.images he0
  · intro hon
    rw [← hs.mainimage, ← hs.instimage] at hon ⊢
    exact wv.stage2 hon
  · intro hon
    rw [← hs.discnum, ← hs.totaldiscs] at hon ⊢
    exact ⟨wv.media hon, w.media hon⟩
  · have h1 : ((flatVs none t.variants).map (·.1)).Nodup := nodup_sublist_keys w.nodup
    have h2 : (namesVs t.variants).Nodup := (namesVs_perm t.variants none).nodup_iff.mpr h1
    exact hs.variants.names.nodup_iff.mp h2
  · have h1 : ((imgFlat t.images).map (·.1)).Nodup := by
      have := w.nodup
      simp only [docList, List.map_append, List.nodup_append] at this
      exact this.2.1.2.1.2.1.1
    rw [imgFlat_keys] at h1
    have h2 : (t.images.map fun p => pImages ++ p.1).Nodup := (List.reverse_perm _).nodup_iff.mp h1
    have h3 : (t.images.map fun p => pImages ++ p.1).Perm (t'.images.map fun p => pImages ++ p.1) :=
      PermR.map_perm (fun p => pImages ++ p.1) (fun a b r => by rw [r.1]) hs.images
    exact h3.nodup_iff.mp h2

/-- **C08 for the treeinfo writer**: the same content is written, and shows the same bytes -/
theorem c8_perm_treeinfo_gen {t t' : TreeInfo} {mv : Option Str} {d : Ini} (hs : Same t t') (hk : DictKeys t)
    (hget : c8GetTransfer t t' mv) (h : serialize t mv = .ok d) :
    ∃ d', serialize t' mv = .ok d' ∧ IniText.render d' = IniText.render d := by
  obtain ⟨cw, n, key, v, v', w, hvv, hts', hkey', hget'⟩ := canWrite_same hs hk hget h
  obtain ⟨d', h'⟩ := serialize_conv cw
  refine ⟨d', h', ?_⟩
  obtain ⟨n', key', chosen', w'⟩ := serialize_spec h'
  have e1 : n' = n := by
    have := w'.hn; rw [hts'] at this; injection this with e; exact e.symm
  have e2 : key' = key := by
    have := w'.hkey; rw [hkey'] at this; injection this with e; exact e.symm
  subst e1 e2
  have e3 : chosen' = v' := by
    have := w'.hchosen; rw [hget'] at this; injection this with e; exact e.symm
  subst e3
  refine render_eq_of_CE w w' ?_
  rw [← generalOpts_congr hs n' key' hvv]
  exact docList_CE hs hk _

theorem perm_treeinfo {t t' : TreeInfo} {mv : Option Str} {d : Ini} (hs : Same t t') (hk : DictKeys t)
    (hmv : MainVariantTop t mv) (h : serialize t mv = .ok d) :
    ∃ d', serialize t' mv = .ok d' ∧ IniText.render d' = IniText.render d :=
  c8_perm_treeinfo_gen hs hk (c8_getTransfer_top hs hk.tops hmv) h

/-! ### every `main_variant`: the lookup `VariantBase.__getitem__` under rearrangement -/

mutual
/-- among the children of every variant, keys are pairwise distinct and UIDs are pairwise distinct -/
def c8SibV : Variant → Prop
  | .mk _ _ _ _ _ _ kids => (kids.map Variant.key).Nodup ∧ (kids.map Variant.uid).Nodup ∧ c8SibL kids
def c8SibL : List Variant → Prop
  | [] => True
  | v :: vs => c8SibV v ∧ c8SibL vs
end

/-- siblings are told apart by their container key and by their UID, at every level of the forest -/
def c8Siblings (vs : List Variant) : Prop := (vs.map Variant.key).Nodup ∧ (vs.map Variant.uid).Nodup ∧ c8SibL vs

theorem c8SibL_mem : ∀ {l : List Variant}, c8SibL l → ∀ v ∈ l, c8SibV v
  | [], _, _, h => by cases h
  | w :: ws, hs, v, h => by
    simp only [c8SibL] at hs
    rcases List.mem_cons.mp h with rfl | h
    · exact hs.1
    · exact c8SibL_mem hs.2 v h

theorem c8SibV_kids {v : Variant} (h : c8SibV v) : c8Siblings v.kids := by
  cases v; simpa [c8SibV, c8Siblings, Variant.kids] using h

theorem TVEq.kids {v v' : Variant} (h : TVEq v v') : TLEq v.kids v'.kids := by
  cases h with
  | mk _ _ _ _ _ _ hk => exact hk

theorem TVEq.uid_eq {v v' : Variant} (h : TVEq v v') : v.uid = v'.uid := by cases h; rfl

mutual
theorem TVEq.symm : ∀ {v v' : Variant}, TVEq v v' → TVEq v' v
  | _, _, .mk key id uid name type hp hk => .mk key id uid name type (fun f => (hp f).symm) (TLEq.symm hk)
theorem TLEq.symm : ∀ {l l' : List Variant}, TLEq l l' → TLEq l' l
  | _, _, .nil => .nil
  | _, _, .cons h t => .cons (TVEq.symm h) (TLEq.symm t)
  | _, _, .swap a b l => .swap b a l
  | _, _, .trans h1 h2 => .trans (TLEq.symm h2) (TLEq.symm h1)
end

mutual
theorem c8_sibV_congr : ∀ {v v' : Variant}, TVEq v v' → c8SibV v → c8SibV v'
  | _, _, .mk _ _ _ _ _ _ hk, h => by
    simp only [c8SibV] at h ⊢
    exact ⟨hk.keys.nodup_iff.mp h.1, hk.uids.nodup_iff.mp h.2.1, c8_sibL_congr hk h.2.2⟩
theorem c8_sibL_congr : ∀ {l l' : List Variant}, TLEq l l' → c8SibL l → c8SibL l'
  | _, _, .nil, h => h
  | _, _, .cons hv t, h => by
    simp only [c8SibL] at h ⊢
    exact ⟨c8_sibV_congr hv h.1, c8_sibL_congr t h.2⟩
  | _, _, .swap _ _ _, h => by
    simp only [c8SibL] at h ⊢
    exact ⟨h.2.1, h.1, h.2.2⟩
  | _, _, .trans h1 h2, h => c8_sibL_congr h2 (c8_sibL_congr h1 h)
end

theorem c8_siblings_congr {l l' : List Variant} (h : TLEq l l') (hs : c8Siblings l) : c8Siblings l' :=
  ⟨h.keys.nodup_iff.mp hs.1, h.uids.nodup_iff.mp hs.2.1, c8_sibL_congr h hs.2.2⟩

/-- a scan for the first sibling with a given key / UID: under a rearrangement it finds the same content, when the
scanned attribute tells siblings apart -/
theorem c8_find_congr (f : Variant → Str) (hf : ∀ v v', TVEq v v' → f v = f v') {l l' : List Variant} (h : TLEq l l')
    (hp : (l.map f).Perm (l'.map f)) (hn : (l.map f).Nodup) (k : Str) :
    (l.find? (fun x => f x == k) = none ∧ l'.find? (fun x => f x == k) = none) ∨
      ∃ v v', l.find? (fun x => f x == k) = some v ∧ l'.find? (fun x => f x == k) = some v' ∧ TVEq v v' := by
  have hn' : (l'.map f).Nodup := hp.nodup_iff.mp hn
  cases hfind : l.find? (fun x => f x == k) with
  | some v =>
    obtain ⟨hm, hk⟩ := mem_of_find _ l v hfind
    have hk' : f v = k := by simpa using hk
    obtain ⟨v', hm', hvv⟩ := h.mem_left v hm
    exact .inr ⟨v, v', rfl, find_of_mem_nodup f l' v' k hn' hm' (by rw [← hf v v' hvv]; exact hk'), hvv⟩
  | none =>
    refine .inl ⟨rfl, ?_⟩
    cases hfind' : l'.find? (fun x => f x == k) with
    | none => rfl
    | some v' =>
      exfalso
      obtain ⟨hm', hk⟩ := mem_of_find _ l' v' hfind'
      have hk' : f v' = k := by simpa using hk
      obtain ⟨v, hm, hvv⟩ := h.mem_right v' hm'
      have := find_of_mem_nodup f l v k hn hm (by rw [hf v v' hvv]; exact hk')
      rw [hfind] at this; cases this

/-- **`__getitem__` under rearrangement**: by key, by UID, or by descending along a dashed path -/
theorem c8_getItem_congr : ∀ (fuel : Nat) {l l' : List Variant}, TLEq l l' → c8Siblings l → ∀ (name : Str) (v : Variant),
    getItem fuel l name = .ok v → ∃ v', getItem fuel l' name = .ok v' ∧ TVEq v v'
  | 0, _, _, _, _, _, _, h => by simp [getItem] at h
  | fuel + 1, l, l', hl, hs, name, v, h => by
    have hkey := c8_find_congr Variant.key (fun _ _ e => e.key_eq) hl hl.keys hs.1
    have huid := c8_find_congr Variant.uid (fun _ _ e => e.uid_eq) hl hl.uids hs.2.1
    unfold getItem at h ⊢
    rcases hkey name with ⟨h1, h1'⟩ | ⟨a, a', h1, h1', haa⟩
    · rw [h1] at h; rw [h1']
      simp only at h ⊢
      by_cases hc : name.contains '-' = true
      · simp only [hc, if_true] at h ⊢
        rcases huid name with ⟨h2, h2'⟩ | ⟨b, b', h2, h2', hbb⟩
        · rw [h2] at h; rw [h2']
          simp only at h ⊢
          cases hsp : Str.split1 '-' name with
          | nil => rw [hsp] at h; simp at h
          | cons hd rest =>
            cases rest with
            | nil => rw [hsp] at h; simp at h
            | cons tl rest2 =>
              cases rest2 with
              | cons _ _ => rw [hsp] at h; simp at h
              | nil =>
                rw [hsp] at h
                simp only at h ⊢
                rcases hkey hd with ⟨h3, h3'⟩ | ⟨c, c', h3, h3', hcc⟩
                · rw [h3] at h; simp at h
                · rw [h3] at h; rw [h3']
                  simp only at h ⊢
                  have hcm := (mem_of_find _ l c h3).1
                  exact c8_getItem_congr fuel hcc.kids (c8SibV_kids (c8SibL_mem hs.2.2 c hcm)) tl v h
        · rw [h2] at h; rw [h2']
          simp only at h ⊢
          injection h with h; subst h
          exact ⟨b', rfl, hbb⟩
      · simp only [hc] at h
        simp at h
    · rw [h1] at h; rw [h1']
      simp only at h ⊢
      injection h with h; subst h
      exact ⟨a', rfl, haa⟩

/-- every `main_variant`, when siblings are told apart by key and by UID -/
theorem c8_getTransfer_sib {t t' : TreeInfo} (mv : Option Str) (hs : Same t t') (hsib : c8Siblings t.variants) :
    c8GetTransfer t t' mv :=
  fun key v _ hget => c8_getItem_congr (key.length + 1) hs.variants hsib key v hget

/-! ### symmetry: what holds for `t` holds for `t'` -/

theorem ImgR.symm {p q : Str × List (Str × Str)} (h : ImgR p q) : ImgR q p := ⟨h.1.symm, h.2.symm⟩

theorem Same.symm {t t' : TreeInfo} (hs : Same t t') : Same t' t :=
  ⟨hs.headerVersion.symm, hs.release.symm, hs.isLayered.symm, hs.baseProduct.symm, hs.arch.symm, hs.ts.symm,
   fun x => (hs.platforms x).symm, hs.variants.symm, hs.checksums.symm, PermR.symm (fun _ _ => ImgR.symm) hs.images,
   hs.mainimage.symm, hs.instimage.symm, hs.discnum.symm, hs.totaldiscs.symm⟩

theorem c8_dictKeys_congr {t t' : TreeInfo} (hs : Same t t') (hk : DictKeys t) : DictKeys t' := by
  refine ⟨hs.variants.keys.nodup_iff.mp hk.tops, (hs.checksums.map (·.1)).nodup_iff.mp hk.checksums, ?_⟩
  intro q hq
  obtain ⟨p, hp, hr⟩ := hs.images.mem_right q hq
  exact (hr.2.map (·.1)).nodup_iff.mp (hk.images p hp)

theorem c8_mainVariantTop_congr {t t' : TreeInfo} {mv : Option Str} (hs : Same t t') (h : MainVariantTop t mv) :
    MainVariantTop t' mv := by
  intro m hm
  obtain ⟨v, hv, hk⟩ := h m hm
  obtain ⟨v', hv', hvv⟩ := hs.variants.mem_left v hv
  exact ⟨v', hv', by rw [← hvv.key_eq]; exact hk⟩

end TI
end PM
