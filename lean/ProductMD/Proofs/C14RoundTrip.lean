import ProductMD.Model.ReleaseId
import ProductMD.Proofs.C14Lang
/-!
`parse_release_id ∘ create_release_id` on the model of `Model/ReleaseId.lean`.

The generated patterns are tied to the hand-written group-free copies by `decide` (a changed pattern breaks
these three lines), the table of known types enters through the decidable condition `FirstMatchOK`, which is
exactly what the parser's first-match loop over `RELEASE_TYPES` needs.
-/
namespace PM.C14
open PM PM.Str PM.Spec

/-- equality of results is decidable (for the `decide`d witnesses) -/
instance decEqExcept {ε α : Type} [DecidableEq ε] [DecidableEq α] : DecidableEq (Except ε α)
  | .ok a, .ok b => if h : a = b then isTrue (by rw [h]) else isFalse (by intro e; cases e; exact h rfl)
  | .error a, .error b => if h : a = b then isTrue (by rw [h]) else isFalse (by intro e; cases e; exact h rfl)
  | .ok _, .error _ => isFalse (by intro e; cases e)
  | .error _, .ok _ => isFalse (by intro e; cases e)

/-! ### the generated patterns are the ones whose language was determined -/
theorem short_pattern : Gen.re_common_RELEASE_SHORT_RE.strip = shortRe := by decide +kernel
theorem type_pattern : Gen.re_common_RELEASE_TYPE_RE.strip = shortRe := by decide +kernel
theorem version_pattern : Gen.re_common_RELEASE_VERSION_RE.strip = versionRe := by decide +kernel

theorem isValidReleaseShort_eq (s : Str) : isValidReleaseShort s = pyMatches shortRe s := by
  unfold isValidReleaseShort; rw [← pyMatches_strip, short_pattern]
theorem isValidReleaseType_eq (s : Str) : isValidReleaseType s = pyMatches shortRe s := by
  unfold isValidReleaseType; rw [← pyMatches_strip, type_pattern]
theorem isValidReleaseVersion_eq (s : Str) : isValidReleaseVersion s = pyMatches versionRe s := by
  unfold isValidReleaseVersion; rw [← pyMatches_strip, version_pattern]

/-! ### the first-match loop over the table of known types -/

/-- For every earlier entry `u` and later entry `t` of the table: `u` is not a suffix of `t` (else `u` would be
found first on every identifier of type `t`) and `u` does not end in `-t` (else `u` would be found first on
identifiers of type `t` whose version ends like `u`).  Equal entries are harmless. -/
def FirstMatchOK (l : List Str) : Prop :=
  l.Pairwise (fun u t => u = t ∨ (¬ u <:+ t ∧ ¬ ('-' :: t) <:+ u))

instance : DecidablePred FirstMatchOK := fun l => by unfold FirstMatchOK; exact inferInstance

/-- with `FirstMatchOK`, the loop finds the type that was appended, whatever precedes the dash -/
theorem find_type {l : List Str} (h : FirstMatchOK l) {t : Str} (ht : t ∈ l) (p : Str) :
    l.find? (fun u => endsWith (p ++ '-' :: t) u) = some t := by
  induction l with
  | nil => cases ht
  | cons u r ih =>
    obtain ⟨hu, hr⟩ := List.pairwise_cons.mp h
    have hsuf : t <:+ p ++ '-' :: t := by
      have := List.suffix_append (p ++ ['-']) t
      simpa using this
    have hsuf' : ('-' :: t) <:+ p ++ '-' :: t := List.suffix_append p _
    rw [List.find?_cons]
    by_cases hut : u = t
    · subst hut
      have : endsWith (p ++ '-' :: u) u = true := (endsWith_iff _ _).mpr hsuf
      simp [this]
    · have htr : t ∈ r := by
        rcases List.mem_cons.mp ht with e | e
        · exact absurd e.symm hut
        · exact e
      have hno : endsWith (p ++ '-' :: t) u = false := by
        cases hb : endsWith (p ++ '-' :: t) u with
        | false => rfl
        | true =>
          exfalso
          have hus := (endsWith_iff _ _).mp hb
          rcases hu t htr with e | ⟨h1, h2⟩
          · exact hut e
          · by_cases hl : u.length ≤ t.length
            · exact h1 (List.suffix_of_suffix_length_le hus hsuf hl)
            · exact h2 (List.suffix_of_suffix_length_le hsuf' hus (by simp; omega))
      simp only [hno]
      exact ih hr htr

/-! ### one part -/
theorem createPart_ok {s v t : Str} (hs : isValidReleaseShort s = true) (hv : isValidReleaseVersion v = true)
    (ht : isValidReleaseType t = true) :
    createPart s v t = .ok (if t = GA then s ++ '-' :: v else s ++ '-' :: v ++ '-' :: t) := by
  unfold createPart createPartO
  simp only [hs, hv, ht, Bool.not_true, Bool.false_eq_true, if_false]
  split <;> rfl

/-- the `count("-") == 1` branch -/
theorem parsePart_ga {s v : Str} (hs : '-' ∉ s) (hv : '-' ∉ v) :
    parseReleaseIdPart (s ++ '-' :: v) = .ok ⟨s, v, GA⟩ := by
  have hc : count '-' (s ++ '-' :: v) = 1 := by
    rw [count_append, count_cons_self, count_eq_zero.mpr hs, count_eq_zero.mpr hv]
  have hsp : splitOn '-' (s ++ '-' :: v) = [s, v] := by
    rw [splitOn_append_sep _ hs, splitOn_of_not_mem hv]
  unfold parseReleaseIdPart
  simp only [hc, if_true, hsp]

/-- the known-type branch -/
theorem parsePart_typed {s v t : Str} (hv : '-' ∉ v) (ht : t ∈ Gen.RELEASE_TYPES) (hne : t ≠ [])
    (hok : FirstMatchOK Gen.RELEASE_TYPES) :
    parseReleaseIdPart (s ++ '-' :: v ++ '-' :: t) = .ok ⟨s, v, t⟩ := by
  have hc : ¬ count '-' (s ++ '-' :: v ++ '-' :: t) = 1 := by
    rw [count_append, count_append, count_cons_self, count_cons_self]; omega
  have hf := find_type hok ht (s ++ '-' :: v)
  have hemp : (!t.isEmpty) = true := by cases t with | nil => exact absurd rfl hne | cons _ _ => rfl
  have htake : (s ++ '-' :: v ++ '-' :: t).take ((s ++ '-' :: v ++ '-' :: t).length - t.length)
      = (s ++ '-' :: v) ++ '-' :: [] := by
    have := take_length_sub ((s ++ '-' :: v) ++ ['-']) t
    simpa using this
  have hrs : rsplitN '-' 2 ((s ++ '-' :: v) ++ '-' :: []) = [s, v, []] := by
    rw [rsplitN_succ_append 1 _ (by simp), rsplitN_succ_append 0 _ hv, rsplitN_zero]; rfl
  unfold parseReleaseIdPart
  simp only [hc, if_false, hf, Option.filter, hemp, if_true, htake, hrs, Option.getD_some]

/-- a part as `create_release_id` writes it -/
def partStr (r : Rel) : Str :=
  if r.type = GA then r.short ++ '-' :: r.version else r.short ++ '-' :: r.version ++ '-' :: r.type

/-- the hypotheses of the round trip, for one part -/
structure PartOK (r : Rel) : Prop where
  short : isValidReleaseShort r.short = true
  version : isValidReleaseVersion r.version = true
  type : isValidReleaseType r.type = true
  known : r.type ∈ Gen.RELEASE_TYPES
  vdash : '-' ∉ r.version
  vat : '@' ∉ r.version
  ga : r.type = GA → '-' ∉ r.short

theorem parsePart_partStr {r : Rel} (h : PartOK r) (hok : FirstMatchOK Gen.RELEASE_TYPES) :
    parseReleaseIdPart (partStr r) = .ok r := by
  unfold partStr
  by_cases hga : r.type = GA
  · simp only [hga, if_true]
    rw [parsePart_ga (h.ga hga) h.vdash, ← hga]
  · simp only [hga, if_false]
    have hne : r.type ≠ [] := (shortRe_facts (by rw [← isValidReleaseType_eq]; exact h.type)).1
    rw [parsePart_typed h.vdash h.known hne hok]

theorem partStr_no_at {r : Rel} (h : PartOK r) : '@' ∉ partStr r := by
  have h1 := (shortRe_facts (by rw [← isValidReleaseShort_eq]; exact h.short)).2
  have h2 := (shortRe_facts (by rw [← isValidReleaseType_eq]; exact h.type)).2
  have h3 := h.vat
  unfold partStr
  split <;> simp [h1, h2, h3]

theorem createPart_partStr {r : Rel} (h : PartOK r) : createPart r.short r.version r.type = .ok (partStr r) :=
  createPart_ok h.short h.version h.type

/-! ### the whole identifier -/
/-- `create_release_id` applied to a release and an optional base product -/
def createRel (r : Rel) (bp : Option Rel) : Except Err Str :=
  createReleaseId r.short r.version r.type (bp.map (·.short)) (bp.map (·.version)) (bp.map (·.type))

theorem createRel_none {r : Rel} (h : PartOK r) : createRel r none = .ok (partStr r) := by
  simp [createRel, createReleaseId, createPart_partStr h]

theorem createRel_some {r b : Rel} (h : PartOK r) (hb : PartOK b) :
    createRel r (some b) = .ok (partStr r ++ '@' :: partStr b) := by
  have hne : b.short.isEmpty = false := by
    have := (shortRe_facts (by rw [← isValidReleaseShort_eq]; exact hb.short)).1
    cases hs : b.short with
    | nil => exact absurd hs this
    | cons _ _ => rfl
  have hcb := createPart_partStr hb
  unfold createPart at hcb
  simp [createRel, createReleaseId, createPart_partStr h, hne, hcb]

theorem parse_none {r : Rel} (h : PartOK r) (hok : FirstMatchOK Gen.RELEASE_TYPES) :
    parseReleaseId (partStr r) = .ok (r, none) := by
  unfold parseReleaseId
  simp [partStr_no_at h, parsePart_partStr h hok]

theorem parse_some {r b : Rel} (h : PartOK r) (hb : PartOK b) (hok : FirstMatchOK Gen.RELEASE_TYPES) :
    parseReleaseId (partStr r ++ '@' :: partStr b) = .ok (r, some b) := by
  have hsp : splitOn '@' (partStr r ++ '@' :: partStr b) = [partStr r, partStr b] := by
    rw [splitOn_append_sep _ (partStr_no_at h), splitOn_of_not_mem (partStr_no_at hb)]
  unfold parseReleaseId
  simp [hsp, parsePart_partStr h hok, parsePart_partStr hb hok]

/-- the round trip -/
theorem roundtrip (hok : FirstMatchOK Gen.RELEASE_TYPES) (r : Rel) (bp : Option Rel)
    (hr : PartOK r) (hbp : ∀ b, bp = some b → PartOK b) :
    createRel r bp >>= parseReleaseId = .ok (r, bp) := by
  cases bp with
  | none => rw [createRel_none hr]; exact parse_none hr hok
  | some b => rw [createRel_some hr (hbp b rfl)]; exact parse_some hr (hbp b rfl) hok

/-! ### what `create_release_id` accepts -/

theorem createPartO_ok_iff (b : Str) (bv bt : Option Str) :
    (∃ x, createPartO b bv bt = .ok x) ↔
      isValidReleaseShort b = true ∧ (∃ x, bv = some x ∧ isValidReleaseVersion x = true)
      ∧ (∃ y, bt = some y ∧ isValidReleaseType y = true) := by
  unfold createPartO
  cases h1 : isValidReleaseShort b
  · simp
  · cases bv with
    | none => simp
    | some v =>
      cases h2 : isValidReleaseVersion v
      · simp [h2]
      · cases bt with
        | none => simp [h2]
        | some t =>
          cases h3 : isValidReleaseType t
          · simp [h2, h3]
          · by_cases hg : t = GA
            · subst hg; simp [h2, h3]
            · simp [h2, h3, hg]

theorem createPart_eq (s v t : Str) :
    createPart s v t =
      if isValidReleaseShort s = true ∧ isValidReleaseVersion v = true ∧ isValidReleaseType t = true
      then .ok (if t = GA then s ++ '-' :: v else s ++ '-' :: v ++ '-' :: t)
      else .error .valueError := by
  unfold createPart createPartO
  cases h1 : isValidReleaseShort s <;> cases h2 : isValidReleaseVersion v <;>
    cases h3 : isValidReleaseType t <;> simp [h2, h3]
  split <;> simp

theorem createReleaseId_nobp (s v t : Str) : createReleaseId s v t none none none = createPart s v t := by
  unfold createReleaseId; cases createPart s v t <;> rfl

theorem createReleaseId_bp_ok_iff (s v t b : Str) (bv bt : Option Str) (hb : b ≠ []) :
    (∃ id, createReleaseId s v t (some b) bv bt = .ok id) ↔
      (∃ x, createPart s v t = .ok x) ∧ (∃ y, createPartO b bv bt = .ok y) := by
  have hbe : b.isEmpty = false := by cases b with | nil => exact absurd rfl hb | cons _ _ => rfl
  unfold createReleaseId
  cases createPart s v t with
  | error e => simp
  | ok x =>
    cases h : createPartO b bv bt with
    | error e => simp [hbe, h]
    | ok y => simp [hbe, h]

end PM.C14
