import ProductMD.Proofs.ImagesAdd
/-!
Invariants carried through the loops of `Images.deserialize`: every image enters through `add`.
-/
namespace PM.Img
open PM PM.PyOps PM.Spec

theorem bind_ok {α β : Type} {x : Except Err α} {f : α → Except Err β} {b : β}
    (h : (x >>= f) = .ok b) : ∃ a, x = .ok a ∧ f a = .ok b := by
  cases x with
  | error e => simp [bind, Except.bind] at h
  | ok a => exact ⟨a, rfl, h⟩

/-- a predicate on manifests that every successful `add` on an object with header version `ver` preserves -/
structure AddInvariant (ver : PyVal) (P : ImgState → Prop) : Prop where
  step : ∀ s v a id img s', s.version = ver → P s → add s v a id img = (s', .ok ()) → P s'

/-- what the loops preserve: the header version and the predicate -/
def LoadInv (ver : PyVal) (P : ImgState → Prop) (s : ImgState) : Prop := s.version = ver ∧ P s

theorem add_version (s : ImgState) (v a : Str) (id : Nat) (img : Image) :
    (add s v a id img).1.version = s.version := (runSteps_version v a id img addScript s).1

theorem addPy_inv {ver : PyVal} {P : ImgState → Prop} (hP : AddInvariant ver P) {s s' : ImgState} {variant arch : PyVal}
    {id : Nat} {img : Image} (hi : LoadInv ver P s) (h : addPy s variant arch id img = .ok s') : LoadInv ver P s' := by
  unfold addPy at h
  split at h
  · split at h
    · rename_i a _ v
      split at h
      · rename_i s1 hadd
        simp only [Except.ok.injEq] at h
        subst h
        have hver := add_version s v a id img
        rw [hadd] at hver
        exact ⟨hver.trans hi.1, hP.step s v a id img s1 hi.1 hi.2 hadd⟩
      · cases h
    · split at h <;> cases h
  · cases h

theorem refile_inv {ver : PyVal} {P : ImgState → Prop} (hP : AddInvariant ver P) (variant : PyVal) (id : Nat) (img : Image) :
    ∀ (l : List PyVal) (s s' : ImgState), LoadInv ver P s → refile s variant id img l = .ok s' → LoadInv ver P s' := by
  intro l
  induction l with
  | nil => intro s s' hi h; simp only [refile, Except.ok.injEq] at h; subst h; exact hi
  | cons va rest ih =>
    intro s s' hi h
    unfold refile at h
    split at h
    · exact ih s s' hi h
    · obtain ⟨s1, h1, h2⟩ := bind_ok h
      exact ih s1 s' (addPy_inv hP hi h1) h2

theorem loadCell_inv {ver : PyVal} {P : ImgState → Prop} (hP : AddInvariant ver P) (images variant arch : PyVal) :
    ∀ (l : List PyVal) (acc r : ImgState × Nat), LoadInv ver P acc.1 →
      loadCell ver images variant arch l acc = .ok r → LoadInv ver P r.1 := by
  intro l
  induction l with
  | nil => intro acc r hi h; simp only [loadCell, Except.ok.injEq] at h; subst h; exact hi
  | cons d rest ih =>
    intro acc r hi h
    obtain ⟨s, n⟩ := acc
    unfold loadCell at h
    obtain ⟨img, _, h⟩ := bind_ok h
    obtain ⟨vt, _, h⟩ := bind_ok h
    obtain ⟨old, _, h⟩ := bind_ok h
    obtain ⟨s1, h4, h⟩ := bind_ok h
    refine ih (s1, n + 1) r ?_ h
    unfold fileLoaded at h4
    split at h4
    · split at h4
      · obtain ⟨archs, _, h5⟩ := bind_ok h4
        exact refile_inv hP variant n img archs s s1 hi h5
      · exact addPy_inv hP hi h4
    · exact addPy_inv hP hi h4

theorem loadArches_inv {ver : PyVal} {P : ImgState → Prop} (hP : AddInvariant ver P) (images variant archs : PyVal) :
    ∀ (l : List PyVal) (acc r : ImgState × Nat), LoadInv ver P acc.1 →
      loadArches ver images variant archs l acc = .ok r → LoadInv ver P r.1 := by
  intro l
  induction l with
  | nil => intro acc r hi h; simp only [loadArches, Except.ok.injEq] at h; subst h; exact hi
  | cons a rest ih =>
    intro acc r hi h
    unfold loadArches at h
    obtain ⟨cell, _, h⟩ := bind_ok h
    obtain ⟨acc1, h2, h⟩ := bind_ok h
    exact ih acc1 r (loadCell_inv hP images variant a cell acc acc1 hi h2) h

theorem loadVariants_inv {ver : PyVal} {P : ImgState → Prop} (hP : AddInvariant ver P) (images : PyVal) :
    ∀ (l : List PyVal) (acc r : ImgState × Nat), LoadInv ver P acc.1 →
      loadVariants ver images l acc = .ok r → LoadInv ver P r.1 := by
  intro l
  induction l with
  | nil => intro acc r hi h; simp only [loadVariants, Except.ok.injEq] at h; subst h; exact hi
  | cons v rest ih =>
    intro acc r hi h
    unfold loadVariants at h
    obtain ⟨archs, _, h⟩ := bind_ok h
    obtain ⟨keys, _, h⟩ := bind_ok h
    obtain ⟨acc1, h3, h⟩ := bind_ok h
    exact ih acc1 r (loadArches_inv hP images v archs keys acc acc1 hi h3) h

/-- every property of manifests that holds of the empty one and is preserved by each successful `add` under the
document's header version holds of every loaded manifest -/
theorem deserialize_inv (doc : PyVal) (s : ImgState) (P : ImgState → Prop)
    (hcells : ∀ s₁ s₂ : ImgState, s₁.cells = s₂.cells → P s₁ → P s₂)
    (hP : ∀ ver, headerDeserialize doc = .ok ver → AddInvariant ver P)
    (h0 : P {}) (h : deserialize doc = .ok s) : P s := by
  unfold deserialize at h
  obtain ⟨ver, hver, h⟩ := bind_ok h
  obtain ⟨payload, _, h⟩ := bind_ok h
  obtain ⟨comp, _, h⟩ := bind_ok h
  obtain ⟨images, _, h⟩ := bind_ok h
  obtain ⟨vs, _, h⟩ := bind_ok h
  obtain ⟨r, h6, h⟩ := bind_ok h
  obtain ⟨s1, n⟩ := r
  simp only [Except.ok.injEq] at h
  subst h
  have := loadVariants_inv (hP ver hver) images vs _ _ ⟨rfl, hcells {} _ rfl h0⟩ h6
  exact hcells s1 _ rfl this.2

end PM.Img
