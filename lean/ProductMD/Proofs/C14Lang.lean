import ProductMD.Spec.ReleaseNames
import ProductMD.Proofs.RegexAdequacy
import ProductMD.Proofs.C14Str
/-!
Exact languages of the three release-name patterns (group-free copies in `Spec/ReleaseNames.lean`), for every
string: through the denotational semantics (`Proofs/RegexAdequacy.lean`) to a structural description
(`head ++ sep-led segments`), and from there to the `splitOn`-based specification predicates.
-/
namespace PM.C14
open PM PM.Str PM.Spec

/-! ### the character classes of the patterns are the classes of the specification -/
theorem lowerC_mem (c : Char) : lowerC.mem c = isLower c := by
  simp [Spec.isLower, Cls.mem, Spec.lowerC, Char.le_def, UInt32.le_iff_toNat_le]
theorem alnumC_mem (c : Char) : alnumC.mem c = (isLower c || isDigit c) := by
  simp [Spec.isLower, Spec.isDigit, Cls.mem, Spec.alnumC, Char.le_def, UInt32.le_iff_toNat_le]
theorem digitC_mem (c : Char) : digitC.mem c = isDigit c := by
  simp [Spec.isDigit, Cls.mem, Spec.digitC, Char.le_def, UInt32.le_iff_toNat_le]
theorem nonDigitC_mem (c : Char) : nonDigitC.mem c = !isDigit c := by
  simp [Spec.isDigit, Cls.mem, Spec.nonDigitC, Char.le_def, UInt32.le_iff_toNat_le]
theorem any_mem (c : Char) : Cls.any.mem c = true ↔ c ≠ '\n' := by
  simp [Cls.mem, Cls.any]
  constructor
  · intro h e; subst e; revert h; decide
  · intro h
    false_or_by_contra
    rename_i h2
    have h1 : c.toNat = 10 := by omega
    have h3 := congrArg Char.ofNat h1
    rw [Char.ofNat_toNat] at h3
    exact h h3

theorem any_All (w : Str) : Cls.any.All w ↔ '\n' ∉ w := by
  simp only [Cls.All, any_mem]
  exact ⟨fun h hm => h _ hm rfl, fun h c hc e => h (e ▸ hc)⟩

theorem alnum_All_iff (g : Str) : alnumC.All g ↔ ∀ c ∈ g, (isLower c || isDigit c) = true := by
  simp only [Cls.All, alnumC_mem]
theorem digit_All_iff (g : Str) : digitC.All g ↔ ∀ c ∈ g, isDigit c = true := by
  simp only [Cls.All, digitC_mem]

theorem alnum_no_dash {g : Str} (h : alnumC.All g) : '-' ∉ g := fun hm => absurd (h _ hm) (by decide)
theorem digit_no_dot {g : Str} (h : digitC.All g) : '.' ∉ g := fun hm => absurd (h _ hm) (by decide)

/-! ### `head ++ sep-led segments` versus `splitOn` -/
theorem splitOn_segs {sep : Char} : ∀ (gs : List Str) (p : Str), sep ∉ p → (∀ g ∈ gs, sep ∉ g) →
    splitOn sep (p ++ segsStr sep gs) = p :: gs := by
  intro gs
  induction gs with
  | nil => intro p hp _; simpa [segsStr] using splitOn_of_not_mem hp
  | cons g r ih =>
    intro p hp hgs
    simp only [segsStr, List.cons_append]
    rw [splitOn_append_sep _ hp, ih g (hgs g (by simp)) (fun x hx => hgs x (by simp [hx]))]

theorem joinWith_eq_segs (sep : Char) : ∀ (gs : List Str) (p : Str),
    joinWith sep (p :: gs) = p ++ segsStr sep gs := by
  intro gs
  induction gs with
  | nil => intro p; simp [joinWith, segsStr]
  | cons g r ih => intro p; rw [joinWith_cons_cons, ih g]; simp [segsStr]

/-- a string whose `sep`-pieces all satisfy `P` is a head piece followed by `sep`-led pieces, and conversely,
provided `P` excludes the separator -/
theorem pieces_iff {sep : Char} {P : Str → Prop} (hP : ∀ g, P g → sep ∉ g) (s : Str) :
    (∀ g ∈ splitOn sep s, P g) ↔ ∃ p gs, s = p ++ segsStr sep gs ∧ P p ∧ ∀ g ∈ gs, P g := by
  constructor
  · intro h
    obtain ⟨p, gs, e⟩ := splitOn_cons_shape sep s
    refine ⟨p, gs, ?_, h p (by simp [e]), fun g hg => h g (by simp [e, hg])⟩
    rw [← joinWith_eq_segs, ← e, joinWith_splitOn]
  · rintro ⟨p, gs, rfl, hp, hgs⟩ g hg
    rw [splitOn_segs gs p (hP p hp) (fun x hx => hP x (hgs x hx))] at hg
    rcases List.mem_cons.mp hg with rfl | hg
    · exact hp
    · exact hgs g hg

/-! ### short names and types -/
/-- what the pattern says, structurally -/
def ShortStruct (b : Str) : Prop :=
  ∃ c w gs, b = c :: w ++ segsStr '-' gs ∧ lowerC.mem c = true ∧ alnumC.All w ∧ ∀ g ∈ gs, g ≠ [] ∧ alnumC.All g

theorem den_shortRe (s t : Str) :
    Den shortRe s t ↔ ∃ b, ShortStruct b ∧ s = b ++ t ∧ (t = [] ∨ t = ['\n']) := by
  unfold shortRe
  constructor
  · intro h
    obtain ⟨s0, h0, ha⟩ := den_cat_iff.mp h
    have e0 := den_bol_iff.mp h0
    subst e0
    obtain ⟨s1, h1, hb⟩ := den_cat_iff.mp ha
    obtain ⟨c, hc, e1⟩ := den_cls_iff.mp h1
    obtain ⟨s2, h2, hc2⟩ := den_cat_iff.mp hb
    obtain ⟨w, e2, hw⟩ := (den_star_cls _ _ _).mp h2
    obtain ⟨s3, h3, h4⟩ := den_cat_iff.mp hc2
    obtain ⟨gs, hgs, e3⟩ := (den_star_seg '-' alnumC _ _).mp h3
    obtain ⟨e4, he⟩ := den_eol_iff.mp h4
    subst e4 e3 e2 e1
    exact ⟨c :: w ++ segsStr '-' gs, ⟨c, w, gs, rfl, hc, hw, hgs⟩, by simp, he⟩
  · rintro ⟨b, ⟨c, w, gs, rfl, hc, hw, hgs⟩, rfl, he⟩
    refine .cat (.bol _) (.cat (.cls _ c _ hc) (.cat ((den_star_cls _ _ _).mpr ⟨w, ?_, hw⟩)
      (.cat ((den_star_seg '-' alnumC _ _).mpr ⟨gs, hgs, rfl⟩) (den_eol_iff.mpr ⟨rfl, he⟩))))
    simp

theorem shortStruct_iff_spec (b : Str) : ShortStruct b ↔ SpecShort b := by
  have hP : ∀ g, SpecSeg g → '-' ∉ g := fun g hg => alnum_no_dash ((alnum_All_iff g).mpr hg.2)
  unfold SpecShort
  rw [pieces_iff hP]
  constructor
  · rintro ⟨c, w, gs, rfl, hc, hw, hgs⟩
    refine ⟨by simpa [headIs, lowerC_mem] using hc, c :: w, gs, rfl, ⟨by simp, ?_⟩,
      fun g hg => ⟨(hgs g hg).1, (alnum_All_iff g).mp (hgs g hg).2⟩⟩
    intro d hd
    rcases List.mem_cons.mp hd with rfl | hd
    · rw [lowerC_mem] at hc; simp [hc]
    · exact (alnum_All_iff w).mp hw d hd
  · rintro ⟨hh, p, gs, rfl, hp, hgs⟩
    cases p with
    | nil => exact absurd rfl hp.1
    | cons c w =>
      refine ⟨c, w, gs, rfl, by simpa [headIs, lowerC_mem] using hh,
        (alnum_All_iff w).mpr (fun d hd => hp.2 d (List.mem_cons_of_mem _ hd)),
        fun g hg => ⟨(hgs g hg).1, (alnum_All_iff g).mpr (hgs g hg).2⟩⟩

/-- the exact language of `^[a-z][a-z0-9]*(-[a-z0-9]+)*$` under CPython's `match`, for every string -/
theorem pyMatches_shortRe (s : Str) :
    pyMatches shortRe s = true ↔ SpecShort s ∨ ∃ t, s = t ++ ['\n'] ∧ SpecShort t := by
  rw [pyMatches_iff]
  constructor
  · rintro ⟨t, h⟩
    obtain ⟨b, hb, rfl, he⟩ := (den_shortRe s t).mp h
    rw [shortStruct_iff_spec] at hb
    rcases he with rfl | rfl
    · left; simpa using hb
    · right; exact ⟨b, rfl, hb⟩
  · rintro (h | ⟨b, rfl, h⟩)
    · exact ⟨[], (den_shortRe s []).mpr ⟨s, (shortStruct_iff_spec s).mpr h, by simp, .inl rfl⟩⟩
    · exact ⟨['\n'], (den_shortRe _ _).mpr ⟨b, (shortStruct_iff_spec b).mpr h, rfl, .inr rfl⟩⟩

/-! ### versions -/
def NumStruct (b : Str) : Prop :=
  ∃ g gs, b = g ++ segsStr '.' gs ∧ (g ≠ [] ∧ digitC.All g) ∧ ∀ x ∈ gs, x ≠ [] ∧ digitC.All x

def FreeStruct (b : Str) : Prop := ∃ c w, b = c :: w ∧ nonDigitC.mem c = true ∧ Cls.any.All w

theorem den_versionRe (s t : Str) :
    Den versionRe s t ↔ ∃ b, (FreeStruct b ∨ NumStruct b) ∧ s = b ++ t ∧ (t = [] ∨ t = ['\n']) := by
  unfold versionRe
  constructor
  · intro h
    obtain ⟨s0, h0, ha⟩ := den_cat_iff.mp h
    have e0 := den_bol_iff.mp h0
    subst e0
    obtain ⟨u, h1, h2⟩ := den_cat_iff.mp ha
    obtain ⟨e2, he⟩ := den_eol_iff.mp h2
    subst e2
    rcases den_alt_iff.mp h1 with hl | hr
    · obtain ⟨s3, h3, h4⟩ := den_cat_iff.mp hl
      obtain ⟨c, hc, e3⟩ := den_cls_iff.mp h3
      obtain ⟨w, e4, hw⟩ := (den_star_cls _ _ _).mp h4
      subst e4 e3
      exact ⟨c :: w, .inl ⟨c, w, rfl, hc, hw⟩, by simp, he⟩
    · obtain ⟨s3, h3, h4⟩ := den_cat_iff.mp hr
      obtain ⟨g, hg, hall, e3⟩ := (den_plus_cls _ _ _).mp h3
      obtain ⟨gs, hgs, e4⟩ := (den_star_seg '.' digitC _ _).mp h4
      subst e4 e3
      exact ⟨g ++ segsStr '.' gs, .inr ⟨g, gs, rfl, ⟨hg, hall⟩, hgs⟩, by simp, he⟩
  · rintro ⟨b, hb, rfl, he⟩
    refine .cat (.bol _) (.cat ?_ (den_eol_iff.mpr ⟨rfl, he⟩))
    rcases hb with ⟨c, w, rfl, hc, hw⟩ | ⟨g, gs, rfl, ⟨hg, hall⟩, hgs⟩
    · exact .altL (.cat (.cls _ c _ hc) ((den_star_cls _ _ _).mpr ⟨w, rfl, hw⟩))
    · refine .altR (.cat ((den_plus_cls _ _ _).mpr ⟨g, hg, hall, ?_⟩)
        ((den_star_seg '.' digitC _ _).mpr ⟨gs, hgs, rfl⟩))
      simp

theorem numStruct_iff_spec (b : Str) : NumStruct b ↔ SpecNumeric b := by
  have hP : ∀ g : Str, (g ≠ [] ∧ ∀ c ∈ g, isDigit c = true) → '.' ∉ g :=
    fun g hg => digit_no_dot ((digit_All_iff g).mpr hg.2)
  unfold SpecNumeric NumStruct
  rw [pieces_iff hP]
  simp only [digit_All_iff]

theorem freeStruct_iff_spec (b : Str) : FreeStruct b ↔ SpecFree b ∧ '\n' ∉ b.tail := by
  unfold FreeStruct SpecFree
  constructor
  · rintro ⟨c, w, rfl, hc, hw⟩
    exact ⟨by simpa [headIs, nonDigitC_mem] using hc, (any_All w).mp hw⟩
  · rintro ⟨hh, ht⟩
    cases b with
    | nil => simp [headIs] at hh
    | cons c w => exact ⟨c, w, rfl, by simpa [headIs, nonDigitC_mem] using hh, (any_All w).mpr ht⟩

/-- the language of versions as the code has it: the documented one, with the free-form alternative confined to
one line (`.` does not match a line feed; the first character is matched by `[^0-9]`, which does) -/
def VersionLine (b : Str) : Prop := SpecNumeric b ∨ (SpecFree b ∧ '\n' ∉ b.tail)

/-- the exact language of `^([^0-9].*|([0-9]+(\.[0-9]+)*))$` under CPython's `match`, for every string -/
theorem pyMatches_versionRe (s : Str) :
    pyMatches versionRe s = true ↔ VersionLine s ∨ ∃ t, s = t ++ ['\n'] ∧ VersionLine t := by
  have key : ∀ b, (FreeStruct b ∨ NumStruct b) ↔ VersionLine b := by
    intro b; rw [freeStruct_iff_spec, numStruct_iff_spec]; unfold VersionLine; exact Or.comm
  rw [pyMatches_iff]
  constructor
  · rintro ⟨t, h⟩
    obtain ⟨b, hb, rfl, he⟩ := (den_versionRe s t).mp h
    rw [key] at hb
    rcases he with rfl | rfl
    · left; simpa using hb
    · right; exact ⟨b, rfl, hb⟩
  · rintro (h | ⟨b, rfl, h⟩)
    · exact ⟨[], (den_versionRe s []).mpr ⟨s, (key s).mpr h, by simp, .inl rfl⟩⟩
    · exact ⟨['\n'], (den_versionRe _ _).mpr ⟨b, (key b).mpr h, rfl, .inr rfl⟩⟩

/-! ### consequences used by the round trip -/
theorem not_append_nl {s t : Str} (h : '\n' ∉ s) : s ≠ t ++ ['\n'] := by
  intro e; exact h (by simp [e])

theorem specShort_chars {s : Str} (h : SpecShort s) : ∀ c ∈ s, (isLower c || isDigit c) = true ∨ c = '-' := by
  intro c hc
  rcases mem_splitOn_of_mem (sep := '-') hc with rfl | ⟨g, hg, hcg⟩
  · exact .inr rfl
  · exact .inl ((h.2 g hg).2 c hcg)

theorem specShort_ne_nil {s : Str} (h : SpecShort s) : s ≠ [] := by
  intro e; subst e; simp [SpecShort, headIs] at h

/-- an accepted short name (or type) is non-empty and contains no `@` -/
theorem shortRe_facts {s : Str} (h : pyMatches shortRe s = true) : s ≠ [] ∧ '@' ∉ s := by
  rcases (pyMatches_shortRe s).mp h with hs | ⟨t, e, hs⟩
  · refine ⟨specShort_ne_nil hs, fun hm => ?_⟩
    rcases specShort_chars hs _ hm with h1 | h1
    · revert h1; decide
    · revert h1; decide
  · subst e
    refine ⟨by simp, fun hm => ?_⟩
    rcases List.mem_append.mp hm with hm | hm
    · rcases specShort_chars hs _ hm with h1 | h1
      · revert h1; decide
      · revert h1; decide
    · simp at hm

end PM.C14
