import ProductMD.Proofs.C17Legacy
/-!
C17: when the tree the 0.0 reader builds from the compatibility sections (`legacyTree`) is "the same tree".
-/
namespace PM
namespace TI
open Ini Legacy
set_option Elab.async false

/-! ### version -/

theorem splitCls_none (k : Cls) : ∀ s : Str, (∀ c ∈ s, k.mem c = false) → splitCls k s = [s]
  | [], _ => rfl
  | c :: cs, h => by
    have ih := splitCls_none k cs (fun x hx => h x (List.mem_cons_of_mem _ hx))
    simp only [splitCls, h c (List.mem_cons_self ..), Bool.false_eq_true, if_false, ih]

/-- a version without `-` and `_` is read as it stands -/
theorem legacyVersion_plain (version : Str) (h : ∀ c ∈ version, c ≠ '-' ∧ c ≠ '_') : legacyVersion version = version := by
  unfold legacyVersion
  rw [splitCls_none]
  · simp only [List.foldl_cons, List.foldl_nil]; split <;> rfl
  · intro c hc
    obtain ⟨h1, h2⟩ := h c hc
    have n1 : c.toNat ≠ 45 := fun e => h1 (Char.toNat_inj.mp (by rw [e]; rfl))
    have n2 : c.toNat ≠ 95 := fun e => h2 (Char.toNat_inj.mp (by rw [e]; rfl))
    simp only [Cls.mem, List.any_cons, List.any_nil, Bool.or_false]
    simp
    omega

/-! ### platforms -/

theorem mem_foldl_dedupe (p : Str) : ∀ (l acc : List Str),
    p ∈ l.foldl (fun acc p => if acc.contains p then acc else acc ++ [p]) acc ↔ p ∈ acc ∨ p ∈ l
  | [], acc => by simp
  | x :: xs, acc => by
    simp only [List.foldl_cons]
    rw [mem_foldl_dedupe p xs]
    cases hc : acc.contains x
    · simp only [Bool.false_eq_true, if_false, List.mem_append, List.mem_cons, List.not_mem_nil, or_false]
      constructor
      · rintro ((h | h) | h)
        · exact Or.inl h
        · exact Or.inr (Or.inl h)
        · exact Or.inr (Or.inr h)
      · rintro (h | h | h)
        · exact Or.inl (Or.inl h)
        · exact Or.inl (Or.inr h)
        · exact Or.inr h
    · have hx : x ∈ acc := by simpa using hc
      simp only [if_true, List.mem_cons]
      constructor
      · rintro (h | h)
        · exact Or.inl h
        · exact Or.inr (Or.inr h)
      · rintro (h | h | h)
        · exact Or.inl h
        · exact Or.inl (h ▸ hx)
        · exact Or.inr h

theorem mem_dedupe (p : Str) (l : List Str) : p ∈ dedupe l ↔ p ∈ l := by
  unfold dedupe; rw [mem_foldl_dedupe]; simp

/-- the platforms the 0.0 reader knows: the architecture and the platforms that have images -/
theorem mem_legacyPlatforms (t : TreeInfo) (p : Str) :
    p ∈ legacyPlatforms t ↔ p = t.tree.arch ∨ p ∈ t.images.map (·.1) := by
  unfold legacyPlatforms
  rw [mem_dedupe]
  simp only [List.singleton_append, List.mem_cons, List.mem_map]
  constructor
  · rintro (h | ⟨x, hx, rfl⟩)
    · exact Or.inl h
    · exact Or.inr ⟨x, (mem_sortKV _ _).mp hx, rfl⟩
  · rintro (h | ⟨x, hx, rfl⟩)
    · exact Or.inl h
    · exact Or.inr ⟨x, (mem_sortKV _ _).mpr hx, rfl⟩

/-! ### paths -/

/-- a path the 0.0 reader takes as it stands: not empty, no trailing `/`, not ending in `/repodata` -/
structure CleanPath (p : Str) : Prop where
  ne : p ≠ []
  noslash : rstripSlash p = p
  norepodata : Str.endsWith p "/repodata".toList = false

theorem orStr_some_ne {p y : Str} (h : p ≠ []) : orStr (some p) y = p := by
  cases p with
  | nil => exact absurd rfl h
  | cons a b => rfl

/-- outside the RHEL and Fedora special cases, clean `[general] repository` / `packagedir` values become the variant's
`repository` / `packages` paths, in a `src` tree its `source_repository` / `source_packages` -/
theorem legacyPaths_plain (c : VCtx) (key r p : Str) (h1 : c.relShort ≠ sRHEL) (h2 : c.relShort ≠ sFedora)
    (hr : CleanPath r) (hp : CleanPath p) :
    valsToPaths (legacyPathVals c key (some r) (some p)) =
      if c.arch == sSrc then [(kSourcePackages, p), (kSourceRepository, r)] else [(kPackages, p), (kRepository, r)] := by
  have b1 : (c.relShort == sRHEL) = false := by simpa using h1
  have b2 : (c.relShort == sFedora) = false := by simpa using h2
  have hr' : (if Str.endsWith r "/repodata".toList = true then r.take (r.length - 9) else r) = r := by
    rw [hr.norepodata]; rfl
  unfold legacyPathVals
  simp only [orOpt, isRhelMajor, b1, b2, Bool.false_and, Bool.false_eq_true, if_false, Option.getD_some, hr.noslash, hp.noslash,
    orStr_some_ne hr.ne, orStr_some_ne hp.ne, hr', ite_self]
  cases c.arch == sSrc <;> rfl

end TI
end PM
