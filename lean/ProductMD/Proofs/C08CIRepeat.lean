import ProductMD.Model.ComposeInfoState
import ProductMD.Proofs.CITop
/-!
C08, repeated dumps of a composeinfo object: the stateful writer (`Model/ComposeInfoState.lean`) produces the text of the
pure writer, leaves behind an object that differs from the original only by `release.is_layered = True` on some
layered-product variants (`Touched`), and the pure writer cannot tell a touched object from the original
(`forceLayered` is idempotent and the writer forces the flag before it reads it).
-/
namespace PM
namespace CI

/-! ### the text is that of the pure writer -/

mutual
theorem serSt_snd : ∀ (v : Variant) (ctx : Ctx) (d : Flat), (Variant.serSt ctx v d).2 = Variant.ser ctx v d
  | .mk key id uid name type arches paths rel kids, ctx, d => by
    have ih := sersSt_snd kids (some (uid, Str.sortDedup arches)) d
    unfold Variant.serSt Variant.ser
    cases (if type = layeredProduct then validateClass "composeinfo.Release" (variantReleaseObj rel) else .ok ()) with
    | error e => rfl
    | ok u1 =>
      cases u1
      cases validateClass "composeinfo.VariantPaths" [] with
      | error e => rfl
      | ok u2 =>
        cases u2
        rcases hk : sersSt (some (uid, Str.sortDedup arches)) kids d with ⟨kids', r⟩
        rw [hk] at ih
        simp only at ih
        rw [← ih]
        cases r with
        | error e => rfl
        | ok d1 =>
          simp only
          cases putEntry uid (entryOf (.mk key id uid name type arches paths rel kids)) d1 with
          | error e => rfl
          | ok d2 =>
            simp only
            cases validateClass "composeinfo.Variant" (variantObj ctx (.mk key id uid name type arches paths rel kids)) with
            | error e => rfl
            | ok u3 => cases u3; rfl
theorem sersSt_snd : ∀ (vs : List Variant) (ctx : Ctx) (d : Flat), (sersSt ctx vs d).2 = sers ctx vs d
  | [], _, _ => rfl
  | v :: vs, ctx, d => by
    have ih1 := serSt_snd v ctx d
    unfold sersSt sers
    rcases hv : Variant.serSt ctx v d with ⟨v', r⟩
    rw [hv] at ih1
    simp only at ih1
    rw [← ih1]
    cases r with
    | error e => rfl
    | ok d1 =>
      simp only
      have ih2 := sersSt_snd vs ctx d1
      rcases hs : sersSt ctx vs d1 with ⟨vs', r'⟩
      rw [hs] at ih2
      exact ih2
end

/-! ### what a dump leaves behind -/

/-- the release of a variant after some dumps: untouched, or (layered product) with the flag forced -/
def RelTouched (type : Str) (rel rel' : Option Release) : Prop :=
  rel' = rel ∨ (type = layeredProduct ∧ rel' = rel.map forceLayered)

mutual
inductive Touched : Variant → Variant → Prop
  | mk (key id uid name type : Str) (arches : List Str) (paths : PathTable) {rel rel' : Option Release} {kids kids' : List Variant} :
      RelTouched type rel rel' → TouchedL kids kids' →
      Touched (.mk key id uid name type arches paths rel kids) (.mk key id uid name type arches paths rel' kids')
inductive TouchedL : List Variant → List Variant → Prop
  | nil : TouchedL [] []
  | cons {v v' : Variant} {l l' : List Variant} : Touched v v' → TouchedL l l' → TouchedL (v :: l) (v' :: l')
end

mutual
theorem Touched.refl : ∀ v : Variant, Touched v v
  | .mk key id uid name type arches paths _ kids => .mk key id uid name type arches paths (.inl rfl) (TouchedL.refl kids)
theorem TouchedL.refl : ∀ l : List Variant, TouchedL l l
  | [] => .nil
  | v :: l => .cons (Touched.refl v) (TouchedL.refl l)
end

theorem forceLayered_idem (r : Release) : forceLayered (forceLayered r) = forceLayered r := rfl

theorem map_force_idem (rel : Option Release) : (rel.map forceLayered).map forceLayered = rel.map forceLayered := by
  cases rel <;> rfl

theorem RelTouched.trans {type : Str} {a b c : Option Release} (h1 : RelTouched type a b) (h2 : RelTouched type b c) :
    RelTouched type a c := by
  rcases h1 with rfl | ⟨ht, rfl⟩
  · exact h2
  · rcases h2 with rfl | ⟨_, rfl⟩
    · exact .inr ⟨ht, rfl⟩
    · exact .inr ⟨ht, map_force_idem a⟩

mutual
theorem Touched.trans : ∀ {a b c : Variant}, Touched a b → Touched b c → Touched a c
  | _, _, _, .mk key id uid name type arches paths hr hk, .mk _ _ _ _ _ _ _ hr' hk' =>
    .mk key id uid name type arches paths (hr.trans hr') (TouchedL.trans hk hk')
theorem TouchedL.trans : ∀ {a b c : List Variant}, TouchedL a b → TouchedL b c → TouchedL a c
  | _, _, _, .nil, .nil => .nil
  | _, _, _, .cons h t, .cons h' t' => .cons (Touched.trans h h') (TouchedL.trans t t')
end

theorem Touched.key_eq {v v' : Variant} (h : Touched v v') : v'.key = v.key := by cases h; rfl

mutual
theorem serSt_touched : ∀ (v : Variant) (ctx : Ctx) (d : Flat), Touched v (Variant.serSt ctx v d).1
  | .mk key id uid name type arches paths rel kids, ctx, d => by
    have ih := sersSt_touched kids (some (uid, Str.sortDedup arches)) d
    have hr : RelTouched type rel (if type = layeredProduct then rel.map forceLayered else rel) := by
      by_cases ht : type = layeredProduct
      · simp only [ht, if_true]; exact .inr ⟨rfl, rfl⟩
      · simp only [ht, if_false]; exact .inl rfl
    unfold Variant.serSt
    cases (if type = layeredProduct then validateClass "composeinfo.Release" (variantReleaseObj rel) else .ok ()) with
    | error e => exact .mk _ _ _ _ _ _ _ hr (TouchedL.refl _)
    | ok u1 =>
      cases u1
      cases validateClass "composeinfo.VariantPaths" [] with
      | error e => exact .mk _ _ _ _ _ _ _ hr (TouchedL.refl _)
      | ok u2 =>
        cases u2
        rcases hk : sersSt (some (uid, Str.sortDedup arches)) kids d with ⟨kids', r⟩
        rw [hk] at ih
        cases r with
        | error e => exact .mk _ _ _ _ _ _ _ hr ih
        | ok d1 =>
          simp only
          cases putEntry uid (entryOf (.mk key id uid name type arches paths rel kids)) d1 with
          | error e => exact .mk _ _ _ _ _ _ _ hr ih
          | ok d2 =>
            simp only
            cases validateClass "composeinfo.Variant" (variantObj ctx (.mk key id uid name type arches paths rel kids)) with
            | error e => exact .mk _ _ _ _ _ _ _ hr ih
            | ok u3 => cases u3; exact .mk _ _ _ _ _ _ _ hr ih
theorem sersSt_touched : ∀ (vs : List Variant) (ctx : Ctx) (d : Flat), TouchedL vs (sersSt ctx vs d).1
  | [], _, _ => .nil
  | v :: vs, ctx, d => by
    have ih1 := serSt_touched v ctx d
    unfold sersSt
    rcases hv : Variant.serSt ctx v d with ⟨v', r⟩
    rw [hv] at ih1
    cases r with
    | error e => exact .cons ih1 (TouchedL.refl _)
    | ok d1 =>
      simp only
      have ih2 := sersSt_touched vs ctx d1
      rcases hs : sersSt ctx vs d1 with ⟨vs', r'⟩
      rw [hs] at ih2
      exact .cons ih1 ih2
end

theorem replaceKey_touched (k : Str) {v v' : Variant} (hv : Touched v v') : ∀ vs : List Variant, findKey k vs = some v →
    TouchedL vs (replaceKey k v' vs)
  | [], h => by cases h
  | w :: ws, h => by
    simp only [findKey] at h
    unfold replaceKey
    split
    · rename_i hk
      simp only [hk, if_true, Option.some.injEq] at h
      subst h
      exact .cons hv (TouchedL.refl _)
    · rename_i hk
      simp only [hk, if_false] at h
      exact .cons (Touched.refl _) (replaceKey_touched k hv ws h)

theorem topLoop_touched : ∀ (ks : List Str) (vs : List Variant) (d : Flat), TouchedL vs (topLoop ks vs d).1
  | [], vs, _ => TouchedL.refl vs
  | k :: ks, vs, d => by
    unfold topLoop
    cases hf : findKey k vs with
    | none => exact topLoop_touched ks vs d
    | some v =>
      simp only
      have ht := serSt_touched v none d
      rcases hs : Variant.serSt none v d with ⟨v', r⟩
      rw [hs] at ht
      have h1 := replaceKey_touched k ht vs hf
      cases r with
      | error e => exact h1
      | ok d1 => exact h1.trans (topLoop_touched ks _ d1)

/-! ### the pure writer cannot tell a touched object from the original -/

theorem TouchedL.map_eq {β} (f : Variant → β) (hf : ∀ v v', Touched v v' → f v = f v') :
    ∀ {l l' : List Variant}, TouchedL l l' → l.map f = l'.map f
  | _, _, .nil => rfl
  | _, _, .cons h t => by simp only [List.map_cons, hf _ _ h, TouchedL.map_eq f hf t]

theorem Touched.id_eq {v v' : Variant} (h : Touched v v') : v.id = v'.id := by cases h; rfl
theorem Touched.uid_eq {v v' : Variant} (h : Touched v v') : v.uid = v'.uid := by cases h; rfl
theorem Touched.type_eq {v v' : Variant} (h : Touched v v') : v.type = v'.type := by cases h; rfl

/-- the first child under a key, before and after -/
theorem findKey_touched (k : Str) : ∀ {l l' : List Variant}, TouchedL l l' →
    (findKey k l = none ∧ findKey k l' = none) ∨ ∃ v v', findKey k l = some v ∧ findKey k l' = some v' ∧ Touched v v'
  | _, _, .nil => .inl ⟨rfl, rfl⟩
  | _, _, @TouchedL.cons v v' l l' h t => by
    simp only [findKey, h.key_eq]
    by_cases hk : v.key = k
    · simp only [hk, if_true]
      exact .inr ⟨v, v', rfl, rfl, h⟩
    · simp only [hk, if_false]
      exact findKey_touched k t

theorem byKeys_touched {l l' : List Variant} (h : TouchedL l l') : TouchedL (byKeys l) (byKeys l') := by
  unfold byKeys
  rw [← TouchedL.map_eq Variant.key (fun _ _ h => h.key_eq.symm) h]
  generalize Str.sortDedup (l.map Variant.key) = ks
  induction ks with
  | nil => exact .nil
  | cons k ks ih =>
    simp only [List.filterMap_cons]
    rcases findKey_touched k h with ⟨h1, h2⟩ | ⟨v, v', h1, h2, hv⟩
    · rw [h1, h2]; exact ih
    · rw [h1, h2]; exact .cons hv ih

theorem kidsView_touched (pn : Bool) {l l' : List Variant} (h : TouchedL l l') : kidsView pn l = kidsView pn l' := by
  unfold kidsView
  congr 1
  exact TouchedL.map_eq _ (fun v v' hv => by rw [hv.key_eq, hv.id_eq, hv.uid_eq, hv.type_eq]) (byKeys_touched h)

mutual
theorem ser_touched : ∀ {v v' : Variant}, Touched v v' → ∀ (ctx : Ctx) (d : Flat), Variant.ser ctx v' d = Variant.ser ctx v d
  | _, _, @Touched.mk key id uid name type arches paths rel rel' kids kids' hr hk, ctx, d => by
    have hrel : (if type = layeredProduct then validateClass "composeinfo.Release" (variantReleaseObj rel') else .ok ())
        = (if type = layeredProduct then validateClass "composeinfo.Release" (variantReleaseObj rel) else .ok ()) := by
      rcases hr with rfl | ⟨_, rfl⟩
      · rfl
      · cases rel <;> rfl
    have hentry : entryOf (.mk key id uid name type arches paths rel' kids') = entryOf (.mk key id uid name type arches paths rel kids) := by
      have h1 : (if type = layeredProduct then rel'.map forceLayered else none) = (if type = layeredProduct then rel.map forceLayered else none) := by
        rcases hr with rfl | ⟨_, rfl⟩
        · rfl
        · rw [map_force_idem]
      have h2 : kids'.map Variant.id = kids.map Variant.id := (TouchedL.map_eq Variant.id (fun _ _ h => h.id_eq) hk).symm
      simp only [entryOf, h1, h2]
    have hobj : variantObj ctx (.mk key id uid name type arches paths rel' kids') = variantObj ctx (.mk key id uid name type arches paths rel kids) := by
      simp only [variantObj, kidsView_touched false hk]
    have hkids := sers_touched hk (some (uid, Str.sortDedup arches))
    unfold Variant.ser
    rw [hrel, hentry, hobj]
    simp only [hkids]
theorem sers_touched : ∀ {l l' : List Variant}, TouchedL l l' → ∀ (ctx : Ctx) (d : Flat), sers ctx l' d = sers ctx l d
  | _, _, .nil, _, _ => rfl
  | _, _, .cons h t, ctx, d => by
    unfold sers
    rw [ser_touched h ctx d]
    cases Variant.ser ctx _ d with
    | error e => rfl
    | ok d1 => exact sers_touched t ctx d1
end

theorem variantsSer_touched {l l' : List Variant} (h : TouchedL l l') : variantsSer l' = variantsSer l := by
  unfold variantsSer
  rw [show containerObj l' = containerObj l from by simp only [containerObj, kidsView_touched true h]]
  rw [sers_touched (byKeys_touched h) none []]

theorem dumps_touched (ci : ComposeInfo) {vs' : List Variant} (h : TouchedL ci.variants vs') :
    dumps { ci with variants := vs' } = dumps ci := by
  unfold dumps serialize
  simp only [variantsSer_touched h]

/-! ### the top-level loop and the whole dump -/

theorem findKey_replaceKey_ne {k k' : Str} {v' : Variant} (hne : k' ≠ k) (hv' : v'.key = k) :
    ∀ vs : List Variant, findKey k' (replaceKey k v' vs) = findKey k' vs
  | [] => rfl
  | w :: ws => by
    unfold replaceKey
    split
    · rename_i hw
      have h1 : ¬ v'.key = k' := fun e => hne (e.symm.trans hv')
      have h2 : ¬ w.key = k' := fun e => hne (e.symm.trans hw)
      simp only [findKey, h1, h2, if_false]
    · simp only [findKey]
      split
      · rfl
      · exact findKey_replaceKey_ne hne hv' ws

theorem topLoop_snd : ∀ (ks : List Str) (vs : List Variant) (d : Flat), ks.Nodup →
    (topLoop ks vs d).2 = sers none (ks.filterMap (findKey · vs)) d
  | [], _, _, _ => rfl
  | k :: ks, vs, d, hn => by
    have hn' := List.nodup_cons.mp hn
    unfold topLoop
    simp only [List.filterMap_cons]
    cases hf : findKey k vs with
    | none => exact topLoop_snd ks vs d hn'.2
    | some v =>
      simp only
      have h1 := serSt_snd v none d
      have ht := serSt_touched v none d
      rcases hs : Variant.serSt none v d with ⟨v', r⟩
      rw [hs] at h1 ht
      simp only at h1 ht
      unfold sers
      rw [← h1]
      cases r with
      | error e => rfl
      | ok d1 =>
        simp only
        rw [topLoop_snd ks _ d1 hn'.2]
        have hk' : v'.key = k := ht.key_eq.trans (findKey_some hf).2
        congr 1
        apply filterMap_congr'
        intro k' hk
        exact findKey_replaceKey_ne (k := k) (k' := k') (fun (e : k' = k) => hn'.1 (e ▸ hk)) hk' vs

theorem variantsSerSt_snd (vs : List Variant) : (variantsSerSt vs).2 = variantsSer vs := by
  unfold variantsSerSt variantsSer
  cases validateClass "composeinfo.Variants" (containerObj vs) with
  | error e => rfl
  | ok u => cases u; exact topLoop_snd _ vs [] (sortDedup_nodup _)

theorem variantsSerSt_touched (vs : List Variant) : TouchedL vs (variantsSerSt vs).1 := by
  unfold variantsSerSt
  cases validateClass "composeinfo.Variants" (containerObj vs) with
  | error e => exact TouchedL.refl vs
  | ok u => cases u; exact topLoop_touched _ vs []

/-- the text (or the exception) is that of the pure writer -/
theorem dumpsSt_snd (s : CIState) : (dumpsSt s).2 = dumps s.ci := by
  have hv := variantsSerSt_snd s.ci.variants
  unfold dumpsSt dumps serialize
  cases validateClass "composeinfo.ComposeInfo" [] with
  | error e => rfl
  | ok u0 =>
    cases u0
    simp only
    cases validateClass "common.Header" (headerObj (.str currentVersion)) with
    | error e => rfl
    | ok u1 =>
      cases u1
      simp only
      cases validateClass "composeinfo.Compose" (composeObj s.ci.compose) with
      | error e => rfl
      | ok u2 =>
        cases u2
        simp only
        cases validateClass "composeinfo.Release" (releaseObj s.ci.release) with
        | error e => rfl
        | ok u3 =>
          cases u3
          simp only
          cases (if s.ci.release.isLayered then validateClass "composeinfo.BaseProduct" (baseObj s.ci.base) else .ok ()) with
          | error e => rfl
          | ok u4 =>
            cases u4
            simp only
            rcases hs : variantsSerSt s.ci.variants with ⟨vs', r⟩
            rw [hs] at hv
            simp only at hv
            rw [← hv]
            cases r <;> rfl

/-- the object afterwards: the version may have moved, some layered-product variants have their flag forced, nothing else -/
theorem dumpsSt_state (s : CIState) : ∃ vs', (dumpsSt s).1.ci = { s.ci with variants := vs' } ∧ TouchedL s.ci.variants vs' ∧
    ((dumpsSt s).1.version = s.version ∨ (dumpsSt s).1.version = currentVersion) := by
  have ht := variantsSerSt_touched s.ci.variants
  unfold dumpsSt
  cases validateClass "composeinfo.ComposeInfo" [] with
  | error e => exact ⟨s.ci.variants, rfl, TouchedL.refl _, .inl rfl⟩
  | ok u0 =>
    cases u0
    simp only
    cases validateClass "common.Header" (headerObj (.str currentVersion)) with
    | error e => exact ⟨s.ci.variants, rfl, TouchedL.refl _, .inr rfl⟩
    | ok u1 =>
      cases u1
      simp only
      cases validateClass "composeinfo.Compose" (composeObj s.ci.compose) with
      | error e => exact ⟨s.ci.variants, rfl, TouchedL.refl _, .inr rfl⟩
      | ok u2 =>
        cases u2
        simp only
        cases validateClass "composeinfo.Release" (releaseObj s.ci.release) with
        | error e => exact ⟨s.ci.variants, rfl, TouchedL.refl _, .inr rfl⟩
        | ok u3 =>
          cases u3
          simp only
          cases (if s.ci.release.isLayered then validateClass "composeinfo.BaseProduct" (baseObj s.ci.base) else .ok ()) with
          | error e => exact ⟨s.ci.variants, rfl, TouchedL.refl _, .inr rfl⟩
          | ok u4 =>
            cases u4
            simp only
            rcases hs : variantsSerSt s.ci.variants with ⟨vs', r⟩
            rw [hs] at ht
            cases r <;> exact ⟨vs', rfl, ht, .inr rfl⟩

/-! ### any number of dumps -/

/-- what relates the object before and after any number of dumps: the same sections, variants `Touched`, any header version -/
def c8Touched (s s' : CIState) : Prop := ∃ vs', s'.ci = { s.ci with variants := vs' } ∧ TouchedL s.ci.variants vs'

theorem c8_touched_refl (s : CIState) : c8Touched s s := ⟨s.ci.variants, rfl, TouchedL.refl _⟩

theorem c8_touched_trans {a b c : CIState} (h1 : c8Touched a b) (h2 : c8Touched b c) : c8Touched a c := by
  obtain ⟨v1, e1, t1⟩ := h1
  obtain ⟨v2, e2, t2⟩ := h2
  refine ⟨v2, ?_, ?_⟩
  · rw [e2, e1]
  · rw [e1] at t2
    exact t1.trans t2

theorem c8_dumpsSt_touched (s : CIState) : c8Touched s (dumpsSt s).1 := by
  obtain ⟨vs', e, ht, _⟩ := dumpsSt_state s
  exact ⟨vs', e, ht⟩

/-- a dump of a touched object writes what the dump of the original writes -/
theorem c8_dumpsSt_of_touched {s s' : CIState} (h : c8Touched s s') : (dumpsSt s').2 = (dumpsSt s).2 := by
  obtain ⟨vs', e, ht⟩ := h
  rw [dumpsSt_snd, dumpsSt_snd, e]
  exact dumps_touched s.ci ht

/-- the object after `n` dumps in a row (each may succeed or fail) -/
def c8After : Nat → CIState → CIState
  | 0, s => s
  | n + 1, s => c8After n (dumpsSt s).1

theorem c8_after_touched : ∀ (n : Nat) (s : CIState), c8Touched s (c8After n s)
  | 0, s => c8_touched_refl s
  | n + 1, s => c8_touched_trans (c8_dumpsSt_touched s) (c8_after_touched n (dumpsSt s).1)

end CI
end PM
