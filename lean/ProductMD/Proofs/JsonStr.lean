import ProductMD.Model.JsonParse
/-!
String layer of the JSON round trip: the string scanner of `Model/JsonParse.lean` inverts `JsonText.quote`
(`ensure_ascii=True` escaping) for EVERY string of Unicode scalar values — short escapes, `\u00XX` for the other
control characters, `\uXXXX` for the BMP beyond ASCII (hex arithmetic), surrogate pairs for code points ≥ 0x10000.
Core Lean only.
-/
namespace PM.JsonParse
open PM JsonText

theorem hexVal_hexDigit : ∀ d, d < 16 → hexVal (hexDigit d) = some d := by decide

theorem hex4?_hex4 (n : Nat) (h : n < 65536) (tail : Str) : hex4? (hex4 n ++ tail) = some (n, tail) := by
  have h1 := hexVal_hexDigit (n / 4096 % 16) (Nat.mod_lt _ (by decide))
  have h2 := hexVal_hexDigit (n / 256 % 16) (Nat.mod_lt _ (by decide))
  have h3 := hexVal_hexDigit (n / 16 % 16) (Nat.mod_lt _ (by decide))
  have h4 := hexVal_hexDigit (n % 16) (Nat.mod_lt _ (by decide))
  simp only [hex4, List.cons_append, List.nil_append, hex4?, h1, h2, h3, h4]
  congr 2
  omega

theorem char_range (c : Char) : c.toNat < 0xD800 ∨ (0xDFFF < c.toNat ∧ c.toNat < 0x110000) := c.valid

theorem ofNat_toNat (c : Char) : Char.ofNat c.toNat = c := Char.ofNat_toNat c

theorem unescape_u_bmp (n : Nat) (h : n < 65536) (hs : isHigh n = false) (hl : isLow n = false) (tail : Str) :
    unescape ('u' :: (hex4 n ++ tail)) = .ok (Char.ofNat n, tail) := by
  simp only [unescape, if_true, hex4?_hex4 n h tail, hs, hl, Bool.false_eq_true, if_false]

theorem unescape_u_pair (hi lo : Nat) (h1 : hi < 65536) (h2 : lo < 65536) (hs : isHigh hi = true) (hl : isLow lo = true)
    (tail : Str) :
    unescape ('u' :: (hex4 hi ++ '\\' :: 'u' :: (hex4 lo ++ tail)))
      = .ok (Char.ofNat (0x10000 + (hi - 0xD800) * 1024 + (lo - 0xDC00)), tail) := by
  simp only [unescape, if_true, hex4?_hex4 hi h1, hs, and_self, hex4?_hex4 lo h2, hl]

theorem scanStr_backslash (f : Nat) (acc cs : Str) (ch : Char) (rest : Str) (h : unescape cs = .ok (ch, rest)) :
    scanStr (f + 1) acc ('\\' :: cs) = scanStr f (ch :: acc) rest := by
  simp [scanStr, h]

/-- one step of the scanner consumes exactly the escaped form of one character -/
theorem scanStr_escChar (c : Char) (f : Nat) (acc tail : Str) :
    scanStr (f + 1) acc (escChar c ++ tail) = scanStr f (c :: acc) tail := by
  by_cases h1 : c = '"'
  · subst h1; simp [escChar, scanStr, unescape]
  by_cases h2 : c = '\\'
  · subst h2; simp [escChar, scanStr, unescape]
  by_cases h3 : c = '\n'
  · subst h3; simp [escChar, scanStr, unescape]
  by_cases h4 : c = '\r'
  · subst h4; simp [escChar, scanStr, unescape]
  by_cases h5 : c = '\t'
  · subst h5; simp [escChar, scanStr, unescape]
  by_cases h6 : c.toNat = 8
  · have : c = Char.ofNat 8 := by rw [← h6, ofNat_toNat]
    subst this; simp [escChar, scanStr, unescape]
  by_cases h7 : c.toNat = 12
  · have : c = Char.ofNat 12 := by rw [← h7, ofNat_toNat]
    subst this; simp [escChar, scanStr, unescape]
  by_cases h8 : c.toNat < 32
  · have he : escChar c = '\\' :: 'u' :: hex4 c.toNat := by simp [escChar, h1, h2, h3, h4, h5, h6, h7, h8]
    rw [he]
    simp only [List.cons_append]
    rw [scanStr_backslash _ _ _ _ _ (unescape_u_bmp c.toNat (by omega) (by simp [isHigh]; omega) (by simp [isLow]; omega) tail), ofNat_toNat]
  by_cases h9 : c.toNat < 127
  · have he : escChar c = [c] := by simp [escChar, h1, h2, h3, h4, h5, h6, h7, h8, h9]
    rw [he]
    simp [scanStr, h1, h2, h8]
  have hr := char_range c
  by_cases h10 : c.toNat < 0x10000
  · have he : escChar c = '\\' :: 'u' :: hex4 c.toNat := by simp [escChar, h1, h2, h3, h4, h5, h6, h7, h8, h9, h10]
    rw [he]
    simp only [List.cons_append]
    rw [scanStr_backslash _ _ _ _ _ (unescape_u_bmp c.toNat h10 (by simp [isHigh]; omega) (by simp [isLow]; omega) tail), ofNat_toNat]
  · have he : escChar c = ('\\' :: 'u' :: hex4 (0xD800 + (c.toNat - 0x10000) / 1024))
        ++ ('\\' :: 'u' :: hex4 (0xDC00 + (c.toNat - 0x10000) % 1024)) := by
      simp [escChar, h1, h2, h3, h4, h5, h6, h7, h8, h9, h10]
    rw [he]
    simp only [List.cons_append, List.append_assoc]
    rw [scanStr_backslash _ _ _ _ _ (unescape_u_pair _ _ (by omega) (by omega) (by simp [isHigh]; omega) (by simp [isLow]; omega) tail)]
    have : 0x10000 + (0xD800 + (c.toNat - 0x10000) / 1024 - 0xD800) * 1024 + (0xDC00 + (c.toNat - 0x10000) % 1024 - 0xDC00) = c.toNat := by
      omega
    rw [this, ofNat_toNat]

/-- the scanner on the escaped form of a whole string, closing quote, and anything after it -/
theorem scanStr_flatMap (s : Str) : ∀ (f : Nat) (acc rest : Str), s.length < f →
    scanStr f acc (s.flatMap escChar ++ '"' :: rest) = .ok (acc.reverse ++ s, rest) := by
  induction s with
  | nil =>
    intro f acc rest hf
    cases f with
    | zero => omega
    | succ f => simp [scanStr]
  | cons c cs ih =>
    intro f acc rest hf
    cases f with
    | zero => omega
    | succ f =>
      simp only [List.flatMap_cons, List.append_assoc]
      rw [scanStr_escChar, ih f (c :: acc) rest (by simpa using hf)]
      simp

theorem escChar_length_pos (c : Char) : 0 < (escChar c).length := by
  unfold escChar
  repeat' split
  all_goals simp

theorem flatMap_escChar_length (s : Str) : s.length ≤ (s.flatMap escChar).length := by
  induction s with
  | nil => simp
  | cons c cs ih =>
    have := escChar_length_pos c
    simp only [List.flatMap_cons, List.length_append, List.length_cons]
    omega

/-- **strings**: the string reader (after the opening quote) gives back any string from its quoted form -/
theorem parseString_quote (s rest : Str) :
    parseString ((quote s).tail ++ rest) = .ok (s, rest) := by
  have h := flatMap_escChar_length s
  simp only [quote, List.tail_cons, List.append_assoc, List.cons_append, List.nil_append, parseString]
  rw [scanStr_flatMap s _ [] rest (by simp only [List.length_append, List.length_cons]; omega)]
  simp

theorem quote_eq (s : Str) : quote s = '"' :: (quote s).tail := by simp [quote]

end PM.JsonParse
