import ProductMD.Proofs.CIWriter
/-! C01: reading back one flat entry — scalar fields, path tables. -/
namespace PM.CI
open PM

/-! ### fields of a written entry -/
section
variable (e : Entry)

theorem entry_id : sub (entryVal e) k%"id" = .ok (.str e.id) := by
  cases e.release <;> simp [entryVal, sub, PyVal.get?]
theorem entry_uid : sub (entryVal e) k%"uid" = .ok (.str e.uid) := by
  simp [entryVal, sub, PyVal.get?]
theorem entry_name : sub (entryVal e) k%"name" = .ok (.str e.name) := by
  simp [entryVal, sub, PyVal.get?]
theorem entry_type : sub (entryVal e) k%"type" = .ok (.str e.type) := by
  simp [entryVal, sub, PyVal.get?]
theorem entry_arches : sub (entryVal e) k%"arches" = .ok (strList e.arches) := by
  simp [entryVal, sub, PyVal.get?]
theorem entry_paths : sub (entryVal e) k%"paths" = .ok (pathsVal e.paths) := by
  cases h : e.release <;> simp [entryVal, sub, PyVal.get?, h]
theorem entry_release : (entryVal e).get? k%"release" = e.release.map releaseVal := by
  cases h : e.release <;> by_cases hk : e.kids = [] <;> simp [entryVal, PyVal.get?, h, hk]
theorem entry_variants : (entryVal e).get? k%"variants" = if e.kids = [] then none else some (strList e.kids) := by
  cases h : e.release <;> by_cases hk : e.kids = [] <;> simp [entryVal, PyVal.get?, h, hk]
theorem entry_variants_getD : getD (entryVal e) k%"variants" (.list []) = .ok (strList e.kids) := by
  have h := entry_variants e
  unfold entryVal at h ⊢
  simp only [getD, h]
  by_cases hk : e.kids = [] <;> simp [hk, strList]
end

/-! ### path tables -/
theorem lookup_filterMap_cell (cell : Str → Option (Str × Str)) (hc : ∀ a x, cell a = some x → x.1 = a) (a : Str) :
    ∀ (l : List Str), a ∈ l → lookup a (l.filterMap cell) = (cell a).map (·.2) := by
  intro l
  induction l with
  | nil => intro h; cases h
  | cons b bs ih =>
    intro h
    simp only [List.filterMap_cons]
    by_cases hab : b = a
    · subst hab
      cases hcb : cell b with
      | none =>
        simp only [Option.map_none]
        rw [lookup_none_iff]
        intro x hx heq
        obtain ⟨a', _, ha'⟩ := List.mem_filterMap.mp hx
        have := hc a' x ha'
        rw [heq] at this
        subst this
        rw [hcb] at ha'; cases ha'
      | some x =>
        obtain ⟨x1, x2⟩ := x
        have := hc b _ hcb
        simp only at this
        subst this
        simp [lookup]
    · have hmem : a ∈ bs := by
        rcases List.mem_cons.mp h with h | h
        · exact absurd h.symm hab
        · exact h
      cases hcb : cell b with
      | none => simpa using ih hmem
      | some x =>
        obtain ⟨x1, x2⟩ := x
        have := hc b _ hcb
        simp only at this
        subst this
        simp [lookup, hab, ih hmem]

theorem archTableVal_eq (t : ArchTable) : archTableVal t = .dict (t.map fun p => (p.1, PyVal.str p.2)) := by
  unfold archTableVal
  congr 1

theorem archTableDe_ok (l : List Str) (cell : Str → Option (Str × Str))
    (hc : ∀ a x, cell a = some x → x.1 = a ∧ x.2 ≠ []) :
    archTableDe l (archTableVal (l.filterMap cell)) = .ok (l.filterMap cell) := by
  have hcell : ∀ a ∈ l, cellDe (archTableVal (l.filterMap cell)) a = .ok (cell a) := by
    intro a ha
    rw [archTableVal_eq]
    unfold cellDe
    simp only [get?_map, lookup_filterMap_cell cell (fun a x h => (hc a x h).1) a l ha]
    cases hca : cell a with
    | none => simp
    | some x =>
      obtain ⟨x1, x2⟩ := x
      have := hc a _ hca
      simp only at this
      obtain ⟨h1, h2⟩ := this
      subst h1
      cases x2 with
      | nil => exact absurd rfl h2
      | cons c cs => simp [PyVal.truthy]
  unfold archTableDe
  rw [collect_map_ok (cellDe _) cell l hcell]
  simp only [List.filterMap_map]
  rfl

theorem get?_filterMap_fields (t : Str → ArchTable) (cat : Str) :
    ∀ (l : List Str), cat ∈ l →
      ((PyVal.get? (.dict (l.filterMap fun c => if t c = [] then none else some (c, archTableVal (t c)))) cat).getD (.dict []))
        = archTableVal (t cat) := by
  intro l
  induction l with
  | nil => intro h; cases h
  | cons b bs ih =>
    intro h
    by_cases hb : b = cat
    · subst hb
      by_cases ht : t b = []
      · simp only [List.filterMap_cons, ht, if_true]
        by_cases hmem : b ∈ bs
        · rw [ih hmem, ht]
        · have : PyVal.get? (.dict (bs.filterMap fun c => if t c = [] then none else some (c, archTableVal (t c)))) b = none := by
            unfold PyVal.get?
            simp only [Option.map_eq_none_iff, List.find?_eq_none]
            intro x hx
            obtain ⟨c, hc, hx'⟩ := List.mem_filterMap.mp hx
            split at hx'
            · cases hx'
            · cases hx'
              simp
              intro heq
              exact hmem (heq ▸ hc)
          rw [this]
          simp [archTableVal]
      · simp [ht, PyVal.get?]
    · have hmem : cat ∈ bs := by
        rcases List.mem_cons.mp h with h | h
        · exact absurd h.symm hb
        · exact h
      by_cases ht : t b = []
      · simpa [List.filterMap_cons, ht] using ih hmem
      · have := ih hmem
        unfold PyVal.get? at this ⊢
        have hbne : (b == cat) = false := by simpa using hb
        simpa [List.filterMap_cons, ht, List.find?_cons, hbne] using this

theorem zip_map_self {α β} (f : α → β) : ∀ (l : List α), l.zip (l.map f) = l.map (fun x => (x, f x))
  | [] => rfl
  | a :: as => by simp [zip_map_self f as]

/-- what the writer stores for a variant's paths is read back verbatim -/
theorem pathsDe_stored (arches : List Str) (p : PathTable) :
    pathsDe arches (pathsVal (storedPaths arches p)) = .ok (storedPaths arches p) := by
  let cell : Str → Str → Option (Str × Str) := fun cat a =>
    match pathAt p cat a with
    | some v => if v = [] then none else some (a, v)
    | none => none
  have hcell : ∀ cat a x, cell cat a = some x → x.1 = a ∧ x.2 ≠ [] := by
    intro cat a x hx
    simp only [cell] at hx
    split at hx
    · split at hx
      · cases hx
      · rename_i hv; cases hx; exact ⟨rfl, hv⟩
    · cases hx
  have hsp : storedPaths arches p = Gen.COMPOSEINFO_PATH_FIELDS.map fun cat => (cat, arches.filterMap (cell cat)) := rfl
  have hpv : pathsVal (storedPaths arches p)
      = .dict (Gen.COMPOSEINFO_PATH_FIELDS.filterMap fun c =>
          if arches.filterMap (cell c) = [] then none else some (c, archTableVal (arches.filterMap (cell c)))) := by
    rw [hsp]
    unfold pathsVal
    rw [List.filterMap_map]
    rfl
  rw [hpv]
  unfold pathsDe
  simp only
  rw [collect_map_ok _ (fun cat => arches.filterMap (cell cat))]
  · simp only
    rw [zip_map_self, hsp]
  · intro cat hcat
    rw [get?_filterMap_fields (fun c => arches.filterMap (cell c)) cat _ hcat]
    exact archTableDe_ok arches (cell cat) (hcell cat)

end PM.CI
