import ProductMD.Model.Customs
/-!
"Fields read" by the translated validator idiom: the verdict of a rule list on two objects is the same when they agree on
every field some rule reads and every hand-bound (`custom`) rule of the list gives the same verdict on both.
The sets of fields / custom names are COMPUTED from the generated rule lists (`classReads`, `classCustoms`), so a validator
that starts reading another field changes them and the `decide`d side conditions of the users stop holding.
-/
namespace PM

def Cond.reads : Cond → List Str
  | .tt => []
  | .truthy f | .notNone f | .reMatch _ f | .startsWith f _ | .contains f _ => [f]
  | .not c => c.reads
  | .and a b => a.reads ++ b.reads

def Rule.reads : Rule → List Str
  | .type f _ | .value f _ | .notBlank f | .re f _ => [f]
  | .failIf c => c.reads
  | .guarded c r => c.reads ++ r.reads
  | .custom _ => []

def Rule.customNames : Rule → List Str
  | .custom n => [n]
  | .guarded _ r => r.customNames
  | _ => []

theorem Cond.agree {o o' : Obj} : ∀ c : Cond, (∀ f ∈ c.reads, o.get f = o'.get f) →
    c.eval o = c.eval o' ∧ c.wellTyped o = c.wellTyped o'
  | .tt, _ => ⟨rfl, rfl⟩
  | .truthy f, h | .notNone f, h | .reMatch _ f, h | .startsWith f _, h | .contains f _, h => by
    simp [Cond.eval, Cond.wellTyped, h f (by simp [Cond.reads])]
  | .not c, h => by
    have := Cond.agree c (fun f hf => h f (by simpa [Cond.reads] using hf))
    simp [Cond.eval, Cond.wellTyped, this.1, this.2]
  | .and a b, h => by
    have ha := Cond.agree a (fun f hf => h f (by simp [Cond.reads, hf]))
    have hb := Cond.agree b (fun f hf => h f (by simp [Cond.reads, hf]))
    simp [Cond.eval, Cond.wellTyped, ha.1, ha.2, hb.1, hb.2]

theorem Rule.check_agree (cu : Str → Obj → Except Err Unit) {o o' : Obj} : ∀ r : Rule,
    (∀ f ∈ r.reads, o.get f = o'.get f) → (∀ n ∈ r.customNames, cu n o = cu n o') → r.check cu o = r.check cu o'
  | .type f _, h, _ | .value f _, h, _ | .notBlank f, h, _ | .re f _, h, _ => by
    simp [Rule.check, h f (by simp [Rule.reads])]
  | .failIf c, h, _ => by
    have := Cond.agree c (fun f hf => h f (by simpa [Rule.reads] using hf))
    simp [Rule.check, this.1, this.2]
  | .guarded c r, h, hc => by
    have hcd := Cond.agree c (fun f hf => h f (by simp [Rule.reads, hf]))
    have hr := Rule.check_agree cu r (fun f hf => h f (by simp [Rule.reads, hf])) (fun n hn => hc n (by simpa [Rule.customNames] using hn))
    simp [Rule.check, hcd.1, hcd.2, hr]
  | .custom n, _, hc => by
    simp only [Rule.check]
    exact hc n (by simp [Rule.customNames])

theorem runRules_agree (cu : Str → Obj → Except Err Unit) {o o' : Obj} : ∀ rs : List Rule,
    (∀ f ∈ rs.flatMap Rule.reads, o.get f = o'.get f) → (∀ n ∈ rs.flatMap Rule.customNames, cu n o = cu n o') →
    runRules cu o rs = runRules cu o' rs
  | [], _, _ => rfl
  | r :: rs, h, hc => by
    have h1 := Rule.check_agree cu r (fun f hf => h f (by simp [hf])) (fun n hn => hc n (by simp [hn]))
    have h2 := runRules_agree cu rs (fun f hf => h f (by simp only [List.flatMap_cons, List.mem_append]; exact .inr hf))
      (fun n hn => hc n (by simp only [List.flatMap_cons, List.mem_append]; exact .inr hn))
    simp only [runRules, h1, h2]

/-- the fields the validators of a generated class read through the translated idiom -/
def classReads (cls : String) : List Str :=
  match Gen.allClasses.find? (·.1 == cls) with
  | some (_, ms) => ms.flat.flatMap Rule.reads
  | none => []

/-- the hand-bound rules of a generated class -/
def classCustoms (cls : String) : List Str :=
  match Gen.allClasses.find? (·.1 == cls) with
  | some (_, ms) => ms.flat.flatMap Rule.customNames
  | none => []

theorem validateClass_agree (cls : String) {o o' : Obj} (h : ∀ f ∈ classReads cls, o.get f = o'.get f)
    (hc : ∀ n ∈ classCustoms cls, customs n o = customs n o') : validateClass cls o = validateClass cls o' := by
  unfold validateClass
  unfold classReads at h
  unfold classCustoms at hc
  cases hf : Gen.allClasses.find? (·.1 == cls) with
  | none => rfl
  | some p =>
    obtain ⟨c, ms⟩ := p
    rw [hf] at h hc
    exact runRules_agree customs ms.flat h hc

end PM
