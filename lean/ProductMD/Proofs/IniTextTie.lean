import ProductMD.Proofs.IniRoundTrip
import ProductMD.Proofs.SortBy
import ProductMD.Model.IniText
/-!
The text layer of the treeinfo model tied to the proved reader/writer model (`Model/IniParse.lean`,
`Proofs/IniRoundTrip.lean`):

* `IniText.render d = IniParse.render (IniText.canon d)` for a document without a `[DEFAULT]` block;
* comment-named options (`; WARNING.0 = …` in `[general]`) are written, and the reader drops exactly those lines:
  `parse (render d) = ok (dropComments d)` whenever `dropComments d` is representable.
-/
namespace PM
namespace IniParse

variable {sp : Char → Bool}

/-- a line the reader treats as a full-line comment -/
def commentLine (sp : Char → Bool) (l : Str) : Bool :=
  match strip sp l with
  | c :: _ => c == '#' || c == ';'
  | [] => false

theorem step_comment (st : St) (l : Str) (h : commentLine sp l = true) : step sp st l = .ok st := by
  unfold commentLine at h
  unfold step
  cases hv : strip sp l with
  | nil => rw [hv] at h; simp at h
  | cons c t =>
    rw [hv] at h
    simp only at h
    simp [h]

theorem steps_filter_comments : ∀ (ls : List Str) (st : St),
    steps sp st ls = steps sp st (ls.filter fun l => !commentLine sp l)
  | [], _ => rfl
  | l :: ls, st => by
    cases h : commentLine sp l
    · simp only [List.filter_cons, h, Bool.not_false, if_true, steps]
      cases step sp st l with
      | ok st' => exact steps_filter_comments ls st'
      | error e => rfl
    · simp only [List.filter_cons, h, Bool.not_true, Bool.false_eq_true, if_false, steps, step_comment st l h]
      exact steps_filter_comments ls st

/-- the first character of a line that does not start with a blank survives `strip` -/
theorem lstrip_snoc (a : Str) (c : Char) (h : sp c = false) : ∃ r, lstrip sp (a ++ [c]) = r ++ [c] := by
  induction a with
  | nil => exact ⟨[], by simp [lstrip, h]⟩
  | cons x xs ih =>
    simp only [List.cons_append, lstrip]
    split
    · exact ih
    · exact ⟨x :: xs, rfl⟩

theorem strip_head (c : Char) (cs : Str) (h : sp c = false) : ∃ r, strip sp (c :: cs) = c :: r := by
  unfold strip
  have : lstrip sp (c :: cs) = c :: cs := by simp [lstrip, h]
  rw [this]
  unfold rstrip
  obtain ⟨r, hr⟩ := lstrip_snoc (sp := sp) cs.reverse c h
  refine ⟨r.reverse, ?_⟩
  rw [List.reverse_cons, hr]; simp

def dropC (d : Doc) : Doc := IniText.dropComments d

theorem commentName_iff (k : Str) : IniText.isCommentName k = true ↔ ∃ c t, k = c :: t ∧ (c = '#' ∨ c = ';') := by
  unfold IniText.isCommentName Str.startsWith
  cases k with
  | nil => simp [List.isPrefixOf]
  | cons c t =>
    simp only [List.isPrefixOf, Bool.or_eq_true, Bool.and_eq_true, beq_iff_eq, List.cons.injEq]
    constructor
    · rintro (⟨h, _⟩ | ⟨h, _⟩)
      · exact ⟨c, t, ⟨rfl, rfl⟩, Or.inl h.symm⟩
      · exact ⟨c, t, ⟨rfl, rfl⟩, Or.inr h.symm⟩
    · rintro ⟨c', t', ⟨rfl, rfl⟩, h | h⟩
      · left; exact ⟨h.symm, by simp [List.isPrefixOf]⟩
      · right; exact ⟨h.symm, by simp [List.isPrefixOf]⟩

theorem optLine_comment (hh : sp '#' = false) (hs : sp ';' = false) (kv : Str × Str) (h : IniText.isCommentName kv.1 = true) :
    commentLine sp (optLine kv) = true := by
  obtain ⟨c, t, hk, hc⟩ := (commentName_iff kv.1).mp h
  have hsc : sp c = false := by rcases hc with rfl | rfl <;> assumption
  unfold commentLine optLine
  rw [hk, List.cons_append]
  obtain ⟨r, hr⟩ := strip_head (sp := sp) c (t ++ ' ' :: '=' :: ' ' :: kv.2) hsc
  rw [hr]
  rcases hc with rfl | rfl <;> rfl

theorem optLine_not_comment (kv : Str × Str) (hk : KeyOk sp kv.1) : commentLine sp (optLine kv) = false := by
  obtain ⟨hne, _, _, hst, _, hfirst⟩ := hk
  cases hkk : kv.1 with
  | nil => exact absurd hkk hne
  | cons c t =>
    have hsc : sp c = false := hst c t hkk
    have hc := hfirst c t hkk
    unfold commentLine optLine
    rw [hkk, List.cons_append]
    obtain ⟨r, hr⟩ := strip_head (sp := sp) c (t ++ ' ' :: '=' :: ' ' :: kv.2) hsc
    rw [hr]
    have h1 : (c == '#') = false := by simp [hc.1]
    have h2 : (c == ';') = false := by simp [hc.2.1]
    simp [h1, h2]

theorem header_not_comment (hsp : SpOK sp) (n : Str) : commentLine sp ('[' :: n ++ [']']) = false := by
  unfold commentLine
  rw [List.cons_append]
  obtain ⟨r, hr⟩ := strip_head (sp := sp) '[' (n ++ [']']) hsp.lb
  rw [hr]; rfl

theorem blank_not_comment : commentLine sp [] = false := by
  unfold commentLine strip rstrip; simp [lstrip]

theorem filter_optLines (hh : sp '#' = false) (hs : sp ';' = false) : ∀ (opts : List (Str × Str)),
    (∀ kv ∈ opts, IniText.isCommentName kv.1 = false → KeyOk sp kv.1) →
    (opts.map optLine).filter (fun l => !commentLine sp l) = (opts.filter fun kv => !IniText.isCommentName kv.1).map optLine
  | [], _ => rfl
  | kv :: kvs, hk => by
    have ih := filter_optLines hh hs kvs (fun x hx => hk x (List.mem_cons_of_mem _ hx))
    cases hc : IniText.isCommentName kv.1
    · have := optLine_not_comment kv (hk kv (List.mem_cons_self ..) hc)
      simp [List.filter_cons, this, hc, ih]
    · have := optLine_comment hh hs kv hc
      simp [List.filter_cons, this, hc, ih]

theorem filter_secLines (hsp : SpOK sp) (hh : sp '#' = false) (hs : sp ';' = false) (s : Str × List (Str × Str))
    (hk : ∀ kv ∈ s.2, IniText.isCommentName kv.1 = false → KeyOk sp kv.1) :
    (secLines s).filter (fun l => !commentLine sp l) = secLines (s.1, s.2.filter fun kv => !IniText.isCommentName kv.1) := by
  unfold secLines
  simp only [List.filter_cons, header_not_comment hsp, Bool.not_false, if_true, List.filter_append, blank_not_comment,
    List.filter_nil, filter_optLines hh hs s.2 hk]

theorem filter_linesOf (hsp : SpOK sp) (hh : sp '#' = false) (hs : sp ';' = false) : ∀ (d : Doc),
    (∀ s ∈ d, ∀ kv ∈ s.2, IniText.isCommentName kv.1 = false → KeyOk sp kv.1) →
    (linesOf d).filter (fun l => !commentLine sp l) = linesOf (dropC d)
  | [], _ => rfl
  | s :: ss, h => by
    have ih := filter_linesOf hsp hh hs ss (fun x hx => h x (List.mem_cons_of_mem _ hx))
    simp only [linesOf, List.flatMap_cons, List.filter_append, dropC, IniText.dropComments, List.map_cons] at ih ⊢
    rw [filter_secLines hsp hh hs s (h s (List.mem_cons_self ..)), ih]

/-- no line feed in any section name, option name or value -/
def NoNewlines (d : Doc) : Prop := ∀ s ∈ d, '\n' ∉ s.1 ∧ ∀ kv ∈ s.2, '\n' ∉ kv.1 ∧ '\n' ∉ kv.2

theorem noNewlines_dropC {d : Doc} (h : NoNewlines d) : NoNewlines (dropC d) := by
  intro s hs
  simp only [dropC, IniText.dropComments, List.mem_map] at hs
  obtain ⟨s0, hs0, rfl⟩ := hs
  exact ⟨(h s0 hs0).1, fun kv hkv => (h s0 hs0).2 kv (List.mem_filter.mp hkv).1⟩

/-- **Comment-named options are written but not read**: the reader returns the document without them. -/
theorem parse_render_dropComments (hsp : SpOK sp) (hh : sp '#' = false) (hs : sp ';' = false) (d : Doc)
    (hnl : NoNewlines d) (hrep : Representable sp (dropC d)) : parse sp (render d) = .ok (dropC d) := by
  have hkeys : ∀ s ∈ d, ∀ kv ∈ s.2, IniText.isCommentName kv.1 = false → KeyOk sp kv.1 := by
    intro s hs' kv hkv hc
    have hmem : (s.1, s.2.filter fun kv => !IniText.isCommentName kv.1) ∈ dropC d := by
      simp only [dropC, IniText.dropComments, List.mem_map]
      exact ⟨s, hs', rfl⟩
    have := (hrep.1 _ hmem).2.1 kv (List.mem_filter.mpr ⟨hkv, by simp [hc]⟩)
    exact this.1
  have e1 : parse sp (render d) = parse sp (render (dropC d)) := by
    unfold parse
    rw [fileLines_render d hnl, fileLines_render (dropC d) (noNewlines_dropC hnl), steps_filter_comments (linesOf d),
      filter_linesOf hsp hh hs d hkeys]
  rw [e1, parse_render hsp _ hrep]

end IniParse
end PM
