import ProductMD.Proofs.C05TIDownReaders
/-!
C05, treeinfo down-conversion above 0.3: a file that differs from an accepted current-format file only in its `[header]` is read
by the legacy-aware reader as the same object (`legacy_of_current`), hence `deserialize_down_new`.
-/
namespace PM.TI
open Ini
set_option Elab.async false

/-- what a successful run of the current reader consists of -/
theorem deserialize_parts {fo : FloatOracle} {d : Ini} {x : TreeInfo} (h : deserialize fo d = .ok x) :
    ∃ rel lay bp tree tops cs im m i a b,
      deRelease .v1_0 d = .ok (rel, lay) ∧ (if lay then (deBase d).map some else pure none) = .ok bp ∧
      deTree fo .v1_0 d = .ok tree ∧ deTops .v1_0 d = .ok tops ∧ deChecksums d = .ok cs ∧ deImages d tree = .ok im ∧
      deStage2 d = .ok (m, i) ∧ deMedia .v1_0 d = .ok (a, b) ∧ validateClass "treeinfo.TreeInfo" [] = .ok () ∧
      x = { headerVersion := currentVersion, release := rel, isLayered := lay, baseProduct := bp, tree := tree,
            variants := tops, checksums := cs, images := im, mainimage := m, instimage := i, discnum := a, totaldiscs := b } := by
  unfold deserialize at h
  obtain ⟨v, _, h⟩ := bind_ok h
  obtain ⟨vt, _, h⟩ := bind_ok h
  obtain ⟨⟨rel, lay⟩, hr, h⟩ := bind_ok h
  have hg : gateOf vt = .v1_0 := by
    cases hg : gateOf vt <;> rw [hg] at hr <;> first | rfl | cases hr
  rw [hg] at hr h
  dsimp only at h
  cases lay <;>
  · obtain ⟨bp, hb, h⟩ := bind_ok h
    obtain ⟨tree, ht, h⟩ := bind_ok h
    obtain ⟨tops, hto, h⟩ := bind_ok h
    obtain ⟨cs, hc, h⟩ := bind_ok h
    obtain ⟨im, hi, h⟩ := bind_ok h
    obtain ⟨⟨m, i⟩, hs, h⟩ := bind_ok h
    obtain ⟨⟨a, b⟩, hm, h⟩ := bind_ok h
    obtain ⟨u, hu, h⟩ := bind_ok h
    cases h
    exact ⟨_, _, bp, tree, tops, cs, im, m, i, a, b, hr, hb, ht, hto, hc, hi, hs, hm, hu, rfl⟩
end PM.TI

namespace PM.TI
open Ini
set_option Elab.async false

theorem gate_header (vt : Nat × Nat) : Legacy.gateB Gen.gate_treeinfo_Header_deserialize_0 vt = .ok (tupleLe (1, 1) vt) := rfl

theorem downHeaderOpts_lookup (D : TDown) (vs : Str) :
    (downHeaderOpts D vs).lookup kVersion = some vs ∧
    (D.headerTyped = true → (downHeaderOpts D vs).lookup kType = some Gen.HEADER_TYPE_TreeInfo) := by
  constructor
  · simp [downHeaderOpts, List.lookup]
  · intro h
    have : (kType == kVersion) = false := by decide
    simp [downHeaderOpts, List.lookup, h, this]

theorem deHeaderL_down (d' : Ini) (D : TDown) (vs : Str) (ver : Nat × Nat) (hl : d'.lookup sHeader = some (downHeaderOpts D vs))
    (h0 : d'.lookup DEFAULT = none)
    (hval : validateClass "treeinfo.Header" (headerObj vs) = .ok ()) (hvt : versionTuple vs = .ok ver)
    (hD : D.headerTyped = tupleLe (1, 1) ver) : Legacy.deHeaderL d' = .ok vs := by
  obtain ⟨l1, l2⟩ := downHeaderOpts_lookup D vs
  have ho : hasOption d' sHeader kVersion = true := by
    unfold hasOption
    have : (sHeader.isEmpty || sHeader == DEFAULT) = false := by decide
    simp [this, hl, l1]
  have hg : Ini.get d' sHeader kVersion = .ok vs := by
    unfold Ini.get; simp [hl, l1]
  unfold Legacy.deHeaderL
  simp only [ho, if_true, hg, hvt, gate_header, bind, Except.bind, pure, Except.pure]
  cases ht : tupleLe (1, 1) ver with
  | false => simp [hval]
  | true =>
    have hg2 : Ini.get d' sHeader kType = .ok Gen.HEADER_TYPE_TreeInfo := by
      unfold Ini.get; simp [hl, l2 (hD.trans ht)]
    simp [hg2, hval]

end PM.TI

namespace PM.TI
open Ini
set_option Elab.async false

theorem verLt_tupleLe (ver : Nat × Nat) (h : tupleLe ver (0, 3) = false) : PM.verLt (0, 3) ver = true := by
  obtain ⟨a, b⟩ := ver
  simp only [tupleLe, PM.verLt, Bool.or_eq_false_iff, Bool.and_eq_false_iff, decide_eq_false_iff_not, beq_eq_false_iff_ne,
    Bool.or_eq_true, Bool.and_eq_true, decide_eq_true_eq, beq_iff_eq] at h ⊢
  omega

theorem sections_of_names {d d' : Ini} (h : d'.map (·.1) = d.map (·.1)) : sections d' = sections d := by
  unfold sections; rw [h]

/-- **above 0.3**: a file that differs from one the current reader accepts only in its `[header]` (a version text above 0.3
that the header accepts) is read by the legacy-aware reader as the same object -/
theorem legacy_of_current (fo : FloatOracle) (d d' : Ini) (x : TreeInfo) (vs : Str) (ver : Nat × Nat)
    (h : deserialize fo d = .ok x)
    (hh : Legacy.deHeaderL d' = .ok vs) (hvt : versionTuple vs = .ok ver) (hnew : tupleLe ver (0, 3) = false)
    (hsame : ∀ s, s ≠ sHeader → d'.lookup s = d.lookup s) (hnames : d'.map (·.1) = d.map (·.1)) :
    Legacy.deserialize fo d' = .ok x := by
  obtain ⟨rel, lay, bp, tree, tops, cs, im, m, i, a, b, hr, hb, ht, hto, hc, hi, hs, hm, hu, rfl⟩ := deserialize_parts h
  have h0 : d'.lookup DEFAULT = d.lookup DEFAULT := hsame _ (by decide)
  have hav : ∀ s, headAV s → d'.lookup s = d.lookup s := by
    intro s hs
    apply hsame
    intro e; rw [e] at hs
    exact not_headAV_of (c := 'h') rfl (by decide) (by decide) hs
  have himg : ∀ s, isImg s = true → d'.lookup s = d.lookup s := by
    intro s hs
    apply hsame
    intro e; rw [e] at hs; revert hs; decide
  have hlen : d'.length = d.length := by
    have := congrArg List.length hnames
    simpa using this
  have e2 : Legacy.deReleaseL .v10 d' = .ok (rel, lay) := by
    have : deRelease .v1_0 d' = deRelease .v1_0 d := by
      unfold deRelease
      simp only [get_congr (hsame sRelease (by decide)) h0, hasOption_congr (hsame sRelease (by decide)) h0, getBoolean]
    simp only [Legacy.deReleaseL, this, hr]
  have e3 : (if lay then (deBase d').map some else pure none) = .ok bp := by
    rw [deBase_congr (hsame sBase (by decide)) h0]; exact hb
  have e4 : Legacy.deTreeL fo false d' = .ok tree := by
    rw [deTreeL_false, deTree_congr fo (hsame sTree (by decide)) (hsame sGeneral (by decide)) h0]; exact ht
  have e6 : Legacy.deChecksumsL false d' = .ok cs := by
    rw [deChecksumsL_false, deChecksums_congr (hsame sChecksums (by decide)) h0]; exact hc
  have e7 : Legacy.deImagesL false d' tree = .ok im := by
    rw [deImagesL_false, deImages_congr tree h0 himg (by rw [sections_of_names hnames])]; exact hi
  have e8 : Legacy.deStage2L false d' = .ok (m, i) := by
    rw [deStage2L_false, deStage2_congr (hsame sStage2 (by decide)) h0]; exact hs
  have e9 : Legacy.deMediaL false d' = .ok (a, b) := by
    rw [deMediaL_false, deMedia_congr (hsame sMedia (by decide)) h0]; exact hm
  have hS := Legacy.selsOf_gt_0_3 ver (verLt_tupleLe ver hnew)
  have e5 : ∀ c, Legacy.deTopsL { headerTyped := PM.verLe (1, 1) ver, release := Legacy.Sel.v10, tree00 := false, variants00 := false, paths := Legacy.Sel.v10, addonFallback := true, variant := Legacy.Sel.v10, fixImages := false, fixStage2 := false, fixChecksums := false, media00 := false } c d' = .ok tops := by
    intro c
    rw [deTopsL_current _ c d' rfl rfl rfl rfl, deTops_congr hav (hsame sTree (by decide)) h0 hlen]; exact hto
  unfold Legacy.deserialize
  simp only [hh, hvt, hS, bind, Except.bind, pure, Except.pure, Legacy.Sels.current, e2, e4, e5, e6, e7, e8, e9, hu]
  cases lay with
  | false => simp only [pure, Except.pure] at e3; cases e3; simp
  | true =>
    simp only [if_true] at e3 ⊢
    cases hbb : deBase d' with
    | error e => rw [hbb] at e3; cases e3
    | ok p => rw [hbb] at e3; cases e3; simp [Except.map]

end PM.TI

namespace PM.TI
open Ini
set_option Elab.async false

theorem renameSec_new (D : TDown) (h : D.old = false) (l : List Str) : l.map (renameSec D) = l := by
  have : renameSec D = id := by funext s; simp [renameSec, h]
  rw [this, List.map_id]

theorem header_written {t : TreeInfo} {d : Ini} (h : serialize t none = .ok d) : d.lookup sHeader = some headerOpts := by
  obtain ⟨n0, key, chosen, w⟩ := serialize_spec h
  rw [w.look, L_header]

/-- **faithful above 0.3** (0.4 … 1.0, 1.1, 1.2, later): the file of format `ver` is loaded as the normal form of the tree
(hypotheses: those of `C04_tree_readback`, plus: the header accepts the version text) -/
theorem deserialize_down_new (fo : FloatOracle) (vs : Str) (ver : Nat × Nat) (ck : Str) (t : TreeInfo) (d' : Ini) (n : Int)
    (hdown : down vs ver ck t = .ok d') (hnew : tupleLe ver (0, 3) = false)
    (hval : validateClass "treeinfo.Header" (headerObj vs) = .ok ()) (hvt : versionTuple vs = .ok ver)
    (hts : t.tree.ts = .int n) (hfl : fo.intOfFloatStr (Str.intStr n) = .ok n)
    (hplat : PlatformsOK t.tree) (huok : UidsOK t.variants) (hnd : UidsNodup t.variants)
    (htop : TopNotAddon t.variants) (hcs : ChecksumsOK t.checksums) (himg : ImagesOK t.tree.arch t.images)
    (hv : ReadValid (norm t)) :
    Legacy.deserialize fo d' = .ok (norm t) := by
  unfold down at hdown
  cases hser : serialize t none with
  | error e => rw [hser] at hdown; cases hdown
  | ok d =>
  rw [hser] at hdown
  injection hdown with hdown
  subst hdown
  have hcur := C04_tree_readback fo t none d n hser hts hfl hplat huok hnd htop hcs himg hv
  have hD : (tdown ver).old = false := hnew
  have hsame : ∀ s, s ≠ sHeader → (d.map (downSec (tdown ver) vs (t.tree.arch == "src".toList) ck)).lookup s = d.lookup s :=
    fun s hs => down_lookup_same _ _ _ _ s hs (fun ho => by rw [hD] at ho; cases ho) d
  have h0 : d.lookup DEFAULT = none := C04_no_default t none d hser
  have hh := deHeaderL_down (d.map (downSec (tdown ver) vs (t.tree.arch == "src".toList) ck)) (tdown ver) vs ver
    (by rw [down_lookup_header, header_written hser]; rfl) (by rw [hsame _ (by decide)]; exact h0) hval hvt rfl
  exact legacy_of_current fo d _ (norm t) vs ver hcur hh hvt hnew hsame (by rw [down_names, renameSec_new _ hD])

end PM.TI
