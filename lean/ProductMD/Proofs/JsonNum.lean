import ProductMD.Model.JsonParse
/-!
Number layer of the JSON round trip: the number scanner of `Model/JsonParse.lean` reads `Str.intStr n` back as `n`
(any size), and reads a float token back as itself, whatever follows as long as it cannot continue a number.
Core Lean only.
-/
namespace PM.JsonParse
open PM Str

/-- what may follow a number without being taken for a part of it (`,` `\n` `]` `}` blank … or the end) -/
def numStop : Str → Bool
  | [] => true
  | c :: _ => !(isAsciiDigit c || c == '.' || c == 'e' || c == 'E' || c == '+' || c == '-')

theorem numStop_digit {c : Char} {t : Str} (h : numStop (c :: t) = true) : isAsciiDigit c = false := by
  simp [numStop] at h; exact h.1.1.1.1.1

/-! ### the pieces of the scanner are stable under appending a stopping rest -/

theorem spanDigits_append (rest : Str) (h : numStop rest = true) : ∀ s : Str,
    spanDigits (s ++ rest) = ((spanDigits s).1, (spanDigits s).2 ++ rest) := by
  intro s
  induction s with
  | nil =>
    cases rest with
    | nil => rfl
    | cons c t => simp [spanDigits, numStop_digit h]
  | cons c cs ih =>
    simp only [List.cons_append, spanDigits]
    split
    · simp [ih]
    · rfl

theorem spanDigits_eq : ∀ s : Str, (spanDigits s).1 ++ (spanDigits s).2 = s := by
  intro s
  induction s with
  | nil => rfl
  | cons c cs ih =>
    simp only [spanDigits]
    split
    · simp [ih]
    · rfl

theorem scanInt_append (rest : Str) (h : numStop rest = true) (s ip r : Str) (hs : scanInt s = some (ip, r)) :
    scanInt (s ++ rest) = some (ip, r ++ rest) := by
  cases s with
  | nil => simp [scanInt] at hs
  | cons c cs =>
    simp only [scanInt] at hs
    simp only [List.cons_append, scanInt]
    split
    · rename_i h0; simp only [h0, if_true, Option.some.injEq, Prod.mk.injEq] at hs; simp [hs.1.symm, hs.2.symm]
    · rename_i h0
      simp only [h0, if_false] at hs
      split
      · rename_i h1
        simp only [h1, if_true, Option.some.injEq, Prod.mk.injEq] at hs
        simp [spanDigits_append rest h, hs.1.symm, hs.2.symm]
      · rename_i h1; simp [h1] at hs

theorem scanInt_eq (s ip r : Str) (hs : scanInt s = some (ip, r)) : ip ++ r = s := by
  cases s with
  | nil => simp [scanInt] at hs
  | cons c cs =>
    simp only [scanInt] at hs
    split at hs
    · rename_i h0; simp only [Option.some.injEq, Prod.mk.injEq] at hs; simp [hs.1.symm, hs.2.symm, h0]
    · split at hs
      · simp only [Option.some.injEq, Prod.mk.injEq] at hs
        simp [hs.1.symm, hs.2.symm, spanDigits_eq]
      · cases hs

theorem scanFrac_append (rest : Str) (h : numStop rest = true) (s : Str) :
    scanFrac (s ++ rest) = ((scanFrac s).1, (scanFrac s).2 ++ rest) := by
  match s with
  | [] =>
    match rest with
    | [] => rfl
    | [c] => rfl
    | p :: c :: cs =>
      have : p ≠ '.' := by intro e; subst e; simp [numStop] at h
      simp [scanFrac, this]
  | [c] =>
    match rest with
    | [] => rfl
    | r :: rs => simp [scanFrac, numStop_digit h]
  | p :: c :: cs =>
    simp only [List.cons_append, scanFrac]
    split
    · simp [spanDigits_append rest h]
    · rfl

theorem scanFrac_eq (s : Str) : (scanFrac s).1 ++ (scanFrac s).2 = s := by
  match s with
  | [] => rfl
  | [c] => rfl
  | p :: c :: cs =>
    simp only [scanFrac]
    split
    · simp [spanDigits_eq]
    · rfl

theorem numStop_facts {c : Char} {t : Str} (h : numStop (c :: t) = true) :
    isAsciiDigit c = false ∧ c ≠ '.' ∧ c ≠ 'e' ∧ c ≠ 'E' ∧ isSign c = false := by
  simp [numStop] at h
  simp [isSign, h]

theorem scanExp_append (rest : Str) (h : numStop rest = true) (s : Str) :
    scanExp (s ++ rest) = ((scanExp s).1, (scanExp s).2 ++ rest) := by
  match s with
  | [] =>
    match rest with
    | [] => rfl
    | e :: cs =>
      have hf := numStop_facts h
      simp [scanExp, hf.2.2.1, hf.2.2.2.1]
  | [e] =>
    match rest with
    | [] => simp
    | c :: r =>
      have hf := numStop_facts h
      simp only [List.cons_append, List.nil_append, scanExp]
      split
      · simp [hf.2.2.2.2, spanDigits, hf.1]
      · rfl
  | e :: c :: r =>
    simp only [List.cons_append, scanExp]
    split
    · split
      · rw [spanDigits_append rest h]
        split <;> simp
      · have := spanDigits_append rest h (c :: r)
        simp only [List.cons_append] at this
        rw [this]
        split <;> simp
    · rfl

theorem scanExp_eq (s : Str) : (scanExp s).1 ++ (scanExp s).2 = s := by
  match s with
  | [] => rfl
  | [e] =>
    simp only [scanExp]
    split <;> rfl
  | e :: c :: r =>
    simp only [scanExp]
    split
    · split
      · split
        · rfl
        · simp [spanDigits_eq]
      · split
        · rfl
        · have := spanDigits_eq (c :: r)
          simp [this]
    · rfl

/-- **the number scanner does not look beyond a stopping character** -/
theorem scanNumber_append (rest : Str) (h : numStop rest = true) (s : Str) (n : Num) (hs : scanNumber s = some n) :
    scanNumber (s ++ rest) = some { n with rest := n.rest ++ rest } := by
  cases s with
  | nil => simp [scanNumber, scanInt] at hs
  | cons c cs =>
    simp only [scanNumber, List.head?_cons, List.tail_cons] at hs
    simp only [List.cons_append, scanNumber, List.head?_cons, List.tail_cons]
    by_cases hneg : (some c == some '-') = true
    · simp only [hneg, if_true] at hs ⊢
      cases hi : scanInt cs with
      | none => rw [hi] at hs; cases hs
      | some p =>
        obtain ⟨ip, r⟩ := p
        rw [hi] at hs
        simp only [Option.some.injEq] at hs
        rw [scanInt_append rest h cs ip r hi]
        simp only [scanFrac_append rest h, scanExp_append rest h]
        rw [← hs]
    · simp only [hneg, Bool.false_eq_true, if_false] at hs ⊢
      cases hi : scanInt (c :: cs) with
      | none => rw [hi] at hs; cases hs
      | some p =>
        obtain ⟨ip, r⟩ := p
        rw [hi] at hs
        simp only [Option.some.injEq] at hs
        have := scanInt_append rest h (c :: cs) ip r hi
        simp only [List.cons_append] at this
        rw [this]
        simp only [scanFrac_append rest h, scanExp_append rest h]
        rw [← hs]

/-- the scanner splits its input: token ++ rest -/
theorem scanNumber_tok (s : Str) (n : Num) (hs : scanNumber s = some n) : n.tok ++ n.rest = s := by
  cases s with
  | nil => simp [scanNumber, scanInt] at hs
  | cons c cs =>
    simp only [scanNumber, List.head?_cons, List.tail_cons] at hs
    by_cases hneg : (some c == some '-') = true
    · simp only [hneg, if_true] at hs
      have hc : c = '-' := by simpa using hneg
      cases hi : scanInt cs with
      | none => rw [hi] at hs; cases hs
      | some p =>
        obtain ⟨ip, r⟩ := p
        rw [hi] at hs
        simp only [Option.some.injEq] at hs
        rw [← hs]
        simp only [Num.tok, if_true, List.append_assoc, scanExp_eq, scanFrac_eq, scanInt_eq cs ip r hi, hc]
        rfl
    · simp only [hneg, Bool.false_eq_true, if_false] at hs
      cases hi : scanInt (c :: cs) with
      | none => rw [hi] at hs; cases hs
      | some p =>
        obtain ⟨ip, r⟩ := p
        rw [hi] at hs
        simp only [Option.some.injEq] at hs
        rw [← hs]
        simp only [Num.tok, Bool.false_eq_true, if_false, List.nil_append, List.append_assoc, scanExp_eq, scanFrac_eq, scanInt_eq _ ip r hi]

/-! ### decimal rendering of integers -/

theorem natDigitsAux_acc : ∀ (n fuel : Nat) (acc : Str), n < fuel →
    natDigitsAux fuel n acc = natDigitsAux (n + 1) n [] ++ acc := by
  intro n
  induction n using Nat.strongRecOn with
  | _ n ih =>
    intro fuel acc hf
    cases fuel with
    | zero => omega
    | succ fuel =>
      by_cases hn : n < 10
      · simp [natDigitsAux, hn]
      · have hlt : n / 10 < n := Nat.div_lt_self (by omega) (by omega)
        simp only [natDigitsAux, hn, if_false]
        rw [ih (n / 10) hlt fuel _ (by omega), ih (n / 10) hlt n [digitChar (n % 10)] hlt]
        simp

theorem natStr_rec (n : Nat) :
    natStr n = if n < 10 then [digitChar n] else natStr (n / 10) ++ [digitChar (n % 10)] := by
  by_cases hn : n < 10
  · simp [natStr, natDigitsAux, hn]
  · have hlt : n / 10 < n := Nat.div_lt_self (by omega) (by omega)
    simp only [hn, if_false]
    have h1 : natStr n = natDigitsAux n (n / 10) [digitChar (n % 10)] := by
      simp [natStr, natDigitsAux, hn]
    rw [h1, natDigitsAux_acc (n / 10) n _ hlt]
    rfl

theorem digitChar_facts : ∀ d, d < 10 →
    isAsciiDigit (digitChar d) = true ∧ (digitChar d).toNat = 48 + d ∧ (d ≠ 0 → digitChar d ≠ '0') ∧ digitChar d ≠ '-' := by
  decide

theorem spanDigits_all (ds : Str) (h : ∀ c ∈ ds, isAsciiDigit c = true) : spanDigits ds = (ds, []) := by
  induction ds with
  | nil => rfl
  | cons c cs ih =>
    have := ih (fun x hx => h x (List.mem_cons_of_mem _ hx))
    simp [spanDigits, h c (List.mem_cons_self), this]

theorem digitsToNat_append (xs : Str) (d : Char) : digitsToNat (xs ++ [d]) = digitsToNat xs * 10 + (d.toNat - 48) := by
  simp [digitsToNat, List.foldl_append]

/-- `natStr n`: ASCII digits, value `n`, no leading zero except for `0` itself -/
theorem natStr_spec (n : Nat) :
    (∀ c ∈ natStr n, isAsciiDigit c = true) ∧ digitsToNat (natStr n) = n
    ∧ (n = 0 → natStr n = ['0']) ∧ (n ≠ 0 → ∃ c t, natStr n = c :: t ∧ c ≠ '0' ∧ isAsciiDigit c = true) := by
  induction n using Nat.strongRecOn with
  | _ n ih =>
    rw [natStr_rec]
    by_cases hn : n < 10
    · have hd := digitChar_facts n hn
      simp only [hn, if_true]
      refine ⟨?_, ?_, ?_, ?_⟩
      · intro c hc; simp at hc; rw [hc]; exact hd.1
      · simp [digitsToNat, hd.2.1]
      · intro h0; subst h0; rfl
      · intro h0; exact ⟨_, [], rfl, hd.2.2.1 h0, hd.1⟩
    · have hlt : n / 10 < n := Nat.div_lt_self (by omega) (by omega)
      have hm : n % 10 < 10 := Nat.mod_lt _ (by omega)
      have hd := digitChar_facts (n % 10) hm
      obtain ⟨i1, i2, _, i4⟩ := ih (n / 10) hlt
      simp only [hn, if_false]
      refine ⟨?_, ?_, ?_, ?_⟩
      · intro c hc
        rcases List.mem_append.mp hc with hc | hc
        · exact i1 c hc
        · simp at hc; rw [hc]; exact hd.1
      · rw [digitsToNat_append, i2, hd.2.1]; omega
      · intro h0; omega
      · intro _
        obtain ⟨c, t, e, hc0, hcd⟩ := i4 (by omega)
        exact ⟨c, t ++ [digitChar (n % 10)], by rw [e]; rfl, hc0, hcd⟩

theorem scanInt_natStr (m : Nat) : scanInt (natStr m) = some (natStr m, []) := by
  obtain ⟨h1, _, h3, h4⟩ := natStr_spec m
  by_cases h0 : m = 0
  · rw [h3 h0]; rfl
  · obtain ⟨c, t, e, hc0, hcd⟩ := h4 h0
    rw [e] at h1 ⊢
    have ht := spanDigits_all t (fun x hx => h1 x (List.mem_cons_of_mem _ hx))
    simp [scanInt, hc0, hcd, ht]

theorem natStr_head (m : Nat) : ∃ c t, natStr m = c :: t ∧ isAsciiDigit c = true := by
  obtain ⟨_, _, h3, h4⟩ := natStr_spec m
  by_cases h0 : m = 0
  · exact ⟨'0', [], h3 h0, by decide⟩
  · obtain ⟨c, t, e, _, hcd⟩ := h4 h0
    exact ⟨c, t, e, hcd⟩

theorem digit_ne_minus {c : Char} (h : isAsciiDigit c = true) : c ≠ '-' := by
  intro e; subst e; exact absurd h (by decide)

theorem scanNumber_natStr (m : Nat) :
    scanNumber (natStr m) = some { neg := false, ip := natStr m, fp := [], ep := [], rest := [] } := by
  obtain ⟨c, t, e, hcd⟩ := natStr_head m
  have hi := scanInt_natStr m
  rw [e] at hi ⊢
  have : (some c == some '-') = false := by simp [digit_ne_minus hcd]
  simp [scanNumber, this, hi, scanFrac, scanExp]

theorem scanNumber_neg_natStr (m : Nat) :
    scanNumber ('-' :: natStr m) = some { neg := true, ip := natStr m, fp := [], ep := [], rest := [] } := by
  simp [scanNumber, scanInt_natStr m, scanFrac, scanExp]

/-- **integers**: any integer, printed by `intStr`, followed by something that cannot continue a number, is read
back as that integer (as long as `int()` accepts that many digits under the configured limit) -/
theorem number_intStr (lim : Nat) (n : Int) (rest : Str) (hfit : intFits lim n = true) (hstop : numStop rest = true) :
    number lim (intStr n ++ rest) = .ok (.int n, rest) := by
  cases n with
  | ofNat m =>
    have h := scanNumber_append rest hstop _ _ (scanNumber_natStr m)
    have hfit' : intLimited lim (natStr m).length = false := by simpa [intFits] using hfit
    simp only [intStr, number, h, Num.isFloat, List.isEmpty_nil, Bool.and_self, Bool.not_true, Bool.false_eq_true,
      if_false, hfit', (natStr_spec m).2.1, List.nil_append]
    rfl
  | negSucc k =>
    have h := scanNumber_append rest hstop _ _ (scanNumber_neg_natStr (k + 1))
    have hfit' : intLimited lim (natStr (k + 1)).length = false := by simpa [intFits, Int.natAbs_negSucc] using hfit
    simp only [intStr, List.cons_append] at h ⊢
    simp only [number, h, Num.isFloat, List.isEmpty_nil, Bool.and_self, Bool.not_true, Bool.false_eq_true,
      if_false, hfit', (natStr_spec (k + 1)).2.1, List.nil_append, if_true]
    rfl

/-- **floats**: a float token (`floatTok`, the scanner's own language) followed by something that cannot continue a
number is read back as that very token -/
theorem number_floatTok (lim : Nat) (r rest : Str) (n : Num) (hs : scanNumber r = some n) (hr : n.rest = [])
    (hf : n.isFloat = true) (hstop : numStop rest = true) :
    number lim (r ++ rest) = .ok (.float r, rest) := by
  obtain ⟨neg, ip, fp, ep, rs⟩ := n
  simp only at hr
  subst hr
  have h := scanNumber_append rest hstop r _ hs
  have ht := scanNumber_tok r _ hs
  simp only [List.append_nil, List.nil_append] at ht h
  have hf' : ({ neg := neg, ip := ip, fp := fp, ep := ep, rest := rest } : Num).isFloat = true := hf
  have ht' : ({ neg := neg, ip := ip, fp := fp, ep := ep, rest := rest } : Num).tok = r := ht
  simp only [number, h, hf', if_true, ht']

end PM.JsonParse
