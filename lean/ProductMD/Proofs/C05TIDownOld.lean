import ProductMD.Proofs.C05TIDownForest
/-!
C05, treeinfo down-conversion to 0.1 – 0.3: the converted file of a written tree is an `OldDoc`, the `[product]` reader, and the
assembled theorem `deserialize_down_old`.
-/
namespace PM.TI
open Ini
set_option Elab.async false

/-! ### the converted file of a written tree -/

theorem oldDoc_of_written {t : TreeInfo} {d : Ini} {n0 : Int} {key : Str} {chosen : Variant} (w : Written t none d n0 key chosen)
    (D : TDown) (hD : D.old = true) (vs : Str) (src : Bool) (ck : Str) :
    OldDoc t src ck (d.map (downSec D vs src ck)) := by
  have V := w.view
  refine ⟨?_, ?_, ?_⟩
  · rw [down_lookup_same D vs src ck DEFAULT (by decide) (fun _ => ⟨by decide, by decide, by decide⟩)]
    exact V.noDefault
  · intro x hx
    rw [down_lookup_var D vs src ck hD _ (isVarSec_secName _ _), w.look, L_variant w.nodup x hx]
    rfl
  · intro s hs hsome
    rw [down_lookup_var D vs src ck hD _ hs, w.look] at hsome
    cases hl : (docList t (generalOpts t n0 key chosen)).lookup s with
    | none => rw [hl] at hsome; cases hsome
    | some o =>
      obtain ⟨y, hy, e, _⟩ := L_variant_inv (isVarSec_headAV hs) hl
      exact ⟨y, hy, e⟩

theorem product_absent {t : TreeInfo} {g : IniSec} : (docList t g).lookup sProduct' = none := by
  rw [L_fixed t g sProduct' (not_headAV_of (c := 'p') rfl (by decide) (by decide)) (by decide), fixedList_lookup]
  have e1 : ¬ sGeneral = sProduct' := by decide
  have e2 : ¬ sTree = sProduct' := by decide
  have e3 : ¬ sRelease = sProduct' := by decide
  have e4 : ¬ sHeader = sProduct' := by decide
  simp only [e1, e2, e3, e4, if_false, optSec_lookup_ne _ _ _ _ (show sMedia ≠ sProduct' by decide),
    optSec_lookup_ne _ _ _ _ (show sStage2 ≠ sProduct' by decide), optSec_lookup_ne _ _ _ _ (show sChecksums ≠ sProduct' by decide),
    baseL_lookup_ne t sProduct' (by decide)]
  rfl

/-- `Release.deserialize_0_3` on the `[product]` section -/
theorem deReleaseL_old {d' : Ini} (p : Product) (l : Bool) (h0 : d'.lookup DEFAULT = none)
    (hL : d'.lookup sProduct' = some (releaseOpts p l))
    (hv : validateClass "treeinfo.Release" (releaseObj p l) = .ok ()) :
    Legacy.deReleaseL .v03 d' = .ok (p, l) := by
  obtain ⟨l1, l2, l3, l4⟩ := releaseOpts_lookup p l
  have hs : Legacy.sProduct = sProduct' := rfl
  have g1 := get_sec' hL l1
  have g2 := get_sec' hL l2
  have g3 := get_sec' hL l3
  have o2 : hasOption d' sProduct' kIsLayered = l := by
    rw [hasOption_sec' h0 hL (by decide) (by decide), l4]; cases l <;> rfl
  have hb : Ini.toBoolean ['t', 'r', 'u', 'e'] = .ok true := by rfl
  unfold Legacy.deReleaseL
  simp only [hs, g1, g2, g3, o2, bind, Except.bind, pure, Except.pure]
  cases l with
  | false => simp [hv]
  | true =>
    have g4 : Ini.get d' sProduct' kIsLayered = .ok ['t', 'r', 'u', 'e'] := get_sec' hL (by rw [l4]; rfl)
    simp [Ini.getBoolean, g4, hb, Except.bind, hv]
end PM.TI

namespace PM.TI
open Ini
set_option Elab.async false

theorem filter_img_rename (D : TDown) : ∀ l : List Str,
    ((l.map (renameSec D)).filter (· != DEFAULT)).filter isImg = (l.filter (· != DEFAULT)).filter isImg
  | [] => rfl
  | s :: l => by
    have ih := filter_img_rename D l
    simp only [List.map_cons]
    by_cases e : (D.old && s == sRelease) = true
    · have e1 : renameSec D s = sProduct' := by simp [renameSec, e]
      have e2 : s = sRelease := by simp only [Bool.and_eq_true, beq_iff_eq] at e; exact e.2
      have a1 : (sProduct' != DEFAULT) = true := by decide
      have a2 : isImg sProduct' = false := by decide
      have a3 : (sRelease != DEFAULT) = true := by decide
      have a4 : isImg sRelease = false := by decide
      rw [e1, e2]
      simp only [List.filter_cons, a1, a2, a3, a4, if_true, Bool.false_eq_true, if_false]
      exact ih
    · have e1 : renameSec D s = s := by simp [renameSec, e]
      rw [e1]
      cases h1 : (s != DEFAULT) <;> cases h2 : isImg s <;> simp [List.filter_cons, h1, h2, ih]

theorem sections_img_down (D : TDown) (vs : Str) (src : Bool) (ck : Str) (d : Ini) :
    (sections (d.map (downSec D vs src ck))).filter isImg = (sections d).filter isImg := by
  unfold sections sortS
  rw [sortBy_filter, sortBy_filter, down_names, filter_img_rename]

/-- **faithful, 0.1 – 0.3**: the file of format `ver` (`[product]`, no `parent`, children under `ck`, source-tree swap) is
loaded as the normal form of the tree -/
theorem deserialize_down_old (fo : FloatOracle) (vs : Str) (ver : Nat × Nat) (ck : Str) (t : TreeInfo) (d' : Ini) (n : Int)
    (hdown : down vs ver ck t = .ok d') (hold : tupleLe ver (0, 3) = true) (hne0 : (ver == (0, 0)) = false)
    (hval : validateClass "treeinfo.Header" (headerObj vs) = .ok ()) (hvt : versionTuple vs = .ok ver)
    (hck : ck = kAddons ∨ ck = kVariants)
    (hts : t.tree.ts = .int n) (hfl : fo.intOfFloatStr (Str.intStr n) = .ok n)
    (hplat : PlatformsOK t.tree) (huok : UidsOK t.variants) (hnd : UidsNodup t.variants)
    (htop : TopNotAddon t.variants) (hcs : ChecksumsOK t.checksums) (himg : ImagesOK t.tree.arch t.images)
    (hv : ReadValid (norm t))
    (CH : ChainOK t.variants)
    (SR : ∀ x ∈ subVs none t.variants, SrcRepresentable (t.tree.arch == "src".toList) x.2.paths) :
    Legacy.deserialize fo d' = .ok (norm t) := by
  unfold down at hdown
  cases hser : serialize t none with
  | error e => rw [hser] at hdown; cases hdown
  | ok d =>
  rw [hser] at hdown
  injection hdown with hdown
  subst hdown
  have hcur := C04_tree_readback fo t none d n hser hts hfl hplat huok hnd htop hcs himg hv
  obtain ⟨n0, key, chosen, w⟩ := serialize_spec hser
  have V := w.view
  have wv := serialize_valid hser
  have hD : (tdown ver).old = true := hold
  have hDt : (tdown ver).headerTyped = false := by
    obtain ⟨a, b⟩ := ver
    simp only [tdown, tupleLe, Bool.or_eq_true, Bool.and_eq_true, decide_eq_true_eq, beq_iff_eq] at hold ⊢
    rw [Bool.eq_false_iff]
    simp only [ne_eq, Bool.or_eq_true, Bool.and_eq_true, decide_eq_true_eq, beq_iff_eq]
    omega
  generalize hd' : d.map (downSec (tdown ver) vs (t.tree.arch == "src".toList) ck) = d'
  have O : OldDoc t (t.tree.arch == "src".toList) ck d' := hd' ▸ oldDoc_of_written w (tdown ver) hD vs _ ck
  have hfix : ∀ s, s ≠ sHeader → s ≠ sRelease → s ≠ sProduct' → isVarSec s = false → d'.lookup s = d.lookup s :=
    fun s a b c e => hd' ▸ down_lookup_same _ _ _ _ s a (fun _ => ⟨b, c, e⟩) d
  have h0' : d'.lookup DEFAULT = none := O.noDefault
  have h0 : d'.lookup DEFAULT = d.lookup DEFAULT := by rw [h0', V.noDefault]
  have hh : Legacy.deHeaderL d' = .ok vs := deHeaderL_down d' (tdown ver) vs ver
    (by rw [← hd', down_lookup_header, header_written hser]; rfl) h0' hval hvt rfl
  have hS := Legacy.selsOf_le_0_3 ver hne0 hold
  obtain ⟨rel, lay, bp, tree, tops, cs, im, m, i, a, b, hr, hb, ht, hto, hc, hi, hs, hm, hu, hx⟩ := deserialize_parts hcur
  have hrel : rel = t.release := (congrArg TreeInfo.release hx).symm
  have hlay : lay = t.isLayered := (congrArg TreeInfo.isLayered hx).symm
  have htree : tree.arch = t.tree.arch := congrArg (fun x => x.tree.arch) hx.symm
  have htops : tops = sortBy Variant.uid (normTops t.variants) := (congrArg TreeInfo.variants hx).symm
  subst hrel hlay
  have himgs : ∀ s, isImg s = true → d'.lookup s = d.lookup s := by
    intro s hs
    have hh := isImg_head hs
    apply hfix s
    · intro e; rw [e] at hs; revert hs; decide
    · intro e; rw [e] at hs; revert hs; decide
    · intro e; rw [e] at hs; revert hs; decide
    · cases hv : isVarSec s with
      | false => rfl
      | true => exact absurd (isVarSec_headAV hv) (not_headAV_of hh (by decide) (by decide))
  have e2 : Legacy.deReleaseL .v03 d' = .ok (t.release, t.isLayered) :=
    deReleaseL_old t.release t.isLayered h0'
      (by rw [← hd', down_lookup_product _ _ _ _ hD d (by rw [w.look]; exact product_absent), w.look, L_release]) wv.release
  have e3 : (if t.isLayered then (deBase d').map some else pure none) = .ok bp := by
    rw [deBase_congr (hfix sBase (by decide) (by decide) (by decide) (by decide)) h0]; exact hb
  have e4 : Legacy.deTreeL fo false d' = .ok tree := by
    rw [deTreeL_false, deTree_congr fo (hfix sTree (by decide) (by decide) (by decide) (by decide))
      (hfix sGeneral (by decide) (by decide) (by decide) (by decide)) h0]; exact ht
  have e6 : Legacy.deChecksumsL false d' = .ok cs := by
    rw [deChecksumsL_false, deChecksums_congr (hfix sChecksums (by decide) (by decide) (by decide) (by decide)) h0]; exact hc
  have e7 : Legacy.deImagesL false d' tree = .ok im := by
    rw [deImagesL_false, deImages_congr tree h0 himgs (by rw [← hd', sections_img_down])]; exact hi
  have e8 : Legacy.deStage2L false d' = .ok (m, i) := by
    rw [deStage2L_false, deStage2_congr (hfix sStage2 (by decide) (by decide) (by decide) (by decide)) h0]; exact hs
  have e9 : Legacy.deMediaL false d' = .ok (a, b) := by
    rw [deMediaL_false, deMedia_congr (hfix sMedia (by decide) (by decide) (by decide) (by decide)) h0]; exact hm
  have F : ForestOK t.variants := ⟨huok, hnd, kidIds_of_valid wv.forest hnd, htop⟩
  have e5 : Legacy.deTopsL { headerTyped := false, release := Legacy.Sel.v03, tree00 := false, variants00 := false, paths := Legacy.Sel.v03, addonFallback := false, variant := Legacy.Sel.v03, fixImages := false, fixStage2 := false, fixChecksums := false, media00 := false }
      ⟨t.release.name, t.release.short, t.release.version, tree.arch⟩ d' = .ok tops := by
    rw [htops]
    exact deTopsL_old _ rfl rfl rfl _ (by rw [htree]; rfl) O hck F CH SR V
      (hfix sTree (by decide) (by decide) (by decide) (by decide)) (by rw [← hd']; simp)
      (tops_nonempty w.hkey w.hchosen) hv.forest hv.tops
  unfold Legacy.deserialize
  simp only [hh, hvt, hS, bind, Except.bind, pure, Except.pure, e2, e4, e5, e6, e7, e8, e9, hu]
  rw [hx]
  cases hl : t.isLayered with
  | false => rw [hl] at e3; simp only [pure, Except.pure] at e3; cases e3; simp
  | true =>
    rw [hl] at e3
    simp only [if_true] at e3 ⊢
    cases hbb : deBase d' with
    | error e => rw [hbb] at e3; cases e3
    | ok p => rw [hbb] at e3; cases e3; simp [Except.map]
end PM.TI
