import ProductMD.Proofs.RegexBasic
/-!
# Adequacy of the backtracking matcher

`Den r s t` — "some prefix of `s` is matched by `r` and `t` is what is left" — is the declarative reading of
the list-of-successes matcher `m` of `Model/Regex.lean`:

* `den_sound`    : every operational result is a denotational match (any fuel);
* `den_complete` : every denotational match is found once the fuel is at least `|s|`;
* `m_adequate`   : `t ∈ m |s| r s ↔ Den r s t`;
* `pyMatches_iff`: `pyMatches r s = true ↔ ∃ t, Den r s t`  (`re.match(p, s) is not None`).

`Den` mirrors the engine, not a textbook semantics: `$` holds at the end *or before a final line feed*, `^` is
only meaningful in leading position of a `match` (it is the empty match, as in `m`), an iteration of a star must
consume input (CPython's guard), groups are transparent, `Re.bad` matches nothing.

Reusable language lemmas for the shapes the library's patterns are made of: a star / plus over a character class
(`den_star_cls`, `den_plus_cls`), a literal-led segment `c k+` and a star of such segments (`den_star_seg`).
Core Lean only.
-/
namespace PM

inductive Den : Re → Str → Str → Prop where
  | eps (s) : Den .eps s s
  | bol (s) : Den .bol s s
  | eol (s) : isEol s = true → Den .eol s s
  | cls (k c s) : k.mem c = true → Den (.cls k) (c :: s) s
  | cat {a b s t u} : Den a s t → Den b t u → Den (.cat a b) s u
  | altL {a b s t} : Den a s t → Den (.alt a b) s t
  | altR {a b s t} : Den b s t → Den (.alt a b) s t
  | star0 (a s) : Den (.star a) s s
  | starS {a s t u} : Den a s t → t.length < s.length → Den (.star a) t u → Den (.star a) s u
  | grp {n a s t} : Den a s t → Den (.grp n a) s t

/-- soundness of the iteration, for any body that is sound -/
theorem starAux_sound {a : Re} (body : Str → List Str) (hb : ∀ s t, t ∈ body s → Den a s t) :
    ∀ (n : Nat) (s t : Str), t ∈ starAux body n s → Den (.star a) s t := by
  intro n
  induction n with
  | zero => intro s t h; simp at h; subst h; exact .star0 _ _
  | succ n ih =>
    intro s t h
    rw [starAux_succ] at h
    rcases List.mem_append.mp h with h | h
    · obtain ⟨u, hu, ht⟩ := List.mem_flatMap.mp h
      obtain ⟨hu1, hu2⟩ := List.mem_filter.mp hu
      exact .starS (hb s u hu1) (by simpa using hu2) (ih u t ht)
    · simp at h; subst h; exact .star0 _ _

/-- soundness: every operational result is a denotational match -/
theorem den_sound : ∀ (r : Re) (f : Nat) (s t : Str), t ∈ m f r s → Den r s t := by
  intro r
  induction r with
  | eps => intro f s t h; simp at h; subst h; exact .eps _
  | bol => intro f s t h; simp at h; subst h; exact .bol _
  | bad => intro f s t h; simp at h
  | eol =>
    intro f s t h; rw [m_eol] at h
    split at h
    · simp at h; subst h; exact .eol _ ‹_›
    · simp at h
  | cls k =>
    intro f s t h
    cases s with
    | nil => simp [m_cls_nil] at h
    | cons c cs =>
      rw [m_cls_cons] at h
      split at h
      · simp at h; subst h; exact .cls k c _ ‹_›
      · simp at h
  | cat a b iha ihb =>
    intro f s t h; rw [m_cat] at h
    obtain ⟨u, hu, ht⟩ := List.mem_flatMap.mp h
    exact .cat (iha f s u hu) (ihb f u t ht)
  | alt a b iha ihb =>
    intro f s t h; rw [m_alt] at h
    rcases List.mem_append.mp h with h | h
    · exact .altL (iha f s t h)
    · exact .altR (ihb f s t h)
  | grp n a iha => intro f s t h; simp at h; exact .grp (iha f s t h)
  | star a iha =>
    intro f s t h
    rw [m_star] at h
    exact starAux_sound (m f a) (iha f) f s t h

/-- results never get longer -/
theorem den_len : ∀ {r s t}, Den r s t → t.length ≤ s.length := by
  intro r s t h
  induction h with
  | eps | bol | eol | star0 => exact Nat.le_refl _
  | cls => simp
  | cat _ _ ih1 ih2 => exact Nat.le_trans ih2 ih1
  | altL _ ih => exact ih
  | altR _ ih => exact ih
  | grp _ ih => exact ih
  | starS _ hl _ _ ih2 => omega

/-- what is left is a suffix of the input -/
theorem den_suffix : ∀ {r s t}, Den r s t → ∃ w, s = w ++ t := by
  intro r s t h
  induction h with
  | eps | bol | eol | star0 => exact ⟨[], rfl⟩
  | cls k c s => exact ⟨[c], rfl⟩
  | cat _ _ ih1 ih2 =>
    obtain ⟨w1, rfl⟩ := ih1; obtain ⟨w2, rfl⟩ := ih2
    exact ⟨w1 ++ w2, by simp⟩
  | altL _ ih => exact ih
  | altR _ ih => exact ih
  | grp _ ih => exact ih
  | starS _ _ _ ih1 ih2 =>
    obtain ⟨w1, rfl⟩ := ih1; obtain ⟨w2, rfl⟩ := ih2
    exact ⟨w1 ++ w2, by simp⟩

/-- completeness with enough fuel (the second conjunct decouples the iteration fuel from the body fuel) -/
theorem den_complete_aux : ∀ {r s t}, Den r s t → ∀ f, s.length ≤ f →
    t ∈ m f r s ∧ ∀ a, r = .star a → ∀ n, s.length ≤ n → t ∈ starAux (m f a) n s := by
  intro r s t h
  induction h with
  | eps s => intro f _; exact ⟨by simp, by intro a h; cases h⟩
  | bol s => intro f _; exact ⟨by simp, by intro a h; cases h⟩
  | eol s h => intro f _; exact ⟨by rw [m_eol]; simp [h], by intro a h; cases h⟩
  | cls k c s hk => intro f _; exact ⟨by rw [m_cls_cons]; simp [hk], by intro a h; cases h⟩
  | cat h1 _ ih1 ih2 =>
    intro f hf
    refine ⟨?_, by intro a h; cases h⟩
    rw [m_cat]
    exact List.mem_flatMap.mpr ⟨_, (ih1 f hf).1, (ih2 f (Nat.le_trans (den_len h1) hf)).1⟩
  | altL _ ih =>
    intro f hf
    exact ⟨by rw [m_alt]; exact List.mem_append.mpr (.inl (ih f hf).1), by intro a h; cases h⟩
  | altR _ ih =>
    intro f hf
    exact ⟨by rw [m_alt]; exact List.mem_append.mpr (.inr (ih f hf).1), by intro a h; cases h⟩
  | grp _ ih =>
    intro f hf
    exact ⟨by simp; exact (ih f hf).1, by intro a h; cases h⟩
  | star0 a s =>
    intro f _
    have key : ∀ n, s ∈ starAux (m f a) n s := by
      intro n; cases n with
      | zero => simp
      | succ n => rw [starAux_succ]; simp
    exact ⟨by rw [m_star]; exact key f, by intro a' h; cases h; exact fun n _ => key n⟩
  | @starS a s t u h1 hl h2 ih1 ih2 =>
    intro f hf
    have key : ∀ n, s.length ≤ n → u ∈ starAux (m f a) n s := by
      intro n hn
      cases n with
      | zero => omega
      | succ n =>
        rw [starAux_succ]
        refine List.mem_append.mpr (.inl (List.mem_flatMap.mpr ⟨t, ?_, ?_⟩))
        · exact List.mem_filter.mpr ⟨(ih1 f hf).1, by simpa using hl⟩
        · exact (ih2 f (by omega)).2 a rfl n (by omega)
    exact ⟨by rw [m_star]; exact key f hf, by intro a' h; cases h; exact key⟩

theorem den_complete {r s t} (h : Den r s t) (f : Nat) (hf : s.length ≤ f) : t ∈ m f r s :=
  (den_complete_aux h f hf).1

/-- adequacy of the matcher at the fuel `pyMatches` uses -/
theorem m_adequate (r : Re) (s t : Str) : t ∈ m s.length r s ↔ Den r s t :=
  ⟨den_sound r _ s t, fun h => den_complete h _ (Nat.le_refl _)⟩

/-- the matcher does not depend on the fuel once it is at least `|s|` (as a set of results) -/
theorem m_fuel_irrelevant (r : Re) (s t : Str) (f : Nat) (hf : s.length ≤ f) : t ∈ m f r s ↔ Den r s t :=
  ⟨den_sound r _ s t, fun h => den_complete h _ hf⟩

/-- `re.match(p, s) is not None` -/
theorem pyMatches_iff (r : Re) (s : Str) : pyMatches r s = true ↔ ∃ t, Den r s t := by
  unfold pyMatches
  constructor
  · intro h
    cases hm : m s.length r s with
    | nil => simp [hm] at h
    | cons t ts => exact ⟨t, (m_adequate r s t).mp (by simp [hm])⟩
  · rintro ⟨t, ht⟩
    have := (m_adequate r s t).mpr ht
    cases hm : m s.length r s with
    | nil => simp [hm] at this
    | cons _ _ => simp

theorem pyMatches_false_iff (r : Re) (s : Str) : pyMatches r s = false ↔ ¬ ∃ t, Den r s t := by
  rw [← pyMatches_iff]; simp

/-- groups are transparent for acceptance -/
theorem pyMatches_strip (r : Re) (s : Str) : pyMatches r.strip s = pyMatches r s := by
  unfold pyMatches; rw [m_strip]

/-! ### inversion lemmas (one per constructor) -/
theorem den_eps_iff {s t} : Den .eps s t ↔ t = s := ⟨fun h => (by cases h; rfl), fun h => h ▸ .eps _⟩
theorem den_bol_iff {s t} : Den .bol s t ↔ t = s := ⟨fun h => (by cases h; rfl), fun h => h ▸ .bol _⟩
theorem den_eol_iff {s t} : Den .eol s t ↔ t = s ∧ (s = [] ∨ s = ['\n']) := by
  constructor
  · intro h; cases h with | eol _ he => exact ⟨rfl, by simpa [isEol] using he⟩
  · rintro ⟨rfl, h⟩; exact .eol _ (by simpa [isEol] using h)
theorem den_cls_iff {k s t} : Den (.cls k) s t ↔ ∃ c, k.mem c = true ∧ s = c :: t :=
  ⟨fun h => (by cases h with | cls _ c _ hc => exact ⟨c, hc, rfl⟩), fun ⟨c, hc, e⟩ => e ▸ .cls k c t hc⟩
theorem den_cat_iff {a b s u} : Den (.cat a b) s u ↔ ∃ t, Den a s t ∧ Den b t u :=
  ⟨fun h => (by cases h with | cat h1 h2 => exact ⟨_, h1, h2⟩), fun ⟨_, h1, h2⟩ => .cat h1 h2⟩
theorem den_alt_iff {a b s t} : Den (.alt a b) s t ↔ Den a s t ∨ Den b s t :=
  ⟨fun h => (by cases h with | altL h => exact .inl h | altR h => exact .inr h),
   fun h => h.elim .altL .altR⟩
theorem den_grp_iff {n a s t} : Den (.grp n a) s t ↔ Den a s t :=
  ⟨fun h => (by cases h with | grp h => exact h), .grp⟩
theorem den_bad_iff {s t} : Den .bad s t ↔ False := ⟨fun h => (by cases h), False.elim⟩

/-! ### languages of the recurring shapes -/

/-- every character of `w` is in the class -/
def Cls.All (k : Cls) (w : Str) : Prop := ∀ c ∈ w, k.mem c = true

theorem Cls.All_nil (k : Cls) : k.All [] := by intro c hc; cases hc
theorem Cls.All_cons {k : Cls} {c : Char} {w : Str} : k.All (c :: w) ↔ k.mem c = true ∧ k.All w := by
  simp [Cls.All]
theorem Cls.All_append {k : Cls} {v w : Str} : k.All (v ++ w) ↔ k.All v ∧ k.All w := by
  simp only [Cls.All, List.mem_append]
  exact ⟨fun h => ⟨fun c hc => h c (.inl hc), fun c hc => h c (.inr hc)⟩,
         fun h c hc => hc.elim (h.1 c) (h.2 c)⟩

/-- star over a class = any prefix made of class members -/
theorem den_star_cls (k : Cls) (s t : Str) :
    Den (.star (.cls k)) s t ↔ ∃ w, s = w ++ t ∧ k.All w := by
  constructor
  · intro h
    generalize hr : Re.star (.cls k) = r at h
    induction h with
    | eps | bol | eol | cls | cat | altL | altR | grp => cases hr
    | star0 a s => exact ⟨[], rfl, k.All_nil⟩
    | starS h1 hl _ _ ih2 =>
      cases hr
      cases h1 with
      | cls k c s hk =>
        obtain ⟨w, rfl, hw⟩ := ih2 rfl
        exact ⟨c :: w, rfl, Cls.All_cons.mpr ⟨hk, hw⟩⟩
  · rintro ⟨w, rfl, hw⟩
    induction w with
    | nil => exact .star0 _ _
    | cons c w ih =>
      have := Cls.All_cons.mp hw
      exact .starS (.cls k c _ this.1) (by simp) (ih this.2)

/-- `k+` (as the translator writes it: `k k*`) = a non-empty prefix made of class members -/
theorem den_plus_cls (k : Cls) (s t : Str) :
    Den (.cat (.cls k) (.star (.cls k))) s t ↔ ∃ g, g ≠ [] ∧ k.All g ∧ s = g ++ t := by
  constructor
  · intro h
    obtain ⟨u, h1, h2⟩ := den_cat_iff.mp h
    obtain ⟨c, hc, rfl⟩ := den_cls_iff.mp h1
    obtain ⟨w, rfl, hw⟩ := (den_star_cls k _ _).mp h2
    exact ⟨c :: w, by simp, Cls.All_cons.mpr ⟨hc, hw⟩, rfl⟩
  · rintro ⟨g, hg, hall, rfl⟩
    cases g with
    | nil => exact absurd rfl hg
    | cons c w =>
      have := Cls.All_cons.mp hall
      exact .cat (.cls k c _ this.1) ((den_star_cls k _ _).mpr ⟨w, rfl, this.2⟩)

/-- membership in a one-point class -/
theorem Cls.mem_lit (d c : Char) : (Cls.lit d).mem c = true ↔ c = d := by
  constructor
  · intro h
    have h1 : c.toNat = d.toNat := by
      simp [Cls.lit, Cls.mem] at h; omega
    have h2 := congrArg Char.ofNat h1
    simpa [Char.ofNat_toNat] using h2
  · rintro rfl; simp [Cls.lit, Cls.mem]

/-- a separator-led segment `d k+` -/
def Re.seg (d : Char) (k : Cls) : Re := .cat (Re.lit d) (.cat (.cls k) (.star (.cls k)))

theorem den_seg (d : Char) (k : Cls) (s t : Str) :
    Den (Re.seg d k) s t ↔ ∃ g, g ≠ [] ∧ k.All g ∧ s = d :: g ++ t := by
  constructor
  · intro h
    obtain ⟨u, h1, h2⟩ := den_cat_iff.mp h
    obtain ⟨c, hc, rfl⟩ := den_cls_iff.mp h1
    obtain ⟨g, hg, hall, rfl⟩ := (den_plus_cls k _ _).mp h2
    have := (Cls.mem_lit d c).mp hc
    subst this
    exact ⟨g, hg, hall, by simp⟩
  · rintro ⟨g, hg, hall, rfl⟩
    exact .cat (.cls _ d _ ((Cls.mem_lit d d).mpr rfl)) ((den_plus_cls k _ _).mpr ⟨g, hg, hall, by simp⟩)

/-- `d g₁ d g₂ …` -/
def segsStr (d : Char) : List Str → Str
  | [] => []
  | g :: gs => d :: g ++ segsStr d gs

/-- star of separator-led segments = any list of non-empty class runs, each led by the separator -/
theorem den_star_seg (d : Char) (k : Cls) (s t : Str) :
    Den (.star (Re.seg d k)) s t ↔
      ∃ gs : List Str, (∀ g ∈ gs, g ≠ [] ∧ k.All g) ∧ s = segsStr d gs ++ t := by
  constructor
  · intro h
    generalize hr : Re.star (Re.seg d k) = r at h
    induction h with
    | eps | bol | eol | cls | cat | altL | altR | grp => cases hr
    | star0 a s => exact ⟨[], by simp, rfl⟩
    | starS h1 hl _ _ ih2 =>
      cases hr
      obtain ⟨g, hg, hall, rfl⟩ := (den_seg d k _ _).mp h1
      obtain ⟨gs, hgs, rfl⟩ := ih2 rfl
      refine ⟨g :: gs, ?_, by simp [segsStr, List.append_assoc]⟩
      intro x hx
      cases hx with
      | head => exact ⟨hg, hall⟩
      | tail _ h => exact hgs x h
  · rintro ⟨gs, hgs, rfl⟩
    induction gs with
    | nil => exact .star0 _ _
    | cons g gs ih =>
      have hg := hgs g (by simp)
      refine .starS (t := segsStr d gs ++ t)
        ((den_seg d k _ _).mpr ⟨g, hg.1, hg.2, by simp [segsStr, List.append_assoc]⟩) ?_ (ih ?_)
      · simp [segsStr]; omega
      · intro x hx; exact hgs x (by simp [hx])

end PM
