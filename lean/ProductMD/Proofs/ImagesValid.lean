import ProductMD.Spec.Images
/-!
Facts extracted from `Image.validate() = ok` through the generated rule list (`Gen.rules_images_Image`): each is
obtained from the presence of the corresponding rule in the list, so deleting or weakening a validator in the
source makes the lemma (and what depends on it) fail to build.
-/
namespace PM.Img
open PM PM.PyOps
set_option Elab.async false

theorem validate_unfold (i : Image) : i.validate = runRules customs i.toObj Gen.rules_images_Image.flat := by
  rfl

macro "find_mem" : tactic => `(tactic| repeat (first | exact List.Mem.head _ | apply List.Mem.tail))

theorem rule_unified_mem : Rule.type ['u','n','i','f','i','e','d'] [.bool] ∈ Gen.rules_images_Image.flat := by
  simp only [Gen.rules_images_Image, MethodRules.flat, List.flatMap_cons, List.flatMap_nil, List.cons_append, List.nil_append, List.append_nil]
  find_mem

theorem rule_merges_mem : Rule.failIf (.and (.truthy ['a','d','d','i','t','i','o','n','a','l','_','v','a','r','i','a','n','t','s']) (.not (.truthy ['u','n','i','f','i','e','d']))) ∈ Gen.rules_images_Image.flat := by
  simp only [Gen.rules_images_Image, MethodRules.flat, List.flatMap_cons, List.flatMap_nil, List.cons_append, List.nil_append, List.append_nil]
  find_mem

theorem valid_unified (i : Image) (h : i.validate = .ok ()) : ∃ b, i.unified = .bool b := by
  rw [validate_unfold] at h
  have h1 := (runRules_ok_iff _ _ _).mp h _ rule_unified_mem
  cases i with
  | mk path mtime size volume_id type format arch disc_number disc_count checksums implant_md5 bootable subvariant unified additional_variants =>
    cases unified with
    | bool b => exact ⟨b, rfl⟩
    | _ => exact absurd h1 (by intro h; cases h)

theorem failIf_and_truthy_not (o : Obj) (f g : Str)
    (h : Rule.check customs o (.failIf (.and (.truthy f) (.not (.truthy g)))) = .ok ()) :
    ((o.get f).truthy && !(o.get g).truthy) = false := by
  cases hc : ((o.get f).truthy && !(o.get g).truthy)
  · rfl
  · exfalso
    have : Rule.check customs o (.failIf (.and (.truthy f) (.not (.truthy g)))) = .error .valueError := by
      simp [Rule.check, Cond.wellTyped, Cond.eval, hc]
    rw [this] at h; cases h

theorem rule_bootable_mem : Rule.type ['b','o','o','t','a','b','l','e'] [.bool] ∈ Gen.rules_images_Image.flat := by
  simp only [Gen.rules_images_Image, MethodRules.flat, List.flatMap_cons, List.flatMap_nil, List.cons_append, List.nil_append, List.append_nil]
  find_mem

theorem rule_av_mem : Rule.type ['a','d','d','i','t','i','o','n','a','l','_','v','a','r','i','a','n','t','s'] [.list] ∈ Gen.rules_images_Image.flat := by
  simp only [Gen.rules_images_Image, MethodRules.flat, List.flatMap_cons, List.flatMap_nil, List.cons_append, List.nil_append, List.append_nil]
  find_mem

theorem rule_path_mem : Rule.type ['p','a','t','h'] [.str] ∈ Gen.rules_images_Image.flat := by
  simp only [Gen.rules_images_Image, MethodRules.flat, List.flatMap_cons, List.flatMap_nil, List.cons_append, List.nil_append, List.append_nil]
  find_mem

theorem valid_bootable (i : Image) (h : i.validate = .ok ()) : ∃ b, i.bootable = .bool b := by
  rw [validate_unfold] at h
  have h1 := (runRules_ok_iff _ _ _).mp h _ rule_bootable_mem
  cases i with
  | mk path mtime size volume_id type format arch disc_number disc_count checksums implant_md5 bootable subvariant unified additional_variants =>
    cases bootable with
    | bool b => exact ⟨b, rfl⟩
    | _ => exact absurd h1 (by intro h; cases h)

theorem valid_av (i : Image) (h : i.validate = .ok ()) : ∃ l, i.additional_variants = .list l := by
  rw [validate_unfold] at h
  have h1 := (runRules_ok_iff _ _ _).mp h _ rule_av_mem
  cases i with
  | mk path mtime size volume_id type format arch disc_number disc_count checksums implant_md5 bootable subvariant unified additional_variants =>
    cases additional_variants with
    | list l => exact ⟨l, rfl⟩
    | _ => exact absurd h1 (by intro h; cases h)

theorem valid_path (i : Image) (h : i.validate = .ok ()) : ∃ p, i.path = .str p := by
  rw [validate_unfold] at h
  have h1 := (runRules_ok_iff _ _ _).mp h _ rule_path_mem
  cases i with
  | mk path mtime size volume_id type format arch disc_number disc_count checksums implant_md5 bootable subvariant unified additional_variants =>
    cases path with
    | str p => exact ⟨p, rfl⟩
    | _ => exact absurd h1 (by intro h; cases h)

/-! ### the four integer attributes (F22 repair)

`_assert_type` accepts a bool only where `bool` is listed (`Gen.assertTypeBoolStrict`, translated from the body of the
method), so a validated image holds ints - not bools - in `mtime`, `size`, `disc_number`, `disc_count`: what used to be
the hypothesis `ProperInts` of the C02 theorems now follows from `validate = ok`.  With the bare isinstance loop
(flag `false`) these four lemmas do not check. -/

theorem rule_mtime_mem : Rule.type ['m','t','i','m','e'] [.int] ∈ Gen.rules_images_Image.flat := by
  simp only [Gen.rules_images_Image, MethodRules.flat, List.flatMap_cons, List.flatMap_nil, List.cons_append, List.nil_append, List.append_nil]
  find_mem

theorem rule_size_mem : Rule.type ['s','i','z','e'] [.int] ∈ Gen.rules_images_Image.flat := by
  simp only [Gen.rules_images_Image, MethodRules.flat, List.flatMap_cons, List.flatMap_nil, List.cons_append, List.nil_append, List.append_nil]
  find_mem

theorem rule_disc_number_mem : Rule.type ['d','i','s','c','_','n','u','m','b','e','r'] [.int] ∈ Gen.rules_images_Image.flat := by
  simp only [Gen.rules_images_Image, MethodRules.flat, List.flatMap_cons, List.flatMap_nil, List.cons_append, List.nil_append, List.append_nil]
  find_mem

theorem rule_disc_count_mem : Rule.type ['d','i','s','c','_','c','o','u','n','t'] [.int] ∈ Gen.rules_images_Image.flat := by
  simp only [Gen.rules_images_Image, MethodRules.flat, List.flatMap_cons, List.flatMap_nil, List.cons_append, List.nil_append, List.append_nil]
  find_mem

/-- a passed `_assert_type(f, [int])` under the strict shape: the value is an int proper -/
theorem type_int_strict (o : Obj) (f : Str) (h : Rule.check customs o (.type f [.int]) = .ok ()) : ∃ n, o.get f = .int n := by
  have h1 := Rule.check_type_ok h
  cases hv : o.get f with
  | int n => exact ⟨n, rfl⟩
  | _ => rw [hv] at h1; cases h1

theorem valid_mtime (i : Image) (h : i.validate = .ok ()) : ∃ n, i.mtime = .int n := by
  rw [validate_unfold] at h
  have h1 := type_int_strict _ _ ((runRules_ok_iff _ _ _).mp h _ rule_mtime_mem)
  cases i; exact h1

theorem valid_size (i : Image) (h : i.validate = .ok ()) : ∃ n, i.size = .int n := by
  rw [validate_unfold] at h
  have h1 := type_int_strict _ _ ((runRules_ok_iff _ _ _).mp h _ rule_size_mem)
  cases i; exact h1

theorem valid_disc_number (i : Image) (h : i.validate = .ok ()) : ∃ n, i.disc_number = .int n := by
  rw [validate_unfold] at h
  have h1 := type_int_strict _ _ ((runRules_ok_iff _ _ _).mp h _ rule_disc_number_mem)
  cases i; exact h1

theorem valid_disc_count (i : Image) (h : i.validate = .ok ()) : ∃ n, i.disc_count = .int n := by
  rw [validate_unfold] at h
  have h1 := type_int_strict _ _ ((runRules_ok_iff _ _ _).mp h _ rule_disc_count_mem)
  cases i; exact h1

/-- **`ProperInts` follows from validation** (F22 repaired) -/
theorem valid_properInts (i : Image) (h : i.validate = .ok ()) : Spec.ProperInts i :=
  ⟨valid_mtime i h, valid_size i h, valid_disc_number i h, valid_disc_count i h⟩

theorem valid_merges (i : Image) (h : i.validate = .ok ()) :
    (i.additional_variants.truthy && !i.unified.truthy) = false := by
  rw [validate_unfold] at h
  have h1 := failIf_and_truthy_not _ _ _ ((runRules_ok_iff _ _ _).mp h _ rule_merges_mem)
  cases i
  exact h1

theorem identity_obj_dict (i : Image) (h : i.validate = .ok ()) : identifyObj i = identifyDict i.dict := by
  obtain ⟨b, hb⟩ := valid_unified i h
  have hm := valid_merges i h
  cases i with
  | mk path mtime size volume_id type format arch disc_number disc_count checksums implant_md5 bootable subvariant unified additional_variants =>
    simp only at hb hm
    subst hb
    cases b with
    | true => rfl
    | false =>
      change (additional_variants.truthy && !false) = false at hm
      simp only [Bool.not_false, Bool.and_true] at hm
      show [subvariant, type, format, arch, disc_number, pyOr (.bool false) (.bool false), pyOr additional_variants (.list [])] =
           [subvariant, type, format, arch, disc_number, pyOr .none (.bool false), pyOr .none (.list [])]
      simp only [pyOr, hm]
      rfl

end PM.Img
