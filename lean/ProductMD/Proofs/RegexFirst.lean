import ProductMD.Proofs.RegexBasic
/-!
First success of the backtracking matcher (`pyMatch` = head of the list of successes of `mc`).

* `mc_fst`: captures do not change the search (`mc` projected to suffixes is `m`);
* `m_suffix`, `Re.requires`: cheap failure arguments (a pattern that must consume `d` fails on input without `d`);
* `star_decomp`: the successes of a greedy class-star on `u ++ t` (`u` inside the class) list every split
  point to the right of `t` first, then `t`;
* `first_star_cat` / `first_grpstar_cat`: the first success of `star(cls) · b` is `b`'s first success at the
  **longest class-prefix after which `b` matches**;
* optional groups: "present" is tried first (`mc_opt_cat`).
Core Lean only.
-/
namespace PM.First
open PM

/-! ### unfolding lemmas for `mc` -/
@[simp] theorem mc_eps (f s c) : mc f .eps s c = [(s, c)] := rfl
@[simp] theorem mc_bol (f s c) : mc f .bol s c = [(s, c)] := rfl
theorem mc_eol (f s c) : mc f .eol s c = if isEol s then [(s, c)] else [] := rfl
@[simp] theorem mc_bad (f s c) : mc f .bad s c = [] := rfl
@[simp] theorem mc_cls_nil (f k c) : mc f (.cls k) [] c = [] := rfl
theorem mc_cls_cons (f k x xs c) : mc f (.cls k) (x :: xs) c = if k.mem x then [(xs, c)] else [] := rfl
theorem mc_cat (f a b s c) : mc f (.cat a b) s c = (mc f a s c).flatMap (fun p => mc f b p.1 p.2) := rfl
theorem mc_alt (f a b s c) : mc f (.alt a b) s c = mc f a s c ++ mc f b s c := rfl
theorem mc_star (f a s c) : mc f (.star a) s c = starAuxC (mc f a) f s c := rfl
theorem mc_grp (f n a s c) : mc f (.grp n a) s c =
    (mc f a s c).map (fun p => (p.1, (n, s.take (s.length - p.1.length)) :: p.2)) := rfl
@[simp] theorem starAuxC_zero (body s c) : starAuxC body 0 s c = [(s, c)] := rfl
theorem starAuxC_succ (body f s c) : starAuxC body (f+1) s c =
    ((body s c).filter (fun p => p.1.length < s.length)).flatMap (fun p => starAuxC body f p.1 p.2) ++ [(s, c)] := rfl

/-! ### captures do not change the search -/
theorem starAuxC_fst (bodyC : Str → Caps → List (Str × Caps)) (body : Str → List Str)
    (h : ∀ s c, (bodyC s c).map Prod.fst = body s) :
    ∀ (n : Nat) (s : Str) (c : Caps), (starAuxC bodyC n s c).map Prod.fst = starAux body n s := by
  intro n
  induction n with
  | zero => intro s c; rfl
  | succ n ih =>
    intro s c
    rw [starAuxC_succ, starAux_succ, List.map_append, List.map_flatMap]
    congr 1
    rw [← h s c, List.filter_map, List.flatMap_map]
    congr 1
    funext p
    exact ih p.1 p.2

theorem mc_fst : ∀ (r : Re) (f : Nat) (s : Str) (c : Caps), (mc f r s c).map Prod.fst = m f r s := by
  intro r
  induction r with
  | eps | bol | bad => intro f s c; rfl
  | eol => intro f s c; rw [mc_eol, m_eol]; split <;> rfl
  | cls k =>
    intro f s c
    cases s with
    | nil => rfl
    | cons x xs => rw [mc_cls_cons, m_cls_cons]; split <;> rfl
  | cat a b iha ihb =>
    intro f s c
    rw [mc_cat, m_cat, List.map_flatMap, ← iha f s c, List.flatMap_map]
    congr 1
    funext p
    exact ihb f p.1 p.2
  | alt a b iha ihb => intro f s c; rw [mc_alt, m_alt, List.map_append, iha, ihb]
  | star a iha => intro f s c; rw [mc_star, m_star]; exact starAuxC_fst _ _ (iha f) f s c
  | grp n a iha => intro f s c; rw [mc_grp, m_grp, List.map_map, ← iha f s c]; rfl

theorem mc_eq_nil_of_m {f r s} (c : Caps) (h : m f r s = []) : mc f r s c = [] := by
  have := mc_fst r f s c
  rw [h] at this
  exact List.map_eq_nil_iff.mp this

theorem m_ne_nil_of_mc {f r s c p} (h : p ∈ mc f r s c) : p.1 ∈ m f r s := by
  rw [← mc_fst r f s c]; exact List.mem_map_of_mem h

/-! ### results are suffixes of the input -/
theorem starAux_suffix (body : Str → List Str) (hb : ∀ s t, t ∈ body s → t <:+ s) :
    ∀ (n : Nat) (s t : Str), t ∈ starAux body n s → t <:+ s := by
  intro n
  induction n with
  | zero => intro s t h; simp at h; subst h; exact List.suffix_refl _
  | succ n ih =>
    intro s t h
    rw [starAux_succ] at h
    rcases List.mem_append.mp h with h | h
    · rcases List.mem_flatMap.mp h with ⟨u, hu, ht⟩
      exact (ih u t ht).trans (hb s u (List.mem_filter.mp hu).1)
    · simp at h; subst h; exact List.suffix_refl _

theorem m_suffix : ∀ (r : Re) (f : Nat) (s t : Str), t ∈ m f r s → t <:+ s := by
  intro r
  induction r with
  | eps | bol => intro f s t h; simp at h; subst h; exact List.suffix_refl _
  | eol => intro f s t h; rw [m_eol] at h; split at h <;> simp at h; subst h; exact List.suffix_refl _
  | bad => intro f s t h; simp at h
  | cls k =>
    intro f s t h
    cases s with
    | nil => simp at h
    | cons x xs =>
      rw [m_cls_cons] at h
      split at h <;> simp at h
      subst h; exact List.suffix_cons _ _
  | cat a b iha ihb =>
    intro f s t h
    rw [m_cat] at h
    rcases List.mem_flatMap.mp h with ⟨u, hu, ht⟩
    exact (ihb f u t ht).trans (iha f s u hu)
  | alt a b iha ihb =>
    intro f s t h
    rw [m_alt] at h
    rcases List.mem_append.mp h with h | h
    · exact iha f s t h
    · exact ihb f s t h
  | grp n a iha => intro f s t h; simp at h; exact iha f s t h
  | star a iha => intro f s t h; rw [m_star] at h; exact starAux_suffix _ (iha f) f s t h

/-! ### patterns that must consume a given character -/
/-- every match of `r` consumes at least one `d` (syntactic, sufficient) -/
def _root_.PM.Re.requires (d : Char) : Re → Bool
  | .cls k => decide (k = Cls.lit d)
  | .cat a b => a.requires d || b.requires d
  | .alt a b => a.requires d && b.requires d
  | .grp _ a => a.requires d
  | _ => false

theorem lit_mem {d x : Char} (h : (Cls.lit d).mem x = true) : x = d := by
  simp [Cls.lit, Cls.mem] at h
  exact Char.toNat_inj.mp (by omega)

theorem m_requires_nil (d : Char) : ∀ (r : Re) (f : Nat) (s : Str), r.requires d = true → d ∉ s → m f r s = [] := by
  intro r
  induction r with
  | eps | bol | eol | bad | star => intro f s h; simp [Re.requires] at h
  | cls k =>
    intro f s h hs
    simp [Re.requires] at h
    subst h
    cases s with
    | nil => rfl
    | cons x xs =>
      rw [m_cls_cons]
      split
      · rename_i hx
        exact absurd (lit_mem hx ▸ List.mem_cons_self) hs
      · rfl
  | cat a b iha ihb =>
    intro f s h hs
    rw [m_cat]
    simp only [Re.requires, Bool.or_eq_true] at h
    rcases h with h | h
    · rw [iha f s h hs]; rfl
    · apply List.flatMap_eq_nil_iff.mpr
      intro u hu
      exact ihb f u h (fun hd => hs ((m_suffix a f s u hu).subset hd))
  | alt a b iha ihb =>
    intro f s h hs
    simp only [Re.requires, Bool.and_eq_true] at h
    rw [m_alt, iha f s h.1 hs, ihb f s h.2 hs]; rfl
  | grp n a iha =>
    intro f s h hs
    simp only [Re.requires] at h
    rw [m_grp]; exact iha f s h hs

/-! ### a greedy star over one character class -/
theorem starAuxC_cls_nil (f k n c) : starAuxC (mc f (.cls k)) n [] c = [([], c)] := by
  cases n with
  | zero => rfl
  | succ n => rw [starAuxC_succ]; rfl

theorem starAuxC_cls_not (f k n x xs c) (h : k.mem x = false) :
    starAuxC (mc f (.cls k)) n (x :: xs) c = [(x :: xs, c)] := by
  cases n with
  | zero => rfl
  | succ n => rw [starAuxC_succ, mc_cls_cons, h]; rfl

theorem starAuxC_cls_mem (f k n x xs c) (h : k.mem x = true) :
    starAuxC (mc f (.cls k)) (n+1) (x :: xs) c = starAuxC (mc f (.cls k)) n xs c ++ [(x :: xs, c)] := by
  rw [starAuxC_succ, mc_cls_cons, h]
  simp

/-- every success of the class-star leaves a suffix reached through class members only, captures untouched -/
theorem star_results (f k) : ∀ (n : Nat) (s : Str) (c : Caps) (p : Str × Caps),
    p ∈ starAuxC (mc f (.cls k)) n s c → p.2 = c ∧ ∃ w, s = w ++ p.1 ∧ ∀ x ∈ w, k.mem x = true := by
  intro n
  induction n with
  | zero => intro s c p h; simp at h; subst h; exact ⟨rfl, [], rfl, by simp⟩
  | succ n ih =>
    intro s c p h
    cases s with
    | nil => rw [starAuxC_cls_nil] at h; simp at h; subst h; exact ⟨rfl, [], rfl, by simp⟩
    | cons x xs =>
      cases hx : k.mem x with
      | false => rw [starAuxC_cls_not _ _ _ _ _ _ hx] at h; simp at h; subst h; exact ⟨rfl, [], rfl, by simp⟩
      | true =>
        rw [starAuxC_cls_mem _ _ _ _ _ _ hx] at h
        rcases List.mem_append.mp h with h | h
        · obtain ⟨h1, w, h2, h3⟩ := ih xs c p h
          refine ⟨h1, x :: w, by rw [h2]; rfl, ?_⟩
          intro y hy
          rcases List.mem_cons.mp hy with hy | hy
          · subst hy; exact hx
          · exact h3 y hy
        · simp at h; subst h; exact ⟨rfl, [], rfl, by simp⟩

/-- successes of the class-star on `u ++ t`, `u` inside the class: first the splits strictly to the right of `t`
(each a proper class-suffix of `t`), then `t` itself, then the shorter ones -/
theorem star_decomp (f k) : ∀ (u t : Str) (n : Nat) (c : Caps),
    (∀ x ∈ u, k.mem x = true) → (u ++ t).length ≤ n →
    ∃ L L2, starAuxC (mc f (.cls k)) n (u ++ t) c = L ++ (t, c) :: L2 ∧
      ∀ p ∈ L, p.2 = c ∧ ∃ w, w ≠ [] ∧ t = w ++ p.1 ∧ ∀ x ∈ w, k.mem x = true := by
  intro u
  induction u with
  | nil =>
    intro t n c _ hn
    simp only [List.nil_append] at hn ⊢
    cases t with
    | nil => exact ⟨[], [], by rw [starAuxC_cls_nil]; rfl, by simp⟩
    | cons x xs =>
      cases n with
      | zero => simp at hn
      | succ n =>
        cases hx : k.mem x with
        | false => exact ⟨[], [], by rw [starAuxC_cls_not _ _ _ _ _ _ hx]; rfl, by simp⟩
        | true =>
          refine ⟨starAuxC (mc f (.cls k)) n xs c, [], by rw [starAuxC_cls_mem _ _ _ _ _ _ hx], ?_⟩
          intro p hp
          obtain ⟨h1, w, h2, h3⟩ := star_results f k n xs c p hp
          refine ⟨h1, x :: w, by simp, by rw [h2]; rfl, ?_⟩
          intro y hy
          rcases List.mem_cons.mp hy with hy | hy
          · subst hy; exact hx
          · exact h3 y hy
  | cons y u ih =>
    intro t n c hu hn
    cases n with
    | zero => simp at hn
    | succ n =>
      have hy : k.mem y = true := hu y List.mem_cons_self
      have hn' : (u ++ t).length ≤ n := by simp at hn ⊢; omega
      obtain ⟨L, L2, h1, h2⟩ := ih t n c (fun x hx => hu x (List.mem_cons_of_mem _ hx)) hn'
      refine ⟨L, L2 ++ [(y :: (u ++ t), c)], ?_, h2⟩
      rw [List.cons_append, starAuxC_cls_mem _ _ _ _ _ _ hy, h1]
      simp

/-! ### list facts about the head of a `flatMap` -/
theorem head_flatMap_skip {α β} (g : α → List β) (L : List α) (x : α) (L2 : List α) (r : β)
    (hL : ∀ p ∈ L, g p = []) (hx : (g x).head? = some r) : ((L ++ x :: L2).flatMap g).head? = some r := by
  have : L.flatMap g = [] := List.flatMap_eq_nil_iff.mpr hL
  rw [List.flatMap_append, this, List.nil_append, List.flatMap_cons]
  cases hg : g x with
  | nil => rw [hg] at hx; simp at hx
  | cons a as => rw [hg] at hx; simpa using hx

theorem head_flatMap_head {α β} (g : α → List β) (l : List α) (x : α) (r : β)
    (hl : l.head? = some x) (hx : (g x).head? = some r) : (l.flatMap g).head? = some r := by
  cases l with
  | nil => simp at hl
  | cons a as =>
    simp at hl; subst hl
    exact head_flatMap_skip g [] a as r (by simp) hx

/-! ### first success of `star(cls) · b` -/
theorem first_star_cat (f : Nat) (k : Cls) (b : Re) (u t : Str) (c : Caps) (r : Str × Caps)
    (hu : ∀ x ∈ u, k.mem x = true) (hf : (u ++ t).length ≤ f)
    (hlater : ∀ w t', w ≠ [] → t = w ++ t' → (∀ x ∈ w, k.mem x = true) → m f b t' = [])
    (hres : (mc f b t c).head? = some r) :
    (mc f (.cat (.star (.cls k)) b) (u ++ t) c).head? = some r := by
  obtain ⟨L, L2, h1, h2⟩ := star_decomp f k u t f c hu hf
  rw [mc_cat, mc_star, h1]
  apply head_flatMap_skip _ L (t, c) L2 r _ hres
  intro p hp
  obtain ⟨hc, w, hw, ht, hk⟩ := h2 p hp
  exact mc_eq_nil_of_m _ (hlater w p.1 hw ht hk)

/-- the same with the star inside capture group `n`: the group holds the chosen prefix `u` -/
theorem first_grpstar_cat (f : Nat) (k : Cls) (n : Nat) (b : Re) (u t : Str) (c : Caps) (r : Str × Caps)
    (hu : ∀ x ∈ u, k.mem x = true) (hf : (u ++ t).length ≤ f)
    (hlater : ∀ w t', w ≠ [] → t = w ++ t' → (∀ x ∈ w, k.mem x = true) → m f b t' = [])
    (hres : (mc f b t ((n, u) :: c)).head? = some r) :
    (mc f (.cat (.grp n (.star (.cls k))) b) (u ++ t) c).head? = some r := by
  obtain ⟨L, L2, h1, h2⟩ := star_decomp f k u t f c hu hf
  rw [mc_cat, mc_grp, mc_star, h1, List.flatMap_map]
  apply head_flatMap_skip _ L (t, c) L2 r
  · intro p hp
    obtain ⟨hc, w, hw, ht, hk⟩ := h2 p hp
    exact mc_eq_nil_of_m _ (hlater w p.1 hw ht hk)
  · simpa using hres

/-- first success of a class-star alone when the rest does not start inside the class: it takes all of `u` -/
theorem star_head (f : Nat) (k : Cls) (u t : Str) (n : Nat) (c : Caps)
    (hu : ∀ x ∈ u, k.mem x = true) (hn : (u ++ t).length ≤ n)
    (ht : ∀ x t', t = x :: t' → k.mem x = false) :
    (starAuxC (mc f (.cls k)) n (u ++ t) c).head? = some (t, c) := by
  obtain ⟨L, L2, h1, h2⟩ := star_decomp f k u t n c hu hn
  have hL : L = [] := by
    apply List.eq_nil_iff_forall_not_mem.mpr
    intro p hp
    obtain ⟨_, w, hw, hwt, hk⟩ := h2 p hp
    cases w with
    | nil => exact hw rfl
    | cons x w' =>
      have := ht x (w' ++ p.1) (by rw [hwt]; rfl)
      rw [hk x List.mem_cons_self] at this
      cases this
  rw [h1, hL]; rfl

/-! ### single characters, anchors, optional parts -/
theorem mc_cls_cat_mem (f kd X d v c) (h : kd.mem d = true) :
    mc f (.cat (.cls kd) X) (d :: v) c = mc f X v c := by
  rw [mc_cat, mc_cls_cons, h]; simp

theorem m_cls_cat_nil (f kd X) : m f (.cat (.cls kd) X) [] = [] := by rw [m_cat]; rfl

theorem m_cls_cat_not (f kd X y t) (h : kd.mem y = false) : m f (.cat (.cls kd) X) (y :: t) = [] := by
  rw [m_cat, m_cls_cons, h]; rfl

theorem m_cls_cat_mem (f kd X y t) (h : kd.mem y = true) : m f (.cat (.cls kd) X) (y :: t) = m f X t := by
  rw [m_cat, m_cls_cons, h]; simp

theorem mc_bol_cat (f X s c) : mc f (.cat .bol X) s c = mc f X s c := by rw [mc_cat]; simp

/-- optional part followed by `b`: "present" first, then "absent" -/
theorem mc_opt_cat (f a b s c) :
    mc f (.cat (.alt a .eps) b) s c = (mc f a s c).flatMap (fun p => mc f b p.1 p.2) ++ mc f b s c := by
  rw [mc_cat, mc_alt, List.flatMap_append]; simp

theorem first_opt_absent (f a b s c) (h : m f a s = []) :
    (mc f (.cat (.alt a .eps) b) s c).head? = (mc f b s c).head? := by
  rw [mc_opt_cat, mc_eq_nil_of_m c h]; rfl

theorem first_opt_present (f a b s c p r) (hp : (mc f a s c).head? = some p)
    (hr : (mc f b p.1 p.2).head? = some r) :
    (mc f (.cat (.alt a .eps) b) s c).head? = some r := by
  rw [mc_opt_cat]
  have := head_flatMap_head (fun p => mc f b p.1 p.2) (mc f a s c) p r hp hr
  cases hl : (mc f a s c).flatMap (fun p => mc f b p.1 p.2) with
  | nil => rw [hl] at this; simp at this
  | cons x xs => rw [hl] at this; simpa using this

theorem first_cat_head (f a b s c p r) (hp : (mc f a s c).head? = some p)
    (hr : (mc f b p.1 p.2).head? = some r) : (mc f (.cat a b) s c).head? = some r := by
  rw [mc_cat]; exact head_flatMap_head _ _ p r hp hr

theorem first_grp (f n a s c p) (hp : (mc f a s c).head? = some p) :
    (mc f (.grp n a) s c).head? = some (p.1, (n, s.take (s.length - p.1.length)) :: p.2) := by
  rw [mc_grp, List.head?_map, hp]; rfl

/-- group around a match that consumed exactly `u` -/
theorem first_grp_eq (f n a s c) (u t : Str) (c' : Caps) (hs : s = u ++ t)
    (hp : (mc f a s c).head? = some (t, c')) :
    (mc f (.grp n a) s c).head? = some (t, (n, u) :: c') := by
  rw [mc_grp, List.head?_map, hp]; subst hs; simp

theorem mc_lit_cat (f d X v c) : mc f (.cat (Re.lit d) X) (d :: v) c = mc f X v c := by
  rw [Re.lit, mc_cat, mc_cls_cons]
  have : (Cls.lit d).mem d = true := by simp [Cls.lit, Cls.mem]
  rw [this]; simp

theorem mc_lit_self (f d v c) : mc f (Re.lit d) (d :: v) c = [(v, c)] := by
  rw [Re.lit, mc_cls_cons]
  have : (Cls.lit d).mem d = true := by simp [Cls.lit, Cls.mem]
  rw [this]; rfl

end PM.First
