import ProductMD.Proofs.CIFixpoint
/-!
C01: a written, well-keyed forest has pairwise different UIDs.

The writer files every variant under its UID and refuses a second, different entry (`putEntry`).  So in the resulting
dict `d` every variant's UID maps to its own entry, in particular to its own id.  "Climbing" from a UID `x` means
dropping the suffix `-<id stored under x>`; from a child's UID this yields the parent's UID.  Two variants in different
sibling subtrees with the same UID would climb to both siblings' UIDs, hence one sibling's UID would be reachable by
climbing from the other's — impossible below a common parent (lengths) and impossible at the top level (a top-level
UID without its dashes is the non-empty id; climbing from it leaves only dashes).
-/
namespace PM.CI
open PM

/-- one step up, as recorded in the written dict: drop `-<id>` where `<id>` is the id stored under `x` -/
def Up (d : Flat) (x y : Str) : Prop := ∃ e, lookup x d = some e ∧ x = y ++ '-' :: e.id

def Climb (d : Flat) : Nat → Str → Str → Prop
  | 0, x, y => x = y
  | j + 1, x, y => ∃ z, Up d x z ∧ Climb d j z y

theorem Up.det {d : Flat} {x y z : Str} (h1 : Up d x y) (h2 : Up d x z) : y = z := by
  obtain ⟨e1, hl1, he1⟩ := h1
  obtain ⟨e2, hl2, he2⟩ := h2
  rw [hl1] at hl2
  cases hl2
  rw [he1] at he2
  exact List.append_cancel_right he2

theorem Up.length {d : Flat} {x y : Str} (h : Up d x y) : y.length < x.length := by
  obtain ⟨e, _, he⟩ := h
  rw [he]; simp

theorem Up.prefix_dashes {d : Flat} {x y : Str} (h : Up d x y) (hx : Str.removeChar '-' x = []) : Str.removeChar '-' y = [] := by
  obtain ⟨e, _, he⟩ := h
  rw [he] at hx
  simp [Str.removeChar, List.filter_append] at hx ⊢
  exact hx.1

theorem Climb.length {d : Flat} : ∀ {j : Nat} {x y : Str}, Climb d j x y → y.length ≤ x.length
  | 0, _, _, h => by simp only [Climb] at h; rw [h]; exact Nat.le_refl _
  | j + 1, _, _, h => by
    obtain ⟨z, hu, hc⟩ := h
    have := hu.length
    have := Climb.length hc
    omega

theorem Climb.dashes {d : Flat} : ∀ {j : Nat} {x y : Str}, Climb d j x y → Str.removeChar '-' x = [] → Str.removeChar '-' y = []
  | 0, _, _, h, hx => by simp only [Climb] at h; rw [← h]; exact hx
  | j + 1, _, _, h, hx => by
    obtain ⟨z, hu, hc⟩ := h
    exact Climb.dashes hc (hu.prefix_dashes hx)

theorem Climb.snoc {d : Flat} : ∀ {j : Nat} {x y z : Str}, Climb d j x y → Up d y z → Climb d (j + 1) x z
  | 0, _, _, _, h, hu => by simp only [Climb] at h; subst h; exact ⟨_, hu, rfl⟩
  | j + 1, _, _, _, h, hu => by
    obtain ⟨w, hw, hc⟩ := h
    exact ⟨w, hw, Climb.snoc hc hu⟩

/-- climbing is deterministic: the shorter climb is an initial part of the longer one -/
theorem Climb.diff {d : Flat} : ∀ {i k : Nat} {x a b : Str}, Climb d i x a → Climb d (i + k) x b → Climb d k a b
  | 0, k, _, _, _, h1, h2 => by simp only [Climb] at h1; subst h1; simpa using h2
  | i + 1, k, _, _, _, h1, h2 => by
    obtain ⟨z, hz, hc⟩ := h1
    have : i + 1 + k = (i + k) + 1 := by omega
    rw [this] at h2
    obtain ⟨z', hz', hc'⟩ := h2
    have := hz.det hz'
    subst this
    exact Climb.diff hc hc'

/-! ### siblings -/
theorem nodup_map_of_inj {α β γ} (f : α → β) (g : α → γ) : ∀ {l : List α}, (l.map g).Nodup →
    (∀ a ∈ l, ∀ b ∈ l, f a = f b → g a = g b) → (l.map f).Nodup
  | [], _, _ => List.nodup_nil
  | a :: as, hn, h => by
    simp only [List.map_cons, List.nodup_cons] at hn ⊢
    refine ⟨?_, nodup_map_of_inj f g hn.2 (fun x hx y hy => h x (by simp [hx]) y (by simp [hy]))⟩
    intro hm
    obtain ⟨b, hb, hfb⟩ := List.mem_map.mp hm
    exact hn.1 (List.mem_map.mpr ⟨b, hb, h b (by simp [hb]) a (by simp) hfb⟩)

/-- sibling subtrees have disjoint UID sets, hence the whole list of UIDs has no duplicate -/
theorem siblings_nodup (d : Flat) : ∀ (vs : List Variant),
    (∀ v ∈ vs, (uids v).Nodup ∧ ∀ x ∈ uids v, ∃ j, Climb d j x v.uid) →
    (vs.map Variant.uid).Nodup →
    (∀ a ∈ vs, ∀ y, Up d a.uid y → ∀ j z, Climb d j y z → ∀ b ∈ vs, z ≠ b.uid) →
    (uidsL vs).Nodup
  | [], _, _, _ => by simp [uidsL]
  | v :: vs, hsub, hn, hdead => by
    simp only [List.map_cons, List.nodup_cons] at hn
    have ih := siblings_nodup d vs (fun w hw => hsub w (by simp [hw])) hn.2
      (fun a ha y hy j z hc b hb => hdead a (by simp [ha]) y hy j z hc b (by simp [hb]))
    simp only [uidsL]
    rw [List.nodup_append]
    refine ⟨(hsub v (by simp)).1, ih, ?_⟩
    intro x hxv y hyb hxy
    subst hxy
    obtain ⟨b, hb, hxb⟩ := mem_uidsL.mp hyb
    obtain ⟨ja, hja⟩ := (hsub v (by simp)).2 x hxv
    obtain ⟨jb, hjb⟩ := (hsub b (by simp [hb])).2 x hxb
    have hne : v.uid ≠ b.uid := fun h => hn.1 (List.mem_map.mpr ⟨b, hb, h.symm⟩)
    rcases Nat.le_total ja jb with hle | hle
    · obtain ⟨k, rfl⟩ := Nat.exists_eq_add_of_le hle
      have hc := Climb.diff hja hjb
      cases k with
      | zero => exact hne hc
      | succ k =>
        obtain ⟨y, hy, hc'⟩ := hc
        exact hdead v (by simp) y hy k _ hc' b (by simp [hb]) rfl
    · obtain ⟨k, rfl⟩ := Nat.exists_eq_add_of_le hle
      have hc := Climb.diff hjb hja
      cases k with
      | zero => exact hne hc.symm
      | succ k =>
        obtain ⟨y, hy, hc'⟩ := hc
        exact hdead b (by simp [hb]) y hy k _ hc' v (by simp) rfl

/-! ### what validity gives: a non-empty id (from the generated `_validate_id` patterns) -/
/-- the pattern lists the generated `Variant` rules apply to `id` -/
def variantIdPatterns : List (List Re) :=
  Gen.rules_composeinfo_Variant.flat.filterMap fun r =>
    match r with
    | .re f ps => if f = k%"id" then some ps else none
    | _ => none

/-- there is such a rule, and none of its pattern lists accepts the empty string -/
theorem variantId_rule : variantIdPatterns ≠ [] ∧ ∀ ps ∈ variantIdPatterns, ps.any (pyMatches · []) = false := by
  decide +kernel

theorem vok_id_nonempty (ctx : Ctx) (v : Variant)
    (h : validateClass "composeinfo.Variant" (variantObj ctx v) = .ok ()) : v.id ≠ [] := by
  obtain ⟨ps, hps⟩ := List.exists_mem_of_ne_nil _ variantId_rule.1
  have hfalse := variantId_rule.2 ps hps
  simp only [variantIdPatterns, List.mem_filterMap] at hps
  obtain ⟨r, hr, hrps⟩ := hps
  have hcheck := (validate_variant_iff _).mp h r hr
  cases v with
  | mk key id uid name type arches paths rel kids =>
  intro hid
  simp only [Variant.id] at hid
  subst hid
  cases r with
  | re f ps' =>
    simp only at hrps
    split at hrps
    · rename_i hf
      cases hrps
      subst hf
      simp [Rule.check, variantObj, Obj.get, hfalse] at hcheck
    · cases hrps
  | _ => simp at hrps

theorem entryOf_id (v : Variant) : (entryOf v).id = v.id := by cases v; rfl

theorem removeChar_idem (c : Char) (s : Str) : Str.removeChar c (Str.removeChar c s) = Str.removeChar c s := by
  simp [Str.removeChar, List.filter_filter]

/-! ### subtrees -/
theorem up_child {d : Flat} {P : Str} {k : Variant} (hal : k.uid = P ++ '-' :: k.id) (hl : lookup k.uid d = some (entryOf k)) :
    Up d k.uid P := ⟨entryOf k, hl, by rw [entryOf_id]; exact hal⟩

mutual
theorem uids_climb (d : Flat) : ∀ (v : Variant) (ctx : Ctx), Good ctx v → wellKeyed v = true →
    (∀ p ∈ flat v, lookup p.1 d = some p.2) → (uids v).Nodup ∧ ∀ x ∈ uids v, ∃ j, Climb d j x v.uid
  | .mk key id uid name type arches paths rel kids, ctx, hg, hk, hE => by
    have hg' := hg
    simp only [Good] at hg'
    have hk' := hk
    simp only [wellKeyed, Bool.and_eq_true, decide_eq_true_eq] at hk'
    have hEk : ∀ p ∈ flats kids, lookup p.1 d = some p.2 := fun p hp => hE p (by simp [flat, hp])
    have hkids := uidsL_climb d kids uid _ hg'.2.2.2 hk'.2 hEk
    have hal : ∀ k ∈ kids, k.uid = uid ++ '-' :: k.id := fun k hkm =>
      vok_aligned uid _ k (GoodL_mem hg'.2.2.2 k hkm).valid
    have hup : ∀ k ∈ kids, Up d k.uid uid := fun k hkm =>
      up_child (hal k hkm) (hEk _ (flat_sub_flats k kids hkm _ (self_mem_flat k)))
    have hlen : ∀ k ∈ kids, uid.length < k.uid.length := fun k hkm => by rw [hal k hkm]; simp
    have hnk : (uidsL kids).Nodup := by
      apply siblings_nodup d kids hkids
      · apply nodup_map_of_inj Variant.uid Variant.id hk'.1
        intro a ha b hb hab
        rw [hal a ha, hal b hb] at hab
        have := List.append_cancel_left hab
        exact (List.cons.inj this).2
      · intro a ha y hy j z hc b hb hz
        have := hy.det (hup a ha)
        subst this
        have h1 := hc.length
        have h2 := hlen b hb
        rw [hz] at h1
        omega
    have hclimb : ∀ x ∈ uidsL kids, ∃ k ∈ kids, ∃ j, Climb d j x k.uid := by
      intro x hx
      obtain ⟨k, hkm, hxk⟩ := mem_uidsL.mp hx
      obtain ⟨j, hj⟩ := (hkids k hkm).2 x hxk
      exact ⟨k, hkm, j, hj⟩
    simp only [uids, Variant.uid, List.nodup_cons, List.mem_cons]
    refine ⟨⟨?_, hnk⟩, ?_⟩
    · intro hmem
      obtain ⟨k, hkm, j, hj⟩ := hclimb uid hmem
      have h1 := hj.length
      have h2 := hlen k hkm
      omega
    · intro x hx
      rcases hx with rfl | hx
      · exact ⟨0, rfl⟩
      · obtain ⟨k, hkm, j, hj⟩ := hclimb x hx
        exact ⟨j + 1, hj.snoc (hup k hkm)⟩
theorem uidsL_climb (d : Flat) : ∀ (vs : List Variant) (P : Str) (pa : List Str), GoodL (some (P, pa)) vs → wellKeyedL vs = true →
    (∀ p ∈ flats vs, lookup p.1 d = some p.2) → ∀ v ∈ vs, (uids v).Nodup ∧ ∀ x ∈ uids v, ∃ j, Climb d j x v.uid
  | [], _, _, _, _, _ => by intro v hv; cases hv
  | w :: ws, P, pa, hg, hk, hE => by
    simp only [GoodL] at hg
    simp only [wellKeyedL, Bool.and_eq_true, decide_eq_true_eq] at hk
    intro v hv
    rcases List.mem_cons.mp hv with h | h
    · rw [h]
      exact uids_climb d w _ hg.1 hk.1.2 (fun p hp => hE p (by simp [flats, hp]))
    · exact uidsL_climb d ws P pa hg.2 hk.2 (fun p hp => hE p (by simp [flats, hp])) v h
end

/-- a written, well-keyed forest has no UID twice -/
theorem top_nodup (d : Flat) (top : List Variant) (hids : (top.map Variant.id).Nodup)
    (hg : ∀ t ∈ top, Good none t) (hk : ∀ t ∈ top, wellKeyed t = true)
    (hE : ∀ t ∈ top, ∀ p ∈ flat t, lookup p.1 d = some p.2) : (uidsL top).Nodup := by
  have htopid : ∀ t ∈ top, Str.removeChar '-' t.uid = t.id := fun t ht => vok_top t (hg t ht).valid
  apply siblings_nodup d top (fun t ht => uids_climb d t none (hg t ht) (hk t ht) (hE t ht))
  · apply nodup_map_of_inj Variant.uid Variant.id hids
    intro a ha b hb hab
    rw [← htopid a ha, ← htopid b hb, hab]
  · intro a ha y hy j z hc b hb hz
    obtain ⟨e, hl, he⟩ := hy
    rw [hE a ha _ (self_mem_flat a)] at hl
    cases hl
    rw [entryOf_id] at he
    have h1 := htopid a ha
    have hidem : Str.removeChar '-' a.id = a.id := by rw [← h1]; exact removeChar_idem _ _
    rw [he] at h1
    have h2 : Str.removeChar '-' y ++ a.id = a.id := by
      have : Str.removeChar '-' (y ++ '-' :: a.id) = Str.removeChar '-' y ++ Str.removeChar '-' a.id := by
        simp [Str.removeChar, List.filter_append]
      rw [this, hidem] at h1
      exact h1
    have hy0 : Str.removeChar '-' y = [] := by
      have := congrArg List.length h2
      simp at this
      exact this
    have hz0 := hc.dashes hy0
    rw [hz, htopid b hb] at hz0
    exact vok_id_nonempty none b (hg b hb).valid hz0

/-- `Variants.serialize` succeeded on a well-keyed container: all UIDs differ -/
theorem variantsSer_distinct (top : List Variant) (d : Flat) (h : variantsSer top = .ok d) (hk : wellKeyedTop top = true) :
    (uidsL top).Nodup := by
  unfold variantsSer at h
  split at h
  · cases h
  · simp only [wellKeyedTop, Bool.and_eq_true, decide_eq_true_eq] at hk
    obtain ⟨hids, hkl⟩ := hk
    have hkeyid : ∀ t ∈ top, t.key = t.id := fun t ht => (wellKeyedL_mem hkl t ht).1
    have hkeys : (top.map Variant.key).Nodup := by rw [List.map_congr_left hkeyid]; exact hids
    obtain ⟨hgood, hs, _, hall, _⟩ := sers_spec (byKeys top) none [] d h (by simp [FSorted])
    apply top_nodup d top hids
    · exact fun t ht => GoodL_mem hgood t ((mem_byKeys hkeys).mpr ht)
    · exact fun t ht => (wellKeyedL_mem hkl t ht).2
    · intro t ht p hp
      obtain ⟨k, e⟩ := p
      exact lookup_of_mem hs.keys_nodup (hall _ (mem_flats.mpr ⟨t, (mem_byKeys hkeys).mpr ht, hp⟩))

theorem serialize_variantsSer {ci : ComposeInfo} {j : PyVal} (h : serialize ci = .ok j) : ∃ d, variantsSer ci.variants = .ok d := by
  unfold serialize at h
  split at h
  · cases h
  · split at h
    · cases h
    · split at h
      · cases h
      · split at h
        · cases h
        · split at h
          · cases h
          · rename_i d hV
            exact ⟨d, hV⟩

end PM.CI
