import ProductMD.Model.IniText
import ProductMD.Proofs.PermR
/-!
C08, the INI layer: `IniText.render` (what `SortedConfigParser.write` produces) is a function of the document modulo the
order of its sections and the order of the options inside each section; `Ini.sortS` / `Str.sortDedup` (the comma lists the
treeinfo writer builds from sets and dicts) are functions of the multiset / set of their elements.
-/
namespace PM
namespace Ini

variable {α : Type}

theorem insertBy_perm (key : α → Str) (x : α) (l : List α) : (insertBy key x l).Perm (x :: l) := by
  induction l with
  | nil => exact List.Perm.refl _
  | cons y ys ih =>
    unfold insertBy
    split
    · exact (List.Perm.cons y ih).trans (List.Perm.swap x y ys)
    · exact List.Perm.refl _

theorem sortBy_perm (key : α → Str) (l : List α) : (sortBy key l).Perm l := by
  induction l with
  | nil => exact List.Perm.refl _
  | cons x xs ih =>
    simp only [sortBy, List.foldr_cons]
    exact (insertBy_perm key x _).trans (List.Perm.cons x ih)

def KSorted (key : α → Str) (l : List α) : Prop := l.Pairwise (fun a b => key a ≤ key b)

theorem insertBy_sorted (key : α → Str) (x : α) (l : List α) (h : KSorted key l) : KSorted key (insertBy key x l) := by
  induction l with
  | nil => simp [insertBy, KSorted]
  | cons y ys ih =>
    unfold KSorted at h
    have hy := List.pairwise_cons.mp h
    unfold insertBy
    cases hlt : Str.lt (key y) (key x) with
    | true =>
      simp only [if_true]
      refine List.pairwise_cons.mpr ⟨?_, ih hy.2⟩
      intro z hz
      rcases List.mem_cons.mp ((insertBy_perm key x ys).mem_iff.mp hz) with rfl | hz
      · exact lt_le hlt
      · exact hy.1 z hz
    | false =>
      simp only [Bool.false_eq_true, if_false]
      refine List.pairwise_cons.mpr ⟨?_, h⟩
      intro z hz
      rcases List.mem_cons.mp hz with rfl | hz
      · exact not_lt_le hlt
      · exact List.le_trans (not_lt_le hlt) (hy.1 z hz)

theorem sortBy_sorted (key : α → Str) (l : List α) : KSorted key (sortBy key l) := by
  induction l with
  | nil => exact List.Pairwise.nil
  | cons x xs ih =>
    simp only [sortBy, List.foldr_cons]
    exact insertBy_sorted key x _ ih

/-- sorting two lists that are the same up to rearrangement and a key-preserving relation gives lists related element by
element, in the same order (distinct keys) -/
theorem sortBy_all2 {R : α → α → Prop} (key : α → Str) (hk : ∀ a b, R a b → key a = key b) {l l' : List α}
    (h : PermR R l l') (hn : (l.map key).Nodup) : All2 R (sortBy key l) (sortBy key l') := by
  have p1 := sortBy_perm key l
  have p2 := sortBy_perm key l'
  have hR : PermR R (sortBy key l) (sortBy key l') := by
    obtain ⟨m, hm, ha⟩ := h
    obtain ⟨m', hm', ha'⟩ := PermR.all2_perm_swap ha p2.symm
    exact ⟨m', (p1.trans hm).trans hm', ha'⟩
  exact PermR.sorted_all2 key hk (sortBy_sorted key l) (sortBy_sorted key l') ((p1.map key).nodup_iff.mpr hn) hR

/-- `sorted(list_of_str)` is a function of the multiset -/
theorem sortS_perm_eq {l l' : List Str} (h : l.Perm l') : sortS l = sortS l' := by
  apply List.Perm.eq_of_pairwise (le := fun a b : Str => a ≤ b) _ (sortBy_sorted id l) (sortBy_sorted id l')
    (((sortBy_perm id l).trans h).trans (sortBy_perm id l').symm)
  intro a b _ _ hab hba
  exact List.le_antisymm hab hba

end Ini

namespace IniText
open Ini

/-- the same section: same name, the options a rearrangement of each other -/
def SecEq (s s' : Str × IniSec) : Prop := s.1 = s'.1 ∧ s.2.Perm s'.2

/-- the same document: the sections a rearrangement of each other, each the same section -/
def IniEq (d d' : Ini) : Prop := PermR SecEq d d'

theorem IniEq.refl (d : Ini) : IniEq d d := PermR.refl (fun s => ⟨rfl, List.Perm.refl _⟩) d

/-- a dict of dicts: section names distinct, option names distinct inside every section -/
structure DistinctKeys (d : Ini) : Prop where
  secs : (d.map (·.1)).Nodup
  opts : ∀ s ∈ d, (s.2.map (·.1)).Nodup

theorem sortKV_perm_eq {l l' : List (Str × Str)} (h : l.Perm l') (hn : (l.map (·.1)).Nodup) : sortKV l = sortKV l' := by
  unfold sortKV
  have := sortBy_all2 (R := fun a b : Str × Str => a = b) (·.1) (fun a b e => by rw [e]) (PermR.of_perm (fun _ => rfl) h) hn
  generalize sortBy (·.1) l = a at this
  generalize sortBy (·.1) l' = b at this
  induction this with
  | nil => rfl
  | cons r _ ih => rw [r, ih]

theorem renderSec_eq {s s' : Str × IniSec} (h : SecEq s s') (hn : (s.2.map (·.1)).Nodup) : renderSec s = renderSec s' := by
  unfold renderSec
  rw [h.1, sortKV_perm_eq h.2 hn]

theorem all2_flatMap_eq {β : Type} {R : α → α → Prop} {P : α → Prop} (f : α → List β) (hf : ∀ a b, R a b → P a → f a = f b) :
    ∀ {l l' : List α}, All2 R l l' → (∀ a ∈ l, P a) → l.flatMap f = l'.flatMap f
  | _, _, .nil, _ => rfl
  | _, _, .cons r t, hp => by
    simp only [List.flatMap_cons]
    rw [hf _ _ r (hp _ List.mem_cons_self), all2_flatMap_eq f hf t (fun a ha => hp a (List.mem_cons_of_mem _ ha))]

/-- **the INI bytes are a function of the document modulo the order of sections and options** -/
theorem render_eq {d d' : Ini} (h : IniEq d d') (hk : DistinctKeys d) (hd : NoDefault d) : render d = render d' := by
  have hkeys : (d.map (·.1)).Perm (d'.map (·.1)) := PermR.map_perm (·.1) (fun a b r => r.1) h
  have hd' : NoDefault d' := by
    unfold NoDefault at hd ⊢
    cases hl : d'.lookup DEFAULT with
    | none => rfl
    | some o =>
      exfalso
      have hm : DEFAULT ∈ d'.map (·.1) := by
        clear hkeys h
        induction d' with
        | nil => simp [List.lookup] at hl
        | cons x xs ih =>
          obtain ⟨k, v⟩ := x
          simp only [List.lookup] at hl
          split at hl
          · rename_i he
            simp only [beq_iff_eq] at he
            simp [he]
          · simp only [List.map_cons, List.mem_cons]
            exact .inr (ih hl)
      have hm' : DEFAULT ∈ d.map (·.1) := hkeys.mem_iff.mpr hm
      clear hkeys h hk hl hm
      induction d with
      | nil => simp at hm'
      | cons x xs ih =>
        obtain ⟨k, v⟩ := x
        simp only [List.lookup] at hd
        split at hd
        · cases hd
        · rename_i he
          simp only [List.map_cons, List.mem_cons] at hm'
          rcases hm' with e | e
          · simp [e] at he
          · exact ih hd e
  unfold render
  unfold NoDefault at hd hd'
  rw [hd, hd']
  simp only [List.nil_append]
  unfold sortKV
  have hf : PermR SecEq (d.filter (·.1 != DEFAULT)) (d'.filter (·.1 != DEFAULT)) :=
    h.filter _ (fun a b r => by rw [r.1])
  have hn : ((d.filter (·.1 != DEFAULT)).map (·.1)).Nodup :=
    (hk.secs.sublist ((List.filter_sublist (l := d)).map (·.1)))
  have hall := sortBy_all2 (R := SecEq) (·.1) (fun a b r => r.1) hf hn
  refine all2_flatMap_eq (P := fun s => (s.2.map (·.1)).Nodup) renderSec (fun a b r hp => renderSec_eq r hp) hall ?_
  intro s hs
  have : s ∈ d.filter (·.1 != DEFAULT) := (sortBy_perm (·.1) _).mem_iff.mp hs
  exact hk.opts s (List.mem_filter.mp this).1

end IniText
end PM
