import ProductMD.Proofs.C14RoundTrip
/-!
The F9 region fails everywhere: an identifier `short-version` whose short name contains a dash is never parsed
back to that short name and version, because the parser only ever returns pieces of the identifier it was given
(`parsePart_ok_prefix`), and `short-version-…` is longer than `short-version`.
-/
namespace PM.C14
open PM PM.Str PM.Spec

/-- in the branch that looks for a known type, a successful parse returns pieces of the identifier itself:
`short-version-` (plus what was read as the type when none was known) is a prefix of the identifier -/
theorem parsePart_ok_prefix {rid : Str} {r : Rel} (hc : count '-' rid ≠ 1)
    (h : parseReleaseIdPart rid = .ok r) : ∃ ext, (r.short ++ '-' :: r.version ++ '-' :: ext) <+: rid := by
  unfold parseReleaseIdPart at h
  simp only [hc, if_false] at h
  generalize hrt : (Gen.RELEASE_TYPES.find? (fun t => endsWith rid t)).filter (fun t => !t.isEmpty) = rtype at h
  have key : ∀ rid' : Str, rid' <+: rid →
      (match rsplitN '-' 2 rid' with
        | [short, version, ext] => (Except.ok ⟨short, version, rtype.getD ext⟩ : Except Err Rel)
        | _ => .error .valueError) = .ok r → ∃ ext, (r.short ++ '-' :: r.version ++ '-' :: ext) <+: rid := by
    intro rid' hpre h
    obtain ⟨x, rest, e, hj, _, hl⟩ := rsplitN_spec '-' 2 rid'
    rw [e] at h
    match rest, hl, hj, h with
    | [], _, _, h => simp at h
    | [_], _, _, h => simp at h
    | [b, c], _, hj, h =>
      simp only [Except.ok.injEq] at h
      subst h
      refine ⟨c, ?_⟩
      have : x ++ '-' :: b ++ '-' :: c = rid' := by
        rw [← hj]; simp [joinWith]
      rw [this]; exact hpre
    | _ :: _ :: _ :: _, hl, _, _ => simp at hl
  cases rtype with
  | none => exact key rid (List.prefix_refl _) h
  | some t => exact key _ (List.take_prefix _ _) h

/-- F9 is the whole region, not a few unlucky inputs: whatever the version, an identifier `short-version`
whose short name contains a dash is never parsed back to that short name and version -/
theorem parsePart_dashed_ga {s v : Str} (hs : '-' ∈ s) (r : Rel) (hr : r.short = s ∧ r.version = v) :
    parseReleaseIdPart (s ++ '-' :: v) ≠ .ok r := by
  intro h
  have hc : count '-' (s ++ '-' :: v) ≠ 1 := by
    have : count '-' s ≠ 0 := fun e => (count_eq_zero.mp e) hs
    rw [count_append, count_cons_self]; omega
  obtain ⟨ext, hp⟩ := parsePart_ok_prefix hc h
  have := hp.length_le
  rw [hr.1, hr.2] at this
  simp at this
  omega

end PM.C14
