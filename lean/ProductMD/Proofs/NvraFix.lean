import ProductMD.Proofs.NvraExact
/-!
Canonical re-formatting is a fixed point of the directly written parser for EVERY parse result (not only on the
documented shape): whatever `p1` found in a first line `x`, it finds again in `name-E:version-release.arch`.
-/
namespace PM.NvraFix
open PM PM.First PM.Spec PM.Dec PM.NvraProof PM.NvraExact

/-! ### building a `lastSplit` -/
theorem lastSplit_none_intro (d : Char) (ok : Str → Bool) : ∀ x, (∀ w z, x = w ++ d :: z → ok z = false) →
    lastSplit d ok x = none := by
  intro x
  induction x with
  | nil => intro _; rfl
  | cons c cs ih =>
    intro h
    have h1 := ih (fun w z hw => h (c :: w) z (by rw [hw]; rfl))
    simp only [lastSplit, h1]
    split
    · rename_i hc
      have := h [] cs (by rw [hc.1]; rfl)
      rw [hc.2] at this; cases this
    · rfl

theorem lastSplit_intro (d : Char) (ok : Str → Bool) : ∀ (a b : Str), ok b = true →
    (∀ w z, b = w ++ d :: z → ok z = false) → lastSplit d ok (a ++ d :: b) = some (a, b) := by
  intro a
  induction a with
  | nil =>
    intro b hb hl
    simp only [List.nil_append, lastSplit, lastSplit_none_intro d ok b hl]
    simp [hb]
  | cons c a' ih =>
    intro b hb hl
    simp only [List.cons_append, lastSplit, ih b hb hl]

/-- a split of `P ++ T` at a `d` that does not occur in `P` is a split of `T` -/
theorem split_right {d : Char} {P T w z : Str} (hP : d ∉ P) (h : P ++ T = w ++ d :: z) :
    ∃ w2, w = P ++ w2 ∧ T = w2 ++ d :: z := by
  rcases List.append_eq_append_iff.mp h with ⟨a', h1, h2⟩ | ⟨b', h1, h2⟩
  · exact ⟨a', h1, h2⟩
  · cases b' with
    | nil =>
      simp at h1 h2
      exact ⟨[], by simp [h1], h2.symm⟩
    | cons y ys =>
      simp at h2
      exact absurd (by rw [h1, ← h2.1]; exact List.mem_append_right _ List.mem_cons_self) hP

/-! ### what a successful parse says about the string -/
theorem p6_spec {z6 rl a : Str} (h : p6 true z6 = some (rl, a)) : z6 = rl ++ '.' :: a ∧ '.' ∉ a := by
  obtain ⟨h1, _, h3⟩ := lastSplit_some '.' (fun _ => true) z6 rl a h
  refine ⟨h1, ?_⟩
  intro hm
  obtain ⟨w, z, hw⟩ := List.append_of_mem hm
  have := h3 w z hw
  cases this

theorem p5_spec {y v rl a : Str} (h : p5 true y = some (v, rl, a)) :
    ∃ z6, y = v ++ '-' :: z6 ∧ p6 true z6 = some (rl, a)
      ∧ ∀ w z, z6 = w ++ '-' :: z → (p6 true z).isSome = false := by
  obtain ⟨z6, hl, hp⟩ := p5_some h
  obtain ⟨h1, _, h3⟩ := lastSplit_some _ _ y v z6 hl
  exact ⟨z6, h1, hp, h3⟩

theorem p5_intro {v z6 rl a : Str} (hp : p6 true z6 = some (rl, a))
    (hl : ∀ w z, z6 = w ++ '-' :: z → (p6 true z).isSome = false) : p5 true (v ++ '-' :: z6) = some (v, rl, a) := by
  unfold p5
  rw [lastSplit_intro '-' (fun z => (p6 true z).isSome) v z6 (by simp [hp]) hl]
  simp [hp]

theorem slash_not_digit : digitCls.mem '/' = false := by decide

/-- the string behind a `p4` result: an epoch prefix `P` (empty, or digits and a colon) and `version-release.arch` -/
theorem p4_spec {z4 : Str} {ep : Option Str} {v rl a : Str} (h : p4 true z4 = some (ep, v, rl, a)) :
    ∃ P z6, z4 = P ++ (v ++ '-' :: z6) ∧ '-' ∉ P ∧ '/' ∉ P ∧ p6 true z6 = some (rl, a)
      ∧ (∀ w z, z6 = w ++ '-' :: z → (p6 true z).isSome = false)
      ∧ (∀ D, ep = some D → D ≠ [] ∧ ∀ c ∈ D, digitCls.mem c = true) := by
  have habs : ∀ q, p5 true z4 = some q → (none, q) = (ep, v, rl, a) →
      ∃ P z6, z4 = P ++ (v ++ '-' :: z6) ∧ '-' ∉ P ∧ '/' ∉ P ∧ p6 true z6 = some (rl, a)
        ∧ (∀ w z, z6 = w ++ '-' :: z → (p6 true z).isSome = false)
        ∧ (∀ D, ep = some D → D ≠ [] ∧ ∀ c ∈ D, digitCls.mem c = true) := by
    intro q hq he
    simp only [Prod.mk.injEq] at he
    obtain ⟨rfl, rfl⟩ := he
    obtain ⟨z6, g1, g2, g3⟩ := p5_spec hq
    exact ⟨[], z6, by simpa using g1, by simp, by simp, g2, g3, fun D hD => by cases hD⟩
  unfold p4 at h
  cases hes : epochSplit z4 with
  | none =>
    rw [hes] at h
    simp only at h
    cases hp : p5 true z4 with
    | none => rw [hp] at h; cases h
    | some q => rw [hp] at h; simp only [Option.map, Option.some.injEq] at h; exact habs q hp h
  | some Dy =>
    obtain ⟨D, y⟩ := Dy
    rw [hes] at h
    simp only at h
    obtain ⟨hxe, hD, hDd⟩ := epochSplit_spec hes
    cases hpy : p5 true y with
    | some q =>
      rw [hpy] at h
      simp only [Option.some.injEq, Prod.mk.injEq] at h
      obtain ⟨rfl, rfl⟩ := h
      obtain ⟨z6, g1, g2, g3⟩ := p5_spec hpy
      refine ⟨D ++ [':'], z6, by rw [hxe, g1]; simp, ?_, ?_, g2, g3, ?_⟩
      · intro hm
        rcases List.mem_append.mp hm with hm | hm
        · have := hDd _ hm; rw [dash_not_digit] at this; cases this
        · simp at hm
      · intro hm
        rcases List.mem_append.mp hm with hm | hm
        · have := hDd _ hm; rw [slash_not_digit] at this; cases this
        · simp at hm
      · intro D' hD'
        cases hD'
        exact ⟨hD, hDd⟩
    | none =>
      rw [hpy] at h
      cases hp : p5 true z4 with
      | none => rw [hp] at h; cases h
      | some q => rw [hp] at h; simp only [Option.map, Option.some.injEq] at h; exact habs q hp h

/-- what `p2` found, and that no later dash is admissible -/
theorem p2_spec {x2 n : Str} {q : Option Str × Str × Str × Str} (h : p2 true x2 = some (n, q)) :
    ∃ z4, x2 = n ++ '-' :: z4 ∧ p4 true z4 = some q ∧ ∀ w z, z4 = w ++ '-' :: z → (p4 true z).isSome = false := by
  obtain ⟨z4, hl, hp⟩ := p2_some h
  obtain ⟨h1, _, h3⟩ := lastSplit_some _ _ x2 n z4 hl
  exact ⟨z4, h1, hp, h3⟩

/-- what `p1` found: the part after the dropped directory, in which no slash is an admissible directory end -/
theorem p1_spec {x : Str} {q : Str × Option Str × Str × Str × Str} (h : p1 true x = some q) :
    ∃ pre x2, x = pre ++ x2 ∧ p2 true x2 = some q ∧ ∀ w z, x2 = w ++ '/' :: z → (p2 true z).isSome = false := by
  unfold p1 at h
  cases hl : lastSplit '/' (fun z => (p2 true z).isSome) x with
  | none =>
    rw [hl] at h
    exact ⟨[], x, rfl, h, fun w z hw => lastSplit_none _ _ x hl w z hw⟩
  | some p =>
    obtain ⟨d, z⟩ := p
    rw [hl] at h
    obtain ⟨h1, _, h3⟩ := lastSplit_some _ _ x d z hl
    exact ⟨d ++ ['/'], z, by rw [h1]; simp, h, h3⟩

/-! ### the canonical string parses to the same parts -/
/-- `name-E:version-release.arch` for a digit string `E` -/
def canonStr (n E v rl a : Str) : Str := n ++ '-' :: (E ++ ':' :: (v ++ '-' :: (rl ++ '.' :: a)))

theorem p1_canon {x : Str} {n : Str} {ep : Option Str} {v rl a E : Str} (h : p1 true x = some (n, ep, v, rl, a))
    (hE : E ≠ []) (hEd : ∀ c ∈ E, digitCls.mem c = true) :
    p1 true (canonStr n E v rl a) = some (n, some E, v, rl, a) := by
  obtain ⟨pre, x2, _, h2, hslash⟩ := p1_spec h
  obtain ⟨z4, hx2, hp4, hdash⟩ := p2_spec h2
  obtain ⟨P, z6, hz4, hPd, hPs, hp6, hl6, _⟩ := p4_spec hp4
  obtain ⟨hz6, _⟩ := p6_spec hp6
  -- the new epoch prefix
  have hP'd : '-' ∉ E ++ [':'] := by
    intro hm
    rcases List.mem_append.mp hm with hm | hm
    · have := hEd _ hm; rw [dash_not_digit] at this; cases this
    · simp at hm
  have hP's : '/' ∉ E ++ [':'] := by
    intro hm
    rcases List.mem_append.mp hm with hm | hm
    · have := hEd _ hm; rw [slash_not_digit] at this; cases this
    · simp at hm
  have hz4' : E ++ ':' :: (v ++ '-' :: z6) = (E ++ [':']) ++ (v ++ '-' :: z6) := by simp
  have hp5 : p5 true (v ++ '-' :: z6) = some (v, rl, a) := p5_intro hp6 hl6
  have hp4' : p4 true (E ++ ':' :: (v ++ '-' :: z6)) = some (some E, v, rl, a) := by
    unfold p4
    rw [epochSplit_of E _ hE hEd]
    simp [hp5]
  -- no later admissible dash
  have hdash' : ∀ w z, E ++ ':' :: (v ++ '-' :: z6) = w ++ '-' :: z → (p4 true z).isSome = false := by
    intro w z hw
    rw [hz4'] at hw
    obtain ⟨w2, _, hT⟩ := split_right hP'd hw
    exact hdash (P ++ w2) z (by rw [hz4, hT]; simp)
  have hp2' : p2 true (n ++ '-' :: (E ++ ':' :: (v ++ '-' :: z6))) = some (n, some E, v, rl, a) := by
    unfold p2
    rw [lastSplit_intro '-' (fun z => (p4 true z).isSome) n _ (by simp [hp4']) hdash']
    simp [hp4']
  -- no admissible directory end
  have hnone : lastSplit '/' (fun z => (p2 true z).isSome) (n ++ '-' :: (E ++ ':' :: (v ++ '-' :: z6))) = none := by
    apply lastSplit_none_intro
    intro w z hw
    have hw' : (n ++ ['-']) ++ ((E ++ [':']) ++ (v ++ '-' :: z6)) = w ++ '/' :: z := by rw [← hw]; simp
    rcases List.append_eq_append_iff.mp hw' with ⟨a', k1, k2⟩ | ⟨b', k1, k2⟩
    · -- the slash lies to the right of `name-`
      obtain ⟨w2, _, hT⟩ := split_right hP's k2
      exact hslash (n ++ '-' :: (P ++ w2)) z (by rw [hx2, hz4, hT]; simp)
    · -- the slash lies inside `name-`: impossible, the rest after it would have parsed in the first place
      exfalso
      cases b' with
      | nil =>
        simp at k2
        cases E with
        | nil => exact hE rfl
        | cons e0 es =>
          simp at k2
          have := hEd e0 List.mem_cons_self
          rw [← k2.1, slash_not_digit] at this; cases this
      | cons y ys =>
        simp only [List.cons_append, List.cons.injEq] at k2
        obtain ⟨rfl, k2⟩ := k2
        -- n ++ ['-'] = w ++ '/' :: ys : ys ends with the dash
        have hn : ∃ n2, n = w ++ '/' :: n2 := by
          rcases List.append_eq_append_iff.mp k1 with ⟨a', _, g2⟩ | ⟨c', g1, g2⟩
          · cases a' with
            | nil => simp at g2
            | cons y' t => simp at g2
          · cases c' with
            | nil => simp at g2
            | cons y' t =>
              simp only [List.cons_append, List.cons.injEq] at g2
              exact ⟨t, by rw [g1, ← g2.1]⟩
        obtain ⟨n2, hn⟩ := hn
        have hbad := hslash w (n2 ++ '-' :: z4) (by rw [hx2, hn]; simp)
        cases hp2 : p2 true (n2 ++ '-' :: z4) with
        | some _ => rw [hp2] at hbad; cases hbad
        | none =>
          have : (p4 true z4).isSome = false := lastSplit_none _ _ _ (p2_none hp2) n2 z4 rfl
          rw [hp4] at this; cases this
  unfold canonStr p1
  rw [hz6] at hnone hp2'
  rw [hnone]
  exact hp2'

/-- the first line contains the parts in order; the architecture has no dot -/
theorem p1_shape {x n : Str} {ep : Option Str} {v rl a : Str} (h : p1 true x = some (n, ep, v, rl, a)) :
    (∃ pre P, x = pre ++ (n ++ '-' :: (P ++ (v ++ '-' :: (rl ++ '.' :: a))))) ∧ '.' ∉ a := by
  obtain ⟨pre, x2, hx, h2, _⟩ := p1_spec h
  obtain ⟨z4, hx2, hp4, _⟩ := p2_spec h2
  obtain ⟨P, z6, hz4, _, _, hp6, _, _⟩ := p4_spec hp4
  obtain ⟨hz6, hdot⟩ := p6_spec hp6
  exact ⟨⟨pre, P, by rw [hx, hx2, hz4, hz6]⟩, hdot⟩

/-! ### the value of a digit string has no more digits than the string -/
theorem digitVal_lt {c : Char} {d : Nat} (h : digitVal c = some d) : d < 10 := by
  unfold digitVal at h
  cases hf : Gen.digitRanges.find? (fun r => decide (r.1 ≤ c.toNat) && decide (c.toNat ≤ r.2)) with
  | none => rw [hf] at h; cases h
  | some r =>
    rw [hf] at h
    simp only [Option.map, Option.some.injEq] at h
    rw [← h]
    exact Nat.mod_lt _ (by decide)

theorem digitsVal_lt : ∀ (D : Str) (acc E : Nat), digitsVal D acc = some E → E < (acc + 1) * 10 ^ D.length := by
  intro D
  induction D with
  | nil => intro acc E h; simp [digitsVal] at h; subst h; simp
  | cons c cs ih =>
    intro acc E h
    simp only [digitsVal] at h
    cases hd : digitVal c with
    | none => rw [hd] at h; cases h
    | some d =>
      rw [hd] at h
      have hlt := digitVal_lt hd
      have := ih _ E h
      have h2 : (acc * 10 + d + 1) * 10 ^ cs.length ≤ ((acc + 1) * 10) * 10 ^ cs.length :=
        Nat.mul_le_mul_right _ (by omega)
      rw [List.length_cons, Nat.pow_succ, Nat.mul_comm (10 ^ cs.length) 10, ← Nat.mul_assoc]
      omega

theorem pyIntDigits_canon {D : Str} {E : Nat} (h : pyIntDigits D = .ok E) :
    (Str.natStr E).length ≤ intMaxStrDigits := by
  unfold pyIntDigits at h
  split at h
  · cases h
  · split at h
    · cases h
    · rename_i hne hlim
      cases hv : digitsVal D 0 with
      | none => rw [hv] at h; cases h
      | some n =>
        rw [hv] at h
        simp only [Except.ok.injEq] at h
        subst h
        have hlt := digitsVal_lt D 0 n hv
        have hpos : 0 < D.length := by
          cases D with
          | nil => simp at hne
          | cons _ _ => simp
        have := natStr_len n D.length hpos (by simpa using hlt)
        omega

theorem line_of_no_nl {c : Str} (h : '\n' ∉ c) : c.takeWhile Cls.any.mem = c ∧ c.dropWhile Cls.any.mem = [] := by
  induction c with
  | nil => simp
  | cons y ys ih =>
    have hy : Cls.any.mem y = true := any_mem (fun e => h (by rw [e]; exact List.mem_cons_self))
    obtain ⟨h1, h2⟩ := ih (fun hm => h (List.mem_cons_of_mem _ hm))
    simp [List.takeWhile_cons, List.dropWhile_cons, hy, h1, h2]

end PM.NvraFix
