import ProductMD.Model.Customs
import ProductMD.Proofs.PermR
/-!
The translated validator idiom cannot tell two objects apart whose attribute values are the same content (`JEq`: equal up
to the order of dict entries): `_assert_type`, `_assert_value`, `_assert_not_blank`, `_assert_matches_re`, the guards and
`raise ValueError` conditions only look at the type, the truth value, or a string.  Hand-bound (`custom`) rules are excluded
here (`Rule.noCustom`); the classes C08 needs this for have none (checked by `decide` on the generated inventory).
-/
namespace PM

/-- same attribute names in the same order, values the same content -/
def ObjEq (o o' : Obj) : Prop := All2 (fun a b => a.1 = b.1 ∧ JEq a.2 b.2) o o'

theorem ObjEq.refl (o : Obj) : ObjEq o o := All2.refl (fun a => ⟨rfl, .refl a.2⟩) o

theorem ObjEq.get : ∀ {o o' : Obj}, ObjEq o o' → ∀ f : Str, JEq (o.get f) (o'.get f)
  | _, _, .nil, _ => .refl _
  | _, _, @All2.cons _ _ _ a b l l' r t, f => by
    have ih := ObjEq.get t f
    simp only [Obj.get, List.find?_cons] at ih ⊢
    rw [← r.1]
    cases a.1 == f
    · exact ih
    · exact r.2

def Rule.noCustom : Rule → Bool
  | .custom _ => false
  | .guarded _ r => r.noCustom
  | _ => true

theorem Cond.eval_jeq {o o' : Obj} (h : ObjEq o o') : ∀ c : Cond, c.eval o = c.eval o'
  | .tt => rfl
  | .truthy f => by simp only [Cond.eval]; exact (h.get f).truthy_eq
  | .notNone f => by simp only [Cond.eval]; rw [(h.get f).isinstance_eq]
  | .reMatch p f => by
    simp only [Cond.eval]
    have hg := h.get f
    revert hg; generalize o.get f = a; generalize o'.get f = b; intro hg
    cases hg <;> rfl
  | .startsWith f pre => by
    simp only [Cond.eval]
    have hg := h.get f
    revert hg; generalize o.get f = a; generalize o'.get f = b; intro hg
    cases hg <;> rfl
  | .contains f c => by
    simp only [Cond.eval]
    have hg := h.get f
    revert hg; generalize o.get f = a; generalize o'.get f = b; intro hg
    cases hg <;> rfl
  | .not c => by simp only [Cond.eval, Cond.eval_jeq h c]
  | .and a b => by simp only [Cond.eval, Cond.eval_jeq h a, Cond.eval_jeq h b]

theorem Cond.wellTyped_jeq {o o' : Obj} (h : ObjEq o o') : ∀ c : Cond, c.wellTyped o = c.wellTyped o'
  | .tt | .truthy _ | .notNone _ => rfl
  | .reMatch _ f | .startsWith f _ | .contains f _ => by simp only [Cond.wellTyped]; rw [(h.get f).isinstance_eq]
  | .not c => by simp only [Cond.wellTyped, Cond.wellTyped_jeq h c]
  | .and a b => by simp only [Cond.wellTyped, Cond.wellTyped_jeq h a, Cond.wellTyped_jeq h b, Cond.eval_jeq h a]

theorem Rule.check_jeq (customs : Str → Obj → Except Err Unit) {o o' : Obj} (h : ObjEq o o') :
    ∀ r : Rule, r.noCustom = true → r.check customs o = r.check customs o'
  | .type f ts, _ => by
    simp only [Rule.check]
    rw [(h.get f).assertTypeOk_eq]
  | .value f table, _ => by
    simp only [Rule.check]
    have hg := h.get f
    revert hg; generalize o.get f = a; generalize o'.get f = b; intro hg
    cases hg <;> rfl
  | .notBlank f, _ => by simp only [Rule.check]; rw [(h.get f).truthy_eq]
  | .re f pats, _ => by
    simp only [Rule.check]
    have hg := h.get f
    revert hg; generalize o.get f = a; generalize o'.get f = b; intro hg
    cases hg <;> rfl
  | .failIf c, _ => by simp only [Rule.check, Cond.wellTyped_jeq h c, Cond.eval_jeq h c]
  | .guarded c r, hn => by
    simp only [Rule.check, Cond.wellTyped_jeq h c, Cond.eval_jeq h c, Rule.check_jeq customs h r (by simpa [Rule.noCustom] using hn)]
  | .custom _, hn => by simp [Rule.noCustom] at hn

theorem runRules_jeq (customs : Str → Obj → Except Err Unit) {o o' : Obj} (h : ObjEq o o') :
    ∀ rs : List Rule, rs.all Rule.noCustom = true → runRules customs o rs = runRules customs o' rs
  | [], _ => rfl
  | r :: rs, hn => by
    simp only [List.all_cons, Bool.and_eq_true] at hn
    simp only [runRules, Rule.check_jeq customs h r hn.1, runRules_jeq customs h rs hn.2]

end PM
