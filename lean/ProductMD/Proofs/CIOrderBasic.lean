import ProductMD.Proofs.CISections
import ProductMD.Proofs.JsonRoundTrip
import ProductMD.Proofs.Canon
/-!
C01/C08: the composeinfo READER does not depend on the key order of the document — basics.

`PyVal.canon` sorts every dict by key (what `json.load` returns for a text written with `sort_keys=True`).  It keeps the
kind of every value (str stays str, list stays list …), the elements of lists of strings, truthiness, and — for a
document without duplicate keys (`Mf.jsonRep`) — every lookup: `(canon d)[k] = canon (d[k])`.  The validators of the
sections read raw document values; they only look at kind / string content / truthiness, so they give the same verdict on
`canon`ical values (proved for the generated rule lists of Header, Compose, Release, BaseProduct).
-/
namespace PM.CI
open PM PM.Mf PM.JsonParse

/-! ### `canon` keeps what the reader looks at -/
theorem canon_str (s : Str) : PyVal.canon (.str s) = .str s := rfl

theorem asStr_canon (v : PyVal) : asStr (PyVal.canon v) = asStr v := by cases v <;> rfl
theorem asInt_canon (v : PyVal) : asInt (PyVal.canon v) = asInt v := by cases v <;> rfl
theorem asStr'_canon (v : PyVal) : asStr' (PyVal.canon v) = asStr' v := by cases v <;> rfl
theorem lowerVal_canon (v : PyVal) : lowerVal (PyVal.canon v) = lowerVal v := by cases v <;> rfl

theorem isinstance_canon (v : PyVal) (t : PyType) : (PyVal.canon v).isinstance t = v.isinstance t := by
  cases v <;> cases t <;> rfl

theorem isBool_canon (v : PyVal) : (PyVal.canon v).isBool = v.isBool := by
  cases v <;> rfl

theorem sortKvs_isEmpty (l : List (Str × PyVal)) : (PyVal.sortKvs l).isEmpty = l.isEmpty := by
  have := (PM.sortKvs_perm l).length_eq
  cases l with
  | nil => rfl
  | cons a as =>
    cases h : PyVal.sortKvs (a :: as) with
    | nil => rw [h] at this; simp at this
    | cons b bs => rfl

theorem truthy_canon (v : PyVal) : (PyVal.canon v).truthy = v.truthy := by
  cases v with
  | list xs => cases xs <;> simp [PyVal.canon, PyVal.truthy, PyVal.canonList]
  | dict kvs =>
    simp only [PyVal.canon, PyVal.truthy, sortKvs_isEmpty]
    cases kvs with
    | nil => rfl
    | cons a as => obtain ⟨k, x⟩ := a; simp [PyVal.canonKvs]
  | _ => rfl

theorem orNone_canon (v : PyVal) : orNone (PyVal.canon v) = PyVal.canon (orNone v) := by
  unfold orNone
  rw [truthy_canon]
  split <;> rfl

theorem pyEq_canon_left (v w : PyVal) (h : jsonRep v = true) : PyVal.pyEq (PyVal.canon v) w = PyVal.pyEq v w := by
  unfold PyVal.pyEq
  rw [canon_idem v h]

theorem collect_congr {α} : ∀ (l₁ l₂ : List (Except Err α)), l₁ = l₂ → collect l₁ = collect l₂ := by
  intro _ _ h; rw [h]

theorem asStrList_canon (v : PyVal) : asStrList (PyVal.canon v) = asStrList v := by
  cases v with
  | list xs =>
    simp only [PyVal.canon, asStrList, PM.canonList_eq_map, List.map_map]
    congr 1
    apply List.map_congr_left
    intro x _
    exact asStr'_canon x
  | _ => rfl

/-! ### lookups -/
theorem jsonRepKvs_lookup : ∀ (kvs : Kvs) (k : Str) (x : PyVal), jsonRepKvs kvs = true → Mf.lookup kvs k = some x → jsonRep x = true
  | [], _, _, _, h => by simp [Mf.lookup] at h
  | (k', v) :: rest, k, x, hr, h => by
    simp only [jsonRepKvs, Bool.and_eq_true] at hr
    simp only [Mf.lookup] at h
    split at h
    · cases h; exact hr.1.2
    · exact jsonRepKvs_lookup rest k x hr.2 h

theorem jsonRep_get {v : PyVal} {k : Str} {x : PyVal} (hr : jsonRep v = true) (h : v.get? k = some x) : jsonRep x = true := by
  cases v with
  | dict kvs =>
    simp only [jsonRep] at hr
    simp only [PyVal.get?, find?_eq_lookup] at h
    exact jsonRepKvs_lookup kvs k x hr h
  | _ => simp [PyVal.get?] at h

theorem canon_isDict (v : PyVal) : (∃ l, v = .dict l) → ∃ l', PyVal.canon v = .dict l' := by
  rintro ⟨l, rfl⟩; exact ⟨_, rfl⟩

theorem sub_ok {v : PyVal} {k : Str} {x : PyVal} (h : sub v k = .ok x) : (∃ l, v = .dict l) ∧ v.get? k = some x := by
  unfold sub at h
  cases v with
  | dict l =>
    simp only at h
    cases hg : PyVal.get? (.dict l) k with
    | none => rw [hg] at h; cases h
    | some y => rw [hg] at h; cases h; exact ⟨⟨l, rfl⟩, rfl⟩
  | _ => cases h

theorem jsonRep_sub {v : PyVal} {k : Str} {x : PyVal} (hr : jsonRep v = true) (h : sub v k = .ok x) : jsonRep x = true :=
  jsonRep_get hr (sub_ok h).2

/-- `(canon d)[k] = canon (d[k])` -/
theorem sub_canon {v : PyVal} {k : Str} {x : PyVal} (hr : jsonRep v = true) (h : sub v k = .ok x) :
    sub (PyVal.canon v) k = .ok (PyVal.canon x) := by
  obtain ⟨⟨l, rfl⟩, hg⟩ := sub_ok h
  have := get?_canon (.dict l) k hr
  rw [hg] at this
  unfold sub
  simp only [PyVal.canon] at this ⊢
  rw [this]
  rfl

theorem getD_ok {v : PyVal} {k : Str} {d x : PyVal} (h : getD v k d = .ok x) : (∃ l, v = .dict l) ∧ x = (v.get? k).getD d := by
  unfold getD at h
  cases v with
  | dict l => simp only at h; cases h; exact ⟨⟨l, rfl⟩, rfl⟩
  | _ => cases h

/-- `(canon d).get(k, dflt) = canon (d.get(k, dflt))` for a default that `canon` leaves alone -/
theorem getD_canon {v : PyVal} {k : Str} {d x : PyVal} (hr : jsonRep v = true) (hd : PyVal.canon d = d) (h : getD v k d = .ok x) :
    getD (PyVal.canon v) k d = .ok (PyVal.canon x) := by
  obtain ⟨⟨l, rfl⟩, hx⟩ := getD_ok h
  have := get?_canon (.dict l) k hr
  unfold getD
  simp only [PyVal.canon] at this ⊢
  rw [this, hx]
  cases PyVal.get? (.dict l) k with
  | none => simp [hd]
  | some y => rfl

theorem jsonRep_getD {v : PyVal} {k : Str} {d x : PyVal} (hr : jsonRep v = true) (hd : jsonRep d = true) (h : getD v k d = .ok x) :
    jsonRep x = true := by
  obtain ⟨_, hx⟩ := getD_ok h
  rw [hx]
  cases hg : v.get? k with
  | none => exact hd
  | some y => exact jsonRep_get hr hg

/-! ### the validators of the sections see the same thing -/
/-- the object with every attribute value made canonical -/
def canonObj (o : Obj) : Obj := o.map fun p => (p.1, PyVal.canon p.2)

theorem get_canonObj (o : Obj) (f : Str) : (canonObj o).get f = PyVal.canon (o.get f) := by
  unfold Obj.get canonObj
  induction o with
  | nil => rfl
  | cons p ps ih =>
    simp only [List.map_cons, List.find?_cons]
    cases h : (p.1 == f)
    · simpa using ih
    · rfl

theorem cond_canon (o : Obj) : ∀ (c : Cond), c.eval (canonObj o) = c.eval o ∧ c.wellTyped (canonObj o) = c.wellTyped o
  | .tt => ⟨rfl, rfl⟩
  | .truthy f => by simp [Cond.eval, Cond.wellTyped, get_canonObj, truthy_canon]
  | .notNone f => by simp [Cond.eval, Cond.wellTyped, get_canonObj, isinstance_canon]
  | .reMatch p f => by
    simp only [Cond.eval, Cond.wellTyped, get_canonObj, isinstance_canon, and_true]
    cases o.get f <;> rfl
  | .startsWith f pre => by
    simp only [Cond.eval, Cond.wellTyped, get_canonObj, isinstance_canon, and_true]
    cases o.get f <;> rfl
  | .contains f c => by
    simp only [Cond.eval, Cond.wellTyped, get_canonObj, isinstance_canon, and_true]
    cases o.get f <;> rfl
  | .not c => by
    have := cond_canon o c
    simp [Cond.eval, Cond.wellTyped, this.1, this.2]
  | .and a b => by
    have ha := cond_canon o a
    have hb := cond_canon o b
    simp [Cond.eval, Cond.wellTyped, ha.1, ha.2, hb.1, hb.2]

/-- the hand-bound rules a rule refers to -/
def customNames : Rule → List Str
  | .custom n => [n]
  | .guarded _ r => customNames r
  | _ => []

theorem rule_check_canon (c : Str → Obj → Except Err Unit) (o : Obj) :
    ∀ (r : Rule), (∀ n ∈ customNames r, c n (canonObj o) = c n o) → r.check c (canonObj o) = r.check c o
  | .type f ts, _ => by simp [Rule.check, get_canonObj, PyVal.assertTypeOk, isinstance_canon, isBool_canon]
  | .value f table, _ => by
    simp only [Rule.check, get_canonObj]
    cases o.get f <;> rfl
  | .notBlank f, _ => by simp [Rule.check, get_canonObj, truthy_canon]
  | .re f pats, _ => by
    simp only [Rule.check, get_canonObj]
    cases o.get f <;> rfl
  | .failIf cd, _ => by simp [Rule.check, (cond_canon o cd).1, (cond_canon o cd).2]
  | .guarded cd r, h => by
    simp only [Rule.check, (cond_canon o cd).1, (cond_canon o cd).2]
    rw [rule_check_canon c o r (fun n hn => h n (by simpa [customNames] using hn))]
  | .custom n, h => by simpa [Rule.check] using h n (by simp [customNames])

theorem verifyLabel_canon (v : PyVal) : verifyLabel (PyVal.canon v) = verifyLabel v := by cases v <;> rfl

theorem runRules_canon (o : Obj) (rs : List Rule)
    (h : ∀ r ∈ rs, ∀ n ∈ customNames r, customs n (canonObj o) = customs n o) :
    runRules customs (canonObj o) rs = runRules customs o rs :=
  runRules_congr customs _ _ rs (fun r hr => rule_check_canon customs o r (h r hr))

theorem cls_header : Gen.allClasses.find? (·.1 == "common.Header") = some ("common.Header", Gen.rules_common_Header) := by rfl
theorem cls_base : Gen.allClasses.find? (·.1 == "composeinfo.BaseProduct")
    = some ("composeinfo.BaseProduct", Gen.rules_composeinfo_BaseProduct) := by rfl

theorem nocustom_header : ∀ r ∈ Gen.rules_common_Header.flat, customNames r = [] := by
  simp [Gen.rules_common_Header, MethodRules.flat, customNames]
theorem nocustom_release : ∀ r ∈ Gen.rules_composeinfo_Release.flat, customNames r = [] := by
  simp [Gen.rules_composeinfo_Release, MethodRules.flat, customNames]
theorem nocustom_base : ∀ r ∈ Gen.rules_composeinfo_BaseProduct.flat, customNames r = [] := by
  simp [Gen.rules_composeinfo_BaseProduct, MethodRules.flat, customNames]
theorem custom_compose : ∀ r ∈ Gen.rules_composeinfo_Compose.flat, ∀ n ∈ customNames r,
    n = k%"composeinfo.Compose._validate_label:verify_label(self.label)" := by
  simp [Gen.rules_composeinfo_Compose, MethodRules.flat, customNames]

theorem validate_header_canon (o : Obj) : validateClass "common.Header" (canonObj o) = validateClass "common.Header" o := by
  unfold validateClass; rw [cls_header]; unfold validateWith
  exact runRules_canon o _ (fun r hr n hn => by rw [nocustom_header r hr] at hn; cases hn)

theorem validate_release_canon (o : Obj) :
    validateClass "composeinfo.Release" (canonObj o) = validateClass "composeinfo.Release" o := by
  unfold validateClass; rw [cls_release]; unfold validateWith
  exact runRules_canon o _ (fun r hr n hn => by rw [nocustom_release r hr] at hn; cases hn)

theorem validate_base_canon (o : Obj) :
    validateClass "composeinfo.BaseProduct" (canonObj o) = validateClass "composeinfo.BaseProduct" o := by
  unfold validateClass; rw [cls_base]; unfold validateWith
  exact runRules_canon o _ (fun r hr n hn => by rw [nocustom_base r hr] at hn; cases hn)

theorem validate_compose_canon (o : Obj) :
    validateClass "composeinfo.Compose" (canonObj o) = validateClass "composeinfo.Compose" o := by
  unfold validateClass; rw [cls_compose]; unfold validateWith
  refine runRules_canon o _ (fun r hr n hn => ?_)
  rw [custom_compose r hr n hn, customs_label]
  simp only [get_canonObj, verifyLabel_canon]

end PM.CI
