import ProductMD.Proofs.C05TIDownOld
import ProductMD.Proofs.C05TI00
/-!
C05, treeinfo down-conversion: decidability of the two extra side conditions of ≤ 0.3, and the kernel-decided examples of the
theorems in Properties/C05.lean (kept here for its build time).
-/
namespace PM.TI
open Ini
set_option Elab.async false

instance (tops : List Variant) : Decidable (ChainOK tops) := by unfold ChainOK; infer_instance
instance (src : Bool) (paths : List (Str × Str)) : Decidable (SrcRepresentable src paths) := by unfold SrcRepresentable; infer_instance

/-- a source tree: the paths of its variants are source paths -/
def exSrcTree : TreeInfo :=
  { headerVersion := "0.0".toList, release := ⟨"Fedora".toList, "F".toList, "21".toList⟩, isLayered := false, baseProduct := none,
    tree := ⟨"src".toList, .int 1417653911, []⟩,
    variants := [.mk "Server".toList "Server".toList "Server".toList "Server".toList "variant".toList
                    [("source_packages".toList, "Server/source/tree/Packages".toList),
                     ("source_repository".toList, "Server/source/tree".toList), ("identity".toList, "id.pem".toList)]
                    [.mk "optional".toList "optional".toList "Server-optional".toList "opt".toList "optional".toList
                      [("source_packages".toList, "Server-optional/source/tree/Packages".toList)] []]],
    checksums := [], images := [], mainimage := none, instimage := none, discnum := none, totaldiscs := none }

/-- a child whose id is another variant's UID: `[variant-B]` is both the section of top-level `B` and a candidate of the
chain of `A-B` (id `B`) -/
def exChainTree : TreeInfo :=
  { exSrcTree with
    tree := ⟨"x86_64".toList, .int 7, []⟩
    variants := [.mk "A".toList "A".toList "A".toList "A".toList "variant".toList []
                    [.mk "B".toList "B".toList "A-B".toList "B".toList "addon".toList [] []],
                 .mk "B".toList "B".toList "B".toList "B".toList "variant".toList [("packages".toList, "B/Packages".toList)] []] }

/-- every hypothesis of the ≤ 0.3 theorem holds of C04's example tree (three levels, an addon with a variant below it, paths,
layered release, checksums, images, stage2, media) and of the source tree -/
theorem ex_old_hyps :
    ChainOK C04_exTree0.variants ∧ (∀ x ∈ subVs none C04_exTree0.variants, SrcRepresentable (C04_exTree0.tree.arch == "src".toList) x.2.paths)
    ∧ ChainOK exSrcTree.variants ∧ (∀ x ∈ subVs none exSrcTree.variants, SrcRepresentable (exSrcTree.tree.arch == "src".toList) x.2.paths)
    ∧ PlatformsOK exSrcTree.tree ∧ UidsOK exSrcTree.variants ∧ UidsNodup exSrcTree.variants ∧ TopNotAddon exSrcTree.variants
    ∧ ChecksumsOK exSrcTree.checksums ∧ ImagesOK exSrcTree.tree.arch exSrcTree.images := by decide +kernel

/-- the conclusions, evaluated: 0.3 with `variants`, 0.2 with `addons`, 1.0, 1.1 -/
theorem ex_down_evaluated :
    ((down "0.3".toList (0, 3) kVariants C04_exTree0).toOption.map (Legacy.deserialize C04_fo)) = some (.ok (norm C04_exTree0))
    ∧ ((down "0.2".toList (0, 2) kAddons exSrcTree).toOption.map (Legacy.deserialize C04_fo)) = some (.ok (norm exSrcTree))
    ∧ ((down "1.0".toList (1, 0) kAddons C04_exTree0).toOption.map (Legacy.deserialize C04_fo)) = some (.ok (norm C04_exTree0))
    ∧ ((down "1.1".toList (1, 1) kAddons C04_exTree0).toOption.map (Legacy.deserialize C04_fo)) = some (.ok (norm C04_exTree0)) := by
  decide +kernel

/-- what the source-tree file of 0.2 looks like: the source paths stand under `packages` / `repository`, no `parent` -/
theorem ex_src_file :
    ((down "0.2".toList (0, 2) kAddons exSrcTree).toOption.map fun d =>
      (opt d "variant-Server".toList "packages".toList, opt d "variant-Server".toList "source_packages".toList,
       opt d "variant-Server".toList "repository".toList, opt d "variant-Server-optional".toList "parent".toList,
       opt d "variant-Server".toList "addons".toList, (d.lookup "product".toList).isSome, (d.lookup "release".toList).isSome))
    = some (some "Server/source/tree/Packages".toList, none, some "Server/source/tree".toList, none,
            some "Server-optional".toList, true, false) := by rfl

/-- **the chain condition is needed**: `exChainTree` violates `ChainOK`, its 0.3 file loads, and `A-B` has inherited the
`packages` path of `B` -/
theorem ex_chain_needed :
    ¬ ChainOK exChainTree.variants
    ∧ ((down "0.3".toList (0, 3) kAddons exChainTree).toOption.map fun d =>
        match Legacy.deserialize C04_fo d with
        | .ok t' => t'.variants.flatMap fun v => v.kids.map fun k => (k.uid, k.paths)
        | .error _ => []) = some [("A-B".toList, [("packages".toList, "B/Packages".toList)])] := by decide +kernel

/-- **the source-tree condition is needed**: a source tree whose variant also has a binary `packages` path writes two
`packages` options into one ≤ 0.3 section; the binary path is read back as the source path -/
theorem ex_src_needed :
    let t := { exSrcTree with variants := [.mk "S".toList "S".toList "S".toList "S".toList "variant".toList
                 [("packages".toList, "bin".toList), ("source_packages".toList, "src".toList)] []] }
    ¬ (∀ x ∈ subVs none t.variants, SrcRepresentable (t.tree.arch == "src".toList) x.2.paths)
    ∧ ((down "0.3".toList (0, 3) kAddons t).toOption.map fun d =>
        match Legacy.deserialize C04_fo d with
        | .ok t' => t'.variants.map fun v => v.paths
        | .error _ => []) = some [[("source_packages".toList, "bin".toList)]] := by decide +kernel

/-- a pre-productmd file with nothing but `[general]`, two image sections, `[stage2]` and `[checksums]` -/
def ex00 : Ini :=
  [("general".toList, [("family".toList, "Foo Linux".toList), ("version".toList, "7.2".toList), ("arch".toList, "x86_64".toList),
      ("timestamp".toList, "1417653911".toList), ("variant".toList, "Everything".toList), ("packagedir".toList, "Packages".toList),
      ("repository".toList, "repo".toList), ("discnum".toList, "2".toList)]),
   ("images-x86_64".toList, [("kernel".toList, "images/vmlinuz".toList)]),
   ("images-xen".toList, [("kernel".toList, "images/xen/vmlinuz".toList)]),
   ("stage2".toList, [("mainimage".toList, "LiveOS/squashfs.img".toList)]),
   ("checksums".toList, [("images/boot.iso".toList, "sha256:ab".toList)])]

/-- what is recovered from it: family and version (short name empty: the family is not in the table), arch, timestamp, the
platforms of the image sections, the variant named by `variant` with id = uid = name, type `variant`, `packagedir` and
`repository` as its paths, images, stage2, checksums, the disc number (total = number) -/
theorem ex00_loaded :
    Legacy.deserialize C04_fo ex00 = .ok
      { headerVersion := currentVersion, release := ⟨"Foo Linux".toList, [], "7.2".toList⟩, isLayered := false, baseProduct := none,
        tree := ⟨"x86_64".toList, .int 1417653911, ["x86_64".toList, "xen".toList]⟩,
        variants := [.mk "Everything".toList "Everything".toList "Everything".toList "Everything".toList "variant".toList
          [("packages".toList, "Packages".toList), ("repository".toList, "repo".toList)] []],
        checksums := [("images/boot.iso".toList, "sha256".toList, "ab".toList)],
        images := [("x86_64".toList, [("kernel".toList, "images/vmlinuz".toList)]), ("xen".toList, [("kernel".toList, "images/xen/vmlinuz".toList)])],
        mainimage := some "LiveOS/squashfs.img".toList, instimage := none, discnum := some 2, totaldiscs := some 2 } := by
  decide +kernel

/-- the hypotheses of the section lemmas hold of it -/
theorem ex00_hyps :
    Ini.get ex00 sGeneral kArch = .ok "x86_64".toList ∧ (sections ex00).contains "x86_64".toList = false
    ∧ hasOption ex00 sGeneral kTimestamp = true ∧ platforms00 "x86_64".toList (sections ex00) = ["x86_64".toList, "xen".toList]
    ∧ Legacy.releaseShort00 "Foo Linux".toList = ("Foo Linux".toList, []) ∧ Legacy.version00 "7.2".toList = .ok "7.2".toList
    ∧ hasOption ex00 sGeneral tVariant = true
    ∧ (∀ s ∈ [pAddon ++ "Everything".toList, pAddon ++ (Str.splitOn '-' "Everything".toList).getLastD [],
          pVariant ++ "Everything".toList, pVariant ++ (Str.splitOn '-' "Everything".toList).getLastD []], ex00.lookup s = none)
    ∧ hasOption ex00 sGeneral kAddons = false ∧ hasOption ex00 sGeneral Legacy.kPackages = false
    ∧ hasOption ex00 sGeneral kPackagedir = true ∧ hasOption ex00 sGeneral kRepository = true
    ∧ hasOption ex00 sGeneral Legacy.kIdentity = false
    ∧ Legacy.rstripSlash "repo".toList = "repo".toList ∧ Str.endsWith "repo".toList "/repodata".toList = false
    ∧ (∀ s ∈ sections ex00, isImg s = true → ∀ its, items ex00 s = .ok its → ∀ kv ∈ its, relative kv.2 = true) := by
  refine ⟨by decide +kernel, by decide +kernel, by decide +kernel, by decide +kernel, by decide +kernel, by decide +kernel,
    by decide +kernel, by decide +kernel, by decide +kernel, by decide +kernel, by decide +kernel, by decide +kernel,
    by decide +kernel, by decide +kernel, by decide +kernel, ?_⟩
  intro s hs hi its hit kv hkv
  have : sections ex00 = ["checksums".toList, "general".toList, "images-x86_64".toList, "images-xen".toList, "stage2".toList] := by
    decide +kernel
  rw [this] at hs
  simp only [List.mem_cons, List.not_mem_nil, or_false] at hs
  rcases hs with rfl | rfl | rfl | rfl | rfl
  · exact absurd hi (by decide)
  · exact absurd hi (by decide)
  · have : items ex00 "images-x86_64".toList = .ok [("kernel".toList, "images/vmlinuz".toList)] := by decide +kernel
    rw [this] at hit; cases hit
    simp only [List.mem_cons, List.not_mem_nil, or_false] at hkv; subst hkv; decide
  · have : items ex00 "images-xen".toList = .ok [("kernel".toList, "images/xen/vmlinuz".toList)] := by decide +kernel
    rw [this] at hit; cases hit
    simp only [List.mem_cons, List.not_mem_nil, or_false] at hkv; subst hkv; decide
  · exact absurd hi (by decide)
end PM.TI
