import ProductMD.Proofs.SortDedup
import ProductMD.Proofs.TreeInfoReadback
import ProductMD.Proofs.TreeInfoText
/-!
The writer does not see the difference between a tree and its normal form: the document written for `norm t` has the
same sections with the same options (up to the order in which sections and options were created, which
`SortedConfigParser.write` does not show).
-/
namespace PM
namespace TI
open Ini

/-! ### the forest -/

theorem normVs_isEmpty (kids : List Variant) : (sortBy Variant.uid (normVs kids)).isEmpty = kids.isEmpty := by
  cases kids with
  | nil => rfl
  | cons v vs =>
    have : sortBy Variant.uid (normVs (v :: vs)) ≠ [] := by
      intro e
      have := (sortBy_eq_nil _ _).mp e
      simp [normVs] at this
    cases h : sortBy Variant.uid (normVs (v :: vs)) with
    | nil => exact absurd h this
    | cons _ _ => rfl

theorem normVs_uids (kids : List Variant) : ((sortBy Variant.uid (normVs kids)).map Variant.uid).Perm (kids.map Variant.uid) := by
  have h1 := (sortBy_perm Variant.uid (normVs kids)).map Variant.uid
  have h2 : (normVs kids).map Variant.uid = kids.map Variant.uid := by
    rw [normVs_eq_map, List.map_map]
    apply List.map_congr_left
    intro v _; exact normV_uid false v
  rw [h2] at h1; exact h1

theorem baseOpts_pathOpts (pu : Option Str) (id uid name type : Str) (paths : List (Str × Str)) :
    baseOpts pu id uid name type (pathOpts paths) = baseOpts pu id uid name type paths := by
  unfold baseOpts; rw [pathOpts_idem]

/-- the section of a variant does not change under normalisation -/
theorem varOpts_normV (pu : Option Str) (b : Bool) (w : Variant) : varOpts pu (normV b w) = varOpts pu w := by
  obtain ⟨key, id, uid, name, type, paths, kids⟩ := w
  simp only [normV, varOpts, normVs_isEmpty, baseOpts_pathOpts, sortDedup_perm (normVs_uids kids)]

theorem flatVs_append (pu : Option Str) : ∀ (a b : List Variant), flatVs pu (a ++ b) = flatVs pu b ++ flatVs pu a
  | [], b => by simp [flatVs]
  | v :: a, b => by simp [flatVs, flatVs_append pu a b]

theorem flatVs_perm (pu : Option Str) {vs vs' : List Variant} (h : vs.Perm vs') : (flatVs pu vs).Perm (flatVs pu vs') := by
  induction h with
  | nil => exact List.Perm.refl _
  | cons x _ ih => simp only [flatVs]; exact ih.append_right _
  | swap x y l =>
    simp only [flatVs, List.append_assoc]
    exact List.Perm.append_left _ List.perm_append_comm
  | trans _ _ ih1 ih2 => exact ih1.trans ih2

mutual
theorem flatV_norm : ∀ (w : Variant) (pu : Option Str) (b : Bool), (flatV pu (normV b w)).Perm (flatV pu w)
  | .mk key id uid name type paths kids, pu, b => by
    have hv := varOpts_normV pu b (.mk key id uid name type paths kids)
    simp only [normV] at hv
    simp only [normV, flatV, hv]
    apply List.Perm.append_right
    exact (flatVs_perm (some uid) (sortBy_perm Variant.uid (normVs kids))).trans (flatVs_norm kids (some uid))
theorem flatVs_norm : ∀ (vs : List Variant) (pu : Option Str), (flatVs pu (normVs vs)).Perm (flatVs pu vs)
  | [], _ => List.Perm.refl _
  | v :: vs, pu => by
    simp only [normVs, flatVs]
    exact (flatVs_norm vs pu).append (flatV_norm v pu false)
end

theorem flatVs_normTops : ∀ (vs : List Variant) (pu : Option Str), (flatVs pu (normTops vs)).Perm (flatVs pu vs)
  | [], _ => List.Perm.refl _
  | v :: vs, pu => by
    simp only [normTops, flatVs]
    exact (flatVs_normTops vs pu).append (flatV_norm v pu true)

theorem flat_norm_tops (tops : List Variant) :
    (flatVs none (sortBy Variant.uid (normTops tops))).Perm (flatVs none tops) :=
  (flatVs_perm none (sortBy_perm Variant.uid (normTops tops))).trans (flatVs_normTops tops none)

/-! ### the other sections -/

/-- a section as the file shows it: options in sorted order -/
def canonSec (s : Str × IniSec) : Str × IniSec := (s.1, sortKV s.2)

/-- same sections with the same options, up to creation order -/
def CE (A B : List (Str × IniSec)) : Prop := (A.map canonSec).Perm (B.map canonSec)

theorem CE.rfl' {A : List (Str × IniSec)} : CE A A := List.Perm.refl _
theorem CE.of_eq {A B : List (Str × IniSec)} (h : A = B) : CE A B := by subst h; exact CE.rfl'
theorem CE.of_perm {A B : List (Str × IniSec)} (h : A.Perm B) : CE A B := h.map _
theorem CE.append {A B A' B' : List (Str × IniSec)} (h1 : CE A A') (h2 : CE B B') : CE (A ++ B) (A' ++ B') := by
  unfold CE at *; simp only [List.map_append]; exact h1.append h2

theorem media_norm_sec (a b : Option Int) :
    optSec (mediaOn (if !intTruthy a && !intTruthy b then none else a) (if !intTruthy a && !intTruthy b then none else b)) sMedia
      (mediaOpts (if !intTruthy a && !intTruthy b then none else a) (if !intTruthy a && !intTruthy b then none else b))
    = optSec (mediaOn a b) sMedia (mediaOpts a b) := by
  have hn : intTruthy none = false := rfl
  cases ha : intTruthy a <;> cases hb : intTruthy b <;> simp [mediaOn, ha, hb, hn, optSec]

theorem optTruthy_normOpt (m : Option Str) : optTruthy (if optTruthy m then m else none) = optTruthy m := by
  have hn : optTruthy none = false := rfl
  cases h : optTruthy m <;> simp [h, hn]

theorem stage2_norm_sec (m i : Option Str) :
    optSec (stage2On (if optTruthy m then m else none) (if optTruthy i then i else none)) sStage2
      (stage2Opts (if optTruthy m then m else none) (if optTruthy i then i else none))
    = optSec (stage2On m i) sStage2 (stage2Opts m i) := by
  unfold stage2On stage2Opts
  rw [optTruthy_normOpt, optTruthy_normOpt]
  cases hm : optTruthy m <;> cases hi : optTruthy i <;> simp

theorem imgFlat_eq : ∀ l : List (Str × List (Str × Str)),
    imgFlat l = (l.map fun p => (pImages ++ p.1, setsKV [] p.2)).reverse
  | [] => rfl
  | p :: ps => by simp [imgFlat, imgFlat_eq ps]

theorem images_norm_sec (images : List (Str × List (Str × Str))) (hn : ∀ p ∈ images, (p.2.map (·.1)).Nodup) :
    CE (imgFlat (sortKV (images.map imgNorm))) (imgFlat images) := by
  unfold CE
  rw [imgFlat_eq, imgFlat_eq]
  have h1 : ((sortKV (images.map imgNorm)).map fun p => (pImages ++ p.1, setsKV [] p.2)).reverse.map canonSec
      |>.Perm ((images.map imgNorm).map fun p => canonSec (pImages ++ p.1, setsKV [] p.2)) := by
    rw [List.map_reverse]
    refine (List.reverse_perm _).trans ?_
    rw [List.map_map]
    exact (sortKV_perm _).map _
  refine h1.trans ?_
  rw [List.map_reverse]
  refine List.Perm.trans ?_ (List.reverse_perm _).symm
  rw [List.map_map, List.map_map]
  apply List.Perm.of_eq
  apply List.map_congr_left
  intro p hp
  have hnp := hn p hp
  simp only [Function.comp, imgNorm, canonSec]
  rw [setsKV_nil_nodup _ hnp, setsKV_nil_nodup _ (nodup_keys_sortKV _ hnp), sortKV_idem]

theorem checksums_norm_sec (cs : List (Str × Str × Str)) (hn : (cs.map (·.1)).Nodup) :
    CE (optSec (!(sortKV cs).isEmpty) sChecksums (checksumOpts (sortKV cs))) (optSec (!cs.isEmpty) sChecksums (checksumOpts cs)) := by
  have he : (sortKV cs).isEmpty = cs.isEmpty := by
    cases cs with
    | nil => rfl
    | cons c r =>
      cases h : sortKV (c :: r) with
      | nil =>
        have := (sortKV_perm (c :: r)).length_eq
        rw [h] at this; cases this
      | cons _ _ => rfl
  rw [he]
  cases hc : cs.isEmpty
  · unfold CE optSec
    simp only [Bool.not_false, if_true, List.map_cons, List.map_nil, canonSec]
    apply List.Perm.of_eq
    congr 2
    rw [checksumOpts_eq _ hn, checksumOpts_eq _ (nodup_keys_sortKV _ hn)]
    unfold sortKV
    apply sortBy_perm_eq
    · exact (sortBy_perm _ cs).map csOpt
    · have : ((sortBy (fun x => x.1) cs).map csOpt).map (fun x => x.1) = (sortBy (fun x => x.1) cs).map (fun x => x.1) := by
        simp [List.map_map, Function.comp_def, csOpt]
      rw [this]
      exact nodup_keys_sortKV _ hn
  · simp [optSec, CE]

theorem tree_norm_opts (t : TreeInfo) : treeOptsFull (norm t) = treeOptsFull t := by
  unfold treeOptsFull treeOpts platformsStr
  simp only [norm]
  rw [sortDedup_idem_append _ _ (by simp), sortS_perm_eq (l₂ := t.variants.map Variant.uid)]
  have h1 := (sortBy_perm Variant.uid (normTops t.variants)).map Variant.uid
  have h2 : (normTops t.variants).map Variant.uid = t.variants.map Variant.uid := by
    rw [normTops_eq_map, List.map_map]
    apply List.map_congr_left
    intro v _; exact normV_uid true v
  rw [h2] at h1; exact h1

theorem base_norm (t : TreeInfo) : baseL (norm t) = baseL t := by
  unfold baseL
  simp only [norm]
  by_cases h : t.isLayered = true <;> simp [h]

/-- all sections of the document written for the normal form, against those written for the tree itself -/
theorem docList_norm (t : TreeInfo) (g : IniSec) (hcs : (t.checksums.map (·.1)).Nodup)
    (himg : ∀ p ∈ t.images, (p.2.map (·.1)).Nodup) : CE (docList (norm t) g) (docList t g) := by
  unfold docList
  refine CE.append CE.rfl' (CE.append ?_ (CE.append ?_ (CE.append ?_ (CE.append ?_ (CE.append ?_ (CE.append ?_ (CE.append ?_ ?_)))))))
  · exact CE.of_eq (by simp only [norm]; exact media_norm_sec _ _)
  · exact CE.of_eq (by simp only [norm]; exact stage2_norm_sec _ _)
  · simp only [norm]; exact images_norm_sec _ himg
  · simp only [norm]; exact checksums_norm_sec _ hcs
  · simp only [norm]; exact CE.of_perm (flat_norm_tops _)
  · exact CE.of_eq (by rw [tree_norm_opts])
  · exact CE.of_eq (base_norm t)
  · exact CE.of_eq (by simp only [norm])

/-! ### from sections to bytes -/

theorem perm_of_lookup_eq {α} {l1 l2 : List (Str × α)} (h1 : (l1.map (·.1)).Nodup) (h2 : (l2.map (·.1)).Nodup)
    (h : ∀ k, l1.lookup k = l2.lookup k) : l1.Perm l2 := by
  have n1 : l1.Nodup := nodup_of_map (·.1) l1 h1
  have n2 : l2.Nodup := nodup_of_map (·.1) l2 h2
  apply (List.perm_ext_iff_of_nodup n1 n2).mpr
  intro ⟨k, v⟩
  constructor
  · intro hm
    have := lookup_of_mem_nodup h1 hm
    rw [h k] at this
    exact mem_of_lookup_some this
  · intro hm
    have := lookup_of_mem_nodup h2 hm
    rw [← h k] at this
    exact mem_of_lookup_some this

theorem canon_eq_sortKV (d : Ini) : IniText.canon d = sortKV (d.map canonSec) := by
  unfold IniText.canon
  exact (sortKV_map_same canonSec (fun _ => rfl) d).symm

/-- the sorted document is determined by the section list of the writer specification -/
theorem canon_of_written {t : TreeInfo} {mv : Option Str} {d : Ini} {n : Int} {key : Str} {chosen : Variant}
    (w : Written t mv d n key chosen) :
    IniText.canon d = sortKV ((docList t (generalOpts t n key chosen)).map canonSec) := by
  rw [canon_eq_sortKV]
  have hnd : (d.map (·.1)).Nodup := w.names.nodup_iff.mpr w.nodup
  have hperm := perm_of_lookup_eq hnd w.nodup w.look
  unfold sortKV
  apply sortBy_perm_eq _ (hperm.map canonSec)
  simpa [List.map_map, Function.comp_def, canonSec] using hnd

theorem render_eq_of_CE {t t' : TreeInfo} {mv mv' : Option Str} {d d' : Ini} {n n' : Int} {key key' : Str} {chosen chosen' : Variant}
    (w : Written t mv d n key chosen) (w' : Written t' mv' d' n' key' chosen')
    (h : CE (docList t' (generalOpts t' n' key' chosen')) (docList t (generalOpts t n key chosen))) :
    IniText.render d' = IniText.render d := by
  rw [render_eq_canon d w.view.noDefault, render_eq_canon d' w'.view.noDefault, canon_of_written w, canon_of_written w']
  congr 1
  unfold sortKV
  apply sortBy_perm_eq _ h
  have : ((docList t' (generalOpts t' n' key' chosen')).map canonSec).map (fun x => x.1)
      = (docList t' (generalOpts t' n' key' chosen')).map (·.1) := by
    simp [List.map_map, Function.comp_def, canonSec]
  rw [this]; exact w'.nodup

/-! ### `[general]` of the normal form -/

theorem find_of_mem_nodup {α} (key : α → Str) : ∀ (l : List α) (a : α) (k : Str), (l.map key).Nodup → a ∈ l → key a = k →
    l.find? (fun x => key x == k) = some a
  | [], a, _, _, h, _ => by cases h
  | x :: xs, a, k, hn, hm, hk => by
    simp only [List.map_cons, List.nodup_cons] at hn
    cases hm with
    | head => simp [List.find?, hk]
    | tail _ hm =>
      have : ¬ key x = k := by
        intro e
        exact hn.1 (List.mem_map.mpr ⟨a, hm, by rw [hk, e]⟩)
      have hb : (key x == k) = false := by simp [this]
      simp only [List.find?, hb]
      exact find_of_mem_nodup key xs a k hn.2 hm hk

theorem mem_of_find {α} (p : α → Bool) : ∀ (l : List α) (a : α), l.find? p = some a → a ∈ l ∧ p a = true
  | [], _, h => by cases h
  | x :: xs, a, h => by
    simp only [List.find?] at h
    cases hp : p x
    · rw [hp] at h
      have := mem_of_find p xs a h
      exact ⟨List.mem_cons_of_mem _ this.1, this.2⟩
    · rw [hp] at h
      injection h with h; subst h
      exact ⟨List.mem_cons_self .., hp⟩

/-- every top-level variant is filed under its UID (F8 outside) -/
def TopKeyedByUid (tops : List Variant) : Prop := ∀ v ∈ tops, v.key = v.uid

theorem norm_tops_keys (tops : List Variant) (hk : TopKeyedByUid tops) :
    ((sortBy Variant.uid (normTops tops)).map Variant.key).Perm (tops.map Variant.key) := by
  have h1 := (sortBy_perm Variant.uid (normTops tops)).map Variant.key
  have h2 : (normTops tops).map Variant.key = tops.map Variant.key := by
    rw [normTops_eq_map, List.map_map]
    apply List.map_congr_left
    intro v hv
    simp [Function.comp, normV_key, hk v hv]
  rw [h2] at h1; exact h1

theorem generalPath_pathOpts (arch : Str) (paths : List (Str × Str)) (f sf : Str)
    (hf : f ∈ Gen.TREEINFO_PATH_FIELDS) (hsf : sf ∈ Gen.TREEINFO_PATH_FIELDS) :
    generalPath arch (pathOpts paths) f sf = generalPath arch paths f sf := by
  unfold generalPath
  rw [pathOpts_lookup _ _ hf, pathOpts_lookup _ _ hsf]

theorem normV_paths (b : Bool) (w : Variant) : (normV b w).paths = pathOpts w.paths := by cases w; rfl

/-- the `[general]` section written for the normal form is the one written for the tree, when the chosen key
designates a top-level variant by its container key -/
theorem general_norm (t : TreeInfo) (mv : Option Str) (n n' : Int) (key key' : Str) (chosen chosen' : Variant)
    (hk : TopKeyedByUid t.variants) (hnd : UidsNodup t.variants)
    (hn : t.tree.ts.toInt = .ok n) (hn' : (norm t).tree.ts.toInt = .ok n')
    (hkey : chosenKey t.variants mv = .ok key) (hkey' : chosenKey (norm t).variants mv = .ok key')
    (hch : getItem (key.length + 1) t.variants key = .ok chosen) (hch' : getItem (key'.length + 1) (norm t).variants key' = .ok chosen')
    (htop : ∃ v ∈ t.variants, v.key = key) :
    generalOpts (norm t) n' key' chosen' = generalOpts t n key chosen := by
  have e1 : n' = n := by
    have : (norm t).tree.ts = t.tree.ts := rfl
    rw [this, hn] at hn'; injection hn' with e; exact e.symm
  have hkeys : sortS ((norm t).variants.map Variant.key) = sortS (t.variants.map Variant.key) :=
    sortS_perm_eq (norm_tops_keys t.variants hk)
  have e2 : key' = key := by
    unfold chosenKey at hkey hkey'
    cases mv with
    | some m => simp only at hkey hkey'; injection hkey with a; injection hkey' with b; rw [← a, ← b]
    | none =>
      simp only at hkey hkey'
      rw [hkeys] at hkey'
      rw [hkey] at hkey'
      injection hkey' with e; exact e.symm
  subst e1 e2
  obtain ⟨v, hv, hvk⟩ := htop
  have hkn : (t.variants.map Variant.key).Nodup := by
    have : t.variants.map Variant.key = t.variants.map Variant.uid := List.map_congr_left (fun v hv => hk v hv)
    rw [this]; exact tops_uids_nodup hnd
  -- the chosen variants
  have c1 : chosen = v := by
    have hf := find_of_mem_nodup Variant.key t.variants v key' hkn hv hvk
    rw [getItem] at hch
    simp only [hf] at hch
    injection hch with e; exact e.symm
  have c2 : chosen' = normV true v := by
    have hmem : normV true v ∈ (norm t).variants := by
      show normV true v ∈ sortBy Variant.uid (normTops t.variants)
      rw [mem_sortBy, normTops_eq_map]
      exact List.mem_map.mpr ⟨v, hv, rfl⟩
    have hkn' : ((norm t).variants.map Variant.key).Nodup := (norm_tops_keys t.variants hk).nodup_iff.mpr hkn
    have hf := find_of_mem_nodup Variant.key (norm t).variants (normV true v) key' hkn' hmem
      (by rw [normV_key]; simp [← hk v hv, hvk])
    rw [getItem] at hch'
    simp only [hf] at hch'
    injection hch' with e; exact e.symm
  have hplat : platformsStr (norm t).tree = platformsStr t.tree := by
    unfold platformsStr
    simp only [norm]
    rw [sortDedup_idem_append _ _ (by simp)]
  unfold generalOpts generalBase
  rw [hkeys, hplat, c1, c2, normV_paths, generalPath_pathOpts _ _ _ _ (by decide) (by decide),
    generalPath_pathOpts _ _ _ _ (by decide) (by decide)]
  rfl

/-- the main variant, if one is requested, is the container key of a top-level variant (a UID or dashed path that
designates a child is outside this theorem) -/
def MainVariantTop (t : TreeInfo) (mv : Option Str) : Prop := ∀ m, mv = some m → ∃ v ∈ t.variants, v.key = m

theorem chosen_top {t : TreeInfo} {mv : Option Str} {key : Str} (hm : MainVariantTop t mv)
    (hkey : chosenKey t.variants mv = .ok key) : ∃ v ∈ t.variants, v.key = key := by
  unfold chosenKey at hkey
  cases mv with
  | some m => simp only at hkey; injection hkey with e; subst e; exact hm m rfl
  | none =>
    simp only at hkey
    cases hs : sortS (t.variants.map Variant.key) with
    | nil => rw [hs] at hkey; cases hkey
    | cons k r =>
      rw [hs] at hkey
      injection hkey with e; subst e
      have : k ∈ sortS (t.variants.map Variant.key) := by rw [hs]; exact List.mem_cons_self ..
      obtain ⟨v, hv, hvk⟩ := List.mem_map.mp ((mem_sortS _ k).mp this)
      exact ⟨v, hv, hvk⟩

/-- **the dump of the normal form shows the same bytes as the dump of the tree** -/
theorem render_norm {t : TreeInfo} {mv : Option Str} {d d' : Ini} (h : serialize t mv = .ok d) (h' : serialize (norm t) mv = .ok d')
    (hk : TopKeyedByUid t.variants) (hnd : UidsNodup t.variants) (hmv : MainVariantTop t mv)
    (hcs : (t.checksums.map (·.1)).Nodup) (himg : ∀ p ∈ t.images, (p.2.map (·.1)).Nodup) :
    IniText.render d' = IniText.render d := by
  obtain ⟨n, key, chosen, w⟩ := serialize_spec h
  obtain ⟨n', key', chosen', w'⟩ := serialize_spec h'
  have hg := general_norm t mv n n' key key' chosen chosen' hk hnd w.hn w'.hn w.hkey w'.hkey w.hchosen w'.hchosen
    (chosen_top hmv w.hkey)
  apply render_eq_of_CE w w'
  rw [hg]
  exact docList_norm t _ hcs himg

end TI
end PM
