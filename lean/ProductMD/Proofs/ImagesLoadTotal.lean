import ProductMD.Proofs.ImagesLoad
/-!
Invariants carried through the loops of `Images.deserialize` on an object that SURVIVES an exception (`loadsInto`):
whatever the outcome, every image entered through `add` under the document's header version, so a predicate that
every `add` (accepted or refused) preserves holds of the object the call leaves behind.
-/
namespace PM.Img
open PM PM.PyOps PM.Spec
set_option Elab.async false

/-- a predicate on manifests that every `add` on an object with header version `ver` preserves, accepted or refused -/
structure AddInvariantT (ver : PyVal) (P : ImgState → Prop) : Prop where
  step : ∀ s v a id img, s.version = ver → P s → P (add s v a id img).1

theorem addPyT_inv {ver : PyVal} {P : ImgState → Prop} (hP : AddInvariantT ver P) {s : ImgState} (variant arch : PyVal)
    (id : Nat) (img : Image) (hi : LoadInv ver P s) : LoadInv ver P (addPyT s variant arch id img).1 := by
  unfold addPyT
  split
  · split
    · exact ⟨(add_version s _ _ id img).trans hi.1, hP.step s _ _ id img hi.1 hi.2⟩
    · exact hi
  · exact hi

theorem refileT_inv {ver : PyVal} {P : ImgState → Prop} (hP : AddInvariantT ver P) (variant : PyVal) (id : Nat) (img : Image) :
    ∀ (l : List PyVal) (s : ImgState), LoadInv ver P s → LoadInv ver P (refileT s variant id img l).1 := by
  intro l
  induction l with
  | nil => intro s hi; exact hi
  | cons va rest ih =>
    intro s hi
    unfold refileT
    split
    · exact ih s hi
    · have h1 := addPyT_inv hP variant va id img hi
      split
      · rename_i s' heq
        rw [heq] at h1
        exact ih s' h1
      · rename_i s' e heq
        rw [heq] at h1
        exact h1

theorem fileLoadedT_inv {ver : PyVal} {P : ImgState → Prop} (hP : AddInvariantT ver P) (old : Bool) (s : ImgState)
    (images variant arch : PyVal) (n : Nat) (img : Image) (hi : LoadInv ver P s) :
    LoadInv ver P (fileLoadedT old s images variant arch n img).1 := by
  unfold fileLoadedT
  split
  · split
    · split
      · exact refileT_inv hP variant n img _ s hi
      · exact hi
    · exact addPyT_inv hP variant arch n img hi
  · exact addPyT_inv hP variant arch n img hi

theorem loadCellT_inv {ver : PyVal} {P : ImgState → Prop} (hP : AddInvariantT ver P) (images variant arch : PyVal) :
    ∀ (l : List PyVal) (acc : ImgState × Nat), LoadInv ver P acc.1 →
      LoadInv ver P (loadCellT ver images variant arch l acc).1.1 := by
  intro l
  induction l with
  | nil => intro acc hi; exact hi
  | cons d rest ih =>
    intro acc hi
    obtain ⟨s, n⟩ := acc
    unfold loadCellT
    split
    · exact hi
    · rename_i img old _
      have h1 := fileLoadedT_inv hP old s images variant arch n img hi
      split
      · rename_i s' heq
        rw [heq] at h1
        exact ih (s', n + 1) h1
      · rename_i s' e heq
        rw [heq] at h1
        exact h1

theorem loadArchesT_inv {ver : PyVal} {P : ImgState → Prop} (hP : AddInvariantT ver P) (images variant archs : PyVal) :
    ∀ (l : List PyVal) (acc : ImgState × Nat), LoadInv ver P acc.1 →
      LoadInv ver P (loadArchesT ver images variant archs l acc).1.1 := by
  intro l
  induction l with
  | nil => intro acc hi; exact hi
  | cons a rest ih =>
    intro acc hi
    unfold loadArchesT
    split
    · exact hi
    · rename_i cell _
      have h1 := loadCellT_inv hP images variant a cell acc hi
      split
      · rename_i acc' heq
        rw [heq] at h1
        exact ih acc' h1
      · rename_i acc' e heq
        rw [heq] at h1
        exact h1

theorem loadVariantsT_inv {ver : PyVal} {P : ImgState → Prop} (hP : AddInvariantT ver P) (images : PyVal) :
    ∀ (l : List PyVal) (acc : ImgState × Nat), LoadInv ver P acc.1 →
      LoadInv ver P (loadVariantsT ver images l acc).1.1 := by
  intro l
  induction l with
  | nil => intro acc hi; exact hi
  | cons v rest ih =>
    intro acc hi
    unfold loadVariantsT
    split
    · exact hi
    · rename_i archs keys _
      have h1 := loadArchesT_inv hP images v archs keys acc hi
      split
      · rename_i acc' heq
        rw [heq] at h1
        exact ih acc' h1
      · rename_i acc' e heq
        rw [heq] at h1
        exact h1

/-- the header step: when it does not raise, the version it left is the one `headerDeserialize` returns -/
theorem headerDeserializeInto_ok {v0 doc ver : PyVal} (h : headerDeserializeInto v0 doc = (ver, .ok ())) :
    headerDeserialize doc = .ok ver := by
  unfold headerDeserializeInto at h
  split at h
  · rw [Prod.mk.injEq] at h; cases h.2
  · rename_i ver' hv
    rw [Prod.mk.injEq] at h
    obtain ⟨rfl, h2⟩ := h
    cases hd : headerDeserialize doc with
    | error e => rw [hd] at h2; cases h2
    | ok w =>
      -- `headerDeserialize` returns the version it read
      have : w = ver' := by
        unfold headerDeserialize at hd
        obtain ⟨hdr, h1, hd⟩ := bind_ok hd
        obtain ⟨w', h2', hd⟩ := bind_ok hd
        rw [h1] at hv
        simp only [Except.bind] at hv
        rw [h2'] at hv
        injection hv with hv
        subst hv
        obtain ⟨vt, _, hd⟩ := bind_ok hd
        obtain ⟨typed, _, hd⟩ := bind_ok hd
        dsimp only at hd
        split at hd
        · obtain ⟨ty, _, hd⟩ := bind_ok hd
          split at hd
          · obtain ⟨_, h, _⟩ := bind_ok hd
            cases h
          · obtain ⟨_, _, hd⟩ := bind_ok hd
            injection hd with hd
            exact hd.symm
        · obtain ⟨_, _, hd⟩ := bind_ok hd
          injection hd with hd
          exact hd.symm
      rw [this]

/-- **total load**: a predicate on the cells that every `add` under the document's version preserves (accepted or
refused) holds of the object `loads` leaves behind — whether it returned or raised, and wherever it raised -/
theorem loadsInto_inv (doc : PyVal) (s0 : ImgState) (n0 : Nat) (P : ImgState → Prop)
    (hcells : ∀ s₁ s₂ : ImgState, s₁.cells = s₂.cells → P s₁ → P s₂)
    (hP : ∀ ver, headerDeserialize doc = .ok ver → AddInvariantT ver P)
    (h0 : P s0) : P (loadsInto s0 n0 doc).1 := by
  unfold loadsInto
  split
  · exact hcells s0 _ rfl h0
  · rename_i ver hh
    have hver := headerDeserializeInto_ok hh
    simp only
    split
    · exact hcells s0 _ rfl h0
    · split
      · exact hcells s0 _ rfl h0
      · split
        · exact hcells s0 _ rfl h0
        · rename_i c _ _ images vs _
          have := loadVariantsT_inv (hP ver hver) images vs
            ({ version := ver, compose := c, cells := s0.cells }, n0) ⟨rfl, hcells s0 _ rfl h0⟩
          split
          · rename_i acc e heq
            rw [heq] at this
            exact this.2
          · rename_i acc heq
            rw [heq] at this
            exact hcells acc.1 _ rfl this.2

end PM.Img
