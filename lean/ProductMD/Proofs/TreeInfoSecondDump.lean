import ProductMD.Proofs.TreeInfoWriterConv
/-!
The normal form of a tree that was written can be written again, and shows the same bytes.
-/
namespace PM
namespace TI
open Ini

theorem getItem_top {vs : List Variant} {v : Variant} {k : Str} (hn : (vs.map Variant.key).Nodup) (hv : v ∈ vs) (hk : v.key = k) :
    getItem (k.length + 1) vs k = .ok v := by
  have hf := find_of_mem_nodup Variant.key vs v k hn hv hk
  rw [getItem]
  simp only [hf]

theorem chosenKey_norm (t : TreeInfo) (mv : Option Str) (hk : TopKeyedByUid t.variants) :
    chosenKey (norm t).variants mv = chosenKey t.variants mv := by
  unfold chosenKey
  cases mv with
  | some m => rfl
  | none =>
    simp only
    have : sortS ((norm t).variants.map Variant.key) = sortS (t.variants.map Variant.key) :=
      sortS_perm_eq (norm_tops_keys t.variants hk)
    rw [this]

theorem mediaOn_norm (a b : Option Int) :
    mediaOn (if !intTruthy a && !intTruthy b then none else a) (if !intTruthy a && !intTruthy b then none else b) = mediaOn a b := by
  have hn : intTruthy none = false := rfl
  cases ha : intTruthy a <;> cases hb : intTruthy b <;> simp [mediaOn, ha, hb, hn]

theorem stage2On_norm (m i : Option Str) :
    stage2On (if optTruthy m then m else none) (if optTruthy i then i else none) = stage2On m i := by
  unfold stage2On; rw [optTruthy_normOpt, optTruthy_normOpt]

/-- **the re-read tree can be written again** -/
theorem canWrite_norm {t : TreeInfo} {mv : Option Str} {d : Ini} (h : serialize t mv = .ok d) (hv : ReadValid (norm t))
    (hk : TopKeyedByUid t.variants) (hnd : UidsNodup t.variants) (hmv : MainVariantTop t mv) : CanWrite (norm t) mv := by
  obtain ⟨n, key, chosen, w⟩ := serialize_spec h
  have wv := serialize_valid h
  refine ⟨header_valid_current, wv.release, ?_, hv.tree, hv.tops, hv.forest, hv.checksums, fun _ => hv.images, fun _ => hv.stage2,
    ?_, ?_, ?_, ⟨n, w.hn⟩, ?_⟩
  · intro hl
    obtain ⟨p, hp, hvp⟩ := wv.base hl
    have hl' : t.isLayered = true := hl
    exact ⟨p, by simp only [norm, hl', if_true, hp], hvp⟩
  · intro hon
    have hon' : mediaOn t.discnum t.totaldiscs = true := by
      have := mediaOn_norm t.discnum t.totaldiscs
      simp only [norm] at hon
      rw [this] at hon; exact hon
    obtain ⟨ha, hb⟩ := w.media hon'
    refine ⟨hv.media, ?_, ?_⟩
    · simp only [norm]
      unfold mediaOn at hon'
      cases h1 : intTruthy t.discnum <;> cases h2 : intTruthy t.totaldiscs <;> simp_all
    · simp only [norm]
      unfold mediaOn at hon'
      cases h1 : intTruthy t.discnum <;> cases h2 : intTruthy t.totaldiscs <;> simp_all
  · -- section names of the forest
    have h1 : ((flatVs none t.variants).map (·.1)).Nodup := nodup_sublist_keys w.nodup
    have h2 := (flat_norm_tops t.variants).map (·.1)
    have h3 := namesVs_perm (norm t).variants none
    exact (h3.trans h2).nodup_iff.mpr h1
  · -- section names of the images
    have h1 : ((imgFlat t.images).map (·.1)).Nodup := by
      have := w.nodup
      simp only [docList, List.map_append, List.nodup_append] at this
      exact this.2.1.2.1.2.1.1
    rw [imgFlat_keys] at h1
    have h2 : (t.images.map fun p => pImages ++ p.1).Nodup := (List.reverse_perm _).nodup_iff.mp h1
    have h3 : ((norm t).images.map fun p => pImages ++ p.1).Perm (t.images.map fun p => pImages ++ p.1) := by
      show ((sortKV (t.images.map fun p => (p.1, sortKV p.2))).map fun p => pImages ++ p.1).Perm _
      refine ((sortKV_perm _).map _).trans ?_
      rw [List.map_map]
      exact List.Perm.of_eq (List.map_congr_left (fun p _ => rfl))
    exact h3.nodup_iff.mpr h2
  · -- the chosen variant
    obtain ⟨v, hvm, hvk⟩ := chosen_top hmv w.hkey
    have hkn : (t.variants.map Variant.key).Nodup := by
      have : t.variants.map Variant.key = t.variants.map Variant.uid := List.map_congr_left (fun v hv => hk v hv)
      rw [this]; exact tops_uids_nodup hnd
    have hkn' : ((norm t).variants.map Variant.key).Nodup := (norm_tops_keys t.variants hk).nodup_iff.mpr hkn
    have hmem : normV true v ∈ (norm t).variants := by
      show normV true v ∈ sortBy Variant.uid (normTops t.variants)
      rw [mem_sortBy, normTops_eq_map]
      exact List.mem_map.mpr ⟨v, hvm, rfl⟩
    refine ⟨key, normV true v, by rw [chosenKey_norm t mv hk]; exact w.hkey, ?_⟩
    exact getItem_top hkn' hmem (by rw [normV_key]; simp [← hk v hvm, hvk])

/-- **C04: the second dump shows the same bytes as the first** (document level) -/
theorem second_dump {t : TreeInfo} {mv : Option Str} {d : Ini} (h : serialize t mv = .ok d) (hv : ReadValid (norm t))
    (hk : TopKeyedByUid t.variants) (hnd : UidsNodup t.variants) (hmv : MainVariantTop t mv)
    (hcs : (t.checksums.map (·.1)).Nodup) (himg : ∀ p ∈ t.images, (p.2.map (·.1)).Nodup) :
    ∃ d', serialize (norm t) mv = .ok d' ∧ IniText.render d' = IniText.render d := by
  obtain ⟨d', h'⟩ := serialize_conv (canWrite_norm h hv hk hnd hmv)
  exact ⟨d', h', render_norm h h' hk hnd hmv hcs himg⟩

end TI
end PM
