import ProductMD.Proofs.Nvra
import ProductMD.Model.ComposeId
/-!
First success of the `get_date_type_respin` pattern (`Spec.dtr`) on `prefix ++ date ++ [.letters] ++ [.digits]`:
the greedy `.*` hands the date group the LAST 8-digit window, the optional groups are taken when present.
No length bound on the prefix; the respin part has at most 7 digits (otherwise it would itself contain the last
window — finding F10).
-/
namespace PM.IdProof
open PM PM.First PM.Spec PM.Dec PM.NvraProof

/-! ### `\d{8}` -/
theorem rep_succ_succ (n : Nat) (r : Re) : Re.rep (n + 2) r = .cat r (Re.rep (n + 1) r) := rfl

/-- soundness: what `k{n+1}` consumes is `n+1` class members -/
theorem rep_sound (f : Nat) (k : Cls) : ∀ (n : Nat) (s t : Str), t ∈ m f (Re.rep (n + 1) (.cls k)) s →
    ∃ d, s = d ++ t ∧ d.length = n + 1 ∧ ∀ x ∈ d, k.mem x = true := by
  intro n
  induction n with
  | zero =>
    intro s t h
    change t ∈ m f (.cls k) s at h
    cases s with
    | nil => simp at h
    | cons x xs =>
      rw [m_cls_cons] at h
      by_cases hx : k.mem x = true
      · simp [hx] at h; subst h; exact ⟨[x], rfl, rfl, by simpa using hx⟩
      · simp [hx] at h
  | succ n ih =>
    intro s t h
    rw [rep_succ_succ, m_cat] at h
    obtain ⟨t1, ht1, ht⟩ := List.mem_flatMap.mp h
    cases s with
    | nil => simp at ht1
    | cons x xs =>
      rw [m_cls_cons] at ht1
      by_cases hx : k.mem x = true
      · simp [hx] at ht1; subst ht1
        obtain ⟨d, h1, h2, h3⟩ := ih _ t ht
        refine ⟨x :: d, by rw [h1]; rfl, by simp [h2], ?_⟩
        intro y hy
        rcases List.mem_cons.mp hy with hy | hy
        · subst hy; exact hx
        · exact h3 y hy
      · simp [hx] at ht1

/-- completeness: on `n+1` class members followed by `t` the only success leaves `t` -/
theorem rep_complete (f : Nat) (k : Cls) (t : Str) (c : Caps) : ∀ (n : Nat) (d : Str), d.length = n + 1 →
    (∀ x ∈ d, k.mem x = true) → mc f (Re.rep (n + 1) (.cls k)) (d ++ t) c = [(t, c)] := by
  intro n
  induction n with
  | zero =>
    intro d hl hk
    match d, hl with
    | [x], _ =>
      change mc f (.cls k) (x :: t) c = _
      rw [mc_cls_cons, hk x (by simp)]; rfl
  | succ n ih =>
    intro d hl hk
    match d, hl with
    | x :: d', hl =>
      rw [rep_succ_succ, List.cons_append, mc_cls_cat_mem _ _ _ _ _ _ (hk x List.mem_cons_self)]
      exact ih d' (by simpa using hl) (fun y hy => hk y (List.mem_cons_of_mem _ hy))

/-! ### no later 8-digit window -/
/-- `d ++ r = a ++ X`, `|a| < |d|`: the first character of `X` lies in `d` -/
theorem head_in_of_short {d r a X : Str} (h : d ++ r = a ++ X) (hl : a.length < d.length) :
    ∃ y X', X = y :: X' ∧ y ∈ d := by
  rcases List.append_eq_append_iff.mp h with ⟨a', h1, h2⟩ | ⟨b, h1, h2⟩
  · -- a = d ++ a'
    rw [h1] at hl; simp at hl; omega
  · -- d = a ++ b
    cases b with
    | nil => rw [h1] at hl; simp at hl
    | cons y b' => exact ⟨y, b' ++ r, by rw [h2]; rfl, by rw [h1]; exact List.mem_append_right _ List.mem_cons_self⟩

/-- `A` has no class member, `R` fewer than 8 characters: no 8 class members in a row start anywhere in `A ++ R` -/
theorem no_window (k : Cls) (A R : Str) (hA : ∀ x ∈ A, k.mem x = false) (hR : R.length < 8)
    (a d r : Str) (h : A ++ R = a ++ (d ++ r)) (hd : d.length = 8) (hk : ∀ x ∈ d, k.mem x = true) : False := by
  rcases List.append_eq_append_iff.mp h with ⟨a', h1, h2⟩ | ⟨b, h1, h2⟩
  · -- a = A ++ a', R = a' ++ (d ++ r)
    have := congrArg List.length h2
    simp at this; omega
  · -- A = a ++ b, d ++ r = b ++ R
    by_cases hb : b.length < d.length
    · obtain ⟨y, X', hX, hy⟩ := head_in_of_short h2 hb
      -- the first character of R is in d: fine, but then look at b instead: every char of b is in A
      rcases List.append_eq_append_iff.mp h2 with ⟨a'', g1, g2⟩ | ⟨b'', g1, g2⟩
      · rw [g1] at hb; simp at hb; omega
      · -- d = b ++ b'', R = b'' ++ r
        cases b with
        | nil =>
          simp at g1
          have := congrArg List.length g2
          rw [← g1] at this
          simp at this; omega
        | cons z b' =>
          have hz : z ∈ A := by rw [h1]; exact List.mem_append_right _ List.mem_cons_self
          have hz' : z ∈ d := by rw [g1]; exact List.mem_cons_self
          have := hk z hz'
          rw [hA z hz] at this; cases this
    · -- all of d lies inside b ⊆ A
      rcases List.append_eq_append_iff.mp h2 with ⟨a'', g1, g2⟩ | ⟨b'', g1, g2⟩
      · -- b = d ++ a''
        cases d with
        | nil => simp at hd
        | cons z d' =>
          have hz : z ∈ A := by rw [h1, g1]; exact List.mem_append_right _ List.mem_cons_self
          have := hk z List.mem_cons_self
          rw [hA z hz] at this; cases this
      · -- d = b ++ b''  with |b| ≥ |d| ⇒ b'' = []
        have := congrArg List.length g1
        simp at this
        have hb'' : b'' = [] := List.eq_nil_of_length_eq_zero (by omega)
        subst hb''
        simp at g1
        cases d with
        | nil => simp at hd
        | cons z d' =>
          have hz : z ∈ A := by rw [h1, ← g1]; exact List.mem_append_right _ List.mem_cons_self
          have := hk z List.mem_cons_self
          rw [hA z hz] at this; cases this

/-- after the date `D`, the tail `A ++ R` (`A` digit-free, empty only if `R` is; `R` shorter than 8): every split point
to the right of the date fails to start an 8-digit window -/
theorem dtr_later (f : Nat) (D A R : Str) (hD : D.length = 8) (hA : ∀ x ∈ A, digitCls.mem x = false)
    (hR : R.length < 8) (hAR : A = [] → R = []) :
    ∀ w t', w ≠ [] → D ++ (A ++ R) = w ++ t' → (∀ x ∈ w, Cls.any.mem x = true) → m f dtT1 t' = [] := by
  intro w t' hw h _
  apply List.eq_nil_iff_forall_not_mem.mpr
  intro t ht
  rw [dtT1, m_cat] at ht
  obtain ⟨t1, ht1, _⟩ := List.mem_flatMap.mp ht
  rw [dtDate, m_grp, digits8] at ht1
  obtain ⟨d, hd1, hd2, hd3⟩ := rep_sound f digitCls 7 t' t1 ht1
  rw [hd1] at h
  rcases List.append_eq_append_iff.mp h with ⟨a', h1, h2⟩ | ⟨b, h1, h2⟩
  · -- w = D ++ a' : the window lies in A ++ R
    exact no_window digitCls A R hA hR a' d t1 h2 hd2 hd3
  · -- D = w ++ b, d ++ t1 = b ++ (A ++ R), |b| < 8
    have hb : b.length < d.length := by
      have := congrArg List.length h1
      simp at this
      have : 0 < w.length := List.length_pos_iff.mpr hw
      omega
    obtain ⟨y, X', hX, hy⟩ := head_in_of_short h2 hb
    cases A with
    | nil => rw [hAR rfl] at hX; simp at hX
    | cons z A' =>
      simp at hX
      have := hd3 y hy
      rw [← hX.1, hA z List.mem_cons_self] at this
      cases this

/-! ### the optional type and respin groups -/
/-- `.letters` or nothing -/
def sufStr : Str → Str
  | [] => []
  | l => '.' :: l
/-- `.respin` or nothing -/
def respStr : Option Nat → Str
  | none => []
  | some n => '.' :: Str.natStr n
def sufCaps : Str → Caps
  | [] => []
  | l => [(2, '.' :: l)]
def respCaps : Option Nat → Caps
  | none => []
  | some n => [(3, '.' :: Str.natStr n), (4, Str.natStr n)]

theorem dig_facts : ∀ d, d < 10 → lowerCls.mem (Str.digitChar d) = false := by decide
theorem _root_.PM.Dec.IsDig.not_lower {c} (h : IsDig c) : lowerCls.mem c = false := by
  obtain ⟨d, hd, rfl⟩ := h; exact dig_facts d hd
theorem dot_not_lower : lowerCls.mem '.' = false := by decide
theorem dot_not_digit : digitCls.mem '.' = false := by decide
theorem lower_not_digit : ∀ r ∈ Gen.digitRanges, r.2 < 97 ∨ 122 < r.1 := by decide

theorem lower_digit_disjoint {x : Char} (h : lowerCls.mem x = true) : digitCls.mem x = false := by
  cases hd : digitCls.mem x with
  | false => rfl
  | true =>
    simp only [digitCls, Cls.mem, bne_iff_ne, ne_eq, Bool.not_eq_false, List.any_eq_true, Bool.and_eq_true,
      decide_eq_true_eq] at hd
    obtain ⟨r, hr, h1, h2⟩ := hd
    simp [lowerCls, Cls.mem] at h
    have := lower_not_digit r hr
    omega

theorem anyStar_nil (f : Nat) (c : Caps) : (mc f anyStar [] c).head? = some ([], c) := by
  rw [anyStar, mc_star, starAuxC_cls_nil]; rfl

/-- the respin group and the trailing `.*` on `[.digits]` -/
theorem t3 (f : Nat) (r : Option Nat) (c : Caps) (hf : (respStr r).length ≤ f) :
    (mc f dtT3 (respStr r) c).head? = some ([], respCaps r ++ c) := by
  cases r with
  | none =>
    simp only [respStr, respCaps, List.nil_append]
    rw [dtT3, first_opt_absent _ _ _ _ _ (by rfl)]
    exact anyStar_nil f c
  | some n =>
    simp only [respStr, respCaps]
    have hne := natStr_ne_nil n
    have hdig := natStr_dig n
    cases hs : Str.natStr n with
    | nil => exact absurd hs hne
    | cons d0 ds =>
      rw [hs] at hdig
      simp only [respStr, hs] at hf
      have hplus : (mc f (.cat (.cls digitCls) (.star (.cls digitCls))) (d0 :: ds) c).head? = some ([], c) := by
        rw [mc_cls_cat_mem _ _ _ _ _ _ (hdig d0 List.mem_cons_self).cls, mc_star]
        have := star_head f digitCls ds [] f c (fun x hx => (hdig x (List.mem_cons_of_mem _ hx)).cls)
          (by simp at hf ⊢; omega) (by intro x t' e; cases e)
        simpa using this
      have h4 : (mc f dtNum (d0 :: ds) c).head? = some ([], (4, d0 :: ds) :: c) :=
        first_grp_eq f 4 _ _ c (d0 :: ds) [] c (by simp) hplus
      have h3 : (mc f dtRespin ('.' :: d0 :: ds) c).head? = some ([], (3, '.' :: d0 :: ds) :: (4, d0 :: ds) :: c) := by
        apply first_grp_eq f 3 _ _ c ('.' :: d0 :: ds) [] _ (by simp)
        rw [mc_lit_cat]; exact h4
      exact first_opt_present f dtRespin anyStar _ c _ _ h3 (anyStar_nil f _)

theorem respStr_head (r : Option Nat) : ∀ x t', respStr r = x :: t' → lowerCls.mem x = false := by
  intro x t' h
  cases r with
  | none => simp [respStr] at h
  | some n => simp [respStr] at h; rw [← h.1]; exact dot_not_lower

/-- the type group on `[.letters][.digits]` -/
theorem t2 (f : Nat) (L : Str) (r : Option Nat) (c : Caps) (hL : ∀ x ∈ L, lowerCls.mem x = true)
    (hf : (sufStr L ++ respStr r).length ≤ f) :
    (mc f dtT2 (sufStr L ++ respStr r) c).head? = some ([], respCaps r ++ (sufCaps L ++ c)) := by
  cases L with
  | nil =>
    simp only [sufStr, sufCaps, List.nil_append] at hf ⊢
    have hfail : m f dtType (respStr r) = [] := by
      rw [dtType, m_grp, dtTypeIn]
      cases r with
      | none => exact m_cls_cat_nil _ _ _
      | some n =>
        simp only [respStr]
        rw [Re.lit, m_cls_cat_mem _ _ _ _ _ (lit_self '.')]
        cases hs : Str.natStr n with
        | nil => exact m_cls_cat_nil _ _ _
        | cons d0 ds =>
          apply m_cls_cat_not
          exact (natStr_dig n d0 (by rw [hs]; exact List.mem_cons_self)).not_lower
    rw [dtT2, first_opt_absent _ _ _ _ _ hfail]
    exact t3 f r c hf
  | cons l0 ls =>
    simp only [sufStr, sufCaps, List.cons_append] at hf ⊢
    have hin : (mc f dtTypeIn ('.' :: (l0 :: ls ++ respStr r)) c).head? = some (respStr r, c) := by
      rw [dtTypeIn, mc_lit_cat, List.cons_append, mc_cls_cat_mem _ _ _ _ _ _ (hL l0 List.mem_cons_self), mc_star]
      exact star_head f lowerCls ls (respStr r) f c (fun x hx => hL x (List.mem_cons_of_mem _ hx))
        (by simp at hf ⊢; omega) (respStr_head r)
    have h2 : (mc f dtType ('.' :: (l0 :: ls ++ respStr r)) c).head? = some (respStr r, (2, '.' :: l0 :: ls) :: c) :=
      first_grp_eq f 2 _ _ c ('.' :: l0 :: ls) (respStr r) c (by simp) hin
    rw [dtT2]
    apply first_opt_present f dtType dtT3 _ c _ _ h2
    have := t3 f r ((2, '.' :: l0 :: ls) :: c) (by simp at hf ⊢; omega)
    simpa using this

/-- digit-free part and digit part of the tail, for `dtr_later` -/
theorem tail_split (L : Str) (r : Option Nat) (hL : ∀ x ∈ L, lowerCls.mem x = true)
    (hr : ∀ n, r = some n → n < 10 ^ 7) :
    ∃ A R, sufStr L ++ respStr r = A ++ R ∧ (∀ x ∈ A, digitCls.mem x = false) ∧ R.length < 8 ∧ (A = [] → R = []) := by
  have hsuf : ∀ x ∈ sufStr L, digitCls.mem x = false := by
    intro x hx
    cases L with
    | nil => simp [sufStr] at hx
    | cons l0 ls =>
      simp only [sufStr, List.mem_cons] at hx
      rcases hx with rfl | rfl | hx
      · exact dot_not_digit
      · exact lower_digit_disjoint (hL _ List.mem_cons_self)
      · exact lower_digit_disjoint (hL x (List.mem_cons_of_mem _ hx))
  cases r with
  | none => exact ⟨sufStr L, [], by simp [respStr], hsuf, by simp, fun _ => rfl⟩
  | some n =>
    refine ⟨sufStr L ++ ['.'], Str.natStr n, by simp [respStr], ?_, ?_, by simp⟩
    · intro x hx
      rcases List.mem_append.mp hx with hx | hx
      · exact hsuf x hx
      · simp at hx; subst hx; exact dot_not_digit
    · have := natStr_len n 7 (by decide) (hr n rfl)
      omega

/-- **first success of the date/type/respin pattern**: the captures on `prefix ++ date ++ [.letters] ++ [.respin]` -/
theorem dtr_first (P D L : Str) (r : Option Nat) (hP : '\n' ∉ P) (hD : D.length = 8)
    (hDd : ∀ x ∈ D, digitCls.mem x = true) (hL : ∀ x ∈ L, lowerCls.mem x = true)
    (hr : ∀ n, r = some n → n < 10 ^ 7) :
    pyMatch Spec.dtr (P ++ (D ++ (sufStr L ++ respStr r))) = some (respCaps r ++ (sufCaps L ++ [(1, D)])) := by
  obtain ⟨A, R, hAR, hA, hR, hAR'⟩ := tail_split L r hL hr
  unfold pyMatch
  have hfirst : (mc (P ++ (D ++ (sufStr L ++ respStr r))).length Spec.dtr (P ++ (D ++ (sufStr L ++ respStr r))) []).head?
      = some ([], respCaps r ++ (sufCaps L ++ [(1, D)])) := by
    rw [Spec.dtr, anyStar]
    apply first_star_cat _ Cls.any dtT1 P _ [] _ (any_all hP) (Nat.le_refl _)
    · rw [hAR]; exact dtr_later _ D A R hD hA hR hAR'
    · rw [dtT1]
      have hdate : (mc (P ++ (D ++ (sufStr L ++ respStr r))).length dtDate (D ++ (sufStr L ++ respStr r)) []).head?
          = some (sufStr L ++ respStr r, [(1, D)]) := by
        apply first_grp_eq _ 1 _ _ [] D _ [] rfl
        rw [digits8, rep_complete _ digitCls _ [] 7 D hD hDd]; rfl
      apply first_cat_head _ _ _ _ [] _ _ hdate
      exact t2 _ L r [(1, D)] hL (by simp; omega)
  rw [hfirst]; rfl

end PM.IdProof
