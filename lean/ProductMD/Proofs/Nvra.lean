import ProductMD.Proofs.RegexFirst
import ProductMD.Proofs.Decimal
import ProductMD.Spec.IdPatterns
/-!
First success of the NVRA pattern (`Spec.nvra`, proved equal to the generated one in `Properties/C13.lean`) on
`dir ++ name-[epoch:]version-release.arch`, tail by tail, with the exact capture list.  No length bound.
-/
namespace PM.NvraProof
open PM PM.First PM.Spec PM.Dec

/-! ### character classes -/
theorem any_mem {x : Char} (h : x ≠ '\n') : Cls.any.mem x = true := by
  have : x.toNat ≠ 10 := fun e => h (Char.toNat_inj.mp e)
  simp [Cls.any, Cls.mem]
  omega

theorem any_all {s : Str} (h : '\n' ∉ s) : ∀ x ∈ s, Cls.any.mem x = true :=
  fun x hx => any_mem (fun e => h (e ▸ hx))

theorem lit_self (d : Char) : (Cls.lit d).mem d = true := by simp [Cls.lit, Cls.mem]

theorem lit_ne {d x : Char} (h : x ≠ d) : (Cls.lit d).mem x = false := by
  cases hm : (Cls.lit d).mem x with
  | false => rfl
  | true => exact absurd (lit_mem hm) h

/-! ### list facts -/
theorem take_len_sub (u t : Str) : (u ++ t).take ((u ++ t).length - t.length) = u := by simp

/-- `d` occurs in `a ++ d :: b` only at the split point ⇒ whatever follows any occurrence of `d` is free of `d` -/
theorem no_later_delim {d : Char} {a b a' b' : Str} (ha : d ∉ a) (hb : d ∉ b)
    (h : a ++ d :: b = a' ++ d :: b') : d ∉ b' := by
  have hc := congrArg (List.count d) h
  simp only [List.count_append, List.count_cons_self, List.count_eq_zero.mpr ha, List.count_eq_zero.mpr hb] at hc
  exact List.count_eq_zero.mp (by omega)

/-- the part after the last `d` is determined -/
theorem last_split_unique {d : Char} {a b a' b' : Str} (hb : d ∉ b) (hb' : d ∉ b')
    (h : a ++ d :: b = a' ++ d :: b') : b = b' := by
  rcases List.append_eq_append_iff.mp h with ⟨x, h1, h2⟩ | ⟨x, h1, h2⟩
  · cases x with
    | nil => simpa using h2
    | cons y ys =>
      simp at h2
      exact absurd (h2.2 ▸ (List.mem_append_right ys List.mem_cons_self)) hb
  · cases x with
    | nil => simp at h2; exact h2.symm
    | cons y ys =>
      simp at h2
      exact absurd (h2.2 ▸ (List.mem_append_right ys List.mem_cons_self)) hb'

/-- later split points of a greedy `.*` fail at once when the delimiter does not occur again -/
theorem later_fail (f : Nat) (d d0 : Char) (X : Re) (v : Str) (hv : d ∉ v) :
    ∀ w t', w ≠ [] → d0 :: v = w ++ t' → (∀ x ∈ w, Cls.any.mem x = true) → m f (.cat (Re.lit d) X) t' = [] := by
  intro w t' hw h _
  cases w with
  | nil => exact absurd rfl hw
  | cons x w' =>
    simp at h
    cases t' with
    | nil => exact m_cls_cat_nil _ _ _
    | cons y t'' =>
      apply m_cls_cat_not
      apply lit_ne
      intro e
      exact hv (by rw [h.2, e]; exact List.mem_append_right _ List.mem_cons_self)

/-! ### the tails, right to left -/
theorem t7 (f : Nat) (arch : Str) (c : Caps) (h : '\n' ∉ arch) (hf : arch.length ≤ f) :
    (mc f nvT7 arch c).head? = some ([], (7, arch) :: c) := by
  have := first_grpstar_cat f Cls.any 7 .eol arch [] c ([], (7, arch) :: c) (any_all h) (by simpa using hf)
    (by intro w t' hw e _; cases w with
        | nil => exact absurd rfl hw
        | cons x w' => simp at e) (by rfl)
  rw [List.append_nil] at this
  exact this

theorem t6 (f : Nat) (rel arch : Str) (c : Caps) (hrel : '\n' ∉ rel) (hnl : '\n' ∉ arch) (hdot : '.' ∉ arch)
    (hf : (rel ++ '.' :: arch).length ≤ f) :
    (mc f nvT6 (rel ++ '.' :: arch) c).head? = some ([], (7, arch) :: (6, rel) :: c) := by
  apply first_grpstar_cat f Cls.any 6 _ rel ('.' :: arch) c _ (any_all hrel) hf (later_fail f '.' '.' nvT7 arch hdot)
  rw [mc_lit_cat]
  exact t7 f arch _ hnl (by simp at hf; omega)

theorem t5 (f : Nat) (ver rel arch : Str) (c : Caps) (hver : '\n' ∉ ver) (hrel : '\n' ∉ rel) (hreld : '-' ∉ rel)
    (hnl : '\n' ∉ arch) (hdot : '.' ∉ arch) (hdash : '-' ∉ arch)
    (hf : (ver ++ '-' :: (rel ++ '.' :: arch)).length ≤ f) :
    (mc f nvT5 (ver ++ '-' :: (rel ++ '.' :: arch)) c).head? = some ([], (7, arch) :: (6, rel) :: (5, ver) :: c) := by
  have hv : '-' ∉ rel ++ '.' :: arch := by simp [hreld, hdash]
  apply first_grpstar_cat f Cls.any 5 _ ver _ c _ (any_all hver) hf (later_fail f '-' '-' nvT6 _ hv)
  rw [mc_lit_cat]
  exact t6 f rel arch _ hrel hnl hdot (by simp at hf ⊢; omega)

/-! ### the optional epoch group -/
theorem starAux_results (f k) (n : Nat) (s t : Str) (h : t ∈ starAux (m f (.cls k)) n s) :
    ∃ w, s = w ++ t ∧ ∀ x ∈ w, k.mem x = true := by
  rw [← starAuxC_fst (mc f (.cls k)) (m f (.cls k)) (mc_fst (.cls k) f) n s []] at h
  obtain ⟨p, hp, rfl⟩ := List.mem_map.mp h
  exact (star_results f k n s [] p hp).2

/-- soundness of `k+ d`: what it consumes is class members followed by `d` -/
theorem epoch_sound (f : Nat) (s t : Str) (h : t ∈ m f nvEpoch s) :
    ∃ w, w ≠ [] ∧ s = w ++ ':' :: t ∧ ∀ x ∈ w, digitCls.mem x = true := by
  simp only [nvEpoch, m_cat, m_grp, Re.lit] at h
  obtain ⟨t1, ht1, ht⟩ := List.mem_flatMap.mp h
  obtain ⟨t0, ht0, ht01⟩ := List.mem_flatMap.mp ht1
  cases s with
  | nil => simp at ht0
  | cons x s' =>
    rw [m_cls_cons] at ht0
    by_cases hx : digitCls.mem x = true
    · simp [hx] at ht0
      subst ht0
      rw [m_star] at ht01
      obtain ⟨w, hw, hk⟩ := starAux_results f digitCls f _ t1 ht01
      cases t1 with
      | nil => simp at ht
      | cons y t1' =>
        rw [m_cls_cons] at ht
        by_cases hy : (Cls.lit ':').mem y = true
        · simp [hy] at ht
          have := lit_mem hy
          subst this; subst ht
          refine ⟨x :: w, by simp, by rw [hw]; rfl, ?_⟩
          intro z hz
          rcases List.mem_cons.mp hz with hz | hz
          · subst hz; exact hx
          · exact hk z hz
        · simp [hy] at ht
    · simp [hx] at ht0

theorem colon_not_digit : digitCls.mem ':' = false := by decide
theorem dash_not_digit : digitCls.mem '-' = false := by decide

/-- without epoch: the group fails on `version-…` when the version has no `:` -/
theorem epoch_absent (f : Nat) (ver v : Str) (h : ':' ∉ ver) : m f nvG3 (ver ++ '-' :: v) = [] := by
  apply List.eq_nil_iff_forall_not_mem.mpr
  intro t ht
  simp only [nvG3, m_grp] at ht
  obtain ⟨w, hw, hs, hk⟩ := epoch_sound f _ t ht
  rcases List.append_eq_append_iff.mp hs with ⟨a, h1, h2⟩ | ⟨b, h1, h2⟩
  · cases a with
    | nil => simp at h2
    | cons y ys =>
      simp at h2
      have hy : '-' ∈ w := by rw [h1, ← h2.1]; exact List.mem_append_right _ List.mem_cons_self
      have := hk _ hy
      rw [dash_not_digit] at this
      cases this
  · cases b with
    | nil => simp at h2
    | cons y ys =>
      simp at h2
      exact h (by rw [h1, ← h2.1]; exact List.mem_append_right _ List.mem_cons_self)

/-- with epoch `e` (non-empty, digits): the group takes exactly `e:` -/
theorem epoch_present (f : Nat) (e rest : Str) (c : Caps) (hne : e ≠ []) (hd : ∀ x ∈ e, digitCls.mem x = true)
    (hf : (e ++ ':' :: rest).length ≤ f) :
    (mc f nvG3 (e ++ ':' :: rest) c).head? = some (rest, (3, e ++ [':']) :: (4, e) :: c) := by
  cases e with
  | nil => exact absurd rfl hne
  | cons d0 ds =>
    have hstar : (mc f (.cat (.cls digitCls) (.star (.cls digitCls))) ((d0 :: ds) ++ ':' :: rest) c).head?
        = some (':' :: rest, c) := by
      rw [List.cons_append, mc_cls_cat_mem _ _ _ _ _ _ (hd d0 List.mem_cons_self), mc_star]
      apply star_head f digitCls ds (':' :: rest) f c (fun x hx => hd x (List.mem_cons_of_mem _ hx))
      · simp at hf ⊢; omega
      · intro x t' e; simp at e; rw [← e.1]; exact colon_not_digit
    have hg4 := first_grp_eq f 4 _ _ c (d0 :: ds) (':' :: rest) c rfl hstar
    have hcat : (mc f nvEpoch ((d0 :: ds) ++ ':' :: rest) c).head? = some (rest, (4, d0 :: ds) :: c) := by
      apply first_cat_head f _ _ _ c _ _ hg4
      rw [mc_lit_self]; rfl
    rw [nvG3]
    exact first_grp_eq f 3 _ _ c ((d0 :: ds) ++ [':']) rest _ (by simp) hcat

/-! ### epoch present or absent, then the name and the directory -/
/-- the epoch part of the formatted string … -/
def epStr : Option Nat → Str
  | none => []
  | some e => Str.natStr e ++ [':']
/-- … and of the capture list (outer group 3, named group 4) -/
def epCaps : Option Nat → Caps
  | none => []
  | some e => [(3, Str.natStr e ++ [':']), (4, Str.natStr e)]
/-- capture of the unnamed directory group -/
def dirCaps : Str → Caps
  | [] => []
  | d => [(1, d)]

theorem epStr_not_mem (ep : Option Nat) (x : Char) (hx : x.toNat < 48 ∨ 58 < x.toNat) : x ∉ epStr ep := by
  cases ep with
  | none => simp [epStr]
  | some e =>
    simp only [epStr, List.mem_append, List.mem_singleton, not_or]
    refine ⟨fun h => (natStr_dig e x h).ne (by omega) rfl, ?_⟩
    intro h; subst h; simp at hx

theorem t4 (f : Nat) (ep : Option Nat) (ver rel arch : Str) (c : Caps)
    (hver : '\n' ∉ ver) (hcolon : ep = none → ':' ∉ ver) (hrel : '\n' ∉ rel) (hreld : '-' ∉ rel)
    (hnl : '\n' ∉ arch) (hdot : '.' ∉ arch) (hdash : '-' ∉ arch)
    (hf : (epStr ep ++ (ver ++ '-' :: (rel ++ '.' :: arch))).length ≤ f) :
    (mc f nvT4 (epStr ep ++ (ver ++ '-' :: (rel ++ '.' :: arch))) c).head?
      = some ([], (7, arch) :: (6, rel) :: (5, ver) :: (epCaps ep ++ c)) := by
  cases ep with
  | none =>
    simp only [epStr, epCaps, List.nil_append] at hf ⊢
    rw [nvT4, first_opt_absent _ _ _ _ _ (epoch_absent f ver _ (hcolon rfl))]
    exact t5 f ver rel arch c hver hrel hreld hnl hdot hdash hf
  | some e =>
    simp only [epStr, epCaps, List.append_assoc, List.cons_append, List.nil_append] at hf ⊢
    apply first_opt_present f nvG3 nvT5 _ c (_, _) _
      (epoch_present f (Str.natStr e) _ c (natStr_ne_nil e) (fun x hx => (natStr_dig e x hx).cls) hf)
    exact t5 f ver rel arch _ hver hrel hreld hnl hdot hdash (by simp at hf ⊢; omega)

theorem nvT4_requires_dash : nvT4.requires '-' = true := by decide
theorem nvG1_requires_slash : nvG1.requires '/' = true := by decide

theorem t2 (f : Nat) (name : Str) (ep : Option Nat) (ver rel arch : Str) (c : Caps) (hname : '\n' ∉ name)
    (hver : '\n' ∉ ver) (hverd : '-' ∉ ver) (hcolon : ep = none → ':' ∉ ver) (hrel : '\n' ∉ rel) (hreld : '-' ∉ rel)
    (hnl : '\n' ∉ arch) (hdot : '.' ∉ arch) (hdash : '-' ∉ arch)
    (hf : (name ++ '-' :: (epStr ep ++ (ver ++ '-' :: (rel ++ '.' :: arch)))).length ≤ f) :
    (mc f nvT2 (name ++ '-' :: (epStr ep ++ (ver ++ '-' :: (rel ++ '.' :: arch)))) c).head?
      = some ([], (7, arch) :: (6, rel) :: (5, ver) :: (epCaps ep ++ (2, name) :: c)) := by
  apply first_grpstar_cat f Cls.any 2 _ name _ c _ (any_all hname) hf
  · intro w t' hw h _
    cases w with
    | nil => exact absurd rfl hw
    | cons x w' =>
      simp only [List.cons_append, List.cons.injEq] at h
      cases t' with
      | nil => exact m_cls_cat_nil _ _ _
      | cons y t'' =>
        by_cases hy : y = '-'
        · subst hy
          rw [Re.lit, m_cls_cat_mem _ _ _ _ _ (lit_self '-')]
          apply m_requires_nil '-' nvT4 f t'' nvT4_requires_dash
          have ha : '-' ∉ epStr ep ++ ver := by
            simp only [List.mem_append, not_or]; exact ⟨epStr_not_mem ep '-' (by decide), hverd⟩
          have hb : '-' ∉ rel ++ '.' :: arch := by simp [hreld, hdash]
          exact no_later_delim ha hb (by rw [List.append_assoc]; exact h.2)
        · exact m_cls_cat_not _ _ _ _ _ (lit_ne hy)
  · rw [mc_lit_cat]
    exact t4 f ep ver rel arch _ hver hcolon hrel hreld hnl hdot hdash (by simp at hf ⊢; omega)

theorem t1 (f : Nat) (dir s2 : Str) (R : Caps) (hdir : dir = [] ∨ ∃ d, dir = d ++ ['/']) (hnl : '\n' ∉ dir)
    (hs2 : '/' ∉ s2) (hf : (dir ++ s2).length ≤ f)
    (hres : ∀ c', (mc f nvT2 s2 c').head? = some ([], R ++ c')) :
    (mc f nvT1 (dir ++ s2) []).head? = some ([], R ++ dirCaps dir) := by
  rcases hdir with rfl | ⟨d, rfl⟩
  · simp only [List.nil_append, dirCaps]
    rw [nvT1, first_opt_absent _ _ _ _ _ (m_requires_nil '/' nvG1 f s2 nvG1_requires_slash hs2)]
    exact hres []
  · have hd : '\n' ∉ d := fun h => hnl (List.mem_append_left _ h)
    have hdc : dirCaps (d ++ ['/']) = [(1, d ++ ['/'])] := by
      cases d <;> rfl
    rw [hdc]
    simp only [List.append_assoc, List.cons_append, List.nil_append] at hf ⊢
    have hhead : (mc f nvDir (d ++ '/' :: s2) []).head? = some (s2, []) := by
      apply first_star_cat f Cls.any (Re.lit '/') d ('/' :: s2) [] (s2, []) (any_all hd) hf
      · intro w t' hw h _
        cases w with
        | nil => exact absurd rfl hw
        | cons x w' =>
          simp only [List.cons_append, List.cons.injEq] at h
          cases t' with
          | nil => rfl
          | cons y t'' =>
            have hy : y ≠ '/' := fun e => hs2 (by rw [h.2, e]; exact List.mem_append_right _ List.mem_cons_self)
            rw [Re.lit, m_cls_cons, lit_ne hy]; rfl
      · rw [mc_lit_self]; rfl
    exact first_opt_present f nvG1 nvT2 _ [] (s2, [(1, d ++ ['/'])]) _
      (first_grp_eq f 1 nvDir _ [] (d ++ ['/']) s2 [] (by simp) hhead) (hres _)

/-- the documented shape of an RPM file name, as weak as the pattern allows -/
structure Dom (dir name : Str) (ep : Option Nat) (ver rel arch : Str) : Prop where
  dir_shape : dir = [] ∨ ∃ d, dir = d ++ ['/']
  dir_nl : '\n' ∉ dir
  name_nl : '\n' ∉ name
  name_slash : '/' ∉ name
  ver_nl : '\n' ∉ ver
  ver_slash : '/' ∉ ver
  ver_dash : '-' ∉ ver
  ver_colon : ep = none → ':' ∉ ver
  rel_nl : '\n' ∉ rel
  rel_slash : '/' ∉ rel
  rel_dash : '-' ∉ rel
  arch_nl : '\n' ∉ arch
  arch_slash : '/' ∉ arch
  arch_dash : '-' ∉ arch
  arch_dot : '.' ∉ arch

/-- `name-[epoch:]version-release.arch` -/
def fmtBase (name : Str) (ep : Option Nat) (ver rel arch : Str) : Str :=
  name ++ '-' :: (epStr ep ++ (ver ++ '-' :: (rel ++ '.' :: arch)))

/-- **first success of the NVRA pattern on the documented shape**: the exact capture list -/
theorem nvra_first {dir name ep ver rel arch} (h : Dom dir name ep ver rel arch) :
    pyMatch Spec.nvra (dir ++ fmtBase name ep ver rel arch) =
      some ((7, arch) :: (6, rel) :: (5, ver) :: (epCaps ep ++ (2, name) :: dirCaps dir)) := by
  have hs2 : '/' ∉ fmtBase name ep ver rel arch := by
    simp only [fmtBase, List.mem_append, List.mem_cons, not_or]
    exact ⟨h.name_slash, by decide, epStr_not_mem ep '/' (by decide), h.ver_slash, by decide, h.rel_slash, by decide,
      h.arch_slash⟩
  unfold pyMatch
  rw [Spec.nvra, mc_bol_cat,
    t1 _ dir _ ((7, arch) :: (6, rel) :: (5, ver) :: (epCaps ep ++ [(2, name)])) h.dir_shape h.dir_nl hs2 (Nat.le_refl _)
      (fun c' => by
        have := t2 (dir ++ fmtBase name ep ver rel arch).length name ep ver rel arch c' h.name_nl h.ver_nl h.ver_dash
          h.ver_colon h.rel_nl h.rel_dash h.arch_nl h.arch_dot h.arch_dash (by simp [fmtBase])
        simpa [fmtBase] using this)]
  simp

end PM.NvraProof
