import ProductMD.Properties.C12
import ProductMD.Model.RpmsLegacy
import ProductMD.Spec.Arches
import ProductMD.Proofs.PyValEq
/-!
C10, rpms side: which architecture keys `Rpms.add` can create, inversion lemmas for the loops of the 0.3 reader
(`Model/RpmsLegacy.lean`, builder c05), and the invariants carried through them.
-/
namespace PM.Mf.C10
open PM PM.Spec
open PM.PyOps (iter subscript item pyEq)
set_option Elab.async false

/-! ### architecture keys of a mapping -/

def dictKeys : PyVal → List Str
  | .dict kvs => kvs.map (·.1)
  | _ => []

/-- every key on the second level of the mapping: the tree architectures of every variant (empty tables included) -/
def archKeys : PyVal → List Str
  | .dict kvs => kvs.flatMap fun kv => dictKeys kv.2
  | _ => []

/-- what the first two checks of `Rpms.add` let through -/
def Admissible (a : Str) : Prop := a ∈ Gen.RPM_ARCHES ∧ a ∉ srcArches

def KeysOK (s : PyVal) : Prop := ∀ x ∈ archKeys s, Admissible x

theorem mem_keys_put {kvs : Kvs} {k : Str} {c : PyVal} {x : Str} :
    x ∈ (put kvs k c).map (·.1) → x = k ∨ x ∈ kvs.map (·.1) := by
  induction kvs with
  | nil => intro h; simp [put] at h; exact Or.inl h
  | cons kv rest ih =>
    obtain ⟨k', v'⟩ := kv
    unfold put
    split
    · rename_i hk
      intro h
      simp only [List.map_cons, List.mem_cons] at h ⊢
      rcases h with h | h
      · exact Or.inl h
      · exact Or.inr (Or.inr h)
    · intro h
      simp only [List.map_cons, List.mem_cons] at h ⊢
      rcases h with h | h
      · exact Or.inr (Or.inl h)
      · rcases ih h with e | e
        · exact Or.inl e
        · exact Or.inr (Or.inr e)

theorem mem_flat_put {kvs : Kvs} {k : Str} {c : PyVal} {x : Str} :
    x ∈ (put kvs k c).flatMap (fun kv => dictKeys kv.2) → x ∈ dictKeys c ∨ x ∈ kvs.flatMap (fun kv => dictKeys kv.2) := by
  induction kvs with
  | nil => intro h; simp [put] at h; exact Or.inl h
  | cons kv rest ih =>
    obtain ⟨k', v'⟩ := kv
    unfold put
    split
    · intro h
      simp only [List.flatMap_cons, List.mem_append] at h ⊢
      rcases h with h | h
      · exact Or.inl h
      · exact Or.inr (Or.inr h)
    · intro h
      simp only [List.flatMap_cons, List.mem_append] at h ⊢
      rcases h with h | h
      · exact Or.inr (Or.inl h)
      · rcases ih h with e | e
        · exact Or.inl e
        · exact Or.inr (Or.inr e)

theorem mem_of_lookup {kvs : Kvs} {k : Str} {c : PyVal} (h : lookup kvs k = some c) : ∃ k', (k', c) ∈ kvs := by
  induction kvs with
  | nil => simp [lookup] at h
  | cons kv rest ih =>
    obtain ⟨k', v'⟩ := kv
    unfold lookup at h
    split at h
    · injection h with h; subst h; exact ⟨k', List.mem_cons_self⟩
    · obtain ⟨k'', hm⟩ := ih h
      exact ⟨k'', List.mem_cons_of_mem _ hm⟩

/-- the chain `setdefault(variant, {}).setdefault(arch, {}).setdefault(key, {})` followed by any leaf update creates
at most the arch key it was asked for -/
theorem mem_archKeys_setPathS (f : PyVal → PyVal × Out) (v a k : Str) (s : PyVal) (x : Str) :
    x ∈ archKeys (setPathS f [v, a, k] s).1 → x = a ∨ x ∈ archKeys s := by
  cases s with
  | dict kvs =>
    rw [setPathS_dict_cons]
    simp only [archKeys]
    intro h
    rcases mem_flat_put h with h | h
    · -- the variant's own table
      cases hl : lookup kvs v with
      | none =>
        rw [hl] at h
        simp only [Option.getD_none, setPathS_dict_cons, dictKeys] at h
        rcases mem_keys_put h with e | e
        · exact Or.inl e
        · simp at e
      | some inner =>
        rw [hl] at h
        simp only [Option.getD_some] at h
        obtain ⟨k', hm⟩ := mem_of_lookup hl
        cases inner with
        | dict as =>
          rw [setPathS_dict_cons] at h
          simp only [dictKeys] at h
          rcases mem_keys_put h with e | e
          · exact Or.inl e
          · right
            exact List.mem_flatMap.mpr ⟨(k', .dict as), hm, by simpa [dictKeys] using e⟩
        | _ =>
          rw [setPathS_nondict_cons _ _ _ _ (by intro kvs' hh; cases hh)] at h
          simp [dictKeys] at h
    · exact Or.inr h
  | _ => intro h; simp [setPathS, archKeys] at h

/-- **one call**: `Rpms.add` creates no arch key but the admissible one it was called with -/
theorem keysOK_add (s : PyVal) (a : RpmsArgs) (h : KeysOK s) : KeysOK (Rpms.add s a).1 := by
  rw [Rpms.add_eq]
  cases hc : rpmsCheck a with
  | error e => exact h
  | ok p =>
    have acc := C12_rpms_plan a p hc
    intro x hx
    rcases mem_archKeys_setPathS _ _ _ _ _ x hx with rfl | hx'
    · exact ⟨acc.arch_known, acc.arch_binary⟩
    · exact h x hx'

theorem keysOK_run (h : List RpmsArgs) : ∀ s, KeysOK s → KeysOK (runRpms s h) := by
  induction h with
  | nil => intro s hs; exact hs
  | cons a rest ih =>
    intro s hs
    simp only [runRpms, List.foldl_cons]
    exact ih _ (keysOK_add s a hs)

theorem keysOK_empty : KeysOK empty := by
  intro x hx; simp [empty, archKeys] at hx

/-! ### inversion lemmas for the 0.3 reader -/

/-- what a successful `addDyn` was: a call of the typed `Rpms.add` that returned normally -/
theorem addDyn_ok {s s' : PyVal} {variant arch nevra : Str} {path sigkey category : PyVal} {srpm : Option Str}
    (h : addDyn s variant arch nevra path sigkey category srpm = .ok s') :
    ∃ (p cat : Str) (sk : Option Str), path = .str p ∧ category = .str cat ∧ sigkey = optStr sk ∧
      Rpms.add s { variant, arch, nevra, path := p, sigkey := sk, category := cat, srpm } = (s', .ok ()) := by
  unfold addDyn at h
  split at h; · cases h
  split at h; · cases h
  split at h
  · rename_i cat
    split at h; · cases h
    split at h; · cases h
    split at h
    · rename_i p _
      simp only at h
      split at h
      · cases h
      · rename_i sk hsk
        split at h
        · rename_i s1 hadd
          injection h with h
          subst h
          refine ⟨p, cat, sk, rfl, rfl, ?_, hadd⟩
          split at hsk
          · injection hsk with hsk; subst hsk; rfl
          · injection hsk with hsk; subst hsk; rfl
          · cases hsk
        · cases h
    · cases h
  · cases h

/-- the second half of one iteration of the innermost loop: `if srpm_data is not None: self.add(... "source")` -/
def srcStep (variant arch srpm : Str) (srpmData : PyVal) (s1 : PyVal) : Except Err PyVal :=
  match srpmData with
  | .none => .ok s1
  | sd =>
    match item sd (lit "path") with
    | .error e => .error e
    | .ok sp =>
    match item sd (lit "sigkey") with
    | .error e => .error e
    | .ok sk => addDyn s1 variant arch srpm sp sk (.str sSource) none

/-- the category handed to `add` for an entry of the 0.3 manifest -/
def cat03 (cat0 : PyVal) : PyVal := if pyEq cat0 (.str sPackage) then .str sBinary else cat0

theorem loadRpms03_nil (variant arch srpm : Str) (sd : PyVal) (s : PyVal) :
    loadRpms03 variant arch srpm sd [] s = .ok s := rfl

theorem loadRpms03_cons {variant arch srpm : Str} {sd : PyVal} {nevra : Str} {data : PyVal} {rest : List (Str × PyVal)} {s s' : PyVal}
    (h : loadRpms03 variant arch srpm sd ((nevra, data) :: rest) s = .ok s') :
    ∃ cat0 path sigkey s1 s2, item data (lit "type") = .ok cat0 ∧ item data (lit "path") = .ok path ∧
      item data (lit "sigkey") = .ok sigkey ∧
      addDyn s variant arch nevra path sigkey (cat03 cat0) (some srpm) = .ok s1 ∧
      srcStep variant arch srpm sd s1 = .ok s2 ∧ loadRpms03 variant arch srpm sd rest s2 = .ok s' := by
  unfold loadRpms03 at h
  split at h; · cases h
  rename_i cat0 h1
  simp only at h
  split at h; · cases h
  rename_i path h2
  split at h; · cases h
  rename_i sigkey h3
  split at h; · cases h
  rename_i s1 h4
  split at h; · cases h
  rename_i s2 h5
  exact ⟨cat0, path, sigkey, s1, s2, h1, h2, h3, h4, h5, h⟩

theorem loadSrpms03_cons {variant arch : Str} {srcTable : PyVal} {srpm : Str} {rpms : PyVal} {rest : List (Str × PyVal)} {s s' : PyVal}
    (h : loadSrpms03 variant arch srcTable ((srpm, rpms) :: rest) s = .ok s') :
    ∃ sd its s1, dictGetD srcTable srpm .none = .ok sd ∧ dictItems rpms = .ok its ∧
      loadRpms03 variant arch srpm sd its s = .ok s1 ∧ loadSrpms03 variant arch srcTable rest s1 = .ok s' := by
  unfold loadSrpms03 at h
  split at h; · cases h
  rename_i sd h1
  split at h; · cases h
  rename_i its h2
  split at h; · cases h
  rename_i s1 h3
  exact ⟨sd, its, s1, h1, h2, h3, h⟩

theorem loadArches03_cons {variant : Str} {archs a : PyVal} {rest : List PyVal} {s s' : PyVal}
    (h : loadArches03 variant archs (a :: rest) s = .ok s') :
    (pyEq a (.str sSrcArch) = true ∧ loadArches03 variant archs rest s = .ok s') ∨
    (pyEq a (.str sSrcArch) = false ∧ ∃ cell its srcTable arch s1, subscript archs a = .ok cell ∧ dictItems cell = .ok its ∧
      dictGetD archs sSrcArch (.dict []) = .ok srcTable ∧ strKey a = .ok arch ∧
      loadSrpms03 variant arch srcTable its s = .ok s1 ∧ loadArches03 variant archs rest s1 = .ok s') := by
  unfold loadArches03 at h
  split at h
  · rename_i hsrc; exact Or.inl ⟨hsrc, h⟩
  · rename_i hsrc
    right
    refine ⟨by simpa using hsrc, ?_⟩
    split at h; · cases h
    rename_i cell h1
    split at h; · cases h
    rename_i its h2
    split at h; · cases h
    rename_i srcTable h3
    split at h; · cases h
    rename_i arch h4
    split at h; · cases h
    rename_i s1 h5
    exact ⟨cell, its, srcTable, arch, s1, h1, h2, h3, h4, h5, h⟩

theorem loadVariants03_cons {payload v : PyVal} {rest : List PyVal} {s s' : PyVal}
    (h : loadVariants03 payload (v :: rest) s = .ok s') :
    ∃ archs keys variant s1, subscript payload v = .ok archs ∧ iter archs = .ok keys ∧ strKey v = .ok variant ∧
      loadArches03 variant archs keys s = .ok s1 ∧ loadVariants03 payload rest s1 = .ok s' := by
  unfold loadVariants03 at h
  split at h; · cases h
  rename_i archs h1
  split at h; · cases h
  rename_i keys h2
  split at h; · cases h
  rename_i variant h3
  split at h; · cases h
  rename_i s1 h4
  exact ⟨archs, keys, variant, s1, h1, h2, h3, h4, h⟩

theorem manifest03_ok {pl s : PyVal} (h : manifest03 pl = .ok s) :
    ∃ payload vs, getItem pl (lit "manifest") = .ok payload ∧ iter payload = .ok vs ∧ loadVariants03 payload vs empty = .ok s := by
  unfold manifest03 at h
  split at h; · cases h
  rename_i payload h1
  split at h; · cases h
  rename_i vs h2
  exact ⟨payload, vs, h1, h2, h⟩

/-! ### invariants through the loops: every entry goes through `Rpms.add` -/

section inv
variable (P : PyVal → Prop) (hP : ∀ s a, P s → P (Rpms.add s a).1)
include hP

theorem addDyn_inv {s s' : PyVal} {variant arch nevra : Str} {path sigkey category : PyVal} {srpm : Option Str}
    (h : addDyn s variant arch nevra path sigkey category srpm = .ok s') (hs : P s) : P s' := by
  obtain ⟨p, cat, sk, _, _, _, hadd⟩ := addDyn_ok h
  have := hP s { variant, arch, nevra, path := p, sigkey := sk, category := cat, srpm } hs
  rw [hadd] at this
  exact this

theorem srcStep_inv {variant arch srpm : Str} {sd s1 s2 : PyVal} (h : srcStep variant arch srpm sd s1 = .ok s2) (hs : P s1) : P s2 := by
  unfold srcStep at h
  split at h
  · injection h with h; subst h; exact hs
  · split at h; · cases h
    split at h; · cases h
    exact addDyn_inv P hP h hs

theorem loadRpms03_inv (variant arch srpm : Str) (sd : PyVal) :
    ∀ (its : List (Str × PyVal)) (s s' : PyVal), loadRpms03 variant arch srpm sd its s = .ok s' → P s → P s' := by
  intro its
  induction its with
  | nil => intro s s' h hs; rw [loadRpms03_nil] at h; injection h with h; subst h; exact hs
  | cons it rest ih =>
    intro s s' h hs
    obtain ⟨nevra, data⟩ := it
    obtain ⟨_, _, _, s1, s2, _, _, _, h4, h5, h6⟩ := loadRpms03_cons h
    exact ih s2 s' h6 (srcStep_inv P hP h5 (addDyn_inv P hP h4 hs))

theorem loadSrpms03_inv (variant arch : Str) (srcTable : PyVal) :
    ∀ (its : List (Str × PyVal)) (s s' : PyVal), loadSrpms03 variant arch srcTable its s = .ok s' → P s → P s' := by
  intro its
  induction its with
  | nil => intro s s' h hs; simp only [loadSrpms03] at h; injection h with h; subst h; exact hs
  | cons it rest ih =>
    intro s s' h hs
    obtain ⟨srpm, rpms⟩ := it
    obtain ⟨sd, its', s1, _, _, h3, h4⟩ := loadSrpms03_cons h
    exact ih s1 s' h4 (loadRpms03_inv P hP variant arch srpm sd its' s s1 h3 hs)

theorem loadArches03_inv (variant : Str) (archs : PyVal) :
    ∀ (keys : List PyVal) (s s' : PyVal), loadArches03 variant archs keys s = .ok s' → P s → P s' := by
  intro keys
  induction keys with
  | nil => intro s s' h hs; simp only [loadArches03] at h; injection h with h; subst h; exact hs
  | cons a rest ih =>
    intro s s' h hs
    rcases loadArches03_cons h with ⟨_, h'⟩ | ⟨_, cell, its, srcTable, arch, s1, _, _, _, _, h5, h6⟩
    · exact ih s s' h' hs
    · exact ih s1 s' h6 (loadSrpms03_inv P hP variant arch srcTable its s s1 h5 hs)

theorem loadVariants03_inv (payload : PyVal) :
    ∀ (vs : List PyVal) (s s' : PyVal), loadVariants03 payload vs s = .ok s' → P s → P s' := by
  intro vs
  induction vs with
  | nil => intro s s' h hs; simp only [loadVariants03] at h; injection h with h; subst h; exact hs
  | cons v rest ih =>
    intro s s' h hs
    obtain ⟨archs, keys, variant, s1, _, _, _, h4, h5⟩ := loadVariants03_cons h
    exact ih s1 s' h5 (loadArches03_inv P hP variant archs keys s s1 h4 hs)

/-- every property of mappings that holds of the empty one and is preserved by each `Rpms.add` holds of every
mapping converted from a 0.3 manifest -/
theorem manifest03_inv {pl s : PyVal} (h : manifest03 pl = .ok s) (h0 : P empty) : P s := by
  obtain ⟨payload, vs, _, _, h3⟩ := manifest03_ok h
  exact loadVariants03_inv P hP payload vs empty s h3 h0

end inv

end PM.Mf.C10
