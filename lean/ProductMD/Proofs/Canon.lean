import ProductMD.Model.Py
/-!
Canonical JSON: `JsonText.dumps` is a function of the document modulo the order of dict entries.
The generic layer of C08 (every JSON format writes through `JsonText.dumps`).  Core Lean only.
-/
namespace PM
open PyVal

theorem inj_of_nodup_map {α β} (f : α → β) : ∀ {l : List α}, (l.map f).Nodup →
    ∀ {a b}, a ∈ l → b ∈ l → f a = f b → a = b := by
  intro l
  induction l with
  | nil => intro _ a b ha; cases ha
  | cons x xs ih =>
    intro hn a b ha hb hab
    simp only [List.map_cons, List.nodup_cons] at hn
    cases ha with
    | head =>
      cases hb with
      | head => rfl
      | tail _ hb' => exact absurd (List.mem_map.mpr ⟨b, hb', hab.symm⟩) hn.1
    | tail _ ha' =>
      cases hb with
      | head => exact absurd (List.mem_map.mpr ⟨a, ha', hab⟩) hn.1
      | tail _ hb' => exact ih hn.2 ha' hb' hab

/-! ### insertion sort of association lists by key -/

theorem insertKv_perm (kv : Str × PyVal) : ∀ l, (insertKv kv l).Perm (kv :: l) := by
  intro l
  induction l with
  | nil => simp [insertKv]
  | cons x xs ih =>
    simp only [insertKv]
    split
    · exact List.Perm.refl _
    · exact (List.Perm.cons x ih).trans (List.Perm.swap kv x xs)

theorem sortKvs_perm : ∀ l, (sortKvs l).Perm l := by
  intro l
  induction l with
  | nil => simp [sortKvs]
  | cons x xs ih =>
    simp only [sortKvs, List.foldr_cons]
    exact (insertKv_perm x _).trans (List.Perm.cons x ih)

def KLe (a b : Str × PyVal) : Prop := a.1 ≤ b.1

theorem not_lt_le {a b : Str} (h : Str.lt a b = false) : b ≤ a := by
  simp only [Str.lt, decide_eq_false_iff_not] at h
  exact List.not_lt.mp h

theorem lt_le {a b : Str} (h : Str.lt a b = true) : a ≤ b := by
  simp only [Str.lt, decide_eq_true_eq] at h
  exact List.le_of_lt h

theorem insertKv_sorted (kv : Str × PyVal) : ∀ l, l.Pairwise KLe → (insertKv kv l).Pairwise KLe := by
  intro l
  induction l with
  | nil => intro _; simp [insertKv]
  | cons x xs ih =>
    intro h
    simp only [insertKv]
    have hx := List.pairwise_cons.mp h
    cases hlt : Str.lt kv.1 x.1 with
    | true =>
      simp only [if_true]
      refine List.pairwise_cons.mpr ⟨?_, h⟩
      intro y hy
      cases hy with
      | head => exact lt_le hlt
      | tail _ hy' => exact List.le_trans (lt_le hlt) (hx.1 y hy')
    | false =>
      simp only [Bool.false_eq_true, if_false]
      refine List.pairwise_cons.mpr ⟨?_, ih hx.2⟩
      intro y hy
      rcases List.mem_cons.mp ((insertKv_perm kv xs).mem_iff.mp hy) with hy | hy
      · subst hy
        exact not_lt_le hlt
      · exact hx.1 y hy

theorem sortKvs_sorted : ∀ l, (sortKvs l).Pairwise KLe := by
  intro l
  induction l with
  | nil => simp [sortKvs]
  | cons x xs ih =>
    simp only [sortKvs, List.foldr_cons]
    exact insertKv_sorted x _ ih

/-- two permutations with pairwise distinct keys sort to the same list -/
theorem sortKvs_perm_eq {l₁ l₂ : List (Str × PyVal)} (hp : l₁.Perm l₂) (hd : (l₁.map (·.1)).Nodup) :
    sortKvs l₁ = sortKvs l₂ := by
  have perm : (sortKvs l₁).Perm (sortKvs l₂) := (sortKvs_perm l₁).trans (hp.trans (sortKvs_perm l₂).symm)
  apply List.Perm.eq_of_pairwise (le := KLe) _ (sortKvs_sorted l₁) (sortKvs_sorted l₂) perm
  intro a b ha hb hab hba
  have hkey : a.1 = b.1 := List.le_antisymm hab hba
  have ha' : a ∈ l₁ := (sortKvs_perm l₁).mem_iff.mp ha
  have hb' : b ∈ l₁ := hp.mem_iff.mpr ((sortKvs_perm l₂).mem_iff.mp hb)
  exact inj_of_nodup_map (·.1) hd ha' hb' hkey

/-! ### `canon` -/

theorem canonKvs_keys : ∀ l, (canonKvs l).map (·.1) = l.map (·.1) := by
  intro l
  induction l with
  | nil => simp [canonKvs]
  | cons x xs ih => obtain ⟨k, v⟩ := x; simp [canonKvs, ih]

theorem canonKvs_eq_map : ∀ l, canonKvs l = l.map (fun kv => (kv.1, canon kv.2)) := by
  intro l
  induction l with
  | nil => simp [canonKvs]
  | cons x xs ih => obtain ⟨k, v⟩ := x; simp [canonKvs, ih]

theorem canonKvs_perm {l₁ l₂ : List (Str × PyVal)} (hp : l₁.Perm l₂) : (canonKvs l₁).Perm (canonKvs l₂) := by
  rw [canonKvs_eq_map, canonKvs_eq_map]
  exact hp.map _

/-- **Order of dict entries is irrelevant** (distinct keys): the canonical form, hence the bytes, are equal. -/
theorem canon_dict_perm {l₁ l₂ : List (Str × PyVal)} (hp : l₁.Perm l₂) (hd : (l₁.map (·.1)).Nodup) :
    canon (.dict l₁) = canon (.dict l₂) := by
  simp only [canon]
  congr 1
  exact sortKvs_perm_eq (canonKvs_perm hp) (by rw [canonKvs_keys]; exact hd)

theorem dumps_dict_perm {l₁ l₂ : List (Str × PyVal)} (hp : l₁.Perm l₂) (hd : (l₁.map (·.1)).Nodup) :
    JsonText.dumps (.dict l₁) = JsonText.dumps (.dict l₂) := by
  simp only [JsonText.dumps, canon_dict_perm hp hd]

/-- values that agree after canonicalisation are written identically -/
theorem dumps_congr {a b : PyVal} (h : canon a = canon b) : JsonText.dumps a = JsonText.dumps b := by
  simp only [JsonText.dumps, h]

theorem canonList_eq_map : ∀ l, canonList l = l.map canon := by
  intro l
  induction l with
  | nil => simp [canonList]
  | cons x xs ih => simp [canonList, ih]

/-- entries whose values are canonically equal give canonically equal dicts -/
theorem canon_dict_congr {l₁ l₂ : List (Str × PyVal)}
    (h : l₁.map (fun kv => (kv.1, canon kv.2)) = l₂.map (fun kv => (kv.1, canon kv.2))) :
    canon (.dict l₁) = canon (.dict l₂) := by
  simp only [canon, canonKvs_eq_map, h]

theorem canon_list_congr {l₁ l₂ : List PyVal} (h : l₁.map canon = l₂.map canon) :
    canon (.list l₁) = canon (.list l₂) := by
  simp only [canon, canonList_eq_map, h]

end PM
