import ProductMD.Proofs.CIFixpoint
/-!
C08 for composeinfo: the flat, uid-keyed table `Variants.serialize` builds is a function of the variant forest *modulo the
order of every child dict, of every arch set and of every path table*.

`VEq v v'`: the same variant content - same key/id/uid/name/type/release, the same SET of arches, path tables that answer
every lookup alike, and children that are a rearrangement of each other, each the same content (`LEq`).
-/
namespace PM.CI
open PM

def SameSet (a b : List Str) : Prop := ∀ x, x ∈ a ↔ x ∈ b
def SamePaths (p q : PathTable) : Prop := ∀ cat a, pathAt p cat a = pathAt q cat a

mutual
inductive VEq : Variant → Variant → Prop
  | mk (key id uid name type : Str) {a a' : List Str} {p p' : PathTable} (rel : Option Release) {k k' : List Variant} :
      SameSet a a' → SamePaths p p' → LEq k k' →
      VEq (.mk key id uid name type a p rel k) (.mk key id uid name type a' p' rel k')
/-- a rearrangement of a child dict, child by child the same content -/
inductive LEq : List Variant → List Variant → Prop
  | nil : LEq [] []
  | cons {v v' : Variant} {l l' : List Variant} : VEq v v' → LEq l l' → LEq (v :: l) (v' :: l')
  | swap (a b : Variant) (l : List Variant) : LEq (a :: b :: l) (b :: a :: l)
  | trans {l₁ l₂ l₃ : List Variant} : LEq l₁ l₂ → LEq l₂ l₃ → LEq l₁ l₃
end

mutual
theorem VEq.refl : ∀ v : Variant, VEq v v
  | .mk key id uid name type _ _ rel k => .mk key id uid name type rel (fun _ => Iff.rfl) (fun _ _ => rfl) (LEq.refl k)
theorem LEq.refl : ∀ l : List Variant, LEq l l
  | [] => .nil
  | v :: l => .cons (VEq.refl v) (LEq.refl l)
end

/-- every permutation of a child list is the same content -/
theorem LEq.of_perm {l l' : List Variant} (h : l.Perm l') : LEq l l' := by
  induction h with
  | nil => exact .nil
  | cons x _ ih => exact .cons (VEq.refl x) ih
  | swap x y l => exact .swap y x l
  | trans _ _ ih1 ih2 => exact .trans ih1 ih2

/-- what a container's validators see of a child -/
def summ (v : Variant) : Str × Str × Str × Str := (v.key, v.id, v.uid, v.type)

theorem VEq.summ {v v' : Variant} (h : VEq v v') : summ v = summ v' := by cases h; rfl

theorem LEq.summ : ∀ {l l' : List Variant}, LEq l l' → (l.map summ).Perm (l'.map summ)
  | _, _, .nil => List.Perm.refl _
  | _, _, .cons h t => by simp only [List.map_cons, h.summ]; exact List.Perm.cons _ (LEq.summ t)
  | _, _, .swap _ _ _ => List.Perm.swap _ _ _
  | _, _, .trans h1 h2 => (LEq.summ h1).trans (LEq.summ h2)

theorem LEq.keys {l l' : List Variant} (h : LEq l l') : (l.map Variant.key).Perm (l'.map Variant.key) := by
  have := h.summ.map (·.1)
  simpa [List.map_map, Function.comp_def, CI.summ] using this

theorem LEq.ids {l l' : List Variant} (h : LEq l l') : (l.map Variant.id).Perm (l'.map Variant.id) := by
  have := h.summ.map (·.2.1)
  simpa [List.map_map, Function.comp_def, CI.summ] using this

/-! ### dict keys are distinct (a Python dict), hereditarily -/
mutual
def DictKeys : Variant → Prop
  | .mk _ _ _ _ _ _ _ _ kids => (kids.map Variant.key).Nodup ∧ DictKeysL kids
def DictKeysL : List Variant → Prop
  | [] => True
  | v :: vs => DictKeys v ∧ DictKeysL vs
end

mutual
theorem VEq.dictKeys : ∀ {v v' : Variant}, VEq v v' → DictKeys v → DictKeys v'
  | _, _, .mk _ _ _ _ _ _ _ _ hk, hd => by
    simp only [DictKeys] at hd ⊢
    exact ⟨hk.keys.nodup_iff.mp hd.1, LEq.dictKeysL hk hd.2⟩
theorem LEq.dictKeysL : ∀ {l l' : List Variant}, LEq l l' → DictKeysL l → DictKeysL l'
  | _, _, .nil, h => h
  | _, _, .cons hv t, h => by
    simp only [DictKeysL] at h ⊢
    exact ⟨VEq.dictKeys hv h.1, LEq.dictKeysL t h.2⟩
  | _, _, .swap _ _ _, h => by
    simp only [DictKeysL] at h ⊢
    exact ⟨h.2.1, h.1, h.2.2⟩
  | _, _, .trans h1 h2, h => LEq.dictKeysL h2 (LEq.dictKeysL h1 h)
end

/-! ### the entries filed -/
mutual
theorem VEq.flat_iff : ∀ {v v' : Variant}, VEq v v' → entryOf v = entryOf v' → ∀ x, x ∈ flat v ↔ x ∈ flat v'
  | _, _, .mk _ _ _ _ _ _ _ _ hk, he, x => by
    simp only [flat, List.mem_append, List.mem_singleton, he]
    rw [LEq.flats_iff hk x]
theorem LEq.flats_iff : ∀ {l l' : List Variant}, LEq l l' → ∀ x, x ∈ flats l ↔ x ∈ flats l'
  | _, _, .nil, _ => Iff.rfl
  | _, _, .cons hv t, x => by
    simp only [flats, List.mem_append]
    rw [VEq.flat_iff hv (VEq.entry hv) x, LEq.flats_iff t x]
  | _, _, .swap _ _ _, x => by
    simp only [flats, List.mem_append]
    constructor <;> (rintro (h | h | h) <;> simp [h])
  | _, _, .trans h1 h2, x => (LEq.flats_iff h1 x).trans (LEq.flats_iff h2 x)
/-- the stored entry is the same: sorted arches, stored paths, sorted child ids -/
theorem VEq.entry : ∀ {v v' : Variant}, VEq v v' → entryOf v = entryOf v'
  | _, _, @VEq.mk key id uid name type a a' p p' rel k k' ha hp hk => by
    have h1 := sortDedup_congr ha
    have h2 : ∀ A, storedPaths A p = storedPaths A p' := fun A => by
      unfold storedPaths
      simp only [hp _ _]
    have h3 := sortDedup_congr (fun x => hk.ids.mem_iff (a := x))
    simp only [entryOf, h1, h2, h3]
end

theorem VEq.flat_iff' {v v' : Variant} (h : VEq v v') : ∀ x, x ∈ flat v ↔ x ∈ flat v' := h.flat_iff h.entry

/-! ### what the validators see -/

theorem findKey_summ (k : Str) : ∀ vs : List Variant,
    (findKey k vs).map (fun c => (c.id, c.uid, c.type)) = lookup k (vs.map fun c => (c.key, (c.id, c.uid, c.type)))
  | [] => rfl
  | v :: vs => by
    simp only [findKey, List.map_cons, lookup]
    split
    · rfl
    · exact findKey_summ k vs

theorem lookup_perm {β} {k : Str} {l l' : List (Str × β)} (hp : l.Perm l') (hn : (l.map (·.1)).Nodup) :
    lookup k l = lookup k l' := by
  have hn' : (l'.map (·.1)).Nodup := (hp.map (·.1)).nodup_iff.mp hn
  cases h : lookup k l with
  | none =>
    symm
    rw [lookup_none_iff] at h ⊢
    exact fun x hx => h x (hp.mem_iff.mpr hx)
  | some b =>
    symm
    exact lookup_of_mem hn' (hp.mem_iff.mp (mem_of_lookup h))

theorem kidsView_leq (pn : Bool) {vs vs' : List Variant} (h : LEq vs vs') (hn : (vs.map Variant.key).Nodup) :
    kidsView pn vs = kidsView pn vs' := by
  unfold kidsView byKeys
  have hk := sortDedup_congr (fun x => h.keys.mem_iff (a := x))
  rw [← hk]
  congr 1
  rw [List.map_filterMap, List.map_filterMap]
  apply filterMap_congr'
  intro k _
  have e : ∀ ws : List Variant, Option.map (fun c : Variant => (c.key, PyVal.dict [(k%"id", .str c.id), (k%"uid", .str c.uid), (k%"type", .str c.type), (k%"parent_none", .bool pn)])) (findKey k ws)
      = ((findKey k ws).map (fun c => (c.id, c.uid, c.type))).map (fun t => (k, PyVal.dict [(k%"id", .str t.1), (k%"uid", .str t.2.1), (k%"type", .str t.2.2), (k%"parent_none", .bool pn)])) := by
    intro ws
    cases hf : findKey k ws with
    | none => rfl
    | some w => simp [(findKey_some hf).2]
  rw [e vs, e vs', findKey_summ, findKey_summ]
  congr 1
  have hp : (vs.map fun c => (c.key, (c.id, c.uid, c.type))).Perm (vs'.map fun c => (c.key, (c.id, c.uid, c.type))) := by
    have := h.summ.map (fun s => (s.1, (s.2.1, s.2.2.1, s.2.2.2)))
    simpa [List.map_map, Function.comp_def, CI.summ] using this
  exact lookup_perm hp (by simpa [List.map_map, Function.comp_def] using hn)

theorem VEq.obj {v v' : Variant} (h : VEq v v') (hd : DictKeys v) (ctx : Ctx) : variantObj ctx v = variantObj ctx v' := by
  cases h with
  | mk key id uid name type rel ha hp hk =>
    simp only [DictKeys] at hd
    simp only [variantObj, sortDedup_congr ha, kidsView_leq false hk hd.1]

mutual
theorem VEq.good : ∀ {v v' : Variant}, VEq v v' → DictKeys v → ∀ ctx, Good ctx v → Good ctx v'
  | _, _, .mk key id uid name type rel ha hp hk, hd, ctx, hg => by
    have hobj := VEq.obj (.mk key id uid name type rel ha hp hk) hd ctx
    simp only [DictKeys] at hd
    simp only [Good] at hg ⊢
    refine ⟨hg.1, hg.2.1, hobj ▸ hg.2.2.1, ?_⟩
    rw [← sortDedup_congr ha]
    exact LEq.goodL hk hd.2 _ hg.2.2.2
theorem LEq.goodL : ∀ {l l' : List Variant}, LEq l l' → DictKeysL l → ∀ ctx, GoodL ctx l → GoodL ctx l'
  | _, _, .nil, _, _, h => h
  | _, _, .cons hv t, hd, ctx, h => by
    simp only [DictKeysL] at hd
    simp only [GoodL] at h ⊢
    exact ⟨VEq.good hv hd.1 ctx h.1, LEq.goodL t hd.2 ctx h.2⟩
  | _, _, .swap _ _ _, _, _, h => by
    simp only [GoodL] at h ⊢
    exact ⟨h.2.1, h.1, h.2.2⟩
  | _, _, .trans h1 h2, hd, ctx, h => LEq.goodL h2 (LEq.dictKeysL h1 hd) ctx (LEq.goodL h1 hd ctx h)
end

/-! ### the top-level container -/

theorem goodL_byKeys {ctx : Ctx} {vs : List Variant} (hn : (vs.map Variant.key).Nodup) : GoodL ctx (byKeys vs) ↔ GoodL ctx vs :=
  ⟨fun h => GoodL_of_forall (fun v hv => GoodL_mem h v ((mem_byKeys hn).mpr hv)),
   fun h => GoodL_of_forall (fun v hv => GoodL_mem h v ((mem_byKeys hn).mp hv))⟩

theorem flats_byKeys {vs : List Variant} (hn : (vs.map Variant.key).Nodup) (x : Str × Entry) : x ∈ flats (byKeys vs) ↔ x ∈ flats vs := by
  rw [mem_flats, mem_flats]
  exact ⟨fun ⟨v, hv, hx⟩ => ⟨v, (mem_byKeys hn).mp hv, hx⟩, fun ⟨v, hv, hx⟩ => ⟨v, (mem_byKeys hn).mpr hv, hx⟩⟩

/-- **the flat table is a function of the forest modulo order** -/
theorem variantsSer_leq {vs vs' : List Variant} (h : LEq vs vs') (hn : (vs.map Variant.key).Nodup) (hd : DictKeysL vs)
    (d : Flat) (hs : variantsSer vs = .ok d) : variantsSer vs' = .ok d := by
  have hn' : (vs'.map Variant.key).Nodup := h.keys.nodup_iff.mp hn
  unfold variantsSer at hs ⊢
  have hc : containerObj vs = containerObj vs' := by simp only [containerObj, kidsView_leq true h hn]
  rw [← hc]
  split at hs
  · cases hs
  · rename_i hv
    have hsorted : FSorted ([] : Flat) := List.Pairwise.nil
    obtain ⟨g, sd, _, hall, honly⟩ := sers_spec (byKeys vs) none [] d hs hsorted
    have g' : GoodL none (byKeys vs') := (goodL_byKeys hn').mpr (h.goodL hd none ((goodL_byKeys hn).mp g))
    have hmem : ∀ x, x ∈ flats (byKeys vs') ↔ x ∈ d := by
      intro x
      rw [flats_byKeys hn', ← h.flats_iff x, ← flats_byKeys hn]
      exact ⟨hall x, fun hx => (honly x hx).resolve_left (by simp)⟩
    have hfunc : Func (flats (byKeys vs') ++ []) := by
      refine (FSorted.func sd).mono ?_
      intro x hx
      rw [List.append_nil] at hx
      exact (hmem x).mp hx
    obtain ⟨d', hd'⟩ := sers_complete (byKeys vs') none [] g' hsorted hfunc
    obtain ⟨_, sd', _, hall', honly'⟩ := sers_spec (byKeys vs') none [] d' hd' hsorted
    rw [hd']
    congr 1
    apply flat_ext sd' sd
    intro x
    rw [← hmem x]
    exact ⟨fun hx => (honly' x hx).resolve_left (by simp), hall' x⟩

end PM.CI
