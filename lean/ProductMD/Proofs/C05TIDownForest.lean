import ProductMD.Proofs.C05TIDownOpts
/-!
C05, treeinfo down-conversion to ≤ 0.3: the ≤ 0.3 forest reader (`has_section` choice of the section, children under `addons`
or `variants`, `option_lookup` chains, source-tree swap) on a file that says about the forest what `OldDoc` states returns the
normal form of the forest (`readV03`, `deTopsL_old`) — any number of variants, any depth.
-/
namespace PM.TI
open Ini
set_option Elab.async false

/-! ### the ≤ 0.3 forest reader on the converted file -/

/-- what the ≤ 0.3 file says about the forest -/
structure OldDoc (t : TreeInfo) (src : Bool) (ck : Str) (d' : Ini) : Prop where
  noDefault : d'.lookup DEFAULT = none
  var : ∀ x ∈ subVs none t.variants,
    d'.lookup (secName x.2.type x.2.uid) = some ((varOpts x.1 x.2).filterMap (downVarOpt src ck))
  varInv : ∀ s, isVarSec s = true → (d'.lookup s).isSome → ∃ y ∈ subVs none t.variants, s = secName y.2.type y.2.uid

/-- the `option_lookup` chain of ≤ 0.3 (`variant-UID`, `variant-ID`, `addon-UID`, `addon-ID`) meets no other variant's
section: a candidate name that is the section of a variant is that variant's own -/
def ChainOK (tops : List Variant) : Prop :=
  ∀ x ∈ subVs none tops, ∀ y ∈ subVs none tops,
    ∀ c ∈ [pVariant ++ x.2.uid, pVariant ++ x.2.id, pAddon ++ x.2.uid, pAddon ++ x.2.id], secName y.2.type y.2.uid = c → y = x

theorem isVarSec_variant (u : Str) : isVarSec (pVariant ++ u) = true := by
  have := isVarSec_secName tVariant u
  rwa [secName_not_addon u (by decide)] at this
theorem isVarSec_addon (u : Str) : isVarSec (pAddon ++ u) = true := by
  have := isVarSec_secName tAddon u
  rwa [secName_addon] at this

theorem secName_mem_cands (type uid id : Str) : secName type uid ∈ [pVariant ++ uid, pVariant ++ id, pAddon ++ uid, pAddon ++ id] := by
  unfold secName; split <;> simp

theorem readV03_step {t : TreeInfo} {src : Bool} {ck : Str} {d' : Ini} (S : Legacy.Sels) (hS1 : S.variant = .v03) (hS2 : S.paths = .v03)
    (c : Legacy.VCtx) (hc : (c.arch == Legacy.sSrc) = src) (O : OldDoc t src ck d') (hck : ck = kAddons ∨ ck = kVariants)
    (F : ForestOK t.variants) (CH : ChainOK t.variants) (SR : ∀ x ∈ subVs none t.variants, SrcRepresentable src x.2.paths)
    (f : Nat) (x : Option Str × Variant) (hx : x ∈ subVs none t.variants) (addon : Bool)
    (ih : ∀ v ∈ x.2.kids, (Legacy.readVariant S c d' f true v.uid).bind (Legacy.fileChild x.2.uid) = .ok (normV false v))
    (hv : ValidV x.1 (normV x.1.isNone x.2)) :
    (Legacy.readVariant S c d' (f + 1) addon x.2.uid).bind (fileAs x.1) = .ok (normV x.1.isNone x.2) := by
  have hL := O.var x hx
  have hkn := kids_uids_nodup F.uidsNodup x hx
  have hkid := F.kidIds x hx
  have huok := F.uidsOK x hx
  have hsr := SR x hx
  have hch := CH x hx
  obtain ⟨pu, w⟩ := x
  obtain ⟨key, id, uid, name, type, paths, kids⟩ := w
  simp only [Variant.uid, Variant.type, Variant.kids, Variant.id, Variant.paths] at hL hkn hkid huok ih hv hsr hch ⊢
  obtain ⟨l1, l2, l3, l4, l5, l6, l7, l8⟩ := conv_lookup src ck hck pu key id uid name type paths kids hsr
  obtain ⟨hne1, hne2⟩ := secName_nonempty type uid
  have h0 := O.noDefault
  -- candidates other than the own section are not sections
  have hoth : ∀ cand ∈ [pVariant ++ uid, pVariant ++ id, pAddon ++ uid, pAddon ++ id], cand ≠ secName type uid → d'.lookup cand = none := by
    intro cand hcand hne
    cases hl : d'.lookup cand with
    | none => rfl
    | some o =>
      exfalso
      have hvs : isVarSec cand = true := by
        simp only [List.mem_cons, List.not_mem_nil, or_false] at hcand
        rcases hcand with rfl | rfl | rfl | rfl <;> first | exact isVarSec_variant _ | exact isVarSec_addon _
      obtain ⟨y, hy, hs⟩ := O.varInv cand hvs (by rw [hl]; rfl)
      have := hch y hy cand hcand hs.symm
      subst this
      exact hne hs
  -- the section the reader picks
  have hsec : (if hasSection d' (pVariant ++ uid) then pVariant ++ uid else pAddon ++ uid) = secName type uid := by
    by_cases ht : type = tAddon
    · have hn : pVariant ++ uid ≠ secName type uid := by
        rw [ht, secName_addon, pAddon_eq, pVariant_eq]; intro e; cases e
      have := hoth (pVariant ++ uid) (by simp) hn
      have hs : hasSection d' (pVariant ++ uid) = false := by
        rw [hasSection_sec' (by rw [pVariant_eq]; rfl), this]; rfl
      rw [hs, ht, secName_addon]; rfl
    · have hs : hasSection d' (pVariant ++ uid) = true := by
        rw [hasSection_sec' (by rw [pVariant_eq]; rfl), ← secName_not_addon uid ht, hL]; rfl
      rw [hs, secName_not_addon uid ht]; rfl
  have g1 := get_sec' hL l1
  have g2 := get_sec' hL l2
  have g3 := get_sec' hL l3
  have g4 := get_sec' hL l4
  have hempty : uid.isEmpty = false := by
    cases uid with
    | nil => exact absurd rfl huok.1
    | cons _ _ => rfl
  have huid_ne : uid ≠ [] := huok.1
  -- the children list: under `ck`, whichever of the two spellings
  have haddons : (if hasOption d' (secName type uid) kAddons then Ini.get d' (secName type uid) kAddons
      else if hasOption d' (secName type uid) kVariants then Ini.get d' (secName type uid) kVariants
      else .ok []) = .ok (if kids.isEmpty then [] else Str.joinWith ',' (Str.sortDedup (kids.map Variant.uid))) := by
    rw [hasOption_sec' h0 hL hne1 hne2, hasOption_sec' h0 hL hne1 hne2]
    rcases hck with rfl | rfl
    · rw [l5, l7 rfl]
      cases hke : kids.isEmpty with
      | true => simp
      | false => simp [get_sec' hL (k := kAddons) (by rw [l5, hke]; rfl)]
    · rw [l6 rfl, l5]
      cases hke : kids.isEmpty with
      | true => simp
      | false => simp [get_sec' hL (k := kVariants) (by rw [l5, hke]; rfl)]
  have hkids : Legacy.loopFile (fun u => (Legacy.readVariant S c d' f true u).bind (Legacy.fileChild uid))
      (splitNonEmpty (if kids.isEmpty then [] else Str.joinWith ',' (Str.sortDedup (kids.map Variant.uid)))) []
      = .ok (sortBy Variant.uid (normVs kids)) := by
    cases hke : kids.isEmpty with
    | true =>
      have : kids = [] := by simpa using hke
      subst this
      simp [splitNonEmpty, Str.splitOn, Legacy.loopFile, normVs, sortBy]
    | false =>
      have huids : ∀ u ∈ Str.sortDedup (kids.map Variant.uid), u ≠ [] ∧ ',' ∉ u := by
        intro u hu
        obtain ⟨v, hvm, rfl⟩ := List.mem_map.mp ((mem_sortDedup u _).mp hu)
        exact F.uidsOK (some uid, v) (kid_mem_subVs t.variants none _ hx v hvm)
      simp only [Bool.false_eq_true, if_false]
      rw [splitNonEmpty_join _ (fun u hu => (huids u hu).1) (fun u hu => (huids u hu).2), sortDedup_nodup _ hkn, sortS_map_key,
        loopFile_eq_loopAdd]
      have hloop := loopAdd_ok (fun u => (Legacy.readVariant S c d' f true u).bind (Legacy.fileChild uid)) (normV false)
        (sortBy Variant.uid kids) []
        (fun v hvm => ih v ((mem_sortBy _ _ _).mp hvm))
        (by
          simp only [List.nil_append, List.map_map]
          have : (Variant.key ∘ normV false) = Variant.id := by
            funext v; simp [Function.comp, normV_key]
          rw [this]
          exact nodup_map_sortBy _ _ _ hkid)
      rw [hloop, List.nil_append, normVs_eq_map]
      exact congrArg _ (sortBy_map_same Variant.uid Variant.uid (normV false) (fun v => normV_uid false v) kids).symm
  -- paths
  have hpv := pathVals03_chain h0 id uid hL hne1 hne2 (secName_mem_cands type uid id) hoth Gen.TREEINFO_PATH_FIELDS
  have hmap : (Gen.TREEINFO_PATH_FIELDS.map fun f => (f, ((varOpts pu (.mk key id uid name type paths kids)).filterMap (downVarOpt src ck)).lookup f))
      = Gen.TREEINFO_PATH_FIELDS.map fun f => (f, srcView src paths f) :=
    List.map_congr_left (fun f hf => by rw [l8 f hf])
  have hvp : validateClass "treeinfo.VariantPaths" [] = .ok () := by decide +kernel
  have hpaths : Legacy.dePathsL .v03 c d' id uid type = .ok (pathOpts paths) := by
    simp only [Legacy.dePathsL, hpv, hmap, hc, bind, Except.bind, pure, Except.pure, hvp]
    have := paths_swapped src paths hsr
    rw [this]
  have hvalid : validateClass "treeinfo.Variant" (variantObj pu id uid name type (sortBy Variant.uid (normVs kids))) = .ok () := by
    simp only [normV, ValidV] at hv
    exact hv.1
  rw [Legacy.readVariant]
  simp only [hempty, Bool.false_eq_true, if_false, hS1, hsec, g1, g2, g3, g4, haddons, hkids, hS2, hpaths]
  cases pu <;> simp [fileAs, Legacy.fileTop, Legacy.fileChild, hvalid, normV, huid_ne, Except.bind]
end PM.TI

namespace PM.TI
open Ini
set_option Elab.async false

theorem ebind_ok {α β : Type} (a : α) (f : α → Except Err β) : (Except.ok a : Except Err α).bind f = f a := rfl

theorem readV03 {t : TreeInfo} {src : Bool} {ck : Str} {d' : Ini} (S : Legacy.Sels) (hS1 : S.variant = .v03) (hS2 : S.paths = .v03)
    (c : Legacy.VCtx) (hc : (c.arch == Legacy.sSrc) = src) (O : OldDoc t src ck d') (hck : ck = kAddons ∨ ck = kVariants)
    (F : ForestOK t.variants) (CH : ChainOK t.variants) (SR : ∀ x ∈ subVs none t.variants, SrcRepresentable src x.2.paths) :
    ∀ (f : Nat) (x : Option Str × Variant), x ∈ subVs none t.variants → height x.2 ≤ f →
      ValidV x.1 (normV x.1.isNone x.2) → ∀ addon : Bool,
      (Legacy.readVariant S c d' f addon x.2.uid).bind (fileAs x.1) = .ok (normV x.1.isNone x.2)
  | 0, x, _, hh, _, _ => by
    have := height_kids x.2
    omega
  | f + 1, x, hx, hh, hv, addon => by
    apply readV03_step S hS1 hS2 c hc O hck F CH SR f x hx addon _ hv
    intro v hvm
    have hk := kid_mem_subVs t.variants none x hx v hvm
    have h1 := height_mem _ _ hvm
    have h2 := height_kids x.2
    exact readV03 S hS1 hS2 c hc O hck F CH SR f (some x.2.uid, v) hk (by simp only; omega) (validV_kids x.1 _ x.2 hv v hvm) true

theorem deTopsL_old {t : TreeInfo} {src : Bool} {ck : Str} {d d' : Ini} {g : IniSec} (S : Legacy.Sels) (hS1 : S.variant = .v03) (hS2 : S.paths = .v03)
    (hS3 : S.variants00 = false)
    (c : Legacy.VCtx) (hc : (c.arch == Legacy.sSrc) = src) (O : OldDoc t src ck d') (hck : ck = kAddons ∨ ck = kVariants)
    (F : ForestOK t.variants) (CH : ChainOK t.variants) (SR : ∀ x ∈ subVs none t.variants, SrcRepresentable src x.2.paths)
    (V : View (fun _ => True) (docList t g) d) (htree : d'.lookup sTree = d.lookup sTree) (hlen : d'.length = d.length)
    (hne : t.variants ≠ [])
    (hvf : ValidVs none (sortBy Variant.uid (normTops t.variants)))
    (hv : validateClass "treeinfo.Variants" (variantsObj (sortBy Variant.uid (normTops t.variants))) = .ok ()) :
    Legacy.deTopsL S c d' = .ok (sortBy Variant.uid (normTops t.variants)) := by
  have hL := L_tree t g
  obtain ⟨_, _, _, l4⟩ := treeOptsFull_lookup t
  have h0 : d'.lookup DEFAULT = d.lookup DEFAULT := by rw [O.noDefault, V.noDefault]
  have ho : hasOption d' sTree kVariants = true := by
    rw [hasOption_congr htree h0, V.hasOption_of hL (by decide) (by decide) (by decide), l4]; rfl
  have hg : Ini.get d' sTree kVariants = _ := (get_congr htree h0 kVariants).trans (V.get_of hL l4 (by decide))
  have huok : ∀ u ∈ sortS (t.variants.map Variant.uid), ',' ∉ u := by
    intro u hu
    obtain ⟨v, hvm, rfl⟩ := List.mem_map.mp ((mem_sortS _ u).mp hu)
    exact (F.uidsOK (none, v) (self_mem_subVs none _ v hvm)).2
  have hsplit : Str.splitOn ',' (Str.joinWith ',' (sortS (t.variants.map Variant.uid))) = (sortBy Variant.uid t.variants).map Variant.uid := by
    rw [splitOn_joinWith ',' _ _ huok, sortS_map_key]
    intro e
    have : (sortS (t.variants.map Variant.uid)).length = 0 := by rw [e]; rfl
    rw [(sortS_perm _).length_eq, List.length_map] at this
    exact hne (List.eq_nil_of_length_eq_zero this)
  have hvalid : ∀ v ∈ t.variants, ValidV none (normV true v) := by
    intro v hvm
    apply (ValidVs_iff none _).mp hvf
    rw [mem_sortBy, normTops_eq_map]
    exact List.mem_map.mpr ⟨v, hvm, rfl⟩
  have hfuel := heights_le_docList t g
  rw [← V.length, ← hlen] at hfuel
  have hloop := loopAdd_ok (fun u => (Legacy.readVariant S c d' (d'.length + 1) false u).bind Legacy.fileTop) (normV true)
    (sortBy Variant.uid t.variants) []
    (fun v hvm => by
      have hm := (mem_sortBy _ _ _).mp hvm
      have := readV03 S hS1 hS2 c hc O hck F CH SR (d'.length + 1) (none, v) (self_mem_subVs none _ v hm)
        (by have := height_mem _ _ hm; simp only; omega) (hvalid v hm) false
      simpa [fileAs] using this)
    (by
      simp only [List.nil_append, List.map_map]
      have : (Variant.key ∘ normV true) = Variant.uid := by
        funext v; simp [Function.comp, normV_key]
      rw [this]
      exact nodup_map_sortBy _ _ _ (tops_uids_nodup F.uidsNodup))
  have hres : (sortBy Variant.uid t.variants).map (normV true) = sortBy Variant.uid (normTops t.variants) := by
    rw [normTops_eq_map]
    exact (sortBy_map_same Variant.uid Variant.uid (normV true) (fun v => normV_uid true v) _).symm
  unfold Legacy.deTopsL
  simp only [hS3, Bool.false_eq_true, if_false, ho, if_true, hg, Except.map, hsplit, bind, pure, Except.pure,
    loopFile_eq_loopAdd, ebind_ok, hloop, List.nil_append, hres, hv]
end PM.TI
