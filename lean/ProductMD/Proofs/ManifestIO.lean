import ProductMD.Proofs.Builders
import ProductMD.Model.ManifestIO
/-!
Lemmas behind C03: the builders keep the mapping JSON-representable; the documents `serialize` builds; what
`deserialize` reads from the re-parsed text.
-/
namespace PM.Mf
open PM

instance exceptDecEq {ε α : Type} [DecidableEq ε] [DecidableEq α] : DecidableEq (Except ε α)
  | .ok a, .ok b => if h : a = b then isTrue (by rw [h]) else isFalse (by intro e; cases e; exact h rfl)
  | .error a, .error b => if h : a = b then isTrue (by rw [h]) else isFalse (by intro e; cases e; exact h rfl)
  | .ok _, .error _ => isFalse (by intro e; cases e)
  | .error _, .ok _ => isFalse (by intro e; cases e)

/-! ### the records the builders store -/

theorem jsonRep_optStr (o : Option Str) : jsonRep (optStr o) = true := by cases o <;> rfl

theorem jsonRep_rpmRecord (sk : Option Str) (p c : Str) : jsonRep (rpmRecord sk p c) = true := by
  cases sk <;> rfl

theorem rpmsCheck_record (a : RpmsArgs) (p : RpmsPlan) (h : rpmsCheck a = .ok p) :
    ∃ sk, p.record = rpmRecord sk a.path a.category := by
  unfold rpmsCheck at h
  split at h; · cases h
  split at h; · cases h
  split at h; · cases h
  split at h; · cases h
  split at h; · cases h
  split at h; · cases h
  split at h; · cases h
  split at h; · cases h
  split at h; · cases h
  simp only at h
  split at h; · cases h
  cases h
  exact ⟨_, rfl⟩

def SeqArg.jsonRep : SeqArg → Bool
  | .list xs => jsonRepList xs
  | .tuple xs => jsonRepList xs
  | .other => true

theorem jsonRep_moduleMetadata (uid : Str) (u : UidParts) (t : Str) : jsonRep (moduleMetadata uid u t) = true := rfl

theorem modulesCheck_rep (a : ModulesArgs) (p : ModulesPlan) (h : modulesCheck a = .ok p) :
    jsonRep p.metadata = true ∧ (a.rpms.jsonRep = true → jsonRepList p.rpms = true) := by
  unfold modulesCheck at h
  split at h; · cases h
  split at h; · cases h
  split at h; · cases h
  split at h; · cases h
  split at h; · cases h
  split at h; · cases h
  split at h; · cases h
  split at h
  · cases h
  all_goals
    rename_i hr
    cases h
    refine ⟨jsonRep_moduleMetadata _ _ _, fun ha => ?_⟩
    rw [hr] at ha
    exact ha

theorem rpmsLeaf_jsonRep (key : Str) (r x : PyVal) (hr : jsonRep r = true) (hx : jsonRep x = true) :
    jsonRep (rpmsLeaf key r x).1 = true := by
  cases x <;> try exact hx
  rename_i kvs
  simp only [rpmsLeaf, jsonRep] at hx ⊢
  exact jsonRepKvs_put _ _ _ hx hr

theorem modulesLeaf_jsonRep (p : ModulesPlan) (x : PyVal) (hm : jsonRep p.metadata = true)
    (hl : jsonRepList p.rpms = true) (hx : jsonRep x = true) : jsonRep (modulesLeaf p x).1 = true := by
  cases x <;> try exact hx
  rename_i e
  simp only [jsonRep] at hx
  have h1 : jsonRepKvs (put e (lit "metadata") p.metadata) = true := jsonRepKvs_put _ _ _ hx hm
  simp only [modulesLeaf]
  cases hmp : (lookup (put e (lit "metadata") p.metadata) (lit "modulemd_path")).getD (.dict []) with
  | dict mp =>
    simp only
    have hmpr : jsonRepKvs mp = true := by
      cases hlk : lookup (put e (lit "metadata") p.metadata) (lit "modulemd_path") with
      | none => rw [hlk] at hmp; simp only [Option.getD_none] at hmp; cases hmp; rfl
      | some y =>
        rw [hlk] at hmp; simp only [Option.getD_some] at hmp; subst hmp
        simpa [jsonRep] using jsonRep_of_lookup _ _ _ h1 hlk
    have h2 : jsonRepKvs (put (put e (lit "metadata") p.metadata) (lit "modulemd_path")
        (.dict (put mp p.category (.str p.path)))) = true :=
      jsonRepKvs_put _ _ _ h1 (by simp only [jsonRep]; exact jsonRepKvs_put _ _ _ hmpr rfl)
    cases hrl : (lookup (put (put e (lit "metadata") p.metadata) (lit "modulemd_path")
        (.dict (put mp p.category (.str p.path)))) (lit "rpms")).getD (.list []) with
    | list l =>
      simp only [jsonRep]
      apply jsonRepKvs_put _ _ _ h2
      simp only [jsonRep]
      apply jsonRepList_append _ _ _ hl
      cases hlk : lookup (put (put e (lit "metadata") p.metadata) (lit "modulemd_path")
          (.dict (put mp p.category (.str p.path)))) (lit "rpms") with
      | none => rw [hlk] at hrl; simp only [Option.getD_none] at hrl; cases hrl; rfl
      | some y =>
        rw [hlk] at hrl; simp only [Option.getD_some] at hrl; subst hrl
        simpa [jsonRep] using jsonRep_of_lookup _ _ _ h2 hlk
    | _ => simpa [jsonRep] using h2
  | _ => simpa [jsonRep] using h1

theorem extraLeaf_jsonRep (arch : Str) (r x : PyVal) (hr : jsonRep r = true) (hx : jsonRep x = true) :
    jsonRep (extraLeaf arch r x).1 = true := by
  cases x <;> try exact hx
  rename_i am
  simp only [jsonRep] at hx
  simp only [extraLeaf]
  cases hm : (lookup am arch).getD (.list []) with
  | list l =>
    simp only [jsonRep]
    apply jsonRepKvs_put _ _ _ hx
    simp only [jsonRep]
    apply jsonRepList_append
    · cases hlk : lookup am arch with
      | none => rw [hlk] at hm; simp only [Option.getD_none] at hm; cases hm; rfl
      | some y =>
        rw [hlk] at hm; simp only [Option.getD_some] at hm; subst hm
        simpa [jsonRep] using jsonRep_of_lookup _ _ _ hx hlk
    · simp [jsonRepList, hr]
  | _ => simpa [jsonRep] using hx

theorem rpms_add_jsonRep (s : PyVal) (a : RpmsArgs) (h : jsonRep s = true) : jsonRep (Rpms.add s a).1 = true := by
  rw [Rpms.add_eq]
  cases hc : rpmsCheck a with
  | error e => exact h
  | ok p =>
    obtain ⟨sk, hrec⟩ := rpmsCheck_record a p hc
    exact setPathS_jsonRep _ (fun x hx => rpmsLeaf_jsonRep _ _ x (by rw [hrec]; exact jsonRep_rpmRecord _ _ _) hx) _ s h

theorem modules_add_jsonRep (s : PyVal) (a : ModulesArgs) (ha : a.rpms.jsonRep = true) (h : jsonRep s = true) :
    jsonRep (Modules.add s a).1 = true := by
  rw [Modules.add_eq]
  cases hc : modulesCheck a with
  | error e => exact h
  | ok p =>
    obtain ⟨hm, hl⟩ := modulesCheck_rep a p hc
    exact setPathS_jsonRep _ (fun x hx => modulesLeaf_jsonRep p x hm (hl ha) hx) _ s h

theorem extraCheck_record (a : ExtraArgs) (r : PyVal) (h : extraCheck a = .ok r) : r = extraRecord a := by
  unfold extraCheck at h
  repeat' split at h
  all_goals first | (cases h; rfl) | cases h

theorem extra_add_jsonRep (s : PyVal) (a : ExtraArgs) (ha : jsonRep a.size = true ∧ jsonRep a.checksums = true)
    (h : jsonRep s = true) : jsonRep (ExtraFiles.add s a).1 = true := by
  rw [ExtraFiles.add_eq]
  cases hc : extraCheck a with
  | error e => exact h
  | ok r =>
    have hr : jsonRep r = true := by
      rw [extraCheck_record a r hc]
      simp only [extraRecord, jsonRep, jsonRepKvs, hasKey, ha.1, ha.2]
      decide
    exact setPathS_jsonRep _ (fun x hx => extraLeaf_jsonRep _ _ x hr hx) _ s h

/-! ### documents -/

/-- a compose section with the documented field types -/
structure ComposeT where
  id : Str
  type : Str
  date : Str
  respin : Int
  label : Option Str
  final : Bool
deriving Repr

def ComposeT.toObj (c : ComposeT) : Obj :=
  [(lit "id", .str c.id), (lit "type", .str c.type), (lit "date", .str c.date), (lit "respin", .int c.respin),
   (lit "label", optStr c.label), (lit "final", .bool c.final)]

/-- `if self.label:` -/
def ComposeT.labelSet (c : ComposeT) : Bool := (optStr c.label).truthy

/-- what a write/read cycle is documented to do to the compose section: `final` travels only with a label -/
def ComposeT.norm (c : ComposeT) : ComposeT := if c.labelSet then c else { c with label := none, final := false }

def composeDoc (c : ComposeT) : PyVal :=
  .dict (if c.labelSet
         then [(lit "id", .str c.id), (lit "type", .str c.type), (lit "date", .str c.date), (lit "respin", .int c.respin)]
                ++ [(lit "label", optStr c.label), (lit "final", .bool c.final)]
         else [(lit "id", .str c.id), (lit "type", .str c.type), (lit "date", .str c.date), (lit "respin", .int c.respin)])

def headerDoc (k : Kind) : PyVal := .dict [(lit "type", .str k.headerType), (lit "version", .str currentVersion)]

def payloadDoc (k : Kind) (c : ComposeT) (p : PyVal) : PyVal :=
  .dict (match k with
    | .rpms => [(k.payloadKey, p), (lit "compose", composeDoc c)]
    | _ => [(lit "compose", composeDoc c), (k.payloadKey, p)])

/-- the document `serialize` builds -/
def docOf (k : Kind) (c : ComposeT) (p : PyVal) : PyVal :=
  .dict [(lit "header", headerDoc k), (lit "payload", payloadDoc k c p)]

/-! obligations on the generated data: the current `VERSION` renders to a valid header version, lies beyond the
legacy gates, and the three top-level classes have no validator that could refuse -/
theorem header_current_ok : validateClass "common.Header" [(lit "version", .str currentVersion)] = .ok () := by
  decide +kernel
theorem versionTuple_current : versionTuple (.str currentVersion) = .ok (.nums Gen.VERSION) := by
  decide +kernel
theorem top_ok (k : Kind) : validateClass k.className [] = .ok () := by cases k <;> decide +kernel
theorem gate_header_some : Gen.gate_common_Header_deserialize_0.eval? Gen.VERSION = some true := by decide
theorem gate_rpms_some : Gen.gate_rpms_Rpms_deserialize_0.eval? Gen.VERSION = some false := by decide
theorem gate_compose_some : Gen.gate_composeinfo_Compose_deserialize_0.eval? Gen.VERSION = some false := by decide
theorem gate_header : gateHolds Gen.gate_common_Header_deserialize_0 Gen.VERSION = true := by
  simp [gateHolds, gate_header_some]
theorem gate_rpms : gateHolds Gen.gate_rpms_Rpms_deserialize_0 Gen.VERSION = false := by
  simp [gateHolds, gate_rpms_some]
theorem gate_compose : gateHolds Gen.gate_composeinfo_Compose_deserialize_0 Gen.VERSION = false := by
  simp [gateHolds, gate_compose_some]

theorem composeSerialize_toObj (c : ComposeT) (hv : composeValidate c.toObj = .ok ()) :
    composeSerialize c.toObj = .ok (composeDoc c) := by
  unfold composeSerialize
  rw [hv]
  rfl

theorem dumpDoc_eq (k : Kind) (v0 : PyVal) (c : ComposeT) (p : PyVal) (hv : composeValidate c.toObj = .ok ()) :
    (dumpDoc k { version := v0, compose := c.toObj, payload := p }).2 = .ok (docOf k c p) := by
  unfold dumpDoc
  rw [top_ok]
  simp only [serialize]
  have hh : headerSerialize k = .ok (headerDoc k) := by
    unfold headerSerialize
    rw [header_current_ok]
    rfl
  rw [hh, composeSerialize_toObj c hv]
  cases k
  · rfl
  · simp only [top_ok]; rfl
  · simp only [top_ok]; rfl

theorem composeDoc_norm (c : ComposeT) : composeDoc c.norm = composeDoc c := by
  unfold ComposeT.norm
  cases h : c.labelSet
  · simp only [Bool.false_eq_true, ↓reduceIte]
    unfold composeDoc
    rw [h]
    rfl
  · simp

theorem jsonRep_composeDoc (c : ComposeT) : jsonRep (composeDoc c) = true := by
  unfold composeDoc
  cases c.labelSet
  · rfl
  · cases h : c.label <;> simp only [↓reduceIte] <;> rfl

theorem jsonRep_headerDoc (k : Kind) : jsonRep (headerDoc k) = true := by cases k <;> rfl

theorem jsonRep_payloadDoc (k : Kind) (c : ComposeT) (p : PyVal) (hp : jsonRep p = true) :
    jsonRep (payloadDoc k c p) = true := by
  cases k <;> simp only [payloadDoc, jsonRep, jsonRepKvs, hasKey, Kind.payloadKey, hp, jsonRep_composeDoc] <;> decide

theorem jsonRep_docOf (k : Kind) (c : ComposeT) (p : PyVal) (hp : jsonRep p = true) : jsonRep (docOf k c p) = true := by
  simp only [docOf, jsonRep, jsonRepKvs, hasKey, jsonRep_headerDoc, jsonRep_payloadDoc k c p hp]
  decide

theorem canon_str (s : Str) : PyVal.canon (.str s) = .str s := by simp [PyVal.canon]
theorem canon_int (n : Int) : PyVal.canon (.int n) = .int n := by simp [PyVal.canon]
theorem canon_bool (b : Bool) : PyVal.canon (.bool b) = .bool b := by simp [PyVal.canon]
theorem canon_none : PyVal.canon .none = .none := by simp [PyVal.canon]
theorem canon_optStr (o : Option Str) : PyVal.canon (optStr o) = optStr o := by cases o <;> simp [optStr, PyVal.canon]

theorem truthy_bool (b : Bool) : (PyVal.bool b).truthy = b := rfl
theorem truthy_none : PyVal.none.truthy = false := rfl

theorem headerDeserialize_reparse (k : Kind) (c : ComposeT) (p : PyVal) (hp : jsonRep p = true) :
    headerDeserialize k (reparse (docOf k c p))
      = .ok (.str currentVersion, .nums Gen.VERSION) := by
  unfold headerDeserialize reparse
  rw [getItem_canon _ _ (jsonRep_docOf k c p hp)]
  have h1 : getItem (docOf k c p) (lit "header") = .ok (headerDoc k) := rfl
  rw [h1]
  simp only [Except.map]
  rw [getItem_canon _ _ (jsonRep_headerDoc k)]
  have h2 : getItem (headerDoc k) (lit "version") = .ok (.str currentVersion) := rfl
  rw [h2]
  simp only [Except.map, canon_str]
  rw [versionTuple_current]
  simp only [gate_header, ↓reduceIte]
  rw [getItem_canon _ _ (jsonRep_headerDoc k)]
  have h3 : getItem (headerDoc k) (lit "type") = .ok (.str k.headerType) := rfl
  rw [h3]
  simp only [Except.map, canon_str]
  have h4 : PyVal.pyEq (.str k.headerType) (.str k.headerType) = true := by
    unfold PyVal.pyEq; exact beq_refl _
  rw [h4]
  rfl

theorem composeDeserialize_reparse (k : Kind) (c : ComposeT) (p : PyVal) (hp : jsonRep p = true)
    (hn : composeValidate c.norm.toObj = .ok ()) :
    composeDeserialize (.nums Gen.VERSION) (PyVal.canon (payloadDoc k c p)) = .ok c.norm.toObj := by
  unfold composeDeserialize
  simp only [gate_compose, Bool.false_eq_true, ↓reduceIte]
  rw [getItem_canon _ _ (jsonRep_payloadDoc k c p hp)]
  have h1 : getItem (payloadDoc k c p) (lit "compose") = .ok (composeDoc c) := by cases k <;> rfl
  rw [h1]
  simp only [Except.map]
  have hj := jsonRep_composeDoc c
  rw [getItem_canon _ _ hj, getItem_canon _ _ hj, getItem_canon _ _ hj, getItem_canon _ _ hj,
    dictGetD_canon _ _ _ canon_none hj, dictGetD_canon _ _ _ (canon_bool false) hj]
  cases hl : c.labelSet with
  | true =>
    have hnorm : c.norm = c := by simp [ComposeT.norm, hl]
    rw [hnorm] at hn
    have e1 : getItem (composeDoc c) (lit "id") = .ok (.str c.id) := by unfold composeDoc; rw [hl]; rfl
    have e2 : getItem (composeDoc c) (lit "type") = .ok (.str c.type) := by unfold composeDoc; rw [hl]; rfl
    have e3 : getItem (composeDoc c) (lit "date") = .ok (.str c.date) := by unfold composeDoc; rw [hl]; rfl
    have e4 : getItem (composeDoc c) (lit "respin") = .ok (.int c.respin) := by unfold composeDoc; rw [hl]; rfl
    have e5 : dictGetD (composeDoc c) (lit "label") .none = .ok (optStr c.label) := by unfold composeDoc; rw [hl]; rfl
    have e6 : dictGetD (composeDoc c) (lit "final") (.bool false) = .ok (.bool c.final) := by
      unfold composeDoc; rw [hl]; rfl
    rw [e1, e2, e3, e4, e5, e6]
    simp only [Except.map, canon_str, canon_int, canon_bool, canon_optStr]
    have ht : (optStr c.label).truthy = true := hl
    simp only [ht, ↓reduceIte, truthy_bool]
    rw [hnorm]
    have : composeValidate
        [(lit "id", PyVal.str c.id), (lit "type", PyVal.str c.type), (lit "date", PyVal.str c.date),
          (lit "respin", PyVal.int c.respin), (lit "label", optStr c.label), (lit "final", PyVal.bool c.final)] = .ok () := hn
    rw [this]
    rfl
  | false =>
    have hnorm : c.norm = { c with label := none, final := false } := by simp [ComposeT.norm, hl]
    rw [hnorm] at hn ⊢
    have e1 : getItem (composeDoc c) (lit "id") = .ok (.str c.id) := by unfold composeDoc; rw [hl]; rfl
    have e2 : getItem (composeDoc c) (lit "type") = .ok (.str c.type) := by unfold composeDoc; rw [hl]; rfl
    have e3 : getItem (composeDoc c) (lit "date") = .ok (.str c.date) := by unfold composeDoc; rw [hl]; rfl
    have e4 : getItem (composeDoc c) (lit "respin") = .ok (.int c.respin) := by unfold composeDoc; rw [hl]; rfl
    have e5 : dictGetD (composeDoc c) (lit "label") .none = .ok .none := by unfold composeDoc; rw [hl]; rfl
    have e6 : dictGetD (composeDoc c) (lit "final") (.bool false) = .ok (.bool false) := by
      unfold composeDoc; rw [hl]; rfl
    rw [e1, e2, e3, e4, e5, e6]
    simp only [Except.map, canon_str, canon_int, canon_bool, canon_none, truthy_bool, truthy_none, Bool.false_eq_true, ↓reduceIte]
    have : composeValidate
        [(lit "id", PyVal.str c.id), (lit "type", PyVal.str c.type), (lit "date", PyVal.str c.date),
          (lit "respin", PyVal.int c.respin), (lit "label", PyVal.none), (lit "final", PyVal.bool false)] = .ok () := hn
    rw [this]
    rfl

theorem deserialize_reparse (k : Kind) (c : ComposeT) (p : PyVal) (hp : jsonRep p = true)
    (hn : composeValidate c.norm.toObj = .ok ()) :
    deserialize k (reparse (docOf k c p))
      = .ok { version := .str currentVersion, compose := c.norm.toObj, payload := PyVal.canon p } := by
  unfold deserialize
  rw [headerDeserialize_reparse k c p hp]
  have h1 : getItem (docOf k c p) (lit "payload") = .ok (payloadDoc k c p) := rfl
  have h2 : getItem (payloadDoc k c p) k.payloadKey = .ok p := by cases k <;> rfl
  have h3 := getItem_canon _ (lit "payload") (jsonRep_docOf k c p hp)
  have h4 := getItem_canon _ k.payloadKey (jsonRep_payloadDoc k c p hp)
  have h5 := composeDeserialize_reparse k c p hp hn
  have h6 := top_ok k
  rw [h1] at h3
  rw [h2] at h4
  simp only [Except.map] at h3 h4
  cases k <;>
    simp only [gate_rpms, Bool.false_eq_true, ↓reduceIte, reparse, h3, h5, h4, h6]

/-- the second document differs from the first only by `canon` inside the payload: same text -/
theorem dumps_docOf_canon (k : Kind) (c : ComposeT) (p : PyVal) (hp : jsonRep p = true) :
    JsonText.dumps (docOf k c.norm (PyVal.canon p)) = JsonText.dumps (docOf k c p) := by
  unfold JsonText.dumps
  congr 1
  cases k <;>
    simp only [docOf, payloadDoc, composeDoc_norm, PyVal.canon, PyVal.canonKvs, canon_idem p hp]

end PM.Mf
