import ProductMD.Model.ComposeInfo
/-! Helper lemmas for C01: code-point order on strings, `sortDedup`, association lists, `collect`. Core Lean only. -/
namespace PM.CI
open PM

/-! ### order on `Str` -/
theorem lt_of_not_lt_ne {a b : Str} (h : ¬ a < b) (h2 : a ≠ b) : b < a := by
  have h1 : b ≤ a := List.not_lt.mp h
  rcases List.le_iff_lt_or_eq.mp h1 with h3 | h3
  · exact h3
  · exact absurd h3.symm h2

/-- strictly increasing -/
def SSorted (l : List Str) : Prop := l.Pairwise (· < ·)

theorem SSorted.nodup {l : List Str} (h : SSorted l) : l.Nodup := by
  unfold SSorted at h
  unfold List.Nodup
  refine List.Pairwise.imp ?_ h
  intro a b hab heq
  subst heq
  exact List.lt_irrefl _ hab

theorem sorted_ext {l₁ l₂ : List Str} (h₁ : SSorted l₁) (h₂ : SSorted l₂) (h : ∀ x, x ∈ l₁ ↔ x ∈ l₂) : l₁ = l₂ := by
  have hp : l₁.Perm l₂ := (List.perm_ext_iff_of_nodup h₁.nodup h₂.nodup).mpr h
  exact List.Perm.eq_of_pairwise (le := (· < ·)) (fun a b _ _ hab hba => absurd hba (List.lt_asymm hab)) h₁ h₂ hp

theorem mem_insertSorted {x y : Str} {l : List Str} : y ∈ Str.insertSorted x l ↔ y = x ∨ y ∈ l := by
  induction l with
  | nil => simp [Str.insertSorted]
  | cons a as ih =>
    simp only [Str.insertSorted]
    split
    · rename_i h; subst h; simp
    · split
      · simp
      · simp only [List.mem_cons, ih]
        constructor
        · rintro (h | h | h) <;> simp [h]
        · rintro (h | h | h) <;> simp [h]

theorem insertSorted_sorted {x : Str} {l : List Str} (h : SSorted l) : SSorted (Str.insertSorted x l) := by
  induction l with
  | nil => simp [Str.insertSorted, SSorted]
  | cons a as ih =>
    unfold SSorted at h
    have ⟨ha, hs⟩ := List.pairwise_cons.mp h
    simp only [Str.insertSorted]
    split
    · exact h
    · rename_i hne
      split
      · rename_i hlt
        have hlt' : x < a := by simpa [Str.lt] using hlt
        exact List.pairwise_cons.mpr ⟨fun b hb => by
          rcases List.mem_cons.mp hb with rfl | hb
          · exact hlt'
          · exact List.lt_trans hlt' (ha b hb), h⟩
      · rename_i hnlt
        have hnlt' : ¬ x < a := by simpa [Str.lt] using hnlt
        have hax : a < x := lt_of_not_lt_ne hnlt' hne
        exact List.pairwise_cons.mpr ⟨fun b hb => by
          rcases mem_insertSorted.mp hb with rfl | hb
          · exact hax
          · exact ha b hb, ih hs⟩

theorem mem_sortDedup {y : Str} {l : List Str} : y ∈ Str.sortDedup l ↔ y ∈ l := by
  induction l with
  | nil => simp [Str.sortDedup]
  | cons a as ih =>
    have : Str.sortDedup (a :: as) = Str.insertSorted a (Str.sortDedup as) := rfl
    rw [this, mem_insertSorted, ih]; simp

theorem sortDedup_sorted (l : List Str) : SSorted (Str.sortDedup l) := by
  induction l with
  | nil => simp [Str.sortDedup, SSorted]
  | cons a as ih =>
    have : Str.sortDedup (a :: as) = Str.insertSorted a (Str.sortDedup as) := rfl
    rw [this]; exact insertSorted_sorted ih

theorem sortDedup_congr {l₁ l₂ : List Str} (h : ∀ x, x ∈ l₁ ↔ x ∈ l₂) : Str.sortDedup l₁ = Str.sortDedup l₂ :=
  sorted_ext (sortDedup_sorted _) (sortDedup_sorted _) (fun x => by rw [mem_sortDedup, mem_sortDedup]; exact h x)

theorem sortDedup_of_sorted {l : List Str} (h : SSorted l) : Str.sortDedup l = l :=
  sorted_ext (sortDedup_sorted _) h (fun _ => mem_sortDedup)

theorem sortDedup_idem (l : List Str) : Str.sortDedup (Str.sortDedup l) = Str.sortDedup l :=
  sortDedup_of_sorted (sortDedup_sorted l)

theorem sortDedup_nodup (l : List Str) : (Str.sortDedup l).Nodup := (sortDedup_sorted l).nodup

theorem sortDedup_eq_nil {l : List Str} : Str.sortDedup l = [] ↔ l = [] := by
  constructor
  · intro h
    cases l with
    | nil => rfl
    | cons a as =>
      have : a ∈ Str.sortDedup (a :: as) := mem_sortDedup.mpr (by simp)
      rw [h] at this; cases this
  · rintro rfl; rfl

/-! ### association lists -/
theorem lookup_of_mem {β} {k : Str} {b : β} : ∀ {l : List (Str × β)}, (l.map (·.1)).Nodup → (k, b) ∈ l → lookup k l = some b := by
  intro l
  induction l with
  | nil => intro _ h; cases h
  | cons x xs ih =>
    intro hn hm
    obtain ⟨u, e'⟩ := x
    simp only [List.map_cons, List.nodup_cons] at hn
    cases hm with
    | head => simp [lookup]
    | tail _ h =>
      have : u ≠ k := by
        intro heq; subst heq
        exact hn.1 (List.mem_map.mpr ⟨(u, b), h, rfl⟩)
      simp [lookup, this, ih hn.2 h]

theorem mem_of_lookup {β} {k : Str} {b : β} : ∀ {l : List (Str × β)}, lookup k l = some b → (k, b) ∈ l := by
  intro l
  induction l with
  | nil => intro h; simp [lookup] at h
  | cons x xs ih =>
    obtain ⟨u, e'⟩ := x
    intro h
    simp only [lookup] at h
    split at h
    · rename_i heq; cases h; subst heq; simp
    · exact List.mem_cons_of_mem _ (ih h)

theorem lookup_none_iff {β} {k : Str} : ∀ {l : List (Str × β)}, lookup k l = none ↔ ∀ x ∈ l, x.1 ≠ k := by
  intro l
  induction l with
  | nil => simp [lookup]
  | cons x xs ih =>
    obtain ⟨u, e'⟩ := x
    simp only [lookup]
    split
    · rename_i heq; subst heq; simp
    · rename_i hne; simp [ih, hne]

/-- `d.get?` on a dict built by mapping an association list -/
theorem get?_map {β} (f : β → PyVal) (k : Str) (l : List (Str × β)) :
    PyVal.get? (.dict (l.map fun p => (p.1, f p.2))) k = (lookup k l).map f := by
  induction l with
  | nil => simp [PyVal.get?, lookup]
  | cons x xs ih =>
    obtain ⟨u, e'⟩ := x
    unfold PyVal.get? at ih ⊢
    by_cases h : u = k
    · simp [h, lookup]
    · have : (u == k) = false := by simpa using h
      simp only [List.map_cons, List.find?_cons, this, lookup, h, if_false]
      exact ih

/-! ### `collect` -/
theorem collect_map_ok {α β} (f : α → Except Err β) (g : α → β) :
    ∀ (l : List α), (∀ a ∈ l, f a = .ok (g a)) → collect (l.map f) = .ok (l.map g) := by
  intro l
  induction l with
  | nil => intro _; rfl
  | cons a as ih =>
    intro h
    simp only [List.map_cons, collect, h a (by simp)]
    rw [ih (fun b hb => h b (by simp [hb]))]

theorem asStrList_strList (l : List Str) : asStrList (strList l) = .ok l := by
  simp only [strList, asStrList, List.map_map]
  have := collect_map_ok (fun s => asStr' (PyVal.str s)) (fun s => s) l (fun a _ => rfl)
  simpa [Function.comp_def] using this

end PM.CI
