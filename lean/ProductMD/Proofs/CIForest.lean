import ProductMD.Proofs.CIReader
/-! C01: rebuilding a written forest, any depth. -/
namespace PM.CI
open PM

/-- one level: if every child is rebuilt correctly with one unit of fuel less, so is the variant -/
theorem build_step (ver : Nat × Nat) (hv : verLt ver (1, 0) = false) (doc : Flat) (hs : FSorted doc)
    (key id uid name type : Str) (arches : List Str) (paths : PathTable) (rel : Option Release) (kids : List Variant)
    (ctx : Ctx) (f : Nat)
    (hg : Good ctx (.mk key id uid name type arches paths rel kids))
    (hk : wellKeyed (.mk key id uid name type arches paths rel kids) = true)
    (hmem : (uid, entryOf (.mk key id uid name type arches paths rel kids)) ∈ doc)
    (hkids : ∀ k ∈ kids, Variant.build ver (flatVal doc) f (some (uid, Str.sortDedup arches)) k.uid = .ok k.norm) :
    Variant.build ver (flatVal doc) (f + 1) ctx uid = .ok (Variant.norm (.mk key id uid name type arches paths rel kids)) := by
  have hg' := hg
  simp only [Good] at hg'
  obtain ⟨hrel, hpaths, hval, hgk⟩ := hg'
  have hv03 := verLt_0_3_of ver hv
  have hk' := hk
  simp only [wellKeyed, Bool.and_eq_true, decide_eq_true_eq] at hk'
  -- children
  have hkidsok : collect ((Str.sortDedup (kids.map Variant.id)).map fun i =>
      Variant.build ver (flatVal doc) f (some (uid, Str.sortDedup arches)) (uid ++ '-' :: i))
      = .ok (pick (Str.sortDedup (kids.map Variant.id)) (norms kids)) := by
    apply collect_pick
    intro i hi
    obtain ⟨w, hw⟩ := findId_of_mem (mem_sortDedup.mp hi)
    have hw' := findId_some hw
    refine ⟨w.norm, ?_, by rw [findId_norms, hw]; rfl⟩
    have hal := vok_aligned uid (Str.sortDedup arches) w (GoodL_mem hgk w hw'.1).valid
    rw [← hw'.2, ← hal]
    exact hkids w hw'.1
  have hadd : addAll [] (pick (Str.sortDedup (kids.map Variant.id)) (norms kids))
      = .ok (pick (Str.sortDedup (kids.map Variant.id)) (norms kids)) := by
    have hnk : ∀ w ∈ norms kids, w.key = w.id := by
      intro w hw
      rw [norms_eq_map] at hw
      obtain ⟨v, _, rfl⟩ := List.mem_map.mp hw
      simp
    have := addAll_ok (pick (Str.sortDedup (kids.map Variant.id)) (norms kids)) [] (by
      simp only [List.nil_append]
      have hkeys : (pick (Str.sortDedup (kids.map Variant.id)) (norms kids)).map Variant.key
          = (pick (Str.sortDedup (kids.map Variant.id)) (norms kids)).map Variant.id :=
        List.map_congr_left (fun w hw => hnk w (pick_mem hw))
      rw [hkeys]
      exact (pick_ids_sublist _ _).nodup (sortDedup_nodup _)) (fun w hw => hnk w (pick_mem hw))
    simpa using this
  have hobj := variantObj_norm ctx (.mk key id uid name type arches paths rel kids) hk
  simp only [Variant.norm] at hobj
  unfold Variant.build
  simp only [sub_flatVal hs hmem, entry_id, entry_uid, entry_name, entry_type, entry_arches, entry_paths]
  simp only [entryOf, asStrList_strList, sortDedup_idem]
  rw [variantReleaseDe_ok ver hv03.2 _ type rel rfl hrel]
  simp only [pathsDe_stored, hpaths, asStr]
  rw [kidIdsOf_ok ver hv _ (kids.map Variant.id) rfl]
  simp only [hkidsok, hadd, hobj, hval, Variant.norm]

mutual
/-- the reader returns the normal form of every written variant: any depth, any width -/
theorem build_ok (ver : Nat × Nat) (hv : verLt ver (1, 0) = false) (doc : Flat) (hs : FSorted doc) :
    ∀ (v : Variant) (ctx : Ctx) (fuel : Nat), height v ≤ fuel → Good ctx v → wellKeyed v = true →
      (∀ x ∈ flat v, x ∈ doc) → Variant.build ver (flatVal doc) fuel ctx v.uid = .ok v.norm
  | .mk key id uid name type arches paths rel kids, ctx, fuel, hf, hg, hk, hsub => by
    cases fuel with
    | zero => simp [height] at hf
    | succ f =>
      have hg' := hg
      simp only [Good] at hg'
      have hk' := hk
      simp only [wellKeyed, Bool.and_eq_true, decide_eq_true_eq] at hk'
      have hkids := builds_ok ver hv doc hs kids (some (uid, Str.sortDedup arches)) f
        (by simp only [height] at hf; omega) hg'.2.2.2 hk'.2
        (fun x hx => hsub x (by simp [flat, hx]))
      exact build_step ver hv doc hs key id uid name type arches paths rel kids ctx f hg hk
        (hsub _ (by simp [flat])) hkids
theorem builds_ok (ver : Nat × Nat) (hv : verLt ver (1, 0) = false) (doc : Flat) (hs : FSorted doc) :
    ∀ (vs : List Variant) (ctx : Ctx) (fuel : Nat), heights vs ≤ fuel → GoodL ctx vs → wellKeyedL vs = true →
      (∀ x ∈ flats vs, x ∈ doc) → ∀ k ∈ vs, Variant.build ver (flatVal doc) fuel ctx k.uid = .ok k.norm
  | [], _, _, _, _, _, _ => by intro k hk; cases hk
  | v :: vs, ctx, fuel, hf, hg, hk, hsub => by
    simp only [GoodL] at hg
    simp only [wellKeyedL, Bool.and_eq_true, decide_eq_true_eq] at hk
    simp only [heights] at hf
    intro k hkm
    rcases List.mem_cons.mp hkm with h | hkm
    · rw [h]
      exact build_ok ver hv doc hs v ctx fuel (by omega) hg.1 hk.1.2 (fun x hx => hsub x (by simp [flats, hx]))
    · exact builds_ok ver hv doc hs vs ctx fuel (by omega) hg.2 hk.2 (fun x hx => hsub x (by simp [flats, hx])) k hkm
end

end PM.CI
