import ProductMD.Proofs.TreeInfoDoc
/-!
Every variant of the forest, at any depth, owns one section of the written document.
-/
namespace PM
namespace TI
open Ini

mutual
/-- all variants of a subtree with the UID of their parent (`none` at top level) -/
def subV (pu : Option Str) : Variant → List (Option Str × Variant)
  | .mk key id uid name type paths kids => (pu, .mk key id uid name type paths kids) :: subVs (some uid) kids
def subVs (pu : Option Str) : List Variant → List (Option Str × Variant)
  | [] => []
  | v :: vs => subV pu v ++ subVs pu vs
end

mutual
theorem mem_flatV : ∀ (v : Variant) (pu : Option Str) (x : Option Str × Variant), x ∈ subV pu v →
    (secName x.2.type x.2.uid, varOpts x.1 x.2) ∈ flatV pu v
  | .mk key id uid name type paths kids, pu, x, hx => by
    simp only [subV, List.mem_cons] at hx
    simp only [flatV, List.mem_append, List.mem_singleton]
    rcases hx with hx | hx
    · subst hx; right; rfl
    · left; exact mem_flatVs kids (some uid) x hx
theorem mem_flatVs : ∀ (vs : List Variant) (pu : Option Str) (x : Option Str × Variant), x ∈ subVs pu vs →
    (secName x.2.type x.2.uid, varOpts x.1 x.2) ∈ flatVs pu vs
  | [], pu, x, hx => by simp [subVs] at hx
  | v :: vs, pu, x, hx => by
    simp only [subVs, List.mem_append] at hx
    simp only [flatVs, List.mem_append]
    rcases hx with hx | hx
    · right; exact mem_flatV v pu x hx
    · left; exact mem_flatVs vs pu x hx
end

theorem nodup_sublist_keys {t : TreeInfo} {g : IniSec} (h : ((docList t g).map (·.1)).Nodup) :
    ((flatVs none t.variants).map (·.1)).Nodup := by
  simp only [docList, List.map_append, List.nodup_append] at h
  exact h.2.1.2.1.2.1.2.1.2.1.1

/-- in the written document the section of a variant holds exactly its options -/
theorem written_variant {t : TreeInfo} {mv : Option Str} {d : Ini} {n key chosen} (w : Written t mv d n key chosen)
    (x : Option Str × Variant) (hx : x ∈ subVs none t.variants) :
    d.lookup (secName x.2.type x.2.uid) = some (varOpts x.1 x.2) := by
  rw [w.look]
  have hm := mem_flatVs t.variants none x hx
  have hl := lookup_of_mem_nodup (nodup_sublist_keys w.nodup) hm
  have hav := secName_headAV x.2.type x.2.uid
  have hi : (secName x.2.type x.2.uid).head? ≠ some 'i' := by
    rcases hav with h | h <;> rw [h] <;> decide
  simp only [docList, List.lookup_append, imgFlat_lookup_none _ _ hi, hl]
  have h1 : ¬ sGeneral = secName x.2.type x.2.uid := fun e => by rw [← e] at hav; revert hav; decide
  have h2 : (optSec (mediaOn t.discnum t.totaldiscs) sMedia (mediaOpts t.discnum t.totaldiscs)).lookup
      (secName x.2.type x.2.uid) = none :=
    optSec_lookup_ne _ _ _ _ (fun e => by rw [← e] at hav; revert hav; decide)
  have h3 : (optSec (stage2On t.mainimage t.instimage) sStage2 (stage2Opts t.mainimage t.instimage)).lookup
      (secName x.2.type x.2.uid) = none :=
    optSec_lookup_ne _ _ _ _ (fun e => by rw [← e] at hav; revert hav; decide)
  have h4 : (optSec (!t.checksums.isEmpty) sChecksums (checksumOpts t.checksums)).lookup
      (secName x.2.type x.2.uid) = none :=
    optSec_lookup_ne _ _ _ _ (fun e => by rw [← e] at hav; revert hav; decide)
  simp [lookup_cons_eq, h1, h2, h3, h4]

end TI
end PM
