import ProductMD.Proofs.CIFixpoint
/-! C01: the normal form — identity on normal objects, and what it keeps. -/
namespace PM.CI
open PM

instance (l : List Str) : Decidable (SSorted l) := by unfold SSorted; infer_instance

/-- the per-variant release is in stored form -/
def normalRel (type : Str) (rel : Option Release) : Bool :=
  if type = layeredProduct then
    match rel with
    | some r => r.isLayered && decide (Str.lowerAscii r.type = r.type)
    | none => true
  else rel.isNone

mutual
/-- a variant as the reader builds it: keyed by id, arches sorted, paths in stored form, children sorted by id -/
def normalV : Variant → Bool
  | .mk key id _ _ type arches paths rel kids =>
    decide (key = id) && decide (SSorted arches) && decide (storedPaths arches paths = paths) && normalRel type rel
      && decide (SSorted (kids.map Variant.id)) && normalL kids
def normalL : List Variant → Bool
  | [] => true
  | v :: vs => normalV v && normalL vs
end

/-- a compose description in the form the reader returns -/
def Normal (ci : ComposeInfo) : Prop :=
  (ci.compose.label = none → ci.compose.final = false) ∧ ci.compose.label ≠ some [] ∧
  Str.lowerAscii ci.release.type = ci.release.type ∧
  (ci.release.isLayered = false → ci.base = none) ∧
  SSorted (ci.variants.map Variant.uid) ∧ normalL ci.variants = true

instance (ci : ComposeInfo) : Decidable (Normal ci) := by unfold Normal; infer_instance

theorem findId_cons_ne {i : Str} {v : Variant} {vs : List Variant} (h : v.id ≠ i) : findId i (v :: vs) = findId i vs := by
  simp [findId, h]

theorem pick_self : ∀ (vs : List Variant), (vs.map Variant.id).Nodup → pick (vs.map Variant.id) vs = vs
  | [], _ => rfl
  | v :: vs, hn => by
    simp only [List.map_cons, List.nodup_cons] at hn
    have ih := pick_self vs hn.2
    unfold pick at ih ⊢
    simp only [List.map_cons, List.filterMap_cons, findId, if_true]
    congr 1
    conv => rhs; rw [← ih]
    apply filterMap_congr'
    intro i hi
    have : v.id ≠ i := fun h => hn.1 (h ▸ hi)
    simp [this]

theorem findUid_cons_ne {u : Str} {v : Variant} {vs : List Variant} (h : v.uid ≠ u) : findUid u (v :: vs) = findUid u vs := by
  simp [findUid, h]

theorem pickUid_self : ∀ (vs : List Variant), (vs.map Variant.uid).Nodup → (vs.map Variant.uid).filterMap (findUid · vs) = vs
  | [], _ => rfl
  | v :: vs, hn => by
    simp only [List.map_cons, List.nodup_cons] at hn
    have ih := pickUid_self vs hn.2
    simp only [List.map_cons, List.filterMap_cons, findUid, if_true]
    congr 1
    conv => rhs; rw [← ih]
    apply filterMap_congr'
    intro i hi
    have : v.uid ≠ i := fun h => hn.1 (h ▸ hi)
    simp [this]

mutual
theorem norm_of_normal : ∀ (v : Variant), normalV v = true → v.norm = v
  | .mk key id uid name type arches paths rel kids, h => by
    simp only [normalV, Bool.and_eq_true, decide_eq_true_eq] at h
    obtain ⟨⟨⟨⟨⟨hkey, harch⟩, hpaths⟩, hrel⟩, hkids⟩, hl⟩ := h
    have ih := norms_of_normal kids hl
    simp only [Variant.norm, sortDedup_of_sorted harch, hpaths, sortDedup_of_sorted hkids, ih, pick_self kids hkids.nodup, hkey]
    congr 1
    unfold normalRel at hrel
    by_cases ht : type = layeredProduct
    · simp only [ht, if_true] at hrel ⊢
      cases rel with
      | none => rfl
      | some r =>
        simp only [Bool.and_eq_true, decide_eq_true_eq] at hrel
        obtain ⟨name, short, version, rtype, lay, int⟩ := r
        simp only at hrel
        simp [forceLayered, Release.norm, hrel.1, hrel.2]
    · simp only [ht, if_false] at hrel ⊢
      cases rel with
      | none => rfl
      | some r => simp at hrel
theorem norms_of_normal : ∀ (vs : List Variant), normalL vs = true → norms vs = vs
  | [], _ => rfl
  | v :: vs, h => by
    simp only [normalL, Bool.and_eq_true] at h
    simp only [norms, norm_of_normal v h.1, norms_of_normal vs h.2]
end

end PM.CI
