import ProductMD.Model.Str
/-!
String lemmas used by C14 (python `split`, `rsplit(sep, n)`, `count`, `endswith`, slicing) — core Lean only.
Kept in their own namespace so that they cannot clash with other properties' helper lemmas.
-/
namespace PM.C14
open PM PM.Str

theorem splitOn_cons_shape (sep : Char) (s : Str) : ∃ h t, splitOn sep s = h :: t := by
  induction s with
  | nil => exact ⟨[], [], rfl⟩
  | cons c cs ih =>
    obtain ⟨h, t, e⟩ := ih
    by_cases hc : c = sep
    · exact ⟨[], splitOn sep cs, by simp [splitOn, hc]⟩
    · exact ⟨c :: h, t, by simp [splitOn, hc, e]⟩

theorem splitOn_ne_nil (sep : Char) (s : Str) : splitOn sep s ≠ [] := by
  obtain ⟨h, t, e⟩ := splitOn_cons_shape sep s
  simp [e]

theorem splitOn_cons_sep (sep : Char) (cs : Str) : splitOn sep (sep :: cs) = [] :: splitOn sep cs := by
  simp [splitOn]

theorem splitOn_cons_ne {sep c : Char} (hc : c ≠ sep) {cs h : Str} {t : List Str}
    (e : splitOn sep cs = h :: t) : splitOn sep (c :: cs) = (c :: h) :: t := by
  simp [splitOn, hc, e]

theorem splitOn_of_not_mem {sep : Char} {s : Str} (h : sep ∉ s) : splitOn sep s = [s] := by
  induction s with
  | nil => rfl
  | cons c cs ih =>
    have hc : c ≠ sep := fun e => h (by simp [e])
    have := ih (fun hm => h (List.mem_cons_of_mem _ hm))
    exact splitOn_cons_ne hc this

/-- splitting at the first separator -/
theorem splitOn_append_sep {sep : Char} {a : Str} (b : Str) (h : sep ∉ a) :
    splitOn sep (a ++ sep :: b) = a :: splitOn sep b := by
  induction a with
  | nil => exact splitOn_cons_sep sep b
  | cons c cs ih =>
    have hc : c ≠ sep := fun e => h (by simp [e])
    have := ih (fun hm => h (List.mem_cons_of_mem _ hm))
    exact splitOn_cons_ne hc this

/-- splitting at the last separator -/
theorem splitOn_append_sep_right {sep : Char} (a : Str) {b : Str} (h : sep ∉ b) :
    splitOn sep (a ++ sep :: b) = splitOn sep a ++ [b] := by
  induction a with
  | nil => simp [splitOn_cons_sep, splitOn_of_not_mem h, splitOn]
  | cons c cs ih =>
    by_cases hc : c = sep
    · subst hc
      simp only [List.cons_append, splitOn_cons_sep, ih]
    · obtain ⟨x, t, e⟩ := splitOn_cons_shape sep cs
      have e2 : splitOn sep (cs ++ sep :: b) = x :: (t ++ [b]) := by rw [ih, e]; rfl
      rw [List.cons_append, splitOn_cons_ne hc e2, splitOn_cons_ne hc e]; rfl

theorem joinWith_cons_cons (sep : Char) (x y : Str) (r : List Str) :
    joinWith sep (x :: y :: r) = x ++ sep :: joinWith sep (y :: r) := rfl

theorem joinWith_splitOn (sep : Char) (s : Str) : joinWith sep (splitOn sep s) = s := by
  induction s with
  | nil => rfl
  | cons c cs ih =>
    obtain ⟨h, t, e⟩ := splitOn_cons_shape sep cs
    by_cases hc : c = sep
    · subst hc
      rw [splitOn_cons_sep, e, joinWith_cons_cons, ← e, ih]; rfl
    · rw [splitOn_cons_ne hc e]
      rw [e] at ih
      cases t with
      | nil => simp [joinWith] at ih ⊢; exact ih
      | cons y r =>
        rw [joinWith_cons_cons] at ih ⊢
        simp [← ih]

theorem not_mem_of_mem_splitOn {sep : Char} {s g : Str} (hg : g ∈ splitOn sep s) : sep ∉ g := by
  induction s generalizing g with
  | nil => simp [splitOn] at hg; simp [hg]
  | cons c cs ih =>
    obtain ⟨h, t, e⟩ := splitOn_cons_shape sep cs
    by_cases hc : c = sep
    · subst hc
      rw [splitOn_cons_sep] at hg
      rcases List.mem_cons.mp hg with rfl | hg
      · simp
      · exact ih hg
    · rw [splitOn_cons_ne hc e] at hg
      rcases List.mem_cons.mp hg with rfl | hg
      · have := ih (g := h) (by simp [e])
        intro hm
        rcases List.mem_cons.mp hm with rfl | hm
        · exact hc rfl
        · exact this hm
      · exact ih (by simp [e, hg])

/-- every character is the separator or lies in one of the pieces -/
theorem mem_splitOn_of_mem {sep : Char} {s : Str} {c : Char} (hc : c ∈ s) :
    c = sep ∨ ∃ g ∈ splitOn sep s, c ∈ g := by
  induction s with
  | nil => cases hc
  | cons d ds ih =>
    obtain ⟨h, t, e⟩ := splitOn_cons_shape sep ds
    by_cases hd : d = sep
    · subst hd
      rcases List.mem_cons.mp hc with rfl | hc
      · exact .inl rfl
      · rcases ih hc with h1 | ⟨g, hg, hcg⟩
        · exact .inl h1
        · exact .inr ⟨g, by rw [splitOn_cons_sep]; exact List.mem_cons_of_mem _ hg, hcg⟩
    · rw [splitOn_cons_ne hd e]
      rcases List.mem_cons.mp hc with rfl | hc
      · exact .inr ⟨c :: h, by simp, by simp⟩
      · rcases ih hc with h1 | ⟨g, hg, hcg⟩
        · exact .inl h1
        · rw [e] at hg
          rcases List.mem_cons.mp hg with rfl | hg
          · exact .inr ⟨d :: g, by simp, List.mem_cons_of_mem _ hcg⟩
          · exact .inr ⟨g, List.mem_cons_of_mem _ hg, hcg⟩

/-- the pieces contain only characters of the string -/
theorem mem_of_mem_splitOn {sep : Char} {s g : Str} {c : Char} (hg : g ∈ splitOn sep s) (hc : c ∈ g) : c ∈ s := by
  induction s generalizing g with
  | nil => simp [splitOn] at hg; subst hg; cases hc
  | cons d ds ih =>
    obtain ⟨h, t, e⟩ := splitOn_cons_shape sep ds
    by_cases hd : d = sep
    · subst hd
      rw [splitOn_cons_sep] at hg
      rcases List.mem_cons.mp hg with rfl | hg
      · cases hc
      · exact List.mem_cons_of_mem _ (ih hg hc)
    · rw [splitOn_cons_ne hd e] at hg
      rcases List.mem_cons.mp hg with rfl | hg
      · rcases List.mem_cons.mp hc with rfl | hc
        · simp
        · exact List.mem_cons_of_mem _ (ih (g := h) (by simp [e]) hc)
      · exact List.mem_cons_of_mem _ (ih (by simp [e, hg]) hc)

/-! ### count -/
theorem count_nil (c : Char) : count c [] = 0 := rfl
theorem count_append (c : Char) (a b : Str) : count c (a ++ b) = count c a + count c b := by
  simp [count, List.filter_append]
theorem count_cons_self (c : Char) (s : Str) : count c (c :: s) = count c s + 1 := by
  simp [count]
theorem count_eq_zero {c : Char} {s : Str} : count c s = 0 ↔ c ∉ s := by
  induction s with
  | nil => simp [count]
  | cons d ds ih =>
    by_cases h : d = c
    · subst h; simp [count]
    · have h' : ¬ c = d := fun e => h e.symm
      simp [count, h, h'] at ih ⊢
      exact ih

/-! ### rsplit -/
theorem rsplitN_zero (sep : Char) (s : Str) : rsplitN sep 0 s = [s] := rfl

/-- `rsplit(sep, n+1)` cuts at the last separator and continues on the left part -/
theorem rsplitN_succ_append {sep : Char} (n : Nat) (a : Str) {b : Str} (h : sep ∉ b) :
    rsplitN sep (n + 1) (a ++ sep :: b) = rsplitN sep n a ++ [b] := by
  have e := splitOn_append_sep_right a h
  have hne := splitOn_ne_nil sep a
  have hlen : ¬ (splitOn sep a ++ [b]).length ≤ 1 := by
    cases hs : splitOn sep a with
    | nil => exact absurd hs hne
    | cons x t => simp
  simp only [rsplitN, e, hlen, if_false, List.dropLast_concat, joinWith_splitOn]
  congr 1
  simp [List.getLast!_eq_getLast?_getD]

/-- no separator: `rsplit` returns the string itself -/
theorem rsplitN_of_not_mem {sep : Char} (n : Nat) {s : Str} (h : sep ∉ s) : rsplitN sep n s = [s] := by
  cases n with
  | zero => rfl
  | succ n => simp [rsplitN, splitOn_of_not_mem h]

/-- shape of a string with at least one separator: cut at the last one -/
theorem exists_last_sep {sep : Char} {s : Str} (h : sep ∈ s) : ∃ a b, s = a ++ sep :: b ∧ sep ∉ b := by
  induction s with
  | nil => cases h
  | cons c cs ih =>
    by_cases hcs : sep ∈ cs
    · obtain ⟨a, b, e, hb⟩ := ih hcs
      exact ⟨c :: a, b, by simp [e], hb⟩
    · rcases List.mem_cons.mp h with rfl | h
      · exact ⟨[], cs, rfl, hcs⟩
      · exact absurd h hcs

/-- `sep.join(s.rsplit(sep, n)) == s`, and every piece but the first is free of the separator -/
theorem rsplitN_spec (sep : Char) : ∀ (n : Nat) (s : Str),
    ∃ x rest, rsplitN sep n s = x :: rest ∧ joinWith sep (x :: rest) = s ∧ (∀ g ∈ rest, sep ∉ g)
      ∧ rest.length ≤ n := by
  intro n
  induction n with
  | zero => intro s; exact ⟨s, [], rfl, rfl, by simp, by simp⟩
  | succ n ih =>
    intro s
    by_cases hs : sep ∈ s
    · obtain ⟨a, b, rfl, hb⟩ := exists_last_sep hs
      obtain ⟨x, rest, e, hj, hr, hl⟩ := ih a
      refine ⟨x, rest ++ [b], by rw [rsplitN_succ_append n a hb, e]; rfl, ?_, ?_, by simp; omega⟩
      · rw [← hj]
        clear e hr hl hj ih
        induction rest generalizing x with
        | nil => rfl
        | cons y r ihr =>
          rw [List.cons_append, joinWith_cons_cons, ihr y, joinWith_cons_cons]
          simp
      · intro g hg
        rcases List.mem_append.mp hg with hg | hg
        · exact hr g hg
        · simp at hg; subst hg; exact hb
    · exact ⟨s, [], rsplitN_of_not_mem _ hs, rfl, by simp, by simp⟩

/-! ### endswith / slicing -/
theorem endsWith_iff (s t : Str) : endsWith s t = true ↔ t <:+ s := by
  simp [endsWith]

theorem take_length_sub (p t : Str) : (p ++ t).take ((p ++ t).length - t.length) = p := by
  simp

end PM.C14
