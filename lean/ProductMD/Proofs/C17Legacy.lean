import ProductMD.Proofs.TreeInfoReadback
import ProductMD.Proofs.TreeInfoText
import ProductMD.Proofs.C17General
import ProductMD.Proofs.C05TreeInfo
import ProductMD.Model.TreeInfoLegacy
import ProductMD.Model.TreeInfoCompat
/-!
C17, last sentence of the property: *a pre-productmd reader given only the compatibility sections sees the same tree*.
The stand-in for such a reader is the library's own reader for files without `[header]` (`Legacy.deserialize` at header
version 0.0, `Model/TreeInfoLegacy.lean`).  It is run on the written document restricted to the sections a pre-productmd
file has: `[general]`, `[stage2]`, `[checksums]`, `[images-*]` (`compatDoc`).

This file: what the restriction does to the parser primitives, then every class reader of the 0.0 family evaluated on
the restricted document, for any document that is a `View` of the written sections.
-/
namespace PM
namespace TI
open Ini Legacy
set_option Elab.async false

/-! ### the parser primitives on the restricted document -/

theorem lookup_compat (d : Ini) (s : Str) (h : compatSec s = true) : (compatDoc d).lookup s = d.lookup s :=
  lookup_filter_key compatSec d s h

theorem lookup_ncompat : ∀ (d : Ini) (s : Str), compatSec s = false → (compatDoc d).lookup s = none
  | [], _, _ => rfl
  | (a, b) :: xs, s, h => by
    have ih := lookup_ncompat xs s h
    unfold compatDoc at ih ⊢
    simp only [List.filter_cons]
    cases hp : compatSec a
    · simpa using ih
    · have : ¬ a = s := fun e => by rw [e, h] at hp; cases hp
      simp only [if_true]
      rw [lookup_cons_eq, ih]; simp [this]

theorem defaults_compat (d : Ini) : defaults (compatDoc d) = [] := by
  unfold defaults; rw [lookup_ncompat d DEFAULT (by decide)]; rfl

theorem defaults_nodefault {d : Ini} (hd : d.lookup DEFAULT = none) : defaults d = [] := by
  unfold defaults; rw [hd]; rfl

theorem get_compat {d : Ini} (hd : d.lookup DEFAULT = none) {s : Str} (h : compatSec s = true) (k : Str) :
    Ini.get (compatDoc d) s k = Ini.get d s k := by
  unfold Ini.get; rw [lookup_compat d s h, defaults_compat, defaults_nodefault hd]

theorem hasOption_compat {d : Ini} (hd : d.lookup DEFAULT = none) {s : Str} (h : compatSec s = true) (k : Str) :
    Ini.hasOption (compatDoc d) s k = Ini.hasOption d s k := by
  unfold Ini.hasOption; rw [lookup_compat d s h, defaults_compat, defaults_nodefault hd]

theorem hasSection_compat (d : Ini) {s : Str} (h : compatSec s = true) :
    Ini.hasSection (compatDoc d) s = Ini.hasSection d s := by
  unfold Ini.hasSection; rw [lookup_compat d s h]

theorem items_compat {d : Ini} (hd : d.lookup DEFAULT = none) {s : Str} (h : compatSec s = true) :
    Ini.items (compatDoc d) s = Ini.items d s := by
  unfold Ini.items; rw [lookup_compat d s h, defaults_compat, defaults_nodefault hd]

theorem hasOption_ncompat (d : Ini) {s : Str} (h : compatSec s = false) (k : Str) : Ini.hasOption (compatDoc d) s k = false := by
  unfold Ini.hasOption; rw [lookup_ncompat d s h, defaults_compat]; simp

theorem hasSection_ncompat (d : Ini) {s : Str} (h : compatSec s = false) : Ini.hasSection (compatDoc d) s = false := by
  unfold Ini.hasSection; rw [lookup_ncompat d s h]; simp

theorem isImg_compat {s : Str} (h : isImg s = true) : compatSec s = true := by unfold compatSec; unfold isImg at h; simp [h]

/-- the `images-*` sections are all kept -/
theorem names_compat_img : ∀ d : Ini,
    (((compatDoc d).map (·.1)).filter (· != DEFAULT)).filter isImg = ((d.map (·.1)).filter (· != DEFAULT)).filter isImg
  | [] => rfl
  | (a, b) :: xs => by
    have ih := names_compat_img xs
    unfold compatDoc at ih ⊢
    simp only [List.filter_cons, List.map_cons]
    cases hc : compatSec a
    · have hi : isImg a = false := by
        cases hi : isImg a
        · rfl
        · rw [isImg_compat hi] at hc; cases hc
      simp only [Bool.false_eq_true, if_false, ih]
      cases hD : (a != DEFAULT)
      · simp
      · simp [hi]
    · simp only [if_true, List.map_cons, List.filter_cons]
      cases hD : (a != DEFAULT)
      · simpa using ih
      · simp only [if_true, List.filter_cons, ih]

theorem sections_compat_img (d : Ini) : (Ini.sections (compatDoc d)).filter isImg = (Ini.sections d).filter isImg := by
  unfold Ini.sections sortS
  rw [sortBy_filter, sortBy_filter, names_compat_img]

theorem sections_compat_mem (d : Ini) (s : Str) (h : s ∈ Ini.sections (compatDoc d)) : compatSec s = true := by
  unfold Ini.sections at h
  rw [mem_sortS] at h
  have := (List.mem_filter.mp h).1
  obtain ⟨x, hx, rfl⟩ := List.mem_map.mp this
  unfold compatDoc at hx
  simpa using (List.mem_filter.mp hx).2

/-- which names are kept: they start with `g`, `s`, `c` or `i` -/
theorem compat_head {s : Str} (h : compatSec s = true) :
    s.head? = some 'g' ∨ s.head? = some 's' ∨ s.head? = some 'c' ∨ s.head? = some 'i' := by
  unfold compatSec at h
  simp only [Bool.or_eq_true, beq_iff_eq] at h
  rcases h with ((h | h) | h) | h
  · subst h; left; decide
  · subst h; right; left; decide
  · subst h; right; right; left; decide
  · right; right; right; exact isImg_head h

theorem ncompat_of_headAV {s : Str} (h : headAV s) : compatSec s = false := by
  cases hc : compatSec s
  · rfl
  · have := compat_head hc
    unfold headAV at h
    rcases h with h | h <;> rw [h] at this <;> simp at this

theorem ncompat_addon (x : Str) : compatSec (pAddon ++ x) = false :=
  ncompat_of_headAV (by unfold headAV; rw [pAddon_eq]; left; rfl)
theorem ncompat_variant (x : Str) : compatSec (pVariant ++ x) = false :=
  ncompat_of_headAV (by unfold headAV; rw [pVariant_eq]; right; rfl)


/-! ### the 0.0 selection, the header -/

def S00 : Sels :=
  { headerTyped := false, release := .v00, tree00 := true, variants00 := true, paths := .v00, addonFallback := false,
    variant := .v00, fixImages := true, fixStage2 := true, fixChecksums := true, media00 := true }

theorem selsOf_00 : selsOf (0, 0) = .ok S00 := selsOf_0_0

def v00 : Str := "0.0".toList
theorem header_valid_00 : validateClass "treeinfo.Header" (headerObj v00) = .ok () := by decide +kernel
theorem versionTuple_00 : versionTuple v00 = .ok (0, 0) := by decide +kernel

/-- no `[header]`: the file is taken for a pre-productmd one -/
theorem deHeaderL_compat (d : Ini) : deHeaderL (compatDoc d) = .ok v00 := by
  unfold deHeaderL
  rw [hasOption_ncompat d (s := sHeader) (by decide)]
  have hv := header_valid_00
  unfold v00 at hv ⊢
  simp only [Bool.false_eq_true, if_false, bind, Except.bind, pure, Except.pure, hv]

/-! ### `_fix_path` leaves relative paths alone -/

/-- not starting with `/` -/
def RelPath (p : Str) : Prop := Str.startsWith p ['/'] = false

theorem c17_fixPath_rel {p : Str} (h : RelPath p) (on : Bool) : fixPath on p = p := by
  unfold fixPath; unfold RelPath at h; simp [h]

variable {C : IniSec → Prop} {L : List (Str × IniSec)} {d : Ini}

theorem View.get_inv (V : View C L d) {s k v : Str} {o : IniSec} (hs : L.lookup s = some o) (hnc : nc k = true)
    (h : Ini.get d s k = .ok v) : o.lookup k = some v := by
  obtain ⟨o', ho', hl, _⟩ := V.sec s o hs
  unfold Ini.get at h
  rw [ho', V.defaults] at h
  simp only [hl k hnc] at h
  cases hk : o.lookup k with
  | none => rw [hk] at h; simp at h
  | some x => rw [hk] at h; simp at h; rw [h]

theorem View.get_nosec (V : View C L d) {s k : Str} (hs : L.lookup s = none) (h2 : (s == DEFAULT) = false) :
    Ini.get d s k = .error .parserError := by
  unfold Ini.get
  rw [V.nosec s hs]; simp [h2]

/-! ### stage2 -/

theorem deStage2L_compat (hd : d.lookup DEFAULT = none) (fix : Bool) : deStage2L fix (compatDoc d) = deStage2L fix d := by
  unfold deStage2L
  simp only [hasOption_compat hd (s := sStage2) (by decide), get_compat hd (s := sStage2) (by decide)]

theorem deStage2L_rel (hm : ∀ v, Ini.get d sStage2 kMainimage = .ok v → RelPath v)
    (hi : ∀ v, Ini.get d sStage2 kInstimage = .ok v → RelPath v) : deStage2L true d = deStage2 d := by
  have e : ∀ k, (∀ v, Ini.get d sStage2 k = .ok v → RelPath v) →
      (Ini.get d sStage2 k).map (some ∘ fixPath true) = (Ini.get d sStage2 k).map some := by
    intro k hk
    cases hg : Ini.get d sStage2 k with
    | error e => rfl
    | ok v => simp [Except.map, c17_fixPath_rel (hk v hg)]
  unfold deStage2L deStage2
  rw [e _ hm, e _ hi]

theorem stage2_rel {t : TreeInfo} {g : IniSec} (V : View C (docList t g) d) (k : Str) (x : Option Str)
    (hk : nc k = true) (hl : (stage2Opts t.mainimage t.instimage).lookup k = if optTruthy x then x else none)
    (hx : ∀ p, x = some p → RelPath p) : ∀ v, Ini.get d sStage2 k = .ok v → RelPath v := by
  intro v hg
  cases hon : stage2On t.mainimage t.instimage
  · have hL : (docList t g).lookup sStage2 = none := by rw [L_stage2, hon]; rfl
    rw [V.get_nosec hL (by decide)] at hg; cases hg
  · have hL : (docList t g).lookup sStage2 = some (stage2Opts t.mainimage t.instimage) := by rw [L_stage2, hon]; rfl
    have := V.get_inv hL hk hg
    rw [hl] at this
    split at this
    · exact hx v this
    · cases this

/-- `Stage2.deserialize` at 0.0 on the restricted document -/
theorem deStage2L_ok {t : TreeInfo} {g : IniSec} (V : View C (docList t g) d)
    (hm : ∀ p, t.mainimage = some p → RelPath p) (hi : ∀ p, t.instimage = some p → RelPath p)
    (hv : validateClass "treeinfo.Stage2" (stage2Obj (normOpt t.mainimage) (normOpt t.instimage)) = .ok ()) :
    deStage2L true (compatDoc d) = .ok (normOpt t.mainimage, normOpt t.instimage) := by
  obtain ⟨l1, l2⟩ := stage2Opts_lookup t.mainimage t.instimage
  rw [deStage2L_compat V.noDefault, deStage2L_rel (stage2_rel V kMainimage _ (by decide) l1 hm)
    (stage2_rel V kInstimage _ (by decide) l2 hi)]
  exact deStage2_ok V hv

/-! ### checksums -/

theorem deChecksumsL_compat (hd : d.lookup DEFAULT = none) (fix : Bool) : deChecksumsL fix (compatDoc d) = deChecksumsL fix d := by
  unfold deChecksumsL
  simp only [hasSection_compat d (s := sChecksums) (by decide), items_compat hd (s := sChecksums) (by decide)]

theorem c17_deChecksumItemsL_rel : ∀ (its : List (Str × Str)) (acc : List (Str × Str × Str)), (∀ kv ∈ its, RelPath kv.1) →
    deChecksumItemsL true its acc = deChecksumItems its acc
  | [], _, _ => rfl
  | kv :: rest, acc, h => by
    simp only [deChecksumItemsL, deChecksumItems, c17_fixPath_rel (h kv (List.mem_cons_self ..))]
    cases checksumOf kv.2 with
    | error e => rfl
    | ok tv => exact c17_deChecksumItemsL_rel rest _ (fun x hx => h x (List.mem_cons_of_mem _ hx))

theorem deChecksumsL_rel (h : ∀ its, Ini.items d sChecksums = .ok its → ∀ kv ∈ its, RelPath kv.1) :
    deChecksumsL true d = deChecksums d := by
  unfold deChecksumsL deChecksums
  cases hit : Ini.items d sChecksums with
  | error e => rfl
  | ok its => simp only [Except.bind, c17_deChecksumItemsL_rel its [] (h its hit)]

/-- `Checksums.deserialize` at 0.0 on the restricted document -/
theorem deChecksumsL_ok {t : TreeInfo} {g : IniSec} (V : View C (docList t g) d) (hok : ChecksumsOK t.checksums)
    (hC : t.checksums.isEmpty = false → C (checksumOpts t.checksums))
    (hrel : ∀ c ∈ t.checksums, RelPath c.1)
    (hv : validateClass "treeinfo.Checksums" (checksumsObj (sortKV t.checksums)) = .ok ()) :
    deChecksumsL true (compatDoc d) = .ok (sortKV t.checksums) := by
  rw [deChecksumsL_compat V.noDefault, deChecksumsL_rel, deChecksums_ok V hok hC hv]
  intro its hit kv hkv
  cases he : t.checksums.isEmpty
  · have hL : (docList t g).lookup sChecksums = some (checksumOpts t.checksums) := by rw [L_checksums, he]; rfl
    rw [V.items_of hL (hC he) (by decide)] at hit
    injection hit with hit
    subst hit
    rw [mem_sortKV, checksumOpts_eq _ hok.1] at hkv
    obtain ⟨c, hc, rfl⟩ := List.mem_map.mp hkv
    exact hrel c hc
  · have hL : (docList t g).lookup sChecksums = none := by rw [L_checksums, he]; rfl
    unfold Ini.items at hit
    rw [V.nosec _ hL] at hit
    have : (sChecksums == DEFAULT) = false := by decide
    simp [this] at hit


/-! ### images -/

theorem foldl_fix_rel : ∀ (its m : List (Str × Str)), (∀ kv ∈ its, RelPath kv.2) →
    its.foldl (fun m kv => setKV kv.1 (fixPath true kv.2) m) m = its.foldl (fun m kv => setKV kv.1 kv.2 m) m
  | [], _, _ => rfl
  | kv :: rest, m, h => by
    simp only [List.foldl_cons, c17_fixPath_rel (h kv (List.mem_cons_self ..))]
    exact foldl_fix_rel rest _ (fun x hx => h x (List.mem_cons_of_mem _ hx))

theorem deImageSectionsL_filter (fix : Bool) (d : Ini) (arch : Str) : ∀ (ss : List Str) (acc : List (Str × List (Str × Str))),
    deImageSectionsL fix d arch ss acc = deImageSectionsL fix d arch (ss.filter isImg) acc
  | [], _ => rfl
  | s :: ss, acc => by
    cases h : isImg s
    · have : Str.startsWith s pImages = false := h
      simp only [deImageSectionsL, this, List.filter_cons, h]
      exact deImageSectionsL_filter fix d arch ss acc
    · have h' : Str.startsWith s pImages = true := h
      simp only [deImageSectionsL, h', List.filter_cons, h, if_true]
      cases Ini.items d s with
      | error e => rfl
      | ok its => exact deImageSectionsL_filter fix d arch ss _

/-- on `images-*` sections with relative paths the 0.0 loop over the restricted document is the current loop over the whole one -/
theorem deImageSectionsL_eq (hd : d.lookup DEFAULT = none) (arch : Str) :
    ∀ (ss : List Str) (acc : List (Str × List (Str × Str))), (∀ s ∈ ss, isImg s = true) →
      (∀ s ∈ ss, ∀ its, Ini.items d s = .ok its → ∀ kv ∈ its, RelPath kv.2) →
      deImageSectionsL true (compatDoc d) arch ss acc = deImageSections d arch ss acc
  | [], _, _, _ => rfl
  | s :: ss, acc, hi, hr => by
    have h' : Str.startsWith s pImages = true := hi s (List.mem_cons_self ..)
    simp only [deImageSectionsL, deImageSections, h', if_true, items_compat hd (isImg_compat (hi s (List.mem_cons_self ..)))]
    cases hit : Ini.items d s with
    | error e => rfl
    | ok its =>
      simp only [foldl_fix_rel its [] (hr s (List.mem_cons_self ..) its hit)]
      exact deImageSectionsL_eq hd arch ss _ (fun x hx => hi x (List.mem_cons_of_mem _ hx))
        (fun x hx => hr x (List.mem_cons_of_mem _ hx))

/-- the `images-*` section names, in the order `parser.sections()` lists them -/
theorem sections_img_of_view {t : TreeInfo} {g : IniSec} (V : View C (docList t g) d) :
    (Ini.sections d).filter isImg = (sortKV t.images).map fun p => pImages ++ p.1 := by
  rw [V.sections]
  unfold sortS
  rw [sortBy_filter, names_filter_img, imgFlat_keys]
  have e1 : sortBy id (t.images.map fun p => pImages ++ p.1).reverse = sortBy id (t.images.map fun p => pImages ++ p.1) :=
    sortS_perm_eq (List.reverse_perm _)
  rw [e1]
  have e2 : (t.images.map fun p => pImages ++ p.1) = (t.images.map (·.1)).map (pImages ++ ·) := by
    simp [List.map_map, Function.comp_def]
  rw [e2]
  have e3 := sortS_map_prefix pImages (t.images.map (·.1))
  unfold sortS at e3
  rw [e3]
  have e4 := sortS_map_key (fun p : Str × List (Str × Str) => p.1) t.images
  unfold sortS at e4
  rw [e4]
  simp [sortKV, List.map_map, Function.comp_def]

/-- `Images.deserialize` at 0.0 on the restricted document -/
theorem deImagesL_ok {t : TreeInfo} {g : IniSec} (V : View C (docList t g) d) (hn : ((docList t g).map (·.1)).Nodup) (tree' : Tree)
    (hok : ImagesOK tree'.arch t.images) (hC : ∀ p ∈ t.images, C (setsKV [] p.2))
    (hrel : ∀ p ∈ t.images, ∀ kv ∈ p.2, RelPath kv.2)
    (hv : validateClass "treeinfo.Images" (imagesObj (sortKV (t.images.map imgNorm)) tree'.platforms) = .ok ()) :
    deImagesL true (compatDoc d) tree' = .ok (sortKV (t.images.map imgNorm)) := by
  have h0 := deImages_ok V hn tree' hok hC hv
  unfold deImages at h0
  unfold deImagesL
  rw [deImageSectionsL_filter, sections_compat_img, deImageSectionsL_eq V.noDefault, ← deImageSections_filter]
  · exact h0
  · intro s hs; exact (List.mem_filter.mp hs).2
  · intro s hs its hit kv hkv
    rw [sections_img_of_view V] at hs
    obtain ⟨p, hp, rfl⟩ := List.mem_map.mp hs
    have hp' : p ∈ t.images := (mem_sortKV _ _).mp hp
    have hne : ((pImages ++ p.1) == DEFAULT) = false := by
      rw [pImages_eq]; simp only [beq_eq_false_iff_ne, ne_eq]; intro e
      have := congrArg List.head? e
      simp at this; revert this; decide
    rw [V.items_of (L_images (g := g) hn p hp') (hC p hp') hne] at hit
    injection hit with hit
    subst hit
    rw [mem_sortKV, setsKV_nil_nodup _ (hok.1 p hp')] at hkv
    exact hrel p hp' kv hkv


/-! ### `[general]` of the written document, as the 0.0 readers consult it -/

section general
variable {t : TreeInfo} {n : Int} {key : Str} {v : Variant}

local macro "gen_lookup" : tactic =>
  `(tactic| (rw [generalOpts_lookup, generalBase_lookup _ _ (by decide) (by decide)]; simp (decide := true) only [↓reduceIte]))

theorem gen_family : (generalOpts t n key v).lookup kFamilyS = some t.release.name := by gen_lookup
theorem gen_version : (generalOpts t n key v).lookup kVersion = some t.release.version := by gen_lookup
theorem gen_arch : (generalOpts t n key v).lookup kArch = some t.tree.arch := by gen_lookup
theorem gen_timestamp : (generalOpts t n key v).lookup kTimestamp = some (Str.intStr n) := by gen_lookup
theorem gen_variant : (generalOpts t n key v).lookup tVariant = some key := by gen_lookup
theorem gen_addons : (generalOpts t n key v).lookup kAddons = none := by gen_lookup
theorem gen_packages : (generalOpts t n key v).lookup kPackages = none := by gen_lookup
theorem gen_packagedirs : (generalOpts t n key v).lookup kPackagedirs = none := by gen_lookup
theorem gen_identity : (generalOpts t n key v).lookup kIdentity = none := by gen_lookup
theorem gen_discnum : (generalOpts t n key v).lookup kDiscnum = none := by gen_lookup
theorem gen_totaldiscs : (generalOpts t n key v).lookup kTotaldiscs = none := by gen_lookup
theorem gen_repository : (generalOpts t n key v).lookup kRepository =
    generalPath t.tree.arch v.paths "repository".toList "source_repository".toList := by
  gen_lookup
  cases generalPath t.tree.arch v.paths "repository".toList "source_repository".toList <;> rfl
theorem gen_packagedir : (generalOpts t n key v).lookup kPackagedir =
    generalPath t.tree.arch v.paths "packages".toList "source_packages".toList := by
  gen_lookup
  cases generalPath t.tree.arch v.paths "packages".toList "source_packages".toList <;> rfl

variable (V : View C (docList t (generalOpts t n key v)) d)
include V

theorem gen_get {k x : Str} (hk : (generalOpts t n key v).lookup k = some x) (hnc : nc k = true) :
    Ini.get (compatDoc d) sGeneral k = .ok x :=
  (get_compat V.noDefault (by decide) k).trans (V.get_of (L_general _ _) hk hnc)

theorem gen_has (k : Str) (hnc : nc k = true) :
    Ini.hasOption (compatDoc d) sGeneral k = ((generalOpts t n key v).lookup k).isSome :=
  (hasOption_compat V.noDefault (by decide) k).trans (V.hasOption_of (L_general _ _) hnc (by decide) (by decide))

omit V in
theorem optionLookup_skip (d : Ini) {s : Str} (k : Str) (rest : List (Str × Str)) (dflt : Option Str) (h : compatSec s = false) :
    optionLookup (compatDoc d) ((s, k) :: rest) dflt = optionLookup (compatDoc d) rest dflt := by
  simp [optionLookup, hasOption_ncompat d h]

theorem optionLookup_gen (k : Str) (rest : List (Str × Str)) (dflt : Option Str) (hnc : nc k = true) :
    optionLookup (compatDoc d) ((sGeneral, k) :: rest) dflt =
      match (generalOpts t n key v).lookup k with
      | some x => .ok (some x)
      | none => optionLookup (compatDoc d) rest dflt := by
  simp only [optionLookup, gen_has V k hnc]
  cases hk : (generalOpts t n key v).lookup k with
  | none => simp
  | some x => simp [gen_get V hk hnc, Except.map]


/-! ### release, tree, media -/

omit V in
theorem version00_eq (version : Str) : version00 version = .ok (legacyVersion version) := rfl

theorem deReleaseL_ok (hv : validateClass "treeinfo.Release" (releaseObj (legacyRelease t) false) = .ok ()) :
    deReleaseL .v00 (compatDoc d) = .ok (legacyRelease t, false) := by
  unfold deReleaseL
  unfold legacyRelease at hv ⊢
  simp only [gen_get V gen_family (by decide), gen_get V gen_version (by decide), version00_eq, bind, Except.bind, pure,
    Except.pure, hv]

theorem deTreeL_ok (fo : FloatOracle) (n' : Int) (hfl : fo.intOfFloatStr (Str.intStr n) = .ok n')
    (harch : compatSec t.tree.arch = false) (hok : ImagesOK t.tree.arch t.images)
    (hv : validateClass "treeinfo.Tree" (treeObj ⟨t.tree.arch, .int n', legacyPlatforms t⟩) = .ok ()) :
    deTreeL fo true (compatDoc d) = .ok ⟨t.tree.arch, .int n', legacyPlatforms t⟩ := by
  have hcont : (Ini.sections (compatDoc d)).contains t.tree.arch = false := by
    cases hc : (Ini.sections (compatDoc d)).contains t.tree.arch
    · rfl
    · have := sections_compat_mem d _ (by simpa using hc)
      rw [harch] at this; cases this
  have himg : imagePlatforms t.tree.arch (Ini.sections (compatDoc d)) = (sortKV t.images).map (·.1) := by
    unfold imagePlatforms
    have : (Ini.sections (compatDoc d)).filter (Str.startsWith · pImages) = (Ini.sections (compatDoc d)).filter isImg := rfl
    rw [this, sections_compat_img, sections_img_of_view V, List.map_map]
    apply List.map_congr_left
    intro p hp
    exact hok.2 p ((mem_sortKV _ _).mp hp)
  have hts : Ini.hasOption (compatDoc d) sGeneral kTimestamp = true := by rw [gen_has V _ (by decide), gen_timestamp]; rfl
  unfold legacyPlatforms dedupe at hv ⊢
  unfold deTreeL
  simp only [Bool.not_true, Bool.false_eq_true, if_false, if_true, gen_get V gen_arch (by decide), hcont, himg, hts,
    gen_get V gen_timestamp (by decide), hfl, List.append_nil, bind, Except.bind, pure, Except.pure, hv]

theorem deMediaL_ok : deMediaL true (compatDoc d) = .ok (none, none) := by
  have h1 : Ini.hasOption (compatDoc d) sGeneral kDiscnum = false := by rw [gen_has V _ (by decide), gen_discnum]; rfl
  have h2 : Ini.hasOption (compatDoc d) sGeneral kTotaldiscs = false := by rw [gen_has V _ (by decide), gen_totaldiscs]; rfl
  unfold deMediaL
  simp only [Bool.not_true, Bool.false_eq_true, if_false, h1, h2, Bool.or_self, bind, Except.bind, pure, Except.pure,
    media_valid_none]


/-! ### the one variant -/

theorem pathVals00_ok (c : VCtx) :
    pathVals00 c (compatDoc d) key key = .ok (legacyPathVals c key ((generalOpts t n key v).lookup kRepository)
      ((generalOpts t n key v).lookup kPackagedir)) := by
  have f1 : ∀ dflt, optionLookup (compatDoc d) [(pVariant ++ key, kRepository), (pAddon ++ key, kRepository), (sGeneral, kRepository)] dflt
      = .ok (orOpt ((generalOpts t n key v).lookup kRepository) dflt) := by
    intro dflt
    rw [optionLookup_skip d _ _ _ (ncompat_variant key), optionLookup_skip d _ _ _ (ncompat_addon key),
      optionLookup_gen V _ _ _ (by decide)]
    cases (generalOpts t n key v).lookup kRepository <;> rfl
  have f2 : ∀ dflt, optionLookup (compatDoc d)
      [(pVariant ++ key, kPackages), (pVariant ++ key, kPackagedir), (pAddon ++ key, kPackages), (pAddon ++ key, kPackagedir),
       (pVariant ++ key, kPackages), (pVariant ++ key, kPackagedir), (pAddon ++ key, kPackages), (pAddon ++ key, kPackagedir),
       (sGeneral, kPackages), (sGeneral, kPackagedir), (sGeneral, kPackagedirs)] dflt
      = .ok (orOpt ((generalOpts t n key v).lookup kPackagedir) dflt) := by
    intro dflt
    rw [optionLookup_skip d _ _ _ (ncompat_variant key), optionLookup_skip d _ _ _ (ncompat_variant key),
      optionLookup_skip d _ _ _ (ncompat_addon key), optionLookup_skip d _ _ _ (ncompat_addon key),
      optionLookup_skip d _ _ _ (ncompat_variant key), optionLookup_skip d _ _ _ (ncompat_variant key),
      optionLookup_skip d _ _ _ (ncompat_addon key), optionLookup_skip d _ _ _ (ncompat_addon key),
      optionLookup_gen V _ _ _ (by decide), gen_packages, optionLookup_gen V _ _ _ (by decide)]
    cases (generalOpts t n key v).lookup kPackagedir with
    | some x => rfl
    | none =>
      simp only
      rw [optionLookup_gen V _ _ _ (by decide), gen_packagedirs]; rfl
  have f3 : optionLookup (compatDoc d)
      [(pVariant ++ key, kIdentity), (pAddon ++ key, kIdentity), (pVariant ++ key, kIdentity), (pAddon ++ key, kIdentity),
       (sGeneral, kIdentity)] none = .ok none := by
    rw [optionLookup_skip d _ _ _ (ncompat_variant key), optionLookup_skip d _ _ _ (ncompat_addon key),
      optionLookup_skip d _ _ _ (ncompat_variant key), optionLookup_skip d _ _ _ (ncompat_addon key),
      optionLookup_gen V _ _ _ (by decide), gen_identity]; rfl
  unfold pathVals00 legacyPathVals
  simp only [f1, f2, f3, bind, Except.bind, pure, Except.pure]


omit V in
theorem vpaths_valid : validateClass "treeinfo.VariantPaths" [] = .ok () := by decide +kernel

/-- `Variant.deserialize` at 0.0 for the name `[general] variant` holds: no `[variant-*]` / `[addon-*]` section can answer,
so id = uid = name = that name, type `variant`, no children (unless the RHEL 5 addon table invents some), paths from `[general]` -/
theorem readVariant_ok (c : VCtx) (f : Nat) (hk : key ≠ []) (hd : '-' ∉ key) (hr : rhel5Addons c key [] = []) :
    readVariant S00 c (compatDoc d) (f + 1) false key =
      .ok (.mk [] key key key tVariant (valsToPaths (legacyPathVals c key ((generalOpts t n key v).lookup kRepository)
        ((generalOpts t n key v).lookup kPackagedir))) []) := by
  have he : key.isEmpty = false := by cases key with | nil => exact absurd rfl hk | cons a b => rfl
  have hid : (Str.splitOn '-' key).getLastD [] = key := by rw [splitOn_not_mem '-' key hd]; rfl
  have o1 : ∀ k, Ini.hasOption (compatDoc d) (pAddon ++ key) k = false := fun k => hasOption_ncompat d (ncompat_addon key) k
  have o2 : ∀ k, Ini.hasOption (compatDoc d) (pVariant ++ key) k = false := fun k => hasOption_ncompat d (ncompat_variant key) k
  have s1 : Ini.hasSection (compatDoc d) (pAddon ++ key) = false := hasSection_ncompat d (ncompat_addon key)
  have s2 : Ini.hasSection (compatDoc d) (pVariant ++ key) = false := hasSection_ncompat d (ncompat_variant key)
  have hscan : scanSections00 (compatDoc d) key [] [pAddon ++ key, pAddon ++ key, pVariant ++ key, pVariant ++ key] []
      = .ok (pVariant ++ key, []) := by
    simp [scanSections00, o1, o2, s1, s2]
  have hadd : optionLookup (compatDoc d) [(pVariant ++ key, kAddons), (pVariant ++ key, kVariants), (sGeneral, kAddons)] (some [])
      = .ok (some []) := by
    rw [optionLookup_skip d _ _ _ (ncompat_variant key), optionLookup_skip d _ _ _ (ncompat_variant key),
      optionLookup_gen V _ _ _ (by decide), gen_addons]; rfl
  have hsplit : splitNonEmpty [] = [] := by decide
  have hpaths : dePathsL .v00 c (compatDoc d) key key tVariant = .ok (valsToPaths (legacyPathVals c key
      ((generalOpts t n key v).lookup kRepository) ((generalOpts t n key v).lookup kPackagedir))) := by
    unfold dePathsL
    simp only [pathVals00_ok V c, Except.map, bind, Except.bind, pure, Except.pure, vpaths_valid]
  have htv : (tVariant == tVariant) = true := by decide
  rw [readVariant]
  simp only [he, Bool.false_eq_true, if_false, S00, hid, hscan, List.isEmpty_nil, if_true, o2, htv, hadd, Option.getD_some,
    hsplit, hr, List.map_nil, loopFile, hpaths]


theorem deTopsL_ok (c : VCtx) (hk : key ≠ []) (hd : '-' ∉ key) (hr : rhel5Addons c key [] = [])
    (hv1 : validateClass "treeinfo.Variant" (variantObj none key key key tVariant []) = .ok ())
    (hv2 : validateClass "treeinfo.Variants" (variantsObj [legacyVariant c key ((generalOpts t n key v).lookup kRepository)
      ((generalOpts t n key v).lookup kPackagedir)]) = .ok ()) :
    deTopsL S00 c (compatDoc d) = .ok [legacyVariant c key ((generalOpts t n key v).lookup kRepository)
      ((generalOpts t n key v).lookup kPackagedir)] := by
  have he : key.isEmpty = false := by cases key with | nil => exact absurd rfl hk | cons a b => rfl
  have hhas : Ini.hasOption (compatDoc d) sGeneral tVariant = true := by rw [gen_has V _ (by decide), gen_variant]; rfl
  have hids : topIds00 c (compatDoc d) = .ok [key] := by
    unfold topIds00
    simp [hhas, gen_get V gen_variant (by decide), he, bind, Except.bind, pure, Except.pure]
  unfold legacyVariant at hv2 ⊢
  have hrv := readVariant_ok V c (compatDoc d).length hk hd hr
  unfold S00 at hrv
  unfold deTopsL
  simp only [S00, if_true, hids, bind, Except.bind, loopFile, hrv, fileTop, hv1, he,
    Bool.false_eq_true, if_false, addKid, List.any_nil, List.nil_append, hv2, pure, Except.pure]

end general

/-! ### the whole reader -/

/-- no absolute path among checksum paths, image paths, stage2 paths (an absolute path is cut by the 0.0 `_fix_path`) -/
structure RelPaths (t : TreeInfo) : Prop where
  checksums : ∀ c ∈ t.checksums, RelPath c.1
  images : ∀ p ∈ t.images, ∀ kv ∈ p.2, RelPath kv.2
  mainimage : ∀ p, t.mainimage = some p → RelPath p
  instimage : ∀ p, t.instimage = some p → RelPath p

theorem legacy_of_view (fo : FloatOracle) (t : TreeInfo) (mv : Option Str) (d0 d : Ini) (n n' : Int) (key : Str) (chosen : Variant)
    (w : Written t mv d0 n key chosen)
    (V : View C (docList t (generalOpts t n key chosen)) d)
    (hfl : fo.intOfFloatStr (Str.intStr n) = .ok n')
    (hk : key ≠ []) (hd : '-' ∉ key) (harch : compatSec t.tree.arch = false)
    (hr : rhel5Addons (legacyCtx t) key [] = [])
    (hcs : ChecksumsOK t.checksums) (himg : ImagesOK t.tree.arch t.images) (hrel : RelPaths t)
    (hCcs : t.checksums.isEmpty = false → C (checksumOpts t.checksums)) (hCimg : ∀ p ∈ t.images, C (setsKV [] p.2))
    (hvr : validateClass "treeinfo.Release" (releaseObj (legacyRelease t) false) = .ok ())
    (hv : ReadValid (legacyTree t n' key chosen)) :
    Legacy.deserialize fo (compatDoc d) = .ok (legacyTree t n' key chosen) := by
  have hn := w.nodup
  have e2 := deReleaseL_ok V hvr
  have e4 := deTreeL_ok V fo n' hfl harch himg hv.tree
  have hfor := hv.forest
  simp only [legacyTree, legacyVariant, ValidVs, ValidV] at hfor
  have e5 := deTopsL_ok V (legacyCtx t) hk hd hr hfor.1.1 (by
    have := hv.tops
    simp only [legacyTree] at this
    rw [gen_repository, gen_packagedir]
    exact this)
  rw [gen_repository, gen_packagedir] at e5
  have e6 := deChecksumsL_ok V hcs hCcs hrel.checksums hv.checksums
  have e7 := deImagesL_ok V hn ⟨t.tree.arch, .int n', legacyPlatforms t⟩ himg hCimg hrel.images hv.images
  have e8 := deStage2L_ok V hrel.mainimage hrel.instimage hv.stage2
  have e9 := deMediaL_ok V
  unfold Legacy.deserialize
  simp only [deHeaderL_compat, versionTuple_00, selsOf_00, bind, Except.bind, pure, Except.pure]
  simp only [S00, e2, Bool.false_eq_true, if_false, e4]
  have hc : (⟨(legacyRelease t).name, (legacyRelease t).short, (legacyRelease t).version, t.tree.arch⟩ : VCtx) = legacyCtx t := rfl
  simp only [hc]
  have e5' : deTopsL S00 (legacyCtx t) (compatDoc d) = _ := e5
  unfold S00 at e5'
  simp only [e5', e6, e7, e8, e9, treeinfo_valid]
  rfl

end TI
end PM
