import ProductMD.Proofs.ImagesCanon1
import ProductMD.Proofs.ImagesBytes
/-!
Reading the KEY-SORTED dictionary of an image: `Image.deserialize (canon i.dict)` returns the image with its two
container attributes in canonical form (`canonC i`), which validates, has the same identity and the same checksums (`==`)
as `i`, and is the same content (`Image.Same`).
-/
namespace PM.Img
open PM PM.PyOps PM.Spec PM.Mf
set_option Elab.async false

macro "rule_mem" : tactic => `(tactic| (simp only [Gen.rules_images_Image, MethodRules.flat, List.flatMap_cons, List.flatMap_nil,
  List.cons_append, List.nil_append, List.append_nil]; find_mem))

theorem rule_type_mem : Rule.type ['t','y','p','e'] [.str] ∈ Gen.rules_images_Image.flat := by rule_mem
theorem rule_format_mem : Rule.type ['f','o','r','m','a','t'] [.str] ∈ Gen.rules_images_Image.flat := by rule_mem
theorem rule_arch_mem : Rule.type ['a','r','c','h'] [.str] ∈ Gen.rules_images_Image.flat := by rule_mem
theorem rule_subvariant_mem : Rule.type ['s','u','b','v','a','r','i','a','n','t'] [.str] ∈ Gen.rules_images_Image.flat := by rule_mem
theorem rule_checksums_mem : Rule.type ['c','h','e','c','k','s','u','m','s'] [.dict] ∈ Gen.rules_images_Image.flat := by rule_mem
theorem rule_volume_id_mem : Rule.type ['v','o','l','u','m','e','_','i','d'] [.none, .str] ∈ Gen.rules_images_Image.flat := by rule_mem
theorem rule_implant_mem : Rule.type ['i','m','p','l','a','n','t','_','m','d','5'] [.none, .str] ∈ Gen.rules_images_Image.flat := by rule_mem

/-- the shape the validators force on the eleven scalar attributes and on the two containers -/
structure Typed (i : Image) : Prop where
  path : ∃ s, i.path = .str s
  type : ∃ s, i.type = .str s
  format : ∃ s, i.format = .str s
  arch : ∃ s, i.arch = .str s
  subvariant : ∃ s, i.subvariant = .str s
  volume_id : i.volume_id = .none ∨ ∃ s, i.volume_id = .str s
  implant_md5 : i.implant_md5 = .none ∨ ∃ s, i.implant_md5 = .str s
  bootable : ∃ b, i.bootable = .bool b
  unified : ∃ b, i.unified = .bool b
  checksums : ∃ kvs, i.checksums = .dict kvs
  additional_variants : ∃ l, i.additional_variants = .list l
  merges : (i.additional_variants.truthy && !i.unified.truthy) = false

theorem valid_type (i : Image) (h : i.validate = .ok ()) : ∃ s, i.type = .str s := by
  rw [validate_unfold] at h
  have h1 := (runRules_ok_iff _ _ _).mp h _ rule_type_mem
  cases i with
  | mk path mtime size volume_id type format arch disc_number disc_count checksums implant_md5 bootable subvariant unified additional_variants =>
    cases type with
    | str s => exact ⟨s, rfl⟩
    | _ => exact absurd h1 (by intro h; cases h)

theorem valid_format (i : Image) (h : i.validate = .ok ()) : ∃ s, i.format = .str s := by
  rw [validate_unfold] at h
  have h1 := (runRules_ok_iff _ _ _).mp h _ rule_format_mem
  cases i with
  | mk path mtime size volume_id type format arch disc_number disc_count checksums implant_md5 bootable subvariant unified additional_variants =>
    cases format with
    | str s => exact ⟨s, rfl⟩
    | _ => exact absurd h1 (by intro h; cases h)

theorem valid_arch (i : Image) (h : i.validate = .ok ()) : ∃ s, i.arch = .str s := by
  rw [validate_unfold] at h
  have h1 := (runRules_ok_iff _ _ _).mp h _ rule_arch_mem
  cases i with
  | mk path mtime size volume_id type format arch disc_number disc_count checksums implant_md5 bootable subvariant unified additional_variants =>
    cases arch with
    | str s => exact ⟨s, rfl⟩
    | _ => exact absurd h1 (by intro h; cases h)

theorem valid_subvariant (i : Image) (h : i.validate = .ok ()) : ∃ s, i.subvariant = .str s := by
  rw [validate_unfold] at h
  have h1 := (runRules_ok_iff _ _ _).mp h _ rule_subvariant_mem
  cases i with
  | mk path mtime size volume_id type format arch disc_number disc_count checksums implant_md5 bootable subvariant unified additional_variants =>
    cases subvariant with
    | str s => exact ⟨s, rfl⟩
    | _ => exact absurd h1 (by intro h; cases h)

theorem valid_volume_id (i : Image) (h : i.validate = .ok ()) : i.volume_id = .none ∨ ∃ s, i.volume_id = .str s := by
  rw [validate_unfold] at h
  have h1 := (runRules_ok_iff _ _ _).mp h _ rule_volume_id_mem
  cases i with
  | mk path mtime size volume_id type format arch disc_number disc_count checksums implant_md5 bootable subvariant unified additional_variants =>
    cases volume_id with
    | none => exact Or.inl rfl
    | str s => exact Or.inr ⟨s, rfl⟩
    | _ => exact absurd h1 (by intro h; cases h)

theorem valid_implant_md5 (i : Image) (h : i.validate = .ok ()) : i.implant_md5 = .none ∨ ∃ s, i.implant_md5 = .str s := by
  rw [validate_unfold] at h
  have h1 := (runRules_ok_iff _ _ _).mp h _ rule_implant_mem
  cases i with
  | mk path mtime size volume_id type format arch disc_number disc_count checksums implant_md5 bootable subvariant unified additional_variants =>
    cases implant_md5 with
    | none => exact Or.inl rfl
    | str s => exact Or.inr ⟨s, rfl⟩
    | _ => exact absurd h1 (by intro h; cases h)

theorem valid_checksums (i : Image) (h : i.validate = .ok ()) : ∃ kvs, i.checksums = .dict kvs := by
  rw [validate_unfold] at h
  have h1 := (runRules_ok_iff _ _ _).mp h _ rule_checksums_mem
  cases i with
  | mk path mtime size volume_id type format arch disc_number disc_count checksums implant_md5 bootable subvariant unified additional_variants =>
    cases checksums with
    | dict kvs => exact ⟨kvs, rfl⟩
    | _ => exact absurd h1 (by intro h; cases h)

theorem typed_of_valid (i : Image) (h : i.validate = .ok ()) : Typed i :=
  ⟨valid_path i h, valid_type i h, valid_format i h, valid_arch i h, valid_subvariant i h, valid_volume_id i h, valid_implant_md5 i h,
   valid_bootable i h, valid_unified i h, valid_checksums i h, valid_av i h, valid_merges i h⟩

/-- the image with its two container attributes in canonical form: what is read from a key-sorted dictionary -/
def canonC (i : Image) : Image :=
  { i with checksums := PyVal.canon i.checksums, additional_variants := PyVal.canon i.additional_variants }

/-- the containers of the image hold JSON values (no foreign objects, no key bound twice — true of every Python dict) -/
def ContainersRep (i : Image) : Prop := jsonRep i.checksums = true ∧ jsonRep i.additional_variants = true

theorem canonC_same (i : Image) (h : ContainersRep i) : Image.Same i (canonC i) :=
  ⟨.refl _, .refl _, .refl _, .refl _, .refl _, .refl _, .refl _, .refl _, .refl _, jeq_canon _ h.1, .refl _, .refl _, .refl _, .refl _,
   jeq_canon _ h.2⟩

theorem canonC_valid (i : Image) (h : ContainersRep i) (hv : i.validate = .ok ()) : (canonC i).validate = .ok () := by
  rw [← (canonC_same i h).validate_eq]; exact hv

theorem canonC_properInts (i : Image) (h : ProperInts i) : ProperInts (canonC i) := h

/-- identity and checksums (`==`) are those of the original -/
theorem canonC_identity (i : Image) (h : ContainersRep i) :
    eqKey (.list (identity7 (canonC i))) = eqKey (.list (identity7 i)) ∧ eqKey (canonC i).checksums = eqKey i.checksums := by
  constructor
  · apply eqKey_jeq
    refine .list ?_
    simp only [identity7, canonC]
    exact .cons (.refl _) (.cons (.refl _) (.cons (.refl _) (.cons (.refl _) (.cons (.refl _) (.cons (.refl _)
      (.cons (pyOr_jeq (jeq_canon _ h.2).symm _) .nil))))))
  · exact eqKey_jeq (jeq_canon _ h.1).symm

/-- **reading the key-sorted dictionary** -/
theorem image_roundtrip_canon (i : Image) (hv : i.validate = .ok ()) (hp : ProperInts i) (hr : ContainersRep i) :
    Image.deserialize (.str currentVersion) (PyVal.canon i.dict) = .ok (canonC i) := by
  have hcv := canonC_valid i hr hv
  obtain ⟨⟨p, h1⟩, ⟨ty, h2⟩, ⟨fm, h3⟩, ⟨ar, h4⟩, ⟨sv, h5⟩, hvol, himp, ⟨bb, h8⟩, ⟨b, h9⟩, _, ⟨l, h11⟩, hm⟩ := typed_of_valid i hv
  obtain ⟨⟨n1, i1⟩, ⟨n2, i2⟩, ⟨n3, i3⟩, ⟨n4, i4⟩⟩ := hp
  cases i with
  | mk path mtime size volume_id type format arch disc_number disc_count ck implant_md5 bootable subvariant unified av =>
    simp only at h1 h2 h3 h4 h5 hvol himp h8 h9 h11 hm i1 i2 i3 i4
    subst h1 h2 h3 h4 h5 h8 h9 i1 i2 i3 i4
    have cvol : PyVal.canon volume_id = volume_id := by
      rcases hvol with rfl | ⟨s, rfl⟩ <;> rfl
    have cimp : PyVal.canon implant_md5 = implant_md5 := by
      rcases himp with rfl | ⟨s, rfl⟩ <;> rfl
    cases b with
    | true =>
      have hc : PyVal.canon (Image.dict ⟨.str p, .int n1, .int n2, volume_id, .str ty, .str fm, .str ar, .int n3, .int n4, ck, implant_md5, .bool bb,
            .str sv, .bool true, av⟩) =
          .dict [(L "additional_variants", PyVal.canon av), (L "arch", .str ar), (L "bootable", .bool bb), (L "checksums", PyVal.canon ck),
            (L "disc_count", .int n4), (L "disc_number", .int n3), (L "format", .str fm), (L "implant_md5", PyVal.canon implant_md5),
            (L "mtime", .int n1), (L "path", .str p), (L "size", .int n2), (L "subvariant", .str sv), (L "type", .str ty),
            (L "unified", .bool true), (L "volume_id", PyVal.canon volume_id)] := by rfl
      rw [hc, cvol, cimp]
      have e : Image.deserialize (.str currentVersion) (.dict [(L "additional_variants", PyVal.canon av), (L "arch", .str ar), (L "bootable", .bool bb), (L "checksums", PyVal.canon ck),
            (L "disc_count", .int n4), (L "disc_number", .int n3), (L "format", .str fm), (L "implant_md5", implant_md5),
            (L "mtime", .int n1), (L "path", .str p), (L "size", .int n2), (L "subvariant", .str sv), (L "type", .str ty),
            (L "unified", .bool true), (L "volume_id", volume_id)]) =
          (Image.validate (canonC ⟨.str p, .int n1, .int n2, volume_id, .str ty, .str fm, .str ar, .int n3, .int n4, ck, implant_md5, .bool bb,
            .str sv, .bool true, av⟩) >>= fun _ => .ok (canonC ⟨.str p, .int n1, .int n2, volume_id, .str ty, .str fm, .str ar, .int n3, .int n4, ck,
            implant_md5, .bool bb, .str sv, .bool true, av⟩)) := by rfl
      rw [e, hcv]; rfl
    | false =>
      have hl' : l = [] := by
        subst h11
        cases l with
        | nil => rfl
        | cons x xs => simp [PyVal.truthy] at hm
      subst hl'
      have hc : PyVal.canon (Image.dict ⟨.str p, .int n1, .int n2, volume_id, .str ty, .str fm, .str ar, .int n3, .int n4, ck, implant_md5, .bool bb,
            .str sv, .bool false, av⟩) =
          .dict [(L "arch", .str ar), (L "bootable", .bool bb), (L "checksums", PyVal.canon ck),
            (L "disc_count", .int n4), (L "disc_number", .int n3), (L "format", .str fm), (L "implant_md5", PyVal.canon implant_md5),
            (L "mtime", .int n1), (L "path", .str p), (L "size", .int n2), (L "subvariant", .str sv), (L "type", .str ty),
            (L "volume_id", PyVal.canon volume_id)] := by rfl
      rw [hc, cvol, cimp]
      have hcc : canonC ⟨.str p, .int n1, .int n2, volume_id, .str ty, .str fm, .str ar, .int n3, .int n4, ck, implant_md5, .bool bb,
            .str sv, .bool false, av⟩ = ⟨.str p, .int n1, .int n2, volume_id, .str ty, .str fm, .str ar, .int n3, .int n4, PyVal.canon ck, implant_md5,
            .bool bb, .str sv, .bool false, .list []⟩ := by
        simp only [canonC, h11]; rfl
      rw [hcc] at hcv ⊢
      have e : Image.deserialize (.str currentVersion) (.dict [(L "arch", .str ar), (L "bootable", .bool bb), (L "checksums", PyVal.canon ck),
            (L "disc_count", .int n4), (L "disc_number", .int n3), (L "format", .str fm), (L "implant_md5", implant_md5),
            (L "mtime", .int n1), (L "path", .str p), (L "size", .int n2), (L "subvariant", .str sv), (L "type", .str ty),
            (L "volume_id", volume_id)]) =
          (Image.validate ⟨.str p, .int n1, .int n2, volume_id, .str ty, .str fm, .str ar, .int n3, .int n4, PyVal.canon ck, implant_md5,
            .bool bb, .str sv, .bool false, .list []⟩ >>= fun _ => .ok ⟨.str p, .int n1, .int n2, volume_id, .str ty, .str fm, .str ar, .int n3, .int n4,
            PyVal.canon ck, implant_md5, .bool bb, .str sv, .bool false, .list []⟩) := by rfl
      rw [e, hcv]; rfl

end PM.Img
