import ProductMD.Model.Checksum
import ProductMD.Proofs.HashMD
/-! Helper lemmas for C16: the read loop, `splitOn`, `normpath` on relative paths, the checksum table. -/
namespace PM
namespace Checksum

/-! ### read loop -/

theorem readLoop_state {H : Type} (upd : H → Bytes → H)
    (law : ∀ h a b, upd (upd h a) b = upd h (a ++ b)) (unit : ∀ h, upd h [] = h)
    (n : Nat) (hn : 0 < n) :
    ∀ (fuel : Nat) (h : H) (rest : Bytes), rest.length < fuel → (readLoop upd n fuel h rest).1 = upd h rest := by
  intro fuel
  induction fuel with
  | zero => intro h rest hl; omega
  | succ f ih =>
    intro h rest hl
    simp only [readLoop]
    by_cases hc : (rest.take n).isEmpty = true
    · simp only [hc, if_true]
      have : rest = [] := by
        cases rest with
        | nil => rfl
        | cons a t =>
          cases n with
          | zero => omega
          | succ m => simp at hc
      subst this
      exact (unit h).symm
    · simp only [hc]
      have hne : rest ≠ [] := by
        intro h0; subst h0; simp at hc
      have hlen : (rest.drop n).length < f := by
        have : 0 < rest.length := List.length_pos_iff.mpr hne
        simp only [List.length_drop]; omega
      simp only [Bool.false_eq_true, if_false]
      rw [ih _ _ hlen, law, List.take_append_drop]

/-- the same with the unit law only on an invariant `P` that every `upd` establishes (hash objects whose pending
buffer is shorter than a block) -/
theorem readLoop_state_inv {H : Type} (upd : H → Bytes → H) (P : H → Prop) (hP : ∀ h a, P (upd h a))
    (law : ∀ h a b, upd (upd h a) b = upd h (a ++ b)) (unit : ∀ h, P h → upd h [] = h)
    (n : Nat) (hn : 0 < n) :
    ∀ (fuel : Nat) (h : H) (rest : Bytes), P h → rest.length < fuel → (readLoop upd n fuel h rest).1 = upd h rest := by
  intro fuel
  induction fuel with
  | zero => intro h rest _ hl; omega
  | succ f ih =>
    intro h rest hp hl
    simp only [readLoop]
    by_cases hc : (rest.take n).isEmpty = true
    · simp only [hc, if_true]
      have : rest = [] := by
        cases rest with
        | nil => rfl
        | cons a t =>
          cases n with
          | zero => omega
          | succ m => simp at hc
      subst this
      exact (unit h hp).symm
    · simp only [hc]
      have hne : rest ≠ [] := by
        intro h0; subst h0; simp at hc
      have hlen : (rest.drop n).length < f := by
        have : 0 < rest.length := List.length_pos_iff.mpr hne
        simp only [List.length_drop]; omega
      simp only [Bool.false_eq_true, if_false]
      rw [ih _ _ (hP _ _) hlen, law, List.take_append_drop]

/-- the pieces a caller cuts a message into are the message -/
theorem cutChunks_flatten : ∀ (sizes : List Nat) (content : Bytes), (cutChunks sizes content).flatten = content := by
  intro sizes
  induction sizes with
  | nil => intro content; simp [cutChunks]
  | cons k ks ih => intro content; simp [cutChunks, ih]

/-- hex digits are lower case: `.lower()` on a hex digest is the identity -/
theorem lowerAscii_hexDigit (n : Nat) : Str.lowerAscii [HashMD.hexDigit n] = [HashMD.hexDigit n] := by
  rcases n with _|_|_|_|_|_|_|_|_|_|_|_|_|_|_|_|n <;> first | decide | rfl

theorem lowerAscii_hexOfBytes : ∀ (b : Bytes), Str.lowerAscii (HashMD.hexOfBytes b) = HashMD.hexOfBytes b := by
  intro b
  induction b with
  | nil => rfl
  | cons x rest ih =>
    have h1 := lowerAscii_hexDigit (x.toNat / 16)
    have h2 := lowerAscii_hexDigit (x.toNat % 16)
    simp only [Str.lowerAscii, List.map_cons, List.map_nil, List.cons.injEq, and_true] at h1 h2 ih ⊢
    simp only [HashMD.hexOfBytes, List.map_cons, h1, h2, ih]

/-- every read returns at most `n` bytes, only the last one returns nothing, and together they return the file -/
theorem readLoop_trace {H : Type} (upd : H → Bytes → H) (n : Nat) (hn : 0 < n) :
    ∀ (fuel : Nat) (h : H) (rest : Bytes), rest.length < fuel →
      (readLoop upd n fuel h rest).2.sum = rest.length
      ∧ (∀ k ∈ (readLoop upd n fuel h rest).2, k ≤ n)
      ∧ (readLoop upd n fuel h rest).2.getLast? = some 0
      ∧ (∀ k ∈ (readLoop upd n fuel h rest).2.dropLast, 0 < k) := by
  intro fuel
  induction fuel with
  | zero => intro h rest hl; omega
  | succ f ih =>
    intro h rest hl
    simp only [readLoop]
    by_cases hc : (rest.take n).isEmpty = true
    · have : rest = [] := by
        cases rest with
        | nil => rfl
        | cons a t =>
          cases n with
          | zero => omega
          | succ m => simp at hc
      subst this
      simp
    · have hne : rest ≠ [] := by
        intro h0; subst h0; simp at hc
      have hpos : 0 < rest.length := List.length_pos_iff.mpr hne
      have hlen : (rest.drop n).length < f := by
        simp only [List.length_drop]; omega
      obtain ⟨h1, h2, h3, h4⟩ := ih (upd h (rest.take n)) (rest.drop n) hlen
      simp only [hc, Bool.false_eq_true, if_false]
      refine ⟨?_, ?_, ?_, ?_⟩
      · simp only [List.sum_cons, h1, List.length_take, List.length_drop]; omega
      · intro k hk
        simp only [List.mem_cons] at hk
        rcases hk with hk | hk
        · subst hk; simp only [List.length_take]; omega
        · exact h2 k hk
      · cases hr : (readLoop upd n f (upd h (List.take n rest)) (List.drop n rest)).2 with
        | nil => rw [hr] at h3; simp at h3
        | cons a t => rw [hr] at h3; simp only [List.getLast?_cons_cons]; exact h3
      · intro k hk
        cases hr : (readLoop upd n f (upd h (List.take n rest)) (List.drop n rest)).2 with
        | nil => rw [hr] at h3; simp at h3
        | cons a t =>
          rw [hr] at hk h4
          simp only [List.dropLast_cons_cons, List.mem_cons] at hk
          rcases hk with hk | hk
          · subst hk; simp only [List.length_take]; omega
          · exact h4 k hk

/-! ### splitOn -/

theorem splitOn_ne_nil (sep : Char) (s : Str) : Str.splitOn sep s ≠ [] := by
  induction s with
  | nil => simp [Str.splitOn]
  | cons c cs ih =>
    simp only [Str.splitOn]
    split
    · simp
    · split <;> simp

theorem splitOn_no_sep (sep : Char) : ∀ (s : Str), ∀ c ∈ Str.splitOn sep s, sep ∉ c := by
  intro s
  induction s with
  | nil => intro c hc; simp [Str.splitOn] at hc; subst hc; simp
  | cons a t ih =>
    intro c hc
    simp only [Str.splitOn] at hc
    by_cases ha : a = sep
    · simp only [ha, if_true, List.mem_cons] at hc
      rcases hc with hc | hc
      · subst hc; simp
      · exact ih c hc
    · simp only [ha, if_false] at hc
      cases hs : Str.splitOn sep t with
      | nil => exact absurd hs (splitOn_ne_nil sep t)
      | cons h r =>
        rw [hs] at hc ih
        simp only [List.mem_cons] at hc
        rcases hc with hc | hc
        · subst hc
          have := ih h (by simp)
          simp only [List.mem_cons, not_or]
          exact ⟨fun e => ha e.symm, this⟩
        · exact ih c (by simp [hc])

theorem splitOn_of_not_mem (sep : Char) : ∀ (s : Str), sep ∉ s → Str.splitOn sep s = [s] := by
  intro s
  induction s with
  | nil => intro _; rfl
  | cons a t ih =>
    intro h
    simp only [List.mem_cons, not_or] at h
    have ha : ¬ a = sep := fun e => h.1 e.symm
    simp only [Str.splitOn, ha, if_false, ih h.2]

theorem splitOn_append_sep (sep : Char) : ∀ (a b : Str), sep ∉ a →
    Str.splitOn sep (a ++ sep :: b) = a :: Str.splitOn sep b := by
  intro a
  induction a with
  | nil => intro b _; simp [Str.splitOn]
  | cons x t ih =>
    intro b h
    simp only [List.mem_cons, not_or] at h
    have hx : ¬ x = sep := fun e => h.1 e.symm
    simp only [List.cons_append, Str.splitOn, hx, if_false, ih b h.2]

theorem splitTyped_join (t v : Str) (ht : ':' ∉ t) (hv : ':' ∉ v) :
    splitTyped (t ++ ':' :: v) = .ok (t, v) := by
  simp [splitTyped, splitOn_append_sep ':' t v ht, splitOn_of_not_mem ':' v hv]

/-! ### normpath keeps relative paths relative -/

theorem normStep_inv (a : Bool) (acc : List Str) (comp : Str)
    (hacc : ∀ c ∈ acc, c ≠ [] ∧ '/' ∉ c) (hc : '/' ∉ comp) :
    ∀ c ∈ normStep a acc comp, c ≠ [] ∧ '/' ∉ c := by
  intro c hmem
  unfold normStep at hmem
  split at hmem
  · exact hacc c hmem
  · rename_i h1
    split at hmem
    · simp only [List.mem_cons] at hmem
      rcases hmem with e | e
      · subst e
        exact ⟨fun e0 => h1 (Or.inl e0), hc⟩
      · exact hacc c e
    · exact hacc c (List.mem_of_mem_tail hmem)

theorem foldl_normStep_inv (a : Bool) : ∀ (comps : List Str) (acc : List Str),
    (∀ c ∈ acc, c ≠ [] ∧ '/' ∉ c) → (∀ c ∈ comps, '/' ∉ c) →
    ∀ c ∈ comps.foldl (normStep a) acc, c ≠ [] ∧ '/' ∉ c := by
  intro comps
  induction comps with
  | nil => intro acc h _; simpa using h
  | cons x r ih =>
    intro acc hacc hcs
    simp only [List.foldl_cons]
    exact ih _ (normStep_inv a acc x hacc (hcs x (by simp))) (fun c hc => hcs c (by simp [hc]))

theorem joinWith_not_abs : ∀ (comps : List Str), (∀ c ∈ comps, c ≠ [] ∧ '/' ∉ c) →
    Str.startsWith (Str.joinWith '/' comps) ['/'] = false := by
  intro comps h
  cases comps with
  | nil => simp [Str.joinWith, Str.startsWith]
  | cons x r =>
    obtain ⟨hx, hs⟩ := h x (by simp)
    cases x with
    | nil => exact absurd rfl hx
    | cons c cs =>
      have hc : c ≠ '/' := by
        intro e; subst e; simp at hs
      have hc' : ('/' == c) = false := by simp [Ne.symm hc]
      cases r with
      | nil => simp [Str.joinWith, Str.startsWith, List.isPrefixOf, hc']
      | cons y r' => simp [Str.joinWith, Str.startsWith, List.isPrefixOf, hc']

theorem normpath_relative (p : Str) (h : Str.startsWith p ['/'] = false) :
    Str.startsWith (normpath p) ['/'] = false := by
  unfold normpath
  by_cases hp : p = []
  · simp only [hp, if_true, Str.startsWith]; decide
  · simp only [hp, if_false]
    have hk : initialSlashes p = 0 := by simp [initialSlashes, h]
    simp only [hk, List.replicate_zero, List.nil_append]
    have hinv := foldl_normStep_inv ((0 : Nat) != 0) (Str.splitOn '/' p) [] (by simp) (splitOn_no_sep '/' p)
    have hrev : ∀ c ∈ (List.foldl (normStep ((0 : Nat) != 0)) [] (Str.splitOn '/' p)).reverse, c ≠ [] ∧ '/' ∉ c := by
      intro c hc
      exact hinv c (List.mem_reverse.mp hc)
    split
    · simp only [Str.startsWith]; decide
    · exact joinWith_not_abs _ hrev

/-! ### table -/

theorem Table.get?_set (t : Table) (k : Str) (v : Str × Str) (p : Str) :
    (t.set k v).get? p = if k = p then some v else t.get? p := by
  induction t with
  | nil => simp [Table.set, Table.get?]
  | cons e rest ih =>
    obtain ⟨k', v'⟩ := e
    simp only [Table.set]
    by_cases h : k' = k
    · subst h
      simp only [if_true, Table.get?]
      by_cases h2 : k' = p <;> simp [h2]
    · simp only [h, if_false, Table.get?, ih]
      by_cases h2 : k' = p
      · subst h2
        simp [h, Ne.symm h]
      · simp [h2]

theorem Table.set_of_not_mem (t : Table) (k : Str) (v : Str × Str) (h : k ∉ t.map (·.1)) :
    t.set k v = t ++ [(k, v)] := by
  induction t with
  | nil => rfl
  | cons e rest ih =>
    obtain ⟨k', v'⟩ := e
    simp only [List.map_cons, List.mem_cons, not_or] at h
    have : ¬ k' = k := fun e => h.1 e.symm
    simp only [Table.set, this, if_false, ih h.2, List.cons_append]

theorem Table.set_keys_any (t : Table) (k : Str) (v : Str × Str) (f : Str → Bool) :
    (t.set k v).any (fun e => f e.1) = (t.any (fun e => f e.1) || f k) := by
  induction t with
  | nil => simp [Table.set]
  | cons e rest ih =>
    obtain ⟨k', v'⟩ := e
    simp only [Table.set]
    by_cases h : k' = k
    · subst h
      simp only [if_true, List.any_cons]
      cases f k' <;> simp
    · simp only [h, if_false, List.any_cons, ih, Bool.or_assoc]

end Checksum
end PM
