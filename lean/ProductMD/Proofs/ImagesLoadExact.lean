import ProductMD.Proofs.ImagesSerialize
/-!
The reader on a document whose image table has unique keys: it visits exactly the table's entries, in order, and —
when every entry is the dictionary of a valid image, every arch key is admissible and no two images collide —
files each of them under its variant and arch with a fresh object identity.
-/
namespace PM.Img
open PM PM.PyOps PM.Spec
set_option Elab.async false

/-! ### filings after an insertion with a fresh object id -/

def archEntriesId (v : Str) (as : List (Str × Cell)) : List (Str × Str × Nat × Image) :=
  as.flatMap fun ac => ac.2.map fun e => (v, ac.1, e.1, e.2)

theorem entries_cons (va : Str × List (Str × Cell)) (cs : Cells) :
    entries (va :: cs) = archEntriesId va.1 va.2 ++ entries cs := by
  simp [entries, archEntriesId]

theorem archEntriesId_cons (v : Str) (ac : Str × Cell) (as : List (Str × Cell)) :
    archEntriesId v (ac :: as) = ac.2.map (fun e => (v, ac.1, e.1, e.2)) ++ archEntriesId v as := by
  simp [archEntriesId]

theorem cellAdd_fresh (c : Cell) (id : Nat) (img : Image) (h : ∀ e ∈ c, e.1 ≠ id) : cellAdd c id img = c ++ [(id, img)] := by
  unfold cellAdd
  have : c.any (fun e => e.1 == id) = false := by
    rw [List.any_eq_false]
    intro e he
    simpa using h e he
  simp [this]

theorem archAdd_perm (v a : Str) (id : Nat) (img : Image) (as : List (Str × Cell))
    (h : ∀ e ∈ archEntriesId v as, e.2.2.1 ≠ id) :
    (archEntriesId v (archAdd as a id img)).Perm ((v, a, id, img) :: archEntriesId v as) := by
  induction as with
  | nil => simp [archAdd, archEntriesId]
  | cons ac rest ih =>
    obtain ⟨a', c⟩ := ac
    rw [archEntriesId_cons] at h
    unfold archAdd
    split
    · rename_i hh
      have h' : a' = a := by simpa using hh
      subst h'
      rw [archEntriesId_cons, archEntriesId_cons]
      simp only
      have hc : ∀ e ∈ c, e.1 ≠ id := by
        intro e he
        exact h (v, a', e.1, e.2) (List.mem_append_left _ (List.mem_map.mpr ⟨e, he, rfl⟩))
      rw [cellAdd_fresh c id img hc]
      simp only [List.map_append, List.map_cons, List.map_nil, List.append_assoc, List.singleton_append]
      exact List.perm_middle
    · rw [archEntriesId_cons, archEntriesId_cons]
      simp only
      refine (List.Perm.append_left _ (ih (fun e he => h e (List.mem_append_right _ he)))).trans ?_
      exact List.perm_middle

theorem cellsAdd_perm (v a : Str) (id : Nat) (img : Image) (cs : Cells) (h : ∀ e ∈ entries cs, e.2.2.1 ≠ id) :
    (entries (cellsAdd cs v a id img)).Perm ((v, a, id, img) :: entries cs) := by
  induction cs with
  | nil => simp [cellsAdd, entries]
  | cons va rest ih =>
    obtain ⟨v', as⟩ := va
    rw [entries_cons] at h
    unfold cellsAdd
    split
    · rename_i hh
      have h' : v' = v := by simpa using hh
      subst h'
      rw [entries_cons, entries_cons]
      simp only
      exact (List.Perm.append_right _ (archAdd_perm v' a id img as (fun e he => h e (List.mem_append_left _ he)))).trans (by simp)
    · rw [entries_cons, entries_cons]
      simp only
      refine (List.Perm.append_left _ (ih (fun e he => h e (List.mem_append_right _ he)))).trans ?_
      exact List.perm_middle

/-- every object id in the manifest is below `n` -/
def IdsBelow (n : Nat) (cs : Cells) : Prop := ∀ e ∈ entries cs, e.2.2.1 < n

theorem all_eq_entries (cs : Cells) : cs.all = (entries cs).map (·.2.2.2) := by
  simp [Cells.all, entries, List.map_flatMap, List.map_map, Function.comp_def]

/-! ### the loops visit the table's entries in order -/

def loadTriples (ver images : PyVal) : List (Str × Str × PyVal) → ImgState × Nat → Except Err (ImgState × Nat)
  | [], acc => .ok acc
  | t :: ts, acc => (loadCell ver images (.str t.1) (.str t.2.1) [t.2.2] acc).bind (loadTriples ver images ts)

theorem loadTriples_append (ver images : PyVal) (t1 t2 : List (Str × Str × PyVal)) (acc : ImgState × Nat) :
    loadTriples ver images (t1 ++ t2) acc = (loadTriples ver images t1 acc).bind (loadTriples ver images t2) := by
  induction t1 generalizing acc with
  | nil => rfl
  | cons t rest ih =>
    simp only [List.cons_append, loadTriples]
    cases loadCell ver images (.str t.1) (.str t.2.1) [t.2.2] acc with
    | error e => rfl
    | ok acc' => exact ih acc'

theorem loadCell_cons (ver images variant arch : PyVal) (d : PyVal) (rest : List PyVal) (acc : ImgState × Nat) :
    loadCell ver images variant arch (d :: rest) acc
      = (loadCell ver images variant arch [d] acc).bind (loadCell ver images variant arch rest) := by
  obtain ⟨s, n⟩ := acc
  simp only [loadCell, bind, Except.bind]
  cases Image.deserialize ver d with
  | error e => rfl
  | ok img =>
    simp only
    cases versionTuple ver with
    | error e => rfl
    | ok vt =>
      simp only
      cases gateEval Gen.gate_images_Images_deserialize_0 vt with
      | error e => rfl
      | ok old =>
        simp only
        cases fileLoaded old s images variant arch n img with
        | error e => rfl
        | ok s' => rfl

theorem loadCell_eq (ver images : PyVal) (v a : Str) (l : List PyVal) (acc : ImgState × Nat) :
    loadCell ver images (.str v) (.str a) l acc = loadTriples ver images (l.map fun d => (v, a, d)) acc := by
  induction l generalizing acc with
  | nil => rfl
  | cons d rest ih =>
    rw [loadCell_cons]
    simp only [List.map_cons, loadTriples]
    cases loadCell ver images (.str v) (.str a) [d] acc with
    | error e => rfl
    | ok acc' => exact ih acc'

theorem find_key {β γ : Type} (g : β → γ) : ∀ (l : List (Str × β)) (k : Str) (x : β), (l.map (·.1)).Nodup → (k, x) ∈ l →
    (l.map fun p => (p.1, g p.2)).find? (·.1 == k) = some (k, g x) := by
  intro l
  induction l with
  | nil => intro k x _ h; cases h
  | cons p rest ih =>
    intro k x hn hm
    obtain ⟨k', y⟩ := p
    simp only [List.map_cons, List.nodup_cons] at hn
    rcases List.mem_cons.mp hm with e | e
    · injection e with e1 e2
      subst e1 e2
      simp [List.find?]
    · have hne : ¬ k' = k := by
        intro e'; subst e'
        exact hn.1 (List.mem_map.mpr ⟨(k', x), e, rfl⟩)
      have : ((k' == k) = false) := by simpa using hne
      simp only [List.map_cons, List.find?, this]
      exact ih k x hn.2 e

def archsPy (as : List (Str × List PyVal)) : PyVal := .dict (as.map fun al => (al.1, .list al.2))

theorem toPy_eq (o : OutCells) : o.toPy = .dict (o.map fun va => (va.1, archsPy va.2)) := rfl

theorem loadArches_eq (ver images : PyVal) (v : Str) (as : List (Str × List PyVal)) (hn : (as.map (·.1)).Nodup) :
    ∀ (rest : List (Str × List PyVal)), (∀ al ∈ rest, al ∈ as) → ∀ acc,
      loadArches ver images (.str v) (archsPy as) (rest.map fun al => .str al.1) acc
        = loadTriples ver images (archTriples v rest) acc := by
  intro rest
  induction rest with
  | nil => intro _ acc; rfl
  | cons al rest ih =>
    intro hsub acc
    obtain ⟨a, l⟩ := al
    have hmem : (a, l) ∈ as := hsub (a, l) List.mem_cons_self
    have hsubscript : subscript (archsPy as) (.str a) = .ok (.list l) := by
      simp only [archsPy, subscript, find_key (fun l => PyVal.list l) as a l hn hmem]
    simp only [List.map_cons, loadArches, hsubscript, bind, Except.bind, iter]
    rw [archTriples_cons, loadTriples_append, loadCell_eq]
    simp only
    cases loadTriples ver images (l.map fun d => (v, a, d)) acc with
    | error e => rfl
    | ok acc' => exact ih (fun x hx => hsub x (List.mem_cons_of_mem _ hx)) acc'

theorem loadVariants_eq (ver : PyVal) (o : OutCells) (hn : OutNodup o) :
    ∀ (rest : OutCells), (∀ va ∈ rest, va ∈ o) → ∀ acc,
      loadVariants ver o.toPy (rest.map fun va => .str va.1) acc = loadTriples ver o.toPy (outTriples rest) acc := by
  intro rest
  induction rest with
  | nil => intro _ acc; rfl
  | cons va rest ih =>
    intro hsub acc
    obtain ⟨v, as⟩ := va
    have hmem : (v, as) ∈ o := hsub (v, as) List.mem_cons_self
    have hsubscript : subscript o.toPy (.str v) = .ok (archsPy as) := by
      simp only [toPy_eq, subscript, find_key archsPy o v as hn.1 hmem]
    have hiter : iter (archsPy as) = .ok (as.map fun al => .str al.1) := by
      simp [archsPy, iter, List.map_map, Function.comp_def]
    simp only [List.map_cons, loadVariants, hsubscript, hiter, bind, Except.bind]
    rw [outTriples_cons, loadTriples_append, loadArches_eq ver o.toPy v as (hn.2 (v, as) hmem) as (fun _ h => h)]
    simp only
    cases loadTriples ver o.toPy (archTriples v as) acc with
    | error e => rfl
    | ok acc' => exact ih (fun x hx => hsub x (List.mem_cons_of_mem _ hx)) acc'

/-! ### loading valid, compatible entries under the current format version -/

theorem cur_not_old_images : gateEval Gen.gate_images_Images_deserialize_0 (.nums Gen.VERSION) = .ok false := by decide +kernel
theorem cur_enforces : Enforces (.str currentVersion) := by unfold Enforces; decide +kernel

/-- the statement list of the current source accepts an admissible, compatible image and files it -/
theorem add_accepts (s : ImgState) (v a : Str) (id : Nat) (img : Image) (hv : Enforces s.version)
    (ha : Gen.RPM_ARCHES.contains a = true) (hr : refusedArches.contains a = false) (hc : conflict s.cells img = false) :
    add s v a id img = ({ s with cells := cellsAdd s.cells v a id img }, .ok ()) := by
  have hsc := scan_enforced v a id img s hv
  rw [hc] at hsc
  simp only [runStep] at hsc
  simp only [add, addScript, Gen.images_add_script, runSteps, runStep, ha, hr]
  simp only [Bool.false_eq_true, ↓reduceIte, hsc]

theorem loadOne_good (images : PyVal) (s : ImgState) (n : Nat) (v a : Str) (i : Image)
    (hs : s.version = .str currentVersion) (hval : i.validate = .ok ()) (hp : ProperInts i)
    (ha : Gen.RPM_ARCHES.contains a = true) (hr : refusedArches.contains a = false) (hc : conflict s.cells i = false) :
    loadCell (.str currentVersion) images (.str v) (.str a) [i.dict] (s, n)
      = .ok ({ s with cells := cellsAdd s.cells v a n i }, n + 1) := by
  have hacc := add_accepts s v a n i (hs ▸ cur_enforces) ha hr hc
  simp only [loadCell, image_roundtrip i hval hp, cur_vt, cur_not_old_images, fileLoaded, addPy, hacc, bind, Except.bind]
  rfl

theorem triples_cellsAdd (v a : Str) (n : Nat) (i : Image) (cs : Cells) (h : IdsBelow n cs) :
    (triples (cellsAdd cs v a n i)).Perm ((v, a, i) :: triples cs) ∧ IdsBelow (n + 1) (cellsAdd cs v a n i) := by
  have hp := cellsAdd_perm v a n i cs (fun e he => Nat.ne_of_lt (h e he))
  constructor
  · exact hp.map (fun e => (e.1, e.2.1, e.2.2.2))
  · intro e he
    rcases List.mem_cons.mp (hp.mem_iff.mp he) with rfl | h'
    · exact Nat.lt_succ_self _
    · exact Nat.lt_succ_of_lt (h e h')

theorem loadTriples_good (images : PyVal) (A : List Image)
    (hA : ∀ i ∈ A, ∀ j ∈ A, SameIdentity i j → PyEq i.checksums j.checksums)
    (hAv : ∀ i ∈ A, i.validate = .ok () ∧ ProperInts i) :
    ∀ (us : List (Str × Str × Image)) (s : ImgState) (n : Nat),
      (∀ u ∈ us, u.2.2 ∈ A ∧ Gen.RPM_ARCHES.contains u.2.1 = true ∧ refusedArches.contains u.2.1 = false) →
      s.version = .str currentVersion → (∀ x ∈ s.cells.all, x ∈ A) → IdsBelow n s.cells →
      ∃ s', loadTriples (.str currentVersion) images (us.map fun u => (u.1, u.2.1, u.2.2.dict)) (s, n) = .ok (s', n + us.length)
        ∧ s'.version = s.version ∧ s'.compose = s.compose ∧ (triples s'.cells).Perm (us ++ triples s.cells) := by
  intro us
  induction us with
  | nil => intro s n _ _ _ _; exact ⟨s, rfl, rfl, rfl, List.Perm.refl _⟩
  | cons u rest ih =>
    intro s n hus hs hsub hids
    obtain ⟨v, a, i⟩ := u
    obtain ⟨hiA, ha, hr⟩ := hus (v, a, i) List.mem_cons_self
    have hc : conflict s.cells i = false := by
      rw [conflict_false_iff]
      intro cur hcur hid
      exact hA cur (hsub cur hcur) i hiA hid
    have h1 := loadOne_good images s n v a i hs (hAv i hiA).1 (hAv i hiA).2 ha hr hc
    obtain ⟨htr, hids'⟩ := triples_cellsAdd v a n i s.cells hids
    have hsub' : ∀ x ∈ (cellsAdd s.cells v a n i).all, x ∈ A := by
      intro x hx
      rcases mem_cellsAdd hx with rfl | h'
      · exact hiA
      · exact hsub x h'
    obtain ⟨s', hl, hv', hc', hp'⟩ := ih { s with cells := cellsAdd s.cells v a n i } (n + 1)
      (fun u hu => hus u (List.mem_cons_of_mem _ hu)) hs hsub' hids'
    refine ⟨s', ?_, hv', hc', ?_⟩
    · simp only [List.map_cons, loadTriples, h1, Except.bind]
      rw [hl]
      simp only [List.length_cons]
      congr 2
      omega
    · refine hp'.trans ?_
      simp only [List.cons_append]
      exact (List.Perm.append_left rest htr).trans List.perm_middle

/-! ### what a successful load has filed (documents newer than 1.1: no `src` re-filing) -/

theorem add_ok_cells (s s' : ImgState) (v a : Str) (id : Nat) (img : Image)
    (h : add s v a id img = (s', .ok ())) : s' = { s with cells := cellsAdd s.cells v a id img } := by
  simp only [add, addScript, Gen.images_add_script, runSteps, runStep] at h
  split at h
  · rename_i s1 h1
    rw [Prod.mk.injEq] at h1
    obtain ⟨rfl, _⟩ := h1
    split at h
    · rename_i s2 h2
      rw [Prod.mk.injEq] at h2
      obtain ⟨rfl, _⟩ := h2
      split at h
      · rename_i s3 h3
        rw [Prod.mk.injEq] at h3
        obtain ⟨rfl, _⟩ := h3
        rw [Prod.mk.injEq] at h
        exact h.1.symm
      · rw [Prod.mk.injEq] at h; cases h.2
    · rw [Prod.mk.injEq] at h; cases h.2
  · rw [Prod.mk.injEq] at h; cases h.2

theorem loadOne_files (ver images : PyVal) (vt : VerT) (hvt : versionTuple ver = .ok vt)
    (hnew : gateEval Gen.gate_images_Images_deserialize_0 vt = .ok false)
    (v a : Str) (d : PyVal) (s : ImgState) (n : Nat) (r : ImgState × Nat)
    (h : loadCell ver images (.str v) (.str a) [d] (s, n) = .ok r) :
    ∃ img, Image.deserialize ver d = .ok img ∧ r = ({ s with cells := cellsAdd s.cells v a n img }, n + 1) := by
  unfold loadCell at h
  obtain ⟨img, h1, h⟩ := bind_ok h
  obtain ⟨vt', h2, h⟩ := bind_ok h
  obtain ⟨old, h3, h⟩ := bind_ok h
  obtain ⟨s1, h4, h⟩ := bind_ok h
  rw [hvt] at h2; injection h2 with h2; subst h2
  rw [hnew] at h3; injection h3 with h3; subst h3
  simp only [loadCell] at h
  refine ⟨img, h1, ?_⟩
  simp only [fileLoaded, Bool.false_eq_true, ↓reduceIte, addPy] at h4
  split at h4
  · rename_i s2 hadd
    injection h4 with h4
    subst h4
    have h' : (Except.ok (s2, n + 1) : Except Err (ImgState × Nat)) = .ok r := h
    injection h' with h'
    rw [← h', add_ok_cells s s2 v a n img hadd]
  · cases h4

theorem loadTriples_files (ver images : PyVal) (vt : VerT) (hvt : versionTuple ver = .ok vt)
    (hnew : gateEval Gen.gate_images_Images_deserialize_0 vt = .ok false) :
    ∀ (ts : List (Str × Str × PyVal)) (s : ImgState) (n : Nat) (r : ImgState × Nat), IdsBelow n s.cells →
      loadTriples ver images ts (s, n) = .ok r →
      IdsBelow r.2 r.1.cells ∧ (∀ x ∈ s.cells.all, x ∈ r.1.cells.all)
        ∧ ∀ t ∈ ts, ∀ img, Image.deserialize ver t.2.2 = .ok img → img ∈ r.1.cells.all := by
  intro ts
  induction ts with
  | nil =>
    intro s n r hids h
    simp only [loadTriples, Except.ok.injEq] at h
    subst h
    exact ⟨hids, fun _ h => h, fun t ht => by cases ht⟩
  | cons t rest ih =>
    intro s n r hids h
    simp only [loadTriples] at h
    cases h1 : loadCell ver images (.str t.1) (.str t.2.1) [t.2.2] (s, n) with
    | error e => rw [h1] at h; cases h
    | ok r1 =>
      rw [h1] at h
      obtain ⟨img, hd, rfl⟩ := loadOne_files ver images vt hvt hnew t.1 t.2.1 t.2.2 s n r1 h1
      obtain ⟨htr, hids'⟩ := triples_cellsAdd t.1 t.2.1 n img s.cells hids
      obtain ⟨hb, hmono, hfiles⟩ := ih _ (n + 1) r hids' h
      have hnew_mem : img ∈ (cellsAdd s.cells t.1 t.2.1 n img).all := by
        rw [all_eq]
        exact List.mem_map.mpr ⟨(t.1, t.2.1, img), htr.mem_iff.mpr List.mem_cons_self, rfl⟩
      refine ⟨hb, fun x hx => hmono x (mem_cellsAdd_old hx), ?_⟩
      intro t' ht' img' hd'
      rcases List.mem_cons.mp ht' with rfl | hrest
      · rw [hd] at hd'; injection hd' with hd'; subst hd'
        exact hmono _ hnew_mem
      · exact hfiles t' hrest img' hd'

/-! ### the same for every format version, including the `src` re-filing of documents up to 1.1 -/

theorem mem_entries_archAdd {v a : Str} {id : Nat} {img : Image} {as : List (Str × Cell)} {e : Str × Str × Nat × Image} :
    e ∈ archEntriesId v (archAdd as a id img) → e = (v, a, id, img) ∨ e ∈ archEntriesId v as := by
  induction as with
  | nil => intro h; simp [archAdd, archEntriesId] at h; exact Or.inl h
  | cons ac rest ih =>
    obtain ⟨a', c⟩ := ac
    unfold archAdd
    split
    · rename_i hh
      have h' : a' = a := by simpa using hh
      subst h'
      intro h
      rw [archEntriesId_cons] at h ⊢
      rcases List.mem_append.mp h with h | h
      · obtain ⟨y, hy, rfl⟩ := List.mem_map.mp h
        rcases mem_cellAdd hy with e' | e'
        · exact Or.inl (by rw [e'])
        · exact Or.inr (List.mem_append_left _ (List.mem_map.mpr ⟨y, e', rfl⟩))
      · exact Or.inr (List.mem_append_right _ h)
    · intro h
      rw [archEntriesId_cons] at h ⊢
      rcases List.mem_append.mp h with h | h
      · exact Or.inr (List.mem_append_left _ h)
      · rcases ih h with e' | e'
        · exact Or.inl e'
        · exact Or.inr (List.mem_append_right _ e')

theorem mem_entries_cellsAdd {v a : Str} {id : Nat} {img : Image} {cs : Cells} {e : Str × Str × Nat × Image} :
    e ∈ entries (cellsAdd cs v a id img) → e = (v, a, id, img) ∨ e ∈ entries cs := by
  induction cs with
  | nil => intro h; simp [cellsAdd, entries] at h; exact Or.inl h
  | cons va rest ih =>
    obtain ⟨v', as⟩ := va
    unfold cellsAdd
    split
    · rename_i hh
      have h' : v' = v := by simpa using hh
      subst h'
      intro h
      rw [entries_cons] at h ⊢
      rcases List.mem_append.mp h with h | h
      · rcases mem_entries_archAdd h with e' | e'
        · exact Or.inl e'
        · exact Or.inr (List.mem_append_left _ e')
      · exact Or.inr (List.mem_append_right _ h)
    · intro h
      rw [entries_cons] at h ⊢
      rcases List.mem_append.mp h with h | h
      · exact Or.inr (List.mem_append_left _ h)
      · rcases ih h with e' | e'
        · exact Or.inl e'
        · exact Or.inr (List.mem_append_right _ e')

theorem idsBelow_cellsAdd {v a : Str} {n : Nat} {img : Image} {cs : Cells} (h : IdsBelow (n + 1) cs) :
    IdsBelow (n + 1) (cellsAdd cs v a n img) := by
  intro e he
  rcases mem_entries_cellsAdd he with rfl | h'
  · exact Nat.lt_succ_self _
  · exact h e h'

/-- a successful `self.add(...)` of the reader with object id `n` -/
theorem addPy_ids {s s' : ImgState} {variant arch : PyVal} {n : Nat} {img : Image}
    (h : addPy s variant arch n img = .ok s') (hb : IdsBelow (n + 1) s.cells) :
    IdsBelow (n + 1) s'.cells ∧ ∀ x ∈ s.cells.all, x ∈ s'.cells.all := by
  unfold addPy at h
  split at h
  · split at h
    · rename_i a _ v
      split at h
      · rename_i s1 hadd
        injection h with h
        subst h
        rw [add_ok_cells s s1 v a n img hadd]
        exact ⟨idsBelow_cellsAdd hb, fun x hx => mem_cellsAdd_old hx⟩
      · cases h
    · split at h <;> cases h
  · cases h

theorem refile_ids (variant : PyVal) (n : Nat) (img : Image) :
    ∀ (l : List PyVal) (s s' : ImgState), refile s variant n img l = .ok s' → IdsBelow (n + 1) s.cells →
      IdsBelow (n + 1) s'.cells ∧ ∀ x ∈ s.cells.all, x ∈ s'.cells.all := by
  intro l
  induction l with
  | nil => intro s s' h hb; simp only [refile, Except.ok.injEq] at h; subst h; exact ⟨hb, fun _ h => h⟩
  | cons va rest ih =>
    intro s s' h hb
    unfold refile at h
    split at h
    · exact ih s s' h hb
    · obtain ⟨s1, h1, h2⟩ := bind_ok h
      obtain ⟨hb1, hm1⟩ := addPy_ids h1 hb
      obtain ⟨hb2, hm2⟩ := ih s1 s' h2 hb1
      exact ⟨hb2, fun x hx => hm2 x (hm1 x hx)⟩

theorem pyEq_str (a b : Str) : pyEq (.str a) (.str b) = true ↔ a = b := by
  rw [pyEq_iff]
  have e1 : eqKey (.str a) = .str a := rfl
  have e2 : eqKey (.str b) = .str b := rfl
  rw [e1, e2]
  constructor
  · intro h; injection h
  · intro h; rw [h]

/-- one entry of the table, any format version: the image is read, ids stay below the counter, nothing is lost, and
unless the entry sits under `src` in a document that re-files (`old`), the image is filed -/
theorem loadOne_files_any (ver images : PyVal) (vt : VerT) (hvt : versionTuple ver = .ok vt) (old : Bool)
    (hold : gateEval Gen.gate_images_Images_deserialize_0 vt = .ok old)
    (v a : Str) (d : PyVal) (s : ImgState) (n : Nat) (r : ImgState × Nat) (hb : IdsBelow n s.cells)
    (h : loadCell ver images (.str v) (.str a) [d] (s, n) = .ok r) :
    ∃ img, Image.deserialize ver d = .ok img ∧ r.2 = n + 1 ∧ IdsBelow (n + 1) r.1.cells
      ∧ (∀ x ∈ s.cells.all, x ∈ r.1.cells.all) ∧ ((old = true → a ≠ L "src") → img ∈ r.1.cells.all) := by
  have hb1 : IdsBelow (n + 1) s.cells := fun e he => Nat.lt_succ_of_lt (hb e he)
  unfold loadCell at h
  obtain ⟨img, h1, ha⟩ := bind_ok h
  obtain ⟨vt', h2, hb'⟩ := bind_ok ha
  obtain ⟨old', h3, hc⟩ := bind_ok hb'
  obtain ⟨s1, h4, hfin⟩ := bind_ok hc
  clear h ha hb' hc
  rw [hvt] at h2; injection h2 with h2; subst h2
  rw [hold] at h3; injection h3 with h3; subst h3
  simp only [loadCell] at hfin
  have h' : (Except.ok (s1, n + 1) : Except Err (ImgState × Nat)) = .ok r := hfin
  injection h' with h'
  subst h'
  refine ⟨img, h1, rfl, ?_⟩
  -- the plain `add` branch
  have plain : addPy s (.str v) (.str a) n img = .ok s1 →
      IdsBelow (n + 1) s1.cells ∧ (∀ x ∈ s.cells.all, x ∈ s1.cells.all) ∧ img ∈ s1.cells.all := by
    intro hadd
    obtain ⟨hbb, hmm⟩ := addPy_ids hadd hb1
    refine ⟨hbb, hmm, ?_⟩
    simp only [addPy] at hadd
    split at hadd
    · rename_i s2 hadd'
      injection hadd with hadd
      subst hadd
      rw [add_ok_cells s s2 v a n img hadd']
      obtain ⟨htr, _⟩ := triples_cellsAdd v a n img s.cells hb
      rw [all_eq]
      exact List.mem_map.mpr ⟨(v, a, img), htr.mem_iff.mpr List.mem_cons_self, rfl⟩
    · cases hadd
  unfold fileLoaded at h4
  split at h4
  · rename_i hold'
    split at h4
    · rename_i hsrc
      obtain ⟨archs, _, h5⟩ := bind_ok h4
      obtain ⟨hbb, hmm⟩ := refile_ids (.str v) n img archs s s1 h5 hb1
      refine ⟨hbb, hmm, ?_⟩
      intro hns
      exact absurd ((pyEq_str a (L "src")).mp hsrc) (hns hold')
    · obtain ⟨p1, p2, p3⟩ := plain h4
      exact ⟨p1, p2, fun _ => p3⟩
  · obtain ⟨p1, p2, p3⟩ := plain h4
    exact ⟨p1, p2, fun _ => p3⟩

theorem loadTriples_files_any (ver images : PyVal) (vt : VerT) (hvt : versionTuple ver = .ok vt) (old : Bool)
    (hold : gateEval Gen.gate_images_Images_deserialize_0 vt = .ok old) :
    ∀ (ts : List (Str × Str × PyVal)) (s : ImgState) (n : Nat) (r : ImgState × Nat), IdsBelow n s.cells →
      loadTriples ver images ts (s, n) = .ok r →
      IdsBelow r.2 r.1.cells ∧ (∀ x ∈ s.cells.all, x ∈ r.1.cells.all)
        ∧ ∀ t ∈ ts, (old = true → t.2.1 ≠ L "src") → ∀ img, Image.deserialize ver t.2.2 = .ok img → img ∈ r.1.cells.all := by
  intro ts
  induction ts with
  | nil =>
    intro s n r hids h
    simp only [loadTriples, Except.ok.injEq] at h
    subst h
    exact ⟨hids, fun _ h => h, fun t ht => by cases ht⟩
  | cons t rest ih =>
    intro s n r hids h
    simp only [loadTriples] at h
    cases h1 : loadCell ver images (.str t.1) (.str t.2.1) [t.2.2] (s, n) with
    | error e => rw [h1] at h; cases h
    | ok r1 =>
      rw [h1] at h
      obtain ⟨img, hd, hn, hb, hmono1, hfiled⟩ := loadOne_files_any ver images vt hvt old hold t.1 t.2.1 t.2.2 s n r1 hids h1
      obtain ⟨s1, n1⟩ := r1
      simp only at hn hb hmono1 hfiled
      subst hn
      obtain ⟨hb', hmono, hfiles⟩ := ih s1 (n + 1) r hb h
      refine ⟨hb', fun x hx => hmono x (hmono1 x hx), ?_⟩
      intro t' ht' hns img' hd'
      rcases List.mem_cons.mp ht' with rfl | hrest
      · rw [hd] at hd'; injection hd' with hd'; subst hd'
        exact hmono _ (hfiled hns)
      · exact hfiles t' hrest hns img' hd'

end PM.Img
