import ProductMD.Proofs.RegexCost
/-! Closed form of the cost bound: `cB r n ≤ coef r * (n+1) ^ deg r`. Pure arithmetic, core Lean only. -/
namespace PM

def Re.wc : Re → Nat
  | .cat a b => a.wc * b.wc
  | .alt a b => a.wc + b.wc
  | .grp _ a => a.wc
  | _ => 1
def Re.wd : Re → Nat
  | .cat a b => a.wd + b.wd
  | .alt a b => max a.wd b.wd
  | .star _ => 1
  | .grp _ a => a.wd
  | _ => 0
/-- leading coefficient of the cost bound -/
def Re.coef : Re → Nat
  | .cat a b => 1 + a.coef + a.wc * b.coef
  | .alt a b => 1 + a.coef + b.coef
  | .star a => 1 + a.coef
  | .grp _ a => a.coef
  | _ => 1
/-- degree of the cost bound -/
def Re.deg : Re → Nat
  | .cat a b => max a.deg (a.wd + b.deg)
  | .alt a b => max a.deg b.deg
  | .star a => a.deg + 1
  | .grp _ a => a.deg
  | _ => 0

private theorem pow_mono (P : Nat) (hP : 1 ≤ P) {a b : Nat} (h : a ≤ b) (c : Nat) : c * P ^ a ≤ c * P ^ b :=
  Nat.mul_le_mul (Nat.le_refl _) (Nat.pow_le_pow_right hP h)

theorem Re.wB_le (r : Re) (n : Nat) : r.wB n ≤ r.wc * (n + 1) ^ r.wd := by
  have hP : 1 ≤ n + 1 := by omega
  induction r with
  | eps | bol | eol | bad | cls => simp [Re.wB, Re.wc, Re.wd]
  | grp _ a iha => simpa [Re.wB, Re.wc, Re.wd] using iha
  | star a _ => simp [Re.wB, Re.wc, Re.wd]
  | cat a b iha ihb =>
    simp only [Re.wB, Re.wc, Re.wd]
    calc a.wB n * b.wB n ≤ (a.wc * (n+1) ^ a.wd) * (b.wc * (n+1) ^ b.wd) := Nat.mul_le_mul iha ihb
      _ = a.wc * b.wc * (n + 1) ^ (a.wd + b.wd) := by
        rw [Nat.pow_add]; simp [Nat.mul_assoc, Nat.mul_comm, Nat.mul_left_comm]
  | alt a b iha ihb =>
    simp only [Re.wB, Re.wc, Re.wd]
    have h1 := pow_mono (n+1) hP (Nat.le_max_left a.wd b.wd) a.wc
    have h2 := pow_mono (n+1) hP (Nat.le_max_right a.wd b.wd) b.wc
    rw [Nat.add_mul]
    omega

theorem Re.cB_le (r : Re) (n : Nat) : r.cB n ≤ r.coef * (n + 1) ^ r.deg := by
  have hP : 1 ≤ n + 1 := by omega
  induction r with
  | eps | bol | eol | bad | cls => simp [Re.cB, Re.coef, Re.deg]
  | grp _ a iha => simpa [Re.cB, Re.coef, Re.deg] using iha
  | star a iha =>
    simp only [Re.cB, Re.coef, Re.deg]
    have h1 : 1 ≤ (n + 1) ^ a.deg := Nat.one_le_pow _ _ hP
    have h2 : 1 + a.cB n ≤ (1 + a.coef) * (n + 1) ^ a.deg := by rw [Nat.add_mul]; omega
    calc (n + 1) * (1 + a.cB n) ≤ (n + 1) * ((1 + a.coef) * (n + 1) ^ a.deg) := Nat.mul_le_mul (Nat.le_refl _) h2
      _ = (1 + a.coef) * (n + 1) ^ (a.deg + 1) := by
        rw [Nat.pow_succ]; simp [Nat.mul_assoc, Nat.mul_comm, Nat.mul_left_comm]
  | alt a b iha ihb =>
    simp only [Re.cB, Re.coef, Re.deg]
    have h0 : 1 ≤ (n + 1) ^ (max a.deg b.deg) := Nat.one_le_pow _ _ hP
    have h1 := pow_mono (n+1) hP (Nat.le_max_left a.deg b.deg) a.coef
    have h2 := pow_mono (n+1) hP (Nat.le_max_right a.deg b.deg) b.coef
    simp only [Nat.add_mul, Nat.one_mul]
    omega
  | cat a b iha ihb =>
    simp only [Re.cB, Re.coef, Re.deg]
    generalize hD : max a.deg (a.wd + b.deg) = D
    have hD1 : a.deg ≤ D := by omega
    have hD2 : a.wd + b.deg ≤ D := by omega
    have h0 : 1 ≤ (n + 1) ^ D := Nat.one_le_pow _ _ hP
    have h1 := pow_mono (n+1) hP hD1 a.coef
    have h3 : a.wB n * b.cB n ≤ a.wc * b.coef * (n + 1) ^ D :=
      calc a.wB n * b.cB n ≤ (a.wc * (n+1) ^ a.wd) * (b.coef * (n+1) ^ b.deg) := Nat.mul_le_mul (a.wB_le n) ihb
        _ = a.wc * b.coef * (n + 1) ^ (a.wd + b.deg) := by
          rw [Nat.pow_add]; simp [Nat.mul_assoc, Nat.mul_comm, Nat.mul_left_comm]
        _ ≤ a.wc * b.coef * (n + 1) ^ D := pow_mono (n+1) hP hD2 _
    simp only [Nat.add_mul, Nat.one_mul]
    omega

/-- **C19, closed form.** -/
theorem safe_poly (r : Re) (h : r.safe = true) (f : Nat) (s : Str) :
    cost f r s ≤ r.coef * (s.length + 1) ^ r.deg :=
  Nat.le_trans (safe_bounds r h f s).2 (r.cB_le s.length)

end PM
