import ProductMD.Proofs.C05CIDownTop
/-!
# C05: the header fact of `deserialize_down` from the version text alone; the example descriptions of the down-conversion
theorems (kernel-decided, kept out of Properties/C05.lean for its build time)
-/
namespace PM
namespace CI
set_option Elab.async false

theorem ciVerLt_eq_not_vLe (a b : Nat × Nat) : CI.verLt a b = !vLe b a := by
  have := verLt_eq_not_vLe a b
  simpa [CI.verLt, PM.verLt] using this

/-- `HeaderOK` is a fact about the version text alone: the header validator accepts it and it reads as `ver` -/
theorem headerOK_of (vs : Str) (ver : Nat × Nat) (keep : Bool)
    (hval : validateClass "common.Header" (headerObj (.str vs)) = .ok ()) (hvt : versionTuple vs = .ok ver) :
    HeaderOK (downFmt ver keep) vs ver := by
  intro p
  have hlt := ciVerLt_eq_not_vLe ver (1, 1)
  have hc : PyVal.pyEq (.str Gen.HEADER_TYPE_ComposeInfo) (.str Gen.HEADER_TYPE_ComposeInfo) = true := by decide +kernel
  cases hty : vLe (1, 1) ver <;>
    simp [headerDe, sub, PyVal.get?, downHeaderVal, downFmt, hty, hval, asStr, hvt, headerTypeCheck, hlt, hc]

theorem vLe_0_3_of_1_0 (ver : Nat × Nat) (h : vLe (1, 0) ver = true) : vLe (0, 3) ver = true := by
  obtain ⟨a, b⟩ := ver
  simp only [vLe, Bool.or_eq_true, Bool.and_eq_true, decide_eq_true_eq, beq_iff_eq] at h ⊢
  omega

/-- a format that has every field loses nothing -/
def DownFmt.Lossless (D : DownFmt) : Prop := D.relTyped = true ∧ D.relInternal = true ∧ D.product = false

theorem lossRelease_id (D : DownFmt) (h : D.Lossless) (r : Release) : lossRelease D r = r := by
  obtain ⟨h1, h2, h3⟩ := h
  simp [lossRelease, h1, h2, h3]

theorem lossBase_id (D : DownFmt) (h : D.Lossless) (b : BaseProduct) : lossBase D b = b := by
  simp [lossBase, h.1]

mutual
theorem lossV_id (D : DownFmt) (h : D.Lossless) : ∀ v : Variant, lossV D v = v
  | .mk key id uid name type arches paths rel kids => by
    have hr : rel.map (lossRelease D) = rel := by cases rel <;> simp [lossRelease_id D h]
    simp only [lossV, hr, lossVs_id D h kids]
theorem lossVs_id (D : DownFmt) (h : D.Lossless) : ∀ vs : List Variant, lossVs D vs = vs
  | [] => rfl
  | v :: vs => by simp only [lossVs, lossV_id D h v, lossVs_id D h vs]
end

theorem expected_lossless (ver : Nat × Nat) (keep : Bool) (ci : ComposeInfo) (h : (downFmt ver keep).Lossless) :
    expected ver keep ci = ci.norm := by
  have hb : ci.norm.base.map (lossBase (downFmt ver keep)) = ci.norm.base := by
    cases ci.norm.base <;> simp [lossBase_id _ h]
  simp only [expected, lossRelease_id _ h, lossVs_id _ h, hb]

theorem lossless_of (ver : Nat × Nat) (keep : Bool) (h11 : vLe (1, 1) ver = true) (hk : keep = true ∨ vLe (1, 2) ver = true) :
    (downFmt ver keep).Lossless := by
  obtain ⟨a, b⟩ := ver
  refine ⟨h11, ?_, ?_⟩
  · rcases hk with hk | hk <;> simp [downFmt, hk]
  · simp only [vLe, downFmt, Bool.or_eq_true, Bool.and_eq_true, decide_eq_true_eq, beq_iff_eq] at h11 ⊢
    rw [Bool.eq_false_iff]
    simp only [ne_eq, Bool.or_eq_true, Bool.and_eq_true, decide_eq_true_eq, beq_iff_eq]
    omega
/-- a depth-2 compose description: layered release with base product, label, a dashed top-level UID, a layered-product child
with its own release, an optional child -/
def exDown : ComposeInfo :=
  { compose := { id := k%"F-22-20150522.n.3", type := k%"nightly", date := k%"20150522", respin := 3, label := some k%"RC-1.0", final := true },
    release := { name := k%"Fedora", short := k%"F", version := k%"22", type := k%"updates", isLayered := true, internal := true },
    base := some { name := k%"Base", short := k%"b", version := k%"7.1", type := k%"eus" },
    variants :=
      [.mk k%"Server" k%"Server" k%"Server" k%"Server" k%"variant" [k%"x86_64", k%"i386"]
          [(k%"os_tree", [(k%"x86_64", k%"Server/x86_64/os"), (k%"i386", [])])] none
          [.mk k%"optional" k%"optional" k%"Server-optional" k%"opt" k%"optional" [k%"x86_64"] [] none [],
           .mk k%"LP" k%"LP" k%"Server-LP" k%"lp" k%"layered-product" [k%"i386"] []
             (some { name := k%"L", short := k%"l", version := k%"1", type := k%"eus", isLayered := false, internal := true }) []],
       .mk k%"ClientX" k%"ClientX" k%"Client-X" k%"Client" k%"variant" [k%"x86_64"] [] none []] }

/-- three levels: `A` → `A-B` → `A-B-C` (the F32 shape) -/
def exDeep : ComposeInfo :=
  { exDown with
    variants :=
      [.mk k%"A" k%"A" k%"A" k%"A" k%"variant" [k%"x86_64"] [] none
        [.mk k%"B" k%"B" k%"A-B" k%"B" k%"variant" [k%"x86_64"] [] none
          [.mk k%"C" k%"C" k%"A-B-C" k%"C" k%"variant" [k%"x86_64"] [] none []]]] }

/-- the hypotheses of `deserialize_down` hold on `exDown` for 0.2 (every loss at once) and 0.9; the document exists -/
theorem exDown_hyps :
    WellKeyed exDown ∧ LegacyDomain (0, 2) exDown ∧ LegacyDomain (0, 9) exDown
    ∧ isOk (down k%"0.2" (0, 2) false exDown) = true ∧ isOk (down k%"0.9" (0, 9) false exDown) = true
    ∧ isOk (down k%"1.1" (1, 1) true exDown) = true := by decide +kernel

theorem exDown_idDerivable : IdDerivable exDown.compose := ⟨3, rfl, by decide +kernel⟩

/-- what is lost at 0.2, concretely: both release types and the base product's, every `internal`; nothing else -/
theorem exDown_expected_0_2 :
    let x := expected (0, 2) false exDown
    (x.compose == exDown.compose && x.release.type == k%"ga" && !x.release.internal && x.release.isLayered
     && (x.base.map (·.type)) == some k%"ga"
     && x.variants.map Variant.uid == [k%"Client-X", k%"Server"]
     && (x.variants.map fun v => v.kids.map Variant.uid) == [[], [k%"Server-LP", k%"Server-optional"]]
     && (x.variants.flatMap fun v => v.kids.map fun c => c.release.map fun r => (r.type, r.internal)) == [some (k%"ga", false), none]) = true := by
  decide +kernel

/-- … and nothing at 1.1 when the writer already wrote `internal` -/
theorem exDown_expected_1_1 : expected (1, 1) true exDown = exDown.norm := by rfl

/-- necessity of the domain below 1.0 (F32): the three-level description is outside it, its 0.9 document exists and is refused;
from 1.0 on it is inside (`legacyDomain_from_1_0`) -/
theorem exDeep_outside :
    WellKeyed exDeep ∧ ¬ LegacyDomain (0, 9) exDeep
    ∧ (match down k%"0.9" (0, 9) false exDeep with
       | .ok j => (match Legacy.deserialize j with | .error .valueError => true | _ => false)
       | .error _ => false) = true := by decide +kernel

/-- necessity of `IdDerivable` below 0.3: a description whose date is not the one in its id loads with the id's date -/
theorem exDown_id_needed :
    let ci := { exDown with compose := { exDown.compose with date := k%"20150521" } }
    (match down k%"0.2" (0, 2) false ci with
     | .ok j => (match Legacy.deserialize j with | .ok x => x.compose.date == k%"20150522" | .error _ => false)
     | .error _ => false) = true := by decide +kernel

end CI
end PM
