import ProductMD.Proofs.ImagesCanon2
/-!
The compose section read from the key-sorted document.
-/
namespace PM.Img
open PM PM.PyOps PM.Spec PM.Mf
set_option Elab.async false

macro "crule_mem" : tactic => `(tactic| (simp only [Gen.rules_composeinfo_Compose, MethodRules.flat, List.flatMap_cons, List.flatMap_nil,
  List.cons_append, List.nil_append, List.append_nil]; find_mem))

theorem crule_id_mem : Rule.type ['i','d'] [.str] ∈ Gen.rules_composeinfo_Compose.flat := by crule_mem
theorem crule_date_mem : Rule.type ['d','a','t','e'] [.str] ∈ Gen.rules_composeinfo_Compose.flat := by crule_mem
theorem crule_respin_mem : Rule.type ['r','e','s','p','i','n'] [.int] ∈ Gen.rules_composeinfo_Compose.flat := by crule_mem
theorem crule_type_mem : Rule.value ['t','y','p','e'] Gen.COMPOSE_TYPES ∈ Gen.rules_composeinfo_Compose.flat := by
  simp only [Gen.rules_composeinfo_Compose, Gen.COMPOSE_TYPES, MethodRules.flat, List.flatMap_cons, List.flatMap_nil,
    List.cons_append, List.nil_append, List.append_nil]
  find_mem

/-- a scalar is its own canonical form -/
def Scalar (v : PyVal) : Prop := (∀ xs, v ≠ .list xs) ∧ (∀ kvs, v ≠ .dict kvs) ∧ (∀ b, v ≠ .other b)

theorem Scalar.canon {v : PyVal} (h : Scalar v) : PyVal.canon v = v := by
  cases v with
  | list xs => exact absurd rfl (h.1 xs)
  | dict kvs => exact absurd rfl (h.2.1 kvs)
  | _ => rfl

theorem Scalar.jsonRep {v : PyVal} (h : Scalar v) : jsonRep v = true := by
  cases v with
  | list xs => exact absurd rfl (h.1 xs)
  | dict kvs => exact absurd rfl (h.2.1 kvs)
  | other b => exact absurd rfl (h.2.2 b)
  | _ => rfl

theorem scalar_str (s : Str) : Scalar (.str s) := by
  unfold Scalar; refine ⟨?_, ?_, ?_⟩ <;> intro _ h <;> cases h
theorem scalar_int (n : Int) : Scalar (.int n) := by
  unfold Scalar; refine ⟨?_, ?_, ?_⟩ <;> intro _ h <;> cases h
theorem scalar_bool (b : Bool) : Scalar (.bool b) := by
  unfold Scalar; refine ⟨?_, ?_, ?_⟩ <;> intro _ h <;> cases h
theorem scalar_none : Scalar .none := by
  unfold Scalar; refine ⟨?_, ?_, ?_⟩ <;> intro _ h <;> cases h

/-- what the validators force on the compose section -/
structure CTyped (c : Compose) : Prop where
  id : Scalar c.id
  type : Scalar c.type
  date : Scalar c.date
  respin : Scalar c.respin
  label : Scalar c.label
  final : c.label.truthy = true → Scalar c.final

theorem ctyped_of_valid (c : Compose) (h : c.validate = .ok ()) : CTyped c := by
  have h' := h
  rw [compose_validate_unfold] at h'
  have r := (runRules_ok_iff _ _ _).mp h'
  have t1 := r _ crule_id_mem
  have t2 := r _ crule_date_mem
  have t3 := r _ crule_respin_mem
  have t4 := r _ crule_type_mem
  have t5 := r _ rule_label_mem
  have t6 := r _ rule_final_mem
  cases c with
  | mk id type date respin label final =>
    refine ⟨?_, ?_, ?_, ?_, ?_, ?_⟩
    · cases id with
      | str s => exact scalar_str s
      | _ => exact absurd t1 (by intro h; cases h)
    · cases type with
      | str s => exact scalar_str s
      | _ => exact absurd t4 (by intro h; cases h)
    · cases date with
      | str s => exact scalar_str s
      | _ => exact absurd t2 (by intro h; cases h)
    · cases respin with
      | int n => exact scalar_int n
      | bool b => exact scalar_bool b
      | _ => exact absurd t3 (by intro h; cases h)
    · cases label with
      | none => exact scalar_none
      | str s => exact scalar_str s
      | _ => exact absurd t5 (by intro h; cases h)
    · intro hl
      cases label with
      | str s =>
        cases s with
        | nil => simp [PyVal.truthy] at hl
        | cons ch rest =>
          cases final with
          | bool b => exact scalar_bool b
          | _ => exact absurd t6 (by intro h; cases h)
      | none => simp [PyVal.truthy] at hl
      | _ => exact absurd t5 (by intro h; cases h)

/-- the compose section of the key-sorted document is read back as the normal form -/
theorem compose_roundtrip_canon (c : Compose) (rest : PyVal) (d : PyVal) (h : c.serialize = .ok d) :
    Compose.deserialize (.str currentVersion) (.dict [(L "compose", PyVal.canon d), (L "images", rest)]) = .ok (composeNorm c) := by
  unfold Compose.serialize at h
  obtain ⟨u, hv, h⟩ := bind_ok h
  cases u
  injection h with h
  subst h
  have hn := (norm_valid c hv).2
  have ht := ctyped_of_valid c hv
  cases c with
  | mk id type date respin label final =>
    have c1 := ht.id.canon; have c2 := ht.type.canon; have c3 := ht.date.canon; have c4 := ht.respin.canon; have c5 := ht.label.canon
    simp only at c1 c2 c3 c4 c5
    cases hl : label.truthy
    · simp only [hl, Bool.false_eq_true, ↓reduceIte]
      have hc : PyVal.canon (.dict [(L "id", id), (L "type", type), (L "date", date), (L "respin", respin)]) =
          .dict [(L "date", PyVal.canon date), (L "id", PyVal.canon id), (L "respin", PyVal.canon respin), (L "type", PyVal.canon type)] := by rfl
      rw [hc, c1, c2, c3, c4]
      have e : Compose.deserialize (.str currentVersion) (.dict [(L "compose",
            .dict [(L "date", date), (L "id", id), (L "respin", respin), (L "type", type)]), (L "images", rest)])
          = ((composeNorm ⟨id, type, date, respin, label, final⟩).validate >>= fun _ => .ok (composeNorm ⟨id, type, date, respin, label, final⟩)) := by
        simp only [composeNorm, hl]; rfl
      rw [e, hn]; rfl
    · have c6 := (ht.final hl).canon
      simp only at c6
      simp only [hl, ↓reduceIte]
      have hc : PyVal.canon (.dict ([(L "id", id), (L "type", type), (L "date", date), (L "respin", respin)] ++ [(L "label", label), (L "final", final)])) =
          .dict [(L "date", PyVal.canon date), (L "final", PyVal.canon final), (L "id", PyVal.canon id), (L "label", PyVal.canon label),
            (L "respin", PyVal.canon respin), (L "type", PyVal.canon type)] := by rfl
      rw [hc, c1, c2, c3, c4, c5, c6]
      have e : Compose.deserialize (.str currentVersion) (.dict [(L "compose",
            .dict [(L "date", date), (L "final", final), (L "id", id), (L "label", label), (L "respin", respin), (L "type", type)]), (L "images", rest)])
          = (Compose.validate ⟨id, type, date, respin, pyOr label .none, .bool (pyBool final)⟩ >>= fun _ =>
              .ok ⟨id, type, date, respin, pyOr label .none, .bool (pyBool final)⟩) := by rfl
      have hn' : composeNorm ⟨id, type, date, respin, label, final⟩ = ⟨id, type, date, respin, pyOr label .none, .bool (pyBool final)⟩ := by
        simp only [composeNorm, pyOr, pyBool, hl, ↓reduceIte]
      rw [e, ← hn', hn]; rfl

end PM.Img
