import ProductMD.Proofs.IniLemmas
import ProductMD.Model.TreeInfo
/-!
What the treeinfo writer leaves in the document, in lookup form.

`Wrote d d' L N`: going from `d` to `d'` created exactly the sections listed in `L` (name ↦ final options; all
absent from `d`, names pairwise distinct), in creation order `N`, and touched nothing else.
-/
namespace PM
namespace TI
open Ini

structure Wrote (d d' : Ini) (L : List (Str × IniSec)) (N : List Str) : Prop where
  look : ∀ s, d'.lookup s = (L.lookup s).or (d.lookup s)
  fresh : ∀ k ∈ L.map (·.1), d.lookup k = none
  nodup : (L.map (·.1)).Nodup
  names : d'.map (·.1) = d.map (·.1) ++ N
  perm : N.Perm (L.map (·.1))

theorem Wrote.refl (d : Ini) : Wrote d d [] [] :=
  ⟨fun s => by simp, fun k hk => by simp at hk, by simp, by simp, by simp⟩

theorem lookup_isSome_of_mem_keys {α} {l : List (Str × α)} {k : Str} (h : k ∈ l.map (·.1)) : (l.lookup k).isSome := by
  induction l with
  | nil => simp at h
  | cons x xs ih =>
    obtain ⟨a, b⟩ := x
    rw [lookup_cons_eq]
    by_cases hx : a = k
    · simp [hx]
    · simp only [hx, if_false]
      simp only [List.map_cons, List.mem_cons] at h
      rcases h with h | h
      · exact absurd h.symm hx
      · exact ih h

theorem lookup_none_of_not_mem_keys {α} {l : List (Str × α)} {k : Str} (h : k ∉ l.map (·.1)) : l.lookup k = none := by
  induction l with
  | nil => rfl
  | cons x xs ih =>
    obtain ⟨a, b⟩ := x
    simp only [List.map_cons, List.mem_cons, not_or] at h
    rw [lookup_cons_eq]
    have : ¬ a = k := fun e => h.1 e.symm
    simp [this, ih h.2]

theorem lookup_of_mem_nodup {α} {l : List (Str × α)} (hn : (l.map (·.1)).Nodup) {k : Str} {v : α} (hm : (k, v) ∈ l) :
    l.lookup k = some v := by
  induction l with
  | nil => cases hm
  | cons x xs ih =>
    obtain ⟨a, b⟩ := x
    simp only [List.map_cons, List.nodup_cons] at hn
    rw [lookup_cons_eq]
    cases hm with
    | head => simp
    | tail _ h =>
      have : ¬ a = k := by
        intro e; subst e
        exact hn.1 (List.mem_map.mpr ⟨(a, v), h, rfl⟩)
      simp [this, ih hn.2 h]

theorem Wrote.present {d d' L N} (w : Wrote d d' L N) {k : Str} {o : IniSec} (hm : (k, o) ∈ L) : d'.lookup k = some o := by
  rw [w.look, lookup_of_mem_nodup w.nodup hm]; rfl

theorem Wrote.frame {d d' L N} (w : Wrote d d' L N) {s : Str} (h : s ∉ L.map (·.1)) : d'.lookup s = d.lookup s := by
  rw [w.look, lookup_none_of_not_mem_keys h]; rfl

theorem Wrote.trans {d d' d'' L1 L2 N1 N2} (w1 : Wrote d d' L1 N1) (w2 : Wrote d' d'' L2 N2) :
    Wrote d d'' (L2 ++ L1) (N1 ++ N2) := by
  have disj : ∀ k ∈ L2.map (·.1), k ∉ L1.map (·.1) := by
    intro k h2 h1
    have := w2.fresh k h2
    rw [w1.look] at this
    have hs := lookup_isSome_of_mem_keys h1
    cases hl : L1.lookup k with
    | none => simp [hl] at hs
    | some o => simp [hl] at this
  refine ⟨?_, ?_, ?_, ?_, ?_⟩
  · intro s
    rw [w2.look, w1.look, List.lookup_append]
    cases L2.lookup s <;> cases L1.lookup s <;> simp
  · intro k hk
    simp only [List.map_append, List.mem_append] at hk
    rcases hk with hk | hk
    · have := w2.fresh k hk
      rw [w1.look] at this
      cases hl : L1.lookup k with
      | none => simpa [hl] using this
      | some o => simp [hl] at this
    · exact w1.fresh k hk
  · rw [List.map_append, List.nodup_append]
    exact ⟨w2.nodup, w1.nodup, fun a ha b hb e => disj a ha (e ▸ hb)⟩
  · rw [w2.names, w1.names, List.append_assoc]
  · rw [List.map_append]
    exact (List.Perm.append w1.perm w2.perm).trans List.perm_append_comm

/-- a new section followed by `set` calls on it -/
theorem sets_spec {d d' : Ini} {s : Str} {kvs : List (Str × Str)} (h : sets d s kvs = .ok d') :
    d'.map (·.1) = d.map (·.1) ∧ (∀ s', s' ≠ s → d'.lookup s' = d.lookup s') ∧
      (∀ o, d.lookup s = some o → d'.lookup s = some (setsKV o kvs)) := by
  induction kvs generalizing d with
  | nil =>
    simp only [sets] at h; injection h with h; subst h
    exact ⟨rfl, fun _ _ => rfl, fun o ho => by simpa [setsKV] using ho⟩
  | cons kv rest ih =>
    simp only [sets] at h
    cases hs : Ini.set d s kv.1 kv.2 with
    | error e => simp [hs] at h
    | ok d1 =>
      simp only [hs] at h
      obtain ⟨o1, ho1, hn1, hl1⟩ := set_ok hs
      obtain ⟨hn, hf, hc⟩ := ih h
      refine ⟨hn.trans hn1, ?_, ?_⟩
      · intro s' hne
        rw [hf s' hne, hl1 s']
        have : ¬ s = s' := fun e => hne e.symm
        simp [this]
      · intro o ho
        have : d1.lookup s = some (setKV kv.1 kv.2 o) := by
          rw [hl1 s]; simp; rw [ho] at ho1; injection ho1 with e; rw [e]
        rw [hc _ this]; rfl

/-- `add_section(s)` then `set(s, …)` for a list of options: one new section with exactly those options -/
theorem newSection_spec {d d1 d' : Ini} {s : Str} {kvs : List (Str × Str)}
    (ha : addSection d s = .ok d1) (hs : sets d1 s kvs = .ok d') : Wrote d d' [(s, setsKV [] kvs)] [s] := by
  obtain ⟨hn, hd1, hl⟩ := addSection_ok ha
  obtain ⟨hnames, hf, hc⟩ := sets_spec hs
  refine ⟨?_, ?_, by simp, ?_, by simp⟩
  · intro s'
    by_cases e : s = s'
    · subst e
      rw [hc [] (by rw [hl]; simp)]
      simp [lookup_cons_eq]
    · rw [hf s' (fun e' => e e'.symm), hl s']
      simp [lookup_cons_eq, e]
  · intro k hk
    simp at hk; subst hk; exact hn
  · rw [hnames, hd1]; simp

theorem setKV_append_of_not_mem {α} (k : Str) (v : α) (l1 l2 : List (Str × α)) (h : k ∉ l1.map (·.1)) :
    setKV k v (l1 ++ l2) = l1 ++ setKV k v l2 := by
  induction l1 with
  | nil => rfl
  | cons x xs ih =>
    simp only [List.map_cons, List.mem_cons, not_or] at h
    have hb : (x.1 == k) = false := by
      simp only [beq_eq_false_iff_ne, ne_eq]; exact fun e => h.1 e.symm
    simp [setKV, hb, ih h.2]

/-- a later `set` on a section written before -/
theorem Wrote.setLater {d d' d'' : Ini} {L N} {s k v : Str} {o : IniSec} (w : Wrote d d' L N)
    (hl : L.lookup s = some o) (hs : Ini.set d' s k v = .ok d'') :
    Wrote d d'' (setKV s (setKV k v o) L) N := by
  obtain ⟨o1, ho1, hn1, hl1⟩ := set_ok hs
  have hpres : d'.lookup s = some o := by rw [w.look, hl]; rfl
  rw [hpres] at ho1; injection ho1 with e; subst e
  have hkeys : (setKV s (setKV k v o) L).map (·.1) = L.map (·.1) :=
    keys_setKV_of_mem s _ L (by rw [hl]; rfl)
  refine ⟨?_, ?_, ?_, ?_, ?_⟩
  · intro s'
    rw [hl1 s', lookup_setKV, w.look]
    by_cases e : s = s' <;> simp [e]
  · rw [hkeys]; exact w.fresh
  · rw [hkeys]; exact w.nodup
  · rw [hn1]; exact w.names
  · rw [hkeys]; exact w.perm

/-! ### the variant forest -/

def baseOpts (pu : Option Str) (id uid name type : Str) (paths : List (Str × Str)) : IniSec :=
  setsKV (setsKV [] [(kId, id), (kUid, uid), (kName, name), (kType, type)])
    (pathOpts paths ++ parentOpt pu)

/-- the final options of a variant's own section -/
def varOpts (pu : Option Str) : Variant → IniSec
  | .mk _ id uid name type paths kids =>
    if kids.isEmpty then baseOpts pu id uid name type paths
    else setKV kAddons (Str.joinWith ',' (Str.sortDedup (kids.map Variant.uid))) (baseOpts pu id uid name type paths)

mutual
/-- sections of a subtree, later-written first, the variant's own section last -/
def flatV (pu : Option Str) : Variant → List (Str × IniSec)
  | .mk key id uid name type paths kids =>
    flatVs (some uid) kids ++ [(secName type uid, varOpts pu (.mk key id uid name type paths kids))]
def flatVs (pu : Option Str) : List Variant → List (Str × IniSec)
  | [] => []
  | v :: vs => flatVs pu vs ++ flatV pu v
end

mutual
def namesV : Variant → List Str
  | .mk _ _ uid _ type _ kids => secName type uid :: namesVs kids
def namesVs : List Variant → List Str
  | [] => []
  | v :: vs => namesV v ++ namesVs vs
end

mutual
theorem serVariant_spec : ∀ (v : Variant) (pu : Option Str) (d d' : Ini),
    serVariant pu d v = .ok d' → Wrote d d' (flatV pu v) (namesV v)
  | .mk key id uid name type paths kids, pu, d, d', h => by
    simp only [serVariant] at h
    split at h
    · cases h
    · split at h
      · cases h
      · rename_i d1 ha
        split at h
        · cases h
        · rename_i d2 hs2
          split at h
          · cases h
          · split at h
            · cases h
            · rename_i d3 hs3
              split at h
              · cases h
              · rename_i d4 hk
                -- own section with its base options
                have w2 := newSection_spec ha hs2
                obtain ⟨hn3, hf3, hc3⟩ := sets_spec hs3
                have w3 : Wrote d d3 [(secName type uid, baseOpts pu id uid name type paths)] [secName type uid] := by
                  refine ⟨?_, w2.fresh, w2.nodup, by rw [hn3]; exact w2.names, w2.perm⟩
                  intro s'
                  by_cases e : s' = secName type uid
                  · subst e
                    have hp2 : d2.lookup (secName type uid)
                        = some (setsKV [] [(kId, id), (kUid, uid), (kName, name), (kType, type)]) :=
                      w2.present (List.mem_singleton.mpr rfl)
                    rw [hc3 _ hp2]
                    simp only [lookup_cons_eq, if_true, baseOpts]; rfl
                  · rw [hf3 s' e, w2.look]
                    have : ¬ secName type uid = s' := fun e' => e e'.symm
                    simp [lookup_cons_eq, this]
                have wk := serVariants_spec kids (some uid) d3 d4 hk
                have w4 := w3.trans wk
                have hnot : secName type uid ∉ (flatVs (some uid) kids).map (·.1) := by
                  intro hmem
                  have := wk.fresh _ hmem
                  have hp3 : d3.lookup (secName type uid) = some (baseOpts pu id uid name type paths) :=
                    w3.present (List.mem_singleton.mpr rfl)
                  rw [hp3] at this
                  cases this
                by_cases hke : kids.isEmpty = true
                · simp only [hke, if_true] at h
                  injection h with h; subst h
                  simpa [flatV, varOpts, hke, namesV] using w4
                · simp only [hke] at h
                  have hl : (flatVs (some uid) kids ++ [(secName type uid, baseOpts pu id uid name type paths)]).lookup
                      (secName type uid) = some (baseOpts pu id uid name type paths) := by
                    rw [List.lookup_append, lookup_none_of_not_mem_keys hnot]; simp [lookup_cons_eq]
                  have w5 := w4.setLater hl h
                  rw [setKV_append_of_not_mem _ _ _ _ hnot] at w5
                  simpa [flatV, varOpts, hke, namesV, setKV] using w5
theorem serVariants_spec : ∀ (vs : List Variant) (pu : Option Str) (d d' : Ini),
    serVariants pu d vs = .ok d' → Wrote d d' (flatVs pu vs) (namesVs vs)
  | [], pu, d, d', h => by
    simp only [serVariants] at h; injection h with h; subst h
    simpa [flatVs, namesVs] using Wrote.refl d
  | v :: vs, pu, d, d', h => by
    simp only [serVariants] at h
    split at h
    · cases h
    · rename_i d1 hv
      have w1 := serVariant_spec v pu d d1 hv
      have w2 := serVariants_spec vs pu d1 d' h
      simpa [flatVs, namesVs] using w1.trans w2
end

/-! ### the other sections -/

theorem bind_ok {α β} {x : Except Err α} {f : α → Except Err β} {b : β} (h : x >>= f = .ok b) :
    ∃ a, x = .ok a ∧ f a = .ok b := by
  cases x with
  | error e => cases h
  | ok a => exact ⟨a, rfl, h⟩

def headerOpts : IniSec := setsKV [] [(kVersion, currentVersion), (kType, Gen.HEADER_TYPE_TreeInfo)]

theorem serHeader_spec {v : Str} {d d' : Ini} (h : serHeader v d = .ok d') :
    Wrote d d' [(sHeader, headerOpts)] [sHeader] := by
  unfold serHeader at h
  obtain ⟨_, _, h⟩ := bind_ok h
  obtain ⟨d1, ha, h⟩ := bind_ok h
  exact newSection_spec ha h

def releaseOpts (p : Product) (layered : Bool) : IniSec :=
  setsKV [] ([(kName, p.name), (kVersion, p.version), (kShort, p.short)]
    ++ if layered then [(kIsLayered, "true".toList)] else [])

theorem serRelease_spec {p : Product} {l : Bool} {d d' : Ini} (h : serRelease p l d = .ok d') :
    Wrote d d' [(sRelease, releaseOpts p l)] [sRelease] ∧ validateClass "treeinfo.Release" (releaseObj p l) = .ok () := by
  unfold serRelease at h
  obtain ⟨u, hv, h⟩ := bind_ok h
  obtain ⟨d1, ha, h⟩ := bind_ok h
  exact ⟨newSection_spec ha h, by cases u; exact hv⟩

def baseOpts' (p : Product) : IniSec := setsKV [] [(kName, p.name), (kVersion, p.version), (kShort, p.short)]

theorem serBase_spec {bp : Option Product} {d d' : Ini} (h : serBase bp d = .ok d') :
    ∃ p, bp = some p ∧ Wrote d d' [(sBase, baseOpts' p)] [sBase] ∧
      validateClass "treeinfo.BaseProduct" (productObj p) = .ok () := by
  unfold serBase at h
  cases bp with
  | none => cases h
  | some p =>
    simp only at h
    obtain ⟨u, hv, h⟩ := bind_ok h
    obtain ⟨d1, ha, h⟩ := bind_ok h
    exact ⟨p, rfl, newSection_spec ha h, by cases u; exact hv⟩

def treeOpts (t : Tree) : IniSec := setsKV [] [(kArch, t.arch), (kPlatforms, platformsStr t), (kBuildTs, t.ts.str)]

theorem serTree_spec {t : Tree} {d d' : Ini} (h : serTree t d = .ok d') :
    Wrote d d' [(sTree, treeOpts t)] [sTree] ∧ validateClass "treeinfo.Tree" (treeObj t) = .ok () := by
  unfold serTree at h
  obtain ⟨u, hv, h⟩ := bind_ok h
  obtain ⟨d1, ha, h⟩ := bind_ok h
  exact ⟨newSection_spec ha h, by cases u; exact hv⟩

def checksumOpts (cs : List (Str × Str × Str)) : IniSec := setsKV [] (cs.map fun c => (c.1, c.2.1 ++ ':' :: c.2.2))

def optSec (c : Bool) (s : Str) (o : IniSec) : List (Str × IniSec) := if c then [(s, o)] else []
def optName (c : Bool) (s : Str) : List Str := if c then [s] else []

theorem optSec_wrote_false (d : Ini) (s : Str) (o : IniSec) : Wrote d d (optSec false s o) (optName false s) := by
  simpa [optSec, optName] using Wrote.refl d

theorem serChecksums_spec {cs : List (Str × Str × Str)} {d d' : Ini} (h : serChecksums cs d = .ok d') :
    Wrote d d' (optSec (!cs.isEmpty) sChecksums (checksumOpts cs)) (optName (!cs.isEmpty) sChecksums) ∧
      validateClass "treeinfo.Checksums" (checksumsObj cs) = .ok () := by
  unfold serChecksums at h
  obtain ⟨u, hv, h⟩ := bind_ok h
  refine ⟨?_, by cases u; exact hv⟩
  by_cases he : cs.isEmpty = true
  · simp only [he, if_true] at h
    injection h with h; subst h
    simpa [he] using optSec_wrote_false d sChecksums (checksumOpts cs)
  · simp only [he] at h
    obtain ⟨d1, ha, h⟩ := bind_ok h
    have := newSection_spec ha h
    simpa [he, optSec, optName, checksumOpts] using this

def imgFlat : List (Str × List (Str × Str)) → List (Str × IniSec)
  | [] => []
  | p :: ps => imgFlat ps ++ [(pImages ++ p.1, setsKV [] p.2)]

theorem serImagePlatforms_spec : ∀ (ps : List (Str × List (Str × Str))) (d d' : Ini),
    serImagePlatforms d ps = .ok d' → Wrote d d' (imgFlat ps) (ps.map fun p => pImages ++ p.1)
  | [], d, d', h => by
    simp only [serImagePlatforms] at h; injection h with h; subst h
    simpa [imgFlat] using Wrote.refl d
  | p :: ps, d, d', h => by
    simp only [serImagePlatforms] at h
    split at h
    · cases h
    · rename_i d1 ha
      split at h
      · cases h
      · rename_i d2 hs
        have w1 := newSection_spec ha hs
        have w2 := serImagePlatforms_spec ps d2 d' h
        simpa [imgFlat] using w1.trans w2

theorem serImages_spec {images : List (Str × List (Str × Str))} {plats : List Str} {d d' : Ini}
    (h : serImages images plats d = .ok d') :
    Wrote d d' (imgFlat images) (images.map fun p => pImages ++ p.1) ∧
      (images.isEmpty = false → validateClass "treeinfo.Images" (imagesObj images plats) = .ok ()) := by
  unfold serImages at h
  by_cases he : images.isEmpty = true
  · simp only [he, if_true] at h
    injection h with h; subst h
    have : images = [] := by simpa using he
    subst this
    exact ⟨by simpa [imgFlat] using Wrote.refl d, by simp⟩
  · simp only [he] at h
    obtain ⟨u, hv, h⟩ := bind_ok h
    exact ⟨serImagePlatforms_spec images d d' h, fun _ => by cases u; exact hv⟩

def stage2On (m i : Option Str) : Bool := optTruthy m || optTruthy i

def stage2Opts (m i : Option Str) : IniSec :=
  setsKV [] ((if optTruthy m then [(kMainimage, m.getD [])] else [])
      ++ (if optTruthy i then [(kInstimage, i.getD [])] else []))

theorem serStage2_spec {m i : Option Str} {d d' : Ini} (h : serStage2 m i d = .ok d') :
    Wrote d d' (optSec (stage2On m i) sStage2 (stage2Opts m i)) (optName (stage2On m i) sStage2) := by
  unfold serStage2 at h
  by_cases he : (!optTruthy m && !optTruthy i) = true
  · simp only [he, if_true] at h
    injection h with h; subst h
    have : stage2On m i = false := by
      simp only [Bool.and_eq_true, Bool.not_eq_true'] at he
      simp [stage2On, he.1, he.2]
    simpa [this] using optSec_wrote_false d sStage2 (stage2Opts m i)
  · simp only [he] at h
    obtain ⟨_, _, h⟩ := bind_ok h
    obtain ⟨d1, ha, h⟩ := bind_ok h
    have hon : stage2On m i = true := by
      cases hm : optTruthy m <;> cases hi : optTruthy i <;> simp_all [stage2On]
    have := newSection_spec ha h
    simpa [hon, optSec, optName, stage2Opts] using this

def mediaOn (a b : Option Int) : Bool := intTruthy a || intTruthy b

def mediaOpts (a b : Option Int) : IniSec :=
  setsKV [] [(kDiscnum, Str.intStr (a.getD 0)), (kTotaldiscs, Str.intStr (b.getD 0))]

theorem serMedia_spec {a b : Option Int} {d d' : Ini} (h : serMedia a b d = .ok d') :
    Wrote d d' (optSec (mediaOn a b) sMedia (mediaOpts a b)) (optName (mediaOn a b) sMedia) ∧
      (mediaOn a b = true → a.isSome ∧ b.isSome) := by
  unfold serMedia at h
  by_cases he : (!intTruthy a && !intTruthy b) = true
  · simp only [he, if_true] at h
    injection h with h; subst h
    have : mediaOn a b = false := by
      simp only [Bool.and_eq_true, Bool.not_eq_true'] at he
      simp [mediaOn, he.1, he.2]
    exact ⟨by simpa [this] using optSec_wrote_false d sMedia (mediaOpts a b), by simp [this]⟩
  · simp only [he] at h
    obtain ⟨_, _, h⟩ := bind_ok h
    obtain ⟨d1, ha, h⟩ := bind_ok h
    have hon : mediaOn a b = true := by
      cases hm : intTruthy a <;> cases hi : intTruthy b <;> simp_all [mediaOn]
    cases a with
    | none => cases b <;> cases h
    | some x =>
      cases b with
      | none => cases h
      | some y =>
        have := newSection_spec ha h
        exact ⟨by simpa [hon, optSec, optName, mediaOpts] using this, fun _ => by simp⟩

theorem Wrote.setSingle {d d' d'' : Ini} {s k v : Str} {o : IniSec} (w : Wrote d d' [(s, o)] [s])
    (hs : Ini.set d' s k v = .ok d'') : Wrote d d'' [(s, setKV k v o)] [s] := by
  have := w.setLater (s := s) (o := o) (by simp [lookup_cons_eq]) hs
  simpa [setKV] using this

/-! ### `[general]` -/

def generalBase (t : TreeInfo) : IniSec :=
  setsKV []
    [(kWarn0, vWarn0),
     (kWarn1, vWarn1),
     (kName, t.release.name ++ ' ' :: t.release.version),
     (kFamily, t.release.name),
     (kVersion, t.release.version),
     (kArch, t.tree.arch),
     (kPlatforms, platformsStr t.tree)]

def withOpt (k : Str) (v : Option Str) (g : IniSec) : IniSec := match v with | some p => setKV k p g | none => g

/-- the final options of `[general]` -/
def generalOpts (t : TreeInfo) (n : Int) (key : Str) (v : Variant) : IniSec :=
  withOpt kRepository (generalPath t.tree.arch v.paths "repository".toList "source_repository".toList)
    (withOpt kPackagedir (generalPath t.tree.arch v.paths "packages".toList "source_packages".toList)
      (setKV tVariant key
        (setKV kVariants (Str.joinWith ',' (Ini.sortS (t.variants.map Variant.key)))
          (setKV kTimestamp (Str.intStr n) (generalBase t)))))

theorem serGeneral_spec {t : TreeInfo} {mv : Option Str} {d d' : Ini} (h : serGeneral t mv d = .ok d') :
    ∃ n key v, t.tree.ts.toInt = .ok n ∧ chosenKey t.variants mv = .ok key ∧
      getItem (key.length + 1) t.variants key = .ok v ∧ Wrote d d' [(sGeneral, generalOpts t n key v)] [sGeneral] := by
  unfold serGeneral at h
  obtain ⟨d1, ha, h⟩ := bind_ok h
  obtain ⟨d2, hs, h⟩ := bind_ok h
  obtain ⟨n, hn, h⟩ := bind_ok h
  obtain ⟨d3, h3, h⟩ := bind_ok h
  obtain ⟨d4, h4, h⟩ := bind_ok h
  obtain ⟨key, hkey, h⟩ := bind_ok h
  obtain ⟨d5, h5, h⟩ := bind_ok h
  obtain ⟨v, hv, h⟩ := bind_ok h
  obtain ⟨d6, h6, h⟩ := bind_ok h
  have w2 : Wrote d d2 [(sGeneral, generalBase t)] [sGeneral] := newSection_spec ha hs
  have w5 := ((w2.setSingle h3).setSingle h4).setSingle h5
  refine ⟨n, key, v, hn, hkey, hv, ?_⟩
  unfold generalOpts
  cases hp : generalPath t.tree.arch v.paths "packages".toList "source_packages".toList with
  | none =>
    simp only [hp, setOpt] at h6
    injection h6 with h6; subst h6
    cases hr : generalPath t.tree.arch v.paths "repository".toList "source_repository".toList with
    | none =>
      simp only [hr, setOpt] at h
      injection h with h; subst h
      simpa [withOpt] using w5
    | some r =>
      simp only [hr, setOpt] at h
      simpa [withOpt] using w5.setSingle h
  | some pk =>
    simp only [hp, setOpt] at h6
    have w6 := w5.setSingle h6
    cases hr : generalPath t.tree.arch v.paths "repository".toList "source_repository".toList with
    | none =>
      simp only [hr, setOpt] at h
      injection h with h; subst h
      simpa [withOpt] using w6
    | some r =>
      simp only [hr, setOpt] at h
      simpa [withOpt] using w6.setSingle h

/-! ### the whole document -/

def baseL (t : TreeInfo) : List (Str × IniSec) :=
  if t.isLayered then (match t.baseProduct with | some p => [(sBase, baseOpts' p)] | none => []) else []

def treeOptsFull (t : TreeInfo) : IniSec :=
  setKV kVariants (Str.joinWith ',' (Ini.sortS (t.variants.map Variant.uid))) (treeOpts t.tree)

/-- every section of the written document with its final options (later-written first) -/
def docList (t : TreeInfo) (g : IniSec) : List (Str × IniSec) :=
  [(sGeneral, g)] ++ (optSec (mediaOn t.discnum t.totaldiscs) sMedia (mediaOpts t.discnum t.totaldiscs)
  ++ (optSec (stage2On t.mainimage t.instimage) sStage2 (stage2Opts t.mainimage t.instimage)
  ++ (imgFlat t.images
  ++ (optSec (!t.checksums.isEmpty) sChecksums (checksumOpts t.checksums)
  ++ (flatVs none t.variants
  ++ ([(sTree, treeOptsFull t)] ++ (baseL t ++ ([(sRelease, releaseOpts t.release t.isLayered)] ++ [(sHeader, headerOpts)]))))))))

/-- what a successful `serialize` establishes -/
structure Written (t : TreeInfo) (mv : Option Str) (d : Ini) (n : Int) (key : Str) (chosen : Variant) : Prop where
  hn : t.tree.ts.toInt = .ok n
  hkey : chosenKey t.variants mv = .ok key
  hchosen : getItem (key.length + 1) t.variants key = .ok chosen
  look : ∀ s, d.lookup s = (docList t (generalOpts t n key chosen)).lookup s
  nodup : ((docList t (generalOpts t n key chosen)).map (·.1)).Nodup
  length : d.length = (docList t (generalOpts t n key chosen)).length
  names : (d.map (·.1)).Perm ((docList t (generalOpts t n key chosen)).map (·.1))
  layered : t.isLayered = true → t.baseProduct.isSome
  media : mediaOn t.discnum t.totaldiscs = true → t.discnum.isSome ∧ t.totaldiscs.isSome

theorem serialize_spec {t : TreeInfo} {mv : Option Str} {d : Ini} (h : serialize t mv = .ok d) :
    ∃ n key chosen, Written t mv d n key chosen := by
  unfold serialize at h
  obtain ⟨_, _, h⟩ := bind_ok h
  unfold serializeInto at h
  obtain ⟨_, _, h⟩ := bind_ok h
  obtain ⟨d1, h1, h⟩ := bind_ok h
  obtain ⟨d2, h2, h⟩ := bind_ok h
  obtain ⟨d3, h3, h⟩ := bind_ok h
  obtain ⟨d4, h4, h⟩ := bind_ok h
  obtain ⟨d5, h5, h⟩ := bind_ok h
  obtain ⟨d6, h6, h⟩ := bind_ok h
  obtain ⟨d7, h7, h⟩ := bind_ok h
  obtain ⟨d8, h8, h⟩ := bind_ok h
  obtain ⟨d9, h9, h⟩ := bind_ok h
  have w1 := serHeader_spec h1
  have w2 := (serRelease_spec h2).1
  -- base product
  have hb : Wrote d2 d3 (baseL t) (baseL t |>.map (·.1)) ∧ (t.isLayered = true → t.baseProduct.isSome) := by
    unfold serBaseIf at h3
    by_cases hl : t.isLayered = true
    · simp only [hl, if_true] at h3
      obtain ⟨p, hp, wb, _⟩ := serBase_spec h3
      exact ⟨by simpa [baseL, hl, hp] using wb, fun _ => by simp [hp]⟩
    · simp only [hl] at h3
      injection h3 with h3; subst h3
      exact ⟨by simpa [baseL, hl] using Wrote.refl d2, fun e => absurd e hl⟩
  have w3 := hb.1
  have w4 := (serTree_spec h4).1
  -- [tree] variants, then the forest
  unfold serTops at h5
  obtain ⟨_, _, h5⟩ := bind_ok h5
  obtain ⟨d4', h4', h5⟩ := bind_ok h5
  have w4acc := ((w1.trans w2).trans w3).trans w4
  have w4set0 := w4acc.setLater (s := sTree) (o := treeOpts t.tree) (by simp [lookup_cons_eq]) h4'
  have w4set : Wrote [] d4' ([(sTree, treeOptsFull t)] ++ (baseL t ++ ([(sRelease, releaseOpts t.release t.isLayered)]
      ++ [(sHeader, headerOpts)]))) ((([sHeader] ++ [sRelease]) ++ (baseL t).map (·.1)) ++ [sTree]) := by
    simpa [setKV, treeOptsFull] using w4set0
  have w5 := serVariants_spec t.variants none d4' d5 h5
  have w6 := (serChecksums_spec h6).1
  have w7 := (serImages_spec h7).1
  have w8 := serStage2_spec h8
  have hm := serMedia_spec h9
  obtain ⟨n, key, chosen, hn, hkey, hchosen, wg⟩ := serGeneral_spec h
  have wall := (((((w4set.trans w5).trans w6).trans w7).trans w8).trans hm.1).trans wg
  refine ⟨n, key, chosen, hn, hkey, hchosen, ?_, wall.nodup, ?_, ?_, hb.2, hm.2⟩
  · intro s
    rw [wall.look]; simp [docList]
  rotate_left
  · have := wall.names
    simp only [List.map_nil, List.nil_append] at this
    rw [this]; exact wall.perm
  · have := congrArg List.length wall.names
    simp only [List.map_nil, List.nil_append, List.length_map] at this
    rw [this, wall.perm.length_eq, List.length_map]; rfl

end TI
end PM
