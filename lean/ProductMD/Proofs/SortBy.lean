import ProductMD.Model.Ini
import ProductMD.Proofs.SortK
/-!
Facts about the stable insertion sort `Ini.sortBy` (model of `sorted(...)` / `SortedDict` iteration):
permutation, sortedness, canonical order, commutation with key-compatible maps and with filters, prefixing.
Core Lean only.
-/
namespace PM
namespace Ini

variable {α β : Type}

theorem insertBy_perm (key : α → Str) (x : α) : ∀ l, (insertBy key x l).Perm (x :: l) := by
  intro l
  induction l with
  | nil => simp [insertBy]
  | cons y ys ih =>
    simp only [insertBy]
    split
    · exact (List.Perm.cons y ih).trans (List.Perm.swap x y ys)
    · exact List.Perm.refl _

theorem sortBy_perm (key : α → Str) : ∀ l : List α, (sortBy key l).Perm l := by
  intro l
  induction l with
  | nil => simp [sortBy]
  | cons x xs ih =>
    simp only [sortBy, List.foldr_cons]
    exact (insertBy_perm key x _).trans (List.Perm.cons x ih)

theorem mem_sortBy (key : α → Str) (l : List α) (x : α) : x ∈ sortBy key l ↔ x ∈ l := (sortBy_perm key l).mem_iff

theorem length_sortBy (key : α → Str) (l : List α) : (sortBy key l).length = l.length := (sortBy_perm key l).length_eq

theorem sortBy_nil (key : α → Str) : sortBy key ([] : List α) = [] := rfl

theorem sortBy_eq_nil (key : α → Str) (l : List α) : sortBy key l = [] ↔ l = [] := by
  constructor
  · intro h
    have := length_sortBy key l
    rw [h] at this
    exact List.eq_nil_of_length_eq_zero this.symm
  · intro h; subst h; rfl

def KeyLe (key : α → Str) (a b : α) : Prop := key a ≤ key b

theorem insertBy_sorted (key : α → Str) (x : α) : ∀ l, l.Pairwise (KeyLe key) → (insertBy key x l).Pairwise (KeyLe key) := by
  intro l
  induction l with
  | nil => intro _; simp [insertBy]
  | cons y ys ih =>
    intro h
    simp only [insertBy]
    have hy := List.pairwise_cons.mp h
    cases hlt : Str.lt (key y) (key x) with
    | true =>
      have hle : key y ≤ key x := by
        simp only [Str.lt, decide_eq_true_eq] at hlt; exact List.le_of_lt hlt
      simp only [if_true]
      refine List.pairwise_cons.mpr ⟨?_, ih hy.2⟩
      intro z hz
      rcases List.mem_cons.mp ((insertBy_perm key x ys).mem_iff.mp hz) with hz | hz
      · subst hz; exact hle
      · exact hy.1 z hz
    | false =>
      have hle : key x ≤ key y := by
        simp only [Str.lt, decide_eq_false_iff_not] at hlt; exact List.not_lt.mp hlt
      simp only [Bool.false_eq_true, if_false]
      refine List.pairwise_cons.mpr ⟨?_, h⟩
      intro z hz
      cases hz with
      | head => exact hle
      | tail _ hz' => exact List.le_trans hle (hy.1 z hz')

theorem sortBy_sorted (key : α → Str) : ∀ l : List α, (sortBy key l).Pairwise (KeyLe key) := by
  intro l
  induction l with
  | nil => simp [sortBy]
  | cons x xs ih =>
    simp only [sortBy, List.foldr_cons]
    exact insertBy_sorted key x _ ih

/-- two permutations with pairwise distinct keys sort to the same list -/
theorem sortBy_perm_eq (key : α → Str) {l₁ l₂ : List α} (hp : l₁.Perm l₂) (hd : (l₁.map key).Nodup) :
    sortBy key l₁ = sortBy key l₂ := by
  have perm : (sortBy key l₁).Perm (sortBy key l₂) := (sortBy_perm key l₁).trans (hp.trans (sortBy_perm key l₂).symm)
  apply List.Perm.eq_of_pairwise (le := KeyLe key) _ (sortBy_sorted key l₁) (sortBy_sorted key l₂) perm
  intro a b ha hb hab hba
  have hkey : key a = key b := List.le_antisymm hab hba
  have ha' : a ∈ l₁ := (sortBy_perm key l₁).mem_iff.mp ha
  have hb' : b ∈ l₁ := hp.mem_iff.mpr ((sortBy_perm key l₂).mem_iff.mp hb)
  exact inj_of_nodup_map' key hd ha' hb' hkey

/-- sorting plain strings is canonical for any two permutations -/
theorem sortS_perm_eq {l₁ l₂ : List Str} (hp : l₁.Perm l₂) : sortS l₁ = sortS l₂ := by
  unfold sortS
  have perm : (sortBy id l₁).Perm (sortBy id l₂) := (sortBy_perm id l₁).trans (hp.trans (sortBy_perm id l₂).symm)
  apply List.Perm.eq_of_pairwise (le := KeyLe id) _ (sortBy_sorted id l₁) (sortBy_sorted id l₂) perm
  intro a b _ _ hab hba
  exact List.le_antisymm hab hba

/-- a list that is already sorted is left alone -/
theorem insertBy_of_le (key : α → Str) (x : α) : ∀ l : List α, (∀ y ∈ l, key x ≤ key y) → insertBy key x l = x :: l := by
  intro l h
  cases l with
  | nil => rfl
  | cons y ys =>
    have hy := h y (List.mem_cons_self ..)
    have : Str.lt (key y) (key x) = false := by
      simp only [Str.lt, decide_eq_false_iff_not]; exact List.not_lt.mpr hy
    simp [insertBy, this]

theorem sortBy_of_sorted (key : α → Str) : ∀ l : List α, l.Pairwise (KeyLe key) → sortBy key l = l := by
  intro l
  induction l with
  | nil => intro _; rfl
  | cons x xs ih =>
    intro h
    have hx := List.pairwise_cons.mp h
    simp only [sortBy, List.foldr_cons]
    have : List.foldr (insertBy key) [] xs = xs := ih hx.2
    rw [this]
    exact insertBy_of_le key x xs hx.1

theorem sortBy_idem (key : α → Str) (l : List α) : sortBy key (sortBy key l) = sortBy key l :=
  sortBy_of_sorted key _ (sortBy_sorted key l)

/-- sorting commutes with a map that preserves the order of keys -/
theorem insertBy_map (key : α → Str) (key' : β → Str) (f : α → β)
    (hf : ∀ a b, Str.lt (key' (f a)) (key' (f b)) = Str.lt (key a) (key b)) (x : α) :
    ∀ l, insertBy key' (f x) (l.map f) = (insertBy key x l).map f := by
  intro l
  induction l with
  | nil => rfl
  | cons y ys ih =>
    simp only [List.map_cons, insertBy, hf]
    split <;> simp [ih]

theorem sortBy_map (key : α → Str) (key' : β → Str) (f : α → β)
    (hf : ∀ a b, Str.lt (key' (f a)) (key' (f b)) = Str.lt (key a) (key b)) :
    ∀ l, sortBy key' (l.map f) = (sortBy key l).map f := by
  intro l
  induction l with
  | nil => rfl
  | cons x xs ih =>
    simp only [List.map_cons, sortBy, List.foldr_cons]
    have : List.foldr (insertBy key') [] (xs.map f) = (List.foldr (insertBy key) [] xs).map f := ih
    rw [this, insertBy_map key key' f hf]

/-- the sorted keys are the keys of the sorted list -/
theorem sortS_map_key (key : α → Str) (l : List α) : sortS (l.map key) = (sortBy key l).map key :=
  sortBy_map key id key (fun _ _ => rfl) l

/-- sorting commutes with a key-preserving map -/
theorem sortBy_map_same (key : α → Str) (key' : β → Str) (f : α → β) (hf : ∀ a, key' (f a) = key a) (l : List α) :
    sortBy key' (l.map f) = (sortBy key l).map f :=
  sortBy_map key key' f (fun a b => by rw [hf, hf]) l

theorem insertBy_filter (key : α → Str) (p : α → Bool) (x : α) :
    ∀ l, l.Pairwise (KeyLe key) →
      (insertBy key x l).filter p = if p x then insertBy key x (l.filter p) else l.filter p := by
  intro l
  induction l with
  | nil => intro _; cases hp : p x <;> simp [insertBy, hp]
  | cons y ys ih =>
    intro hs
    have hy' := List.pairwise_cons.mp hs
    simp only [insertBy]
    cases hlt : Str.lt (key y) (key x) with
    | true =>
      simp only [if_true, List.filter_cons, ih hy'.2]
      cases hy : p y <;> cases hx : p x <;> simp [insertBy, hlt]
    | false =>
      have hle : key x ≤ key y := by
        simp only [Str.lt, decide_eq_false_iff_not] at hlt; exact List.not_lt.mp hlt
      simp only [Bool.false_eq_true, if_false, List.filter_cons]
      cases hy : p y <;> cases hx : p x <;> simp [insertBy, hlt]
      -- `y` is dropped: `x` still goes in front of everything that is kept
      exact (insertBy_of_le key x _ (fun z hz => List.le_trans hle (hy'.1 z (List.mem_filter.mp hz).1))).symm

theorem sortBy_filter (key : α → Str) (p : α → Bool) : ∀ l, (sortBy key l).filter p = sortBy key (l.filter p) := by
  intro l
  induction l with
  | nil => rfl
  | cons x xs ih =>
    have hs := sortBy_sorted key xs
    simp only [sortBy, List.foldr_cons] at ih hs ⊢
    rw [insertBy_filter key p x _ hs, ih]
    cases hx : p x <;> simp [List.filter_cons, hx]

/-- a common prefix does not change the order -/
theorem lt_prefix (p a b : Str) : Str.lt (p ++ a) (p ++ b) = Str.lt a b := by
  induction p with
  | nil => rfl
  | cons c cs ih =>
    simp only [Str.lt, List.cons_append] at ih ⊢
    have : (c :: (cs ++ a) < c :: (cs ++ b)) ↔ (cs ++ a < cs ++ b) := by
      constructor
      · intro h
        rcases List.cons_lt_cons_iff.mp h with h | ⟨_, h⟩
        · exact absurd h (Char.lt_irrefl c)
        · exact h
      · intro h
        exact List.cons_lt_cons_iff.mpr (Or.inr ⟨rfl, h⟩)
    rw [decide_eq_decide.mpr this, ih]

theorem sortS_map_prefix (p : Str) (l : List Str) : sortS (l.map (p ++ ·)) = (sortS l).map (p ++ ·) :=
  sortBy_map id id (p ++ ·) (fun a b => lt_prefix p a b) l

theorem nodup_map_sortBy (key : α → Str) (f : α → β) (l : List α) (h : (l.map f).Nodup) : ((sortBy key l).map f).Nodup :=
  ((sortBy_perm key l).map f).nodup_iff.mpr h

/-! wrappers for dictionaries -/
theorem mem_sortKV {γ : Type} (l : List (Str × γ)) (x : Str × γ) : x ∈ sortKV l ↔ x ∈ l := mem_sortBy _ l x
theorem mem_sortS (l : List Str) (x : Str) : x ∈ sortS l ↔ x ∈ l := mem_sortBy _ l x
theorem sortKV_perm {γ : Type} (l : List (Str × γ)) : (sortKV l).Perm l := sortBy_perm _ l
theorem sortS_perm (l : List Str) : (sortS l).Perm l := sortBy_perm _ l
theorem nodup_keys_sortKV {γ : Type} (l : List (Str × γ)) (h : (l.map (·.1)).Nodup) : ((sortKV l).map (·.1)).Nodup :=
  nodup_map_sortBy _ _ l h
theorem sortKV_map_same {γ δ : Type} (f : Str × γ → Str × δ) (hf : ∀ a, (f a).1 = a.1) (l : List (Str × γ)) :
    sortKV (l.map f) = (sortKV l).map f := by
  unfold sortKV
  exact sortBy_map_same (fun x : Str × γ => x.1) (fun x : Str × δ => x.1) f hf l
theorem sortKV_idem {γ : Type} (l : List (Str × γ)) : sortKV (sortKV l) = sortKV l := sortBy_idem _ l
theorem sortKV_nil {γ : Type} : sortKV ([] : List (Str × γ)) = [] := rfl

end Ini
end PM
