import ProductMD.Proofs.TreeInfoText
/-!
The Boolean criterion `IniText.Representable` (what the driver reports per case) implies the hypothesis `TextOK`
of the text-level theorems, for CPython's blank predicate `Str.isPySpace`.
-/
namespace PM
namespace TI
open Ini IniText

/-- the written document can travel as text (see `C04_tree_text`) -/
def TextOK (sp : Char → Bool) (d : Ini) : Prop :=
  IniParse.NoNewlines (IniText.canon d) ∧ IniParse.Representable sp (readDoc d)

theorem spOK_py : IniParse.SpOK Str.isPySpace := ⟨by decide, by decide, by decide, by decide, by decide⟩
theorem py_hash : Str.isPySpace '#' = false := by decide
theorem py_semi : Str.isPySpace ';' = false := by decide

theorem nodupKeys_sound {α} : ∀ l : List (Str × α), nodupKeys l = true → (l.map (·.1)).Nodup
  | [], _ => List.nodup_nil
  | x :: xs, h => by
    simp only [nodupKeys, Bool.and_eq_true, Bool.not_eq_true', List.any_eq_false, beq_iff_eq] at h
    simp only [List.map_cons, List.nodup_cons, List.mem_map, not_exists, not_and]
    exact ⟨fun y hy e => h.1 y hy e, nodupKeys_sound xs h.2⟩

theorem singleLine_sound {s : Str} (h : singleLine s = true) : '\n' ∉ s := by
  unfold singleLine at h
  intro hm
  simp at h
  exact h hm

theorem noOuterBlank_sound {s : Str} (h : noOuterBlank s = true) :
    IniParse.StartsOk Str.isPySpace s ∧ IniParse.EndsOk Str.isPySpace s := by
  cases s with
  | nil => exact ⟨IniParse.startsOk_nil, IniParse.endsOk_nil⟩
  | cons c t =>
    simp only [noOuterBlank, Bool.and_eq_true, Bool.not_eq_true'] at h
    constructor
    · intro c' t' e; injection e with e1 _; rw [← e1]; exact h.1
    · intro i c' e
      have hl : (c :: t).getLast? = some c' := by rw [e]; simp
      rw [hl] at h
      exact h.2

theorem not_contains {s : Str} {c : Char} (h : (!s.contains c) = true) : c ∉ s := by
  intro hm; simp at h; exact h hm

theorem nameOK_sound {k : Str} (h : nameOK k = true) : IniParse.KeyOk Str.isPySpace k := by
  simp only [nameOK, Bool.and_eq_true] at h
  obtain ⟨⟨⟨⟨⟨h1, h2⟩, h3⟩, h4⟩, h5⟩, h6⟩ := h
  obtain ⟨hs, he⟩ := noOuterBlank_sound h3
  refine ⟨?_, singleLine_sound h2, ?_, hs, he, ?_⟩
  · intro e; subst e; simp at h1
  · intro c hc
    have n1 := not_contains h4
    have n2 := not_contains h5
    simp only [IniParse.isDelim, Bool.or_eq_false_iff, beq_eq_false_iff_ne, ne_eq]
    exact ⟨fun e => n1 (e ▸ hc), fun e => n2 (e ▸ hc)⟩
  · intro c t e
    subst e
    simp only [Str.startsWith, List.isPrefixOf, Bool.and_true, Bool.not_eq_true', Bool.or_eq_false_iff, beq_eq_false_iff_ne, ne_eq] at h6
    exact ⟨fun e => h6.1.1 e.symm, fun e => h6.1.2 e.symm, fun e => h6.2 e.symm⟩

theorem valueOK_sound {v : Str} (h : valueOK v = true) : IniParse.ValOk Str.isPySpace v := by
  simp only [valueOK, Bool.and_eq_true] at h
  obtain ⟨hs, he⟩ := noOuterBlank_sound h.2
  exact ⟨singleLine_sound h.1, hs, he⟩

/-- **the decidable criterion is sufficient** -/
theorem textOK_of_representable (d : Ini) (h : IniText.Representable d = true) : TextOK Str.isPySpace d := by
  simp only [IniText.Representable, Bool.and_eq_true, List.all_eq_true] at h
  obtain ⟨hnd, hsec⟩ := h
  have hopt : ∀ s0 ∈ d, ∀ kv ∈ s0.2, '\n' ∉ kv.1 ∧ '\n' ∉ kv.2 ∧
      (isCommentName kv.1 = false → IniParse.KeyOk Str.isPySpace kv.1 ∧ IniParse.ValOk Str.isPySpace kv.2) := by
    intro s0 hs0 kv hkv
    have := (hsec s0 hs0).2 kv hkv
    simp only [Bool.or_eq_true, Bool.and_eq_true] at this
    rcases this with ⟨⟨⟨hc, _⟩, h1⟩, h2⟩ | ⟨h1, h2⟩
    · exact ⟨singleLine_sound h1, singleLine_sound h2, fun e => by rw [e] at hc; cases hc⟩
    · have hk := nameOK_sound h1
      have hv := valueOK_sound h2
      exact ⟨hk.2.1, hv.1, fun _ => ⟨hk, hv⟩⟩
  have hname : ∀ s0 ∈ d, s0.1 ≠ [] ∧ '\n' ∉ s0.1 ∧ s0.1 ≠ "DEFAULT".toList := by
    intro s0 hs0
    have := (hsec s0 hs0).1.1
    simp only [secNameOK, Bool.and_eq_true, Bool.not_eq_true', bne_iff_ne, ne_eq] at this
    refine ⟨?_, singleLine_sound this.1.2, this.2⟩
    intro e; rw [e] at this; simp at this
  constructor
  · intro s hs
    simp only [IniText.canon, List.mem_map] at hs
    obtain ⟨s0, hs0, rfl⟩ := hs
    have hs0' := (mem_sortKV _ _).mp hs0
    exact ⟨(hname s0 hs0').2.1, fun kv hkv => by
      have := hopt s0 hs0' kv ((mem_sortKV _ _).mp hkv)
      exact ⟨this.1, this.2.1⟩⟩
  · constructor
    · intro s hs
      simp only [readDoc, IniText.dropComments, IniText.canon, List.mem_map] at hs
      obtain ⟨s1, ⟨s0, hs0, rfl⟩, rfl⟩ := hs
      have hs0' := (mem_sortKV _ _).mp hs0
      refine ⟨hname s0 hs0', ?_, ?_⟩
      · intro kv hkv
        obtain ⟨hm, hc⟩ := List.mem_filter.mp hkv
        have := hopt s0 hs0' kv ((mem_sortKV _ _).mp hm)
        exact this.2.2 (by simpa using hc)
      · have h1 := nodupKeys_sound _ (hsec s0 hs0').1.2
        have h2 := nodup_keys_sortKV _ h1
        exact ((List.filter_sublist (l := sortKV s0.2)).map (·.1)).nodup h2
    · exact (readDoc_names d).nodup_iff.mpr (nodupKeys_sound d hnd)

end TI
end PM
