import ProductMD.Proofs.ImagesCanon5
import ProductMD.Proofs.JsonRoundTrip
/-!
The document `Images.serialize` builds is representable (`Mf.jsonRep`: JSON values only, no key bound twice) and its
numbers are read back by the parser (`JsonParse.numsOk lim`) — from hypotheses on the OBJECT: its validators pass, the
two container attributes hold JSON values, and its integers fit the interpreter's digit limit.
-/
namespace PM.Img
open PM PM.PyOps PM.Spec PM.Mf PM.JsonParse
set_option Elab.async false

theorem jsonRepKvs_of_nodup : ∀ (l : List (Str × PyVal)), (l.map (·.1)).Nodup → (∀ p ∈ l, jsonRep p.2 = true) → jsonRepKvs l = true := by
  intro l
  induction l with
  | nil => intro _ _; rfl
  | cons p rest ih =>
    intro hn hv
    obtain ⟨k, v⟩ := p
    simp only [List.map_cons, List.nodup_cons] at hn
    simp only [jsonRepKvs, Bool.and_eq_true, Bool.not_eq_true']
    refine ⟨⟨?_, hv (k, v) List.mem_cons_self⟩, ih hn.2 fun p hp => hv p (List.mem_cons_of_mem _ hp)⟩
    cases hk : hasKey rest k
    · rfl
    · exact absurd ((hasKey_iff_mem rest k).mp hk) hn.1

theorem numsOkKvs_of_all (lim : Nat) : ∀ (l : List (Str × PyVal)), (∀ p ∈ l, numsOk lim p.2 = true) → numsOkKvs lim l = true := by
  intro l
  induction l with
  | nil => intro _; rfl
  | cons p rest ih =>
    intro hv
    obtain ⟨k, v⟩ := p
    simp only [numsOkKvs, Bool.and_eq_true]
    exact ⟨hv (k, v) List.mem_cons_self, ih fun p hp => hv p (List.mem_cons_of_mem _ hp)⟩

theorem jsonRepList_of_all : ∀ (l : List PyVal), (∀ x ∈ l, jsonRep x = true) → jsonRepList l = true := by
  intro l
  induction l with
  | nil => intro _; rfl
  | cons x rest ih =>
    intro hv
    simp only [jsonRepList, Bool.and_eq_true]
    exact ⟨hv x List.mem_cons_self, ih fun y hy => hv y (List.mem_cons_of_mem _ hy)⟩

theorem numsOkList_of_all (lim : Nat) : ∀ (l : List PyVal), (∀ x ∈ l, numsOk lim x = true) → numsOkList lim l = true := by
  intro l
  induction l with
  | nil => intro _; rfl
  | cons x rest ih =>
    intro hv
    simp only [numsOkList, Bool.and_eq_true]
    exact ⟨hv x List.mem_cons_self, ih fun y hy => hv y (List.mem_cons_of_mem _ hy)⟩

/-- the integers of the image and the numbers inside its containers are read back under the digit limit `lim` -/
def NumsFit (lim : Nat) (i : Image) : Prop :=
  numsOk lim i.mtime = true ∧ numsOk lim i.size = true ∧ numsOk lim i.disc_number = true ∧ numsOk lim i.disc_count = true
  ∧ numsOk lim i.checksums = true ∧ numsOk lim i.additional_variants = true

/-- with the digit limit disabled only the containers matter (floats inside them must be proper float tokens) -/
theorem numsFit_zero (i : Image) (hp : ProperInts i) (hc : numsOk 0 i.checksums = true) (ha : numsOk 0 i.additional_variants = true) :
    NumsFit 0 i := by
  obtain ⟨⟨n1, h1⟩, ⟨n2, h2⟩, ⟨n3, h3⟩, ⟨n4, h4⟩⟩ := hp
  refine ⟨?_, ?_, ?_, ?_, hc, ha⟩ <;> simp only [h1, h2, h3, h4, numsOk, intFits_zero]

theorem image_dict_rep (lim : Nat) (i : Image) (hv : i.validate = .ok ()) (hp : ProperInts i) (hr : ContainersRep i) (hn : NumsFit lim i) :
    jsonRep i.dict = true ∧ numsOk lim i.dict = true := by
  obtain ⟨⟨p, h1⟩, ⟨ty, h2⟩, ⟨fm, h3⟩, ⟨ar, h4⟩, ⟨sv, h5⟩, hvol, himp, ⟨bb, h8⟩, ⟨b, h9⟩, _, _, _⟩ := typed_of_valid i hv
  obtain ⟨⟨m1, i1⟩, ⟨m2, i2⟩, ⟨m3, i3⟩, ⟨m4, i4⟩⟩ := hp
  obtain ⟨n1, n2, n3, n4, n5, n6⟩ := hn
  obtain ⟨r1, r2⟩ := hr
  cases i with
  | mk path mtime size volume_id type format arch disc_number disc_count ck implant_md5 bootable subvariant unified av =>
    simp only at h1 h2 h3 h4 h5 hvol himp h8 h9 n1 n2 n3 n4 n5 n6 r1 r2 i1 i2 i3 i4
    subst h1 h2 h3 h4 h5 h8 h9 i1 i2 i3 i4
    have jvol : jsonRep volume_id = true ∧ numsOk lim volume_id = true := by rcases hvol with rfl | ⟨s, rfl⟩ <;> exact ⟨rfl, rfl⟩
    have jimp : jsonRep implant_md5 = true ∧ numsOk lim implant_md5 = true := by rcases himp with rfl | ⟨s, rfl⟩ <;> exact ⟨rfl, rfl⟩
    cases b with
    | false =>
      constructor
      · show jsonRepKvs _ = true
        refine jsonRepKvs_of_nodup _ ?_ ?_
        · show ([L "path", L "mtime", L "size", L "volume_id", L "type", L "format", L "arch", L "disc_number", L "disc_count", L "checksums",
            L "implant_md5", L "bootable", L "subvariant"] : List Str).Nodup
          decide
        · intro q hq
          simp only [PyVal.truthy, Bool.false_eq_true, ↓reduceIte, List.mem_cons, List.not_mem_nil, or_false] at hq
          rcases hq with rfl | rfl | rfl | rfl | rfl | rfl | rfl | rfl | rfl | rfl | rfl | rfl | rfl
          all_goals first | rfl | exact jvol.1 | exact jimp.1 | exact r1
      · show numsOkKvs lim _ = true
        refine numsOkKvs_of_all lim _ ?_
        intro q hq
        simp only [PyVal.truthy, Bool.false_eq_true, ↓reduceIte, List.mem_cons, List.not_mem_nil, or_false] at hq
        rcases hq with rfl | rfl | rfl | rfl | rfl | rfl | rfl | rfl | rfl | rfl | rfl | rfl | rfl
        all_goals first | rfl | exact jvol.2 | exact jimp.2 | exact n1 | exact n2 | exact n3 | exact n4 | exact n5
    | true =>
      constructor
      · show jsonRepKvs _ = true
        refine jsonRepKvs_of_nodup _ ?_ ?_
        · show ([L "path", L "mtime", L "size", L "volume_id", L "type", L "format", L "arch", L "disc_number", L "disc_count", L "checksums",
            L "implant_md5", L "bootable", L "subvariant", L "unified", L "additional_variants"] : List Str).Nodup
          decide
        · intro q hq
          simp only [PyVal.truthy, ↓reduceIte, List.cons_append, List.nil_append, List.mem_cons, List.not_mem_nil, or_false] at hq
          rcases hq with rfl | rfl | rfl | rfl | rfl | rfl | rfl | rfl | rfl | rfl | rfl | rfl | rfl | rfl | rfl
          all_goals first | rfl | exact jvol.1 | exact jimp.1 | exact r1 | exact r2
      · show numsOkKvs lim _ = true
        refine numsOkKvs_of_all lim _ ?_
        intro q hq
        simp only [PyVal.truthy, ↓reduceIte, List.cons_append, List.nil_append, List.mem_cons, List.not_mem_nil, or_false] at hq
        rcases hq with rfl | rfl | rfl | rfl | rfl | rfl | rfl | rfl | rfl | rfl | rfl | rfl | rfl | rfl | rfl
        all_goals first | rfl | exact jvol.2 | exact jimp.2 | exact n1 | exact n2 | exact n3 | exact n4 | exact n5 | exact n6

/-! ### the compose section -/

theorem compose_dict_rep (lim : Nat) (c : Compose) (d : PyVal) (h : c.serialize = .ok d) (hn : numsOk lim c.respin = true) :
    jsonRep d = true ∧ numsOk lim d = true := by
  unfold Compose.serialize at h
  obtain ⟨u, hv, h⟩ := bind_ok h
  cases u
  injection h with h
  subst h
  have h' := hv
  rw [compose_validate_unfold] at h'
  have r := (runRules_ok_iff _ _ _).mp h'
  have t1 := r _ crule_id_mem
  have t2 := r _ crule_date_mem
  have t3 := r _ crule_respin_mem
  have t4 := r _ crule_type_mem
  have t5 := r _ rule_label_mem
  have t6 := r _ rule_final_mem
  cases c with
  | mk id type date respin label final =>
    simp only at hn
    have j1 : jsonRep id = true ∧ numsOk lim id = true := by
      cases id with
      | str s => exact ⟨rfl, rfl⟩
      | _ => exact absurd t1 (by intro h; cases h)
    have j2 : jsonRep type = true ∧ numsOk lim type = true := by
      cases type with
      | str s => exact ⟨rfl, rfl⟩
      | _ => exact absurd t4 (by intro h; cases h)
    have j3 : jsonRep date = true ∧ numsOk lim date = true := by
      cases date with
      | str s => exact ⟨rfl, rfl⟩
      | _ => exact absurd t2 (by intro h; cases h)
    have j4 : jsonRep respin = true := by
      cases respin with
      | int n => rfl
      | bool b => rfl
      | _ => exact absurd t3 (by intro h; cases h)
    cases hl : label.truthy
    · simp only [hl, Bool.false_eq_true, ↓reduceIte]
      constructor
      · show jsonRepKvs _ = true
        refine jsonRepKvs_of_nodup _ (by show ([L "id", L "type", L "date", L "respin"] : List Str).Nodup; decide) ?_
        intro q hq
        simp only [List.mem_cons, List.not_mem_nil, or_false] at hq
        rcases hq with rfl | rfl | rfl | rfl
        all_goals first | exact j1.1 | exact j2.1 | exact j3.1 | exact j4
      · show numsOkKvs lim _ = true
        refine numsOkKvs_of_all lim _ ?_
        intro q hq
        simp only [List.mem_cons, List.not_mem_nil, or_false] at hq
        rcases hq with rfl | rfl | rfl | rfl
        all_goals first | exact j1.2 | exact j2.2 | exact j3.2 | exact hn
    · have j5 : jsonRep label = true ∧ numsOk lim label = true := by
        cases label with
        | none => exact ⟨rfl, rfl⟩
        | str s => exact ⟨rfl, rfl⟩
        | _ => exact absurd t5 (by intro h; cases h)
      have j6 : jsonRep final = true ∧ numsOk lim final = true := by
        cases label with
        | str s =>
          cases s with
          | nil => simp [PyVal.truthy] at hl
          | cons ch rest =>
            cases final with
            | bool b => exact ⟨rfl, rfl⟩
            | _ => exact absurd t6 (by intro h; cases h)
        | none => simp [PyVal.truthy] at hl
        | _ => exact absurd t5 (by intro h; cases h)
      simp only [hl, ↓reduceIte]
      constructor
      · show jsonRepKvs _ = true
        refine jsonRepKvs_of_nodup _ (by show ([L "id", L "type", L "date", L "respin", L "label", L "final"] : List Str).Nodup; decide) ?_
        intro q hq
        simp only [List.cons_append, List.nil_append, List.mem_cons, List.not_mem_nil, or_false] at hq
        rcases hq with rfl | rfl | rfl | rfl | rfl | rfl
        all_goals first | exact j1.1 | exact j2.1 | exact j3.1 | exact j4 | exact j5.1 | exact j6.1
      · show numsOkKvs lim _ = true
        refine numsOkKvs_of_all lim _ ?_
        intro q hq
        simp only [List.cons_append, List.nil_append, List.mem_cons, List.not_mem_nil, or_false] at hq
        rcases hq with rfl | rfl | rfl | rfl | rfl | rfl
        all_goals first | exact j1.2 | exact j2.2 | exact j3.2 | exact hn | exact j5.2 | exact j6.2

/-! ### the image table and the whole document -/

theorem toPy_rep (lim : Nat) (o : OutCells) (hN : OutNodup o)
    (hd : ∀ t ∈ outTriples o, jsonRep t.2.2 = true ∧ numsOk lim t.2.2 = true) :
    jsonRep o.toPy = true ∧ numsOk lim o.toPy = true := by
  rw [toPy_eq]
  have hcell : ∀ va ∈ o, ∀ al ∈ va.2, ∀ d ∈ al.2, jsonRep d = true ∧ numsOk lim d = true := by
    intro va hva al hal d hd'
    apply hd (va.1, al.1, d)
    simp only [outTriples, archTriples, List.mem_flatMap, List.mem_map]
    exact ⟨va, hva, al, hal, d, hd', rfl⟩
  have harch : ∀ va ∈ o, jsonRep (archsPy va.2) = true ∧ numsOk lim (archsPy va.2) = true := by
    intro va hva
    unfold archsPy
    constructor
    · show jsonRepKvs _ = true
      refine jsonRepKvs_of_nodup _ (by simpa [List.map_map, Function.comp_def] using hN.2 va hva) ?_
      intro q hq
      obtain ⟨al, hal, rfl⟩ := List.mem_map.mp hq
      show jsonRepList _ = true
      exact jsonRepList_of_all _ fun d hd' => (hcell va hva al hal d hd').1
    · show numsOkKvs lim _ = true
      refine numsOkKvs_of_all lim _ ?_
      intro q hq
      obtain ⟨al, hal, rfl⟩ := List.mem_map.mp hq
      show numsOkList lim _ = true
      exact numsOkList_of_all lim _ fun d hd' => (hcell va hva al hal d hd').2
  constructor
  · show jsonRepKvs _ = true
    refine jsonRepKvs_of_nodup _ (by simpa [List.map_map, Function.comp_def] using hN.1) ?_
    intro q hq
    obtain ⟨va, hva, rfl⟩ := List.mem_map.mp hq
    exact (harch va hva).1
  · show numsOkKvs lim _ = true
    refine numsOkKvs_of_all lim _ ?_
    intro q hq
    obtain ⟨va, hva, rfl⟩ := List.mem_map.mp hq
    exact (harch va hva).2

theorem header_rep (lim : Nat) :
    jsonRep (.dict [(L "type", .str Gen.HEADER_TYPE_Images), (L "version", .str currentVersion)]) = true
    ∧ numsOk lim (.dict [(L "type", .str Gen.HEADER_TYPE_Images), (L "version", .str currentVersion)]) = true := ⟨by decide +kernel, rfl⟩

/-- **the written document is representable and its numbers are read back**, from hypotheses on the object -/
theorem serialized_doc_rep (lim : Nat) (m : ImgState)
    (hi : ∀ i ∈ m.cells.all, i.validate = .ok () ∧ ProperInts i ∧ ContainersRep i ∧ NumsFit lim i)
    (hrespin : numsOk lim m.compose.respin = true) (cd : PyVal) (hcd : m.compose.serialize = .ok cd) :
    jsonRep (.dict [(L "header", .dict [(L "type", .str Gen.HEADER_TYPE_Images), (L "version", .str currentVersion)]),
        (L "payload", .dict [(L "images", (outFold (triples m.cells) []).toPy), (L "compose", cd)])]) = true
    ∧ numsOk lim (.dict [(L "header", .dict [(L "type", .str Gen.HEADER_TYPE_Images), (L "version", .str currentVersion)]),
        (L "payload", .dict [(L "images", (outFold (triples m.cells) []).toPy), (L "compose", cd)])]) = true := by
  have hON : OutNodup (outFold (triples m.cells) []) := outFold_nodup _ [] ⟨List.nodup_nil, fun _ h => by cases h⟩
  have hOP : (outTriples (outFold (triples m.cells) [])).Perm ((triples m.cells).map fun t => (t.1, t.2.1, t.2.2.dict)) := by
    have := outFold_perm (triples m.cells) []
    simpa [outTriples] using this
  have htab := toPy_rep lim _ hON (by
    intro t ht
    obtain ⟨u, hu, rfl⟩ := List.mem_map.mp (hOP.mem_iff.mp ht)
    have hm : u.2.2 ∈ m.cells.all := by rw [all_eq]; exact List.mem_map.mpr ⟨u, hu, rfl⟩
    obtain ⟨hv, hp, hr, hn⟩ := hi _ hm
    exact image_dict_rep lim u.2.2 hv hp hr hn)
  have hcomp := compose_dict_rep lim m.compose cd hcd hrespin
  have hh := header_rep lim
  generalize (outFold (triples m.cells) []).toPy = X at htab ⊢
  constructor
  · show jsonRepKvs _ = true
    refine jsonRepKvs_of_nodup _ (by show ([L "header", L "payload"] : List Str).Nodup; decide) ?_
    intro q hq
    simp only [List.mem_cons, List.not_mem_nil, or_false] at hq
    rcases hq with rfl | rfl
    · exact hh.1
    · show jsonRepKvs _ = true
      refine jsonRepKvs_of_nodup _ (by show ([L "images", L "compose"] : List Str).Nodup; decide) ?_
      intro q hq
      simp only [List.mem_cons, List.not_mem_nil, or_false] at hq
      rcases hq with rfl | rfl
      · exact htab.1
      · exact hcomp.1
  · show numsOkKvs lim _ = true
    refine numsOkKvs_of_all lim _ ?_
    intro q hq
    simp only [List.mem_cons, List.not_mem_nil, or_false] at hq
    rcases hq with rfl | rfl
    · exact hh.2
    · show numsOkKvs lim _ = true
      refine numsOkKvs_of_all lim _ ?_
      intro q hq
      simp only [List.mem_cons, List.not_mem_nil, or_false] at hq
      rcases hq with rfl | rfl
      · exact htab.2
      · exact hcomp.2

end PM.Img
