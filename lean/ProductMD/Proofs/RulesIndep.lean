import ProductMD.Proofs.ManifestIO
/-!
"Fields read" analysis for the rule interpreter: a rule list that looks at field `f` only under the guard
`if self.g:` gives the same verdict on two objects that differ only in `f` and have a falsy `g`.
Used for the compose section: `final` is validated only when a label is set, so dropping `final` together with an
absent label (what a write/read cycle does) cannot invalidate the section.
-/
namespace PM.Mf
open PM

def condReads : Cond → List Str
  | .tt => []
  | .truthy f => [f]
  | .notNone f => [f]
  | .reMatch _ f => [f]
  | .startsWith f _ => [f]
  | .contains f _ => [f]
  | .not c => condReads c
  | .and a b => condReads a ++ condReads b

theorem cond_congr (o1 o2 : Obj) (c : Cond) (h : ∀ x ∈ condReads c, o1.get x = o2.get x) :
    c.eval o1 = c.eval o2 ∧ c.wellTyped o1 = c.wellTyped o2 := by
  induction c with
  | tt => exact ⟨rfl, rfl⟩
  | truthy f => simp [Cond.eval, Cond.wellTyped, h f (by simp [condReads])]
  | notNone f => simp [Cond.eval, Cond.wellTyped, h f (by simp [condReads])]
  | reMatch p f => simp [Cond.eval, Cond.wellTyped, h f (by simp [condReads])]
  | startsWith f pre => simp [Cond.eval, Cond.wellTyped, h f (by simp [condReads])]
  | contains f ch => simp [Cond.eval, Cond.wellTyped, h f (by simp [condReads])]
  | not c ih =>
    have := ih (fun x hx => h x (by simpa [condReads] using hx))
    simp [Cond.eval, Cond.wellTyped, this.1, this.2]
  | and a b iha ihb =>
    have ha := iha (fun x hx => h x (by simp [condReads, hx]))
    have hb := ihb (fun x hx => h x (by simp [condReads, hx]))
    simp [Cond.eval, Cond.wellTyped, ha.1, ha.2, hb.1, hb.2]

def isTruthyGuard (g : Str) : Cond → Bool
  | .truthy f => f == g
  | _ => false

/-- the verdict of the rule cannot depend on field `f` while field `g` is falsy -/
def ruleIndep (f g : Str) (allow : List Str) : Rule → Bool
  | .type f' _ => f' != f
  | .value f' _ => f' != f
  | .notBlank f' => f' != f
  | .re f' _ => f' != f
  | .failIf c => !(condReads c).contains f
  | .guarded c r => isTruthyGuard g c || (!(condReads c).contains f && ruleIndep f g allow r)
  | .custom n => allow.contains n

theorem rule_congr (cu : Str → Obj → Except Err Unit) (o1 o2 : Obj) (f g : Str) (allow : List Str)
    (hagree : ∀ x, x ≠ f → o1.get x = o2.get x)
    (hg1 : (o1.get g).truthy = false) (hg2 : (o2.get g).truthy = false)
    (hallow : ∀ n ∈ allow, cu n o1 = cu n o2) (r : Rule) (hr : ruleIndep f g allow r = true) :
    r.check cu o1 = r.check cu o2 := by
  induction r with
  | type f' ts =>
    have : f' ≠ f := by simpa [ruleIndep] using hr
    simp [Rule.check, hagree f' this]
  | value f' t =>
    have : f' ≠ f := by simpa [ruleIndep] using hr
    simp [Rule.check, hagree f' this]
  | notBlank f' =>
    have : f' ≠ f := by simpa [ruleIndep] using hr
    simp [Rule.check, hagree f' this]
  | re f' ps =>
    have : f' ≠ f := by simpa [ruleIndep] using hr
    simp [Rule.check, hagree f' this]
  | failIf c =>
    have hnot : f ∉ condReads c := by simpa [ruleIndep] using hr
    have := cond_congr o1 o2 c (fun x hx => hagree x (fun e => hnot (e ▸ hx)))
    simp [Rule.check, this.1, this.2]
  | guarded c r ih =>
    simp only [ruleIndep, Bool.or_eq_true, Bool.and_eq_true] at hr
    rcases hr with hr | hr
    · cases c <;> simp [isTruthyGuard] at hr
      subst hr
      simp [Rule.check, Cond.wellTyped, Cond.eval, hg1, hg2]
    · have hnot : f ∉ condReads c := by simpa using hr.1
      have := cond_congr o1 o2 c (fun x hx => hagree x (fun e => hnot (e ▸ hx)))
      simp [Rule.check, this.1, this.2, ih hr.2]
  | custom n =>
    have : n ∈ allow := by simpa [ruleIndep] using hr
    simp [Rule.check, hallow n this]

theorem runRules_congr (cu : Str → Obj → Except Err Unit) (o1 o2 : Obj) (rs : List Rule)
    (h : ∀ r ∈ rs, r.check cu o1 = r.check cu o2) : runRules cu o1 rs = runRules cu o2 rs := by
  induction rs with
  | nil => rfl
  | cons r rs ih =>
    simp only [runRules, h r (List.mem_cons_self)]
    rw [ih (fun r' hr' => h r' (List.mem_cons_of_mem _ hr'))]

/-! ### the compose section -/

def composeRules : List Rule := Gen.rules_composeinfo_Compose.flat

theorem composeValidate_eq (o : Obj) : composeValidate o = runRules customs o composeRules := by
  unfold composeValidate validateClass composeRules
  rfl

def labelCustom : Str := "composeinfo.Compose._validate_label:verify_label(self.label)".toList

/-- obligation on the generated rule list: `final` is looked at only under `if self.label:` -/
theorem compose_rules_indep :
    composeRules.all (ruleIndep (lit "final") (lit "label") [labelCustom]) = true := by decide +kernel

theorem customs_label (o : Obj) : customs labelCustom o = verifyLabel (o.get (lit "label")) := by
  unfold customs
  have : customTable.find? (·.1 == labelCustom) =
      some (labelCustom, fun o => verifyLabel (o.get "label".toList)) := by
    simp only [customTable, List.find?]
    have : (("composeinfo.Compose._validate_label:verify_label(self.label)".toList) == labelCustom) = true := by decide
    simp only [this]
    rfl
  rw [this]
  rfl

theorem get_toObj_ne_final (c : ComposeT) (b : Bool) (x : Str) (hx : x ≠ lit "final") :
    Obj.get ({ c with final := b } : ComposeT).toObj x = Obj.get c.toObj x := by
  have hne : (lit "final" == x) = false := beq_false_of_ne (fun e => hx e.symm)
  simp only [ComposeT.toObj, Obj.get, List.find?]
  repeat' split
  all_goals simp_all

/-- `final` does not matter to the validity of a compose section without a label -/
theorem composeValidate_final (c : ComposeT) (hl : c.label = none) (b : Bool) :
    composeValidate ({ c with final := b } : ComposeT).toObj = composeValidate c.toObj := by
  rw [composeValidate_eq, composeValidate_eq]
  apply runRules_congr
  intro r hr
  have hind : ruleIndep (lit "final") (lit "label") [labelCustom] r = true :=
    List.all_eq_true.mp compose_rules_indep r hr
  have hlab1 : Obj.get ({ c with final := b } : ComposeT).toObj (lit "label") = .none := by
    rw [get_toObj_ne_final c b _ (by decide)]
    show optStr c.label = .none
    rw [hl]; rfl
  have hlab2 : Obj.get c.toObj (lit "label") = .none := by
    show optStr c.label = .none
    rw [hl]; rfl
  apply rule_congr customs _ _ (lit "final") (lit "label") [labelCustom]
    (fun x hx => get_toObj_ne_final c b x hx) (by rw [hlab1]; rfl) (by rw [hlab2]; rfl) _ r hind
  intro n hn
  simp only [List.mem_singleton] at hn
  subst hn
  rw [customs_label, customs_label, hlab1, hlab2]

def isCustom (n : Str) : Rule → Bool
  | .custom m => m == n
  | _ => false

theorem mem_of_isCustom (n : Str) (rs : List Rule) (h : rs.any (isCustom n) = true) : Rule.custom n ∈ rs := by
  obtain ⟨r, hr, hc⟩ := List.any_eq_true.mp h
  cases r <;> simp [isCustom] at hc
  subst hc
  exact hr

/-- an empty label never validates (`verify_label("")` matches none of the label patterns) -/
theorem composeValidate_empty_label (c : ComposeT) (hl : c.label = some []) : composeValidate c.toObj ≠ .ok () := by
  rw [composeValidate_eq]
  intro h
  have hmem : Rule.custom labelCustom ∈ composeRules := mem_of_isCustom _ _ (by decide +kernel)
  have := (runRules_ok_iff customs c.toObj composeRules).mp h _ hmem
  simp only [Rule.check] at this
  rw [customs_label] at this
  have hlab : Obj.get c.toObj (lit "label") = .str [] := by
    show optStr c.label = .str []
    rw [hl]; rfl
  rw [hlab] at this
  revert this
  decide +kernel

/-- **the normalised compose section of a valid one is valid** -/
theorem composeValidate_norm (c : ComposeT) (hv : composeValidate c.toObj = .ok ()) :
    composeValidate c.norm.toObj = .ok () := by
  unfold ComposeT.norm
  cases hls : c.labelSet with
  | true => simpa using hv
  | false =>
    simp only [Bool.false_eq_true, ↓reduceIte]
    cases hl : c.label with
    | none =>
      have : ({ c with label := none, final := false } : ComposeT) = { c with final := false } := by
        obtain ⟨id, ty, date, respin, label, final⟩ := c
        simp only at hl
        subst hl
        rfl
      rw [this, composeValidate_final c hl false]
      exact hv
    | some l =>
      have hle : l = [] := by
        simp only [ComposeT.labelSet, hl, optStr, PyVal.truthy] at hls
        simpa using hls
      subst hle
      exact absurd hv (composeValidate_empty_label c hl)

end PM.Mf
