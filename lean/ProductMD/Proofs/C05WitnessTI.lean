import ProductMD.Proofs.C05TreeInfoIdem
import ProductMD.Model.IniParse
import ProductMD.Model.TreeInfoText
/-!
C05, treeinfo witnesses evaluated in the kernel (kept out of `Properties/C05.lean` to keep each file's build short; the
property file restates each as `C05_ti_*_witness : <check> = true`).
-/
set_option Elab.async false
namespace PM
open PM.TI PM.Ini

/-- float oracle that is exact on integer texts (the witnesses below use integer timestamps) -/
def intOracle : FloatOracle := ⟨Str.pyInt, fun s => .ok s⟩
def iniSec (n : String) (kv : List (String × String)) : Str × IniSec := (n.toList, kv.map fun p => (p.1.toList, p.2.toList))

/-- load (any version), write, parse the written text, load, write -/
def tiUpgradeCycle (d : Ini) : Except Err (TreeInfo × Ini × TreeInfo × Ini) := do
  let t ← TI.Legacy.deserialize intOracle d
  let d1 ← TI.serialize t none
  let d1' ← IniParse.parse Str.isPySpace (IniText.render d1)
  let t2 ← TI.Legacy.deserialize intOracle d1'
  let d2 ← TI.serialize t2 none
  pure (t, d1, t2, d2)

def vsum : Variant → List (Str × Str × List (Str × Str) × List Str)
  | .mk _ _ uid _ type paths kids => [(uid, type, paths, kids.map Variant.uid)]

/-- a 0.3 file: `[product]`, children under `variants`, a `src` tree whose source paths sit in `packages` / `repository` -/
def wTI03 : Ini :=
  [iniSec "header" [("version", "0.3")],
   iniSec "product" [("name", "Fedora"), ("short", "F"), ("version", "21")],
   iniSec "tree" [("arch", "src"), ("build_timestamp", "123"), ("platforms", "src"), ("variants", "Server")],
   iniSec "variant-Server" [("id", "Server"), ("uid", "Server"), ("name", "Server"), ("type", "variant"), ("packages", "SRPMS"),
                            ("repository", "."), ("variants", "Server-HA")],
   iniSec "addon-Server-HA" [("id", "HA"), ("uid", "Server-HA"), ("name", "HA"), ("type", "addon")]]

/-- **faithful and idempotent on a 0.3 witness**: `[product]` becomes the release, the child listed under `variants` is
found in its `addon-` section, the `src` tree's paths become `source_packages` / `source_repository`; the written
file is re-read and written again to the same document -/
def tiUpgrade03Check : Bool :=
    (match tiUpgradeCycle wTI03 with
     | .ok (t, d1, _, d2) =>
       t.release.name == "Fedora".toList && t.isLayered == false && t.tree.arch == "src".toList
       && t.variants.flatMap vsum == [("Server".toList, "variant".toList,
            [("source_packages".toList, "SRPMS".toList), ("source_repository".toList, ".".toList)], ["Server-HA".toList])]
       && t.headerVersion == TI.currentVersion && d1 == d2
     | .error _ => false)

theorem tiUpgrade03Check_true : tiUpgrade03Check = true := by decide +kernel

/-- a pre-productmd file (no header): RHEL 5 Server by its family name, absolute image paths -/
def wTI00 : Ini :=
  [iniSec "general" [("family", "Red Hat Enterprise Linux Server"), ("version", "5.8"), ("arch", "i386"), ("timestamp", "5"),
                     ("packagedir", "Server"), ("totaldiscs", "2")],
   iniSec "images-i386" [("kernel", "/mnt/os/images/vmlinuz")],
   iniSec "stage2" [("mainimage", "/images/stage2.img")]]

/-- **the pre-productmd heuristics on a witness, and idempotence** (for 0.0 nothing more general is claimed: the
mapping is the code): family prefix → name / short `RHEL`, variant `Server` from the family, the RHEL 5 addon table for
i386, repository named after the variant, `/os/` and leading slashes cut from image paths, disc number defaulting to 1 -/
def tiUpgrade00Check : Bool :=
    (match tiUpgradeCycle wTI00 with
     | .ok (t, d1, _, d2) =>
       t.release.name == "Red Hat Enterprise Linux".toList && t.release.short == "RHEL".toList && t.release.version == "5.8".toList
       && t.variants.flatMap vsum == [("Server".toList, "variant".toList,
            [("packages".toList, "Server".toList), ("repository".toList, "Server".toList)],
            ["Server-Cluster".toList, "Server-ClusterStorage".toList, "Server-VT".toList])]
       && (t.variants.flatMap Variant.kids).map Variant.type == ["addon".toList, "addon".toList, "addon".toList]
       && t.images == [("i386".toList, [("kernel".toList, "images/vmlinuz".toList)])]
       && t.mainimage == some "images/stage2.img".toList && t.discnum == some 1 && t.totaldiscs == some 2 && d1 == d2
     | .error _ => false)

theorem tiUpgrade00Check_true : tiUpgrade00Check = true := by decide +kernel

/-- **F12 witness**: the shipped `opensuse` fixture in miniature — a 1.0 file without `[tree]` and without variants —
loads, and the writer then fails with IndexError (`variants[0]` of an empty list in `General.serialize`) -/
def tiF12Check : Bool :=
    let d : Ini := [iniSec "header" [("version", "1.0")], iniSec "release" [("name", "openSUSE Leap"), ("version", "15.1")],
      iniSec "general" [("arch", "x86_64"), ("family", "openSUSE Leap"), ("version", "15.1"), ("platforms", "x86_64,xen")]]
    (match TI.Legacy.deserialize intOracle d with
     | .ok t => (match TI.serialize t none with | .error .indexError => true | _ => false) && t.variants.isEmpty
     | .error _ => false)

theorem tiF12Check_true : tiF12Check = true := by decide +kernel

end PM
