import ProductMD.Proofs.ImagesCanon3
import ProductMD.Proofs.SortK
/-!
The image table of the key-sorted document: `canon o.toPy = (canonOut o).toPy` where `canonOut` sorts the variants, sorts
the arches of every variant and puts every image dictionary in canonical form; it has unique keys and holds the same
entries (canonicalised) as `o`, in another order.
-/
namespace PM.Img
open PM PM.PyOps PM.Spec PM.Mf
set_option Elab.async false

theorem insertKv_map {α : Type} (f : α → PyVal) (kv : Str × α) (l : List (Str × α)) :
    PyVal.insertKv (kv.1, f kv.2) (l.map fun p => (p.1, f p.2)) = (insertK kv l).map fun p => (p.1, f p.2) := by
  induction l with
  | nil => rfl
  | cons x xs ih =>
    simp only [List.map_cons, PyVal.insertKv, insertK]
    split
    · rfl
    · simp only [List.map_cons, ih]

theorem sortKvs_map {α : Type} (f : α → PyVal) (l : List (Str × α)) :
    PyVal.sortKvs (l.map fun p => (p.1, f p.2)) = (sortK l).map fun p => (p.1, f p.2) := by
  induction l with
  | nil => rfl
  | cons x xs ih =>
    simp only [List.map_cons, PyVal.sortKvs, List.foldr_cons, sortK] at ih ⊢
    rw [ih]
    exact insertKv_map f x _

def canonArch (as : List (Str × List PyVal)) : List (Str × List PyVal) := sortK (as.map fun al => (al.1, PyVal.canonList al.2))
def canonOut (o : OutCells) : OutCells := sortK (o.map fun va => (va.1, canonArch va.2))

theorem canon_archsPy (as : List (Str × List PyVal)) : PyVal.canon (archsPy as) = archsPy (canonArch as) := by
  unfold archsPy canonArch
  simp only [PyVal.canon, canonKvs_eq_map, List.map_map]
  have : ((fun kv : Str × PyVal => (kv.1, PyVal.canon kv.2)) ∘ fun al : Str × List PyVal => (al.1, PyVal.list al.2))
      = fun al => (al.1, PyVal.list (PyVal.canonList al.2)) := by
    funext al; simp [PyVal.canon]
  rw [this]
  have h := sortKvs_map (fun l : List PyVal => PyVal.list l) (as.map fun al => (al.1, PyVal.canonList al.2))
  simp only [List.map_map] at h
  have e : ((fun p : Str × List PyVal => (p.1, PyVal.list p.2)) ∘ fun al : Str × List PyVal => (al.1, PyVal.canonList al.2))
      = fun al => (al.1, PyVal.list (PyVal.canonList al.2)) := by
    funext al; rfl
  rw [e] at h
  rw [h]

theorem canon_toPy (o : OutCells) : PyVal.canon o.toPy = (canonOut o).toPy := by
  rw [toPy_eq, toPy_eq]
  unfold canonOut
  simp only [PyVal.canon, canonKvs_eq_map, List.map_map]
  have : ((fun kv : Str × PyVal => (kv.1, PyVal.canon kv.2)) ∘ fun va : Str × List (Str × List PyVal) => (va.1, archsPy va.2))
      = fun va => (va.1, archsPy (canonArch va.2)) := by
    funext va; simp [canon_archsPy]
  rw [this]
  have h := sortKvs_map archsPy (o.map fun va => (va.1, canonArch va.2))
  simp only [List.map_map] at h
  have e : ((fun p : Str × List (Str × List PyVal) => (p.1, archsPy p.2)) ∘ fun va : Str × List (Str × List PyVal) => (va.1, canonArch va.2))
      = fun va => (va.1, archsPy (canonArch va.2)) := by
    funext va; rfl
  rw [e] at h
  rw [h]

theorem canonArch_keys (as : List (Str × List PyVal)) : ((canonArch as).map (·.1)).Perm (as.map (·.1)) := by
  unfold canonArch
  refine ((sortK_perm _).map _).trans ?_
  simp [List.map_map, Function.comp_def]

theorem canonOut_nodup (o : OutCells) (h : OutNodup o) : OutNodup (canonOut o) := by
  have hp : (canonOut o).Perm (o.map fun va => (va.1, canonArch va.2)) := sortK_perm _
  constructor
  · have : ((canonOut o).map (·.1)).Perm (o.map (·.1)) := by
      refine (hp.map _).trans ?_
      simp [List.map_map, Function.comp_def]
    exact this.nodup_iff.mpr h.1
  · intro va hva
    obtain ⟨va0, hva0, rfl⟩ := List.mem_map.mp (hp.mem_iff.mp hva)
    exact (canonArch_keys va0.2).nodup_iff.mpr (h.2 va0 hva0)

theorem archTriples_perm (v : Str) {l₁ l₂ : List (Str × List PyVal)} (h : l₁.Perm l₂) : (archTriples v l₁).Perm (archTriples v l₂) :=
  List.Perm.flatMap_right _ h

theorem archTriples_canonArch (v : Str) (as : List (Str × List PyVal)) :
    (archTriples v (canonArch as)).Perm ((archTriples v as).map fun t => (t.1, t.2.1, PyVal.canon t.2.2)) := by
  refine (archTriples_perm v (sortK_perm _)).trans ?_
  have : archTriples v (as.map fun al => (al.1, PyVal.canonList al.2)) = (archTriples v as).map fun t => (t.1, t.2.1, PyVal.canon t.2.2) := by
    simp only [archTriples, List.flatMap_map, List.map_flatMap, List.map_map, canonList_eq_map, Function.comp_def]
  rw [this]

theorem flatMap_perm_congr {α β : Type} {f g : α → List β} : ∀ (l : List α), (∀ a ∈ l, (f a).Perm (g a)) → (l.flatMap f).Perm (l.flatMap g) := by
  intro l
  induction l with
  | nil => intro _; exact List.Perm.refl _
  | cons x xs ih =>
    intro h
    simp only [List.flatMap_cons]
    exact List.Perm.append (h x List.mem_cons_self) (ih fun a ha => h a (List.mem_cons_of_mem _ ha))

theorem outTriples_canonOut (o : OutCells) :
    (outTriples (canonOut o)).Perm ((outTriples o).map fun t => (t.1, t.2.1, PyVal.canon t.2.2)) := by
  have hp : (canonOut o).Perm (o.map fun va => (va.1, canonArch va.2)) := sortK_perm _
  refine (List.Perm.flatMap_right _ hp).trans ?_
  simp only [outTriples, List.flatMap_map, List.map_flatMap]
  exact flatMap_perm_congr o fun va _ => archTriples_canonArch va.1 va.2

end PM.Img
