import ProductMD.Proofs.ImagesCanon4
/-!
`Images.deserialize` on the KEY-SORTED document of a manifest: it succeeds and files, under the same variants and arches,
the images with their containers in canonical form — a permutation (variants, arches and cells are visited in sorted
order) of the filings of the manifest, each the same content (`Image.Same`).
-/
namespace PM.Img
open PM PM.PyOps PM.Spec PM.Mf
set_option Elab.async false

theorem loadOne_good_d (images : PyVal) (s : ImgState) (n : Nat) (v a : Str) (d : PyVal) (i : Image)
    (hs : s.version = .str currentVersion) (hd : Image.deserialize (.str currentVersion) d = .ok i)
    (ha : Gen.RPM_ARCHES.contains a = true) (hr : refusedArches.contains a = false) (hc : conflict s.cells i = false) :
    loadCell (.str currentVersion) images (.str v) (.str a) [d] (s, n)
      = .ok ({ s with cells := cellsAdd s.cells v a n i }, n + 1) := by
  have hacc := add_accepts s v a n i (hs ▸ cur_enforces) ha hr hc
  simp only [loadCell, hd, cur_vt, cur_not_old_images, fileLoaded, addPy, hacc, bind, Except.bind]
  rfl

/-- loading entries that are read as valid, admissible, pairwise compatible images (any dictionaries, `rd` names the
image each is read as) -/
theorem loadTriples_good_d (images : PyVal) (rd : PyVal → Image) (A : List Image)
    (hA : ∀ i ∈ A, ∀ j ∈ A, SameIdentity i j → PyEq i.checksums j.checksums) :
    ∀ (ts : List (Str × Str × PyVal)) (s : ImgState) (n : Nat),
      (∀ t ∈ ts, Image.deserialize (.str currentVersion) t.2.2 = .ok (rd t.2.2) ∧ rd t.2.2 ∈ A
        ∧ Gen.RPM_ARCHES.contains t.2.1 = true ∧ refusedArches.contains t.2.1 = false) →
      s.version = .str currentVersion → (∀ x ∈ s.cells.all, x ∈ A) → IdsBelow n s.cells →
      ∃ s', loadTriples (.str currentVersion) images ts (s, n) = .ok (s', n + ts.length)
        ∧ s'.version = s.version ∧ s'.compose = s.compose
        ∧ (triples s'.cells).Perm (ts.map (fun t => (t.1, t.2.1, rd t.2.2)) ++ triples s.cells) := by
  intro ts
  induction ts with
  | nil => intro s n _ _ _ _; exact ⟨s, rfl, rfl, rfl, List.Perm.refl _⟩
  | cons t rest ih =>
    intro s n hts hs hsub hids
    obtain ⟨v, a, d⟩ := t
    obtain ⟨hd, hiA, ha, hr⟩ := hts (v, a, d) List.mem_cons_self
    simp only at hd hiA ha hr
    have hc : conflict s.cells (rd d) = false := by
      rw [conflict_false_iff]
      intro cur hcur hid
      exact hA cur (hsub cur hcur) (rd d) hiA hid
    have h1 := loadOne_good_d images s n v a d (rd d) hs hd ha hr hc
    obtain ⟨htr, hids'⟩ := triples_cellsAdd v a n (rd d) s.cells hids
    have hsub' : ∀ x ∈ (cellsAdd s.cells v a n (rd d)).all, x ∈ A := by
      intro x hx
      rcases mem_cellsAdd hx with rfl | h'
      · exact hiA
      · exact hsub x h'
    obtain ⟨s', hl, hv', hc', hp'⟩ := ih { s with cells := cellsAdd s.cells v a n (rd d) } (n + 1)
      (fun u hu => hts u (List.mem_cons_of_mem _ hu)) hs hsub' hids'
    refine ⟨s', ?_, hv', hc', ?_⟩
    · simp only [loadTriples, h1, Except.bind]
      rw [hl]
      simp only [List.length_cons]
      congr 2
      omega
    · refine hp'.trans ?_
      simp only [List.map_cons, List.cons_append]
      exact (List.Perm.append_left _ htr).trans List.perm_middle

/-- the total reader: the image a dictionary is read as under the current format version -/
def readC (d : PyVal) : Image :=
  match Image.deserialize (.str currentVersion) d with
  | .ok i => i
  | .error _ => default

theorem header_roundtrip_c (p : PyVal) :
    headerDeserialize (.dict [(L "header", .dict [(L "type", .str Gen.HEADER_TYPE_Images), (L "version", .str currentVersion)]),
      (L "payload", p)]) = .ok (.str currentVersion) := by rfl

/-- the key-sorted form of the written document -/
theorem canon_doc (X cd : PyVal) :
    PyVal.canon (.dict [(L "header", .dict [(L "type", .str Gen.HEADER_TYPE_Images), (L "version", .str currentVersion)]),
      (L "payload", .dict [(L "images", X), (L "compose", cd)])])
    = .dict [(L "header", .dict [(L "type", .str Gen.HEADER_TYPE_Images), (L "version", .str currentVersion)]),
      (L "payload", .dict [(L "compose", PyVal.canon cd), (L "images", PyVal.canon X)])] := by rfl

/-- **the reader on the key-sorted document** -/
theorem deserialize_canon_doc (m : ImgState)
    (hi : ∀ i ∈ m.cells.all, i.validate = .ok () ∧ ProperInts i ∧ ContainersRep i)
    (ha : ∀ t ∈ triples m.cells, Gen.RPM_ARCHES.contains t.2.1 = true ∧ refusedArches.contains t.2.1 = false)
    (hu : Uniq m.cells) (cd : PyVal) (hcd : m.compose.serialize = .ok cd) :
    ∃ m'', deserialize (PyVal.canon (.dict [(L "header", .dict [(L "type", .str Gen.HEADER_TYPE_Images), (L "version", .str currentVersion)]),
        (L "payload", .dict [(L "images", (outFold (triples m.cells) []).toPy), (L "compose", cd)])])) = .ok m''
      ∧ m''.compose = composeNorm m.compose ∧ m''.version = .str currentVersion
      ∧ (triples m''.cells).Perm ((triples m.cells).map fun t => (t.1, t.2.1, canonC t.2.2)) := by
  have hON : OutNodup (outFold (triples m.cells) []) := outFold_nodup _ [] ⟨List.nodup_nil, fun _ h => by cases h⟩
  have hOP : (outTriples (outFold (triples m.cells) [])).Perm ((triples m.cells).map fun t => (t.1, t.2.1, t.2.2.dict)) := by
    have := outFold_perm (triples m.cells) []
    simpa [outTriples] using this
  generalize outFold (triples m.cells) [] = O at hON hOP ⊢
  have hCN := canonOut_nodup O hON
  have hCP : (outTriples (canonOut O)).Perm ((triples m.cells).map fun t => (t.1, t.2.1, PyVal.canon t.2.2.dict)) := by
    refine (outTriples_canonOut O).trans ?_
    have := hOP.map (fun t : Str × Str × PyVal => (t.1, t.2.1, PyVal.canon t.2.2))
    simpa [List.map_map, Function.comp_def] using this
  have hmemA : ∀ u ∈ triples m.cells, u.2.2 ∈ m.cells.all := by
    intro u hu'; rw [all_eq]; exact List.mem_map.mpr ⟨u, hu', rfl⟩
  -- the compatible set: the canonicalised images of m
  let A := m.cells.all.map canonC
  have hA : ∀ i ∈ A, ∀ j ∈ A, SameIdentity i j → PyEq i.checksums j.checksums := by
    intro i' hi' j' hj' hid
    obtain ⟨i, hi0, rfl⟩ := List.mem_map.mp hi'
    obtain ⟨j, hj0, rfl⟩ := List.mem_map.mp hj'
    have ci := canonC_identity i (hi i hi0).2.2
    have cj := canonC_identity j (hi j hj0).2.2
    unfold SameIdentity PyEq at hid
    rw [ci.1, cj.1] at hid
    unfold PyEq
    rw [ci.2, cj.2]
    exact hu i hi0 j hj0 hid
  have hts : ∀ t ∈ outTriples (canonOut O), Image.deserialize (.str currentVersion) t.2.2 = .ok (readC t.2.2) ∧ readC t.2.2 ∈ A
      ∧ Gen.RPM_ARCHES.contains t.2.1 = true ∧ refusedArches.contains t.2.1 = false := by
    intro t ht
    obtain ⟨u, hu', rfl⟩ := List.mem_map.mp (hCP.mem_iff.mp ht)
    obtain ⟨hv, hp, hr⟩ := hi _ (hmemA u hu')
    have hd := image_roundtrip_canon u.2.2 hv hp hr
    have hrd : readC (PyVal.canon u.2.2.dict) = canonC u.2.2 := by simp [readC, hd]
    simp only [hrd]
    exact ⟨hd, List.mem_map.mpr ⟨u.2.2, hmemA u hu', rfl⟩, ha u hu'⟩
  obtain ⟨s', hl, hv', hc', hp'⟩ := loadTriples_good_d (canonOut O).toPy readC A hA (outTriples (canonOut O))
    { version := .str currentVersion, compose := composeNorm m.compose, cells := [] } 0 hts rfl
    (by intro x hx; simp [Cells.all] at hx) (by intro e he; simp [entries] at he)
  have hload : loadVariants (.str currentVersion) (canonOut O).toPy ((canonOut O).map fun va => .str va.1)
      ({ version := .str currentVersion, compose := composeNorm m.compose, cells := [] }, 0) = .ok (s', 0 + (outTriples (canonOut O)).length) := by
    rw [loadVariants_eq (.str currentVersion) (canonOut O) hCN (canonOut O) (fun _ h => h)]
    exact hl
  have hiter : iter (canonOut O).toPy = .ok ((canonOut O).map fun va => .str va.1) := by
    simp [toPy_eq, iter, List.map_map, Function.comp_def]
  refine ⟨{ s' with version := .str currentVersion }, ?_, hc', rfl, ?_⟩
  · rw [canon_doc, canon_toPy]
    have hcomp := compose_roundtrip_canon m.compose (canonOut O).toPy cd hcd
    simp only [deserialize, header_roundtrip_c, bind, Except.bind]
    have e1 : item (.dict [(L "header", .dict [(L "type", .str Gen.HEADER_TYPE_Images), (L "version", .str currentVersion)]),
        (L "payload", .dict [(L "compose", PyVal.canon cd), (L "images", (canonOut O).toPy)])]) (L "payload")
        = .ok (.dict [(L "compose", PyVal.canon cd), (L "images", (canonOut O).toPy)]) := by rfl
    have e2 : item (.dict [(L "compose", PyVal.canon cd), (L "images", (canonOut O).toPy)]) (L "images") = .ok (canonOut O).toPy := by rfl
    simp only [e1, hcomp, e2, hiter, hload]
  · show (triples s'.cells).Perm _
    have hnil : triples ([] : Cells) = [] := rfl
    simp only [hnil, List.append_nil] at hp'
    refine hp'.trans ?_
    refine (hCP.map (fun t : Str × Str × PyVal => (t.1, t.2.1, readC t.2.2))).trans ?_
    rw [List.map_map]
    have : ((triples m.cells).map ((fun t : Str × Str × PyVal => (t.1, t.2.1, readC t.2.2)) ∘ fun t : Str × Str × Image => (t.1, t.2.1, PyVal.canon t.2.2.dict)))
        = (triples m.cells).map fun t => (t.1, t.2.1, canonC t.2.2) := by
      apply List.map_congr_left
      intro u hu'
      obtain ⟨hv, hp, hr⟩ := hi _ (hmemA u hu')
      have hd := image_roundtrip_canon u.2.2 hv hp hr
      simp [readC, hd]
    rw [this]

end PM.Img
